(* Master/Backoff.v — model of `ExponentialBackOff` / `RetryStrategy` (dnp3/src/app/retry.rs).
   Definitions only.

   A Rust `Duration` is modelled as a non-negative `Z` counted in some unit u (nanoseconds for the
   direct correspondence with app::retry, milliseconds inside the association model).  `limit` is
   the first value a Duration cannot hold, in the same unit:
     - nanoseconds : 2^64 * 10^9   (u64 seconds, nanos < 10^9)
     - milliseconds: 2^64 * 1000   (only whole milliseconds are used by the association model, and
                                    2*(m*10^6) < 2^64*10^9  <->  2*m < 2^64*1000)
   `Duration::checked_mul(2)` is `Some (2*x)` iff `2*x < limit`.

   What is abstracted: nothing of retry.rs itself.  `RetryStrategy::new` performs NO validation
   (min > max and min = 0 are accepted); the model therefore takes arbitrary min/max. *)
From Coq Require Import ZArith List Lia.
Import ListNotations.
Open Scope Z_scope.

Definition limit_ns : Z := 2 ^ 64 * 10 ^ 9.
Definition limit_ms : Z := 2 ^ 64 * 1000.

Record strategy := { s_min : Z; s_max : Z }.

(* struct ExponentialBackOff { strategy, last: Option<Duration> } *)
Record backoff := { b_strategy : strategy; b_last : option Z }.

Definition backoff_new (s : strategy) : backoff := {| b_strategy := s; b_last := None |}.

Definition checked_double (limit x : Z) : option Z :=
  if 2 * x <? limit then Some (2 * x) else None.

(* x.checked_mul(2).unwrap_or(max).min(max) *)
Definition next_delay (limit max x : Z) : Z :=
  Z.min (match checked_double limit x with Some y => y | None => max end) max.

Definition on_success (b : backoff) : backoff := {| b_strategy := b_strategy b; b_last := None |}.

Definition on_failure (limit : Z) (b : backoff) : backoff * Z :=
  match b_last b with
  | Some x =>
      let next := next_delay limit (s_max (b_strategy b)) x in
      ({| b_strategy := b_strategy b; b_last := Some next |}, next)
  | None =>
      let m := s_min (b_strategy b) in
      ({| b_strategy := b_strategy b; b_last := Some m |}, m)
  end.

(* the delays returned by n consecutive failures *)
Fixpoint failures (limit : Z) (b : backoff) (n : nat) : list Z * backoff :=
  match n with
  | O => ([], b)
  | S k => let '(b1, d) := on_failure limit b in
           let '(ds, b2) := failures limit b1 k in (d :: ds, b2)
  end.

(* closed form: the n-th delay (n = 0 is the first) of an uninterrupted run of failures *)
Fixpoint nth_delay (limit min max : Z) (n : nat) : Z :=
  match n with
  | O => min
  | S k => next_delay limit max (nth_delay limit min max k)
  end.

(* what the engine prints for `backoff <min> <max> <n>`: n delays, then the first delay after
   on_success *)
Definition run_backoff (limit min max : Z) (n : nat) : list Z * Z :=
  let b := backoff_new {| s_min := min; s_max := max |} in
  let '(ds, b1) := failures limit b n in
  (ds, snd (on_failure limit (on_success b1))).
