(* Master/Backoff.v — model of `ExponentialBackOff` / `RetryStrategy` (dnp3/src/app/retry.rs).
   Definitions only.

   A Rust `Duration` is modelled as a non-negative `Z` counted in some unit u (nanoseconds for the
   direct correspondence with app::retry, milliseconds inside the association model).  `limit` is
   the first value a Duration cannot hold, in the same unit:
     - nanoseconds : 2^64 * 10^9   (u64 seconds, nanos < 10^9)
     - milliseconds: 2^64 * 1000   (only whole milliseconds are used by the association model, and
                                    2*(m*10^6) < 2^64*10^9  <->  2*m < 2^64*1000)
   `Duration::checked_mul(2)` is `Some (2*x)` iff `2*x < limit`.

   What is abstracted: nothing of retry.rs itself.  `RetryStrategy::new` performs NO validation
   (min > max and min = 0 are accepted); the model therefore takes arbitrary min/max. *)
From Coq Require Import ZArith List Lia.
Import ListNotations.
Open Scope Z_scope.

Definition ms_limit_ns : Z := 2 ^ 64 * 10 ^ 9.
Definition ms_limit_ms : Z := 2 ^ 64 * 1000.

Record ms_strategy := { ms_s_min : Z; ms_s_max : Z }.

(* struct ExponentialBackOff { ms_strategy, last: Option<Duration> } *)
Record ms_backoff := { ms_b_strategy : ms_strategy; ms_b_last : option Z }.

Definition ms_backoff_new (s : ms_strategy) : ms_backoff := {| ms_b_strategy := s; ms_b_last := None |}.

Definition ms_checked_double (limit x : Z) : option Z :=
  if 2 * x <? limit then Some (2 * x) else None.

(* x.checked_mul(2).unwrap_or(max).min(max) *)
Definition ms_next_delay (limit max x : Z) : Z :=
  Z.min (match ms_checked_double limit x with Some y => y | None => max end) max.

Definition ms_on_success (b : ms_backoff) : ms_backoff := {| ms_b_strategy := ms_b_strategy b; ms_b_last := None |}.

Definition ms_on_failure (limit : Z) (b : ms_backoff) : ms_backoff * Z :=
  match ms_b_last b with
  | Some x =>
      let ms_next := ms_next_delay limit (ms_s_max (ms_b_strategy b)) x in
      ({| ms_b_strategy := ms_b_strategy b; ms_b_last := Some ms_next |}, ms_next)
  | None =>
      let m := ms_s_min (ms_b_strategy b) in
      ({| ms_b_strategy := ms_b_strategy b; ms_b_last := Some m |}, m)
  end.

(* the delays returned by n consecutive ms_failures *)
Fixpoint ms_failures (limit : Z) (b : ms_backoff) (n : nat) : list Z * ms_backoff :=
  match n with
  | O => ([], b)
  | S k => let '(b1, d) := ms_on_failure limit b in
           let '(ds, b2) := ms_failures limit b1 k in (d :: ds, b2)
  end.

(* closed form: the n-th delay (n = 0 is the first) of an uninterrupted ms_run of ms_failures *)
Fixpoint ms_nth_delay (limit min max : Z) (n : nat) : Z :=
  match n with
  | O => min
  | S k => ms_next_delay limit max (ms_nth_delay limit min max k)
  end.

(* what the engine prints for `ms_backoff <min> <max> <n>`: n delays, then the first delay after
   ms_on_success *)
Definition ms_run_backoff (limit min max : Z) (n : nat) : list Z * Z :=
  let b := ms_backoff_new {| ms_s_min := min; ms_s_max := max |} in
  let '(ds, b1) := ms_failures limit b n in
  (ds, snd (ms_on_failure limit (ms_on_success b1))).

(* arithmetic the OCaml engine uses to read and print durations beyond 63 bits *)
Definition ms_zadd (a b : Z) : Z := a + b.
Definition ms_zmul (a b : Z) : Z := a * b.
Definition ms_zdiv (a b : Z) : Z := a / b.
Definition ms_zmod (a b : Z) : Z := a mod b.
