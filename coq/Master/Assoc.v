(* Master/Assoc.v — one master ASSOCIATION: automatic ms_task states, IIN processing, restart
   handling, ms_unsolicited gating, the ms_poll map, the keep-alive deadline and the per-association
   choice of the ms_next ms_task.  Mirrors dnp3/src/master/association.rs (AutoTaskState, TaskStates,
   Association) and dnp3/src/master/ms_poll.rs.  Definitions only.

   ABSTRACTIONS (everything else is modelled one to one):
   * Virtual ms_time is `Z` milliseconds since the start of the script (`tokio::ms_time::Instant` under
     a paused clock; all configured durations are whole milliseconds).  Overflow of
     `Instant + Duration` (a panic in the code for absurd delays) is NOT modelled.
   * A received fragment is reduced to its application header fields (`ms_rxfrag`): UNS/FIR/FIN/CON,
     sequence, IIN1, IIN2, the raw object bytes (used only as the digest for duplicate detection,
     xxh64 in the code, and for emptiness), whether the objects parse (`ms_r_ok`), how many
     measurement values they carry (`ms_r_nvalues`, what the ReadHandler receives) and, for the
     non-LAN ms_time synchronisation, the delay of a lone g52v2 object (`ms_r_delay`).  The engine
     derives these from the fragment bytes.
   * User callbacks are oracles: `get_current_time` answers `base + now` or None (`ms_m_systime`).
   * Requests are rendered to bytes by `ms_request_bytes` (control octet, function code, class
     headers / time objects) exactly as the code formats them.
   * The queue of user requests holds (token, kind) pairs of the four kinds the engine offers
     (class read, link status, a request expecting an empty response, time synchronisation);
     commands, restarts, file transfer etc. are the business of C15/C16.
   * Observations `MsOUnsolIgnored`, `MsORestartSeen`, `MsOCleared`, `MsOAssoc`, `MsOLinkEnd`,
     `MsOSleep`, `MsOStall` have no counterpart in the implementation's trace: they mark internal
     decisions for the theorems and are not printed by the engine.
   The model mirrors the code AFTER the repairs ed327bb (F15: retries at least 1 ms ahead),
   5ddd770 (F16: link activity credited to the source), 86bdefd (CON-flagged non-READ responses
   are confirmed), 588059f (unparseable unsolicited objects are not accepted) and dffa09f (link
   status deadline fixed when the request is sent). *)
From Coq Require Import ZArith NArith List Bool Lia.
From Dnp3V Require Import Master.Backoff.
Import ListNotations.
Open Scope Z_scope.

Definition ms_time := Z.

(* ---- configuration ------------------------------------------------------------------------ *)

(* class masks: bit0 = class 1, bit1 = class 2, bit2 = class 3, bit3 = class 0 *)
Definition ms_ev_mask (m : N) : N := N.land m 7.
Definition ms_ev_any (m : N) : bool := negb (N.eqb (N.land m 7) 0).
Definition ms_cl_any (m : N) : bool := negb (N.eqb (N.land m 15) 0).

Record ms_acfg := {
  ms_c_disable : N;            (* disable_unsol_classes *)
  ms_c_integrity : N;          (* startup_integrity_classes *)
  ms_c_enable : N;             (* enable_unsol_classes *)
  ms_c_tsync : N;              (* auto_time_sync: 0 none, 1 LAN, 2 non-LAN, 3 direct write *)
  ms_c_ovf : bool;             (* auto_integrity_scan_on_buffer_overflow *)
  ms_c_evscan : N;             (* event_scan_on_events_available *)
  ms_c_rmin : Z;               (* auto_tasks_retry_strategy, ms *)
  ms_c_rmax : Z;
  ms_c_keepalive : option Z;   (* keep_alive_timeout, ms *)
  ms_c_rto : Z;                (* response_timeout, ms *)
  ms_c_maxq : nat              (* max_queued_user_requests *)
}.

(* ---- tasks -------------------------------------------------------------------------------- *)

Inductive ms_tsync_state :=
| MsTsMeasure (t0 : option ms_time)      (* MeasureDelay(Option<Instant>) *)
| MsTsWriteAbs (ts : option Z)        (* WriteAbsoluteTime(Option<Timestamp>) *)
| MsTsRecord (ts : option Z)          (* RecordCurrentTime(Option<Timestamp>) *)
| MsTsWriteLast (ts : Z).             (* WriteLastRecordedTime(Timestamp) *)

Inductive ms_task :=
| MsTClearRestart
| MsTEnableUnsol (m : N)
| MsTDisableUnsol (m : N)
| MsTIntegrity (m : N)
| MsTEventScan (m : N)
| MsTPoll (id : N) (m : N)
| MsTTimeSync (st : ms_tsync_state) (promise : option N)
| MsTUserRead (m : N) (tok : N)
| MsTEmpty (tok : N)
| MsTLink (promise : option N).

(* requests of the user API: a class read, a link status check, a request that expects an empty
   response (IMMEDIATE_FREEZE without objects) and a time synchronisation *)
Inductive ms_ukind := MsUKRead (m : N) | MsUKLink | MsUKEmpty | MsUKTsync (p : N).

Inductive ms_ttype := MsKUserRead | MsKPoll | MsKIntegrity | MsKEventScan | MsKClearRestart | MsKEnableUnsol
                 | MsKDisableUnsol | MsKTimeSync | MsKEmpty.

Inductive ms_rtype := MsRtIntegrity | MsRtUnsol | MsRtSingle | MsRtPoll.

Inductive ms_err :=
| MsETooManyRequests | MsELink | MsETransport | MsEIin2 | MsEMalformed | MsEUnexpectedHeaders
| MsENonFinWithoutCon | MsENeverFir | MsEUnexpectedFir | MsEMultiFragment | MsETimeout | MsENoConnection
| MsEDisabled | MsEBadDelay | MsEOverflow | MsEStillNeedsTime | MsENoSystemTime.

Inductive ms_next (T : Type) :=
| MsNNone
| MsNNow (x : T)
| MsNNotBefore (t : ms_time).
Arguments MsNNone {T}.
Arguments MsNNow {T} x.
Arguments MsNNotBefore {T} t.

(* ---- observations ------------------------------------------------------------------------- *)

Inductive ms_obs :=
| MsOConn (t : ms_time)
| MsOClosed (t : ms_time) (why : ms_err)
| MsOTx (t : ms_time) (bytes : list N)
| MsOTxLink (t : ms_time) (a : N) (keepalive : bool)
| MsOCb (t : ms_time) (a : N) (rt : ms_rtype) (n : N)
| MsOStart (t : ms_time) (a : N) (k : ms_ttype) (fc : N) (seq : N)
| MsOOk (t : ms_time) (a : N) (k : ms_ttype) (fc : N) (seq : N)
| MsOFail (t : ms_time) (a : N) (k : ms_ttype) (e : ms_err)
| MsOUnsol (t : ms_time) (a : N) (dup : bool) (seq : N)
| MsORes (t : ms_time) (tok : N) (r : option ms_err)
| MsONow (t : ms_time)
(* model-only observations (not printed by the engine, used by the theorems) *)
| MsOUnsolIgnored (t : ms_time) (a : N)
| MsORestartSeen (t : ms_time) (a : N)       (* a restart indication re-armed the start-up tasks *)
| MsOCleared (t : ms_time) (a : N)           (* the clear-restart task reached Idle *)
| MsOAssoc (t : ms_time) (a : N) (c : ms_acfg)  (* the association was registered *)
| MsOLinkEnd (t : ms_time) (a : N)           (* a link status task ended *)
| MsOSleep (t : ms_time) (until : option ms_time)
| MsOStall (t : ms_time).

(* ---- received fragments ------------------------------------------------------------------- *)

Record ms_rxfrag := {
  ms_r_uns : bool; ms_r_fir : bool; ms_r_fin : bool; ms_r_con : bool;
  ms_r_seq : N; ms_r_iin1 : N; ms_r_iin2 : N;
  ms_r_objs : list N;
  ms_r_ok : bool;
  ms_r_nvalues : N;
  ms_r_delay : option Z
}.

Definition ms_iin_restart (f : ms_rxfrag) : bool := N.testbit (ms_r_iin1 f) 7.
Definition ms_iin_need_time (f : ms_rxfrag) : bool := N.testbit (ms_r_iin1 f) 4.
Definition ms_iin_overflow (f : ms_rxfrag) : bool := N.testbit (ms_r_iin2 f) 3.
Definition ms_iin_events (f : ms_rxfrag) : N := N.land (N.shiftr (ms_r_iin1 f) 1) 7.
Definition ms_iin_bad_request (f : ms_rxfrag) : bool := negb (N.eqb (N.land (ms_r_iin2 f) 7) 0).
Definition ms_has_objects (f : ms_rxfrag) : bool := match ms_r_objs f with [] => false | _ => true end.

(* ---- automatic ms_task state ------------------------------------------------------------------ *)

Inductive ms_auto_state :=
| MsAIdle
| MsAPending
| MsAFailed (b : ms_backoff) (nx : ms_time).

Definition ms_is_idle (s : ms_auto_state) : bool := match s with MsAIdle => true | _ => false end.
Definition ms_is_pending (s : ms_auto_state) : bool := negb (ms_is_idle s).

Definition ms_demand (s : ms_auto_state) : ms_auto_state := if ms_is_idle s then MsAPending else s.

(* the repair of F15: a retry is never scheduled less than 1 ms ahead *)
Definition ms_retry_delay (d : Z) : Z := Z.max d 1.

Definition ms_auto_failure (c : ms_acfg) (now : ms_time) (s : ms_auto_state) : ms_auto_state :=
  let b0 := match s with
            | MsAFailed b _ => b
            | _ => ms_backoff_new {| ms_s_min := ms_c_rmin c; ms_s_max := ms_c_rmax c |}
            end in
  let '(b1, d) := ms_on_failure ms_limit_ms b0 in
  MsAFailed b1 (now + ms_retry_delay d).

Definition ms_create_next (s : ms_auto_state) (now : ms_time) (t : ms_task) : ms_next ms_task :=
  match s with
  | MsAIdle => MsNNone
  | MsAPending => MsNNow t
  | MsAFailed _ nx => if nx <=? now then MsNNow t else MsNNotBefore nx
  end.

Record ms_task_states := {
  ms_ts_disable : ms_auto_state;
  ms_ts_integrity : ms_auto_state;
  ms_ts_enable : ms_auto_state;
  ms_ts_clear : ms_auto_state;
  ms_ts_time : ms_auto_state;
  ms_ts_evscan : ms_auto_state
}.

Definition ms_ts_new : ms_task_states :=
  {| ms_ts_disable := MsAPending; ms_ts_integrity := MsAPending; ms_ts_enable := MsAPending;
     ms_ts_clear := MsAIdle; ms_ts_time := MsAIdle; ms_ts_evscan := MsAIdle |}.

Definition ms_ts_on_restart (ts : ms_task_states) : ms_task_states :=
  {| ms_ts_disable := ms_ts_disable ts;
     ms_ts_integrity := ms_demand (ms_ts_integrity ts);
     ms_ts_enable := ms_demand (ms_ts_enable ts);
     ms_ts_clear := ms_demand (ms_ts_clear ts);
     ms_ts_time := ms_ts_time ts;
     ms_ts_evscan := ms_ts_evscan ts |}.

Definition ms_tsync_start_state (p : N) : ms_tsync_state :=
  if N.eqb p 1 then MsTsRecord None else if N.eqb p 2 then MsTsMeasure None else MsTsWriteAbs None.

(* TaskStates::ms_next *)
Definition ms_auto_next (c : ms_acfg) (ts : ms_task_states) (events : N) (now : ms_time) : ms_next ms_task :=
  if ms_is_pending (ms_ts_clear ts) then ms_create_next (ms_ts_clear ts) now MsTClearRestart
  else if ms_ev_any (ms_c_disable c) && ms_is_pending (ms_ts_disable ts)
  then ms_create_next (ms_ts_disable ts) now (MsTDisableUnsol (ms_ev_mask (ms_c_disable c)))
  else if ms_cl_any (ms_c_integrity c) && ms_is_pending (ms_ts_integrity ts)
  then ms_create_next (ms_ts_integrity ts) now (MsTIntegrity (N.land (ms_c_integrity c) 15))
  else if ms_is_pending (ms_ts_time ts) && negb (N.eqb (ms_c_tsync c) 0)
  then ms_create_next (ms_ts_time ts) now (MsTTimeSync (ms_tsync_start_state (ms_c_tsync c)) None)
  else if ms_ev_any (ms_c_enable c) && ms_is_pending (ms_ts_enable ts)
  then ms_create_next (ms_ts_enable ts) now (MsTEnableUnsol (ms_ev_mask (ms_c_enable c)))
  else let m := N.land (N.land events (ms_c_evscan c)) 7 in
       if ms_ev_any m then ms_create_next (ms_ts_evscan ts) now (MsTEventScan m) else MsNNone.

(* ---- polls (master/ms_poll.rs) ----------------------------------------------------------------- *)

Record ms_poll := { ms_p_id : N; ms_p_mask : N; ms_p_period : Z; ms_p_next : ms_time }.

Definition ms_min_opt (a : option ms_time) (b : ms_time) : option ms_time :=
  match a with None => Some b | Some x => Some (Z.min x b) end.

(* PollMap::ms_next: the first ms_poll (by id) that is ready, otherwise the earliest deadline *)
Fixpoint ms_polls_next_from (ps : list ms_poll) (now : ms_time) (earliest : option ms_time) : ms_next ms_poll :=
  match ps with
  | [] => match earliest with Some t => MsNNotBefore t | None => MsNNone end
  | p :: rest => if ms_p_next p <=? now then MsNNow p
                 else ms_polls_next_from rest now (ms_min_opt earliest (ms_p_next p))
  end.
Definition ms_polls_next (ps : list ms_poll) (now : ms_time) : ms_next ms_poll := ms_polls_next_from ps now None.

Definition ms_poll_set_next (id : N) (t : ms_time) (ps : list ms_poll) : list ms_poll :=
  map (fun p => if N.eqb (ms_p_id p) id
                then {| ms_p_id := ms_p_id p; ms_p_mask := ms_p_mask p; ms_p_period := ms_p_period p; ms_p_next := t |}
                else p) ps.

Definition ms_poll_complete (id : N) (now : ms_time) (ps : list ms_poll) : list ms_poll :=
  map (fun p => if N.eqb (ms_p_id p) id
                then {| ms_p_id := ms_p_id p; ms_p_mask := ms_p_mask p; ms_p_period := ms_p_period p;
                        ms_p_next := now + ms_p_period p |}
                else p) ps.

(* ---- the association ------------------------------------------------------------------------ *)

(* header + digest of the last ms_unsolicited fragment: (fir, fin, con, seq, iin1, iin2, objects) *)
Definition ms_unsol_id := (bool * bool * bool * N * N * N * list N)%type.

Record ms_assoc := {
  ms_a_addr : N;
  ms_a_cfg : ms_acfg;
  ms_a_seq : N;
  ms_a_last_unsol : option ms_unsol_id;
  ms_a_queue : list (N * ms_ukind);      (* queued user requests: token and kind *)
  ms_a_auto : ms_task_states;
  ms_a_polls : list ms_poll;
  ms_a_poll_id : N;
  ms_a_link_deadline : option ms_time;
  ms_a_integrity_done : bool;
  ms_a_events : N
}.

Definition ms_assoc_new (addr : N) (c : ms_acfg) (now : ms_time) : ms_assoc :=
  {| ms_a_addr := addr; ms_a_cfg := c; ms_a_seq := 0%N; ms_a_last_unsol := None; ms_a_queue := [];
     ms_a_auto := ms_ts_new; ms_a_polls := []; ms_a_poll_id := 0%N;
     ms_a_link_deadline := option_map (fun d => now + d) (ms_c_keepalive c);
     ms_a_integrity_done := false; ms_a_events := 0%N |}.

Definition ms_set_auto (a : ms_assoc) (ts : ms_task_states) : ms_assoc :=
  {| ms_a_addr := ms_a_addr a; ms_a_cfg := ms_a_cfg a; ms_a_seq := ms_a_seq a; ms_a_last_unsol := ms_a_last_unsol a;
     ms_a_queue := ms_a_queue a; ms_a_auto := ts; ms_a_polls := ms_a_polls a; ms_a_poll_id := ms_a_poll_id a;
     ms_a_link_deadline := ms_a_link_deadline a; ms_a_integrity_done := ms_a_integrity_done a;
     ms_a_events := ms_a_events a |}.

Definition ms_set_queue (a : ms_assoc) (q : list (N * ms_ukind)) : ms_assoc :=
  {| ms_a_addr := ms_a_addr a; ms_a_cfg := ms_a_cfg a; ms_a_seq := ms_a_seq a; ms_a_last_unsol := ms_a_last_unsol a;
     ms_a_queue := q; ms_a_auto := ms_a_auto a; ms_a_polls := ms_a_polls a; ms_a_poll_id := ms_a_poll_id a;
     ms_a_link_deadline := ms_a_link_deadline a; ms_a_integrity_done := ms_a_integrity_done a;
     ms_a_events := ms_a_events a |}.

Definition ms_set_polls (a : ms_assoc) (ps : list ms_poll) (next_id : N) : ms_assoc :=
  {| ms_a_addr := ms_a_addr a; ms_a_cfg := ms_a_cfg a; ms_a_seq := ms_a_seq a; ms_a_last_unsol := ms_a_last_unsol a;
     ms_a_queue := ms_a_queue a; ms_a_auto := ms_a_auto a; ms_a_polls := ps; ms_a_poll_id := next_id;
     ms_a_link_deadline := ms_a_link_deadline a; ms_a_integrity_done := ms_a_integrity_done a;
     ms_a_events := ms_a_events a |}.

Definition ms_set_seq (a : ms_assoc) (s : N) : ms_assoc :=
  {| ms_a_addr := ms_a_addr a; ms_a_cfg := ms_a_cfg a; ms_a_seq := s; ms_a_last_unsol := ms_a_last_unsol a;
     ms_a_queue := ms_a_queue a; ms_a_auto := ms_a_auto a; ms_a_polls := ms_a_polls a; ms_a_poll_id := ms_a_poll_id a;
     ms_a_link_deadline := ms_a_link_deadline a; ms_a_integrity_done := ms_a_integrity_done a;
     ms_a_events := ms_a_events a |}.

Definition ms_set_integrity_done (a : ms_assoc) (b : bool) : ms_assoc :=
  {| ms_a_addr := ms_a_addr a; ms_a_cfg := ms_a_cfg a; ms_a_seq := ms_a_seq a; ms_a_last_unsol := ms_a_last_unsol a;
     ms_a_queue := ms_a_queue a; ms_a_auto := ms_a_auto a; ms_a_polls := ms_a_polls a; ms_a_poll_id := ms_a_poll_id a;
     ms_a_link_deadline := ms_a_link_deadline a; ms_a_integrity_done := b; ms_a_events := ms_a_events a |}.

Definition ms_set_events (a : ms_assoc) (e : N) : ms_assoc :=
  {| ms_a_addr := ms_a_addr a; ms_a_cfg := ms_a_cfg a; ms_a_seq := ms_a_seq a; ms_a_last_unsol := ms_a_last_unsol a;
     ms_a_queue := ms_a_queue a; ms_a_auto := ms_a_auto a; ms_a_polls := ms_a_polls a; ms_a_poll_id := ms_a_poll_id a;
     ms_a_link_deadline := ms_a_link_deadline a; ms_a_integrity_done := ms_a_integrity_done a;
     ms_a_events := e |}.

Definition ms_set_last_unsol (a : ms_assoc) (u : option ms_unsol_id) : ms_assoc :=
  {| ms_a_addr := ms_a_addr a; ms_a_cfg := ms_a_cfg a; ms_a_seq := ms_a_seq a; ms_a_last_unsol := u;
     ms_a_queue := ms_a_queue a; ms_a_auto := ms_a_auto a; ms_a_polls := ms_a_polls a; ms_a_poll_id := ms_a_poll_id a;
     ms_a_link_deadline := ms_a_link_deadline a; ms_a_integrity_done := ms_a_integrity_done a;
     ms_a_events := ms_a_events a |}.

(* on_link_activity *)
Definition ms_link_activity (now : ms_time) (a : ms_assoc) : ms_assoc :=
  {| ms_a_addr := ms_a_addr a; ms_a_cfg := ms_a_cfg a; ms_a_seq := ms_a_seq a; ms_a_last_unsol := ms_a_last_unsol a;
     ms_a_queue := ms_a_queue a; ms_a_auto := ms_a_auto a; ms_a_polls := ms_a_polls a; ms_a_poll_id := ms_a_poll_id a;
     ms_a_link_deadline := option_map (fun d => now + d) (ms_c_keepalive (ms_a_cfg a));
     ms_a_integrity_done := ms_a_integrity_done a; ms_a_events := ms_a_events a |}.

Definition ms_seq_next (s : N) : N := N.modulo (s + 1) 16.

(* setters of the six automatic states *)
Definition ms_with_disable (ts : ms_task_states) (s : ms_auto_state) : ms_task_states :=
  {| ms_ts_disable := s; ms_ts_integrity := ms_ts_integrity ts; ms_ts_enable := ms_ts_enable ts;
     ms_ts_clear := ms_ts_clear ts; ms_ts_time := ms_ts_time ts; ms_ts_evscan := ms_ts_evscan ts |}.
Definition ms_with_integrity (ts : ms_task_states) (s : ms_auto_state) : ms_task_states :=
  {| ms_ts_disable := ms_ts_disable ts; ms_ts_integrity := s; ms_ts_enable := ms_ts_enable ts;
     ms_ts_clear := ms_ts_clear ts; ms_ts_time := ms_ts_time ts; ms_ts_evscan := ms_ts_evscan ts |}.
Definition ms_with_enable (ts : ms_task_states) (s : ms_auto_state) : ms_task_states :=
  {| ms_ts_disable := ms_ts_disable ts; ms_ts_integrity := ms_ts_integrity ts; ms_ts_enable := s;
     ms_ts_clear := ms_ts_clear ts; ms_ts_time := ms_ts_time ts; ms_ts_evscan := ms_ts_evscan ts |}.
Definition ms_with_clear (ts : ms_task_states) (s : ms_auto_state) : ms_task_states :=
  {| ms_ts_disable := ms_ts_disable ts; ms_ts_integrity := ms_ts_integrity ts; ms_ts_enable := ms_ts_enable ts;
     ms_ts_clear := s; ms_ts_time := ms_ts_time ts; ms_ts_evscan := ms_ts_evscan ts |}.
Definition ms_with_time (ts : ms_task_states) (s : ms_auto_state) : ms_task_states :=
  {| ms_ts_disable := ms_ts_disable ts; ms_ts_integrity := ms_ts_integrity ts; ms_ts_enable := ms_ts_enable ts;
     ms_ts_clear := ms_ts_clear ts; ms_ts_time := s; ms_ts_evscan := ms_ts_evscan ts |}.
Definition ms_with_evscan (ts : ms_task_states) (s : ms_auto_state) : ms_task_states :=
  {| ms_ts_disable := ms_ts_disable ts; ms_ts_integrity := ms_ts_integrity ts; ms_ts_enable := ms_ts_enable ts;
     ms_ts_clear := ms_ts_clear ts; ms_ts_time := ms_ts_time ts; ms_ts_evscan := s |}.

(* Association::reset (the queued requests are failed by the caller) *)
Definition ms_assoc_reset (a : ms_assoc) : ms_assoc :=
  {| ms_a_addr := ms_a_addr a; ms_a_cfg := ms_a_cfg a; ms_a_seq := ms_a_seq a; ms_a_last_unsol := None;
     ms_a_queue := []; ms_a_auto := ms_ts_new; ms_a_polls := ms_a_polls a; ms_a_poll_id := ms_a_poll_id a;
     ms_a_link_deadline := ms_a_link_deadline a; ms_a_integrity_done := false;
     ms_a_events := ms_a_events a |}.

Definition ms_integrity_complete (a : ms_assoc) : bool :=
  negb (ms_cl_any (ms_c_integrity (ms_a_cfg a))) || ms_a_integrity_done a.

(* on_restart_iin_observed *)
Definition ms_on_restart (now : ms_time) (a : ms_assoc) : ms_assoc * list ms_obs :=
  if ms_is_idle (ms_ts_clear (ms_a_auto a))
  then (ms_set_integrity_done (ms_set_auto a (ms_ts_on_restart (ms_a_auto a))) false,
        [MsORestartSeen now (ms_a_addr a)])
  else (a, []).

(* ms_process_iin *)
Definition ms_process_iin (now : ms_time) (f : ms_rxfrag) (a : ms_assoc) : ms_assoc * list ms_obs :=
  let '(a1, seen) := if ms_iin_restart f then ms_on_restart now a else (a, []) in
  let a2 := if ms_iin_need_time f
            then ms_set_auto a1 (ms_with_time (ms_a_auto a1) (ms_demand (ms_ts_time (ms_a_auto a1)))) else a1 in
  let a3 := if ms_iin_overflow f && ms_c_ovf (ms_a_cfg a2)
            then ms_set_auto a2 (ms_with_integrity (ms_a_auto a2) (ms_demand (ms_ts_integrity (ms_a_auto a2))))
            else a2 in
  let a4 := ms_set_events a3 (ms_iin_events f) in
  (if ms_ev_any (N.land (ms_a_events a4) (ms_c_evscan (ms_a_cfg a4)))
   then ms_set_auto a4 (ms_with_evscan (ms_a_auto a4) (ms_demand (ms_ts_evscan (ms_a_auto a4))))
   else a4, seen).

(* handle_unsolicited_response + the confirmation decision of MasterSession::ms_handle_unsolicited;
   returns the new association, the observations and the confirm fragment if one is written *)
Definition ms_confirm_unsol_bytes (seq : N) : list N := [(208 + seq)%N; 0%N].
Definition ms_confirm_sol_bytes (seq : N) : list N := [(192 + seq)%N; 0%N].

Definition ms_unsol_id_of (f : ms_rxfrag) : ms_unsol_id :=
  (ms_r_fir f, ms_r_fin f, ms_r_con f, ms_r_seq f, ms_r_iin1 f, ms_r_iin2 f, ms_r_objs f).

Definition ms_unsol_id_eqb (x y : ms_unsol_id) : bool :=
  let '(a1, a2, a3, a4, a5, a6, a7) := x in
  let '(b1, b2, b3, b4, b5, b6, b7) := y in
  Bool.eqb a1 b1 && Bool.eqb a2 b2 && Bool.eqb a3 b3 && N.eqb a4 b4 && N.eqb a5 b5 && N.eqb a6 b6
  && (if list_eq_dec N.eq_dec a7 b7 then true else false).

Definition ms_handle_unsolicited (now : ms_time) (f : ms_rxfrag) (a0 : ms_assoc) : ms_assoc * list ms_obs :=
  let '(a, seen) := ms_process_iin now f a0 in
  if negb (ms_integrity_complete a || negb (ms_has_objects f))
  then (a, seen ++ [MsOUnsolIgnored now (ms_a_addr a)])
  else if negb (ms_r_ok f) then
    (* objects that cannot be parsed: not accepted, not confirmed (repair 588059f) *)
    (a, seen ++ [MsOUnsolIgnored now (ms_a_addr a)])
  else
    let id := ms_unsol_id_of f in
    let dup := match ms_a_last_unsol a with Some old => ms_unsol_id_eqb old id | None => false end in
    let a1 := ms_set_last_unsol a (Some id) in
    let deliver := if dup then [MsOUnsol now (ms_a_addr a) true (ms_r_seq f)]
                   else (if ms_r_ok f then [MsOCb now (ms_a_addr a) MsRtUnsol (ms_r_nvalues f)] else [])
                        ++ [MsOUnsol now (ms_a_addr a) false (ms_r_seq f)] in
    let confirm := if ms_r_con f then [MsOTx now (ms_confirm_unsol_bytes (ms_r_seq f))] else [] in
    (a1, seen ++ deliver ++ confirm).

(* ---- requests as bytes ----------------------------------------------------------------------- *)

Definition ms_ev_headers (m : N) : list N :=
  ((if N.testbit m 0 then [60; 2; 6] else []) ++ (if N.testbit m 1 then [60; 3; 6] else [])
   ++ (if N.testbit m 2 then [60; 4; 6] else []))%N.
Definition ms_class_headers (m : N) : list N :=
  (ms_ev_headers m ++ (if N.testbit m 3 then [60; 1; 6] else []))%N.

Definition ms_le48 (x : Z) : list N :=
  let n := Z.to_N (x mod 2 ^ 48) in
  map (fun k => N.land (N.shiftr n (8 * k)) 255) [0; 1; 2; 3; 4; 5]%N.

Definition ms_ts_or_zero (o : option Z) : Z := match o with Some x => x | None => 0 end.

Definition ms_task_fc (t : ms_task) : N :=
  match t with
  | MsTClearRestart => 2
  | MsTEnableUnsol _ => 20
  | MsTDisableUnsol _ => 21
  | MsTIntegrity _ | MsTEventScan _ | MsTPoll _ _ | MsTUserRead _ _ => 1
  | MsTTimeSync (MsTsMeasure _) _ => 23
  | MsTTimeSync (MsTsRecord _) _ => 24
  | MsTTimeSync _ _ => 2
  | MsTEmpty _ => 7
  | MsTLink _ => 0
  end%N.

Definition ms_task_objects (t : ms_task) : list N :=
  match t with
  | MsTClearRestart => [80; 1; 0; 7; 7; 0]%N
  | MsTEnableUnsol m | MsTDisableUnsol m | MsTEventScan m => ms_ev_headers m
  | MsTIntegrity m | MsTPoll _ m | MsTUserRead m _ => ms_class_headers m
  | MsTTimeSync (MsTsWriteAbs ts) _ => [50; 1; 7; 1]%N ++ ms_le48 (ms_ts_or_zero ts)
  | MsTTimeSync (MsTsWriteLast ts) _ => [50; 3; 7; 1]%N ++ ms_le48 ts
  | _ => []
  end.

Definition ms_request_bytes (seq : N) (t : ms_task) : list N :=
  ((192 + seq) :: ms_task_fc t :: ms_task_objects t)%N.

Definition ms_task_type (t : ms_task) : ms_ttype :=
  match t with
  | MsTClearRestart => MsKClearRestart
  | MsTEnableUnsol _ => MsKEnableUnsol
  | MsTDisableUnsol _ => MsKDisableUnsol
  | MsTIntegrity _ => MsKIntegrity
  | MsTEventScan _ => MsKEventScan
  | MsTPoll _ _ => MsKPoll
  | MsTTimeSync _ _ => MsKTimeSync
  | MsTUserRead _ _ => MsKUserRead
  | MsTEmpty _ => MsKEmpty
  | MsTLink _ => MsKEmpty
  end.

Definition ms_is_read_task (t : ms_task) : bool :=
  match t with MsTIntegrity _ | MsTEventScan _ | MsTPoll _ _ | MsTUserRead _ _ => true | _ => false end.

Definition ms_read_type (t : ms_task) : ms_rtype :=
  match t with
  | MsTIntegrity _ => MsRtIntegrity
  | MsTUserRead _ _ => MsRtSingle
  | _ => MsRtPoll
  end.

(* ---- system ms_time ------------------------------------------------------------------------------ *)

Definition ms_ts_max : Z := 2 ^ 48 - 1.
Definition ms_system_time (base : option Z) (now : ms_time) : option Z :=
  option_map (fun b => (b + now) mod 2 ^ 48) base.

(* ---- completion and failure of tasks (the association side) ----------------------------------- *)

(* Task::on_task_error as far as it touches the association / completes a promise.
   `f` carries the IIN of the rejected response for RejectedByIin2. *)
Definition ms_task_error (now : ms_time) (t : ms_task) (e : ms_err) (iin_restart_set : bool) (a : ms_assoc)
  : ms_assoc * list ms_obs :=
  let c := ms_a_cfg a in
  let ts := ms_a_auto a in
  match t with
  | MsTClearRestart =>
      if match e with MsEIin2 => negb iin_restart_set | _ => false end
      then (ms_set_auto a (ms_with_clear ts MsAIdle), [MsOCleared now (ms_a_addr a)])
      else (ms_set_auto a (ms_with_clear ts (ms_auto_failure c now (ms_ts_clear ts))), [])
  | MsTEnableUnsol _ =>
      match e with
      | MsEIin2 => (ms_set_auto a (ms_with_enable ts MsAIdle), [])
      | _ => (ms_set_auto a (ms_with_enable ts (ms_auto_failure c now (ms_ts_enable ts))), [])
      end
  | MsTDisableUnsol _ =>
      match e with
      | MsEIin2 => (ms_set_auto a (ms_with_disable ts MsAIdle), [])
      | _ => (ms_set_auto a (ms_with_disable ts (ms_auto_failure c now (ms_ts_disable ts))), [])
      end
  | MsTIntegrity _ => (ms_set_auto a (ms_with_integrity ts (ms_auto_failure c now (ms_ts_integrity ts))), [])
  | MsTEventScan _ => (ms_set_auto a (ms_with_evscan ts (ms_auto_failure c now (ms_ts_evscan ts))), [])
  | MsTPoll id _ => (ms_set_polls a (ms_poll_complete id now (ms_a_polls a)) (ms_a_poll_id a), [])
  | MsTTimeSync _ None => (ms_set_auto a (ms_with_time ts (ms_auto_failure c now (ms_ts_time ts))), [])
  | MsTTimeSync _ (Some tok) => (a, [MsORes now tok (Some e)])
  | MsTUserRead _ tok => (a, [MsORes now tok (Some e)])
  | MsTEmpty tok => (a, [MsORes now tok (Some e)])
  | MsTLink (Some tok) => (a, [MsORes now tok (Some e)])
  | MsTLink None => (a, [])
  end.

(* ReadTask::complete *)
Definition ms_read_complete (now : ms_time) (t : ms_task) (a : ms_assoc) : ms_assoc * list ms_obs :=
  match t with
  | MsTIntegrity _ =>
      (ms_set_integrity_done (ms_set_auto a (ms_with_integrity (ms_a_auto a) MsAIdle)) true, [])
  | MsTEventScan _ => (ms_set_auto a (ms_with_evscan (ms_a_auto a) MsAIdle), [])
  | MsTPoll id _ => (ms_set_polls a (ms_poll_complete id now (ms_a_polls a)) (ms_a_poll_id a), [])
  | MsTUserRead _ tok => (a, [MsORes now tok None])
  | _ => (a, [])
  end.

(* TimeSyncTask::report_error / report_success *)
Definition ms_tsync_report (now : ms_time) (promise : option N) (r : option ms_err) (a : ms_assoc)
  : ms_assoc * list ms_obs :=
  match promise with
  | Some tok => (a, [MsORes now tok r])
  | None =>
      match r with
      | None => (ms_set_auto a (ms_with_time (ms_a_auto a) MsAIdle), [])
      | Some _ =>
          (ms_set_auto a (ms_with_time (ms_a_auto a) (ms_auto_failure (ms_a_cfg a) now (ms_ts_time (ms_a_auto a)))), [])
      end
  end.

(* result of NonReadTask::handle_response *)
Inductive ms_handled :=
| MsHContinue (t : ms_task)
| MsHComplete
| MsHError (e : ms_err).

Definition ms_nonread_handle (now : ms_time) (systime : option Z) (t : ms_task) (f : ms_rxfrag) (a : ms_assoc)
  : ms_assoc * list ms_obs * ms_handled :=
  match t with
  | MsTDisableUnsol _ => (ms_set_auto a (ms_with_disable (ms_a_auto a) MsAIdle), [], MsHComplete)
  | MsTEnableUnsol _ => (ms_set_auto a (ms_with_enable (ms_a_auto a) MsAIdle), [], MsHComplete)
  | MsTClearRestart =>
      if ms_iin_restart f
      then (ms_set_auto a (ms_with_clear (ms_a_auto a) (ms_auto_failure (ms_a_cfg a) now (ms_ts_clear (ms_a_auto a)))),
            [], MsHComplete)
      else (ms_set_auto a (ms_with_clear (ms_a_auto a) MsAIdle), [MsOCleared now (ms_a_addr a)],
            MsHComplete)
  | MsTEmpty tok =>
      if ms_has_objects f then (a, [MsORes now tok (Some MsEUnexpectedHeaders)], MsHError MsEUnexpectedHeaders)
      else (a, [MsORes now tok None], MsHComplete)
  | MsTTimeSync (MsTsMeasure t0) p =>
      let t0' := match t0 with Some x => x | None => now end in
      let interval := now - t0' in
      match (if ms_r_ok f then ms_r_delay f else None) with
      | None =>
          let '(a1, o) := ms_tsync_report now p (Some MsEUnexpectedHeaders) a in
          (a1, o, MsHError MsEUnexpectedHeaders)
      | Some d =>
          if interval <? d then
            let '(a1, o) := ms_tsync_report now p (Some MsEBadDelay) a in
            (a1, o, MsHError MsEUnexpectedHeaders)
          else match ms_system_time systime now with
          | None =>
              let '(a1, o) := ms_tsync_report now p (Some MsENoSystemTime) a in
              (a1, o, MsHError MsEUnexpectedHeaders)
          | Some st =>
              let prop := (interval - d) / 2 in
              if ms_ts_max - st <? prop then
                let '(a1, o) := ms_tsync_report now p (Some MsEOverflow) a in
                (a1, o, MsHError MsEUnexpectedHeaders)
              else (a, [], MsHContinue (MsTTimeSync (MsTsWriteAbs (Some (st + prop))) p))
          end
      end
  | MsTTimeSync (MsTsRecord ts) p =>
      if ms_has_objects f then
        let '(a1, o) := ms_tsync_report now p (Some MsEUnexpectedHeaders) a in
        (a1, o, MsHError MsEUnexpectedHeaders)
      else (a, [], MsHContinue (MsTTimeSync (MsTsWriteLast (ms_ts_or_zero ts)) p))
  | MsTTimeSync _ p =>
      if ms_has_objects f then
        let '(a1, o) := ms_tsync_report now p (Some MsEUnexpectedHeaders) a in
        (a1, o, MsHError MsEUnexpectedHeaders)
      else if ms_iin_need_time f then
        let '(a1, o) := ms_tsync_report now p (Some MsEStillNeedsTime) a in
        (a1, o, MsHError MsEUnexpectedHeaders)
      else let '(a1, o) := ms_tsync_report now p None a in (a1, o, MsHComplete)
  | _ => (a, [], MsHComplete)
  end.

(* Task::start: only the ms_time synchronisation can refuse to start (no system ms_time) *)
Definition ms_task_start (now : ms_time) (systime : option Z) (t : ms_task) (a : ms_assoc)
  : ms_assoc * list ms_obs * option ms_task :=
  match t with
  | MsTTimeSync st p =>
      match st with
      | MsTsWriteLast _ => (a, [], Some t)
      | MsTsWriteAbs (Some _) => (a, [], Some t)
      | _ =>
          match ms_system_time systime now with
          | Some now_ts =>
              let st' := match st with
                         | MsTsMeasure _ => MsTsMeasure (Some now)
                         | MsTsWriteAbs _ => MsTsWriteAbs (Some now_ts)
                         | MsTsRecord _ => MsTsRecord (Some now_ts)
                         | other => other
                         end in
              (a, [], Some (MsTTimeSync st' p))
          | None =>
              let '(a1, o) := ms_tsync_report now p (Some MsENoSystemTime) a in (a1, o, None)
          end
      end
  | _ => (a, [], Some t)
  end.

(* ---- the ms_next ms_task of one association -------------------------------------------------------- *)

Definition ms_link_next (a : ms_assoc) (now : ms_time) : ms_next ms_task :=
  match ms_a_link_deadline a with
  | None => MsNNone
  | Some nx => if nx <=? now then MsNNow (MsTLink None) else MsNNotBefore nx
  end.

(* Association::ms_get_next_task *)
Definition ms_get_next_task (a : ms_assoc) (now : ms_time) : ms_next ms_task :=
  match ms_auto_next (ms_a_cfg a) (ms_a_auto a) (ms_a_events a) now with
  | MsNNone =>
      match ms_polls_next (ms_a_polls a) now with
      | MsNNow p => MsNNow (MsTPoll (ms_p_id p) (ms_p_mask p))
      | MsNNotBefore np =>
          match ms_link_next a now with
          | MsNNone => MsNNotBefore np
          | MsNNow x => MsNNow x
          | MsNNotBefore nl => MsNNotBefore (Z.min np nl)
          end
      | MsNNone => ms_link_next a now
      end
  | other => other
  end.

(* Association::next_task: `loop { ms_get_next_task; start it or try again }`.  None = the loop did
   not finish within the fuel (the busy loop of F15 before its repair). *)
Fixpoint ms_assoc_next_task (fuel : nat) (now : ms_time) (systime : option Z) (a : ms_assoc)
  : ms_assoc * list ms_obs * option (ms_next ms_task) :=
  match fuel with
  | O => (a, [], None)
  | S k =>
      match ms_get_next_task a now with
      | MsNNow t =>
          match ms_task_start now systime t a with
          | (a1, o, Some t') => (a1, o, Some (MsNNow t'))
          | (a1, o, None) =>
              let '(a2, o2, r) := ms_assoc_next_task k now systime a1 in (a2, o ++ o2, r)
          end
      | MsNNone => (a, [], Some MsNNone)
      | MsNNotBefore t => (a, [], Some (MsNNotBefore t))
      end
  end.

Definition ms_user_task (tok : N) (k : ms_ukind) : ms_task :=
  match k with
  | MsUKRead m => MsTUserRead (N.land m 15) tok
  | MsUKLink => MsTLink (Some tok)
  | MsUKEmpty => MsTEmpty tok
  | MsUKTsync p => MsTTimeSync (ms_tsync_start_state p) (Some tok)
  end.

(* Association::ms_priority_task: pop queued user requests until one starts *)
Fixpoint ms_priority_task (now : ms_time) (systime : option Z) (q : list (N * ms_ukind)) (a : ms_assoc)
  : ms_assoc * list ms_obs * option ms_task :=
  match q with
  | [] => (ms_set_queue a [], [], None)
  | (tok, uk) :: rest =>
      match ms_task_start now systime (ms_user_task tok uk) a with
      | (a1, o, Some t') => (ms_set_queue a1 rest, o, Some t')
      | (a1, o, None) =>
          let '(a2, o2, r) := ms_priority_task now systime rest a1 in (a2, o ++ o2, r)
      end
  end.
