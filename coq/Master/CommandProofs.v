(* Master/CommandProofs.v — the echo comparison accepts exactly the faithful echoes (C16). *)
From Dnp3V Require Import Base.Bytes Master.MParse Master.Command.
Import MP MCmd.

Lemma list_eqb_eq (a b : list N) : list_eqb a b = true <-> a = b.
Proof.
  unfold list_eqb. revert b; induction a as [|x a IH]; intros [|y b]; cbn [length combine forallb Nat.eqb andb fst snd];
    try (split; [discriminate|discriminate]); try (split; reflexivity).
  specialize (IH b). rewrite Bool.andb_true_iff in *.
  split.
  - intros [Hl Hf]. apply Bool.andb_true_iff in Hf. destruct Hf as [Hx Hf].
    apply N.eqb_eq in Hx. subst y. f_equal. apply IH. auto.
  - intros H. injection H as -> ->. destruct IH as [_ IH]. specialize (IH eq_refl).
    destruct IH as [Hl Hf]. split; [exact Hl|]. rewrite N.eqb_refl. exact Hf.
Qed.

Lemma compare_items_ok g v recv sent :
  compare_items g v recv sent = COk <-> Forall2 (item_faithful g v) recv sent.
Proof.
  revert recv; induction sent as [|s sent IH]; intros recv.
  - destruct recv; cbn [compare_items]; split; intros H; try constructor; try discriminate; inversion H.
  - destruct recv as [|r recv]; cbn [compare_items].
    + split; intros H; [discriminate|inversion H].
    + destruct (status_of (snd r) =? 0) eqn:Est; cbn [negb].
      * destruct ((fst r =? fst s) && value_eq g v (snd r) (snd s)) eqn:Eeq.
        -- rewrite IH. apply Bool.andb_true_iff in Eeq. destruct Eeq as [Ei Ev].
           apply N.eqb_eq in Ei, Est.
           split; intros H.
           ++ constructor; [repeat split; assumption|exact H].
           ++ inversion H; assumption.
        -- split; intros H; [discriminate|]. inversion H as [|? ? ? ? Hf _]; subst.
           destruct Hf as (Hi & _ & Hv). rewrite Hi, N.eqb_refl, Hv in Eeq. discriminate.
      * split; intros H; [discriminate|]. inversion H as [|? ? ? ? Hf _]; subst.
        destruct Hf as (_ & Hs & _). rewrite Hs in Est. discriminate.
Qed.

(* success_implies_faithful_echo, comparison half: the walk succeeds only on a reply that splits
   into exactly the requested headers, each object with the same index, status SUCCESS and an
   equal value *)
Theorem compare_ok_faithful sent objs : compare sent objs = COk -> faithful_echo sent objs.
Proof.
  revert objs; induction sent as [|s sent IH]; intros objs H; cbn [compare] in H.
  - destruct objs; [|discriminate]. exists []. split; [reflexivity|constructor].
  - destruct objs as [|b objs]; [discriminate|].
    destruct (parse_cmd_header (b :: objs)) as [[r rest]|] eqn:Ep; [|discriminate].
    destruct ((ph_group r =? ph_group s) && (ph_var r =? ph_var s) && Bool.eqb (ph_wide r) (ph_wide s)) eqn:Eh;
      [|discriminate].
    destruct (compare_items (ph_group s) (ph_var s) (ph_items r) (ph_items s)) eqn:Ei; [|discriminate].
    destruct (IH rest H) as (rs & Hp & Hf).
    exists (r :: rs). split.
    + cbn [parses_as]. exists rest. split; assumption.
    + constructor; [|exact Hf].
      apply Bool.andb_true_iff in Eh. destruct Eh as [Eh Ew]. apply Bool.andb_true_iff in Eh. destruct Eh as [Eg Ev].
      apply N.eqb_eq in Eg, Ev. apply Bool.eqb_prop in Ew.
      repeat split; try assumption. apply compare_items_ok. exact Ei.
Qed.

(* ... and on every such reply *)
Theorem faithful_compare_ok sent objs : faithful_echo sent objs -> compare sent objs = COk.
Proof.
  intros (rs & Hp & Hf). revert objs Hp. induction Hf as [|r s rs sent Hh Hf IH]; intros objs Hp; cbn [parses_as] in Hp.
  - subst objs. reflexivity.
  - destruct Hp as (rest & Hp & Hrest). cbn [compare].
    destruct objs as [|b objs].
    + unfold parse_cmd_header in Hp. discriminate.
    + rewrite Hp. destruct Hh as (Hg & Hv & Hw & Hi).
      rewrite Hg, Hv, Hw, !N.eqb_refl, Bool.eqb_reflx. cbn [andb].
      apply compare_items_ok in Hi. rewrite Hi. apply IH. exact Hrest.
Qed.

(* mismatch_is_error, comparison half *)
Theorem compare_err_not_faithful sent objs e : compare sent objs = CErr e -> ~ faithful_echo sent objs.
Proof. intros H Hf. apply faithful_compare_ok in Hf. rewrite Hf in H. discriminate. Qed.

Theorem compare_decides sent objs : (compare sent objs = COk /\ faithful_echo sent objs) \/
  (exists e, compare sent objs = CErr e /\ ~ faithful_echo sent objs).
Proof.
  destruct (compare sent objs) as [|e] eqn:E.
  - left. split; [reflexivity|apply compare_ok_faithful; exact E].
  - right. exists e. split; [reflexivity|eapply compare_err_not_faithful; exact E].
Qed.

(* for the integer command variations "equal value" is equality of the octets *)
Lemma value_eq_octets g v a b :
  negb ((g =? 41) && ((v =? 3) || (v =? 4))) = true -> (value_eq g v a b = true <-> a = b).
Proof.
  intros H. unfold value_eq.
  destruct (g =? 41) eqn:Eg; cbn [andb] in *.
  - destruct (v =? 3) eqn:E3; cbn [orb negb] in H; [discriminate|].
    destruct (v =? 4) eqn:E4; cbn [negb] in H; [discriminate|]. apply list_eqb_eq.
  - apply list_eqb_eq.
Qed.

(* F14: octet-for-octet equality is NOT what the comparison checks for floating point values:
   -0.0 (00 00 00 80) echoed as +0.0 is accepted *)
Definition f14_sent : list pheader := [mk_ph 41 3 false [(112, [0; 0; 0; 128; 0])]].
Definition f14_echo : list byte := [41; 3; 23; 1; 112; 0; 0; 0; 0; 0].

Theorem bitwise_echo_refuted :
  compare f14_sent f14_echo = COk /\ f14_echo <> encode_phs f14_sent.
Proof. split; [vm_compute; reflexivity|vm_compute; discriminate]. Qed.

(* a NaN set-point is never reported successful, not even for its own echo *)
Example nan_echo_rejected :
  compare [mk_ph 41 3 false [(1, [0; 0; 192; 127; 0])]] (encode_phs [mk_ph 41 3 false [(1, [0; 0; 192; 127; 0])]])
  = CErr CObjectValue.
Proof. vm_compute. reflexivity. Qed.

(* non-vacuity: a two-header command with 8- and 16-bit indices is its own faithful echo, and
   every single-place deviation is classified *)
Definition ex_cmd : list pheader :=
  [mk_ph 12 1 false [(3, [3; 1; 100; 0; 0; 0; 10; 0; 0; 0; 0]); (4, [4; 1; 100; 0; 0; 0; 10; 0; 0; 0; 0])];
   mk_ph 41 2 true [(300, [16; 39; 0])]].

Example ex_cmd_echo_ok : compare ex_cmd (encode_phs ex_cmd) = COk.
Proof. vm_compute. reflexivity. Qed.
Example ex_cmd_status : compare ex_cmd
  (encode_phs [mk_ph 12 1 false [(3, [3; 1; 100; 0; 0; 0; 10; 0; 0; 0; 0]); (4, [4; 1; 100; 0; 0; 0; 10; 0; 0; 0; 4])];
               mk_ph 41 2 true [(300, [16; 39; 0])]]) = CErr (CBadStatus 4).
Proof. vm_compute. reflexivity. Qed.
Example ex_cmd_index : compare ex_cmd
  (encode_phs [mk_ph 12 1 false [(3, [3; 1; 100; 0; 0; 0; 10; 0; 0; 0; 0]); (5, [4; 1; 100; 0; 0; 0; 10; 0; 0; 0; 0])];
               mk_ph 41 2 true [(300, [16; 39; 0])]]) = CErr CObjectValue.
Proof. vm_compute. reflexivity. Qed.
Example ex_cmd_missing_header : compare ex_cmd (encode_phs (firstn 1 ex_cmd)) = CErr CHeaderCount.
Proof. vm_compute. reflexivity. Qed.
Example ex_cmd_width : compare ex_cmd
  (encode_phs [mk_ph 12 1 true [(3, [3; 1; 100; 0; 0; 0; 10; 0; 0; 0; 0]); (4, [4; 1; 100; 0; 0; 0; 10; 0; 0; 0; 0])];
               mk_ph 41 2 true [(300, [16; 39; 0])]]) = CErr CHeaderType.
Proof. vm_compute. reflexivity. Qed.
