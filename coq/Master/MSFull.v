(* Master/MSFull.v — the received fragment of the scheduling model (Master/Assoc.v, Master/Sched.v,
   engine `msched`, properties C17 / C19) COMPUTED from the octets.

   The scheduling model takes a received fragment as a record [ms_rxfrag]: control bits, IIN, the object
   octets, whether the objects parse ([ms_r_ok]), how many measurement values the ReadHandler receives
   ([ms_r_nvalues]) and the delay of a lone g52v2 object ([ms_r_delay]).  Engine `msched` fills the last
   three with a hand-written three-form object grammar in its OCaml glue (g1v2 with 8-bit range, g2v1 with
   8-bit prefix, g52v2 with 8-bit count; "anything else does not parse").  Here the whole record is
   computed in Coq:

     header      Master/MParse.v [parse_response] (= AppHeader.aparse_header ; ato_response,
                 Master/MFullProofs.v)
     ms_r_ok     App/Grammar.v: the validating pass accepts every object header ([MF.mverdict] = ok)
     ms_r_nvalues  the number of items of [MF.fragment_items] (Grammar headers + the conversion model of
                 C10) that reach a callback the handler of /verif/harness/msched.rs implements: binary,
                 double-bit, binary output status, counter, frozen counter, analog input, analog output
                 status (every other callback is the trait's empty default)
     ms_r_delay  master/tasks/time.rs: the ONLY header is a count header (8- or 16-bit count) of g52v2
                 with count 1

   Engine `msfull` = engine `msched` with this function in place of the glue's parser; run as a second
   pass of C17 / C19.  Definitions only. *)
From Dnp3V Require Import Base.Bytes App.Grammar gen.Conversions App.Convert.
From Dnp3V Require Import Master.MParse Master.Command Master.MTask Master.MFull.
From Dnp3V Require Import Master.Backoff Master.Assoc Master.Sched.
Import ListNotations.
Open Scope N_scope.

(* the callbacks `Reads` of harness/msched.rs overrides *)
Definition msf_counted (it : MF.mitem) : bool :=
  match it with
  | MF.MiMeas _ _ _ _ _ (OT BI) _ _ | MF.MiMeas _ _ _ _ _ (OT DBI) _ _ | MF.MiMeas _ _ _ _ _ (OT BOS) _ _
  | MF.MiMeas _ _ _ _ _ (OT CTR) _ _ | MF.MiMeas _ _ _ _ _ (OT FCTR) _ _
  | MF.MiMeas _ _ _ _ _ (OT AI) _ _ | MF.MiMeas _ _ _ _ _ (OT AOS) _ _ => true
  | _ => false
  end.

Definition msf_nvalues (hs : list aobj_header) : N :=
  N.of_nat (length (filter msf_counted (fst (MF.headers_items None hs)))).

(* handle_delay_measure: get_only_object_header, details.count() = Group52Var2, seq.single() *)
Definition msf_delay (hs : list aobj_header) : option Z :=
  match hs with
  | [h] =>
      if (oh_g h =? 52) && (oh_v h =? 2) then
        match oh_details h, oh_payload h with
        | HCount8 c, PyFixedCount _ d | HCount16 c, PyFixedCount _ d =>
            if c =? 1 then Some (Z.of_N (le_dec d)) else None
        | _, _ => None
        end
      else None
  | _ => None
  end.

Definition ms_rx_of (frag : list N) : ms_rx :=
  match MP.parse_response frag with
  | MP.PError => MsRxBad
  | MP.PResponse h objs =>
      let c := MP.h_ctrl h in
      let hs := MF.fragment_headers frag in
      MsRxResp {| ms_r_uns := MP.c_uns c; ms_r_fir := MP.c_fir c; ms_r_fin := MP.c_fin c; ms_r_con := MP.c_con c;
                  ms_r_seq := MP.c_seq c; ms_r_iin1 := MP.h_iin1 h; ms_r_iin2 := MP.h_iin2 h;
                  ms_r_objs := objs;
                  ms_r_ok := match hs with Some _ => true | None => false end;
                  ms_r_nvalues := match hs with Some l => msf_nvalues l | None => 0 end;
                  ms_r_delay := match hs with Some l => msf_delay l | None => None end |}
  end.
