(* Master/MParse.v — the small part of the application-layer parser the master task model needs.

   Mirrors (dnp3/src): app/parse/parser.rs `ParsedFragment::parse` (control octet, function code,
   IIN for the two response functions) + `ParsedFragment::to_response` (function must be RESPONSE
   or UNSOLICITED_RESPONSE, UNS bit consistent with the function, unsolicited needs FIR and FIN)
   as seen through transport/reader.rs `pop_response`: every failure of either step is the single
   outcome `TransportResponse::Error`, here [PError].

   ABSTRACTED: the object section.  Objects are opaque bytes; whether the real object parser
   (`HeaderCollection::parse`) accepts them is an ORACLE INPUT carried by the receive event
   ([verdict], see MTask.v) and echoed by the model; the harness prints the real parser's verdict
   for the same fragment, so a wrong oracle shows up as a model/implementation mismatch.  The only
   object bytes the master model interprets itself are command echoes (Command.v) and the
   restart-delay object (g52v1/v2, below). *)
From Dnp3V Require Import Base.Bytes.

Module MP.

Definition byte := N.

Definition c_fir (c : N) : bool := N.testbit c 7.
Definition c_fin (c : N) : bool := N.testbit c 6.
Definition c_con (c : N) : bool := N.testbit c 5.
Definition c_uns (c : N) : bool := N.testbit c 4.
Definition c_seq (c : N) : N := N.land c 15.

(* app/sequence.rs Sequence::calc_next on a 4-bit value *)
Definition seq_next (s : N) : N := if s =? 15 then 0 else s + 1.

Record rhdr := mk_rhdr { h_ctrl : N; h_unsol : bool; h_iin1 : N; h_iin2 : N }.

Inductive parsed := PError | PResponse (h : rhdr) (objs : list byte).

Definition parse_response (frag : list byte) : parsed :=
  match frag with
  | c :: f :: i1 :: i2 :: objs =>
    if f =? 129 then
      if c_uns c then PError else PResponse (mk_rhdr c false i1 i2) objs
    else if f =? 130 then
      if c_uns c && c_fir c && c_fin c then PResponse (mk_rhdr c true i1 i2) objs else PError
    else PError
  | _ => PError
  end.

(* the four header octets as the callbacks see them (ResponseHeader) *)
Definition hdr_bytes (h : rhdr) : list byte :=
  [h_ctrl h; if h_unsol h then 130 else 129; h_iin1 h; h_iin2 h].

(* app/header.rs Iin::has_bad_request_error: NO_FUNC_CODE_SUPPORT | OBJECT_UNKNOWN | PARAMETER_ERROR *)
Definition iin2_bad (i2 : N) : bool := negb (N.land i2 7 =? 0).
(* IIN1.7 DEVICE_RESTART *)
Definition iin1_restart (i1 : N) : bool := N.testbit i1 7.

(* master/tasks/restart.rs RestartTask::handle on an object section the real parser accepted:
   exactly one header, a count header (qualifier 07 or 08) of g52v1 (seconds) or g52v2
   (milliseconds) with count 1.  Result in milliseconds. *)
Definition restart_delay (objs : list byte) : option N :=
  match objs with
  | [52; v; 7; 1; a; b] =>
    if v =? 1 then Some (1000 * le16 a b) else if v =? 2 then Some (le16 a b) else None
  | [52; v; 8; 1; 0; a; b] =>
    if v =? 1 then Some (1000 * le16 a b) else if v =? 2 then Some (le16 a b) else None
  | _ => None
  end.

End MP.
