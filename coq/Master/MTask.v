(* Master/MTask.v — executable model of the master's task execution (C15, C16).

   Mirrors (dnp3/src/master, state AFTER the fixes 86bdefd (F10: CON-flagged response to a non-READ
   request is confirmed), 588059f (malformed unsolicited response is not accepted) and dffa09f
   (the link status check keeps its deadline)):
     task.rs        MasterSession::run / idle_forever / idle_until / process_message / run_task /
                    run_non_read_task / run_single_non_read_task / validate_non_read_response /
                    run_read_task / execute_read_task / process_read_response /
                    handle_fragment_while_idle / handle_unsolicited / confirm_solicited /
                    confirm_unsolicited / send_request / run_link_status_task / reset
     association.rs Association::{process_message, reset, process_iin, handle_unsolicited_response,
                    priority_task, next_task}, TaskStates::{new, next, on_restart_iin},
                    AutoTaskState (Idle / Pending / Failed with exponential back-off, retries at
                    least 1 ms ahead), LastUnsolFragment, AssociationMap (ONE association)
     tasks/*        command.rs, read.rs, auto.rs, restart.rs, deadbands.rs, empty_response.rs,
                    mod.rs (start / on_task_error / handle_response / complete / as_task_type)
     promise.rs     promises are linear tokens [tok]; completing one is the observation [ORes];
                    a promise dropped without completion is [ORes tok RDropped]
   plus the connection loop that drives a MasterTask in production (util/session.rs,
   tcp/master/client.rs), reduced to: connected <-> enabled /\ link up /\ not shut down.

   One step ([mstep]) = one stimulus ([on_event], which never starts a task itself), the task loop
   of MasterSession::run ([run_pump]: start tasks until one waits for its response), then 1 ms of
   virtual time ([advance]; the harness settles for 1 ms after every op); [ESleep n] is n further
   milliseconds.  While time passes every armed deadline fires at its exact instant.  Time is in
   whole milliseconds.  Observations carry their virtual time; [OStep] marks the beginning of a
   step; transmissions are tagged with their role ([OTxReq] / [OTxConfirm]) and printed as the
   octets [request_bytes] / [confirm_bytes]; [started] in [running] is a ghost field (when the task
   was started) used only by the timing theorem.

   ABSTRACTED (see also MParse.v, Command.v):
   * object sections are opaque octets; the receive event carries (i) the real parser's verdict on
     them and (ii) the list of items `extract_measurements` hands to the ReadHandler for them
     (opaque tokens, printed verbatim).  Both are echoed / replayed by the model and checked
     against the real parser and the real callbacks by the harness on every fragment.
   * xxh64 digest of the last unsolicited fragment = the octets themselves (no collisions).
   * one association, one source of time; no polls, no keep-alive timer, no automatic time
     synchronisation, no event scans, no file transfer, no user time-sync requests (C17-C19);
     the link-status task is the mock's (no link frame is written, a link-layer reply never
     arrives).
   * `tokio::select!` never sees two ready branches (one stimulus at a time).
   * the transmit buffer is modelled by its size: a request fails with WriteError iff
     2 + |objects| exceeds it. *)
From Dnp3V Require Import Base.Bytes Master.MParse Master.Command.

Module MT.
Import MP MCmd.

(* ---------------------------------------------------------------------------------------- *)
(* configuration, requests, events, observations *)

Record mcfg := mk_mcfg {
  c_addr : N;            (* link address of the outstation of the association *)
  c_timeout : N;         (* response timeout, ms *)
  c_disable : N;         (* event classes to disable at start-up: bit0..2 = class 1..3 *)
  c_enable : N;          (* event classes to enable at start-up *)
  c_integrity : N;       (* start-up integrity classes: bit0 = class 0, bit1..3 = class 1..3 *)
  c_retry_min : N; c_retry_max : N;   (* auto task retry strategy, ms *)
  c_maxq : nat;          (* max_queued_user_requests *)
  c_txsize : nat         (* transmit buffer size *)
}.

Inductive verdict := VOk | VBad | VNone.
Definition item := list N.

Inductive utask :=
| URead (objs : list byte)
| UCommand (sbo : bool) (hs : list pheader)
| UDeadBand (hs : list pheader)
| UEmpty (fc : N) (objs : list byte)
| URestart (cold : bool)
| ULinkStatus.

Inductive mevent :=
| ERx (src : N) (frag : list byte) (v : verdict) (items : list item)
| ESleep (ms : N)
| EUser (tok : N) (t : utask)
| EDisable | EEnable | EDropIo | EConnect | ERemove | EShutdown.

Inductive terr :=
| ETooMany | ELink | ETransport | ERejected (iin1 iin2 : N) | EMalformed | EBadHeaders
| ENonFinWithoutCon | ENeverFir | EUnexpectedFir | EMultiFragment | ETimeout | EWriteError
| ENoAssociation | ENoConnection | EShutdown_ | EDisabled.

Inductive result := ROk | ROkMs (ms : N) | RErr (e : terr) | RCmdErr (e : cerr) | RDropped.

Inductive ttype :=
| TUserRead | TIntegrity | TCommand | TClear | TEnable | TDisable | TRestart | TDeadBands
| TEmpty (fc : N).

Inductive read_type := RtIntegrity | RtUnsol | RtSingle.
Inductive stop := StDisable | StShutdown | StLink.

Inductive mobs :=
| OStep                          (* a stimulus is applied (delimits the steps in a trace) *)
| OPv (v : verdict)
| ORxNoConn
| OTxReq (dest : N) (seq fc : N) (objs : list byte)   (* a request; octets = [request_bytes] *)
| OTxConfirm (dest : N) (uns : bool) (seq : N)        (* a CONFIRM; octets = [confirm_bytes] *)
| OTxLinkStatus
| OCbBegin (rt : read_type) (hdr : list byte)
| OCbItem (it : item)
| OCbEnd (rt : read_type) (hdr : list byte)
| OInfoStart (ty : ttype) (fc seq : N)
| OInfoSuccess (ty : ttype) (fc seq : N)
| OInfoFail (ty : ttype) (e : terr)
| OInfoUnsol (dup : bool) (seq : N)
| ORes (tok : N) (r : result)
| OChanConnected
| OChanRunEnd (why : stop)
| OChanStopped
| OIgnored.

(* an observation with the virtual time at which it was made *)
Definition tobs := (N * mobs)%type.

(* ---------------------------------------------------------------------------------------- *)
(* state *)

Inductive astate := AIdle | APending | AFailed (last next : N).
Inductive auto_kind := AClear | ADisable | AEnable.
Inductive cphase := PhSelect | PhOperate | PhDirect.

Inductive nr_kind :=
| NRCommand (tok : N) (ph : cphase) (hs : list pheader)
| NRDeadBand (tok : N)
| NREmpty (tok : N) (fc : N)
| NRRestart (tok : N) (cold : bool)
| NRAuto (a : auto_kind).

Inductive rd_kind := RDUser (tok : N) | RDIntegrity.

(* [started]: when the task was started (ghost, used by the timing theorems only) *)
Inductive running :=
| RNone
| RNonRead (k : nr_kind) (seq deadline started : N)
| RRead (k : rd_kind) (seq : N) (first : bool) (deadline started : N)
| RLink (tok : N) (deadline : N).

Record mstate := mk_mstate {
  s_now : N;
  s_conn : bool;        (* MasterTask::run is active *)
  s_enabled : bool; s_linkup : bool; s_stopped : bool;
  s_assoc : bool;       (* the association exists *)
  s_seq : N;            (* Association::seq *)
  s_last_unsol : option (list byte * list byte);   (* header octets, object octets *)
  s_queue : list (N * utask);
  s_clear : astate; s_disable : astate; s_integ : astate; s_enable : astate;
  s_integ_done : bool;
  s_run : running
}.

Definition set_now st t := mk_mstate t (s_conn st) (s_enabled st) (s_linkup st) (s_stopped st)
  (s_assoc st) (s_seq st) (s_last_unsol st) (s_queue st) (s_clear st) (s_disable st) (s_integ st)
  (s_enable st) (s_integ_done st) (s_run st).
Definition set_run st r := mk_mstate (s_now st) (s_conn st) (s_enabled st) (s_linkup st)
  (s_stopped st) (s_assoc st) (s_seq st) (s_last_unsol st) (s_queue st) (s_clear st) (s_disable st)
  (s_integ st) (s_enable st) (s_integ_done st) r.
Definition set_seq st q := mk_mstate (s_now st) (s_conn st) (s_enabled st) (s_linkup st)
  (s_stopped st) (s_assoc st) q (s_last_unsol st) (s_queue st) (s_clear st) (s_disable st)
  (s_integ st) (s_enable st) (s_integ_done st) (s_run st).
Definition set_queue st q := mk_mstate (s_now st) (s_conn st) (s_enabled st) (s_linkup st)
  (s_stopped st) (s_assoc st) (s_seq st) (s_last_unsol st) q (s_clear st) (s_disable st)
  (s_integ st) (s_enable st) (s_integ_done st) (s_run st).
Definition set_last_unsol st l := mk_mstate (s_now st) (s_conn st) (s_enabled st) (s_linkup st)
  (s_stopped st) (s_assoc st) (s_seq st) l (s_queue st) (s_clear st) (s_disable st)
  (s_integ st) (s_enable st) (s_integ_done st) (s_run st).
Definition set_autos st c d i e done := mk_mstate (s_now st) (s_conn st) (s_enabled st)
  (s_linkup st) (s_stopped st) (s_assoc st) (s_seq st) (s_last_unsol st) (s_queue st) c d i e done
  (s_run st).
Definition set_chan st conn en up stopped := mk_mstate (s_now st) conn en up stopped
  (s_assoc st) (s_seq st) (s_last_unsol st) (s_queue st) (s_clear st) (s_disable st) (s_integ st)
  (s_enable st) (s_integ_done st) (s_run st).
Definition set_assoc st a := mk_mstate (s_now st) (s_conn st) (s_enabled st) (s_linkup st)
  (s_stopped st) a (s_seq st) (s_last_unsol st) (s_queue st) (s_clear st) (s_disable st)
  (s_integ st) (s_enable st) (s_integ_done st) (s_run st).

Definition set_clear st a := set_autos st a (s_disable st) (s_integ st) (s_enable st) (s_integ_done st).
Definition set_disable st a := set_autos st (s_clear st) a (s_integ st) (s_enable st) (s_integ_done st).
Definition set_integ st a done := set_autos st (s_clear st) (s_disable st) a (s_enable st) done.
Definition set_enable st a := set_autos st (s_clear st) (s_disable st) (s_integ st) a (s_integ_done st).

Definition emit (st : mstate) (o : mobs) : list tobs := [(s_now st, o)].

(* ---------------------------------------------------------------------------------------- *)
(* requests on the wire *)

Definition request_bytes (seq fc : N) (objs : list byte) : list byte := (192 + seq) :: fc :: objs.
Definition confirm_bytes (uns : bool) (seq : N) : list byte :=
  [(if uns then 208 else 192) + seq; 0].

(* request.rs EventClasses::write / Classes::write *)
Definition event_class_objs (m : N) : list byte :=
  (if N.testbit m 0 then [60; 2; 6] else []) ++ (if N.testbit m 1 then [60; 3; 6] else [])
  ++ (if N.testbit m 2 then [60; 4; 6] else []).
Definition class_objs (m : N) : list byte :=
  event_class_objs (N.shiftr m 1) ++ (if N.testbit m 0 then [60; 1; 6] else []).

Definition cphase_fc (ph : cphase) : N :=
  match ph with PhSelect => 3 | PhOperate => 4 | PhDirect => 5 end.

Definition nr_fc (k : nr_kind) : N :=
  match k with
  | NRCommand _ ph _ => cphase_fc ph
  | NRDeadBand _ => 2
  | NREmpty _ fc => fc
  | NRRestart _ cold => if cold then 13 else 14
  | NRAuto AClear => 2
  | NRAuto AEnable => 20
  | NRAuto ADisable => 21
  end.

(* function code reported with task_start / task_success: the one the task had when it started *)
Definition nr_fc0 (k : nr_kind) : N :=
  match k with
  | NRCommand _ PhOperate _ => 3
  | _ => nr_fc k
  end.

Definition nr_type (k : nr_kind) : ttype :=
  match k with
  | NRCommand _ _ _ => TCommand
  | NRDeadBand _ => TDeadBands
  | NREmpty _ fc => TEmpty fc
  | NRRestart _ _ => TRestart
  | NRAuto AClear => TClear
  | NRAuto AEnable => TEnable
  | NRAuto ADisable => TDisable
  end.

Definition rd_type (k : rd_kind) : ttype :=
  match k with RDUser _ => TUserRead | RDIntegrity => TIntegrity end.
Definition rd_read_type (k : rd_kind) : read_type :=
  match k with RDUser _ => RtSingle | RDIntegrity => RtIntegrity end.

(* ---------------------------------------------------------------------------------------- *)
(* automatic tasks *)

Definition demand (a : astate) : astate := match a with AIdle => APending | _ => a end.

(* AutoTaskState::failure with ExponentialBackOff::on_failure *)
Definition failure (cfg : mcfg) (now : N) (a : astate) : astate :=
  let d := match a with
           | AFailed last _ => N.min (2 * last) (c_retry_max cfg)
           | _ => c_retry_min cfg
           end in
  AFailed d (now + N.max d 1).

(* Association::process_iin (only DEVICE_RESTART has an effect in the modelled configuration) *)
Definition process_iin (st : mstate) (i1 : N) : mstate :=
  if iin1_restart i1 then
    match s_clear st with
    | AIdle => set_autos st APending (s_disable st) (demand (s_integ st)) (demand (s_enable st)) false
    | _ => st
    end
  else st.

Definition integrity_complete (cfg : mcfg) (st : mstate) : bool :=
  (c_integrity cfg =? 0) || s_integ_done st.

(* AutoTask::handle and the RejectedByIin2 arm of AutoTask::on_task_error *)
Definition auto_response (cfg : mcfg) (st : mstate) (a : auto_kind) (i1 : N) : mstate :=
  match a with
  | ADisable => set_disable st AIdle
  | AEnable => set_enable st AIdle
  | AClear => if iin1_restart i1 then set_clear st (failure cfg (s_now st) (s_clear st))
              else set_clear st AIdle
  end.

Definition auto_failure (cfg : mcfg) (st : mstate) (a : auto_kind) : mstate :=
  match a with
  | ADisable => set_disable st (failure cfg (s_now st) (s_disable st))
  | AEnable => set_enable st (failure cfg (s_now st) (s_enable st))
  | AClear => set_clear st (failure cfg (s_now st) (s_clear st))
  end.

(* ---------------------------------------------------------------------------------------- *)
(* task failure: Task::on_task_error followed by AssociationInformation::task_fail *)

Definition nr_error (cfg : mcfg) (st : mstate) (k : nr_kind) (e : terr) : mstate * list tobs :=
  match k with
  | NRCommand tok _ _ | NRDeadBand tok | NREmpty tok _ | NRRestart tok _ =>
    (st, emit st (ORes tok (RErr e)))
  | NRAuto a =>
    if s_assoc st then
      match e with
      | ERejected i1 _ => (auto_response cfg st a i1, [])
      | _ => (auto_failure cfg st a, [])
      end
    else (st, [])
  end.

Definition rd_error (cfg : mcfg) (st : mstate) (k : rd_kind) (e : terr) : mstate * list tobs :=
  match k with
  | RDUser tok => (st, emit st (ORes tok (RErr e)))
  | RDIntegrity =>
    if s_assoc st then (set_integ st (failure cfg (s_now st) (s_integ st)) (s_integ_done st), [])
    else (st, [])
  end.

Definition notify_fail (st : mstate) (ty : ttype) (e : terr) : list tobs :=
  if s_assoc st then emit st (OInfoFail ty e) else [].

(* the running task ends with error [e]; the session goes on *)
Definition fail_running (cfg : mcfg) (st : mstate) (e : terr) : mstate * list tobs :=
  match s_run st with
  | RNone => (st, [])
  | RNonRead k _ _ _ =>
    let '(st1, o) := nr_error cfg st k e in
    (set_run st1 RNone, o ++ notify_fail st1 (nr_type k) e)
  | RRead k _ _ _ _ =>
    let '(st1, o) := rd_error cfg st k e in
    (set_run st1 RNone, o ++ notify_fail st1 (rd_type k) e)
  | RLink tok _ => (set_run st RNone, emit st (ORes tok (RErr e)))
  end.

(* ---------------------------------------------------------------------------------------- *)
(* starting tasks *)

(* send_request: the sequence number is consumed even when formatting fails *)
Definition fits (cfg : mcfg) (objs : list byte) : bool := (2 + length objs <=? c_txsize cfg)%nat.

Definition send_nonread (cfg : mcfg) (st : mstate) (k : nr_kind) (objs : list byte) (started : N)
  : mstate * list tobs :=
  let seq := s_seq st in
  let st1 := set_seq st (seq_next seq) in
  if fits cfg objs then
    (set_run st1 (RNonRead k seq (s_now st + c_timeout cfg) started),
     emit st (OTxReq (c_addr cfg) seq (nr_fc k) objs))
  else
    let '(st2, o) := nr_error cfg st1 k EWriteError in
    (set_run st2 RNone, o ++ notify_fail st2 (nr_type k) EWriteError).

Definition start_nonread (cfg : mcfg) (st : mstate) (k : nr_kind) (objs : list byte)
  : mstate * list tobs :=
  let '(st1, o) := send_nonread cfg st k objs (s_now st) in
  (st1, emit st (OInfoStart (nr_type k) (nr_fc0 k) (s_seq st)) ++ o).

Definition start_read (cfg : mcfg) (st : mstate) (k : rd_kind) (objs : list byte)
  : mstate * list tobs :=
  let seq := s_seq st in
  let st1 := set_seq st (seq_next seq) in
  let start := emit st (OInfoStart (rd_type k) 1 seq) in
  if fits cfg objs then
    (set_run st1 (RRead k seq true (s_now st + c_timeout cfg) (s_now st)),
     start ++ emit st (OTxReq (c_addr cfg) seq 1 objs))
  else
    let '(st2, o) := rd_error cfg st1 k EWriteError in
    (set_run st2 RNone, start ++ o ++ notify_fail st2 (rd_type k) EWriteError).

Definition auto_objs (cfg : mcfg) (a : auto_kind) : list byte :=
  match a with
  | AClear => [80; 1; 0; 7; 7; 0]
  | ADisable => event_class_objs (c_disable cfg)
  | AEnable => event_class_objs (c_enable cfg)
  end.

Definition start_user (cfg : mcfg) (st : mstate) (tok : N) (t : utask) : mstate * list tobs :=
  match t with
  | URead objs => start_read cfg st (RDUser tok) objs
  | UCommand sbo hs =>
    start_nonread cfg st (NRCommand tok (if sbo then PhSelect else PhDirect) hs) (encode_phs hs)
  | UDeadBand hs => start_nonread cfg st (NRDeadBand tok) (encode_phs hs)
  | UEmpty fc objs => start_nonread cfg st (NREmpty tok fc) objs
  | URestart cold => start_nonread cfg st (NRRestart tok cold) []
  | ULinkStatus =>
    (set_run st (RLink tok (s_now st + c_timeout cfg)), emit st OTxLinkStatus)
  end.

(* AssociationMap::next_task for the single association *)
Inductive next :=
| NxNone | NxNotBefore (t : N) | NxUser (tok : N) (t : utask) | NxAuto (a : auto_kind)
| NxIntegrity.

Definition auto_next (a : astate) (now : N) (task : next) : option next :=
  match a with
  | AIdle => None
  | APending => Some task
  | AFailed _ t => Some (if t <=? now then task else NxNotBefore t)
  end.

Definition next_task (cfg : mcfg) (st : mstate) : next :=
  if negb (s_assoc st) then NxNone else
  match s_queue st with
  | (tok, t) :: _ => NxUser tok t
  | [] =>
    match auto_next (s_clear st) (s_now st) (NxAuto AClear) with
    | Some n => n
    | None =>
      match (if c_disable cfg =? 0 then None
             else auto_next (s_disable st) (s_now st) (NxAuto ADisable)) with
      | Some n => n
      | None =>
        match (if c_integrity cfg =? 0 then None
               else auto_next (s_integ st) (s_now st) NxIntegrity) with
        | Some n => n
        | None =>
          match (if c_enable cfg =? 0 then None
                 else auto_next (s_enable st) (s_now st) (NxAuto AEnable)) with
          | Some n => n
          | None => NxNone
          end
        end
      end
    end
  end.

(* the loop of MasterSession::run while no task is outstanding: start tasks until one waits *)
Fixpoint pump (fuel : nat) (cfg : mcfg) (st : mstate) : mstate * list tobs :=
  match fuel with
  | O => (st, [])
  | S f =>
    if negb (s_conn st) then (st, []) else
    match s_run st with
    | RNone =>
      match next_task cfg st with
      | NxNone | NxNotBefore _ => (st, [])
      | NxUser tok t =>
        let '(st1, o) := start_user cfg (set_queue st (tl (s_queue st))) tok t in
        let '(st2, o') := pump f cfg st1 in (st2, o ++ o')
      | NxAuto a =>
        let '(st1, o) := start_nonread cfg st (NRAuto a) (auto_objs cfg a) in
        let '(st2, o') := pump f cfg st1 in (st2, o ++ o')
      | NxIntegrity =>
        let '(st1, o) := start_read cfg st RDIntegrity (class_objs (c_integrity cfg)) in
        let '(st2, o') := pump f cfg st1 in (st2, o ++ o')
      end
    | _ => (st, [])
    end
  end.

Definition pump_fuel (st : mstate) : nat := S (S (length (s_queue st))).
Definition run_pump (cfg : mcfg) (st : mstate) : mstate * list tobs := pump (pump_fuel st) cfg st.

(* [f st] then the task loop.  The event handlers below never start a task themselves: whatever
   happens, the session returns to the loop of MasterSession::run, which is [run_pump], applied
   once after the handler in [mstep] (it does nothing while a task is waiting or there is no
   connection) *)
Definition then_pump (cfg : mcfg) (r : mstate * list tobs) : mstate * list tobs :=
  let '(st1, o) := r in
  let '(st2, o') := run_pump cfg st1 in (st2, o ++ o').

(* ---------------------------------------------------------------------------------------- *)
(* unsolicited responses: MasterSession::handle_unsolicited *)

Definition deliver (st : mstate) (rt : read_type) (h : rhdr) (items : list item) : list tobs :=
  emit st (OCbBegin rt (hdr_bytes h)) ++ flat_map (fun it => emit st (OCbItem it)) items
  ++ emit st (OCbEnd rt (hdr_bytes h)).

Definition frag_eqb (a b : list byte * list byte) : bool :=
  list_eqb (fst a) (fst b) && list_eqb (snd a) (snd b).

Definition handle_unsol (cfg : mcfg) (st : mstate) (src : N) (h : rhdr) (objs : list byte)
  (v : verdict) (items : list item) : mstate * list tobs :=
  if (src =? c_addr cfg) && s_assoc st then
    let st1 := process_iin st (h_iin1 h) in
    if integrity_complete cfg st1 || match objs with [] => true | _ => false end then
      match v with
      | VOk =>
      let new := (hdr_bytes h, objs) in
      let dup := match s_last_unsol st1 with Some old => frag_eqb old new | None => false end in
      let st2 := set_last_unsol st1 (Some new) in
      let confirm := if c_con (h_ctrl h)
                     then emit st (OTxConfirm (c_addr cfg) true (c_seq (h_ctrl h)))
                     else [] in
      if dup then
        (st2, emit st (OInfoUnsol true (c_seq (h_ctrl h))) ++ confirm)
      else
        (st2, deliver st RtUnsol h items
              ++ emit st (OInfoUnsol false (c_seq (h_ctrl h))) ++ confirm)
      | _ => (st1, [])   (* malformed objects: not recorded, not reported, not confirmed (fix 588059f) *)
      end
    else (st1, [])
  else (st, []).

(* ---------------------------------------------------------------------------------------- *)
(* responses to the outstanding task *)

(* NonReadTask::handle_response for an accepted response; the task has been taken out of the
   state ([s_run] is rewritten by every branch) *)
Definition nr_success (st : mstate) (k : nr_kind) (seq : N) (o : list tobs) : mstate * list tobs :=
  (set_run st RNone, o ++ emit st (OInfoSuccess (nr_type k) (nr_fc0 k) seq)).
Definition nr_failed (st : mstate) (k : nr_kind) (e : terr) (o : list tobs) : mstate * list tobs :=
  (set_run st RNone, o ++ emit st (OInfoFail (nr_type k) e)).

Definition handle_nonread_response (cfg : mcfg) (st : mstate) (k : nr_kind) (seq started : N)
  (h : rhdr) (objs : list byte) (v : verdict) : mstate * list tobs :=
  match k with
  | NRCommand tok ph hs =>
    match v with
    | VOk =>
      match compare hs objs with
      | CErr e => nr_failed st k EBadHeaders (emit st (ORes tok (RCmdErr e)))
      | COk =>
        match ph with
        | PhSelect => send_nonread cfg st (NRCommand tok PhOperate hs) (encode_phs hs) started
        | _ => nr_success st k seq (emit st (ORes tok ROk))
        end
      end
    | _ => nr_failed st k EMalformed (emit st (ORes tok (RErr EMalformed)))
    end
  | NRDeadBand tok | NREmpty tok _ =>
    match objs with
    | [] => nr_success st k seq (emit st (ORes tok ROk))
    | _ => nr_failed st k EBadHeaders (emit st (ORes tok (RErr EBadHeaders)))
    end
  | NRRestart tok _ =>
    match v, restart_delay objs with
    | VOk, Some ms => nr_success st k seq (emit st (ORes tok (ROkMs ms)))
    | _, _ => nr_failed st k EBadHeaders (emit st (ORes tok (RErr EBadHeaders)))
    end
  | NRAuto a => nr_success (auto_response cfg st a (h_iin1 h)) k seq []
  end.

(* validate_non_read_response + the tail of run_single_non_read_task *)
Definition on_nonread_rx (cfg : mcfg) (st : mstate) (k : nr_kind) (seq deadline started : N)
  (src : N) (h : rhdr) (objs : list byte) (v : verdict) (items : list item)
  : mstate * list tobs :=
  if h_unsol h then handle_unsol cfg st src h objs v items
  else if negb (src =? c_addr cfg) then (st, [])
  else if negb (c_seq (h_ctrl h) =? seq) then (st, [])
  else if negb (c_fir (h_ctrl h) && c_fin (h_ctrl h)) then
    fail_running cfg st EMultiFragment
  else if iin2_bad (h_iin2 h) then
    fail_running cfg st (ERejected (h_iin1 h) (h_iin2 h))
  else
    let confirm := if c_con (h_ctrl h) then emit st (OTxConfirm (c_addr cfg) false seq)
                   else [] in
    if s_assoc st then
      let '(st1, o) := handle_nonread_response cfg (process_iin st (h_iin1 h)) k seq started h objs v in
      (st1, confirm ++ o)
    else
      let '(st1, o) := nr_error cfg st k ENoAssociation in
      (set_run st1 RNone, confirm ++ o).

(* process_read_response + the loop of execute_read_task + run_read_task *)
Definition on_read_rx (cfg : mcfg) (st : mstate) (k : rd_kind) (seq : N) (first : bool)
  (deadline started : N) (src : N) (h : rhdr) (objs : list byte) (v : verdict)
  (items : list item) : mstate * list tobs :=
  let c := h_ctrl h in
  if h_unsol h then handle_unsol cfg st src h objs v items
  else if negb (src =? c_addr cfg) then (st, [])
  else if negb (c_seq c =? seq) then (st, [])
  else if c_fir c && negb first then fail_running cfg st EUnexpectedFir
  else if negb (c_fir c) && first then fail_running cfg st ENeverFir
  else if negb (c_fin c) && negb (c_con c) then fail_running cfg st ENonFinWithoutCon
  else if iin2_bad (h_iin2 h) then
    fail_running cfg st (ERejected (h_iin1 h) (h_iin2 h))
  else if negb (s_assoc st) then fail_running cfg st ENoAssociation
  else
    let st1 := process_iin st (h_iin1 h) in
    match v with
    | VOk =>
      let o := deliver st (rd_read_type k) h items
               ++ (if c_con c then emit st (OTxConfirm (c_addr cfg) false seq) else []) in
      if c_fin c then
        let '(st2, o2) :=
          match k with
          | RDUser tok => (st1, emit st (ORes tok ROk))
          | RDIntegrity => (set_integ st1 AIdle true, [])
          end in
        (set_run st2 RNone, o ++ o2 ++ emit st (OInfoSuccess (rd_type k) 1 seq))
      else
        (set_run (set_seq st1 (seq_next (s_seq st1)))
                 (RRead k (s_seq st1) false (s_now st + c_timeout cfg) started), o)
    | _ => fail_running cfg st1 EMalformed
    end.

Definition on_rx (cfg : mcfg) (st : mstate) (src : N) (frag : list byte) (v : verdict)
  (items : list item) : mstate * list tobs :=
  if negb (s_conn st) then (st, emit st ORxNoConn) else
  match parse_response frag with
  | PError =>
    match s_run st with
    | RNone => (st, [])
    | RLink _ _ => fail_running cfg st EBadHeaders
    | _ => fail_running cfg st ETransport
    end
  | PResponse h objs =>
    match s_run st with
    | RNone =>
      if h_unsol h then handle_unsol cfg st src h objs v items
      else (st, [])
    | RLink _ _ =>
      let '(st1, o) := if h_unsol h then handle_unsol cfg st src h objs v items else (st, []) in
      let '(st2, o2) := fail_running cfg st1 EBadHeaders in
      (st2, o ++ o2)
    | RNonRead k seq d started => on_nonread_rx cfg st k seq d started src h objs v items
    | RRead k seq first d started => on_read_rx cfg st k seq first d started src h objs v items
    end
  end.

(* ---------------------------------------------------------------------------------------- *)
(* messages and the connection loop *)

Definition on_user (cfg : mcfg) (st : mstate) (tok : N) (t : utask) : mstate * list tobs :=
  if negb (s_assoc st) then
    let o := emit st (ORes tok (RErr ENoAssociation)) in
    (st, o)
  else if negb (s_conn st) then (st, emit st (ORes tok (RErr ENoConnection)))
  else if (length (s_queue st) <? c_maxq cfg)%nat then
    (set_queue st (s_queue st ++ [(tok, t)]), [])
  else (st, emit st (ORes tok (RErr ETooMany))).

Definition stop_err (why : stop) : terr :=
  match why with StDisable => EDisabled | StShutdown => EShutdown_ | StLink => ELink end.

(* MasterSession::reset -> Association::reset *)
Definition reset_assoc (st : mstate) (e : terr) : mstate * list tobs :=
  let o := flat_map (fun p => emit st (ORes (fst p) (RErr e))) (s_queue st) in
  let st1 := set_queue st [] in
  let st2 := set_autos st1 AIdle APending APending APending false in
  (set_last_unsol st2 None, o).

(* MasterTask::run returns: the outstanding task fails, queued requests fail, the session is
   reset *)
Definition stop_run (cfg : mcfg) (st : mstate) (why : stop) : mstate * list tobs :=
  let '(st1, o1) := fail_running cfg st (stop_err why) in
  let '(st2, o2) := if s_assoc st1 then reset_assoc st1 (stop_err why) else (st1, []) in
  (set_chan st2 false (s_enabled st2)
            (match why with StLink => false | _ => s_linkup st2 end) (s_stopped st2),
   o1 ++ o2 ++ emit st (OChanRunEnd why)).

Definition try_connect (cfg : mcfg) (st : mstate) : mstate * list tobs :=
  if negb (s_conn st) && s_enabled st && s_linkup st && negb (s_stopped st) then
    (set_chan st true true true false, emit st OChanConnected)
  else (st, []).

Definition on_event (cfg : mcfg) (st : mstate) (ev : mevent) : mstate * list tobs :=
  match ev with
  | ERx src frag v items =>
    let '(st1, o) := on_rx cfg st src frag v items in (st1, emit st (OPv v) ++ o)
  | ESleep _ => (st, [])
  | EUser tok t => on_user cfg st tok t
  | EDisable =>
    let st1 := set_chan st (s_conn st) false (s_linkup st) (s_stopped st) in
    if s_conn st then stop_run cfg st1 StDisable else (st1, [])
  | EEnable =>
    let st1 := set_chan st (s_conn st) true (s_linkup st) (s_stopped st) in
    if s_conn st then (st1, []) else try_connect cfg st1
  | EDropIo =>
    if s_conn st then stop_run cfg st StLink
    else (set_chan st false (s_enabled st) false (s_stopped st), [])
  | EConnect =>
    try_connect cfg (set_chan st (s_conn st) (s_enabled st) true (s_stopped st))
  | ERemove =>
    let o := flat_map (fun p => emit st (ORes (fst p) RDropped)) (s_queue st) in
    let st1 := set_queue (set_assoc st false) [] in
    (st1, o)
  | EShutdown =>
    let '(st1, o) := if s_conn st then stop_run cfg st StShutdown else (st, []) in
    (set_chan st1 false (s_enabled st1) (s_linkup st1) true, o ++ emit st OChanStopped)
  end.

(* ---------------------------------------------------------------------------------------- *)
(* time *)

Definition wake_time (cfg : mcfg) (st : mstate) : option N :=
  if s_conn st then
    match s_run st with
    | RNonRead _ _ d _ => Some d
    | RRead _ _ _ d _ => Some d
    | RLink _ d => Some d
    | RNone => match next_task cfg st with NxNotBefore t => Some t | _ => None end
    end
  else None.

(* a deadline expires: the response timeout of the outstanding task, or the retry time of an
   automatic task *)
Definition fire (cfg : mcfg) (st : mstate) : mstate * list tobs :=
  match s_run st with
  | RNone => run_pump cfg st
  | _ => then_pump cfg (fail_running cfg st ETimeout)
  end.

Fixpoint advance (fuel : nat) (cfg : mcfg) (st : mstate) (target : N) : mstate * list tobs :=
  match fuel with
  | O => (set_now st (N.max (s_now st) target), [])
  | S f =>
    match wake_time cfg st with
    | Some d =>
      if d <=? target then
        let '(st1, o) := fire cfg (set_now st (N.max (s_now st) d)) in
        let '(st2, o') := advance f cfg st1 target in (st2, o ++ o')
      else (set_now st (N.max (s_now st) target), [])
    | None => (set_now st (N.max (s_now st) target), [])
    end
  end.

Definition span_of (ev : mevent) : N := match ev with ESleep n => n + 1 | _ => 1 end.

Definition mstep (cfg : mcfg) (st : mstate) (ev : mevent) : mstate * list tobs :=
  if s_stopped st then (st, emit st OStep ++ emit st OIgnored) else
  let '(st1, o) := then_pump cfg (on_event cfg st ev) in
  let '(st2, o') := advance (S (N.to_nat (span_of ev))) cfg st1 (s_now st1 + span_of ev) in
  (st2, emit st OStep ++ o ++ o').

(* the harness adds the association to a freshly connected, enabled master and settles once *)
Definition minit (cfg : mcfg) : mstate * list tobs :=
  let st0 := mk_mstate 0 true true true false true 0 None [] AIdle APending APending APending
                       false RNone in
  let '(st1, o) := run_pump cfg st0 in
  let '(st2, o') := advance 2 cfg st1 1 in
  (st2, emit st0 OChanConnected ++ o ++ o').

Fixpoint run_from (cfg : mcfg) (st : mstate) (evs : list mevent) : list (list tobs) :=
  match evs with
  | [] => []
  | ev :: r => let '(st1, o) := mstep cfg st ev in o :: run_from cfg st1 r
  end.

Definition run (cfg : mcfg) (evs : list mevent) : list (list tobs) :=
  let '(st0, o0) := minit cfg in o0 :: run_from cfg st0 evs.

Fixpoint final_from (cfg : mcfg) (st : mstate) (evs : list mevent) : mstate :=
  match evs with
  | [] => st
  | ev :: r => final_from cfg (fst (mstep cfg st ev)) r
  end.
Definition final (cfg : mcfg) (evs : list mevent) : mstate := final_from cfg (fst (minit cfg)) evs.

End MT.
