(* Master/AssocProofs.v — properties of one association (C17) and the bookkeeping that ties the
   automatic-task flags of an association to the history of observations (used by SchedProofs). *)
From Coq Require Import ZArith NArith List Bool Lia.
From Dnp3V Require Import Master.Backoff Master.BackoffProofs Master.Assoc.
Import ListNotations.
Open Scope Z_scope.

(* ================================================================================================
   1. TaskStates::next — the fixed priority order of the automatic tasks
   ================================================================================================ *)

Definition dis_ok (c : ms_acfg) (ts : ms_task_states) : bool :=
  negb (ms_ev_any (ms_c_disable c)) || ms_is_idle (ms_ts_disable ts).
Definition integ_ok (c : ms_acfg) (ts : ms_task_states) : bool :=
  negb (ms_cl_any (ms_c_integrity c)) || ms_is_idle (ms_ts_integrity ts).
Definition time_ok (c : ms_acfg) (ts : ms_task_states) : bool :=
  N.eqb (ms_c_tsync c) 0 || ms_is_idle (ms_ts_time ts).
Definition en_ok (c : ms_acfg) (ts : ms_task_states) : bool :=
  negb (ms_ev_any (ms_c_enable c)) || ms_is_idle (ms_ts_enable ts).

(* the task an automatic decision is about, whether it is due now or only later *)
Inductive auto_choice :=
| CNothing | CClear | CDisable | CIntegrity | CTime | CEnable | CEvScan.

Definition auto_choice_of (c : ms_acfg) (ts : ms_task_states) (events : N) : auto_choice :=
  if ms_is_pending (ms_ts_clear ts) then CClear
  else if ms_ev_any (ms_c_disable c) && ms_is_pending (ms_ts_disable ts) then CDisable
  else if ms_cl_any (ms_c_integrity c) && ms_is_pending (ms_ts_integrity ts) then CIntegrity
  else if ms_is_pending (ms_ts_time ts) && negb (N.eqb (ms_c_tsync c) 0) then CTime
  else if ms_ev_any (ms_c_enable c) && ms_is_pending (ms_ts_enable ts) then CEnable
  else if ms_ev_any (N.land (N.land events (ms_c_evscan c)) 7) then CEvScan
  else CNothing.

Lemma is_pending_idle s : ms_is_pending s = negb (ms_is_idle s).
Proof. reflexivity. Qed.

(* the priority order as guards: whatever is chosen, everything of higher priority is settled *)
Lemma ok_of_false a b : a && negb b = false -> negb a || b = true.
Proof. destruct a, b; cbn; auto. Qed.
Lemma ok_of_false' a b : negb b && negb a = false -> a || b = true.
Proof. destruct a, b; cbn; auto. Qed.
Lemma pending_of_true a b : a && negb b = true -> b = false.
Proof. destruct a, b; cbn; auto; discriminate. Qed.
Lemma pending_of_true' a b : negb b && a = true -> b = false.
Proof. destruct a, b; cbn; auto; discriminate. Qed.

Theorem auto_choice_guards : forall c ts ev,
  match auto_choice_of c ts ev with
  | CClear => True
  | CDisable => ms_is_idle (ms_ts_clear ts) = true
  | CIntegrity => ms_is_idle (ms_ts_clear ts) = true /\ dis_ok c ts = true
  | CTime => ms_is_idle (ms_ts_clear ts) = true /\ dis_ok c ts = true /\ integ_ok c ts = true
  | CEnable => ms_is_idle (ms_ts_clear ts) = true /\ dis_ok c ts = true /\ integ_ok c ts = true
               /\ time_ok c ts = true
  | CEvScan | CNothing =>
      ms_is_idle (ms_ts_clear ts) = true /\ dis_ok c ts = true /\ integ_ok c ts = true
      /\ time_ok c ts = true /\ en_ok c ts = true
  end.
Proof.
  intros c ts ev. unfold auto_choice_of, dis_ok, integ_ok, time_ok, en_ok.
  rewrite !is_pending_idle.
  destruct (ms_is_idle (ms_ts_clear ts)) eqn:E1; cbn [negb]; [|exact I].
  destruct (ms_ev_any (ms_c_disable c)) eqn:A2, (ms_is_idle (ms_ts_disable ts)) eqn:B2;
    cbn [negb andb orb]; try reflexivity;
  (destruct (ms_cl_any (ms_c_integrity c)) eqn:A3, (ms_is_idle (ms_ts_integrity ts)) eqn:B3;
    cbn [negb andb orb]; try (split; reflexivity);
   (destruct (ms_is_idle (ms_ts_time ts)) eqn:B4, (N.eqb (ms_c_tsync c) 0) eqn:A4;
     cbn [negb andb orb]; try (repeat split; reflexivity);
    (destruct (ms_ev_any (ms_c_enable c)) eqn:A5, (ms_is_idle (ms_ts_enable ts)) eqn:B5;
      cbn [negb andb orb]; try (repeat split; reflexivity);
     destruct (ms_ev_any (N.land (N.land ev (ms_c_evscan c)) 7)); repeat split; reflexivity))).
Qed.

Definition task_choice (t : ms_task) : auto_choice :=
  match t with
  | MsTClearRestart => CClear
  | MsTDisableUnsol _ => CDisable
  | MsTIntegrity _ => CIntegrity
  | MsTTimeSync _ None => CTime
  | MsTEnableUnsol _ => CEnable
  | MsTEventScan _ => CEvScan
  | _ => CNothing
  end.

Lemma create_next_now s now t t' : ms_create_next s now t = MsNNow t' -> t' = t.
Proof. destruct s; cbn [ms_create_next]; try discriminate; [congruence|].
  destruct (nx <=? now); [congruence|discriminate]. Qed.

(* what TaskStates::next returns is the task of the choice *)
Lemma auto_next_now : forall c ts ev now t,
  ms_auto_next c ts ev now = MsNNow t -> task_choice t = auto_choice_of c ts ev /\ task_choice t <> CNothing.
Proof.
  intros c ts ev now t. unfold ms_auto_next, auto_choice_of.
  destruct (ms_is_pending (ms_ts_clear ts)).
  { intros H. apply create_next_now in H. subst. split; [reflexivity|discriminate]. }
  destruct (ms_ev_any (ms_c_disable c) && ms_is_pending (ms_ts_disable ts)).
  { intros H. apply create_next_now in H. subst. split; [reflexivity|discriminate]. }
  destruct (ms_cl_any (ms_c_integrity c) && ms_is_pending (ms_ts_integrity ts)).
  { intros H. apply create_next_now in H. subst. split; [reflexivity|discriminate]. }
  destruct (ms_is_pending (ms_ts_time ts) && negb (N.eqb (ms_c_tsync c) 0)).
  { intros H. apply create_next_now in H. subst. split; [reflexivity|discriminate]. }
  destruct (ms_ev_any (ms_c_enable c) && ms_is_pending (ms_ts_enable ts)).
  { intros H. apply create_next_now in H. subst. split; [reflexivity|discriminate]. }
  destruct (ms_ev_any (N.land (N.land ev (ms_c_evscan c)) 7)).
  { intros H. apply create_next_now in H. subst. split; [reflexivity|discriminate]. }
  discriminate.
Qed.

(* polls and the keep-alive are considered only when TaskStates::next has nothing at all,
   not even a task waiting for its retry time *)
Lemma auto_next_none : forall c ts ev now,
  ms_auto_next c ts ev now = MsNNone ->
  ms_is_idle (ms_ts_clear ts) = true /\ dis_ok c ts = true /\ integ_ok c ts = true
  /\ time_ok c ts = true /\ en_ok c ts = true.
Proof.
  intros c ts ev now. unfold ms_auto_next, dis_ok, integ_ok, time_ok, en_ok.
  rewrite !is_pending_idle.
  assert (Hc : forall s t, ms_is_idle s = false -> ms_create_next s now t <> MsNNone).
  { intros s t Hs. destruct s; cbn in *; try discriminate. destruct (nx <=? now); discriminate. }
  destruct (ms_is_idle (ms_ts_clear ts)) eqn:E1; cbn [negb].
  2:{ intros H. exfalso. eapply Hc; eauto. }
  destruct (ms_ev_any (ms_c_disable c)) eqn:A2, (ms_is_idle (ms_ts_disable ts)) eqn:B2;
    cbn [negb andb orb]; try (intros H; exfalso; eapply Hc; [exact B2|exact H]);
  (destruct (ms_cl_any (ms_c_integrity c)) eqn:A3, (ms_is_idle (ms_ts_integrity ts)) eqn:B3;
    cbn [negb andb orb]; try (intros H; exfalso; eapply Hc; [exact B3|exact H]);
   (destruct (ms_is_idle (ms_ts_time ts)) eqn:B4, (N.eqb (ms_c_tsync c) 0) eqn:A4;
     cbn [negb andb orb]; try (intros H; exfalso; eapply Hc; [exact B4|exact H]);
    (destruct (ms_ev_any (ms_c_enable c)) eqn:A5, (ms_is_idle (ms_ts_enable ts)) eqn:B5;
      cbn [negb andb orb]; try (intros H; exfalso; eapply Hc; [exact B5|exact H]);
     intros _; repeat split; reflexivity))).
Qed.

(* Association::get_next_task: a periodic poll or a keep-alive is returned only when no automatic
   task is pending; any other task it returns is the automatic task of the choice *)
Theorem get_next_task_guards : forall a now t,
  ms_get_next_task a now = MsNNow t ->
  match t with
  | MsTPoll _ _ | MsTLink None =>
      ms_is_idle (ms_ts_clear (ms_a_auto a)) = true /\ dis_ok (ms_a_cfg a) (ms_a_auto a) = true
      /\ integ_ok (ms_a_cfg a) (ms_a_auto a) = true /\ time_ok (ms_a_cfg a) (ms_a_auto a) = true
      /\ en_ok (ms_a_cfg a) (ms_a_auto a) = true
  | _ => task_choice t = auto_choice_of (ms_a_cfg a) (ms_a_auto a) (ms_a_events a)
         /\ task_choice t <> CNothing
  end.
Proof.
  intros a now t. unfold ms_get_next_task.
  destruct (ms_auto_next (ms_a_cfg a) (ms_a_auto a) (ms_a_events a) now) as [|x|nb] eqn:E.
  - pose proof (auto_next_none _ _ _ _ E) as G.
    destruct (ms_polls_next (ms_a_polls a) now) as [|p|np].
    + unfold ms_link_next. destruct (ms_a_link_deadline a) as [nx|]; [|discriminate].
      destruct (nx <=? now); [|discriminate]. intros H; inversion H; subst. exact G.
    + intros H; inversion H; subst. exact G.
    + unfold ms_link_next. destruct (ms_a_link_deadline a) as [nx|]; [|discriminate].
      destruct (nx <=? now); [|discriminate]. intros H; inversion H; subst. exact G.
  - intros H; inversion H; subst. pose proof (auto_next_now _ _ _ _ _ E) as [G1 G2].
    destruct t as [| | | | | |st [p|]| | |[p|]]; cbn [task_choice] in *; try (split; assumption);
      try (exfalso; apply G2; reflexivity).
  - discriminate.
Qed.

(* ================================================================================================
   2. NotBefore is in the future (C19: the master sleeps, it does not spin)
   ================================================================================================ *)

Lemma create_next_future s now t x : ms_create_next s now t = MsNNotBefore x -> now < x.
Proof.
  destruct s; cbn [ms_create_next]; try discriminate.
  destruct (nx <=? now) eqn:E; [discriminate|]. intros H; inversion H; subst. lia.
Qed.

Lemma auto_next_future c ts ev now x : ms_auto_next c ts ev now = MsNNotBefore x -> now < x.
Proof.
  unfold ms_auto_next.
  repeat match goal with
         | |- context [if ?b then _ else _] => destruct b; [apply create_next_future|]
         end.
  discriminate.
Qed.

Lemma polls_next_from_future ps now e x :
  (forall y, e = Some y -> now < y) ->
  ms_polls_next_from ps now e = MsNNotBefore x -> now < x.
Proof.
  revert e. induction ps as [|p ps IH]; intros e He; cbn [ms_polls_next_from].
  - destruct e as [y|]; [|discriminate]. intros H; inversion H; subst. apply He; reflexivity.
  - destruct (ms_p_next p <=? now) eqn:E; [discriminate|]. apply IH.
    intros y Hy. destruct e as [z|]; cbn [ms_min_opt] in Hy; inversion Hy; subst.
    + specialize (He z eq_refl). lia.
    + lia.
Qed.

Lemma polls_next_future ps now x : ms_polls_next ps now = MsNNotBefore x -> now < x.
Proof. apply polls_next_from_future. discriminate. Qed.

Lemma link_next_future a now x : ms_link_next a now = MsNNotBefore x -> now < x.
Proof.
  unfold ms_link_next. destruct (ms_a_link_deadline a) as [nx|]; [|discriminate].
  destruct (nx <=? now) eqn:E; [discriminate|]. intros H; inversion H; subst. lia.
Qed.

Theorem get_next_task_future : forall a now x, ms_get_next_task a now = MsNNotBefore x -> now < x.
Proof.
  intros a now x. unfold ms_get_next_task.
  destruct (ms_auto_next _ _ _ _) as [|t|nb] eqn:E.
  - destruct (ms_polls_next _ _) as [|p|np] eqn:Ep.
    + apply link_next_future.
    + discriminate.
    + apply polls_next_future in Ep.
      destruct (ms_link_next a now) as [|l|nl] eqn:El.
      * intros H; inversion H; subst. exact Ep.
      * discriminate.
      * apply link_next_future in El. intros H; inversion H; subst. lia.
  - discriminate.
  - apply auto_next_future in E. intros H; inversion H; subst. exact E.
Qed.

(* ================================================================================================
   3. Retry delays of a failing automatic task
   ================================================================================================ *)

(* k-th failure in a row (k = 0 is the first): the state after it *)
Fixpoint fail_times (c : ms_acfg) (s : ms_auto_state) (times : list ms_time) : ms_auto_state :=
  match times with
  | [] => s
  | t :: rest => fail_times c (ms_auto_failure c t s) rest
  end.

Definition not_failed (s : ms_auto_state) : Prop := match s with MsAFailed _ _ => False | _ => True end.

Lemma auto_failure_first c now s : not_failed s ->
  ms_auto_failure c now s
  = MsAFailed {| ms_b_strategy := {| ms_s_min := ms_c_rmin c; ms_s_max := ms_c_rmax c |};
                 ms_b_last := Some (ms_c_rmin c) |} (now + ms_retry_delay (ms_c_rmin c)).
Proof. destruct s; cbn; intros H; try reflexivity; contradiction. Qed.

Lemma auto_failure_again c now s x nx :
  ms_auto_failure c now (MsAFailed {| ms_b_strategy := s; ms_b_last := Some x |} nx)
  = MsAFailed {| ms_b_strategy := s; ms_b_last := Some (ms_next_delay ms_limit_ms (ms_s_max s) x) |}
              (now + ms_retry_delay (ms_next_delay ms_limit_ms (ms_s_max s) x)).
Proof. reflexivity. Qed.

(* after k+1 consecutive failures at times t_0 .. t_k the task is retried at
   t_k + max(1, nth_delay min max k) *)
Theorem retry_delays : forall c s times tk,
  not_failed s ->
  fail_times c s (times ++ [tk])
  = MsAFailed {| ms_b_strategy := {| ms_s_min := ms_c_rmin c; ms_s_max := ms_c_rmax c |};
                 ms_b_last := Some (ms_nth_delay ms_limit_ms (ms_c_rmin c) (ms_c_rmax c) (length times)) |}
              (tk + ms_retry_delay (ms_nth_delay ms_limit_ms (ms_c_rmin c) (ms_c_rmax c) (length times))).
Proof.
  intros c s times tk Hs.
  assert (G : forall times k nx tk,
    fail_times c (MsAFailed {| ms_b_strategy := {| ms_s_min := ms_c_rmin c; ms_s_max := ms_c_rmax c |};
                               ms_b_last := Some (ms_nth_delay ms_limit_ms (ms_c_rmin c) (ms_c_rmax c) k) |} nx)
               (times ++ [tk])
    = MsAFailed {| ms_b_strategy := {| ms_s_min := ms_c_rmin c; ms_s_max := ms_c_rmax c |};
                   ms_b_last := Some (ms_nth_delay ms_limit_ms (ms_c_rmin c) (ms_c_rmax c) (k + S (length times))) |}
                (tk + ms_retry_delay (ms_nth_delay ms_limit_ms (ms_c_rmin c) (ms_c_rmax c) (k + S (length times))))).
  { clear. induction times as [|t times IH]; intros k nx tk.
    - cbn [app fail_times length]. rewrite auto_failure_again. cbn [ms_s_max].
      replace (k + 1)%nat with (S k) by lia. reflexivity.
    - cbn [app fail_times length]. rewrite auto_failure_again. cbn [ms_s_max].
      change (ms_next_delay ms_limit_ms (ms_c_rmax c) (ms_nth_delay ms_limit_ms (ms_c_rmin c) (ms_c_rmax c) k))
        with (ms_nth_delay ms_limit_ms (ms_c_rmin c) (ms_c_rmax c) (S k)).
      rewrite IH. replace (S k + S (length times))%nat with (k + S (S (length times)))%nat by lia.
      reflexivity. }
  destruct times as [|t times].
  - cbn [app fail_times length]. rewrite auto_failure_first by exact Hs. reflexivity.
  - cbn [app fail_times length]. rewrite auto_failure_first by exact Hs.
    change (ms_c_rmin c) with (ms_nth_delay ms_limit_ms (ms_c_rmin c) (ms_c_rmax c) 0) at 2.
    rewrite G. cbn [plus]. reflexivity.
Qed.

(* with a sane strategy (0 < min <= max, whole milliseconds) the 1 ms floor of the repaired code
   never shows and the delays are exactly those of backoff_bounds *)
Corollary retry_delay_sane : forall mn mx k, 0 < mn -> mn <= mx -> mx < ms_limit_ms ->
  ms_retry_delay (ms_nth_delay ms_limit_ms mn mx k) = ms_nth_delay ms_limit_ms mn mx k
  /\ mn <= ms_nth_delay ms_limit_ms mn mx k <= mx.
Proof.
  intros mn mx k H0 H1 H2. pose proof (nth_delay_range ms_limit_ms mn mx k H1 H0 H2) as R.
  split; [unfold ms_retry_delay; lia|exact R].
Qed.

(* a failed task is not started before its retry time *)
Lemma create_next_failed_not_before b nx now t t' :
  ms_create_next (MsAFailed b nx) now t = MsNNow t' -> nx <= now.
Proof. cbn [ms_create_next]. destruct (nx <=? now) eqn:E; [lia|discriminate]. Qed.

(* ================================================================================================
   4. Flags of an association versus the history of observations
   ================================================================================================ *)

(* HD: DISABLE_UNSOLICITED done in this connection; HI: integrity poll completed in this
   connection and since the last restart indication; HE: the same for ENABLE_UNSOLICITED;
   HG: the gate of unsolicited data (= HI); HC: every restart indication seen in this connection
   has been cleared *)
Inductive hkind := HD | HI | HE | HG | HC.

Definition obs_effect (X : hkind) (A : N) (o : ms_obs) : option bool :=
  match o with
  | MsOClosed _ _ => Some (match X with HC => true | _ => false end)
  | MsOOk _ a k _ _ =>
      if N.eqb a A then
        match X, k with
        | HD, MsKDisableUnsol => Some true
        | HI, MsKIntegrity => Some true
        | HG, MsKIntegrity => Some true
        | HE, MsKEnableUnsol => Some true
        | _, _ => None
        end
      else None
  | MsOFail _ a k MsEIin2 =>
      if N.eqb a A then
        match X, k with
        | HD, MsKDisableUnsol => Some true
        | HE, MsKEnableUnsol => Some true
        | _, _ => None
        end
      else None
  | MsORestartSeen _ a =>
      if N.eqb a A then match X with HD => None | _ => Some false end else None
  | MsOCleared _ a =>
      if N.eqb a A then match X with HC => Some true | _ => None end else None
  | _ => None
  end.

Definition hstep (X : hkind) (A : N) (acc : bool) (o : ms_obs) : bool :=
  match obs_effect X A o with Some b => b | None => acc end.

Definition hfold (X : hkind) (A : N) (init : bool) (h : list ms_obs) : bool :=
  fold_left (hstep X A) h init.

Definition hinit (X : hkind) : bool := match X with HC => true | _ => false end.

(* the history predicate *)
Definition hist (X : hkind) (A : N) (h : list ms_obs) : bool := hfold X A (hinit X) h.

Definition flag (X : hkind) (a : ms_assoc) : bool :=
  match X with
  | HD => ms_is_idle (ms_ts_disable (ms_a_auto a))
  | HI => ms_is_idle (ms_ts_integrity (ms_a_auto a))
  | HE => ms_is_idle (ms_ts_enable (ms_a_auto a))
  | HG => ms_a_integrity_done a
  | HC => ms_is_idle (ms_ts_clear (ms_a_auto a))
  end.

Lemma hfold_app X A acc h1 h2 : hfold X A acc (h1 ++ h2) = hfold X A (hfold X A acc h1) h2.
Proof. unfold hfold. apply fold_left_app. Qed.

Lemma hfold_mono X A h : hfold X A false h = true -> forall acc, hfold X A acc h = true.
Proof.
  unfold hfold. induction h as [|o h IH] using rev_ind; [discriminate|].
  intros H acc. rewrite fold_left_app in *. cbn [fold_left] in *.
  unfold hstep in *. destruct (obs_effect X A o) as [b|]; [exact H|]. apply IH. exact H.
Qed.

Lemma hfold_true_or X A h acc : hfold X A acc h = true -> acc = true \/ hfold X A false h = true.
Proof.
  destruct acc; [left; reflexivity|]. right. assumption.
Qed.

(* the configuration an association was registered with, read off the history *)
Fixpoint cfg_in (h : list ms_obs) (A : N) : option ms_acfg :=
  match h with
  | [] => None
  | MsOAssoc _ a c :: rest => if N.eqb a A then Some c else cfg_in rest A
  | _ :: rest => cfg_in rest A
  end.

Lemma cfg_in_app h1 h2 A :
  cfg_in (h1 ++ h2) A = match cfg_in h1 A with Some c => Some c | None => cfg_in h2 A end.
Proof.
  induction h1 as [|x h1 IH]; [reflexivity|]. cbn [app cfg_in].
  destruct x; try exact IH. destruct (N.eqb a A); [reflexivity|exact IH].
Qed.

(* observations an association produces on its own: no task start, no registration, no loss of
   the connection *)
Definition local (o : ms_obs) : Prop :=
  match o with
  | MsOStart _ _ _ _ _ | MsOTxLink _ _ _ | MsOAssoc _ _ _ | MsOClosed _ _ | MsOSleep _ _ => False
  | _ => True
  end.

(* local observations that concern neither any flag nor the history predicates *)
Definition neutral (o : ms_obs) : Prop := (forall X A, obs_effect X A o = None) /\ local o.

Lemma cfg_in_local h A : Forall local h -> cfg_in h A = None.
Proof.
  induction h as [|x h IH]; [reflexivity|]. intros F. inversion F as [|? ? N1 F2]; subst.
  cbn [cfg_in]. destruct x; try (apply IH; exact F2). contradiction.
Qed.

Lemma neutral_local h : Forall neutral h -> Forall local h.
Proof. apply Forall_impl. intros x [_ L]. exact L. Qed.

Lemma hfold_neutral X A acc h : Forall neutral h -> hfold X A acc h = acc.
Proof.
  unfold hfold. induction h as [|o h IH] using rev_ind; [reflexivity|].
  intros F. apply Forall_app in F as [F1 F2]. rewrite fold_left_app. cbn [fold_left].
  unfold hstep. inversion F2 as [|? ? [N0 _] ?]; subst. rewrite N0. apply IH. exact F1.
Qed.

(* the relation between an association before and after a piece of behaviour that produced `o` *)
Definition LS (a : ms_assoc) (o : list ms_obs) (a' : ms_assoc) : Prop :=
  ms_a_addr a' = ms_a_addr a /\ ms_a_cfg a' = ms_a_cfg a /\
  (forall X, flag X a' = true -> hfold X (ms_a_addr a) (flag X a) o = true) /\
  (forall X B acc, B <> ms_a_addr a -> hfold X B acc o = acc) /\
  Forall local o.

Lemma LS_trans a o1 a1 o2 a2 : LS a o1 a1 -> LS a1 o2 a2 -> LS a (o1 ++ o2) a2.
Proof.
  intros (A1 & C1 & F1 & O1 & G1) (A2 & C2 & F2 & O2 & G2).
  split; [congruence|]. split; [congruence|]. split; [|split].
  - intros X HX. rewrite hfold_app. specialize (F2 X HX). rewrite A1 in F2.
    destruct (flag X a1) eqn:E.
    + rewrite (F1 X E). exact F2.
    + apply hfold_mono. exact F2.
  - intros X B acc HB. rewrite hfold_app, O1 by exact HB. apply O2. congruence.
  - apply Forall_app. split; assumption.
Qed.

(* flags unchanged (or only lowered), observations neutral *)
Lemma LS_neutral a o a' :
  ms_a_addr a' = ms_a_addr a -> ms_a_cfg a' = ms_a_cfg a ->
  (forall X, flag X a' = true -> flag X a = true) -> Forall neutral o -> LS a o a'.
Proof.
  intros HA HC HF HN. split; [exact HA|]. split; [exact HC|]. split; [|split].
  - intros X HX. rewrite hfold_neutral by exact HN. auto.
  - intros X B acc _. apply hfold_neutral. exact HN.
  - apply neutral_local. exact HN.
Qed.

Lemma LS_refl a : LS a [] a.
Proof. apply LS_neutral; auto. Qed.

Ltac neutral_tac :=
  repeat (apply Forall_cons || apply Forall_nil || (split; [intros ? ?; reflexivity|exact I])).

(* ---- the association-level functions ---------------------------------------------------------- *)

Lemma demand_idle s : ms_is_idle (ms_demand s) = true -> False.
Proof. destruct s; cbn; discriminate. Qed.

Lemma eqb_refl_N a : N.eqb a a = true. Proof. apply N.eqb_refl. Qed.

(* observations that concern association A only (and never the whole channel) *)
Definition about (A : N) (o : ms_obs) : Prop :=
  match o with
  | MsOOk _ x _ _ _ | MsOFail _ x _ _ | MsORestartSeen _ x | MsOCleared _ x => x = A
  | MsOClosed _ _ | MsOAssoc _ _ _ => False
  | _ => True
  end.

Lemma hstep_other X A B acc o : B <> A -> about A o -> hstep X B acc o = acc.
Proof.
  intros HB Ho. unfold hstep.
  assert (E : N.eqb A B = false) by (apply N.eqb_neq; congruence).
  destruct o; cbn [obs_effect about] in *; try reflexivity; try contradiction; subst; rewrite ?E;
    try reflexivity.
  destruct e; reflexivity.
Qed.

Lemma hfold_other X A B acc o : B <> A -> Forall (about A) o -> hfold X B acc o = acc.
Proof.
  intros HB. unfold hfold. revert acc. induction o as [|x o IH]; intros acc F; [reflexivity|].
  inversion F; subst. cbn [fold_left]. rewrite (hstep_other X A B) by assumption. apply IH. assumption.
Qed.

Lemma LS_lower a a' :
  ms_a_addr a' = ms_a_addr a -> ms_a_cfg a' = ms_a_cfg a ->
  (forall X, flag X a' = true -> flag X a = true) -> LS a [] a'.
Proof. intros. apply LS_neutral; auto. Qed.

(* a step that only touches the time-sync or event-scan state, the events or the sequence number *)
Lemma LS_set_time a s : LS a [] (ms_set_auto a (ms_with_time (ms_a_auto a) s)).
Proof. apply LS_lower; try reflexivity. intros X; destruct X; cbn; auto. Qed.
Lemma LS_set_evscan a s : LS a [] (ms_set_auto a (ms_with_evscan (ms_a_auto a) s)).
Proof. apply LS_lower; try reflexivity. intros X; destruct X; cbn; auto. Qed.
Lemma LS_set_events a e : LS a [] (ms_set_events a e).
Proof. apply LS_lower; try reflexivity. intros X; destruct X; cbn; auto. Qed.
Lemma LS_set_seq a e : LS a [] (ms_set_seq a e).
Proof. apply LS_lower; try reflexivity. intros X; destruct X; cbn; auto. Qed.
Lemma LS_set_queue a q : LS a [] (ms_set_queue a q).
Proof. apply LS_lower; try reflexivity. intros X; destruct X; cbn; auto. Qed.
Lemma LS_set_polls a p n : LS a [] (ms_set_polls a p n).
Proof. apply LS_lower; try reflexivity. intros X; destruct X; cbn; auto. Qed.
Lemma LS_set_last_unsol a u : LS a [] (ms_set_last_unsol a u).
Proof. apply LS_lower; try reflexivity. intros X; destruct X; cbn; auto. Qed.
Lemma LS_link_activity now a : LS a [] (ms_link_activity now a).
Proof. apply LS_lower; try reflexivity. intros X; destruct X; cbn; auto. Qed.

(* a state is lowered: it is not idle afterwards unless it was idle before *)
Definition lowers (s s' : ms_auto_state) : Prop := ms_is_idle s' = true -> ms_is_idle s = true.
Lemma lowers_demand s : lowers s (ms_demand s).
Proof. intros H. exfalso. eapply demand_idle; eauto. Qed.
Lemma lowers_failure c now s : lowers s (ms_auto_failure c now s).
Proof. unfold lowers, ms_auto_failure. destruct (ms_on_failure _ _). cbn. discriminate. Qed.

Lemma LS_lower_integrity a s : lowers (ms_ts_integrity (ms_a_auto a)) s ->
  LS a [] (ms_set_auto a (ms_with_integrity (ms_a_auto a) s)).
Proof. intros L. apply LS_lower; try reflexivity. intros X; destruct X; cbn; auto. Qed.
Lemma LS_lower_disable a s : lowers (ms_ts_disable (ms_a_auto a)) s ->
  LS a [] (ms_set_auto a (ms_with_disable (ms_a_auto a) s)).
Proof. intros L. apply LS_lower; try reflexivity. intros X; destruct X; cbn; auto. Qed.
Lemma LS_lower_enable a s : lowers (ms_ts_enable (ms_a_auto a)) s ->
  LS a [] (ms_set_auto a (ms_with_enable (ms_a_auto a) s)).
Proof. intros L. apply LS_lower; try reflexivity. intros X; destruct X; cbn; auto. Qed.
Lemma LS_lower_clear a s : lowers (ms_ts_clear (ms_a_auto a)) s ->
  LS a [] (ms_set_auto a (ms_with_clear (ms_a_auto a) s)).
Proof. intros L. apply LS_lower; try reflexivity. intros X; destruct X; cbn; auto. Qed.

Lemma on_restart_LS now a : forall a' o, ms_on_restart now a = (a', o) -> LS a o a'.
Proof.
  intros a' o. unfold ms_on_restart.
  destruct (ms_is_idle (ms_ts_clear (ms_a_auto a))) eqn:EC; intros H; inversion H; subst; clear H.
  - split; [reflexivity|]. split; [reflexivity|]. split; [|split].
    + intros X HX. unfold hfold. cbn [fold_left]. unfold hstep. cbn [obs_effect]. rewrite N.eqb_refl.
      destruct X; cbn in HX |- *.
      * exact HX.
      * exfalso; eapply demand_idle; exact HX.
      * exfalso; eapply demand_idle; exact HX.
      * discriminate.
      * exfalso; eapply demand_idle; exact HX.
    + intros X B acc HB. apply hfold_other with (A := ms_a_addr a); [exact HB|]. repeat constructor.
    + repeat constructor.
  - apply LS_refl.
Qed.

Lemma process_iin_LS now f a : forall a' o, ms_process_iin now f a = (a', o) -> LS a o a'.
Proof.
  intros a' o. unfold ms_process_iin.
  destruct (if ms_iin_restart f then ms_on_restart now a else (a, [])) as [a1 seen] eqn:E1.
  assert (L1 : LS a seen a1).
  { destruct (ms_iin_restart f); [eapply on_restart_LS; exact E1|]. inversion E1; subst. apply LS_refl. }
  clear E1. intros H. inversion H; subst; clear H.
  rewrite <- (app_nil_r o). eapply LS_trans; [exact L1|].
  set (a2 := if ms_iin_need_time f then _ else a1).
  assert (L2 : LS a1 [] a2).
  { subst a2. destruct (ms_iin_need_time f); [apply LS_set_time|apply LS_refl]. }
  set (a3 := if ms_iin_overflow f && ms_c_ovf (ms_a_cfg a2) then _ else a2).
  assert (L3 : LS a2 [] a3).
  { subst a3. destruct (ms_iin_overflow f && ms_c_ovf (ms_a_cfg a2));
      [apply LS_lower_integrity, lowers_demand|apply LS_refl]. }
  set (a4 := ms_set_events a3 (ms_iin_events f)).
  assert (L4 : LS a3 [] a4) by apply LS_set_events.
  assert (L5 : LS a4 [] (if ms_ev_any (N.land (ms_a_events a4) (ms_c_evscan (ms_a_cfg a4)))
                         then ms_set_auto a4 (ms_with_evscan (ms_a_auto a4) (ms_demand (ms_ts_evscan (ms_a_auto a4))))
                         else a4)).
  { destruct (ms_ev_any _); [apply LS_set_evscan|apply LS_refl]. }
  change (@nil ms_obs) with (@nil ms_obs ++ [] ++ [] ++ []).
  eapply LS_trans; [exact L2|]. eapply LS_trans; [exact L3|]. eapply LS_trans; [exact L4|exact L5].
Qed.

(* generic solver for LS goals whose two sides are explicit *)
Ltac ls_solve :=
  unfold LS; split; [reflexivity|split; [reflexivity|split;
  [ let X := fresh "X" in let H := fresh "HX" in
    intros X H; unfold hfold; cbn [fold_left app]; unfold hstep; cbn [obs_effect];
    rewrite ?N.eqb_refl; destruct X; cbn in H |- *; auto
  | split;
    [ let X := fresh "X" in let B := fresh "B" in let acc := fresh "acc" in let HB := fresh "HB" in
      intros X B acc HB; eapply hfold_other; [exact HB|]; cbn [app]; repeat constructor
    | repeat constructor ] ]]].

Lemma LS_app_neutral a o a' n : LS a o a' -> Forall neutral n -> LS a (o ++ n) a'.
Proof.
  intros L Hn. rewrite <- (app_nil_r (o ++ n)), <- app_assoc. eapply LS_trans; [exact L|].
  cbn [app]. rewrite app_nil_r. apply LS_neutral; auto.
Qed.

Lemma LS_neutral_app a o a' n : Forall neutral n -> LS a o a' -> LS a (n ++ o) a'.
Proof.
  intros Hn L. eapply LS_trans; [|exact L]. apply LS_neutral; auto.
Qed.

Lemma neutral_fail_kind now a k e : k <> MsKDisableUnsol -> k <> MsKEnableUnsol ->
  neutral (MsOFail now a k e).
Proof.
  intros H1 H2. split; [|exact I]. intros X A. cbn [obs_effect]. destruct e; try reflexivity.
  destruct (N.eqb a A); [|reflexivity]. destruct X, k; try reflexivity; congruence.
Qed.
Lemma neutral_fail_err now a k e : e <> MsEIin2 -> neutral (MsOFail now a k e).
Proof. intros H. split; [|exact I]. intros X A. cbn [obs_effect]. destruct e; try reflexivity. congruence. Qed.
Lemma neutral_ok_kind now a k fc s : k <> MsKDisableUnsol -> k <> MsKEnableUnsol -> k <> MsKIntegrity ->
  neutral (MsOOk now a k fc s).
Proof.
  intros H1 H2 H3. split; [|exact I]. intros X A. cbn [obs_effect]. destruct (N.eqb a A); [|reflexivity].
  destruct X, k; try reflexivity; congruence.
Qed.

(* handle_unsolicited *)
Lemma handle_unsolicited_LS now f a : forall a' o, ms_handle_unsolicited now f a = (a', o) -> LS a o a'.
Proof.
  intros a' o. unfold ms_handle_unsolicited.
  destruct (ms_process_iin now f a) as [a1 seen] eqn:E. apply process_iin_LS in E.
  destruct (negb (ms_integrity_complete a1 || negb (ms_has_objects f))).
  { intros H; inversion H; subst. apply LS_app_neutral; [exact E|]. neutral_tac. }
  destruct (negb (ms_r_ok f)).
  { intros H; inversion H; subst. apply LS_app_neutral; [exact E|]. neutral_tac. }
  intros H; inversion H; subst; clear H.
  eapply LS_trans; [exact E|].
  eapply LS_neutral; try reflexivity.
  - intros X; destruct X; cbn; auto.
  - apply Forall_app; split.
    + destruct (match ms_a_last_unsol a1 with Some old => _ | None => false end); [neutral_tac|].
      apply Forall_app; split; [destruct (ms_r_ok f)|]; neutral_tac.
    + destruct (ms_r_con f); neutral_tac.
Qed.

(* Task::on_task_error followed by the notification of the failure *)
Lemma task_error_LS now t e r a : forall a' o, ms_task_error now t e r a = (a', o) ->
  LS a (o ++ [MsOFail now (ms_a_addr a) (ms_task_type t) e]) a'.
Proof.
  intros a' o. unfold ms_task_error.
  destruct t as [| m | m | m | m | id m | st [tok|] | m tok | tok | [tok|]]; cbn [ms_task_type].
  - (* clear restart *)
    destruct (match e with MsEIin2 => negb r | _ => false end) eqn:Ee;
      intros H; inversion H; subst; clear H.
    + ls_solve; destruct e; cbn; auto.
    + apply LS_app_neutral; [apply LS_lower_clear, lowers_failure|].
      constructor; [|constructor]. apply neutral_fail_kind; discriminate.
  - (* enable *)
    destruct e; intros H; inversion H; subst; clear H;
      try (apply LS_app_neutral; [apply LS_lower_enable, lowers_failure|];
           constructor; [apply neutral_fail_err; discriminate|constructor]).
    ls_solve.
  - (* disable *)
    destruct e; intros H; inversion H; subst; clear H;
      try (apply LS_app_neutral; [apply LS_lower_disable, lowers_failure|];
           constructor; [apply neutral_fail_err; discriminate|constructor]).
    ls_solve.
  - intros H; inversion H; subst; clear H.
    apply LS_app_neutral; [apply LS_lower_integrity, lowers_failure|].
    constructor; [|constructor]. apply neutral_fail_kind; discriminate.
  - intros H; inversion H; subst; clear H.
    apply LS_app_neutral; [apply LS_set_evscan|].
    constructor; [|constructor]. apply neutral_fail_kind; discriminate.
  - intros H; inversion H; subst; clear H.
    apply LS_app_neutral; [apply LS_set_polls|].
    constructor; [|constructor]. apply neutral_fail_kind; discriminate.
  - intros H; inversion H; subst; clear H. apply LS_neutral; auto.
    constructor; [split; [intros X A; reflexivity|exact I]|]. constructor; [|constructor]. apply neutral_fail_kind; discriminate.
  - intros H; inversion H; subst; clear H.
    apply LS_app_neutral; [apply LS_set_time|].
    constructor; [|constructor]. apply neutral_fail_kind; discriminate.
  - intros H; inversion H; subst; clear H. apply LS_neutral; auto.
    constructor; [split; [intros X A; reflexivity|exact I]|]. constructor; [|constructor]. apply neutral_fail_kind; discriminate.
  - intros H; inversion H; subst; clear H. apply LS_neutral; auto.
    constructor; [split; [intros X A; reflexivity|exact I]|]. constructor; [|constructor]. apply neutral_fail_kind; discriminate.
  - intros H; inversion H; subst; clear H. apply LS_neutral; auto.
    constructor; [split; [intros X A; reflexivity|exact I]|]. constructor; [|constructor]. apply neutral_fail_kind; discriminate.
  - intros H; inversion H; subst; clear H. apply LS_neutral; auto.
    constructor; [|constructor]. apply neutral_fail_kind; discriminate.
Qed.

(* ReadTask::complete followed by the notification of the success *)
Lemma read_complete_LS now t seq a : forall a' o, ms_read_complete now t a = (a', o) ->
  LS a (o ++ [MsOOk now (ms_a_addr a) (ms_task_type t) 1%N seq]) a'.
Proof.
  intros a' o. unfold ms_read_complete.
  destruct t as [| m | m | m | m | id m | st p | m tok | tok | p]; cbn [ms_task_type];
    intros H; inversion H; subst; clear H.
  - apply LS_neutral; auto. constructor; [|constructor]. apply neutral_ok_kind; discriminate.
  - ls_solve.
  - ls_solve.
  - ls_solve.
  - apply LS_app_neutral; [apply LS_set_evscan|].
    constructor; [|constructor]. apply neutral_ok_kind; discriminate.
  - apply LS_app_neutral; [apply LS_set_polls|].
    constructor; [|constructor]. apply neutral_ok_kind; discriminate.
  - apply LS_neutral; auto. constructor; [|constructor]. apply neutral_ok_kind; discriminate.
  - apply LS_neutral; auto. constructor; [split; [intros X A; reflexivity|exact I]|].
    constructor; [|constructor]. apply neutral_ok_kind; discriminate.
  - apply LS_neutral; auto. constructor; [|constructor]. apply neutral_ok_kind; discriminate.
  - apply LS_neutral; auto. constructor; [|constructor]. apply neutral_ok_kind; discriminate.
Qed.

Lemma tsync_report_LS now p r a : forall a' o, ms_tsync_report now p r a = (a', o) -> LS a o a'.
Proof.
  intros a' o. unfold ms_tsync_report. destruct p as [tok|].
  - intros H; inversion H; subst. apply LS_neutral; auto. neutral_tac.
  - destruct r; intros H; inversion H; subst; apply LS_set_time.
Qed.

(* what rx_nonread emits after NonReadTask::handle_response *)
Definition handled_obs (now : ms_time) (A : N) (t : ms_task) (fc0 seq : N) (h : ms_handled) : list ms_obs :=
  match h with
  | MsHComplete => [MsOOk now A (ms_task_type t) fc0 seq]
  | MsHError e => [MsOFail now A (ms_task_type t) e]
  | MsHContinue _ => []
  end.

Lemma nonread_handle_LS now sys t f fc0 seq a : forall a' o h,
  ms_nonread_handle now sys t f a = (a', o, h) ->
  LS a (o ++ handled_obs now (ms_a_addr a) t fc0 seq h) a' /\
  match h with MsHContinue t' => ms_task_type t' = ms_task_type t | _ => True end.
Proof.
  intros a' o h. unfold ms_nonread_handle.
  destruct t as [| m | m | m | m | id m | st p | m tok | tok | p]; cbn [ms_task_type handled_obs].
  - (* clear restart *)
    destruct (ms_iin_restart f); intros H; inversion H; subst; clear H; (split; [|exact I]).
    + apply LS_app_neutral; [apply LS_lower_clear, lowers_failure|].
      constructor; [|constructor]. apply neutral_ok_kind; discriminate.
    + cbn [handled_obs ms_task_type]. ls_solve.
  - intros H; inversion H; subst; clear H. split; [|exact I]. cbn [handled_obs ms_task_type]. ls_solve.
  - intros H; inversion H; subst; clear H. split; [|exact I]. cbn [handled_obs ms_task_type]. ls_solve.
  - intros H; inversion H; subst; clear H. split; [|exact I]. cbn [handled_obs ms_task_type app].
    ls_solve.
  - intros H; inversion H; subst; clear H. split; [|exact I]. cbn [handled_obs ms_task_type app].
    apply LS_neutral; auto. constructor; [|constructor]. apply neutral_ok_kind; discriminate.
  - intros H; inversion H; subst; clear H. split; [|exact I]. cbn [handled_obs ms_task_type app].
    apply LS_neutral; auto. constructor; [|constructor]. apply neutral_ok_kind; discriminate.
  - (* time synchronisation *)
    assert (R : forall r a1 o1 e, ms_tsync_report now p r a = (a1, o1) -> e <> MsEIin2 ->
              LS a (o1 ++ [MsOFail now (ms_a_addr a) MsKTimeSync e]) a1).
    { intros r a1 o1 e Hr He. apply LS_app_neutral; [eapply tsync_report_LS; exact Hr|].
      constructor; [|constructor]. apply neutral_fail_err; exact He. }
    assert (Rok : forall a1 o1, ms_tsync_report now p None a = (a1, o1) ->
              LS a (o1 ++ [MsOOk now (ms_a_addr a) MsKTimeSync fc0 seq]) a1).
    { intros a1 o1 Hr. apply LS_app_neutral; [eapply tsync_report_LS; exact Hr|].
      constructor; [|constructor]. apply neutral_ok_kind; discriminate. }
    destruct st as [t0 | ts | ts | ts].
    + destruct (if ms_r_ok f then ms_r_delay f else None) as [d|].
      * destruct (_ <? d).
        { destruct (ms_tsync_report now p (Some MsEBadDelay) a) as [a1 o1] eqn:Er.
          intros H; inversion H; subst; clear H. split; [|exact I]. eapply R; [exact Er|discriminate]. }
        destruct (ms_system_time sys now) as [stm|].
        { destruct (_ <? _).
          - destruct (ms_tsync_report now p (Some MsEOverflow) a) as [a1 o1] eqn:Er.
            intros H; inversion H; subst; clear H. split; [|exact I]. eapply R; [exact Er|discriminate].
          - intros H; inversion H; subst; clear H. split; [|reflexivity].
            cbn [handled_obs app]. apply LS_refl. }
        destruct (ms_tsync_report now p (Some MsENoSystemTime) a) as [a1 o1] eqn:Er.
        intros H; inversion H; subst; clear H. split; [|exact I]. eapply R; [exact Er|discriminate].
      * destruct (ms_tsync_report now p (Some MsEUnexpectedHeaders) a) as [a1 o1] eqn:Er.
        intros H; inversion H; subst; clear H. split; [|exact I]. eapply R; [exact Er|discriminate].
    + destruct (ms_has_objects f).
      { destruct (ms_tsync_report now p (Some MsEUnexpectedHeaders) a) as [a1 o1] eqn:Er.
        intros H; inversion H; subst; clear H. split; [|exact I]. eapply R; [exact Er|discriminate]. }
      destruct (ms_iin_need_time f).
      { destruct (ms_tsync_report now p (Some MsEStillNeedsTime) a) as [a1 o1] eqn:Er.
        intros H; inversion H; subst; clear H. split; [|exact I]. eapply R; [exact Er|discriminate]. }
      destruct (ms_tsync_report now p None a) as [a1 o1] eqn:Er.
      intros H; inversion H; subst; clear H. split; [|exact I]. apply (Rok _ _ eq_refl).
    + destruct (ms_has_objects f).
      { destruct (ms_tsync_report now p (Some MsEUnexpectedHeaders) a) as [a1 o1] eqn:Er.
        intros H; inversion H; subst; clear H. split; [|exact I]. eapply R; [exact Er|discriminate]. }
      intros H; inversion H; subst; clear H. split; [|reflexivity]. cbn [handled_obs app]. apply LS_refl.
    + destruct (ms_has_objects f).
      { destruct (ms_tsync_report now p (Some MsEUnexpectedHeaders) a) as [a1 o1] eqn:Er.
        intros H; inversion H; subst; clear H. split; [|exact I]. eapply R; [exact Er|discriminate]. }
      destruct (ms_iin_need_time f).
      { destruct (ms_tsync_report now p (Some MsEStillNeedsTime) a) as [a1 o1] eqn:Er.
        intros H; inversion H; subst; clear H. split; [|exact I]. eapply R; [exact Er|discriminate]. }
      destruct (ms_tsync_report now p None a) as [a1 o1] eqn:Er.
      intros H; inversion H; subst; clear H. split; [|exact I]. apply (Rok _ _ eq_refl).
  - intros H; inversion H; subst; clear H. split; [|exact I]. cbn [handled_obs ms_task_type app].
    apply LS_neutral; auto. constructor; [|constructor]. apply neutral_ok_kind; discriminate.
  - destruct (ms_has_objects f); intros H; inversion H; subst; clear H; (split; [|exact I]);
      cbn [handled_obs ms_task_type app]; apply LS_neutral; auto.
    + constructor; [split; [intros X A; reflexivity|exact I]|]. constructor; [|constructor].
      apply neutral_fail_err; discriminate.
    + constructor; [split; [intros X A; reflexivity|exact I]|]. constructor; [|constructor].
      apply neutral_ok_kind; discriminate.
  - intros H; inversion H; subst; clear H. split; [|exact I]. cbn [handled_obs ms_task_type app].
    apply LS_neutral; auto. constructor; [|constructor]. apply neutral_ok_kind; discriminate.
Qed.

(* Task::start *)
Lemma task_start_LS now sys t a : forall a' o r, ms_task_start now sys t a = (a', o, r) ->
  LS a o a' /\ Forall neutral o /\
  match r with Some t' => ms_task_type t' = ms_task_type t /\ ms_is_read_task t' = ms_is_read_task t
                          /\ (forall p, t' = MsTLink p -> t = MsTLink p)
                          /\ (forall p, t = MsTLink p -> t' = MsTLink p)
             | None => True end.
Proof.
  intros a' o r. unfold ms_task_start.
  destruct t as [| m | m | m | m | id m | st p | m tok | tok | p];
    try (intros H; inversion H; subst; clear H;
         split; [apply LS_refl|split; [constructor|repeat split; auto]]).
  destruct st as [t0 | [ts|] | ts | ts];
    try (intros H; inversion H; subst; clear H;
         split; [apply LS_refl|split; [constructor|repeat split; auto; intros; discriminate]]).
  all: destruct (ms_system_time sys now) as [stm|];
    [ intros H; inversion H; subst; clear H;
      split; [apply LS_refl|split; [constructor|repeat split; auto; intros; discriminate]]
    | destruct (ms_tsync_report now p (Some MsENoSystemTime) a) as [a1 o1] eqn:Er;
      intros H; inversion H; subst; clear H;
      split; [eapply tsync_report_LS; exact Er|split; [|exact I]];
      unfold ms_tsync_report in Er; destruct p; inversion Er; subst; neutral_tac ].
Qed.

(* Association::priority_task *)
Lemma priority_task_LS now sys q : forall a a' o r, ms_priority_task now sys q a = (a', o, r) ->
  LS a o a' /\ Forall neutral o.
Proof.
  induction q as [|[tok uk] q IH]; intros a a' o r; cbn [ms_priority_task].
  - intros H; inversion H; subst. split; [apply LS_set_queue|constructor].
  - destruct (ms_task_start now sys (ms_user_task tok uk) a) as [[a1 o1] [t'|]] eqn:Es;
      apply task_start_LS in Es as (L1 & N1 & _).
    + intros H; inversion H; subst. split; [|exact N1].
      rewrite <- (app_nil_r o). eapply LS_trans; [exact L1|apply LS_set_queue].
    + destruct (ms_priority_task now sys q a1) as [[a2 o2] r2] eqn:Ep.
      apply IH in Ep as (L2 & N2). intros H; inversion H; subst.
      split; [eapply LS_trans; eauto|apply Forall_app; split; assumption].
Qed.

(* Association::next_task *)
Lemma assoc_next_task_LS fuel now sys : forall a a' o r, ms_assoc_next_task fuel now sys a = (a', o, r) ->
  LS a o a' /\ Forall neutral o.
Proof.
  induction fuel as [|k IH]; intros a a' o r; cbn [ms_assoc_next_task].
  - intros H; inversion H; subst. split; [apply LS_refl|constructor].
  - destruct (ms_get_next_task a now) as [|t|nb].
    + intros H; inversion H; subst. split; [apply LS_refl|constructor].
    + destruct (ms_task_start now sys t a) as [[a1 o1] [t'|]] eqn:Es;
        apply task_start_LS in Es as (L1 & N1 & _).
      * intros H; inversion H; subst. split; assumption.
      * destruct (ms_assoc_next_task k now sys a1) as [[a2 o2] r2] eqn:Ep.
        apply IH in Ep as (L2 & N2). intros H; inversion H; subst.
        split; [eapply LS_trans; eauto|apply Forall_app; split; assumption].
    + intros H; inversion H; subst. split; [apply LS_refl|constructor].
Qed.

(* ================================================================================================
   5. Unsolicited responses are gated by the integrity poll (step form; the trace form is
      SchedProofs.unsol_gated)
   ================================================================================================ *)

Definition unsol_accepted_obs (x : ms_obs) : Prop :=
  match x with
  | MsOCb _ _ MsRtUnsol _ | MsOUnsol _ _ _ _ | MsOTx _ _ => True
  | _ => False
  end.

Lemma process_iin_done now f a a1 seen : ms_process_iin now f a = (a1, seen) ->
  ms_a_cfg a1 = ms_a_cfg a /\ ms_a_addr a1 = ms_a_addr a /\
  (ms_a_integrity_done a1 = true -> ms_a_integrity_done a = true /\ seen = []) /\
  (forall x, In x seen -> x = MsORestartSeen now (ms_a_addr a)).
Proof.
  unfold ms_process_iin, ms_on_restart.
  destruct (ms_iin_restart f); [destruct (ms_is_idle (ms_ts_clear (ms_a_auto a)))|];
    intros H; inversion H; subst; clear H;
    (split; [|split; [|split]]);
    try (repeat match goal with |- context [if ?b then _ else _] => destruct b end; reflexivity);
    try (intros x [Hx|[]]; auto); try (intros x []).
  - repeat match goal with |- context [if ?b then _ else _] => destruct b end; cbn; discriminate.
  - repeat match goal with |- context [if ?b then _ else _] => destruct b end; cbn; auto.
  - repeat match goal with |- context [if ?b then _ else _] => destruct b end; cbn; auto.
Qed.

(* data-bearing unsolicited responses are neither delivered nor confirmed before the integrity
   poll has completed; a fragment that itself shows a new restart is not accepted either *)
Theorem unsol_gated_step : forall now f a a' o,
  ms_handle_unsolicited now f a = (a', o) ->
  ms_has_objects f = true -> ms_cl_any (ms_c_integrity (ms_a_cfg a)) = true ->
  (exists x, In x o /\ unsol_accepted_obs x) ->
  ms_a_integrity_done a = true /\ ~ In (MsORestartSeen now (ms_a_addr a)) o.
Proof.
  intros now f a a' o. unfold ms_handle_unsolicited.
  destruct (ms_process_iin now f a) as [a1 seen] eqn:E.
  apply process_iin_done in E as (Hc & Ha & Hd & Hs).
  intros H Hobj Hcfg (x & Hin & Hx). rewrite Hobj in H.
  unfold ms_integrity_complete in H. rewrite Hc, Hcfg in H. cbn [negb orb] in H.
  destruct (ms_a_integrity_done a1) eqn:Ed; cbn [negb orb] in H.
  - destruct (Hd eq_refl) as [Hda Hse]. subst seen. split; [exact Hda|].
    destruct (negb (ms_r_ok f)); inversion H; subst; clear H.
    + cbn in Hin. destruct Hin as [Hin|[]]. subst x. contradiction.
    + cbn [app]. intros Hbad. apply in_app_or in Hbad as [Hbad|Hbad].
      * destruct (match ms_a_last_unsol a1 with Some old => _ | None => false end);
          [|destruct (ms_r_ok f)]; cbn in Hbad; intuition discriminate.
      * destruct (ms_r_con f); cbn in Hbad; intuition discriminate.
  - inversion H; subst; clear H. exfalso.
    apply in_app_or in Hin as [Hin|Hin].
    + apply Hs in Hin. subst x. exact Hx.
    + destruct Hin as [Hin|[]]. subst x. exact Hx.
Qed.

(* an empty unsolicited response is always accepted and, when it asks for it, confirmed *)
Theorem unsol_empty_confirmed : forall now f a a' o,
  ms_handle_unsolicited now f a = (a', o) ->
  ms_has_objects f = false -> ms_r_ok f = true -> ms_r_con f = true ->
  In (MsOTx now (ms_confirm_unsol_bytes (ms_r_seq f))) o.
Proof.
  intros now f a a' o. unfold ms_handle_unsolicited.
  destruct (ms_process_iin now f a) as [a1 seen] eqn:E.
  intros H Hobj Hok Hcon. rewrite Hobj, Hok, Hcon in H. rewrite orb_true_r in H. cbn [negb] in H.
  inversion H; subst; clear H. apply in_or_app. right. apply in_or_app. right. left. reflexivity.
Qed.

(* a restart indication re-arms clear-restart, integrity and enable, closes the gate, and makes
   clear-restart the first thing TaskStates::next considers *)
Theorem restart_rearms : forall now a a' o,
  ms_on_restart now a = (a', o) -> ms_is_idle (ms_ts_clear (ms_a_auto a)) = true ->
  ms_is_pending (ms_ts_clear (ms_a_auto a')) = true /\
  ms_is_pending (ms_ts_integrity (ms_a_auto a')) = true /\
  ms_is_pending (ms_ts_enable (ms_a_auto a')) = true /\
  ms_a_integrity_done a' = false /\
  (forall ev, auto_choice_of (ms_a_cfg a') (ms_a_auto a') ev = CClear).
Proof.
  intros now a a' o. unfold ms_on_restart. intros H Hc. rewrite Hc in H. inversion H; subst; clear H.
  cbn. unfold ms_is_pending.
  assert (D : forall s, negb (ms_is_idle (ms_demand s)) = true).
  { intros s; destruct s; reflexivity. }
  rewrite !D. repeat split; auto.
  intros ev. unfold auto_choice_of. cbn. unfold ms_is_pending. rewrite D. reflexivity.
Qed.
