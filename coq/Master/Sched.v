(* Master/Sched.v — the master CHANNEL: associations in a priority ring, the ms_run loop of
   MasterSession (dnp3/src/master/ms_task.rs) as an ms_event-driven step function, and
   AssociationMap::next_task (dnp3/src/master/association.rs).  Definitions only.

   The asynchronous ms_run loop is modelled by its blocking points: the session is either down (not
   ms_connected), idle (`idle_forever` / `idle_until t`), or waiting for the response of the one ms_task
   it runs (`MsRNonRead`, `MsRRead`, `MsRLink`).  An ms_event (a received fragment, a message of the user
   API, the passage of ms_time) is processed to the ms_next blocking point.

   ABSTRACTIONS, in addition to those of Assoc.v:
   * `select!` never sees two ready branches (one stimulus at a ms_time, then ms_time passes).
   * The connection is the mock of the harness: it is re-established at once after a link error
     and as soon as the master is enabled again.
   * Under the mock transport a REQUEST_LINK_STATUS is never answered by a link-layer frame, so a
     link status ms_task ends by ms_time-out or by the arrival of an application fragment.
   * `MsETick d` advances virtual ms_time by d ms and fires every deadline on the way, each at its own
     instant; `fuel` bounds the number of deadlines fired by one tick (every firing advances ms_time
     by at least 1 ms, so fuel >= d + 1 is always enough); exhausting it is reported (`MsOStall`). *)
From Coq Require Import ZArith NArith List Bool Lia.
From Dnp3V Require Import Master.Backoff Master.Assoc.
Import ListNotations.
Open Scope Z_scope.

Inductive ms_running :=
| MsRNonRead (dest : N) (t : ms_task) (k : ms_ttype) (fc0 : N) (seq : N) (deadline : ms_time)
| MsRRead (dest : N) (t : ms_task) (seq : N) (first : bool) (deadline : ms_time)
| MsRLink (dest : N) (promise : option N) (deadline : ms_time).

Inductive ms_phase :=
| MsPDown                                 (* not ms_connected (disabled) *)
| MsPIdle (until : option ms_time)           (* idle_until t / idle_forever *)
| MsPRun (r : ms_running)
| MsPStalled.                             (* the scheduler never returned (F15 before its repair) *)

Record ms_mstate := {
  ms_m_now : ms_time;
  ms_m_enabled : bool;
  ms_m_assocs : list ms_assoc;        (* BTreeMap order = ascending address *)
  ms_m_ring : list N;              (* AssociationMap::priority *)
  ms_m_phase : ms_phase;
  ms_m_systime : option Z
}.

Definition ms_m_init : ms_mstate :=
  {| ms_m_now := 0; ms_m_enabled := true; ms_m_assocs := []; ms_m_ring := []; ms_m_phase := MsPDown;
     ms_m_systime := None |}.

Inductive ms_rx := MsRxBad | MsRxResp (f : ms_rxfrag).

Inductive ms_event :=
| MsEStart                               (* the harness spawns the connection loop *)
| MsEAddAssoc (addr : N) (c : ms_acfg)
| MsERx (src : N) (r : ms_rx)
| MsETick (d : Z)
| MsEUser (a : N) (tok : N) (k : ms_ukind)
| MsEAddPoll (a : N) (period : Z) (m : N)
| MsEDemand (a : N) (ms_poll : N)
| MsEEnable
| MsEDisable
| MsEReconnect
| MsESysTime (v : option Z)
| MsENowEv.

(* ---- small helpers ---------------------------------------------------------------------------- *)

Definition ms_set_phase (st : ms_mstate) (p : ms_phase) : ms_mstate :=
  {| ms_m_now := ms_m_now st; ms_m_enabled := ms_m_enabled st; ms_m_assocs := ms_m_assocs st; ms_m_ring := ms_m_ring st;
     ms_m_phase := p; ms_m_systime := ms_m_systime st |}.
Definition ms_set_assocs (st : ms_mstate) (l : list ms_assoc) : ms_mstate :=
  {| ms_m_now := ms_m_now st; ms_m_enabled := ms_m_enabled st; ms_m_assocs := l; ms_m_ring := ms_m_ring st;
     ms_m_phase := ms_m_phase st; ms_m_systime := ms_m_systime st |}.
Definition ms_set_ring (st : ms_mstate) (r : list N) : ms_mstate :=
  {| ms_m_now := ms_m_now st; ms_m_enabled := ms_m_enabled st; ms_m_assocs := ms_m_assocs st; ms_m_ring := r;
     ms_m_phase := ms_m_phase st; ms_m_systime := ms_m_systime st |}.
Definition ms_set_now (st : ms_mstate) (t : ms_time) : ms_mstate :=
  {| ms_m_now := Z.max (ms_m_now st) t; ms_m_enabled := ms_m_enabled st; ms_m_assocs := ms_m_assocs st;
     ms_m_ring := ms_m_ring st; ms_m_phase := ms_m_phase st; ms_m_systime := ms_m_systime st |}.
Definition ms_set_enabled (st : ms_mstate) (b : bool) : ms_mstate :=
  {| ms_m_now := ms_m_now st; ms_m_enabled := b; ms_m_assocs := ms_m_assocs st; ms_m_ring := ms_m_ring st;
     ms_m_phase := ms_m_phase st; ms_m_systime := ms_m_systime st |}.
Definition ms_set_systime (st : ms_mstate) (v : option Z) : ms_mstate :=
  {| ms_m_now := ms_m_now st; ms_m_enabled := ms_m_enabled st; ms_m_assocs := ms_m_assocs st; ms_m_ring := ms_m_ring st;
     ms_m_phase := ms_m_phase st; ms_m_systime := v |}.

Fixpoint ms_find_assoc (addr : N) (l : list ms_assoc) : option ms_assoc :=
  match l with
  | [] => None
  | a :: rest => if N.eqb (ms_a_addr a) addr then Some a else ms_find_assoc addr rest
  end.

Fixpoint ms_put_assoc (a : ms_assoc) (l : list ms_assoc) : list ms_assoc :=
  match l with
  | [] => []
  | x :: rest => if N.eqb (ms_a_addr x) (ms_a_addr a) then a :: rest else x :: ms_put_assoc a rest
  end.

(* insertion keeping ascending addresses; a duplicate address is refused by the caller *)
Fixpoint ms_insert_assoc (a : ms_assoc) (l : list ms_assoc) : list ms_assoc :=
  match l with
  | [] => [a]
  | x :: rest => if N.ltb (ms_a_addr a) (ms_a_addr x) then a :: x :: rest else x :: ms_insert_assoc a rest
  end.

Definition ms_update_assoc (st : ms_mstate) (addr : N) (f : ms_assoc -> ms_assoc * list ms_obs)
  : ms_mstate * list ms_obs :=
  match ms_find_assoc addr (ms_m_assocs st) with
  | Some a => let '(a1, o) := f a in (ms_set_assocs st (ms_put_assoc a1 (ms_m_assocs st)), o)
  | None => (st, [])
  end.

Definition ms_connected (st : ms_mstate) : bool :=
  match ms_m_phase st with MsPDown => false | _ => true end.

(* move the address found at this position of the ring to the back *)
Definition ms_rotate (ring : list N) (addr : N) : list N :=
  filter (fun x => negb (N.eqb x addr)) ring ++ [addr].

(* ---- AssociationMap::next_task --------------------------------------------------------------- *)

(* first pass: user requests, associations in ring order *)
Fixpoint ms_priority_pass (st : ms_mstate) (ring : list N) : ms_mstate * list ms_obs * option (N * ms_task) :=
  match ring with
  | [] => (st, [], None)
  | addr :: rest =>
      match ms_find_assoc addr (ms_m_assocs st) with
      | None => ms_priority_pass st rest
      | Some a =>
          match ms_priority_task (ms_m_now st) (ms_m_systime st) (ms_a_queue a) a with
          | (a1, o, Some t) =>
              (ms_set_ring (ms_set_assocs st (ms_put_assoc a1 (ms_m_assocs st))) (ms_rotate (ms_m_ring st) addr),
               o, Some (addr, t))
          | (a1, o, None) =>
              let st1 := ms_set_assocs st (ms_put_assoc a1 (ms_m_assocs st)) in
              let '(st2, o2, r) := ms_priority_pass st1 rest in (st2, o ++ o2, r)
          end
      end
  end.

Inductive ms_sched_result :=
| MsSNow (addr : N) (t : ms_task)
| MsSNotBefore (t : ms_time)
| MsSNone
| MsSStall.

(* second pass: automatic tasks, polls and keep-alive, associations in ring order *)
Fixpoint ms_auto_pass (st : ms_mstate) (ring : list N) (earliest : option ms_time)
  : ms_mstate * list ms_obs * ms_sched_result :=
  match ring with
  | [] => (st, [], match earliest with Some t => MsSNotBefore t | None => MsSNone end)
  | addr :: rest =>
      match ms_find_assoc addr (ms_m_assocs st) with
      | None => ms_auto_pass st rest earliest
      | Some a =>
          match ms_assoc_next_task 3 (ms_m_now st) (ms_m_systime st) a with
          | (a1, o, None) => (ms_set_assocs st (ms_put_assoc a1 (ms_m_assocs st)), o, MsSStall)
          | (a1, o, Some (MsNNow t)) =>
              (ms_set_ring (ms_set_assocs st (ms_put_assoc a1 (ms_m_assocs st))) (ms_rotate (ms_m_ring st) addr),
               o, MsSNow addr t)
          | (a1, o, Some (MsNNotBefore t)) =>
              let st1 := ms_set_assocs st (ms_put_assoc a1 (ms_m_assocs st)) in
              let '(st2, o2, r) := ms_auto_pass st1 rest (ms_min_opt earliest t) in (st2, o ++ o2, r)
          | (a1, o, Some MsNNone) =>
              let st1 := ms_set_assocs st (ms_put_assoc a1 (ms_m_assocs st)) in
              let '(st2, o2, r) := ms_auto_pass st1 rest earliest in (st2, o ++ o2, r)
          end
      end
  end.

Definition ms_map_next_task (st : ms_mstate) : ms_mstate * list ms_obs * ms_sched_result :=
  match ms_priority_pass st (ms_m_ring st) with
  | (st1, o, Some (addr, t)) => (st1, o, MsSNow addr t)
  | (st1, o, None) =>
      let '(st2, o2, r) := ms_auto_pass st1 (ms_m_ring st1) None in (st2, o ++ o2, r)
  end.

(* ---- starting a ms_task --------------------------------------------------------------------------- *)

Definition ms_rto_of (st : ms_mstate) (addr : N) : Z :=
  match ms_find_assoc addr (ms_m_assocs st) with Some a => ms_c_rto (ms_a_cfg a) | None => 0 end.

(* ms_send_request: takes the association's sequence number and advances it *)
Definition ms_send_request (st : ms_mstate) (addr : N) (t : ms_task) : ms_mstate * list ms_obs * N :=
  match ms_find_assoc addr (ms_m_assocs st) with
  | Some a =>
      let s := ms_a_seq a in
      (ms_set_assocs st (ms_put_assoc (ms_set_seq a (ms_seq_next s)) (ms_m_assocs st)),
       [MsOTx (ms_m_now st) (ms_request_bytes s t)], s)
  | None => (st, [], 0%N)
  end.

Definition ms_start_task (st : ms_mstate) (addr : N) (t : ms_task) : ms_mstate * list ms_obs :=
  let now := ms_m_now st in
  match t with
  | MsTLink p =>
      (ms_set_phase st (MsPRun (MsRLink addr p (now + ms_rto_of st addr))),
       [MsOTxLink now addr (match p with None => true | Some _ => false end)])
  | _ =>
      let seq0 := match ms_find_assoc addr (ms_m_assocs st) with Some a => ms_a_seq a | None => 0%N end in
      let started := [MsOStart now addr (ms_task_type t) (ms_task_fc t) seq0] in
      let '(st1, o, s) := ms_send_request st addr t in
      let dl := now + ms_rto_of st addr in
      let r := if ms_is_read_task t then MsRRead addr t s true dl
               else MsRNonRead addr t (ms_task_type t) (ms_task_fc t) s dl in
      (ms_set_phase st1 (MsPRun r), started ++ o)
  end.

(* the ms_run loop from the point where it asks for the ms_next ms_task up to the ms_next blocking point *)
Definition ms_schedule (st : ms_mstate) : ms_mstate * list ms_obs :=
  match ms_map_next_task st with
  | (st1, o, MsSNow addr t) => let '(st2, o2) := ms_start_task st1 addr t in (st2, o ++ o2)
  | (st1, o, MsSNotBefore t) => (ms_set_phase st1 (MsPIdle (Some t)), o ++ [MsOSleep (ms_m_now st1) (Some t)])
  | (st1, o, MsSNone) => (ms_set_phase st1 (MsPIdle None), o ++ [MsOSleep (ms_m_now st1) None])
  | (st1, o, MsSStall) => (ms_set_phase st1 MsPStalled, o ++ [MsOStall (ms_m_now st1)])
  end.

(* ---- losing the connection ---------------------------------------------------------------------- *)

(* MasterSession::reset: every association, in address order, fails its queued requests and
   re-arms its start-up tasks *)
Definition ms_fail_queue (now : ms_time) (e : ms_err) (a : ms_assoc) : list ms_obs :=
  concat (map (fun r => snd (ms_task_error now (ms_user_task (fst r) (snd r)) e false a)) (ms_a_queue a)).

Definition ms_reset_all (st : ms_mstate) (e : ms_err) : ms_mstate * list ms_obs :=
  (ms_set_assocs st (map ms_assoc_reset (ms_m_assocs st)),
   concat (map (fun a => ms_fail_queue (ms_m_now st) e a) (ms_m_assocs st))).

(* the ms_task that is ms_running (if any) fails with the error that ends the session *)
Definition ms_fail_running (st : ms_mstate) (e : ms_err) : ms_mstate * list ms_obs :=
  let now := ms_m_now st in
  match ms_m_phase st with
  | MsPRun (MsRNonRead dest t k _ _ _) =>
      let '(st1, o) := ms_update_assoc st dest (ms_task_error now t e false) in
      (st1, o ++ [MsOFail now dest k e])
  | MsPRun (MsRRead dest t _ _ _) =>
      let '(st1, o) := ms_update_assoc st dest (ms_task_error now t e false) in
      (st1, o ++ [MsOFail now dest (ms_task_type t) e])
  | MsPRun (MsRLink dest p _) =>
      (st, match p with Some tok => [MsORes now tok (Some e)] | None => [] end
           ++ [MsOLinkEnd now dest])
  | _ => (st, [])
  end.

(* MasterSession::ms_run returns with `e` (MsEDisabled or MsELink) *)
Definition ms_close_session (st : ms_mstate) (e : ms_err) : ms_mstate * list ms_obs :=
  let '(st1, o1) := ms_fail_running st e in
  let '(st2, o2) := ms_reset_all st1 e in
  (ms_set_phase st2 MsPDown, o1 ++ o2 ++ [MsOClosed (ms_m_now st) e]).

Definition ms_open_session (st : ms_mstate) : ms_mstate * list ms_obs :=
  let '(st1, o) := ms_schedule (ms_set_phase st (MsPIdle None)) in
  (st1, MsOConn (ms_m_now st) :: o).

(* ---- the end of a ms_task ---------------------------------------------------------------------------- *)

(* after run_task returned Ok: back to the top of the ms_run loop *)
Definition ms_task_done (st : ms_mstate) : ms_mstate * list ms_obs := ms_schedule (ms_set_phase st (MsPIdle None)).

(* the running task of `dest` fails with `e`: Task::on_task_error, the notification, and back to
   the top of the run loop *)
Definition ms_fail_task (st : ms_mstate) (dest : N) (t : ms_task) (k : ms_ttype) (e : ms_err) (restart : bool)
  : ms_mstate * list ms_obs :=
  let now := ms_m_now st in
  let '(st1, o) := ms_update_assoc st dest (ms_task_error now t e restart) in
  let '(st2, o2) := ms_task_done st1 in
  (st2, o ++ [MsOFail now dest k e] ++ o2).

(* ---- received fragments ------------------------------------------------------------------------------ *)

Definition ms_unsolicited (st : ms_mstate) (src : N) (f : ms_rxfrag) : ms_mstate * list ms_obs :=
  ms_update_assoc st src (ms_handle_unsolicited (ms_m_now st) f).

Definition ms_touch (st : ms_mstate) (addr : N) : ms_mstate :=
  fst (ms_update_assoc st addr (fun a => (ms_link_activity (ms_m_now st) a, []))).

Definition ms_rx_nonread (st : ms_mstate) (dest : N) (t : ms_task) (k : ms_ttype) (fc0 : N) (seq : N)
  (deadline : ms_time) (src : N) (r : ms_rx) : ms_mstate * list ms_obs :=
  let now := ms_m_now st in
  match r with
  | MsRxBad => ms_fail_task st dest t k MsETransport false
  | MsRxResp f =>
      let st := ms_touch st src in
      if ms_r_uns f then ms_unsolicited st src f
      else if negb (N.eqb src dest) then (st, [])
      else if negb (N.eqb (ms_r_seq f) seq) then (st, [])
      else if negb (ms_r_fir f && ms_r_fin f) then ms_fail_task st dest t k MsEMultiFragment false
      else if ms_iin_bad_request f then ms_fail_task st dest t k MsEIin2 (ms_iin_restart f)
      else
        match ms_find_assoc dest (ms_m_assocs st) with
        | None => (st, [])
        | Some a =>
            (* the accepted response is confirmed when it asks for it (repair 86bdefd) *)
            let confirm := if ms_r_con f then [MsOTx now (ms_confirm_sol_bytes seq)] else [] in
            let '(a1, seen) := ms_process_iin now f a in
            let confirm := confirm ++ seen in
            let '(a2, o, h) := ms_nonread_handle now (ms_m_systime st) t f a1 in
            let st1 := ms_set_assocs st (ms_put_assoc a2 (ms_m_assocs st)) in
            match h with
            | MsHComplete =>
                let '(st2, o2) := ms_task_done st1 in
                (st2, confirm ++ o ++ [MsOOk now dest k fc0 seq] ++ o2)
            | MsHError e =>
                let '(st2, o2) := ms_task_done st1 in
                (st2, confirm ++ o ++ [MsOFail now dest k e] ++ o2)
            | MsHContinue t' =>
                let '(st2, o2, s) := ms_send_request st1 dest t' in
                (ms_set_phase st2 (MsPRun (MsRNonRead dest t' k fc0 s (now + ms_rto_of st2 dest))),
                 confirm ++ o ++ o2)
            end
        end
  end.

Definition ms_rx_read (st : ms_mstate) (dest : N) (t : ms_task) (seq : N) (first : bool) (deadline : ms_time)
  (src : N) (r : ms_rx) : ms_mstate * list ms_obs :=
  let now := ms_m_now st in
  let k := ms_task_type t in
  match r with
  | MsRxBad => ms_fail_task st dest t k MsETransport false
  | MsRxResp f =>
      let st := ms_touch st src in
      let fail e := ms_fail_task st dest t k e false in
      if ms_r_uns f then ms_unsolicited st src f
      else if negb (N.eqb src dest) then (st, [])
      else if negb (N.eqb (ms_r_seq f) seq) then (st, [])
      else if ms_r_fir f && negb first then fail MsEUnexpectedFir
      else if negb (ms_r_fir f) && first then fail MsENeverFir
      else if negb (ms_r_fin f) && negb (ms_r_con f) then fail MsENonFinWithoutCon
      else if ms_iin_bad_request f then fail MsEIin2
      else
        match ms_find_assoc dest (ms_m_assocs st) with
        | None => (st, [])
        | Some a =>
            let '(a1, seen) := ms_process_iin now f a in
            let st1 := ms_set_assocs st (ms_put_assoc a1 (ms_m_assocs st)) in
            if negb (ms_r_ok f) then
              let '(st3, o) := ms_fail_task st1 dest t k MsEMalformed false in (st3, seen ++ o)
            else
              let delivered := seen ++ [MsOCb now dest (ms_read_type t) (ms_r_nvalues f)] in
              let confirm := if ms_r_con f then [MsOTx now (ms_confirm_sol_bytes seq)] else [] in
              if ms_r_fin f then
                let '(st2, o) := ms_update_assoc st1 dest (ms_read_complete now t) in
                let '(st3, o2) := ms_task_done st2 in
                (st3, delivered ++ confirm ++ o ++ [MsOOk now dest k 1%N seq] ++ o2)
              else
                (* the ms_next fragment is expected with the association's ms_next sequence number *)
                let s := ms_a_seq a1 in
                let st2 := ms_set_assocs st1 (ms_put_assoc (ms_set_seq a1 (ms_seq_next s)) (ms_m_assocs st1)) in
                (ms_set_phase st2 (MsPRun (MsRRead dest t s false (now + ms_rto_of st2 dest))),
                 delivered ++ confirm)
        end
  end.

Definition ms_rx_link (st : ms_mstate) (dest : N) (p : option N) (src : N) (r : ms_rx)
  : ms_mstate * list ms_obs :=
  let now := ms_m_now st in
  let res := match p with Some tok => [MsORes now tok (Some MsEUnexpectedHeaders)] | None => [] end
             ++ [MsOLinkEnd now dest] in
  match r with
  | MsRxBad => let '(st1, o) := ms_task_done st in (st1, res ++ o)
  | MsRxResp f =>
      let st := ms_touch st src in
      let '(st1, o) := if ms_r_uns f then ms_unsolicited st src f else (st, []) in
      let '(st2, o2) := ms_task_done st1 in
      (st2, o ++ res ++ o2)
  end.

Definition ms_rx_idle (st : ms_mstate) (src : N) (r : ms_rx) : ms_mstate * list ms_obs :=
  match r with
  | MsRxBad => ms_task_done st
  | MsRxResp f =>
      let st := ms_touch st src in
      let '(st1, o) := if ms_r_uns f then ms_unsolicited st src f else (st, []) in
      let '(st2, o2) := ms_task_done st1 in
      (st2, o ++ o2)
  end.

Definition ms_on_rx (st : ms_mstate) (src : N) (r : ms_rx) : ms_mstate * list ms_obs :=
  match ms_m_phase st with
  | MsPDown | MsPStalled => (st, [])
  | MsPIdle _ => ms_rx_idle st src r
  | MsPRun (MsRNonRead dest t k fc0 seq dl) => ms_rx_nonread st dest t k fc0 seq dl src r
  | MsPRun (MsRRead dest t seq first dl) => ms_rx_read st dest t seq first dl src r
  | MsPRun (MsRLink dest p _) => ms_rx_link st dest p src r
  end.

(* ---- deadlines ------------------------------------------------------------------------------------------ *)

Definition ms_deadline_of (st : ms_mstate) : option ms_time :=
  match ms_m_phase st with
  | MsPIdle u => u
  | MsPRun (MsRNonRead _ _ _ _ _ dl) => Some dl
  | MsPRun (MsRRead _ _ _ _ dl) => Some dl
  | MsPRun (MsRLink _ _ dl) => Some dl
  | _ => None
  end.

Definition ms_fire (st : ms_mstate) : ms_mstate * list ms_obs :=
  let now := ms_m_now st in
  match ms_m_phase st with
  | MsPIdle _ => ms_task_done st
  | MsPRun (MsRNonRead dest t k _ _ _) => ms_fail_task st dest t k MsETimeout false
  | MsPRun (MsRRead dest t _ _ _) => ms_fail_task st dest t (ms_task_type t) MsETimeout false
  | MsPRun (MsRLink dest p _) =>
      let res := match p with Some tok => [MsORes now tok (Some MsETimeout)] | None => [] end
                 ++ [MsOLinkEnd now dest] in
      let '(st1, o) := ms_task_done st in (st1, res ++ o)
  | _ => (st, [])
  end.

Fixpoint ms_advance (fuel : nat) (target : ms_time) (st : ms_mstate) : ms_mstate * list ms_obs :=
  match fuel with
  | O => (ms_set_phase st MsPStalled, [MsOStall (ms_m_now st)])
  | S k =>
      match ms_deadline_of st with
      | Some dl =>
          if dl <=? target then
            let '(st1, o) := ms_fire (ms_set_now st dl) in
            let '(st2, o2) := ms_advance k target st1 in (st2, o ++ o2)
          else (ms_set_now st target, [])
      | None => (ms_set_now st target, [])
      end
  end.

(* ---- messages of the user API ------------------------------------------------------------------------------ *)

(* after process_message returned Ok: idle loops return to the scheduler, a link status wait
   restarts its ms_time-out, a ms_task waiting for its response just goes on *)
Definition ms_after_message (st : ms_mstate) : ms_mstate * list ms_obs :=
  match ms_m_phase st with
  | MsPIdle _ => ms_task_done st
  | _ => (st, [])
  end.

Definition ms_queue_task (now : ms_time) (is_connected : bool) (tok : N) (k : ms_ukind) (a : ms_assoc)
  : ms_assoc * list ms_obs :=
  if is_connected then
    if Nat.ltb (length (ms_a_queue a)) (ms_c_maxq (ms_a_cfg a))
    then (ms_set_queue a (ms_a_queue a ++ [(tok, k)]), [])
    else ms_task_error now (ms_user_task tok k) MsETooManyRequests false a
  else ms_task_error now (ms_user_task tok k) MsENoConnection false a.

Definition ms_add_poll (now : ms_time) (period : Z) (m : N) (a : ms_assoc) : ms_assoc * list ms_obs :=
  (ms_set_polls a (ms_a_polls a ++ [{| ms_p_id := ms_a_poll_id a; ms_p_mask := N.land m 15; ms_p_period := period;
                                 ms_p_next := now + period |}]) (ms_a_poll_id a + 1)%N, []).

Definition ms_demand_poll (now : ms_time) (id : N) (a : ms_assoc) : ms_assoc * list ms_obs :=
  (ms_set_polls a (ms_poll_set_next id now (ms_a_polls a)) (ms_a_poll_id a), []).

Definition ms_mstep (fuel : nat) (st : ms_mstate) (ev : ms_event) : ms_mstate * list ms_obs :=
  match ms_m_phase st with
  | MsPStalled => (st, [])
  | _ =>
  match ev with
  | MsEStart => if ms_m_enabled st && negb (ms_connected st) then ms_open_session st else (st, [])
  | MsETick d => ms_advance fuel (ms_m_now st + d) st
  | MsENowEv => (st, [MsONow (ms_m_now st)])
  | MsESysTime v => (ms_set_systime st v, [])
  | MsERx src r => ms_on_rx st src r
  | MsEAddAssoc addr c =>
      match ms_find_assoc addr (ms_m_assocs st) with
      | Some _ => (st, [])
      | None =>
          let st1 := ms_set_ring (ms_set_assocs st (ms_insert_assoc (ms_assoc_new addr c (ms_m_now st)) (ms_m_assocs st)))
                              (ms_m_ring st ++ [addr]) in
          let '(st2, o) := ms_after_message st1 in (st2, MsOAssoc (ms_m_now st) addr c :: o)
      end
  | MsEUser a tok k =>
      let '(st1, o) := ms_update_assoc st a (ms_queue_task (ms_m_now st) (ms_connected st) tok k) in
      let '(st2, o2) := ms_after_message st1 in (st2, o ++ o2)
  | MsEAddPoll a period m =>
      let '(st1, o) := ms_update_assoc st a (ms_add_poll (ms_m_now st) period m) in
      let '(st2, o2) := ms_after_message st1 in (st2, o ++ o2)
  | MsEDemand a id =>
      let '(st1, o) := ms_update_assoc st a (ms_demand_poll (ms_m_now st) id) in
      let '(st2, o2) := ms_after_message st1 in (st2, o ++ o2)
  | MsEEnable =>
      if ms_connected st then ms_after_message (ms_set_enabled st true)
      else ms_open_session (ms_set_enabled st true)
  | MsEDisable =>
      if ms_connected st then ms_close_session (ms_set_enabled st false) MsEDisabled
      else (ms_set_enabled st false, [])
  | MsEReconnect =>
      if ms_connected st then
        let '(st1, o) := ms_close_session st MsELink in
        let '(st2, o2) := ms_open_session st1 in (st2, o ++ o2)
      else (st, [])
  end
  end.

Fixpoint ms_run (fuel : nat) (st : ms_mstate) (evs : list ms_event) : ms_mstate * list ms_obs :=
  match evs with
  | [] => (st, [])
  | e :: rest =>
      let '(st1, o) := ms_mstep fuel st e in
      let '(st2, o2) := ms_run fuel st1 rest in (st2, o ++ o2)
  end.
