(* Outstation/SessionEvinfo.v — a theorem about Outstation/Session.v alone (used by the composition of
   Outstation/FullProofs.v): ONE STEP CONSUMES THE ANSWERS OF ITS ENVIRONMENT IN ORDER, and every response
   the session builds and transmits - an `ODb DbEvinfo` call directly followed by the `OTx` - carries in
   its IIN octets exactly the class bits (IIN1.1-3) and the overflow bit (IIN2.3) of the AEvinfo answer
   consumed for it (`tracked`, theorems ostep_tracked / ostart_tracked).

   Hypotheses, all about IIN2 values that enter the session from outside: the parser's verdict on
   malformed objects (digest ObjErr v) and the database's IIN2 answers (AIin2 v) do not have bit 3
   (EVENT_BUFFER_OVERFLOW) set (`sm`).  Both hold in the composed model (FullProofs.v).  The same for the
   fragment the reader may hold and for a stored deferred READ (`small_pd`), which every step preserves.

   Reuses the frame / output-shape lemmas of SessionLemmas_c14.v and the normal form of
   handle_from_idle of SessionLemmas_c12.v. *)
From Dnp3V Require Import Outstation.Session Outstation.SessionLemmas_c14 Outstation.SessionLemmas_c12.
Import ListNotations.
Open Scope N_scope.

Ltac prj := cbn [s_now s_control s_restart_iin s_enabled s_last s_select s_unsol s_unsol_seq s_deferred
  s_last_recorded s_last_bcast s_sol_buf s_unsol_buf s_pending s_frame_id s_notify s_sel_status s_op_status
  s_app_iin s_answers s_bcast_rep upd_bcast_rep upd_control upd_now upd_restart upd_enabled upd_last upd_select upd_unsol upd_unsol_seq
  upd_deferred upd_last_recorded upd_last_bcast upd_sol_buf upd_unsol_buf upd_pending
  upd_frame_id upd_notify upd_knobs upd_answers session_reset deferred_set fst snd] in *.

(* ---------- IIN2 values without the EVENT_BUFFER_OVERFLOW bit ------------------------------------ *)
Definition sm (v : N) : Prop := N.testbit v 3 = false.
Lemma sm_lor a b : sm a -> sm b -> sm (N.lor a b).
Proof. unfold sm. intros Ha Hb. rewrite N.lor_spec, Ha, Hb. reflexivity. Qed.
Lemma sm_0 : sm 0. Proof. reflexivity. Qed.
Lemma sm_1 : sm 1. Proof. reflexivity. Qed.
Lemma sm_4 : sm 4. Proof. reflexivity. Qed.
Lemma sm_req_result c : sm (req_result_iin2 c).
Proof. unfold req_result_iin2. destruct (c =? 0); [reflexivity|]. destruct (c =? 1); reflexivity. Qed.
#[global] Hint Resolve sm_lor sm_0 sm_1 sm_4 sm_req_result : sm.
Local Opaque N.lor.

Definition clean (r : response) : Prop := r_iin1 r = 0 /\ sm (r_iin2 r).

Definition class_bits (bytes : list N) : bool * bool * bool :=
  (N.testbit (nth 2 bytes 0) 1, N.testbit (nth 2 bytes 0) 2, N.testbit (nth 2 bytes 0) 3).
Definition overflow_bit (bytes : list N) : bool := N.testbit (nth 3 bytes 0) 3.
Definition iin_ok (c1 c2 c3 v : bool) (bytes : list N) : Prop :=
  class_bits bytes = (c1, c2, c3) /\ overflow_bit bytes = v.

Definition is_ev (o : oobs) : bool := match o with ODb DbEvinfo => true | _ => false end.
Definition is_evans (a : answer) : bool := match a with AEvinfo _ _ _ _ => true | _ => false end.
Definition head_not_ev (a : list answer) : Prop := match a with AEvinfo _ _ _ _ :: _ => False | _ => True end.

Inductive tracked : list answer -> list oobs -> list answer -> Prop :=
| Tr_nil a : tracked a [] a
| Tr_obs a o l a' : is_ev o = false -> tracked a l a' -> tracked a (o :: l) a'
| Tr_skip x a l a' : is_evans x = false -> tracked a l a' -> tracked (x :: a) l a'
| Tr_ev c1 c2 c3 v a dest bytes l a' :
    iin_ok c1 c2 c3 v bytes -> tracked a l a' ->
    tracked (AEvinfo c1 c2 c3 v :: a) (ODb DbEvinfo :: OTx dest bytes :: l) a'
| Tr_miss a dest bytes l a' :
    head_not_ev a -> tracked a l a' ->
    tracked a (ODb DbEvinfo :: OMissingAnswer :: OTx dest bytes :: l) a'.

Lemma tracked_app a o1 a1 : tracked a o1 a1 -> forall o2 a2, tracked a1 o2 a2 -> tracked a (o1 ++ o2) a2.
Proof.
  induction 1; intros o2 a2 H2; cbn [app].
  - exact H2.
  - apply Tr_obs; auto.
  - apply Tr_skip; auto.
  - apply Tr_ev; auto.
  - apply Tr_miss; auto.
Qed.

Lemma tracked_plain a o : Forall (fun x => is_ev x = false) o -> tracked a o a.
Proof. induction 1; [apply Tr_nil|apply Tr_obs; auto]. Qed.

Definition sm_ans (a : answer) : Prop := match a with AIin2 v => sm v | _ => True end.

Lemma tracked_small a o a' : tracked a o a' -> Forall sm_ans a -> Forall sm_ans a'.
Proof.
  induction 1; intros Hs; auto.
  - apply IHtracked. inversion Hs; auto.
  - apply IHtracked. inversion Hs; auto.
Qed.


(* low-level functions: answers are consumed in order, pending / deferred are left alone *)
Definition T (s : ostate) (o : list oobs) (s' : ostate) : Prop :=
  tracked (s_answers s) o (s_answers s') /\ s_pending s' = s_pending s /\ s_deferred s' = s_deferred s.

Lemma T_nil s : T s [] s.
Proof. repeat split. apply Tr_nil. Qed.

Lemma T_trans s o1 s1 o2 s2 : T s o1 s1 -> T s1 o2 s2 -> T s (o1 ++ o2) s2.
Proof.
  intros (A1 & A2 & A3) (B1 & B2 & B3). repeat split; try congruence.
  eapply tracked_app; eauto.
Qed.

(* functions that do not consult the environment at all *)
Definition Hf (s : ostate) (o : list oobs) (s' : ostate) : Prop :=
  s_answers s' = s_answers s /\ s_pending s' = s_pending s /\ s_deferred s' = s_deferred s /\
  Forall (fun x => is_ev x = false) o.

Lemma Hf_T s o s' : Hf s o s' -> T s o s'.
Proof. intros (A & B & C & D). repeat split; auto. rewrite A. apply tracked_plain. exact D. Qed.

Lemma Hf_refl s : Hf s [] s.
Proof. repeat split. constructor. Qed.

Lemma Hf_trans s o1 s1 o2 s2 : Hf s o1 s1 -> Hf s1 o2 s2 -> Hf s (o1 ++ o2) s2.
Proof.
  intros (A1 & A2 & A3 & A4) (B1 & B2 & B3 & B4). repeat split; try congruence.
  apply Forall_app. split; assumption.
Qed.

Ltac plain_tac :=
  repeat match goal with
         | |- Forall _ [] => apply Forall_nil
         | |- Forall _ (_ :: _) => apply Forall_cons; [reflexivity|]
         | |- Forall _ (_ ++ _) => apply Forall_app; split
         | |- Forall _ (if ?b then _ else _) => destruct b
         end; auto.

(* ---------- asking ---------------------------------------------------------------------------- *)

Lemma ask_iin2_T s call s1 v o :
  ask_iin2 s call = (s1, v, o) -> is_ev (ODb call) = false ->
  T s o s1 /\ (Forall sm_ans (s_answers s) -> sm v).
Proof.
  unfold ask_iin2. intros H Hc.
  destruct (s_answers s) as [|[x|c e b|n b|a b c0 ov] rest] eqn:Ea; inversion H; subst; clear H; prj;
    (split; [repeat split; prj; auto|intros Hs; try apply sm_0]).
  - rewrite Ea. apply Tr_obs; [exact Hc|]. apply Tr_obs; [reflexivity|apply Tr_nil].
  - rewrite Ea. apply Tr_skip; [reflexivity|]. apply Tr_obs; [exact Hc|apply Tr_nil].
  - inversion Hs; subst. assumption.
  - rewrite Ea. apply Tr_obs; [exact Hc|]. apply Tr_obs; [reflexivity|apply Tr_nil].
  - rewrite Ea. apply Tr_obs; [exact Hc|]. apply Tr_obs; [reflexivity|apply Tr_nil].
  - rewrite Ea. apply Tr_obs; [exact Hc|]. apply Tr_obs; [reflexivity|apply Tr_nil].
Qed.

Lemma ask_write_T s s1 x o : ask_write s = (s1, x, o) -> T s o s1.
Proof.
  unfold ask_write. intros H.
  destruct (s_answers s) as [|[x0|c e b|n b|a b c0 ov] rest] eqn:Ea; inversion H; subst; clear H; prj;
    repeat split; prj; auto; rewrite ?Ea;
    try (apply Tr_obs; [reflexivity|]; apply Tr_obs; [reflexivity|apply Tr_nil]).
  apply Tr_skip; [reflexivity|]. apply Tr_obs; [reflexivity|apply Tr_nil].
Qed.

Lemma ask_unsol_T s s1 x : ask_unsol s = (s1, x) -> T s [] s1.
Proof.
  unfold ask_unsol. intros H.
  destruct (s_answers s) as [|[x0|c e b|n b|a b c0 ov] rest] eqn:Ea; inversion H; subst; clear H; prj;
    repeat split; prj; auto; rewrite ?Ea; try apply Tr_nil.
  apply Tr_skip; [reflexivity|apply Tr_nil].
Qed.


Lemma iin1_class_bits (r c1 c2 c3 bc a0 a1 a2 : bool) :
  let x := b2n r 128 + b2n c1 2 + b2n c2 4 + b2n c3 8 + b2n bc 1 + b2n a0 16 + b2n a1 32 + b2n a2 64 in
  N.testbit x 1 = c1 /\ N.testbit x 2 = c2 /\ N.testbit x 3 = c3.
Proof. destruct r, c1, c2, c3, bc, a0, a1, a2; repeat split; reflexivity. Qed.

Lemma iin2_overflow_bit (v a3 : bool) : N.testbit (b2n v 8 + b2n a3 32) 3 = v.
Proof. destruct v, a3; reflexivity. Qed.

Lemma response_iin_bits s c1 c2 c3 v rest s' iin1 iin2 o :
  s_answers s = AEvinfo c1 c2 c3 v :: rest ->
  response_iin s = (s', (iin1, iin2), o) ->
  o = [ODb DbEvinfo] /\ s_answers s' = rest /\
  N.testbit iin1 1 = c1 /\ N.testbit iin1 2 = c2 /\ N.testbit iin1 3 = c3 /\ N.testbit iin2 3 = v.
Proof.
  unfold response_iin, ask_evinfo. intros Ha. rewrite Ha.
  cbn [s_last_bcast upd_answers s_app_iin s_restart_iin].
  set (a := s_app_iin s).
  intros H.
  assert (Hs : s_answers s' = rest).
  { destruct (s_last_bcast s) as [[]|]; inversion H; subst; reflexivity. }
  assert (Ho : o = [ODb DbEvinfo]).
  { destruct (s_last_bcast s) as [[]|]; inversion H; subst; reflexivity. }
  assert (Hi : iin1 = b2n (s_restart_iin s) 128 + b2n c1 2 + b2n c2 4 + b2n c3 8
                      + b2n (match s_last_bcast s with Some _ => true | None => false end) 1
                      + b2n (N.testbit a 0) 16 + b2n (N.testbit a 1) 32 + b2n (N.testbit a 2) 64
               /\ iin2 = b2n v 8 + b2n (N.testbit a 3) 32).
  { destruct (s_last_bcast s) as [[]|]; inversion H; subst; split; reflexivity. }
  destruct Hi as [-> ->].
  destruct (iin1_class_bits (s_restart_iin s) c1 c2 c3
              (match s_last_bcast s with Some _ => true | None => false end)
              (N.testbit a 0) (N.testbit a 1) (N.testbit a 2)) as (B1 & B2 & B3).
  repeat split; auto. apply iin2_overflow_bit.
Qed.

Lemma or_iin_bits r iin1 iin2 :
  clean r ->
  N.testbit (r_iin1 (or_iin r (iin1, iin2))) 1 = N.testbit iin1 1 /\
  N.testbit (r_iin1 (or_iin r (iin1, iin2))) 2 = N.testbit iin1 2 /\
  N.testbit (r_iin1 (or_iin r (iin1, iin2))) 3 = N.testbit iin1 3 /\
  N.testbit (r_iin2 (or_iin r (iin1, iin2))) 3 = N.testbit iin2 3.
Proof.
  intros [H1 H2]. unfold or_iin. cbn [r_iin1 r_iin2 fst snd]. rewrite H1.
  rewrite N.lor_0_l, N.lor_spec, H2. auto.
Qed.

(* the two fields of a state that response_iin and bcast_reported leave alone *)
Lemma response_iin_pd s s1 iin o : response_iin s = (s1, iin, o) ->
  s_pending s1 = s_pending s /\ s_deferred s1 = s_deferred s.
Proof.
  unfold response_iin, ask_evinfo.
  destruct (s_answers s) as [|[] rest]; prj; destruct (s_last_bcast s) as [[]|]; intros H; inversion H; subst; prj; auto.
Qed.

Lemma bcast_reported_pd s c :
  s_pending (bcast_reported s c) = s_pending s /\ s_deferred (bcast_reported s c) = s_deferred s /\
  s_answers (bcast_reported s c) = s_answers s.
Proof. unfold bcast_reported. destruct (s_last_bcast s) as [[]|]; prj; auto. Qed.

(* response_iin when the head of the answers is not an AEvinfo *)
Lemma response_iin_missing s s1 iin o :
  head_not_ev (s_answers s) -> response_iin s = (s1, iin, o) ->
  o = [ODb DbEvinfo; OMissingAnswer] /\ s_answers s1 = s_answers s.
Proof.
  unfold response_iin, ask_evinfo. intros Hh.
  destruct (s_answers s) as [|[] rest] eqn:Ea; try contradiction;
    prj; destruct (s_last_bcast s) as [[]|]; intros H; inversion H; subst; prj; auto.
Qed.

Lemma head_ev_dec (a : list answer) :
  (exists c1 c2 c3 v rest, a = AEvinfo c1 c2 c3 v :: rest) \/ head_not_ev a.
Proof. destruct a as [|[] rest]; cbn; eauto 10. Qed.

Lemma write_solicited_T s dest r s' r' o :
  clean r -> write_solicited s dest r = (s', r', o) -> T s o s'.
Proof.
  intros Hr. unfold write_solicited.
  destruct (response_iin s) as [[s1 [iin1 iin2]] o1] eqn:E.
  pose proof (response_iin_pd _ _ _ _ E) as [P1 P2].
  intros H. inversion H; subst; clear H.
  match goal with |- T s _ (bcast_reported ?s0 ?c0) => destruct (bcast_reported_pd s0 c0) as (Q1 & Q2 & Q3) end.
  repeat split; try congruence.
  rewrite Q3.
  destruct (head_ev_dec (s_answers s)) as [(c1 & c2 & c3 & v & rest & Ha)|Hh].
  - eapply response_iin_bits in E; [|exact Ha].
    destruct E as (-> & Hs1 & B1 & B2 & B3 & B4).
    destruct (or_iin_bits r iin1 iin2 Hr) as (R1 & R2 & R3 & R4).
    rewrite Ha, Hs1. cbn [app]. apply Tr_ev; [|apply Tr_nil].
    unfold iin_ok, class_bits, overflow_bit, response_bytes. cbn [nth app].
    destruct (s_last_bcast s1) as [[]|]; cbn [with_ctl r_iin1 r_iin2];
      rewrite R1, R2, R3, R4, B1, B2, B3, B4; auto.
  - eapply response_iin_missing in E; [|exact Hh]. destruct E as [-> Hs1].
    rewrite Hs1. cbn [app]. apply Tr_miss; [exact Hh|apply Tr_nil].
Qed.

Lemma write_unsolicited_T cfg s r s' r' o :
  clean r -> write_unsolicited cfg s r = (s', r', o) -> T s o s'.
Proof.
  intros Hr. unfold write_unsolicited.
  destruct (response_iin s) as [[s1 [iin1 iin2]] o1] eqn:E.
  pose proof (response_iin_pd _ _ _ _ E) as [P1 P2].
  intros H. inversion H; subst; clear H.
  match goal with |- T s _ (bcast_reported ?s0 ?c0) => destruct (bcast_reported_pd s0 c0) as (Q1 & Q2 & Q3) end.
  repeat split; try congruence.
  rewrite Q3.
  destruct (head_ev_dec (s_answers s)) as [(c1 & c2 & c3 & v & rest & Ha)|Hh].
  - eapply response_iin_bits in E; [|exact Ha].
    destruct E as (-> & Hs1 & B1 & B2 & B3 & B4).
    destruct (or_iin_bits r iin1 iin2 Hr) as (R1 & R2 & R3 & R4).
    rewrite Ha, Hs1. cbn [app]. apply Tr_ev; [|apply Tr_nil].
    unfold iin_ok, class_bits, overflow_bit, response_bytes. cbn [nth app].
    rewrite R1, R2, R3, R4, B1, B2, B3, B4; auto.
  - eapply response_iin_missing in E; [|exact Hh]. destruct E as [-> Hs1].
    rewrite Hs1. cbn [app]. apply Tr_miss; [exact Hh|apply Tr_nil].
Qed.

Lemma clean_empty seq v : sm v -> clean (empty_solicited seq v).
Proof. intros H. split; [reflexivity|exact H]. Qed.

Lemma write_error_response_T s from bc seq s' o :
  write_error_response s from bc seq = (s', o) -> T s o s'.
Proof.
  unfold write_error_response. destruct bc as [m|]; [intros H; inversion H; subst; apply T_nil|].
  destruct seq as [q|]; [|intros H; inversion H; subst; apply T_nil].
  destruct (write_solicited s from (empty_solicited q iin2_no_func)) as [[s1 r1] o1] eqn:E.
  intros H; inversion H; subst. eapply write_solicited_T; [|exact E]. apply clean_empty. reflexivity.
Qed.



Ltac inj H := injection H; clear H; intros; subst.

Lemma exob_plain o : SessionLemmas_c14.exob o -> is_ev o = false.
Proof. destruct o as [| c | | | | | |]; cbn; try reflexivity; try contradiction. Qed.

Lemma Forall_exob_plain o : Forall SessionLemmas_c14.exob o -> Forall (fun x => is_ev x = false) o.
Proof. apply Forall_impl. exact exob_plain. Qed.

Lemma frame_pd s s' : SessionLemmas_c14.frame s s' -> s_pending s' = s_pending s /\ s_deferred s' = s_deferred s.
Proof. unfold SessionLemmas_c14.frame, SessionLemmas_c14.fview, SessionLemmas_c14.uview. intros H. inversion H. auto. Qed.

Lemma gview_pd s s' : SessionLemmas_c14.gview s' = SessionLemmas_c14.gview s -> s_pending s' = s_pending s /\ s_deferred s' = s_deferred s.
Proof. unfold SessionLemmas_c14.gview, SessionLemmas_c14.uview. intros H. inversion H. auto. Qed.

(* ---------- the handlers keep the answers and produce small IIN2 values -------------------------- *)

Lemma write_iin_bits_ans bits : forall s s1 v o,
  write_iin_bits s bits = (s1, v, o) -> s_answers s1 = s_answers s /\ sm v.
Proof.
  induction bits as [|[idx value] rest IH]; intros s s1 v o H; cbn [write_iin_bits] in H.
  - inj H. split; [reflexivity|apply sm_0].
  - destruct (idx =? 7); [destruct value|].
    + destruct (write_iin_bits s rest) as [[s2 v2] o2] eqn:E. inj H.
      apply IH in E. destruct E. split; [assumption|]. apply sm_lor; [apply sm_4|assumption].
    + destruct (write_iin_bits (upd_restart s false) rest) as [[s2 v2] o2] eqn:E. inj H.
      apply IH in E. destruct E as [E1 E2]. prj. split; assumption.
    + destruct (write_iin_bits s rest) as [[s2 v2] o2] eqn:E. inj H.
      apply IH in E. destruct E. split; [assumption|]. apply sm_lor; [apply sm_4|assumption].
Qed.

Lemma write_header_ans cfg s h s1 v o :
  write_header cfg s h = (s1, v, o) -> s_answers s1 = s_answers s /\ sm v.
Proof.
  unfold write_header.
  destruct h as [bits|[t|]|[t|]|c| |a b|x| | |g v0 p items|];
    try (intros H; inj H; split; [reflexivity|auto with sm]; fail).
  - apply write_iin_bits_ans.
  - destruct (s_last_recorded s) as [t0|]; [|intros H; inj H; split; [reflexivity|auto with sm]].
    destruct (max_timestamp - t <? Z.to_N (s_now s - t0)); intros H; inj H; prj;
      split; try reflexivity; auto with sm.
Qed.

Lemma handle_write_headers_ans cfg hdrs : forall s s1 v o,
  handle_write_headers cfg s hdrs = (s1, v, o) -> s_answers s1 = s_answers s /\ sm v.
Proof.
  induction hdrs as [|h rest IH]; intros s s1 v o H; cbn [handle_write_headers] in H.
  - inj H. split; [reflexivity|apply sm_0].
  - destruct (write_header cfg s h) as [[s2 v2] o2] eqn:E1.
    destruct (handle_write_headers cfg s2 rest) as [[s3 v3] o3] eqn:E2.
    inj H. apply write_header_ans in E1. apply IH in E2.
    destruct E1, E2. split; [congruence|]. apply sm_lor; assumption.
Qed.

Lemma freeze_header_sm cfg ft t i h : sm (fst (freeze_header cfg ft t i h)).
Proof. destruct h; cbn; auto with sm. Qed.

Lemma handle_freeze_sm cfg ft hdrs : sm (fst (handle_freeze cfg ft hdrs)).
Proof.
  induction hdrs as [|h rest IH]; cbn [handle_freeze]; [apply sm_0|].
  pose proof (freeze_header_sm cfg ft 0 0 h) as Hh.
  destruct (freeze_header cfg ft 0 0 h) as [v1 o1]. destruct (handle_freeze cfg ft rest) as [v2 o2].
  cbn [fst] in *. apply sm_lor; assumption.
Qed.

Lemma handle_freeze_at_time_sm cfg hdrs : forall timing, sm (fst (handle_freeze_at_time cfg timing hdrs)).
Proof.
  induction hdrs as [|h rest IH]; intros timing; cbn [handle_freeze_at_time]; [apply sm_0|].
  assert (Hdef : forall t0,
             sm (fst (match t0 with
                      | None => let '(v, o) := handle_freeze_at_time cfg t0 rest in (N.lor iin2_param v, o)
                      | Some (t, i) =>
                          let '(v1, o1) := freeze_header cfg 2 t i h in
                          let '(v2, o2) := handle_freeze_at_time cfg t0 rest in (N.lor v1 v2, o1 ++ o2)
                      end))).
  { intros [[t i]|].
    - pose proof (freeze_header_sm cfg 2 t i h) as Hh. specialize (IH (Some (t, i))).
      destruct (freeze_header cfg 2 t i h) as [v1 o1].
      destruct (handle_freeze_at_time cfg (Some (t, i)) rest) as [v2 o2]. cbn [fst] in *. apply sm_lor; assumption.
    - specialize (IH None). destruct (handle_freeze_at_time cfg None rest) as [v o]. cbn [fst] in *.
      apply sm_lor; [apply sm_4|assumption]. }
  destruct h as [bits|x|x|c| |a b|[x|]| | |g v0 p items|]; try apply Hdef.
  - apply IH.
  - specialize (IH timing). destruct (handle_freeze_at_time cfg timing rest) as [v o]. cbn [fst] in *.
    apply sm_lor; [apply sm_4|assumption].
Qed.

Lemma enable_disable_ans cfg s en seq hdrs s1 r :
  enable_disable cfg s en seq hdrs = (s1, r) -> s_answers s1 = s_answers s /\ clean r.
Proof.
  unfold enable_disable. destruct (negb (o_unsol cfg)).
  - intros H; inj H. split; [reflexivity|apply clean_empty; apply sm_1].
  - match goal with |- context [fold_left ?f hdrs ?a0] =>
      assert (Hf : forall l acc, sm (snd acc) -> sm (snd (fold_left f l acc))) end.
    { induction l as [|h l IHl]; intros [[[c1 c2] c3] v] Hv; cbn [fold_left]; [exact Hv|].
      apply IHl. destruct h as [bits|x|x|c| |a b|x| | |g v0 p items|]; cbn [snd] in *; auto with sm.
      repeat (match goal with |- context [match ?x with _ => _ end] => destruct x end); cbn [snd]; auto with sm. }
    match goal with |- context [fold_left ?f hdrs ?a0] => specialize (Hf hdrs a0 sm_0); destruct (fold_left f hdrs a0) as [e v] end.
    intros H; inj H. prj. split; [reflexivity|apply clean_empty; exact Hf].
Qed.

Lemma restart_response_ans seq s d s1 r :
  restart_response seq s d = (s1, r) -> s_answers s1 = s_answers s /\ clean r.
Proof.
  unfold restart_response. destruct d as [[ms v]|]; intros H; inj H; prj.
  - split; [reflexivity|split; reflexivity].
  - split; [reflexivity|apply clean_empty; apply sm_1].
Qed.

Lemma clean_control seq st n : clean (control_response seq st n).
Proof. split; [reflexivity|]. cbn [control_response r_iin2]. destruct (st =? 4); auto with sm. Qed.

Lemma clean_with_iin2 r v : clean r -> sm v -> clean (with_iin2 r v).
Proof. intros [A B] Hv. split; [exact A|]. cbn [with_iin2 r_iin2]. apply sm_lor; assumption. Qed.

Lemma handle_controls_ans cfg s fn seq fid bytes hdrs s1 r o :
  handle_controls cfg s fn seq fid bytes hdrs = (s1, r, o) ->
  s_answers s1 = s_answers s /\ (forall x, r = Some x -> clean x).
Proof.
  unfold handle_controls. destruct (negb (all_controls hdrs)).
  { intros H; inj H. split; [reflexivity|]. intros x Hx.
    destruct (fn =? fn_direct_operate_nr); inversion Hx; subst. apply clean_empty. apply sm_4. }
  destruct (fn =? fn_direct_operate_nr).
  { destruct (noack_headers s cfg 0 false hdrs) as [cbs started]. intros H; inj H.
    split; [reflexivity|discriminate]. }
  destruct (fn =? fn_select).
  { destruct (ctl_headers s cfg (o_sol_tx cfg - 4) CmSelect [] 0 false hdrs) as [[[[echo ok] cbs] st] started].
    intros H; inj H. split.
    - destruct (ok && (st =? 0)); reflexivity.
    - intros x Hx; inversion Hx; subst. apply clean_control. }
  destruct (fn =? fn_direct_operate).
  { destruct (ctl_headers s cfg (o_sol_tx cfg - 4) (CmOperate OpDo) [] 0 false hdrs) as [[[[echo ok] cbs] st] started].
    intros H; inj H. split; [reflexivity|]. intros x Hx; inversion Hx; subst. apply clean_control. }
  match goal with |- context [match ?v with Some _ => _ | None => _ end = _] => destruct v as [status|] end.
  - destruct (ctl_headers s cfg (o_sol_tx cfg - 4) (CmStatus status) [] 0 false hdrs) as [[[[echo ok] cbs] st] started].
    intros H; inj H. split; [reflexivity|]. intros x Hx; inversion Hx; subst. apply clean_control.
  - destruct (ctl_headers s cfg (o_sol_tx cfg - 4) (CmOperate OpSbo) [] 0 false hdrs) as [[[[echo ok] cbs] st] started].
    intros H; inj H. split; [reflexivity|]. intros x Hx; inversion Hx; subst. apply clean_control.
Qed.


Lemma handle_non_read_ans cfg s fn seq fid bytes hdrs s1 r o :
  handle_non_read cfg s fn seq fid bytes hdrs = (s1, r, o) ->
  s_answers s1 = s_answers s /\ (forall x, r = Some x -> clean x).
Proof.
  unfold handle_non_read. cbv beta zeta.
  set (extra := if objects_allowed fn then 0 else match hdrs with [] => 0 | _ => iin2_param end).
  assert (Hex : sm extra).
  { unfold extra. destruct (objects_allowed fn); [apply sm_0|]. destruct hdrs; auto with sm. }
  match goal with |- (let '(_, _) := ?X in _) = _ -> _ => destruct X as [[s2 r2] o2] eqn:E end.
  intros H. inj H.
  assert (Hin : s_answers s1 = s_answers s /\ (forall x, r2 = Some x -> clean x)).
  2:{ destruct Hin as [A B]. split; [exact A|]. intros x Hx. destruct r2 as [r2|]; [|discriminate].
      inj Hx. apply clean_with_iin2; auto. }
  clear Hex. revert E.
  destruct (fn =? fn_write).
  { destruct (handle_write_headers cfg s hdrs) as [[s3 v] o3] eqn:E. apply handle_write_headers_ans in E.
    destruct E as [Ea Eb]. intros H; inj H. split; [assumption|]. intros x Hx; inj Hx. apply clean_empty. assumption. }
  destruct (fn =? fn_delay_measure).
  { intros H; inj H. prj. split; [reflexivity|]. intros x Hx; inj Hx. split; reflexivity. }
  destruct (fn =? fn_record_time).
  { intros H; inj H. prj. split; [reflexivity|]. intros x Hx; inj Hx. apply clean_empty, sm_0. }
  destruct (fn =? fn_cold_restart).
  { destruct (restart_response seq s (o_cold cfg)) as [s3 r3] eqn:E. apply restart_response_ans in E. destruct E as [Ea Eb].
    intros H; inj H. split; [assumption|]. intros x Hx; inj Hx. assumption. }
  destruct (fn =? fn_warm_restart).
  { destruct (restart_response seq s (o_warm cfg)) as [s3 r3] eqn:E. apply restart_response_ans in E. destruct E as [Ea Eb].
    intros H; inj H. split; [assumption|]. intros x Hx; inj Hx. assumption. }
  destruct ((fn =? fn_select) || (fn =? fn_operate) || (fn =? fn_direct_operate) || (fn =? fn_direct_operate_nr)).
  { apply handle_controls_ans. }
  destruct (fn =? fn_immediate_freeze).
  { pose proof (handle_freeze_sm cfg 0 hdrs) as Hs. destruct (handle_freeze cfg 0 hdrs) as [v o3].
    intros H; inj H. split; [reflexivity|]. intros x Hx; inj Hx. apply clean_empty. exact Hs. }
  destruct (fn =? fn_immediate_freeze_nr).
  { destruct (handle_freeze cfg 0 hdrs) as [v o3]. intros H; inj H. split; [reflexivity|discriminate]. }
  destruct (fn =? fn_freeze_clear).
  { pose proof (handle_freeze_sm cfg 1 hdrs) as Hs. destruct (handle_freeze cfg 1 hdrs) as [v o3].
    intros H; inj H. split; [reflexivity|]. intros x Hx; inj Hx. apply clean_empty. exact Hs. }
  destruct (fn =? fn_freeze_clear_nr).
  { destruct (handle_freeze cfg 1 hdrs) as [v o3]. intros H; inj H. split; [reflexivity|discriminate]. }
  destruct (fn =? fn_freeze_at_time).
  { pose proof (handle_freeze_at_time_sm cfg hdrs None) as Hs. destruct (handle_freeze_at_time cfg None hdrs) as [v o3].
    intros H; inj H. split; [reflexivity|]. intros x Hx; inj Hx. apply clean_empty. exact Hs. }
  destruct (fn =? fn_freeze_at_time_nr).
  { destruct (handle_freeze_at_time cfg None hdrs) as [v o3]. intros H; inj H. split; [reflexivity|discriminate]. }
  destruct (fn =? fn_enable_unsol).
  { destruct (enable_disable cfg s true seq hdrs) as [s3 r3] eqn:E. apply enable_disable_ans in E. destruct E as [Ea Eb].
    intros H; inj H. split; [assumption|]. intros x Hx; inj Hx. assumption. }
  destruct (fn =? fn_disable_unsol).
  { destruct (enable_disable cfg s false seq hdrs) as [s3 r3] eqn:E. apply enable_disable_ans in E. destruct E as [Ea Eb].
    intros H; inj H. split; [assumption|]. intros x Hx; inj Hx. assumption. }
  intros H; inj H. split; [reflexivity|]. intros x Hx; inj Hx. apply clean_empty, sm_1.
Qed.

Lemma handle_non_read_Hf cfg s fn seq fid bytes hdrs s1 r o :
  handle_non_read cfg s fn seq fid bytes hdrs = (s1, r, o) ->
  Hf s o s1 /\ (forall x, r = Some x -> clean x).
Proof.
  intros H. pose proof (handle_non_read_ans _ _ _ _ _ _ _ _ _ _ H) as [A B].
  apply SessionLemmas_c14.handle_non_read_spec in H. destruct H as (G & O & _).
  apply gview_pd in G. destruct G. split; [|exact B].
  repeat split; auto. apply Forall_exob_plain. exact O.
Qed.

(* ---------- READ ---------------------------------------------------------------------------------- *)

Lemma format_read_response_T s fir seq iin2 s2 r se o :
  format_read_response s fir seq iin2 = (s2, r, se, o) -> T s o s2 /\ (sm iin2 -> clean r).
Proof.
  unfold format_read_response.
  destruct (ask_write s) as [[s1 [[complete has_events] body]] o1] eqn:E.
  apply ask_write_T in E. intros H; inj H. split.
  - destruct E as (A & B & C). repeat split; prj; auto.
  - intros Hs. split; [reflexivity|exact Hs].
Qed.

Lemma format_first_read_response_T s seq s2 r se o :
  format_first_read_response s seq = (s2, r, se, o) ->
  T s o s2 /\ (Forall sm_ans (s_answers s) -> clean r).
Proof.
  unfold format_first_read_response.
  destruct (ask_iin2 s DbSelect) as [[s1 iin2] o1] eqn:E1.
  destruct (format_read_response s1 true seq iin2) as [[[s3 r3] se3] o3] eqn:E2.
  apply ask_iin2_T in E1; [|reflexivity]. destruct E1 as [E1 Hv].
  apply format_read_response_T in E2. destruct E2 as [E2 Hc].
  intros H; inj H. split; [eapply T_trans; eauto|]. intros Hs. apply Hc, Hv, Hs.
Qed.


Definition PL (o : list oobs) : Prop := Forall (fun x => is_ev x = false) o.

Lemma PL_app a b : PL a -> PL b -> PL (a ++ b).
Proof. intros. apply Forall_app. auto. Qed.

Lemma process_broadcast_Hf cfg s m fid ctl fn bytes obj s1 o :
  process_broadcast cfg s m fid ctl fn bytes obj = (s1, o) -> Hf s o s1.
Proof.
  intros H. pose proof (SessionLemmas_c14.process_broadcast_spec _ _ _ _ _ _ _ _ _ _ H) as (G & _ & _).
  apply gview_pd in G. destruct G as [G1 G2].
  assert (Hx : s_answers s1 = s_answers s /\ PL o).
  2:{ destruct Hx. repeat split; auto. }
  revert H. unfold process_broadcast.
  set (s0 := upd_bcast_rep (upd_last_bcast s (Some m)) None).
  assert (A0 : s_answers s0 = s_answers s) by reflexivity.
  destruct (negb (o_broadcast cfg)).
  { intros H; inj H. split; [exact A0|]. unfold PL. plain_tac. }
  destruct obj as [iin2|hdrs rh].
  { intros H; inj H. split; [exact A0|]. unfold PL. plain_tac. }
  cbv zeta.
  destruct (fn =? fn_write).
  { destruct (handle_write_headers cfg s0 hdrs) as [[s2 v] o2] eqn:E.
    pose proof (handle_write_headers_ans _ _ _ _ _ _ E) as [Ea _].
    apply SessionLemmas_c14.handle_write_headers_out in E. intros H; inj H.
    split; [congruence|]. apply PL_app; [apply Forall_exob_plain; exact E|unfold PL; plain_tac]. }
  destruct (fn =? fn_direct_operate_nr).
  { destruct (handle_controls cfg s0 fn (ctl_seq ctl) fid bytes hdrs) as [[s2 r2] o2] eqn:E.
    pose proof (handle_controls_ans _ _ _ _ _ _ _ _ _ _ E) as [Ea _].
    apply SessionLemmas_c14.handle_controls_out in E. destruct E as [E _]. intros H; inj H.
    split; [congruence|]. apply PL_app; [apply Forall_exob_plain; exact E|unfold PL; plain_tac]. }
  destruct (fn =? fn_immediate_freeze_nr).
  { destruct (handle_freeze cfg 0 hdrs) as [v o2] eqn:E. apply SessionLemmas_c14.handle_freeze_out in E. intros H; inj H.
    split; [exact A0|]. apply PL_app; [apply Forall_exob_plain; exact E|unfold PL; plain_tac]. }
  destruct (fn =? fn_freeze_clear_nr).
  { destruct (handle_freeze cfg 1 hdrs) as [v o2] eqn:E. apply SessionLemmas_c14.handle_freeze_out in E. intros H; inj H.
    split; [exact A0|]. apply PL_app; [apply Forall_exob_plain; exact E|unfold PL; plain_tac]. }
  destruct (fn =? fn_freeze_at_time_nr).
  { destruct (handle_freeze_at_time cfg None hdrs) as [v o2] eqn:E. apply SessionLemmas_c14.handle_freeze_at_time_out in E. intros H; inj H.
    split; [exact A0|]. apply PL_app; [apply Forall_exob_plain; exact E|unfold PL; plain_tac]. }
  destruct (fn =? fn_record_time).
  { intros H; inj H. split; [reflexivity|]. unfold PL; plain_tac. }
  destruct (fn =? fn_disable_unsol).
  { destruct (enable_disable cfg s0 false (ctl_seq ctl) hdrs) as [s2 r2] eqn:E. apply enable_disable_ans in E.
    destruct E as [Ea _]. intros H; inj H. split; [congruence|]. unfold PL; plain_tac. }
  destruct (fn =? fn_enable_unsol).
  { destruct (enable_disable cfg s0 true (ctl_seq ctl) hdrs) as [s2 r2] eqn:E. apply enable_disable_ans in E.
    destruct E as [Ea _]. intros H; inj H. split; [congruence|]. unfold PL; plain_tac. }
  intros H; inj H. split; [exact A0|]. unfold PL; plain_tac.
Qed.


Definition sm_digest (d : digest) : Prop := match d with DOk _ _ _ (ObjErr v) => sm v | _ => True end.

Lemma T_cons s x o s' : is_ev x = false -> T s o s' -> T s (x :: o) s'.
Proof. intros Hx (A & B & C). repeat split; auto. apply Tr_obs; assumption. Qed.

Lemma T_snoc s x o s' : is_ev x = false -> T s o s' -> T s (o ++ [x]) s'.
Proof.
  intros Hx H. eapply T_trans; [exact H|]. apply T_cons; [exact Hx|apply T_nil].
Qed.

(* T is insensitive to the fields the bookkeeping after a response touches *)
Lemma T_upd_last s o s' l : T s o s' -> T s o (upd_last s' l).
Proof. intros (A & B & C). repeat split; prj; auto. Qed.
Lemma T_upd_control s o s' c : T s o s' -> T s o (upd_control s' c).
Proof. intros (A & B & C). repeat split; prj; auto. Qed.
Lemma T_upd_select_l s o s' x : T s o s' -> T (upd_select s x) o s'.
Proof. intros (A & B & C). repeat split; prj; auto. Qed.

Lemma classify_malformed s bc bytes ctl fn obj iin2 :
  classify s bc bytes ctl fn obj = FtMalformed iin2 -> obj = ObjErr iin2.
Proof.
  unfold classify. destruct bc; [discriminate|].
  destruct (fn =? fn_confirm); [destruct (ctl_uns ctl); discriminate|].
  destruct obj as [e|hdrs rh]; [intros H; inversion H; reflexivity|].
  destruct (match s_last s with Some l => _ | None => false end); destruct (fn =? fn_read); discriminate.
Qed.

Lemma hfi_finish_T cfg from seq bytes fn s1 resp se rep o1 s' o :
  (rep = false -> forall r, resp = Some r -> clean r) ->
  hfi_finish cfg from seq bytes fn s1 resp se rep o1 = (s', o) ->
  exists o2, o = OInfo (IIdleRequest fn seq) :: o1 ++ o2 /\ T s1 o2 s'.
Proof.
  intros Hc. unfold hfi_finish. destruct resp as [r|].
  - destruct rep.
    + unfold repeat_solicited.
      match goal with |- context [match ?x with Some _ => _ | None => _ end = _] => destruct x as [x0|] end;
        intros H; inj H.
      * eexists. split; [cbn [app]; reflexivity|].
        apply T_upd_control, T_upd_last. apply T_cons; [reflexivity|]. apply T_cons; [reflexivity|apply T_nil].
      * eexists. split; [cbn [app]; reflexivity|].
        apply T_upd_last. apply T_cons; [reflexivity|apply T_nil].
    + destruct (write_solicited s1 from r) as [[s2 r'] o2] eqn:E.
      apply write_solicited_T in E; [|apply Hc; reflexivity].
      match goal with |- context [match ?x with Some _ => _ | None => _ end = _] => destruct x as [x0|] end;
        intros H; inj H.
      * eexists. split; [cbn [app]; reflexivity|].
        apply T_upd_control, T_upd_last. apply T_snoc; [reflexivity|exact E].
      * eexists. split; [cbn [app]; reflexivity|]. apply T_upd_last. exact E.
  - intros H; inj H. exists []. split; [cbn [app]; rewrite app_nil_r; reflexivity|].
    apply T_upd_last, T_nil.
Qed.

Lemma handle_from_idle_T cfg s from bc bytes d fid s' o :
  sm_digest d -> Forall sm_ans (s_answers s) ->
  handle_from_idle cfg s from bc bytes d fid = (s', o) -> T s o s'.
Proof.
  intros Hd Hs. rewrite handle_from_idle_eq.
  destruct (to_treq cfg from d) as [|sq|ctl fn obj] eqn:Et.
  - intros H; inj H. apply T_nil.
  - apply write_error_response_T.
  - apply to_treq_request in Et. subst d. cbn [sm_digest] in Hd. cbv zeta.
    destruct (classify s bc bytes ctl fn obj) as [iin2|hdrs rh|last hdrs rh|hdrs|last|m|q|q] eqn:Ec.
    + apply classify_malformed in Ec. subst obj. intros H.
      apply hfi_finish_T in H.
      * destruct H as (o2 & -> & H). cbn [app]. apply T_cons; [reflexivity|exact H].
      * intros _ r Hr. inj Hr. apply clean_empty. exact Hd.
    + destruct (format_first_read_response s (ctl_seq ctl)) as [[[s1 r] se] o1] eqn:E.
      apply format_first_read_response_T in E. destruct E as [E Hc]. intros H.
      apply hfi_finish_T in H.
      * destruct H as (o2 & -> & H). apply T_cons; [reflexivity|]. eapply T_trans; eauto.
      * intros _ r0 Hr. inj Hr. apply Hc, Hs.
    + destruct (format_first_read_response s (ctl_seq ctl)) as [[[s1 r] se] o1] eqn:E.
      apply format_first_read_response_T in E. destruct E as [E Hc]. intros H.
      apply hfi_finish_T in H.
      * destruct H as (o2 & -> & H). apply T_cons; [reflexivity|]. eapply T_trans; eauto.
      * intros _ r0 Hr. inj Hr. apply Hc, Hs.
    + destruct (handle_non_read cfg s fn (ctl_seq ctl) fid bytes hdrs) as [[s1 r] o1] eqn:E.
      apply handle_non_read_Hf in E. destruct E as [E Hc]. intros H.
      apply hfi_finish_T in H.
      * destruct H as (o2 & -> & H). apply T_cons; [reflexivity|]. eapply T_trans; [apply Hf_T; exact E|exact H].
      * intros _ r0 Hr. apply Hc. exact Hr.
    + intros H. apply hfi_finish_T in H; [|discriminate].
      destruct H as (o2 & -> & H). cbn [app]. apply T_cons; [reflexivity|].
      destruct (s_select s) as [sel|]; [|exact H].
      destruct ((ss_frame_id sel + 1) mod 4294967296 =? fid); [|exact H].
      destruct H as (A & B & C). repeat split; prj; auto.
    + destruct (process_broadcast cfg s m fid ctl fn bytes obj) as [s1 o1] eqn:E.
      apply process_broadcast_Hf in E. intros H; inj H. cbn [app].
      apply T_cons; [reflexivity|]. apply Hf_T. exact E.
    + intros H; inj H. apply T_cons; [reflexivity|apply T_nil].
    + intros H; inj H. apply T_cons; [reflexivity|apply T_nil].
Qed.


Definition small_pd (s : ostate) : Prop :=
  match s_pending s with Some (_, _, _, d, _) => sm_digest d | None => True end /\
  match s_deferred s with Some d => sm (df_iin2 d) | None => True end.

Definition small (s : ostate) : Prop := Forall sm_ans (s_answers s) /\ small_pd s.

(* the general shape: answers consumed in order, smallness kept *)
Definition R (s : ostate) (o : list oobs) (s' : ostate) : Prop :=
  tracked (s_answers s) o (s_answers s') /\ small s'.

Lemma R_of_T s o s' : small s -> T s o s' -> R s o s'.
Proof.
  intros [Ha [Hp Hd]] (A & B & C). split; [exact A|]. split; [eapply tracked_small; eauto|].
  unfold small_pd. rewrite B, C. split; assumption.
Qed.

Lemma R_trans s o1 s1 o2 s2 : R s o1 s1 -> R s1 o2 s2 -> R s (o1 ++ o2) s2.
Proof. intros [A1 A2] [B1 B2]. split; [eapply tracked_app; eauto|exact B2]. Qed.

Lemma R_refl s : small s -> R s [] s.
Proof. intros H. split; [apply Tr_nil|exact H]. Qed.

Lemma R_small s o s' : R s o s' -> small s'.
Proof. intros [_ H]; exact H. Qed.

(* updates that keep smallness and the answers *)
Definition same_apd (s s' : ostate) : Prop :=
  s_answers s' = s_answers s /\ s_pending s' = s_pending s /\ s_deferred s' = s_deferred s.

Lemma R_same_r s o s1 s2 : R s o s1 -> same_apd s1 s2 -> R s o s2.
Proof.
  intros [A [B [C D]]] (E1 & E2 & E3). split; [rewrite E1; exact A|].
  split; [rewrite E1; exact B|]. unfold small_pd. rewrite E2, E3. split; assumption.
Qed.

Lemma R_same_l s0 s o s1 : same_apd s0 s -> R s o s1 -> R s0 o s1.
Proof. intros (E1 & E2 & E3) [A B]. split; [rewrite <- E1; exact A|exact B]. Qed.

Lemma small_same s s' : small s -> same_apd s s' -> small s'.
Proof.
  intros [B [C D]] (E1 & E2 & E3). split; [rewrite E1; exact B|]. unfold small_pd. rewrite E2, E3. split; assumption.
Qed.

Lemma R_cons s x o s' : is_ev x = false -> R s o s' -> R s (x :: o) s'.
Proof. intros Hx [A B]. split; [apply Tr_obs; assumption|exact B]. Qed.

Lemma R_plain s o : small s -> PL o -> R s o s.
Proof. intros Hs Ho. split; [apply tracked_plain; exact Ho|exact Hs]. Qed.

(* clearing / setting the deferred read keeps smallness *)
Lemma small_upd_deferred_none s : small s -> small (upd_deferred s None).
Proof. intros [A [B C]]. split; [exact A|]. split; prj; auto. Qed.

Lemma small_upd_pending_none s : small s -> small (upd_pending s None).
Proof. intros [A [B C]]. split; [exact A|]. split; prj; auto. Qed.

Lemma small_deferred_set s bytes seq from rh : small s -> small (deferred_set s bytes seq from rh).
Proof.
  intros [A [B C]]. split; [exact A|]. split; [exact B|]. unfold deferred_set. prj.
  cbn [df_iin2]. destruct (forallb (fun b => b) rh); auto with sm.
Qed.

(* ---------- solicited confirm wait ---------------------------------------------------------------- *)

Lemma sol_wait_fragment_PL cfg s se dl from bc bytes d out o :
  sol_wait_fragment cfg s se dl from bc bytes d = (out, o) -> PL o.
Proof.
  unfold sol_wait_fragment. destruct (to_treq cfg from d) as [|sq|ctl fn obj].
  - intros H; inj H. constructor.
  - intros H; inj H. unfold PL; plain_tac.
  - destruct (classify s bc bytes ctl fn obj) as [iin2|hdrs rh|last hdrs rh|hdrs|last|m|q|q];
      try (intros H; inj H; unfold PL; plain_tac; fail).
    + destruct last as [r|]; intros H; inj H; unfold PL, repeat_solicited; plain_tac.
    + destruct (q =? se_ecsn se); intros H; inj H; unfold PL; plain_tac.
Qed.

(* ---------- unsolicited ------------------------------------------------------------------------- *)

Lemma clean_unsol_header seq n : clean (unsol_header seq n).
Proof. split; reflexivity. Qed.

Lemma start_unsol_T cfg s r is_null s' o : clean r -> start_unsol cfg s r is_null = (s', o) -> T s o s'.
Proof.
  intros Hr. unfold start_unsol.
  destruct (write_unsolicited cfg s r) as [[s1 r1] o1] eqn:E. apply write_unsolicited_T in E; [|exact Hr].
  intros H; inj H. apply T_upd_control. apply T_snoc; [reflexivity|exact E].
Qed.

Lemma end_unsol_Hf cfg s is_null res s' ns o : end_unsol cfg s is_null res = (s', ns, o) -> Hf s o s'.
Proof.
  unfold end_unsol. destruct is_null; destruct res; intros H; inj H; repeat split; prj; auto; plain_tac.
Qed.

Lemma check_unsolicited_T cfg s s' ns o : check_unsolicited cfg s = (s', ns, o) -> T s o s'.
Proof.
  unfold check_unsolicited. destruct (negb (o_unsol cfg)); [intros H; inj H; apply T_nil|].
  destruct (s_unsol s) as [|deadline].
  - destruct (start_unsol cfg (upd_unsol_seq s (seq16_next (s_unsol_seq s))) (unsol_header (s_unsol_seq s) 0) true)
      as [s2 o2] eqn:E.
    apply start_unsol_T in E; [|apply clean_unsol_header]. intros H; inj H.
    destruct E as (A & B & C). repeat split; prj; auto.
  - destruct (negb match deadline with Some t => (t <=? s_now s)%Z | None => true end); [intros H; inj H; apply T_nil|].
    destruct (negb (any_enabled s)); [intros H; inj H; apply T_nil|].
    destruct (ask_unsol s) as [s1 [count body]] eqn:E. apply ask_unsol_T in E.
    destruct (s_enabled s) as [[c1 c2] c3].
    destruct (count =? 0); [intros H; inj H; exact E|].
    match goal with |- context [start_unsol cfg ?s2 ?r false] => destruct (start_unsol cfg s2 r false) as [s3 o3] eqn:E3 end.
    apply start_unsol_T in E3; [|apply clean_unsol_header]. intros H; inj H.
    apply T_cons; [reflexivity|].
    destruct E as (A & B & C). destruct E3 as (A3 & B3 & C3). prj.
    repeat split; try congruence.
    change (s_answers s) with (s_answers s) in A. 
    eapply tracked_app with (o1 := []); [exact A|exact A3].
Qed.


Lemma same_apd_bcast_confirmed s u q : same_apd s (bcast_confirmed s u q).
Proof. unfold bcast_confirmed. destruct (rep_eqb _ _ _); repeat split; prj; auto. Qed.

Lemma unsol_wait_fragment_R cfg s resp from bc bytes d fid s' res o :
  small s -> sm_digest d ->
  unsol_wait_fragment cfg s resp from bc bytes d fid = (s', res, o) -> R s o s'.
Proof.
  intros Hs Hd. unfold unsol_wait_fragment.
  pose proof (small_upd_deferred_none s Hs) as Hs0.
  assert (S0 : forall o1 s1, R (upd_deferred s None) o1 s1 -> R s o1 s1).
  { intros o1 s1 [A B]. split; [exact A|exact B]. }
  destruct (to_treq cfg from d) as [|sq|ctl fn obj] eqn:Et.
  - intros H; inj H. apply R_refl. exact Hs.
  - destruct (write_error_response (upd_deferred s None) from bc sq) as [s1 o1] eqn:E.
    apply write_error_response_T in E. intros H; inj H. apply S0. apply R_of_T; assumption.
  - apply to_treq_request in Et. subst d. cbn [sm_digest] in Hd.
    destruct (classify s bc bytes ctl fn obj) as [iin2|hdrs rh|last hdrs rh|hdrs|last|m|q|q] eqn:Ec.
    + apply classify_malformed in Ec. subst obj.
      destruct (write_solicited (upd_deferred s None) from (empty_solicited (ctl_seq ctl) iin2)) as [[s1 r1] o1] eqn:E.
      apply write_solicited_T in E; [|apply clean_empty; exact Hd].
      intros H; inj H. apply S0. apply R_of_T; assumption.
    + intros H; inj H. split; [apply Tr_nil|]. apply small_deferred_set. exact Hs.
    + intros H; inj H. split; [apply Tr_nil|]. apply small_deferred_set. exact Hs.
    + destruct (handle_non_read cfg (upd_deferred s None) fn (ctl_seq ctl) fid bytes hdrs) as [[s1 r] o1] eqn:E.
      apply handle_non_read_Hf in E. destruct E as [E Hc].
      destruct r as [r0|].
      * destruct (write_solicited s1 from r0) as [[s2 r1] o2] eqn:E2.
        apply write_solicited_T in E2; [|apply Hc; reflexivity].
        intros H; inj H. apply S0. apply R_of_T; [exact Hs0|].
        apply T_upd_last. eapply T_trans; [apply Hf_T; exact E|exact E2].
      * intros H; inj H. apply S0. apply R_of_T; [exact Hs0|].
        apply T_upd_last. rewrite app_nil_r. apply Hf_T. exact E.
    + intros H; inj H. apply S0. apply R_plain; [exact Hs0|].
      destruct last; unfold PL, repeat_solicited; plain_tac.
    + destruct (process_broadcast cfg (upd_deferred s None) m fid ctl fn bytes obj) as [s1 o1] eqn:E.
      apply process_broadcast_Hf in E. intros H; inj H. apply S0. apply R_of_T; [exact Hs0|apply Hf_T; exact E].
    + intros H; inj H. eapply R_same_r; [apply R_refl; exact Hs|apply same_apd_bcast_confirmed].
    + destruct (q =? ctl_seq (r_ctl resp)); intros H; inj H.
      * eapply R_same_r; [apply R_plain; [exact Hs|unfold PL; plain_tac]|apply same_apd_bcast_confirmed].
      * apply R_refl. exact Hs.
Qed.

Lemma handle_deferred_R cfg s ns s' o : small s -> handle_deferred cfg s ns = (s', o) -> R s o s'.
Proof.
  intros Hs. unfold handle_deferred. destruct (s_deferred s) as [d|] eqn:Ed; [|intros H; inj H; apply R_refl; exact Hs].
  assert (Hdf : sm (df_iin2 d)). { destruct Hs as [_ [_ Hx]]. rewrite Ed in Hx. exact Hx. }
  set (s0 := upd_notify (upd_deferred s None) true).
  assert (Hs0 : small s0). { destruct Hs as [A [B C]]. unfold s0. split; [exact A|]. split; prj; auto. }
  destruct (ask_iin2 s0 DbDeferredSelect) as [[s1 iin2] o1] eqn:E1.
  apply ask_iin2_T in E1; [|reflexivity]. destruct E1 as [E1 Hv].
  destruct (format_read_response s1 true (df_seq d) (N.lor (df_iin2 d) iin2)) as [[[s2 r] se] o2] eqn:E2.
  apply format_read_response_T in E2. destruct E2 as [E2 Hc].
  destruct (write_solicited s2 (df_from d) r) as [[s3 r'] o3] eqn:E3.
  apply write_solicited_T in E3; [|apply Hc; apply sm_lor; [exact Hdf|apply Hv; destruct Hs0 as [A _]; exact A]].
  assert (HT : T s0 (o1 ++ o2 ++ o3) s3). { eapply T_trans; [exact E1|]. eapply T_trans; eauto. }
  assert (S0 : forall o0 sx, R s0 o0 sx -> R s o0 sx).
  { intros o0 sx [A B]. split; [exact A|exact B]. }
  match goal with |- context [match ?x with Some _ => _ | None => _ end = _] => destruct x as [x0|] end;
    intros H; inj H.
  - apply S0. apply R_of_T; [exact Hs0|]. apply T_upd_control, T_upd_last.
    replace (o1 ++ o2 ++ o3 ++ [OInfo (IEnterSolWait (se_ecsn x0))])
      with ((o1 ++ o2 ++ o3) ++ [OInfo (IEnterSolWait (se_ecsn x0))]) by (rewrite <- !app_assoc; reflexivity).
    apply T_snoc; [reflexivity|exact HT].
  - apply S0. apply R_of_T; [exact Hs0|]. apply T_upd_last. exact HT.
Qed.


Lemma R_upd_l s0 s o s' : s_answers s0 = s_answers s -> R s o s' -> R s0 o s'.
Proof. intros E [A B]. split; [rewrite E; exact A|exact B]. Qed.

Lemma small_pending_digest s from bc bytes d fid :
  small s -> s_pending s = Some (from, bc, bytes, d, fid) -> sm_digest d.
Proof. intros [_ [H _]] E. rewrite E in H. exact H. Qed.

Lemma idle_run_R cfg : forall f st s s' o, small s -> idle_run f cfg st s = (s', o) -> R s o s'.
Proof.
  induction f as [|f IH]; intros st s s' o Hs H; cbn [idle_run] in H.
  - inj H. apply R_plain; [exact Hs|unfold PL; plain_tac].
  - destruct st as [| |ns|ns].
    + (* St1 *)
      assert (H1 : forall s1 o1,
                 match s_pending s with
                 | Some (from, bc, bytes, d, fid) => handle_from_idle cfg (upd_pending s None) from bc bytes d fid
                 | None => (s, [])
                 end = (s1, o1) -> R s o1 s1).
      { intros s1 o1. destruct (s_pending s) as [[[[[from bc] bytes] d] fid]|] eqn:Ep.
        - intros E. apply handle_from_idle_T in E.
          + apply R_upd_l with (s := upd_pending s None); [reflexivity|].
            apply R_of_T; [apply small_upd_pending_none; exact Hs|exact E].
          + eapply small_pending_digest; eauto.
          + destruct Hs as [A _]. exact A.
        - intros E; inj E. apply R_refl. exact Hs. }
      destruct (match s_pending s with Some _ => _ | None => _ end) as [s1 o1] eqn:E1.
      specialize (H1 _ _ eq_refl).
      destruct (s_control s1).
      * destruct (idle_run f cfg St2 s1) as [s2 o2] eqn:E2. inj H.
        apply IH in E2; [|eapply R_small; eauto]. eapply R_trans; eauto.
      * inj H. exact H1.
      * inj H. exact H1.
    + (* St2 *)
      destruct (check_unsolicited cfg s) as [[s2 b] o2] eqn:E2.
      apply check_unsolicited_T in E2. apply (R_of_T _ _ _ Hs) in E2.
      pose proof (R_small _ _ _ E2) as Hs2.
      destruct (s_control s2) as [|se dl r|resp is_null retries dl].
      * destruct (idle_run f cfg (St3 false) s2) as [s3 o3] eqn:E3. inj H.
        apply IH in E3; [|exact Hs2]. eapply R_trans; eauto.
      * inj H. exact E2.
      * destruct (s_pending s2) as [[[[[from bc] bytes] d] fid]|] eqn:Ep; [|inj H; exact E2].
        destruct (unsol_wait_fragment cfg (upd_pending s2 None) resp from bc bytes d fid) as [[s3 res] o3] eqn:E3.
        apply unsol_wait_fragment_R in E3;
          [|apply small_upd_pending_none; exact Hs2|eapply small_pending_digest; eauto].
        apply R_upd_l with (s0 := s2) in E3; [|reflexivity].
        destruct res as [r|].
        -- destruct (end_unsol cfg s3 is_null r) as [[s4 ns] o4] eqn:E4.
           apply end_unsol_Hf in E4. apply Hf_T in E4. apply (R_of_T _ _ _ (R_small _ _ _ E3)) in E4.
           destruct (idle_run f cfg (St3 ns) s4) as [s5 o5] eqn:E5. inj H.
           apply IH in E5; [|eapply R_small; eauto].
           eapply R_trans; [exact E2|]. eapply R_trans; [exact E3|]. eapply R_trans; eauto.
        -- inj H. eapply R_trans; eauto.
    + (* St3 *)
      destruct (handle_deferred cfg s ns) as [s3 o3] eqn:E3. apply handle_deferred_R in E3; [|exact Hs].
      destruct (s_control s3).
      * destruct (idle_run f cfg (St4 ns) s3) as [s4 o4] eqn:E4. inj H.
        apply IH in E4; [|eapply R_small; eauto]. eapply R_trans; eauto.
      * inj H. exact E3.
      * inj H. exact E3.
    + (* St4 *)
      destruct (s_pending s) as [p|] eqn:Ep; [eapply IH; eauto|].
      destruct ns; [eapply IH; eauto|].
      destruct (s_notify s); [|inj H; apply R_refl; exact Hs].
      apply IH in H.
      * apply R_upd_l with (s := upd_notify s false); [reflexivity|exact H].
      * destruct Hs as [A [B C]]. split; [exact A|]. split; prj; auto.
Qed.


Lemma small_upd_control s c : small s -> small (upd_control s c).
Proof. intros [A [B C]]. split; [exact A|]. split; prj; auto. Qed.
Lemma small_upd_now s t : small s -> small (upd_now s t).
Proof. intros [A [B C]]. split; [exact A|]. split; prj; auto. Qed.
Lemma small_upd_frame_id s t : small s -> small (upd_frame_id s t).
Proof. intros [A [B C]]. split; [exact A|]. split; prj; auto. Qed.
Lemma small_upd_last_bcast s t : small s -> small (upd_last_bcast s t).
Proof. intros [A [B C]]. split; [exact A|]. split; prj; auto. Qed.
Lemma small_upd_notify s t : small s -> small (upd_notify s t).
Proof. intros [A [B C]]. split; [exact A|]. split; prj; auto. Qed.
Lemma small_upd_pending_some s from bc bytes d fid :
  small s -> sm_digest d -> small (upd_pending s (Some (from, bc, bytes, d, fid))).
Proof. intros [A [B C]] Hd. split; [exact A|]. split; prj; auto. Qed.

Lemma resume_at_R cfg st s s' o : small s -> resume_at cfg st s = (s', o) -> R s o s'.
Proof. unfold resume_at. apply idle_run_R. Qed.

Lemma idle_loop_R cfg n s s' o : small s -> idle_loop n cfg s = (s', o) -> R s o s'.
Proof. unfold idle_loop. apply idle_run_R. Qed.

Lemma fire_deadline_R cfg s s' o : small s -> fire_deadline cfg s = (s', o) -> R s o s'.
Proof.
  intros Hs. unfold fire_deadline. destruct (s_control s) as [|se dl r|resp is_null retries dl].
  - apply resume_at_R. exact Hs.
  - destruct (resume_at cfg (stage_of r) (upd_control s CIdle)) as [s1 o1] eqn:E.
    apply resume_at_R in E; [|apply small_upd_control; exact Hs].
    intros H; inj H. cbn [app]. apply R_cons; [reflexivity|]. apply R_cons; [reflexivity|].
    apply R_upd_l with (s := upd_control s CIdle); [reflexivity|exact E].
  - match goal with |- (if ?b then _ else _) = _ -> _ => destruct b end.
    + intros H; inj H. apply R_upd_l with (s := upd_control s (CUnsolWait resp is_null
                (match retries with Some (S n) => Some n | x => x end) (confirm_deadline cfg s))); [reflexivity|].
      apply R_plain; [apply small_upd_control; exact Hs|unfold PL, repeat_unsolicited; plain_tac].
    + destruct (end_unsol cfg s is_null UrTimeout) as [[s1 ns] o1] eqn:E1.
      apply end_unsol_Hf in E1. apply Hf_T in E1. apply (R_of_T _ _ _ Hs) in E1.
      destruct (resume_at cfg (St3 ns) s1) as [s2 o2] eqn:E2.
      apply resume_at_R in E2; [|eapply R_small; eauto].
      intros H; inj H. cbn [app]. apply R_cons; [reflexivity|]. eapply R_trans; eauto.
Qed.

Lemma advance_R cfg target : forall f s s' o, small s -> advance f cfg s target = (s', o) -> R s o s'.
Proof.
  induction f as [|f IH]; intros s s' o Hs H; cbn [advance] in H.
  - inj H. apply R_upd_l with (s := upd_now s target); [reflexivity|].
    apply R_plain; [apply small_upd_now; exact Hs|unfold PL; plain_tac].
  - destruct (next_deadline cfg s) as [d|].
    + destruct (d <=? target)%Z.
      * destruct (fire_deadline cfg (upd_now s (Z.max d (s_now s)))) as [s1 o1] eqn:E1.
        apply fire_deadline_R in E1; [|apply small_upd_now; exact Hs].
        destruct (advance f cfg s1 target) as [s2 o2] eqn:E2.
        apply IH in E2; [|eapply R_small; eauto]. inj H.
        apply R_cons; [reflexivity|].
        apply R_upd_l with (s := upd_now s (Z.max d (s_now s))); [reflexivity|]. eapply R_trans; eauto.
      * inj H. apply R_upd_l with (s := upd_now s target); [reflexivity|]. apply R_refl, small_upd_now, Hs.
    + inj H. apply R_upd_l with (s := upd_now s target); [reflexivity|]. apply R_refl, small_upd_now, Hs.
Qed.

Lemma on_rx_R cfg s from bc bytes d s' o :
  small s -> sm_digest d -> on_rx cfg s from bc bytes d = (s', o) -> R s o s'.
Proof.
  intros Hs Hd. unfold on_rx.
  set (fid := (s_frame_id s + 1) mod 4294967296).
  set (s0 := upd_frame_id s fid).
  assert (Hs0 : small s0) by (apply small_upd_frame_id; exact Hs).
  assert (S0 : forall o0 sx, R s0 o0 sx -> R s o0 sx).
  { intros o0 sx. apply R_upd_l. reflexivity. }
  destruct (s_control s0) as [|se deadline r|resp is_null retries deadline].
  - intros H. apply S0. apply idle_loop_R in H.
    + eapply R_upd_l; [|exact H]. reflexivity.
    + apply small_upd_pending_some; assumption.
  - destruct (sol_wait_fragment cfg s0 se deadline from bc bytes d) as [out o1] eqn:E1.
    apply sol_wait_fragment_PL in E1.
    destruct out as [dl|respond_to|].
    + intros H; inj H. apply S0. apply R_upd_l with (s := upd_control s0 (CSolWait se dl r)); [reflexivity|].
      apply R_plain; [apply small_upd_control; exact Hs0|exact E1].
    + set (s1 := upd_last_bcast s0 None).
      assert (Hs1 : small s1) by (apply small_upd_last_bcast; exact Hs0).
      assert (P1 : R s0 (o1 ++ [ODb DbClearWritten]) s1).
      { apply R_upd_l with (s := s1); [reflexivity|]. apply R_plain; [exact Hs1|].
        apply PL_app; [exact E1|unfold PL; plain_tac]. }
      destruct (se_fin se).
      * destruct (resume_at cfg (stage_of r) (upd_control s1 CIdle)) as [s2 o2] eqn:E2.
        apply resume_at_R in E2; [|apply small_upd_control; exact Hs1].
        intros H; inj H. apply S0.
        match goal with |- R _ ?l _ => replace l with ((o1 ++ [ODb DbClearWritten]) ++ o2)
                                         by (rewrite <- app_assoc; reflexivity) end.
        eapply R_trans; [exact P1|].
        eapply R_upd_l; [|exact E2]. reflexivity.
      * destruct (format_read_response s1 false (seq16_next (se_ecsn se)) 0) as [[[s2 rsp] next] o2] eqn:E2.
        apply format_read_response_T in E2. destruct E2 as [E2 Hc].
        destruct (write_solicited s2 respond_to rsp) as [[s3 rsp'] o3] eqn:E3.
        apply write_solicited_T in E3; [|apply Hc, sm_0].
        assert (P2 : R s1 (o2 ++ o3) s3). { apply R_of_T; [exact Hs1|]. eapply T_trans; eauto. }
        set (s4 := upd_last s3 (match s_last s3 with
                                | Some l => Some {| lr_seq := lr_seq l; lr_bytes := lr_bytes l;
                                                    lr_response := Some rsp'; lr_series := lr_series l |}
                                | None => None end)).
        assert (P3 : R s1 (o2 ++ o3) s4).
        { eapply R_same_r; [exact P2|]. unfold s4. repeat split; prj; auto. }
        destruct next as [n|].
        -- intros H; inj H. apply S0.
           match goal with |- R _ ?l _ => replace l with ((o1 ++ [ODb DbClearWritten]) ++ (o2 ++ o3))
                                            by (rewrite <- !app_assoc; reflexivity) end.
           eapply R_trans; [exact P1|]. eapply R_same_r; [exact P3|]. repeat split; prj; auto.
        -- destruct (resume_at cfg (stage_of r) (upd_control s4 CIdle)) as [s5 o5] eqn:E5.
           apply resume_at_R in E5; [|apply small_upd_control; eapply R_small; eauto].
           intros H; inj H. apply S0.
           match goal with |- R _ ?l _ => replace l with ((o1 ++ [ODb DbClearWritten]) ++ (o2 ++ o3) ++ o5)
                                            by (rewrite <- !app_assoc; reflexivity) end.
           eapply R_trans; [exact P1|]. eapply R_trans; [exact P3|].
           eapply R_upd_l; [|exact E5]. reflexivity.
    + destruct (resume_at cfg (stage_of r) (upd_pending (upd_control s0 CIdle) (Some (from, bc, bytes, d, fid))))
        as [s2 o2] eqn:E2.
      apply resume_at_R in E2; [|apply small_upd_pending_some; [apply small_upd_control; exact Hs0|exact Hd]].
      intros H; inj H. apply S0.
      match goal with |- R _ ?l _ => replace l with ((o1 ++ [ODb DbReset]) ++ o2) by (rewrite <- app_assoc; reflexivity) end.
      eapply R_trans; [apply R_plain; [exact Hs0|apply PL_app; [exact E1|unfold PL; plain_tac]]|].
      eapply R_upd_l; [|exact E2]. reflexivity.
  - destruct (unsol_wait_fragment cfg s0 resp from bc bytes d fid) as [[s1 res] o1] eqn:E1.
    apply unsol_wait_fragment_R in E1; [|exact Hs0|exact Hd].
    destruct res as [r|].
    + destruct (end_unsol cfg s1 is_null r) as [[s2 ns] o2] eqn:E2.
      apply end_unsol_Hf in E2. apply Hf_T in E2. apply (R_of_T _ _ _ (R_small _ _ _ E1)) in E2.
      destruct (resume_at cfg (St3 ns) s2) as [s3 o3] eqn:E3.
      apply resume_at_R in E3; [|eapply R_small; eauto].
      intros H; inj H. apply S0. eapply R_trans; [exact E1|]. eapply R_trans; eauto.
    + intros H; inj H. apply S0. exact E1.
Qed.

Definition sm_event (ev : oevent) : Prop :=
  match ev with ERx _ _ _ d => sm_digest d | _ => True end.

(* THE SESSION-LEVEL THEOREM: one step consumes the answers in order, and every response it builds
   and transmits (an `ODb DbEvinfo` directly followed by an `OTx`) carries in its IIN octets exactly the
   class bits and the overflow bit of the AEvinfo answer consumed for it. *)
Theorem ostep_tracked cfg s ev ans s' o :
  small_pd s -> Forall sm_ans ans -> sm_event ev ->
  ostep cfg s ev ans = (s', o) ->
  tracked ans o (s_answers s') /\ small_pd s'.
Proof.
  intros Hpd Hans Hev. unfold ostep.
  set (s0 := upd_answers s ans).
  assert (Hs0 : small s0). { split; [exact Hans|]. destruct Hpd as [A B]. unfold s0. split; prj; auto. }
  assert (Fin : forall s1 o1, R s0 o1 s1 -> tracked ans o1 (s_answers s1) /\ small_pd s1).
  { intros s1 o1 [A [B C]]. split; [exact A|exact C]. }
  destruct ev as [from bc bytes d|ms| |sel op|v|].
  - destruct (on_rx cfg s0 from bc bytes d) as [s1 o1] eqn:E1.
    apply on_rx_R in E1; [|exact Hs0|exact Hev].
    destruct (advance 64 cfg s1 (s_now s1 + settle_ms)) as [s2 o2] eqn:E2.
    apply advance_R in E2; [|eapply R_small; eauto].
    intros H; inj H. apply Fin. eapply R_trans; eauto.
  - destruct (advance 4096 cfg s0 (s_now s0 + ms)) as [s1 o1] eqn:E1.
    apply advance_R in E1; [|exact Hs0]. intros H; inj H. apply Fin. exact E1.
  - assert (P : forall s1 o1, match s_control s0 with
                              | CIdle => idle_loop 8 cfg s0
                              | _ => (upd_notify s0 true, [])
                              end = (s1, o1) -> R s0 o1 s1).
    { intros s1 o1. destruct (s_control s0).
      - apply idle_loop_R. exact Hs0.
      - intros E; inj E. apply R_upd_l with (s := upd_notify s0 true); [reflexivity|]. apply R_refl, small_upd_notify, Hs0.
      - intros E; inj E. apply R_upd_l with (s := upd_notify s0 true); [reflexivity|]. apply R_refl, small_upd_notify, Hs0. }
    destruct (match s_control s0 with CIdle => _ | _ => _ end) as [s1 o1] eqn:E1.
    specialize (P _ _ eq_refl).
    destruct (advance 64 cfg s1 (s_now s1 + settle_ms)) as [s2 o2] eqn:E2.
    apply advance_R in E2; [|eapply R_small; eauto].
    intros H; inj H. apply Fin. eapply R_trans; eauto.
  - intros H; inj H. split; [apply Tr_nil|]. destruct Hpd as [A B]. split; prj; auto.
  - intros H; inj H. split; [apply Tr_nil|]. destruct Hpd as [A B]. split; prj; auto.
  - set (s1 := upd_pending (upd_control (session_reset s0) CIdle) None).
    assert (Hs1 : small s1). { unfold s1, s0. split; [exact Hans|]. split; prj; auto. }
    destruct (idle_loop 8 cfg s1) as [s2 o2] eqn:E2. apply idle_loop_R in E2; [|exact Hs1].
    destruct (advance 64 cfg s2 (s_now s2 + settle_ms)) as [s3 o3] eqn:E3.
    apply advance_R in E3; [|eapply R_small; eauto].
    intros H; inj H. apply Fin. apply R_cons; [reflexivity|]. apply R_cons; [reflexivity|].
    apply R_upd_l with (s := s1); [reflexivity|]. eapply R_trans; eauto.
Qed.

Theorem ostart_tracked cfg sel op appiin ans s' o :
  Forall sm_ans ans -> ostart cfg sel op appiin ans = (s', o) ->
  tracked ans o (s_answers s') /\ small_pd s'.
Proof.
  intros Hans. unfold ostart. intros H. apply idle_loop_R in H.
  - destruct H as [A [B C]]. split; [exact A|exact C].
  - split; [exact Hans|]. split; cbn; exact I.
Qed.
