(* Outstation/Database.v — executable model of
     dnp3/src/outstation/database/details/database.rs  (Database = StaticDatabase + EventBuffer:
        update -> static update + event insert; write_response_headers: events first, static data
        only when every selected event fitted; reset; clear_written_events)
     dnp3/src/outstation/database/read.rs              (ReadHeader::get, restricted to the groups
        modelled in DbTypes.v: g1 g2 g3 g4 g10 g11 g20 g21 g22 g23 g30 g32 g40 g42 g60 g110 g111)
   Device attributes (group 0) are not modelled: no attribute is ever defined or selected, and
   `attrs.write` then reports `true`. *)
From Dnp3V Require Import Base.Bytes Outstation.DbTypes Outstation.EventBuffer Outstation.StaticDb.
Open Scope N_scope.

Record db := mkDb { db_static : sdb; db_events : ebuf }.

Definition db_new (max_read_selection : option N) (c0 : ptype -> bool) (cfg : ebcfg) : db :=
  mkDb (sdb_new max_read_selection c0) (ebuf_new cfg).

Definition db_add (d : db) (t : ptype) (i : N) (cfg : pconfig) : db * bool :=
  let '(s, ok) := sdb_add (db_static d) t i cfg in (mkDb s (db_events d), ok).
Definition db_remove (d : db) (t : ptype) (i : N) : db * bool :=
  let '(s, ok) := sdb_remove (db_static d) t i in (mkDb s (db_events d), ok).
Definition db_get (d : db) (t : ptype) (i : N) : option meas := sdb_get (db_static d) t i.

Inductive update_info :=
| UNoPoint
| UNoEvent
| UCreated (id : N)
| UOverflow (created discarded : N).

(* Database::update *)
Definition db_update (d : db) (t : ptype) (i : N) (v : meas) (update_static : bool) (mode : event_mode)
  : db * update_info :=
  let '(s, exists_, ev) := sdb_update (db_static d) t i v update_static mode in
  match ev with
  | Some (var, k) =>
    let '(e, r) := ebuf_insert (db_events d) i k t v var in
    (mkDb s e,
     match r with
     | InsOk id => UCreated id
     | InsTypeMaxIsZero => UNoEvent
     | InsOverflow c x => UOverflow c x
     end)
  | None => (mkDb s (db_events d), if exists_ then UNoEvent else UNoPoint)
  end.

(* Database::update_flags_by_type: current value with new flags and time *)
Definition db_update_flags (d : db) (t : ptype) (i : N) (flags : N) (time : option (bool * N))
           (update_static : bool) (mode : event_mode) : db * update_info :=
  match db_get d t i with
  | None => (d, UNoPoint)
  | Some m => db_update d t i (mkMeas (m_val m) flags time (m_oct m)) update_static mode
  end.

Inductive event_header :=
| EvClass (k : eclass) (lim : option N)
| EvType (t : ptype) (v : option evar) (lim : option N).

Inductive read_header :=
| RhStatic (h : static_header)
| RhEvent (h : event_header).

Definition ebuf_select_by_header (b : ebuf) (h : event_header) : ebuf * N :=
  match h with
  | EvClass k lim =>
    ebuf_select_by_class b (eclass_eqb k Class1) (eclass_eqb k Class2) (eclass_eqb k Class3) lim
  | EvType t v lim => ebuf_select_by_type b t v lim
  end.

(* Database::select_by_header: IIN2 *)
Definition db_select (d : db) (h : read_header) : db * N :=
  match h with
  | RhStatic s => let '(s', iin) := sdb_select (db_static d) s in (mkDb s' (db_events d), iin)
  | RhEvent e => let '(e', _) := ebuf_select_by_header (db_events d) e in (mkDb (db_static d) e', 0)
  end.

(* Database::select_event_classes (unsolicited responses) *)
Definition db_select_event_classes (d : db) (c1 c2 c3 : bool) : db * N :=
  let '(e, n) := ebuf_select_by_class (db_events d) c1 c2 c3 None in (mkDb (db_static d) e, n).

(* Database::write_response_headers: bytes, ResponseInfo.has_events, ResponseInfo.complete *)
Definition db_write_response (d : db) (budget : N) : db * (list N * bool * bool) :=
  let '(e, r) := ebuf_write_hdrs (db_events d) budget in
  let ebytes := ehdrs_bytes (wr_hdrs r) in
  let has_events := 0 <? wr_count r in
  if wr_complete r then
    let '(s, (out, _, c)) := sdb_write_hdrs (db_static d) (wr_rem r) in
    (mkDb s e, (ebytes ++ shdrs_bytes out, has_events, c))
  else (mkDb (db_static d) e, (ebytes, has_events, false)).

(* Database::write_events_only *)
Definition db_write_events_only (d : db) (budget : N) : db * (list N * N) :=
  let '(e, (bytes, n, _)) := ebuf_write (db_events d) budget in (mkDb (db_static d) e, (bytes, n)).

(* Database::clear_written_events: ids given to event_cleared, then BufferState *)
Definition db_clear_written (d : db) : db * (list N * counters) :=
  let '(e, ids) := ebuf_clear_written (db_events d) in (mkDb (db_static d) e, (ids, ebuf_state e)).

Definition db_reset (d : db) : db := mkDb (sdb_reset (db_static d)) (ebuf_reset (db_events d)).
Definition db_unwritten_classes (d : db) : bool * bool * bool := ebuf_unwritten_classes (db_events d).
Definition db_is_overflown (d : db) : bool := ebuf_is_overflown (db_events d).

(* ---------------------------------------------------------------------------------------------- *)
(* ReadHeader::get for the modelled groups *)

Inductive qualifier := QAll | QCount (n : N) | QRange (a b : N).

Definition static_group (g : N) : option ptype :=
  match g with
  | 1 => Some TBinary | 3 => Some TDoubleBit | 10 => Some TBos | 20 => Some TCounter
  | 21 => Some TFrozen | 30 => Some TAnalog | 40 => Some TAos | 110 => Some TOctet
  | _ => None
  end.
Definition event_group (g : N) : option ptype :=
  match g with
  | 2 => Some TBinary | 4 => Some TDoubleBit | 11 => Some TBos | 22 => Some TCounter
  | 23 => Some TFrozen | 32 => Some TAnalog | 42 => Some TAos | 111 => Some TOctet
  | _ => None
  end.

Definition all_svars : list svar :=
  [G1V1; G1V2; G3V1; G3V2; G10V1; G10V2; G20V1; G20V2; G20V5; G20V6;
   G21V1; G21V2; G21V5; G21V6; G21V9; G21V10; G30V1; G30V2; G30V3; G30V4; G30V5; G30V6;
   G40V1; G40V2; G40V3; G40V4].
Definition all_evars : list evar :=
  [G2V1; G2V2; G2V3; G4V1; G4V2; G4V3; G11V1; G11V2; G22V1; G22V2; G22V5; G22V6;
   G23V1; G23V2; G23V5; G23V6; G32V1; G32V2; G32V3; G32V4; G32V5; G32V6; G32V7; G32V8;
   G42V1; G42V2; G42V3; G42V4; G42V5; G42V6; G42V7; G42V8].

Definition svar_of (g v : N) : option svar :=
  find (fun x => (fst (svar_code x) =? g) && (snd (svar_code x) =? v)) all_svars.
Definition evar_of (g v : N) : option evar :=
  find (fun x => (fst (evar_code x) =? g) && (snd (evar_code x) =? v)) all_evars.

Definition read_header_of (g v : N) (q : qualifier) : option read_header :=
  if g =? 60 then
    match v, q with
    | 1, QAll => Some (RhStatic SelClass0)
    | 2, QAll => Some (RhEvent (EvClass Class1 None))
    | 3, QAll => Some (RhEvent (EvClass Class2 None))
    | 4, QAll => Some (RhEvent (EvClass Class3 None))
    | 2, QCount n => Some (RhEvent (EvClass Class1 (Some n)))
    | 3, QCount n => Some (RhEvent (EvClass Class2 (Some n)))
    | 4, QCount n => Some (RhEvent (EvClass Class3 (Some n)))
    | _, _ => None
    end
  else
    match static_group g, event_group g with
    | Some t, _ =>
      let var := if v =? 0 then Some None
                 else match t, svar_of g v with
                      | TOctet, _ => None
                      | _, Some x => Some (Some x)
                      | _, None => None
                      end in
      match var, q with
      | Some x, QAll => Some (RhStatic (SelType t x None))
      | Some x, QRange a b => Some (RhStatic (SelType t x (Some (a, b))))
      | _, _ => None
      end
    | None, Some t =>
      let var := if v =? 0 then Some None
                 else match t, evar_of g v with
                      | TOctet, _ => None
                      | _, Some x => Some (Some x)
                      | _, None => None
                      end in
      match var, q with
      | Some x, QAll => Some (RhEvent (EvType t x None))
      | Some x, QCount n => Some (RhEvent (EvType t x (Some n)))
      | _, _ => None
      end
    | None, None => None
    end.
