(* Outstation/DbTypes.v — data shared by the event buffer and static database models.

   Mirrors (by hand) the parts of
     dnp3/src/app/measurement.rs (measurement types, AnalogConversions::to_i16/to_i32/to_f32),
     dnp3/src/app/extensions.rs (WireFlags), dnp3/src/app/gen/conversion.rs (ToVariation),
     dnp3/src/app/variations.rs (FixedSize::write field orders),
     dnp3/src/outstation/database/config.rs (variation enums)
   that decide the BYTES of an object written by the outstation database.

   Modelled byte-exactly (checked against the implementation by the `db` engine):
     events  g2v1 g2v2 g2v3(+g51v1/g51v2 CTO)  g4v1 g4v2 g4v3(+CTO)  g11v1 g11v2
             g22v1 g22v2 g22v5 g22v6  g23v1 g23v2 g23v5 g23v6  g32v1..v8  g42v1..v8  g111vN
     static  g1v1 g1v2  g3v1 g3v2  g10v1 g10v2  g20v1 v2 v5 v6  g21v1 v2 v5 v6 v9 v10
             g30v1..v6  g40v1..v4  g110vN
   NOT modelled: g34 (analog dead-band objects), g0 (device attributes), frozen analogs (the code
   does not support them either), event detection with a NON-ZERO analog dead-band (f64 subtraction
   with rounding is not modelled: the generators keep the analog dead-band at 0.0, where the
   detector reduces to a comparison), f64 NaN payloads other than the sign/quiet bit/top payload
   bits rule of `as f32` on x86-64 / aarch64 (generators use the canonical NaN only).

   A measurement of any of the eight types is one record:
     m_val   bool as 0/1 | double-bit 0..3 | counter u32 | analog: the 64 bits of the f64
     m_flags the `Flags.value` octet           m_time  None | Some (synchronized?, raw u64 ms)
     m_oct   the octets (octet strings only)                                                   *)
From Dnp3V Require Import Base.Bytes.
Open Scope N_scope.

Inductive ptype := TBinary | TDoubleBit | TBos | TCounter | TFrozen | TAnalog | TAos | TOctet.
Inductive eclass := Class1 | Class2 | Class3.

Definition ptype_eqb (a b : ptype) : bool :=
  match a, b with
  | TBinary, TBinary | TDoubleBit, TDoubleBit | TBos, TBos | TCounter, TCounter
  | TFrozen, TFrozen | TAnalog, TAnalog | TAos, TAos | TOctet, TOctet => true
  | _, _ => false
  end.

Definition eclass_eqb (a b : eclass) : bool :=
  match a, b with
  | Class1, Class1 | Class2, Class2 | Class3, Class3 => true
  | _, _ => false
  end.

Lemma ptype_eqb_eq a b : ptype_eqb a b = true <-> a = b.
Proof. destruct a, b; cbn; split; intro H; try reflexivity; discriminate. Qed.

Lemma eclass_eqb_eq a b : eclass_eqb a b = true <-> a = b.
Proof. destruct a, b; cbn; split; intro H; try reflexivity; discriminate. Qed.

Lemma ptype_eqb_refl a : ptype_eqb a a = true.
Proof. destruct a; reflexivity. Qed.

Lemma eclass_eqb_refl a : eclass_eqb a a = true.
Proof. destruct a; reflexivity. Qed.

Definition all_ptypes : list ptype :=
  [TBinary; TDoubleBit; TBos; TCounter; TFrozen; TAnalog; TAos; TOctet].
Definition all_classes : list eclass := [Class1; Class2; Class3].

Record meas := mkMeas {
  m_val : N;
  m_flags : N;
  m_time : option (bool * N);
  m_oct : list N
}.

(* event variations (config.rs: Event*Variation; octet strings: g111 with the length as variation) *)
Inductive evar :=
| G2V1 | G2V2 | G2V3
| G4V1 | G4V2 | G4V3
| G11V1 | G11V2
| G22V1 | G22V2 | G22V5 | G22V6
| G23V1 | G23V2 | G23V5 | G23V6
| G32V1 | G32V2 | G32V3 | G32V4 | G32V5 | G32V6 | G32V7 | G32V8
| G42V1 | G42V2 | G42V3 | G42V4 | G42V5 | G42V6 | G42V7 | G42V8
| G111.

(* static variations (config.rs: Static*Variation; octet strings: g110 with the length as variation) *)
Inductive svar :=
| G1V1 | G1V2
| G3V1 | G3V2
| G10V1 | G10V2
| G20V1 | G20V2 | G20V5 | G20V6
| G21V1 | G21V2 | G21V5 | G21V6 | G21V9 | G21V10
| G30V1 | G30V2 | G30V3 | G30V4 | G30V5 | G30V6
| G40V1 | G40V2 | G40V3 | G40V4
| G110.

Definition evar_code (v : evar) : N * N :=
  match v with
  | G2V1 => (2, 1) | G2V2 => (2, 2) | G2V3 => (2, 3)
  | G4V1 => (4, 1) | G4V2 => (4, 2) | G4V3 => (4, 3)
  | G11V1 => (11, 1) | G11V2 => (11, 2)
  | G22V1 => (22, 1) | G22V2 => (22, 2) | G22V5 => (22, 5) | G22V6 => (22, 6)
  | G23V1 => (23, 1) | G23V2 => (23, 2) | G23V5 => (23, 5) | G23V6 => (23, 6)
  | G32V1 => (32, 1) | G32V2 => (32, 2) | G32V3 => (32, 3) | G32V4 => (32, 4)
  | G32V5 => (32, 5) | G32V6 => (32, 6) | G32V7 => (32, 7) | G32V8 => (32, 8)
  | G42V1 => (42, 1) | G42V2 => (42, 2) | G42V3 => (42, 3) | G42V4 => (42, 4)
  | G42V5 => (42, 5) | G42V6 => (42, 6) | G42V7 => (42, 7) | G42V8 => (42, 8)
  | G111 => (111, 0)
  end.

Definition svar_code (v : svar) : N * N :=
  match v with
  | G1V1 => (1, 1) | G1V2 => (1, 2)
  | G3V1 => (3, 1) | G3V2 => (3, 2)
  | G10V1 => (10, 1) | G10V2 => (10, 2)
  | G20V1 => (20, 1) | G20V2 => (20, 2) | G20V5 => (20, 5) | G20V6 => (20, 6)
  | G21V1 => (21, 1) | G21V2 => (21, 2) | G21V5 => (21, 5) | G21V6 => (21, 6)
  | G21V9 => (21, 9) | G21V10 => (21, 10)
  | G30V1 => (30, 1) | G30V2 => (30, 2) | G30V3 => (30, 3) | G30V4 => (30, 4)
  | G30V5 => (30, 5) | G30V6 => (30, 6)
  | G40V1 => (40, 1) | G40V2 => (40, 2) | G40V3 => (40, 3) | G40V4 => (40, 4)
  | G110 => (110, 0)
  end.

Definition evar_eqb (a b : evar) : bool :=
  (fst (evar_code a) =? fst (evar_code b)) && (snd (evar_code a) =? snd (evar_code b)).
Definition svar_eqb (a b : svar) : bool :=
  (fst (svar_code a) =? fst (svar_code b)) && (snd (svar_code a) =? snd (svar_code b)).

(* ---------------------------------------------------------------------------------------------- *)
(* little-endian integers *)

Fixpoint le_bytes (n : nat) (x : N) : list N :=
  match n with
  | O => []
  | S k => x mod 256 :: le_bytes k (x / 256)
  end.

Lemma le_bytes_length n x : length (le_bytes n x) = n.
Proof. revert x; induction n as [|n IH]; intro x; cbn [le_bytes length]; auto. Qed.

(* two's complement of a Z in n bytes *)
Definition le_bytes_z (n : nat) (z : Z) : list N :=
  le_bytes n (Z.to_N (z mod (2 ^ (8 * Z.of_nat n)))%Z).

(* ---------------------------------------------------------------------------------------------- *)
(* time *)

(* Time::from(Option<Time>): None => Unsynchronized(0) *)
Definition time_or_default (t : option (bool * N)) : bool * N :=
  match t with Some x => x | None => (false, 0) end.
Definition time_bytes (t : option (bool * N)) : list N := le_bytes 6 (snd (time_or_default t)).

(* ---------------------------------------------------------------------------------------------- *)
(* flags *)

Definition FLAG_ONLINE : N := 1.
Definition FLAG_OVER_RANGE : N := 32.

(* Flags::with_bits_set_to(BIT_7, value) *)
Definition bool_wire_flags (m : meas) : N :=
  (m_flags m) mod 128 + (if m_val m =? 0 then 0 else 128).
(* bit 7 := pair.high, bit 6 := pair.low; DoubleBit::to_byte = 2*high + low *)
Definition dbit_wire_flags (m : meas) : N :=
  (m_flags m) mod 64 + 64 * (m_val m mod 4).

Definition set_over_range (f : N) : N := N.lor f FLAG_OVER_RANGE.

(* ---------------------------------------------------------------------------------------------- *)
(* IEEE-754 binary64 on its bit pattern: just enough for `<`, `>` against exactly representable
   bounds, truncation to an integer (`as i16`, `as i32`) and rounding to binary32 (`as f32`) *)

Definition f64_sign (b : N) : bool := 2 ^ 63 <=? b mod 2 ^ 64.
Definition f64_exp (b : N) : N := (b / 2 ^ 52) mod 2048.
Definition f64_man (b : N) : N := b mod 2 ^ 52.
Definition f64_is_nan (b : N) : bool := (f64_exp b =? 2047) && negb (f64_man b =? 0).
Definition f64_is_inf (b : N) : bool := (f64_exp b =? 2047) && (f64_man b =? 0).

(* a finite f64 is  (-1)^sign * fm * 2^fe *)
Definition f64_fm (b : N) : N := if f64_exp b =? 0 then f64_man b else f64_man b + 2 ^ 52.
Definition f64_fe (b : N) : Z := (if f64_exp b =? 0 then 1 else Z.of_N (f64_exp b)) - 1075.
Definition f64_sm (b : N) : Z := if f64_sign b then (- Z.of_N (f64_fm b))%Z else Z.of_N (f64_fm b).

(* compare  a * 2^ea  with  c * 2^ec  exactly *)
Definition scaled_compare (a : Z) (ea : Z) (c : Z) (ec : Z) : comparison :=
  let e := Z.min ea ec in
  Z.compare (a * 2 ^ (ea - e))%Z (c * 2 ^ (ec - e))%Z.

(* value of b  <  c * 2^ec   (false for NaN, as every comparison with NaN) *)
Definition f64_lt (b : N) (c : Z) (ec : Z) : bool :=
  if f64_is_nan b then false
  else if f64_is_inf b then f64_sign b
  else match scaled_compare (f64_sm b) (f64_fe b) c ec with Lt => true | _ => false end.
Definition f64_gt (b : N) (c : Z) (ec : Z) : bool :=
  if f64_is_nan b then false
  else if f64_is_inf b then negb (f64_sign b)
  else match scaled_compare (f64_sm b) (f64_fe b) c ec with Gt => true | _ => false end.

(* truncation toward zero of a finite value; NaN => 0 (Rust `as`); only used in range *)
Definition f64_trunc (b : N) : Z :=
  if f64_is_nan b then 0%Z
  else
    let m := f64_fm b in
    let e := f64_fe b in
    let a := if (0 <=? e)%Z then (m * 2 ^ Z.to_N e) else m / 2 ^ Z.to_N (- e) in
    if f64_sign b then (- Z.of_N a)%Z else Z.of_N a.

(* AnalogConversions::to_i16 / to_i32: (flags, value) *)
Definition analog_to_int (bits : Z) (m : meas) : N * Z :=
  let lo := (- 2 ^ (bits - 1))%Z in
  let hi := (2 ^ (bits - 1) - 1)%Z in
  if f64_lt (m_val m) lo 0 then (set_over_range (m_flags m), lo)
  else if f64_gt (m_val m) hi 0 then (set_over_range (m_flags m), hi)
  else (m_flags m, f64_trunc (m_val m)).

(* f32::MAX = (2^24 - 1) * 2^104 *)
Definition F32_MAX_M : Z := (2 ^ 24 - 1)%Z.
Definition F32_MAX_E : Z := 104%Z.
Definition F32_MAX_BITS : N := 2139095039.   (* 0x7F7FFFFF *)
Definition F32_MIN_BITS : N := 4286578687.   (* 0xFF7FFFFF *)

(* `x as f32` for a finite |x| <= f32::MAX, infinities excluded by the caller; round to nearest even *)
Definition f64_to_f32_bits (b : N) : N :=
  let s := if f64_sign b then 2 ^ 31 else 0 in
  if f64_is_nan b then s + 2139095040 + N.lor 4194304 (f64_man b / 2 ^ 29)
  else if f64_is_inf b then s + 2139095040
  else
    let m := f64_fm b in
    if m =? 0 then s
    else
      let e := f64_fe b in
      let top := (e + Z.of_N (N.size m) - 1)%Z in          (* exponent of the leading bit *)
      let q := Z.max (top - 23) (-149) in                  (* exponent of the f32 unit in the last place *)
      let m0 :=
        if (q <=? e)%Z then m * 2 ^ Z.to_N (e - q)
        else
          let sh := Z.to_N (q - e) in
          let d := m / 2 ^ sh in
          let r := m mod 2 ^ sh in
          let half := 2 ^ (sh - 1) in
          if (half <? r) || ((r =? half) && N.odd d) then d + 1 else d in
      s + Z.to_N (q + 149) * 2 ^ 23 + m0.

(* AnalogConversions::to_f32: (flags, f32 bits) *)
Definition analog_to_f32 (m : meas) : N * N :=
  if f64_lt (m_val m) (- F32_MAX_M) F32_MAX_E then (set_over_range (m_flags m), F32_MIN_BITS)
  else if f64_gt (m_val m) F32_MAX_M F32_MAX_E then (set_over_range (m_flags m), F32_MAX_BITS)
  else (m_flags m, f64_to_f32_bits (m_val m)).

(* numerically different, both not NaN: `diff > 0.0` of Deadband<f64>::exceeded with deadband 0 *)
Definition f64_differs (a b : N) : bool :=
  if f64_is_nan a || f64_is_nan b then false
  else if (f64_fm a =? 0) && (f64_fm b =? 0) && negb (f64_exp a =? 2047) && negb (f64_exp b =? 2047)
  then false                                              (* +0.0 and -0.0 *)
  else negb (a mod 2 ^ 64 =? b mod 2 ^ 64).

(* ---------------------------------------------------------------------------------------------- *)
(* object bodies *)

Definition int_obj (with_flags : bool) (bits : Z) (m : meas) : list N :=
  let '(f, v) := analog_to_int bits m in
  (if with_flags then [f] else []) ++ le_bytes_z (Z.to_nat (bits / 8)) v.
Definition f32_obj (m : meas) : list N :=
  let '(f, v) := analog_to_f32 m in f :: le_bytes 4 v.
Definition f64_obj (m : meas) : list N := m_flags m :: le_bytes 8 (m_val m).

(* u32 `as u16` truncates *)
Definition ctr_obj (with_flags : bool) (bytes : nat) (m : meas) : list N :=
  (if with_flags then [m_flags m] else []) ++ le_bytes bytes (m_val m).

(* body of an event object after the index prefix; `rel` = time relative to the CTO (g2v3/g4v3) *)
Definition event_obj (v : evar) (m : meas) (rel : N) : list N :=
  match v with
  | G2V1 | G11V1 => [bool_wire_flags m]
  | G2V2 | G11V2 => bool_wire_flags m :: time_bytes (m_time m)
  | G2V3 => bool_wire_flags m :: le_bytes 2 rel
  | G4V1 => [dbit_wire_flags m]
  | G4V2 => dbit_wire_flags m :: time_bytes (m_time m)
  | G4V3 => dbit_wire_flags m :: le_bytes 2 rel
  | G22V1 | G23V1 => ctr_obj true 4 m
  | G22V2 | G23V2 => ctr_obj true 2 m
  | G22V5 | G23V5 => ctr_obj true 4 m ++ time_bytes (m_time m)
  | G22V6 | G23V6 => ctr_obj true 2 m ++ time_bytes (m_time m)
  | G32V1 | G42V1 => int_obj true 32 m
  | G32V2 | G42V2 => int_obj true 16 m
  | G32V3 | G42V3 => int_obj true 32 m ++ time_bytes (m_time m)
  | G32V4 | G42V4 => int_obj true 16 m ++ time_bytes (m_time m)
  | G32V5 | G42V5 => f32_obj m
  | G32V6 | G42V6 => f64_obj m
  | G32V7 | G42V7 => f32_obj m ++ time_bytes (m_time m)
  | G32V8 | G42V8 => f64_obj m ++ time_bytes (m_time m)
  | G111 => m_oct m
  end.

Definition evar_uses_cto (v : evar) : bool :=
  match v with G2V3 | G4V3 => true | _ => false end.

(* (group, variation) octets of an event header *)
Definition evar_gv (v : evar) (m : meas) : N * N :=
  match v with
  | G111 => (111, N.of_nat (length (m_oct m)) mod 256)
  | _ => evar_code v
  end.

(* static: how one point is written *)
Inductive sbody :=
| SFixed (bytes : list N)          (* WriteType::Fixed *)
| SBit (b : bool)                  (* WriteType::Bits: packed, 8 per octet *)
| SDbit (d : N).                   (* WriteType::DoubleBits: packed, 4 per octet *)

(* StaticVariation::promote: g1v1 / g3v1 / g10v1 only carry a state; anything but ONLINE needs flags *)
Definition svar_promote (v : svar) (m : meas) : svar :=
  match v with
  | G1V1 => if (m_flags m) mod 128 =? FLAG_ONLINE then G1V1 else G1V2
  | G10V1 => if (m_flags m) mod 128 =? FLAG_ONLINE then G10V1 else G10V2
  | G3V1 => if (m_flags m) mod 64 =? FLAG_ONLINE then G3V1 else G3V2
  | _ => v
  end.

Definition static_body (v : svar) (m : meas) : sbody :=
  match v with
  | G1V1 | G10V1 => SBit (negb (m_val m =? 0))
  | G3V1 => SDbit (m_val m mod 4)
  | G1V2 | G10V2 => SFixed [bool_wire_flags m]
  | G3V2 => SFixed [dbit_wire_flags m]
  | G20V1 | G21V1 => SFixed (ctr_obj true 4 m)
  | G20V2 | G21V2 => SFixed (ctr_obj true 2 m)
  | G20V5 | G21V9 => SFixed (ctr_obj false 4 m)
  | G20V6 | G21V10 => SFixed (ctr_obj false 2 m)
  | G21V5 => SFixed (ctr_obj true 4 m ++ time_bytes (m_time m))
  | G21V6 => SFixed (ctr_obj true 2 m ++ time_bytes (m_time m))
  | G30V1 | G40V1 => SFixed (int_obj true 32 m)
  | G30V2 | G40V2 => SFixed (int_obj true 16 m)
  | G30V3 => SFixed (int_obj false 32 m)
  | G30V4 => SFixed (int_obj false 16 m)
  | G30V5 | G40V3 => SFixed (f32_obj m)
  | G30V6 | G40V4 => SFixed (f64_obj m)
  | G110 => SFixed (m_oct m)
  end.

Definition svar_gv (v : svar) (m : meas) : N * N :=
  match v with
  | G110 => (110, N.of_nat (length (m_oct m)) mod 256)
  | _ => svar_code v
  end.

(* defaults: Flags::RESTART, value 0, Time::unsynchronized(0); OctetString [0] *)
Definition FLAG_RESTART : N := 2.
Definition default_meas (t : ptype) : meas :=
  match t with
  | TOctet => mkMeas 0 0 None [0]
  | TDoubleBit => mkMeas 3 FLAG_RESTART (Some (false, 0)) []
  | _ => mkMeas 0 FLAG_RESTART (Some (false, 0)) []
  end.
