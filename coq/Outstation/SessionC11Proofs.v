(* Outstation/SessionC11Proofs.v — property C11 over the session model: the response to a READ goes
   out as an orderly series of fragments.

     1. first_fragment, first_fragment_deferred   the first fragment: FIR, the request's sequence number, FIN iff
                                                  the database said `complete`, CON iff not FIN / events / a
                                                  confirm-mandatory broadcast to report; wait entered iff CON
     2. next_fragment_after_confirm, fir_clear_only_in_series
                                                  in the solicited confirm wait the next fragment is sent for
                                                  the expected CONFIRM and for nothing else
     3. series_orderly                            the whole history is accepted by the series monitor
     4. deadline_*, sol_timeout_at_deadline       the confirm timeout runs per fragment
   Statements quantify over every configuration, every history of events and every answer of the
   environment; `ev_cons` (the digest of a received fragment carries the function code found in its
   bytes - the digest is made from the bytes by the real parser) is the only hypothesis on events. *)
From Dnp3V Require Import Outstation.Session Outstation.SessionLemmas_c05 Outstation.SessionLemmas_c11.
Import ListNotations.
Open Scope N_scope.

(* ---------- histories ------------------------------------------------------------------------------------- *)

(* the states reachable from start-up, with the history that leads to them: any configuration, any
   events, any answers of the environment *)
Inductive Trace (cfg : ocfg) : ostate -> list item -> Prop :=
| Tr_start : forall sel op iin a s o, ostart cfg sel op iin a = (s, o) -> Trace cfg s (map IOb o)
| Tr_step : forall s tr ev a s' o,
    Trace cfg s tr -> ev_cons ev -> ostep cfg s ev a = (s', o) ->
    Trace cfg s' (tr ++ IEv (s_now s) ev :: map IOb o).

Definition Reach (cfg : ocfg) (s : ostate) : Prop := exists tr, Trace cfg s tr.

(* the monitor of Outstation/SessionLemmas_c11.v, retransmissions of the awaited fragment allowed *)
Definition series_mon (cfg : ocfg) : mst -> item -> option mst := mon cfg false.
Definition series_run (cfg : ocfg) : mst -> list item -> mres := mrun cfg false.
Definition m0 : mst := {| m_ph := PIdle; m_cur := None; m_clock := 0 |}.

(* ---------- 3. the shape of the solicited responses over a whole history -------------------------------- *)

(* THEOREM 3.  Every history of the session is accepted by the series monitor (or the model ran out of
   fuel: Dead), and the monitor is where the session is (GoodB: phase POpen q fin dl exactly in the
   solicited confirm wait for sequence number q, FIN flag fin, deadline dl).  What acceptance means,
   transition by transition (mon_ob / mon_tx in SessionLemmas_c11.v):
     - a solicited response (function 129) never has UNS, and has CON unless it has FIN;
     - outside a series only fragments with FIR are transmitted (PIdle / PSent: FIR clear is rejected);
     - a series is open (POpen) from the IEnterSolWait that follows a fragment with CON, or from a
       non-final next fragment, until ISolConfirmed / ISolNewRequest / ISolTimeout / OSessionEnd;
     - while it is open the only solicited transmission is the awaited fragment again (same sequence
       number, FIN and CON), which restarts the confirm timer;
     - ISolConfirmed q needs the event being processed to be a solicited CONFIRM with sequence number q
       from a master the session listens to, unicast (confirm_of), and consumes it: one confirm, one
       fragment;
     - after the confirm of a non-final fragment (PConf) nothing but the database calls of the next
       fragment is observed, no event arrives, and the next transmission is the next fragment: FIR
       clear, sequence number q+1 mod 16, to the master that confirmed;
     - ISolTimeout only in an open series, with its sequence number, at or after the deadline that is
       o_confirm_ms after the last (re)transmission of the awaited fragment. *)
Theorem series_orderly : forall cfg s tr,
  Trace cfg s tr ->
  series_run cfg m0 tr = Dead \/ exists m, series_run cfg m0 tr = Live m /\ GoodB s m.
Proof.
  unfold series_run. induction 1 as [sel op iin a s o H|s tr ev a s' o Ht IH Hev H].
  - rewrite mrun_obs. pose proof (ostart_good cfg false sel op iin a s o m0 H eq_refl eq_refl) as W.
    unfold okrun in W. destruct (obrun false (o_confirm_ms cfg) m0 o) as [| |m]; [contradiction|left; reflexivity|].
    right. exists m. split; [reflexivity|apply Good_B; exact W].
  - rewrite mrun_app. destruct IH as [-> |(m & -> & HB)]; [left; reflexivity|].
    pose proof (relp_nconf _ _ (proj2 HB)) as Hnc.
    set (m1 := {| m_ph := m_ph m; m_cur := confirm_of cfg ev; m_clock := s_now s |}).
    assert (Hm1 : mon cfg false m (IEv (s_now s) ev) = Some m1).
    { cbn [mon]. subst m1. destruct (m_ph m); try reflexivity. contradiction. }
    cbn [mrun]. rewrite Hm1, mrun_obs.
    assert (HG1 : Good s m1) by (apply GoodB_Good; [exact HB|reflexivity]).
    pose proof (ostep_good cfg false s ev a s' o m1 H Hev HG1 (fun _ => eq_refl) ltac:(discriminate)) as W.
    unfold okrun in W. destruct (obrun false (o_confirm_ms cfg) m1 o) as [| |m2]; [contradiction|left; reflexivity|].
    right. exists m2. split; [reflexivity|exact W].
Qed.

Corollary series_never_bad : forall cfg s tr, Trace cfg s tr -> series_run cfg m0 tr <> Bad.
Proof.
  intros cfg s tr Ht. destruct (series_orderly cfg s tr Ht) as [-> |(m & -> & _)]; discriminate.
Qed.

(* the invariants behind it, for every reachable state *)
Theorem reach_invariants : forall cfg s tr,
  Trace cfg s tr -> series_run cfg m0 tr <> Dead -> G s.
Proof.
  intros cfg s tr Ht Hd. destruct (series_orderly cfg s tr Ht) as [E|(m & _ & HB)]; [contradiction|apply HB].
Qed.

(* the monitor's deadline is the session's: the confirm timeout runs from the last transmission of
   the fragment that is awaiting its confirm (per fragment, not per series) *)
Corollary deadline_is_per_fragment : forall cfg s tr m se dl r,
  Trace cfg s tr -> series_run cfg m0 tr = Live m -> s_control s = CSolWait se dl r ->
  m_ph m = POpen (se_ecsn se) (se_fin se) dl.
Proof.
  intros cfg s tr m se dl r Ht Hm Hc. destruct (series_orderly cfg s tr Ht) as [E|(m' & E & [_ HB])]; [congruence|].
  assert (m' = m) by congruence. subst m'. unfold relp in HB. rewrite Hc in HB. exact HB.
Qed.

(* ---------- histories by computation --------------------------------------------------------------------- *)

Fixpoint trace_from (cfg : ocfg) (s : ostate) (evs : list (oevent * list answer)) : ostate * list item :=
  match evs with
  | [] => (s, [])
  | (ev, a) :: r =>
      let '(s1, o) := ostep cfg s ev a in
      let '(s2, tr) := trace_from cfg s1 r in
      (s2, IEv (s_now s) ev :: map IOb o ++ tr)
  end.

Definition trace_of (cfg : ocfg) (sel op iin : N) (a : list answer) (evs : list (oevent * list answer))
  : ostate * list item :=
  let '(s0, o0) := ostart cfg sel op iin a in
  let '(s1, tr) := trace_from cfg s0 evs in (s1, map IOb o0 ++ tr).

Lemma trace_from_Trace : forall cfg evs s tr,
  Trace cfg s tr -> Forall (fun p => ev_cons (fst p)) evs ->
  Trace cfg (fst (trace_from cfg s evs)) (tr ++ snd (trace_from cfg s evs)).
Proof.
  induction evs as [|[ev a] r IH]; intros s tr Ht Hok; cbn [trace_from].
  - cbn [fst snd]. rewrite app_nil_r. exact Ht.
  - inversion Hok as [|x y Hx Hy]; subst. cbn [fst] in Hx.
    destruct (ostep cfg s ev a) as [s1 o] eqn:E.
    pose proof (Tr_step cfg s tr ev a s1 o Ht Hx E) as Ht1.
    specialize (IH s1 _ Ht1 Hy). destruct (trace_from cfg s1 r) as [s2 tr2]. cbn [fst snd] in *.
    rewrite <- app_assoc in IH. cbn [app] in IH. exact IH.
Qed.

Theorem trace_of_Trace : forall cfg sel op iin a evs,
  Forall (fun p => ev_cons (fst p)) evs ->
  Trace cfg (fst (trace_of cfg sel op iin a evs)) (snd (trace_of cfg sel op iin a evs)).
Proof.
  intros cfg sel op iin a evs Hok. unfold trace_of.
  destruct (ostart cfg sel op iin a) as [s0 o0] eqn:E.
  pose proof (Tr_start cfg sel op iin a s0 o0 E) as Ht.
  pose proof (trace_from_Trace cfg evs s0 _ Ht Hok) as H.
  destruct (trace_from cfg s0 evs) as [s1 tr]. exact H.
Qed.

(* the same over `orun` from `ostart`: the observations of a run, event by event *)
Corollary series_orderly_run : forall cfg sel op iin a evs,
  Forall (fun p => ev_cons (fst p)) evs ->
  series_run cfg m0 (snd (trace_of cfg sel op iin a evs)) <> Bad.
Proof. intros. eapply series_never_bad. apply trace_of_Trace. assumption. Qed.

Lemma trace_from_orun : forall cfg evs s,
  concat (map (fun it => match it with IOb o => [o] | IEv _ _ => [] end) (snd (trace_from cfg s evs)))
  = concat (orun cfg s evs).
Proof.
  induction evs as [|[ev a] r IH]; intros s; cbn [trace_from orun]; [reflexivity|].
  destruct (ostep cfg s ev a) as [s1 o] eqn:E. specialize (IH s1).
  destruct (trace_from cfg s1 r) as [s2 tr]. cbn [snd map concat app] in *.
  rewrite map_app, concat_app, IH. f_equal.
  clear. induction o as [|x o IH]; [reflexivity|]. cbn [map concat app]. rewrite IH. reflexivity.
Qed.

(* ---------- concrete histories for the non-vacuity examples ----------------------------------------------- *)

Definition ex_cfg : ocfg :=
  {| o_master := 1; o_any_master := false; o_unsol := false; o_broadcast := true; o_confirm_ms := 5000;
     o_select_ms := 5000; o_retries := None; o_retry_delay_ms := 1000; o_max_controls := None; o_sol_tx := 249;
     o_delay_ms := 0; o_cold := None; o_warm := None; o_wtime := 0; o_freeze := 0 |}.

(* READ class 0 (g60v1, all objects), sequence q, from master 1 *)
Definition ex_read (q : N) : oevent :=
  ERx 1 None [192 + q; 1; 60; 1; 6] (DOk (192 + q) 1 RvOk (ObjOk [WOther] [true])).
Definition ex_confirm (q : N) : oevent := ERx 1 None [192 + q; 0] (DOk (192 + q) 0 RvOk (ObjOk [] [])).
Definition ex_record_time (q : N) : oevent := ERx 1 None [192 + q; 24] (DOk (192 + q) 24 RvOk (ObjOk [] [])).
Definition ex_ev : answer := AEvinfo false false false false.

(* a READ answered in three fragments (sequence numbers 1, 2, 3), the READ repeated while the second
   awaits its confirm; then a READ whose second fragment is never confirmed (timeout); then a READ
   whose series is cut short by a wrong confirm followed by another request *)
Definition ex_hist : list (oevent * list answer) :=
  [ (ex_read 1, [AIin2 0; AWrite false false [1; 2; 0; 0; 1; 129; 129]; ex_ev]);
    (ex_confirm 1, [AWrite false false [30; 2; 0; 5; 5; 1; 7; 0]; ex_ev]);
    (ex_read 1, []);
    (ex_confirm 2, [AWrite true false [10; 2; 0; 0; 0; 1]; ex_ev]);
    (ex_confirm 3, []);
    (ex_read 4, [AIin2 0; AWrite false false [1; 2; 0; 0; 0; 129]; ex_ev]);
    (ex_confirm 4, [AWrite false false [1; 2; 0; 1; 1; 129]; ex_ev]);
    (ESleep 6000, []);
    (ex_read 9, [AIin2 0; AWrite false true [2; 1; 23; 1; 0; 129]; ex_ev]);
    (ex_confirm 8, []);
    (ex_record_time 10, [ex_ev]) ].

Lemma ex_hist_cons : Forall (fun p => ev_cons (fst p)) ex_hist.
Proof. repeat constructor. Qed.

Definition ex_trace : list item := snd (trace_of ex_cfg 0 0 0 [] ex_hist).

(* the fragments transmitted, as (destination, control octet, function code, body) *)
Definition tx_of (it : item) : list (N * N * N * list N) :=
  match it with IOb (OTx d b) => [(d, nth 0 b 0, nth 1 b 0, skipn 4 b)] | _ => [] end.

Example ex_fragments :
  concat (map tx_of ex_trace) =
  [ (1, 161, 129, [1; 2; 0; 0; 1; 129; 129]);      (* FIR CON seq 1 *)
    (1, 34, 129, [30; 2; 0; 5; 5; 1; 7; 0]);       (* CON seq 2, after the confirm of 1 *)
    (1, 34, 129, [30; 2; 0; 5; 5; 1; 7; 0]);       (* the same again for the repeated READ *)
    (1, 67, 129, [10; 2; 0; 0; 0; 1]);             (* FIN seq 3, after the confirm of 2 *)
    (1, 164, 129, [1; 2; 0; 0; 0; 129]);           (* second series: FIR CON seq 4 *)
    (1, 37, 129, [1; 2; 0; 1; 1; 129]);            (* CON seq 5; never confirmed: the rest is never sent *)
    (1, 169, 129, [2; 1; 23; 1; 0; 129]);          (* third series: FIR CON seq 9 *)
    (1, 202, 129, []) ].                           (* the answer to the request that cut it short *)
Proof. vm_compute. reflexivity. Qed.

Example ex_series_orderly :
  Trace ex_cfg (fst (trace_of ex_cfg 0 0 0 [] ex_hist)) ex_trace /\
  series_run ex_cfg m0 ex_trace = Live {| m_ph := PSent 202; m_cur := None; m_clock := 6009 |}.
Proof. split; [apply trace_of_Trace; exact ex_hist_cons|vm_compute; reflexivity]. Qed.

(* the monitor does reject disorder: the second fragment without the confirm of the first *)
Example ex_monitor_rejects :
  series_run ex_cfg m0 [IOb (OTx 1 [161; 129; 0; 0]); IOb (OInfo (IEnterSolWait 1)); IOb (OTx 1 [34; 129; 0; 0])] = Bad
  /\ series_run ex_cfg m0 [IOb (OTx 1 [161; 129; 0; 0]); IOb (OInfo (IEnterSolWait 1));
                           IEv 0 (ex_confirm 1); IOb (OInfo (ISolConfirmed 1)); IOb (ODb DbClearWritten);
                           IOb (ODb DbWrite); IOb (ODb DbEvinfo); IOb (OTx 1 [35; 129; 0; 0])] = Bad
  /\ series_run ex_cfg m0 [IOb (OTx 1 [161; 129; 0; 0]); IOb (OInfo (IEnterSolWait 1));
                           IEv 0 (ex_confirm 1); IOb (OInfo (ISolConfirmed 1)); IOb (ODb DbClearWritten);
                           IOb (ODb DbWrite); IOb (ODb DbEvinfo); IOb (OTx 1 [34; 129; 0; 0])]
     = Live {| m_ph := POpen 2 false 5000; m_cur := None; m_clock := 0 |}.
Proof. vm_compute. auto. Qed.

(* ---------- 2. the next fragment only after its confirm ------------------------------------------------- *)

Lemma no_clear_in cms m o (P : mst -> Prop) dest b :
  okrun true cms m o P -> m_cur m = None -> nconf (m_ph m) -> ~ In OOutOfFuel o ->
  In (OTx dest b) o -> nth 1 b 0 = 129 -> c_fir (nth 0 b 0) = false -> False.
Proof.
  intros H Hc Hp Hf Hin Hfn Hfir.
  assert (HF : Forall sol_tx_fir o) by (apply (obrun_strict_fir cms o m); auto; eapply okrun_not_bad; eauto).
  rewrite Forall_forall in HF. specialize (HF _ Hin Hfn). cbn in HF. congruence.
Qed.

Definition no_cur (m : mst) : mst := {| m_ph := m_ph m; m_cur := None; m_clock := m_clock m |}.

Lemma not_in_app_l {A} (x : A) a b : ~ In x (a ++ b) -> ~ In x a.
Proof. intros H X. apply H. apply in_or_app. auto. Qed.
Lemma not_in_app_r {A} (x : A) a b : ~ In x (a ++ b) -> ~ In x b.
Proof. intros H X. apply H. apply in_or_app. auto. Qed.

(* THEOREM 2a.  Outside the solicited confirm wait (idle, or waiting for an unsolicited confirm) a
   step transmits no solicited response without FIR, whatever the event and the answers. *)
Theorem fir_outside_series : forall cfg s ev ans s' o,
  G s -> nwait s -> ev_cons ev -> ostep cfg s ev ans = (s', o) -> ~ In OOutOfFuel o ->
  Forall sol_tx_fir o.
Proof.
  intros cfg s ev ans s' o HG Hn Hev H Hf.
  set (m := {| m_ph := PIdle; m_cur := None; m_clock := s_now s |}).
  assert (HGm : Good s m).
  { split; [exact HG|]. split; [reflexivity|]. unfold nwait in Hn. destruct (s_control s); try exact I. contradiction. }
  pose proof (ostep_good cfg true s ev ans s' o m H Hev HGm (fun X => match X Hn with end) (fun _ => Hn)) as W.
  apply (obrun_strict_fir (o_confirm_ms cfg) o m); [reflexivity|exact I|eapply okrun_not_bad; exact W|exact Hf].
Qed.

(* THEOREM 2b.  In the solicited confirm wait for fragment `se`, a step transmits a solicited response
   without FIR only in two cases:
     - the event is the expected CONFIRM (solicited, sequence number se_ecsn se, unicast, from a master
       the session listens to) of a non-final fragment: the fragment transmitted is the next one of
       the series - sequence number se_ecsn se + 1 mod 16, sent to the master that confirmed;
     - the event is a repeat of the READ being answered: the fragment is the remembered one, i.e. the
       fragment awaiting its confirm, again.
   A wrong or unsolicited confirm, a timeout, a new request, a broadcast, a foreign master, a
   disconnect, a database change transmit nothing without FIR. *)
Theorem next_fragment_only_after_confirm : forall cfg s ev ans s' o se dl r dest b,
  G s -> ev_cons ev -> s_control s = CSolWait se dl r ->
  ostep cfg s ev ans = (s', o) -> ~ In OOutOfFuel o ->
  In (OTx dest b) o -> nth 1 b 0 = 129 -> c_fir (nth 0 b 0) = false ->
  exists from bc bytes d, ev = ERx from bc bytes d /\
    ((confirm_of cfg ev = Some (se_ecsn se, dest) /\ se_fin se = false /\
      ctl_seq (nth 0 b 0) = seq16_next (se_ecsn se) /\ tx_bits_ok (nth 0 b 0) = true)
     \/
     (exists ctl fn obj hdrs rh l r0,
        to_treq cfg from d = TqRequest ctl fn obj /\
        classify s bc bytes ctl fn obj = FtRepeatRead (Some r0) hdrs rh /\
        s_last s = Some l /\ lr_response l = Some r0 /\ ctl_seq (r_ctl r0) = se_ecsn se /\
        dest = from /\ b = response_bytes r0 (s_sol_buf s))).
Proof.
  intros cfg s ev ans s' o se dl r dest b HG Hev Hc H Hf Hin Hfn Hfir.
  set (cms := o_confirm_ms cfg).
  set (m := {| m_ph := POpen (se_ecsn se) (se_fin se) dl; m_cur := confirm_of cfg ev; m_clock := s_now s |}).
  assert (HGm : Good s m).
  { split; [exact HG|]. split; [reflexivity|]. rewrite Hc. reflexivity. }
  unfold ostep in H. set (s0 := upd_answers s ans) in *.
  assert (HG0 : Good s0 m) by (eapply Good_same; [..|exact HGm]; reflexivity).
  assert (Hc0 : s_control s0 = CSolWait se dl r) by exact Hc.
  (* a tail produced from a state the monitor agrees with transmits no fragment without FIR *)
  assert (Hadv : forall f s1 m1 tgt s2 o2, Good s1 m1 -> advance f cfg s1 tgt = (s2, o2) -> ~ In OOutOfFuel o2 ->
                 In (OTx dest b) o2 -> False).
  { intros f s1 m1 tgt s2 o2 HG1 E2 Hf2 Hin2.
    pose proof (advance_good cfg true f s1 tgt s2 o2 (no_cur m1) E2 HG1) as W.
    eapply no_clear_in; [exact W|reflexivity|exact (Good_nconf _ _ HG1)|exact Hf2|exact Hin2|exact Hfn|exact Hfir]. }
  destruct ev as [from bc bytes d|ms| |sel op|v|].
  - destruct (on_rx cfg s0 from bc bytes d) as [s1 o1] eqn:E1.
    destruct (advance 64 cfg s1 (s_now s1 + settle_ms)) as [s2 o2] eqn:E2. inv_pair H.
    exists from, bc, bytes, d. split; [reflexivity|].
    pose proof (on_rx_good cfg false s0 from bc bytes d s1 o1 m E1 Hev HG0 (fun _ => eq_refl) ltac:(discriminate)) as W1.
    destruct (okrun_live _ _ _ _ _ W1 (not_in_app_l _ _ _ Hf)) as (m1 & _ & HG1).
    apply in_app_or in Hin as [Hin|Hin]; [|exfalso; eapply Hadv; eauto using not_in_app_r].
    destruct (sol_wait_rx cfg s0 from bc bytes d s1 o1 m se dl r E1 Hc0 Hev HG0 eq_refl)
      as (o_w & o_t & s_i & m_i & -> & Hw & HGi & Ht & Hwtx & Hnf).
    apply in_app_or in Hin as [Hin|Hin].
    + destruct (Hwtx dest b Hin) as [(A1 & A2 & A3 & A4 & A5 & A6)|B]; [left; auto|right; exact B].
    + exfalso. destruct Ht as [[_ ->]|(stg & Hci & Er)]; [exact Hin|].
      pose proof (resume_at_good cfg true stg s_i s1 o_t (no_cur m_i) Er Hci HGi) as W.
      eapply no_clear_in; [exact W|reflexivity|exact (Good_nconf _ _ HGi)| |exact Hin|exact Hfn|exact Hfir].
      apply (not_in_app_r _ o_w). apply (not_in_app_l _ _ o2). exact Hf.
  - exfalso. destruct (advance 4096 cfg s0 (s_now s0 + ms)) as [sa oa] eqn:Ea. inv_pair H. eapply Hadv; eauto.
  - exfalso. change (s_control s0) with (s_control s) in H. rewrite Hc in H.
    destruct (advance 64 cfg (upd_notify s0 true) (s_now (upd_notify s0 true) + settle_ms)) as [s2 o2] eqn:E2.
    inv_pair H. cbn [app] in *. eapply (Hadv _ (upd_notify s0 true) m); eauto.
  - exfalso. inv_pair H. exact Hin.
  - exfalso. inv_pair H. exact Hin.
  - exfalso.
    set (s1 := upd_pending (upd_control (session_reset s0) CIdle) None) in *.
    destruct (idle_loop 8 cfg s1) as [s2 o2] eqn:E2.
    destruct (advance 64 cfg s2 (s_now s2 + settle_ms)) as [s3 o3] eqn:E3. inv_pair H.
    destruct Hin as [X|[X|Hin]]; try discriminate X.
    assert (Hf' : ~ In OOutOfFuel (o2 ++ o3)) by (intros X; apply Hf; right; right; exact X).
    set (mi := {| m_ph := PIdle; m_cur := None; m_clock := s_now s |}).
    assert (HG1 : Good s1 mi).
    { split; [split; [|split; [|split; [|split]]]|].
      - intros l0 r0 X. discriminate X.
      - intros x X. discriminate X.
      - intros a0 b0 c0 e0 f0 X. discriminate X.
      - apply g_uw_idle. reflexivity.
      - apply g_wait_idle. reflexivity.
      - split; [reflexivity|exact I]. }
    pose proof (idle_loop_good cfg true 8 s1 s2 o2 mi E2 eq_refl HG1) as W.
    apply in_app_or in Hin as [Hin|Hin].
    + eapply no_clear_in; [exact W|reflexivity|exact I|eapply not_in_app_l; exact Hf'|exact Hin|exact Hfn|exact Hfir].
    + destruct (okrun_live _ _ _ _ _ W (not_in_app_l _ _ _ Hf')) as (m2 & _ & HG2).
      eapply Hadv; eauto using not_in_app_r.
Qed.

(* ---------- 1. the first fragment; 2c. the next fragment ----------------------------------------------------- *)

Lemma response_bytes_body r old body :
  r_size r = (4 + length body)%nat ->
  response_bytes r (buf_set old body) = [r_ctl r; r_fn r; r_iin1 r; r_iin2 r] ++ body.
Proof.
  intros Hs. unfold response_bytes, buf_set. rewrite Hs. f_equal.
  replace (4 + length body - 4)%nat with (length body) by lia.
  rewrite firstn_app, Nat.sub_diag, firstn_all. cbn [firstn]. apply app_nil_r.
Qed.

Lemma set_con_ctl_byte a b c q : set_con (ctl_byte a b c false q) = ctl_byte a b true false q.
Proof.
  unfold set_con. rewrite L12.ctl_byte_con. destruct c; [reflexivity|]. unfold ctl_byte. lia.
Qed.

(* a confirm-mandatory broadcast is waiting to be reported *)
Definition mandatory (s : ostate) : bool := match s_last_bcast s with Some BMandatory => true | _ => false end.

Definition read_resp (fir complete has_events : bool) (seq iin2 : N) (body : list N) : response :=
  {| r_ctl := ctl_byte fir complete (has_events || negb complete) false seq; r_fn := fn_response; r_iin1 := 0;
     r_iin2 := iin2; r_size := (4 + length body)%nat |}.

Definition read_series (complete has_events : bool) (seq : N) : option series :=
  if has_events || negb complete then Some {| se_ecsn := seq; se_fin := complete |} else None.

Lemma format_read_response_exact s fir seq iin2 complete has_events body rest :
  s_answers s = AWrite complete has_events body :: rest ->
  exists s1,
    format_read_response s fir seq iin2 =
      (s1, read_resp fir complete has_events seq iin2 body, read_series complete has_events seq, [ODb DbWrite]) /\
    s_answers s1 = rest /\ s_sol_buf s1 = buf_set (s_sol_buf s) body /\ s_last_bcast s1 = s_last_bcast s /\
    s_now s1 = s_now s /\ s_control s1 = s_control s /\ s_last s1 = s_last s.
Proof.
  intros Ha. unfold format_read_response, ask_write. rewrite Ha. eexists. split; [reflexivity|]. psimpl. auto 10.
Qed.

Definition sent_resp (mand : bool) (r : response) (iin1 iin2 : N) : response :=
  {| r_ctl := if mand then set_con (r_ctl r) else r_ctl r; r_fn := r_fn r; r_iin1 := iin1; r_iin2 := iin2;
     r_size := r_size r |}.

Lemma write_solicited_exact s dest r c1 c2 c3 ovf rest :
  s_answers s = AEvinfo c1 c2 c3 ovf :: rest ->
  exists s1 iin1 iin2,
    write_solicited s dest r =
      (s1, sent_resp (mandatory s) r iin1 iin2,
       [ODb DbEvinfo; OTx dest (response_bytes (sent_resp (mandatory s) r iin1 iin2) (s_sol_buf s))]) /\
    s_now s1 = s_now s /\ s_control s1 = s_control s /\ s_last s1 = s_last s /\ s_answers s1 = rest.
Proof.
  intros Ha. unfold write_solicited, response_iin, ask_evinfo, bcast_reported, mandatory. rewrite Ha. psimpl.
  destruct (s_last_bcast s) as [[| |]|] eqn:Eb; psimpl; rewrite ?Eb; psimpl;
    (eexists; eexists; eexists; split; [reflexivity|psimpl; auto]).
Qed.

Lemma ctl_seq_idem ctl : ctl_seq ctl mod 16 = ctl_seq ctl.
Proof. unfold ctl_seq. apply N.mod_small. apply N.mod_lt. discriminate. Qed.

Theorem first_fragment : forall cfg s from bytes d fid ctl hdrs rh v complete has_events body c1 c2 c3 ovf rest s' o,
  to_treq cfg from d = TqRequest ctl fn_read (ObjOk hdrs rh) ->
  s_answers s = AIin2 v :: AWrite complete has_events body :: AEvinfo c1 c2 c3 ovf :: rest ->
  handle_from_idle cfg s from None bytes d fid = (s', o) ->
  let seq := ctl_seq ctl in
  let con := has_events || negb complete || mandatory s in
  exists iin1 iin2,
    o = [OInfo (IIdleRequest fn_read seq); ODb DbSelect; ODb DbWrite; ODb DbEvinfo;
         OTx from ([ctl_byte true complete con false seq; 129; iin1; iin2] ++ body)]
        ++ (if con then [OInfo (IEnterSolWait seq)] else []) /\
    s_control s' = (if con then CSolWait {| se_ecsn := seq; se_fin := complete |} (s_now s + o_confirm_ms cfg) RStep2
                    else s_control s).
Proof.
  intros cfg s from bytes d fid ctl hdrs rh v complete has_events body c1 c2 c3 ovf rest s' o Et Ha H seq con.
  rewrite handle_from_idle_unfold, Et in H. cbv zeta in H.
  assert (Hcl : exists a b c, classify s None bytes ctl fn_read (ObjOk hdrs rh) = FtNewRead a b \/
                              classify s None bytes ctl fn_read (ObjOk hdrs rh) = FtRepeatRead c a b).
  { unfold classify. change (fn_read =? fn_confirm) with false. change (fn_read =? fn_read) with true. cbv iota.
    destruct (match s_last s with Some l => (lr_seq l =? ctl_seq ctl) && bytes_eqb (lr_bytes l) bytes | None => false end).
    - exists hdrs, rh, (match s_last s with Some l => lr_response l | None => None end). right. reflexivity.
    - exists hdrs, rh, None. left. reflexivity. }
  assert (H' : (let '(s1, r, se, o1) := format_first_read_response s (ctl_seq ctl) in
               finish_fn cfg from (ctl_seq ctl) bytes [OInfo (IIdleRequest fn_read (ctl_seq ctl))] s1 (Some r) se false o1) = (s', o)).
  { destruct Hcl as (a & b & c & [E|E]); rewrite E in H; exact H. }
  clear H Hcl. unfold format_first_read_response, ask_iin2 in H'. rewrite Ha in H'.
  destruct (format_read_response_exact (upd_answers s (AWrite complete has_events body :: AEvinfo c1 c2 c3 ovf :: rest))
              true (ctl_seq ctl) v complete has_events body (AEvinfo c1 c2 c3 ovf :: rest) eq_refl)
    as (s1 & E1 & A1 & B1 & L1 & N1 & C1 & _).
  rewrite E1 in H'. unfold finish_fn in H'.
  destruct (write_solicited_exact s1 from (read_resp true complete has_events (ctl_seq ctl) v body) c1 c2 c3 ovf rest A1)
    as (s2 & iin1 & iin2 & E2 & N2 & C2 & _).
  rewrite E2 in H'. cbv zeta in H'.
  assert (Hm : mandatory s1 = mandatory s) by (unfold mandatory; rewrite L1; reflexivity).
  rewrite Hm in H'. psimpl_in B1. psimpl_in N1. psimpl_in C1.
  exists iin1, iin2. subst con seq.
  unfold confirm_series, sent_resp, read_resp, read_series in H'. cbn [r_ctl r_fn r_size] in H'.
  rewrite B1 in H'.
  destruct (mandatory s); rewrite ?set_con_ctl_byte in H'; rewrite ?L12.ctl_byte_con, ?L12.ctl_byte_seq, ?ctl_seq_idem in H';
    destruct has_events, complete; cbn [orb negb andb] in *; inv_pair H';
    (split; [rewrite response_bytes_body by reflexivity; reflexivity|]);
    unfold confirm_deadline; psimpl; rewrite ?N2, ?N1, ?C2, ?C1; reflexivity.
Qed.

(* the same for a READ that was deferred during an unsolicited confirm wait *)
Theorem first_fragment_deferred : forall cfg s ns df v complete has_events body c1 c2 c3 ovf rest s' o,
  s_deferred s = Some df -> df_seq df < 16 ->
  s_answers s = AIin2 v :: AWrite complete has_events body :: AEvinfo c1 c2 c3 ovf :: rest ->
  handle_deferred cfg s ns = (s', o) ->
  let seq := df_seq df in
  let con := has_events || negb complete || mandatory s in
  exists iin1 iin2,
    o = [ODb DbDeferredSelect; ODb DbWrite; ODb DbEvinfo;
         OTx (df_from df) ([ctl_byte true complete con false seq; 129; iin1; iin2] ++ body)]
        ++ (if con then [OInfo (IEnterSolWait seq)] else []) /\
    s_control s' = (if con then CSolWait {| se_ecsn := seq; se_fin := complete |} (s_now s + o_confirm_ms cfg) (RStep4 ns)
                    else s_control s).
Proof.
  intros cfg s ns df v complete has_events body c1 c2 c3 ovf rest s' o Hd Hlt Ha H seq con.
  unfold handle_deferred in H. rewrite Hd in H. unfold ask_iin2 in H. psimpl_in H. rewrite Ha in H.
  match type of H with context [format_read_response ?sx true _ ?i] =>
    destruct (format_read_response_exact sx true (df_seq df) i complete has_events body (AEvinfo c1 c2 c3 ovf :: rest) eq_refl)
      as (s1 & E1 & A1 & B1 & L1 & N1 & C1 & _) end.
  rewrite E1 in H.
  match type of H with context [write_solicited s1 ?dd ?rr] =>
    destruct (write_solicited_exact s1 dd rr c1 c2 c3 ovf rest A1) as (s2 & iin1 & iin2 & E2 & N2 & C2 & _) end.
  rewrite E2 in H. cbv zeta in H.
  assert (Hm : mandatory s1 = mandatory s) by (unfold mandatory; rewrite L1; reflexivity).
  rewrite Hm in H. psimpl_in B1. psimpl_in N1. psimpl_in C1.
  exists iin1, iin2. subst con seq.
  unfold sent_resp, read_resp, read_series in H. cbn [r_ctl r_fn r_size] in H.
  rewrite B1 in H.
  destruct (mandatory s); rewrite ?set_con_ctl_byte in H; rewrite ?L12.ctl_byte_con, ?L12.ctl_byte_seq, ?(N.mod_small _ _ Hlt) in H;
    destruct has_events, complete; cbn [orb negb andb se_ecsn] in *; inv_pair H;
    (split; [rewrite response_bytes_body by reflexivity; reflexivity|]);
    unfold confirm_deadline; psimpl; rewrite ?N2, ?N1, ?C2, ?C1; reflexivity.
Qed.

(* THEOREM 2c.  The expected confirm of a non-final fragment is answered at once with the next fragment. *)
Theorem next_fragment_after_confirm : forall cfg s from bytes d ctl obj se dl r complete has_events body c1 c2 c3 ovf rest s' o,
  s_control s = CSolWait se dl r -> se_fin se = false ->
  to_treq cfg from d = TqRequest ctl fn_confirm obj -> ctl_uns ctl = false -> ctl_seq ctl = se_ecsn se ->
  s_answers s = AWrite complete has_events body :: AEvinfo c1 c2 c3 ovf :: rest ->
  on_rx cfg s from None bytes d = (s', o) ->
  let q := seq16_next (se_ecsn se) in
  let con := has_events || negb complete in
  exists iin1 iin2 tail,
    o = [OInfo (ISolConfirmed (se_ecsn se)); ODb DbClearWritten; ODb DbWrite; ODb DbEvinfo;
         OTx from ([ctl_byte false complete con false q; 129; iin1; iin2] ++ body)] ++ tail /\
    (con = true -> tail = [] /\
       s_control s' = CSolWait {| se_ecsn := q; se_fin := complete |} (s_now s + o_confirm_ms cfg) r).
Proof.
  intros cfg s from bytes d ctl obj se dl r complete has_events body c1 c2 c3 ovf rest s' o
         Hc Hfin Et Hu Hq Ha H q con.
  unfold on_rx in H. cbv zeta in H. psimpl_in H. rewrite Hc in H.
  unfold sol_wait_fragment in H. rewrite Et in H.
  unfold classify in H. change (fn_confirm =? fn_confirm) with true in H. cbv iota in H. rewrite Hu, Hq, N.eqb_refl, Hfin in H.
  match type of H with context [format_read_response ?sx false _ 0] =>
    destruct (format_read_response_exact sx false (seq16_next (se_ecsn se)) 0 complete has_events body (AEvinfo c1 c2 c3 ovf :: rest) Ha)
      as (s1 & E1 & A1 & B1 & L1 & N1 & C1 & _) end.
  rewrite E1 in H.
  match type of H with context [write_solicited s1 ?dd ?rr] =>
    destruct (write_solicited_exact s1 dd rr c1 c2 c3 ovf rest A1) as (s2 & iin1 & iin2 & E2 & N2 & C2 & _) end.
  rewrite E2 in H.
  assert (Hm : mandatory s1 = false) by (unfold mandatory; rewrite L1; reflexivity).
  rewrite Hm in H. psimpl_in B1. psimpl_in N1. psimpl_in C1.
  unfold sent_resp, read_resp, read_series in H. cbn [r_ctl r_fn r_size] in H. rewrite B1 in H.
  subst q con.
  destruct (has_events || negb complete) eqn:Econ.
  - inv_pair H. exists iin1, iin2, []. split; [rewrite response_bytes_body by reflexivity; reflexivity|].
    intros _. split; [reflexivity|]. unfold confirm_deadline. psimpl. rewrite N2, N1. reflexivity.
  - match type of H with context [resume_at cfg ?st ?sx] => destruct (resume_at cfg st sx) as [s5 o5] end.
    inv_pair H. exists iin1, iin2, o5. split; [rewrite response_bytes_body by reflexivity; reflexivity|].
    intros X; discriminate X.
Qed.

(* ---------- 4. the confirm timeout runs per fragment ------------------------------------------------------- *)

(* THEOREM 4a.  While a fragment awaits its confirm, letting time pass does nothing before the deadline
   stored with the wait, and at the deadline (or at once when it has passed) the wait ends with
   ISolTimeout for that fragment and a database reset: the rest of the series is never sent.  The
   deadline is s_now + o_confirm_ms at the moment the fragment was transmitted: first_fragment,
   first_fragment_deferred and next_fragment_after_confirm give it for every fragment of a series,
   deadline_is_per_fragment for every reachable state. *)
Theorem sol_timeout_at_deadline : forall cfg f s target s' o se dl r,
  advance (S f) cfg s target = (s', o) -> s_control s = CSolWait se dl r ->
  ((target < dl)%Z -> o = [] /\ s' = upd_now s target) /\
  ((dl <= target)%Z -> exists o',
     o = OAt (Z.max dl (s_now s)) :: OInfo (ISolTimeout (se_ecsn se)) :: ODb DbReset :: o').
Proof.
  intros cfg f s target s' o se dl r H Hc. cbn [advance] in H. unfold next_deadline in H. rewrite Hc in H.
  split; intros Hlt.
  - apply Z.leb_gt in Hlt. rewrite Hlt in H. inv_pair H. auto.
  - apply Z.leb_le in Hlt. rewrite Hlt in H. unfold fire_deadline in H. psimpl_in H. rewrite Hc in H.
    match type of H with context [resume_at cfg ?st ?sx] => destruct (resume_at cfg st sx) as [s1 o1] end.
    match type of H with context [advance f cfg ?sx ?t] => destruct (advance f cfg sx t) as [s2 o2] end.
    inv_pair H. eexists. reflexivity.
Qed.

(* THEOREM 4b.  A READ repeated during the wait is answered with the awaited fragment and restarts its
   timer; every other fragment that does not end the wait leaves the deadline alone. *)
Theorem wait_deadline_on_rx : forall cfg s from bc bytes d se dl dl' o,
  sol_wait_fragment cfg s se dl from bc bytes d = (SoStay dl', o) ->
  (dl' = dl /\ forall dest b, ~ In (OTx dest b) o) \/ dl' = (s_now s + o_confirm_ms cfg)%Z.
Proof.
  intros cfg s from bc bytes d se dl dl' o H. apply sol_wait_fragment_c11 in H.
  destruct H as [[-> Hn]|[-> _]]; [left|right; reflexivity]. split; [reflexivity|].
  intros dest b Hin. rewrite forallb_forall in Hn. apply Hn in Hin. discriminate Hin.
Qed.

(* ---------- non-vacuity of theorems 1, 2 and 4 on the concrete history ------------------------------------- *)

Fixpoint ofinal (cfg : ocfg) (s : ostate) (evs : list (oevent * list answer)) : ostate :=
  match evs with
  | [] => s
  | (ev, a) :: r => ofinal cfg (fst (ostep cfg s ev a)) r
  end.

Definition ex_s0 : ostate := fst (ostart ex_cfg 0 0 0 []).
Definition ex_after (n : nat) : ostate := ofinal ex_cfg ex_s0 (firstn n ex_hist).
Definition ex_out (n : nat) : list oobs :=
  match nth_error ex_hist n with Some (ev, a) => snd (ostep ex_cfg (ex_after n) ev a) | None => [] end.

(* theorem 1: the READ with sequence number 1, database not complete *)
Example ex_first_fragment :
  ex_out 0 = [OInfo (IIdleRequest 1 1); ODb DbSelect; ODb DbWrite; ODb DbEvinfo;
              OTx 1 ([ctl_byte true false true false 1; 129; 128; 0] ++ [1; 2; 0; 0; 1; 129; 129]);
              OInfo (IEnterSolWait 1)]
  /\ s_control (ex_after 1) = CSolWait {| se_ecsn := 1; se_fin := false |} 5000 RStep2.
Proof. vm_compute. auto. Qed.

(* theorem 2: the expected confirm releases the next fragment and arms a new deadline *)
Example ex_next_fragment :
  ex_out 1 = [OInfo (ISolConfirmed 1); ODb DbClearWritten; ODb DbWrite; ODb DbEvinfo;
              OTx 1 ([ctl_byte false false true false 2; 129; 128; 0] ++ [30; 2; 0; 5; 5; 1; 7; 0])]
  /\ s_control (ex_after 2) = CSolWait {| se_ecsn := 2; se_fin := false |} 5001 RStep2
  /\ confirm_of ex_cfg (ex_confirm 1) = Some (1, 1).
Proof. vm_compute. auto. Qed.

(* ... the READ repeated in the wait gets the awaited fragment again, with a new deadline ... *)
Example ex_repeat_in_wait :
  ex_out 2 = [OTx 1 ([ctl_byte false false true false 2; 129; 128; 0] ++ [30; 2; 0; 5; 5; 1; 7; 0])]
  /\ s_control (ex_after 3) = CSolWait {| se_ecsn := 2; se_fin := false |} 5002 RStep2.
Proof. vm_compute. auto. Qed.

(* ... and a confirm with the wrong sequence number, or nothing but time, releases nothing *)
Example ex_wrong_confirm_and_timeout :
  ex_out 9 = [OInfo (ISolWrongSeq 9 8)]
  /\ ex_out 7 = [OAt 5006; OInfo (ISolTimeout 5); ODb DbReset]
  /\ s_control (ex_after 7) = CSolWait {| se_ecsn := 5; se_fin := false |} 5006 RStep2
  /\ s_control (ex_after 8) = CIdle
  /\ ex_out 10 = [OInfo ISolNewRequest; ODb DbReset; OInfo (IIdleRequest 24 10); ODb DbEvinfo; OTx 1 [202; 129; 128; 0]].
Proof. vm_compute. auto 10. Qed.

(* the hypotheses of theorems 2a / 2b hold in the states of the history: the invariants G (by
   reach_invariants), in or outside the solicited confirm wait, no fuel exhausted *)
Definition ex_reached (n : nat) : ostate * list item := trace_of ex_cfg 0 0 0 [] (firstn n ex_hist).

Example ex_hypotheses_theorem2 :
  G (fst (ex_reached 2)) /\ s_control (fst (ex_reached 2)) = CSolWait {| se_ecsn := 2; se_fin := false |} 5001 RStep2
  /\ G (fst (ex_reached 0)) /\ nwait (fst (ex_reached 0)).
Proof.
  split; [|split; [|split]].
  - apply (reach_invariants ex_cfg (fst (ex_reached 2)) (snd (ex_reached 2))).
    + apply (trace_of_Trace ex_cfg 0 0 0 [] (firstn 2 ex_hist)). repeat constructor.
    + vm_compute. discriminate.
  - vm_compute. reflexivity.
  - apply (reach_invariants ex_cfg (fst (ex_reached 0)) (snd (ex_reached 0))).
    + apply (trace_of_Trace ex_cfg 0 0 0 [] (firstn 0 ex_hist)). constructor.
    + vm_compute. discriminate.
  - vm_compute. exact I.
Qed.

(* ---------- 5. composed with the database model ------------------------------------------------------------ *)

From Dnp3V Require Import Outstation.DbTypes Outstation.EventBuffer Outstation.StaticDb Outstation.Database.
From Dnp3V Require Import Outstation.Full Outstation.FullProofs.

Definition no_write (a : list answer) : Prop := match a with AWrite _ _ _ :: _ => False | _ => True end.
Definition no_evinfo (a : list answer) : Prop := match a with AEvinfo _ _ _ _ :: _ => False | _ => True end.

Lemma format_read_response_nowrite s fir seq iin2 :
  no_write (s_answers s) ->
  exists s1 r se, format_read_response s fir seq iin2 = (s1, r, se, [ODb DbWrite; OMissingAnswer]).
Proof.
  intros Hn. unfold format_read_response, ask_write.
  destruct (s_answers s) as [|[] rest]; try contradiction; do 3 eexists; reflexivity.
Qed.

Lemma write_solicited_noevinfo s dest r :
  no_evinfo (s_answers s) ->
  exists s1 r' b, write_solicited s dest r = (s1, r', [ODb DbEvinfo; OMissingAnswer; OTx dest b]).
Proof.
  intros Hn. unfold write_solicited, response_iin, ask_evinfo.
  destruct (s_answers s) as [|[] rest]; try contradiction; do 3 eexists; reflexivity.
Qed.

Section ConfirmStep.
  Variable cfg : ocfg.
  Variables (from : N) (bytes : list N) (dg : digest) (ctl : N) (obj : objres) (se : series) (dl : Z) (r : resume).
  Hypothesis Hfin : se_fin se = false.
  Hypothesis Et : to_treq cfg from dg = TqRequest ctl fn_confirm obj.
  Hypothesis Hu : ctl_uns ctl = false.
  Hypothesis Hq : ctl_seq ctl = se_ecsn se.

  Lemma confirm_rx_no_write s s' o :
    s_control s = CSolWait se dl r -> no_write (s_answers s) ->
    on_rx cfg s from None bytes dg = (s', o) ->
    exists tail, o = [OInfo (ISolConfirmed (se_ecsn se)); ODb DbClearWritten; ODb DbWrite; OMissingAnswer] ++ tail.
  Proof.
    intros Hc Ha H.
    unfold on_rx in H. cbv zeta in H. psimpl_in H. rewrite Hc in H.
    unfold sol_wait_fragment in H. rewrite Et in H.
    unfold classify in H. change (fn_confirm =? fn_confirm) with true in H. cbv iota in H.
    rewrite Hu, Hq, N.eqb_refl, Hfin in H.
    match type of H with context [format_read_response ?sx false ?a ?b] =>
      destruct (format_read_response_nowrite sx false a b Ha) as (s1 & r1 & se1 & E1) end.
    rewrite E1 in H.
    match type of H with context [write_solicited ?a ?b ?c] => destruct (write_solicited a b c) as [[s3 r3] o3] end.
    destruct se1 as [n|].
    - inv_pair H. eexists. cbn [app]. reflexivity.
    - match type of H with context [resume_at cfg ?st ?sx] => destruct (resume_at cfg st sx) as [s5 o5] end.
      inv_pair H. eexists. cbn [app]. reflexivity.
  Qed.
End ConfirmStep.

Section ConfirmStep2.
  Variable cfg : ocfg.
  Variables (from : N) (bytes : list N) (dg : digest) (ctl : N) (obj : objres) (se : series) (dl : Z) (r : resume).
  Hypothesis Hfin : se_fin se = false.
  Hypothesis Et : to_treq cfg from dg = TqRequest ctl fn_confirm obj.
  Hypothesis Hu : ctl_uns ctl = false.
  Hypothesis Hq : ctl_seq ctl = se_ecsn se.

  Lemma confirm_rx_no_evinfo s s' o c e b rest :
    s_control s = CSolWait se dl r -> s_answers s = AWrite c e b :: rest -> no_evinfo rest ->
    on_rx cfg s from None bytes dg = (s', o) ->
    exists tail, o = [OInfo (ISolConfirmed (se_ecsn se)); ODb DbClearWritten; ODb DbWrite; ODb DbEvinfo; OMissingAnswer] ++ tail.
  Proof.
    intros Hc Ha Hn H.
    unfold on_rx in H. cbv zeta in H. psimpl_in H. rewrite Hc in H.
    unfold sol_wait_fragment in H. rewrite Et in H.
    unfold classify in H. change (fn_confirm =? fn_confirm) with true in H. cbv iota in H.
    rewrite Hu, Hq, N.eqb_refl, Hfin in H.
    match type of H with context [format_read_response ?sx false ?a0 ?b0] =>
      destruct (format_read_response_exact sx false a0 b0 c e b rest Ha) as (s1 & E1 & A1 & _) end.
    rewrite E1 in H. rewrite <- A1 in Hn.
    match type of H with context [write_solicited s1 ?b0 ?c0] =>
      destruct (write_solicited_noevinfo s1 b0 c0 Hn) as (s3 & r3 & bb & E3) end.
    rewrite E3 in H.
    destruct (read_series c e (seq16_next (se_ecsn se))) as [n|].
    - inv_pair H. eexists. cbn [app]. reflexivity.
    - match type of H with context [resume_at cfg ?st ?sx] => destruct (resume_at cfg st sx) as [s5 o5] end.
      inv_pair H. eexists. cbn [app]. reflexivity.
  Qed.

  (* the observations of the step: those of on_rx, then those of the settling time *)
  Lemma ostep_rx_out s bc a :
    exists o2, snd (ostep cfg s (ERx from bc bytes dg) a) = snd (on_rx cfg (upd_answers s a) from bc bytes dg) ++ o2.
  Proof.
    unfold ostep. destruct (on_rx cfg (upd_answers s a) from bc bytes dg) as [s1 o1].
    destruct (advance 64 cfg s1 (s_now s1 + settle_ms)) as [s2 o2]. exists o2. reflexivity.
  Qed.
End ConfirmStep2.

Lemma walk_confirm_write F d c q tl :
  walk F d c 0 [] (OInfo (ISolConfirmed q) :: ODb DbClearWritten :: ODb DbWrite :: OMissingAnswer :: tl) =
  let '(d1, (ids, cnt)) := db_clear_written d in
  let '(d2, a) := write_answer F d1 in
  WAsk d2 c (FAns a :: FObs (ODb DbWrite) :: FCleared ids (c_c1 cnt) (c_c2 cnt) (c_c3 cnt) :: FObs (ODb DbClearWritten)
             :: FObs (OInfo (ISolConfirmed q)) :: []) a 3.
Proof.
  cbn [walk tx_log app]. destruct (db_clear_written d) as [d1 [ids cnt]]. cbn [walk].
  destruct (write_answer F d1) as [d2 a]. reflexivity.
Qed.

Lemma walk_evinfo_q F d c n log tl :
  walk F d c n log (ODb DbEvinfo :: OMissingAnswer :: tl) =
  WAsk d c (FAns (evinfo_answer_of d) :: FObs (ODb DbEvinfo) :: log) (evinfo_answer_of d) (S n).
Proof. reflexivity. Qed.

Local Strategy opaque [ostep on_rx advance resume_at idle_run replay].
Lemma fevent_confirm_answers : forall F st d from bytes dg ctl obj se dl r,
  s_control (fs_s st) = CSolWait se dl r -> se_fin se = false ->
  to_treq (f_o F) from dg = TqRequest ctl fn_confirm obj -> ctl_uns ctl = false -> ctl_seq ctl = se_ecsn se ->
  let ro := fevent_out F st d (ERx from None bytes dg) in
  ~ In FReplayError (ro_log ro) ->
  let w := db_write_response (fst (db_clear_written d)) (N.of_nat (o_sol_tx (f_o F)) - 4) in
  exists more, ro_answers ro = AWrite (snd (snd w)) (snd (fst (snd w))) (fst (fst (snd w))) :: evinfo_answer_of (fst w) :: more.
Proof.
  intros F st d from bytes dg ctl obj se dl r Hc Hfin Et Hu Hq ro Hno w.
  set (cfg := f_o F) in *. set (s := fs_s st) in *. set (ev := ERx from None bytes dg) in *.
  set (run := fun a => ostep cfg s ev a).
  set (body := fst (fst (snd w))). set (has_events := snd (fst (snd w))). set (complete := snd (snd w)).
  subst ro. unfold fevent_out, replay_event in *. fold cfg s run in Hno |- *. cbv zeta in Hno |- *.
  match goal with |- context [replay replay_fuel F run ?x] => set (r0 := x) in * end.
  assert (W1 : exists log1, walk F (rs_db r0) (rs_ctx r0) (rs_settled r0) (rs_log r0)
                 (skipn (rs_settled r0) (snd (run (rs_answers r0 ++ [sentinel]))))
               = WAsk (fst w) (rs_ctx r0) log1 (AWrite complete has_events body) 3).
  { subst r0. cbn [rs_db rs_ctx rs_settled rs_log rs_answers skipn app]. unfold run, ev.
    destruct (ostep_rx_out cfg from bytes dg s None [sentinel]) as [o2 ->].
    destruct (on_rx cfg (upd_answers s [sentinel]) from None bytes dg) as [s1 o1] eqn:E1.
    destruct (confirm_rx_no_write cfg from bytes dg ctl obj se dl r Hfin Et Hu Hq (upd_answers s [sentinel]) _ _ Hc I E1) as [tail ->].
    cbn [snd app]. rewrite walk_confirm_write.
    subst body has_events complete w. unfold write_answer. fold cfg.
    destruct (db_clear_written d) as [dd [ids cnt]]. cbn [fst].
    destruct (db_write_response dd (N.of_nat (o_sol_tx cfg) - 4)) as [d2 [[bs he] cp]]. cbn [fst snd].
    eexists. reflexivity. }
  destruct W1 as [log1 W1].
  change replay_fuel with (S (S 2998)) in *.
  rewrite (replay_step _ F run r0 _ _ _ _ _ W1) in *.
  match goal with |- context [replay (S 2998) F run ?x] => set (r1 := x) in * end.
  assert (W2 : exists log2, walk F (rs_db r1) (rs_ctx r1) (rs_settled r1) (rs_log r1)
                 (skipn (rs_settled r1) (snd (run (rs_answers r1 ++ [sentinel]))))
               = WAsk (fst w) (rs_ctx r1) log2 (evinfo_answer_of (fst w)) 4).
  { subst r1 r0. cbn [rs_db rs_ctx rs_settled rs_log rs_answers app]. unfold run, ev.
    destruct (ostep_rx_out cfg from bytes dg s None [AWrite complete has_events body; sentinel]) as [o2 ->].
    destruct (on_rx cfg (upd_answers s [AWrite complete has_events body; sentinel]) from None bytes dg) as [s1 o1] eqn:E1.
    destruct (confirm_rx_no_evinfo cfg from bytes dg ctl obj se dl r Hfin Et Hu Hq
                (upd_answers s [AWrite complete has_events body; sentinel]) _ _ complete has_events body [sentinel]
                Hc eq_refl I E1) as [tail ->].
    cbn [snd app skipn]. rewrite walk_evinfo_q. eexists. reflexivity. }
  destruct W2 as [log2 W2].
  rewrite (replay_step _ F run r1 _ _ _ _ _ W2) in *.
  match goal with |- context [replay 2998 F run ?x] => set (r2 := x) in * end.
  destruct (replay 2998 F run r2) as [rf|rf] eqn:R.
  - destruct (replay_extends 2998 F run r2 rf (or_introl R)) as [l Hl].
    destruct (ostep cfg s ev (rs_answers rf)) as [sx ox]. cbn [ro_answers]. exists l. rewrite Hl.
    subst r2 r1 r0. cbn [rs_answers app]. reflexivity.
  - exfalso. destruct (ostep cfg s ev (rs_answers rf)) as [sx ox]. cbn [ro_log] in Hno. apply Hno. apply in_rev_cons_r.
Qed.

(* THEOREM 5.  Composed with the database model (Outstation/Full.v): the step of the composed model for
   the expected CONFIRM of a non-final fragment.  The database d is the one the step starts with (user
   transactions applied since the previous fragment included).  Unless the replay failed
   (FReplayError), the next fragment carries exactly the bytes db_write_response produces from d after
   clear_written_events - no selection, no reset in between - with FIN / CON from its verdict, and the
   IIN bits are asked from the database as that write left it. *)
Theorem fevent_next_fragment : forall F st d from bytes dg ctl obj se dl r,
  s_control (fs_s st) = CSolWait se dl r -> se_fin se = false ->
  to_treq (f_o F) from dg = TqRequest ctl fn_confirm obj -> ctl_uns ctl = false -> ctl_seq ctl = se_ecsn se ->
  let ro := fevent_out F st d (ERx from None bytes dg) in
  ~ In FReplayError (ro_log ro) ->
  let w := db_write_response (fst (db_clear_written d)) (N.of_nat (o_sol_tx (f_o F)) - 4) in
  let body := fst (fst (snd w)) in
  let has_events := snd (fst (snd w)) in
  let complete := snd (snd w) in
  exists iin1 iin2 tail more,
    ro_answers ro = AWrite complete has_events body :: evinfo_answer_of (fst w) :: more /\
    ro_out ro = [OInfo (ISolConfirmed (se_ecsn se)); ODb DbClearWritten; ODb DbWrite; ODb DbEvinfo;
                 OTx from ([ctl_byte false complete (has_events || negb complete) false (seq16_next (se_ecsn se));
                            129; iin1; iin2] ++ body)] ++ tail.
Proof.
  intros F st d from bytes dg ctl obj se dl r Hc Hfin Et Hu Hq ro Hno w body has_events complete.
  destruct (fevent_confirm_answers F st d from bytes dg ctl obj se dl r Hc Hfin Et Hu Hq Hno) as [more Hans].
  fold ro w body has_events complete in Hans.
  pose proof (fevent_complete F st d (ERx from None bytes dg) Hno) as [Hrun _]. fold ro in Hrun.
  set (cfg := f_o F) in *. set (s := fs_s st) in *.
  destruct (evinfo_answer_of (fst w)) as [v|c0 e0 b0|n0 b0|c1 c2 c3 ovf] eqn:Eev;
    try (unfold evinfo_answer_of in Eev; destruct (db_unwritten_classes (fst w)) as [[? ?] ?]; discriminate Eev).
  rewrite Hans in Hrun.
  destruct (ostep_rx_out cfg from bytes dg s None (AWrite complete has_events body :: AEvinfo c1 c2 c3 ovf :: more)) as [o2 Ho].
  rewrite Hrun in Ho. cbn [snd] in Ho.
  destruct (on_rx cfg (upd_answers s (AWrite complete has_events body :: AEvinfo c1 c2 c3 ovf :: more)) from None bytes dg)
    as [s1 o1] eqn:E1.
  destruct (next_fragment_after_confirm cfg (upd_answers s (AWrite complete has_events body :: AEvinfo c1 c2 c3 ovf :: more))
              from bytes dg ctl obj se dl r complete has_events body c1 c2 c3 ovf more s1 o1
              Hc Hfin Et Hu Hq eq_refl E1) as (iin1 & iin2 & tail & Ho1 & _).
  exists iin1, iin2, (tail ++ o2), more. split; [exact Hans|].
  rewrite Ho. cbn [snd]. rewrite Ho1, <- app_assoc. reflexivity.
Qed.

(* non-vacuity: four counters, a transmit buffer that holds one of them per fragment, a class 0 READ; the
   counter that comes next is updated while the first fragment awaits its confirm: the second fragment
   carries the value selected when the READ was processed (11), not the new one (99) *)
Definition ex_F : fcfg :=
  {| f_o := {| o_master := 1; o_any_master := false; o_unsol := false; o_broadcast := true;
               o_confirm_ms := 5000; o_select_ms := 5000; o_retries := None; o_retry_delay_ms := 5000;
               o_max_controls := None; o_sol_tx := 20; o_delay_ms := 0; o_cold := None; o_warm := None;
               o_wtime := 0; o_freeze := 1 |};
     f_unsol_tx := 2048; f_evbuf := 5 |}.

Fixpoint ffinal (F : fcfg) (st : fstate) (ops : list fop) : fstate :=
  match ops with [] => st | op :: r => ffinal F (fst (fstep F st op)) r end.

Definition ex_count (v : N) : meas := mkMeas v 1 None [].
Definition ex_ops : list fop :=
  [FAdd TCounter 0 None; FAdd TCounter 1 None; FAdd TCounter 2 None; FAdd TCounter 3 None;
   FUpdate TCounter 0 (ex_count 10); FUpdate TCounter 1 (ex_count 11); FUpdate TCounter 2 (ex_count 12);
   FUpdate TCounter 3 (ex_count 13);
   FRx 1 None [193; 1; 60; 1; 6];
   FUpdate TCounter 1 (ex_count 99)].
Definition ex_fst : fstate := ffinal ex_F (fst (fstart ex_F 0 0 0)) ex_ops.

Example ex_fevent_next_fragment :
  s_control (fs_s ex_fst) = CSolWait {| se_ecsn := 1; se_fin := false |} 5008 RStep2 /\
  let ro := fevent_out ex_F ex_fst (fs_db ex_fst) (ERx 1 None [193; 0] (frag_digest [193; 0])) in
  existsb (fun x => match x with FReplayError => true | _ => false end) (ro_log ro) = false /\
  ro_answers ro = [AWrite false false [20; 1; 1; 1; 0; 1; 0; 1; 11; 0; 0; 0]; AEvinfo false false false false] /\
  ro_out ro = [OInfo (ISolConfirmed 1); ODb DbClearWritten; ODb DbWrite; ODb DbEvinfo;
               OTx 1 ([ctl_byte false false true false 2; 129; 128; 0] ++ [20; 1; 1; 1; 0; 1; 0; 1; 11; 0; 0; 0])].
Proof. vm_compute. auto. Qed.
