(* Outstation/FullCorollaries.v — properties C04, C05, C12, C14 over the COMPOSED outstation model
   (Outstation/Full.v): nothing but the received OCTETS and the user's database transactions are inputs.

   The session-level theorems (SessionC04Proofs ... SessionC14Proofs) quantify over the parser's digest of a
   fragment and over the database's answers.  In the composed model the digest IS `frag_digest bytes` and the
   answers ARE those of Outstation/Database.v (computed by `replay`).  Here the session theorems are
   transported: hypotheses about the digest become facts about the octets, and what the step does to the
   database becomes a statement about `fs_db`.

   0. tools      the digest against the octets (`frag_digest_rvok`, `wf_request`, `wf_request_digest`); every
                 observation in the log of a reception is an observation of the session step for SOME answers, so
                 what holds of the session step for ALL answers holds of the log (`frx_log_obs`); a step whose
                 session part calls the database nowhere leaves it alone (`fevent_db_untouched`); FReach implies
                 the reachability predicates of the session-level proofs (`freach_reachD`, `freach_reach05`, ...)
   1. C04        frx_sbo_operate_needs_matching_select
   2. C05        frx_repeat_not_reexecuted, frx_repeat_database_untouched
   3. C14        frx_read_deferred, fsleep_deferred_read_served, frx_confirm_deferred_read_served
   4. C12        header_error_reported_all (session level, every control state), frx_header_error_reported

   Statements about what a step CONTAINS are made about `ro_out` (the session's observations on the answers the
   replay computed: `fevent_run`); statements about what a step can NOT contain are made about its log.  The log
   itself is assembled from runs on growing answer lists; that it equals `ro_out` interleaved with the answers
   would need the prefix-stability of `ostep` in its answers, which is proved nowhere. *)
From Dnp3V Require Import Base.Bytes App.AppHeader App.Grammar.
From Dnp3V Require Import Outstation.DbTypes Outstation.EventBuffer Outstation.StaticDb Outstation.Database.
From Dnp3V Require Import Outstation.Session Outstation.Full Outstation.FullProofs.
From Dnp3V Require Outstation.SessionLemmas_c04 Outstation.SessionC04Proofs.
From Dnp3V Require Outstation.SessionLemmas_c05 Outstation.SessionC05Proofs.
From Dnp3V Require Outstation.SessionLemmas_c12 Outstation.SessionC12Proofs.
From Dnp3V Require Outstation.SessionLemmas_c14 Outstation.SessionC14Proofs.
From Dnp3V Require Outstation.SessionC11Proofs.
From Dnp3V Require Import Outstation.SessionC03Proofs.   (* FReach, freach_boundary_inv, ffinal, has_replay_error *)
Import ListNotations.
Open Scope N_scope.

(* unfolding lemmas, stated before the big functions are made opaque for unification *)
Lemma ostep_rx cfg s from bc bytes d a :
  ostep cfg s (ERx from bc bytes d) a =
  let '(s1, o1) := on_rx cfg (upd_answers s a) from bc bytes d in
  let '(s2, o2) := advance 64 cfg s1 (s_now s1 + settle_ms) in (s2, o1 ++ o2).
Proof.
  unfold ostep. destruct (on_rx cfg (upd_answers s a) from bc bytes d) as [s1 o1].
  destruct (advance 64 cfg s1 (s_now s1 + settle_ms)) as [s2 o2]. reflexivity.
Qed.

Lemma ostep_sleep cfg s ms a : ostep cfg s (ESleep ms) a = advance 4096 cfg (upd_answers s a) (s_now s + ms).
Proof.
  unfold ostep. change (s_now (upd_answers s a)) with (s_now s).
  destruct (advance 4096 cfg (upd_answers s a) (s_now s + ms)); reflexivity.
Qed.

Lemma advance_stay f cfg s target :
  match next_deadline cfg s with Some d => (target < d)%Z | None => True end ->
  advance (S f) cfg s target = (upd_now s target, []).
Proof.
  cbn [advance]. destruct (next_deadline cfg s) as [d|]; [|reflexivity].
  intros H. destruct (d <=? target)%Z eqn:E; [apply Z.leb_le in E; lia|reflexivity].
Qed.

Lemma replay_S f F run r :
  replay (S f) F run r =
  match walk F (rs_db r) (rs_ctx r) (rs_settled r) (rs_log r) (skipn (rs_settled r) (snd (run (rs_answers r ++ [sentinel])))) with
  | WDone d c log =>
      RDone {| rs_answers := rs_answers r; rs_db := d; rs_ctx := c;
               rs_settled := length (snd (run (rs_answers r ++ [sentinel]))); rs_log := log; rs_snaps := rs_snaps r |}
  | WAsk d c log a k =>
      replay f F run {| rs_answers := rs_answers r ++ [a]; rs_db := d; rs_ctx := c; rs_settled := k; rs_log := log;
                        rs_snaps := if answer_is_evinfo a then rs_snaps r ++ [d] else rs_snaps r |}
  | WBad log =>
      RFail {| rs_answers := rs_answers r; rs_db := rs_db r; rs_ctx := rs_ctx r; rs_settled := rs_settled r;
               rs_log := log; rs_snaps := rs_snaps r |}
  end.
Proof. reflexivity. Qed.

Lemma resume_at_eq cfg st s : resume_at cfg st s = idle_run 32 cfg st s.
Proof. reflexivity. Qed.

Local Opaque replay_event.
Local Strategy opaque [ostep on_rx advance resume_at idle_run replay].

(* ================================================================================================ *)
(* 0. tools                                                                                          *)

(* ---- the octets against the digest -------------------------------------------------------------- *)

(* the master filter of the transport reader *)
Definition accepted_master (cfg : ocfg) (from : N) : Prop := o_any_master cfg = true \/ from = o_master cfg.

(* a request as the crate's parser accepts it: the header parses, to_request accepts it (FIR and FIN set, UNS
   only on a CONFIRM), the objects parse *)
Definition wf_request (bytes : list N) : Prop :=
  exists pf hs, parse_fragment full_opts bytes = AOk pf /\ ato_request (pf_header pf) = None /\
                headers_of pf = AOk hs.

Lemma mask_bit x k : amask_set x (2 ^ k) = N.testbit x k.
Proof.
  unfold amask_set. destruct (N.testbit x k) eqn:E.
  - assert (H : N.testbit (N.land x (2 ^ k)) k = true) by (rewrite N.land_spec, E, N.pow2_bits_true; reflexivity).
    destruct (N.land x (2 ^ k) =? 0) eqn:E0; [|reflexivity].
    apply N.eqb_eq in E0. rewrite E0, N.bits_0 in H. discriminate H.
  - assert (H : N.land x (2 ^ k) = 0).
    { apply N.bits_inj. intros n. rewrite N.land_spec, N.bits_0, N.pow2_bits_eqb.
      destruct (k =? n) eqn:Ek; [|apply andb_false_r]. apply N.eqb_eq in Ek. subst n. rewrite E. reflexivity. }
    rewrite H. reflexivity.
Qed.

Lemma fir_bit x : ac_fir (actl_of x) = N.testbit x 7.  Proof. exact (mask_bit x 7). Qed.
Lemma fin_bit x : ac_fin (actl_of x) = N.testbit x 6.  Proof. exact (mask_bit x 6). Qed.
Lemma uns_bit x : ac_uns (actl_of x) = N.testbit x 4.  Proof. exact (mask_bit x 4). Qed.
Lemma seq_bits x : ac_seq (actl_of x) = x mod 16.  Proof. exact (N.land_ones x 4). Qed.

(* the header of a fragment that parses *)
Lemma parse_fragment_ok bytes pf :
  parse_fragment full_opts bytes = AOk pf ->
  exists c f r, bytes = c :: f :: r /\ ah_control (pf_header pf) = actl_of c /\ ah_function (pf_header pf) = f /\
    (ah_iin (pf_header pf) = None -> pf_raw_objects pf = r).
Proof.
  unfold parse_fragment, aparse_header. destruct bytes as [|c [|f r]]; try discriminate.
  destruct (afunction_known f); [|discriminate].
  destruct (afunction_has_iin f).
  - destruct r as [|i1 [|i2 r']]; try discriminate. intros H; inversion H; subst; clear H.
    exists c, f, (i1 :: i2 :: r'). repeat split. cbn. discriminate.
  - intros H; inversion H; subst; clear H. exists c, f, r. repeat split.
Qed.

Lemma ato_request_none h :
  ato_request h = None ->
  ah_iin h = None /\ ac_fir (ah_control h) = true /\ ac_fin (ah_control h) = true /\
  (ah_function h <> 0 -> ac_uns (ah_control h) = false).
Proof.
  unfold ato_request. destruct (ah_iin h); [discriminate|].
  destruct (ac_fir (ah_control h)), (ac_fin (ah_control h)); cbn [andb negb]; try discriminate.
  destruct (ac_uns (ah_control h)); cbn [andb]; [|auto].
  destruct (ah_function h =? fc_confirm) eqn:E; cbn [negb]; [|discriminate].
  apply N.eqb_eq in E. intros _. repeat split; auto. intros Hn. exfalso. apply Hn. exact E.
Qed.

(* what a digest DOk .. says about the parse *)
Lemma frag_digest_ok bytes ctl fn rv obj :
  frag_digest bytes = DOk ctl fn rv obj ->
  exists pf, parse_fragment full_opts bytes = AOk pf /\ ctl = nth 0 bytes 0 /\ fn = ah_function (pf_header pf) /\
    rv = (match ato_request (pf_header pf) with None => RvOk | Some _ => RvBad end) /\
    obj = (match headers_of pf with
           | AErr e => ObjErr (iin2_of_obj_err e)
           | AOk hs => ObjOk (map whdr_of hs) (map hdr_is_read hs)
           end).
Proof.
  unfold frag_digest. destruct (parse_fragment full_opts bytes) as [pf|[|sq code]]; try discriminate.
  unfold digest_of_parsed. intros H; inversion H; subst; clear H. exists pf. repeat split.
Qed.

(* a fragment whose digest passed the request validation: FIR and FIN set, UNS clear unless it is a CONFIRM;
   octet 0 is the control octet, octet 1 the function code, the rest the object data *)
Lemma frag_digest_rvok bytes ctl fn obj :
  frag_digest bytes = DOk ctl fn RvOk obj ->
  exists rest, bytes = ctl :: fn :: rest /\
    N.testbit ctl 7 = true /\ N.testbit ctl 6 = true /\ (fn <> 0 -> N.testbit ctl 4 = false).
Proof.
  intros H. apply frag_digest_ok in H. destruct H as (pf & Hp & Hc & Hf & Hrv & _).
  destruct (parse_fragment_ok _ _ Hp) as (c & f & r & Hb & Hctl & Hfn & _).
  destruct (ato_request (pf_header pf)) eqn:Er; [discriminate Hrv|].
  apply ato_request_none in Er. destruct Er as (_ & E1 & E2 & E3).
  rewrite Hctl in E1, E2, E3. rewrite fir_bit in E1. rewrite fin_bit in E2. rewrite uns_bit in E3.
  subst bytes. cbn [nth] in Hc. subst ctl. rewrite Hfn in Hf, E3. subst fn.
  exists r. repeat split; assumption.
Qed.

Lemma wf_request_digest bytes :
  wf_request bytes <->
  exists hdrs rh, frag_digest bytes = DOk (nth 0 bytes 0) (nth 1 bytes 0) RvOk (ObjOk hdrs rh).
Proof.
  split.
  - intros (pf & hs & Hp & Hr & Hh).
    destruct (parse_fragment_ok _ _ Hp) as (c & f & r & Hb & _ & Hfn & _).
    exists (map whdr_of hs), (map hdr_is_read hs).
    unfold frag_digest. rewrite Hp. unfold digest_of_parsed. rewrite Hr, Hh, Hfn. subst bytes. reflexivity.
  - intros (hdrs & rh & H). apply frag_digest_ok in H. destruct H as (pf & Hp & _ & _ & Hrv & Ho).
    destruct (ato_request (pf_header pf)) eqn:Er; [discriminate Hrv|].
    destruct (headers_of pf) as [hs|e] eqn:Eh; [|discriminate Ho].
    exists pf, hs. auto.
Qed.

Lemma to_treq_request_inv cfg from d ctl fn obj :
  to_treq cfg from d = TqRequest ctl fn obj -> accepted_master cfg from /\ d = DOk ctl fn RvOk obj.
Proof.
  unfold to_treq, accepted_master. destruct (o_any_master cfg); cbn [negb andb].
  - intros H. split; [left; reflexivity|].
    destruct d as [|sq code|ctl0 fn0 [|] obj0]; try discriminate. inversion H; reflexivity.
  - destruct (from =? o_master cfg) eqn:E; cbn [negb]; [|discriminate]. apply N.eqb_eq in E.
    intros H. split; [right; exact E|].
    destruct d as [|sq code|ctl0 fn0 [|] obj0]; try discriminate. inversion H; reflexivity.
Qed.

Lemma to_treq_accepted cfg from d :
  accepted_master cfg from ->
  to_treq cfg from d = match d with
                       | DInsuf => TqError None
                       | DUnknown seq _ => TqError (Some seq)
                       | DOk ctl fn RvBad _ => TqError (Some (ctl_seq ctl))
                       | DOk ctl fn RvOk obj => TqRequest ctl fn obj
                       end.
Proof.
  unfold to_treq, accepted_master. intros [H|H].
  - rewrite H. reflexivity.
  - subst from. rewrite N.eqb_refl. cbn [negb]. rewrite andb_false_r. reflexivity.
Qed.

(* ---- a step of the composed model for a received fragment --------------------------------------- *)

(* what `fstep F st (FRx from bc bytes)` runs: the session event carries the digest computed from the octets,
   the database is the one of the state *)
Definition frx_out (F : fcfg) (st : fstate) (from : N) (bc : option bcast_mode) (bytes : list N) : rout :=
  fevent_out F st (fs_db st) (ERx from bc bytes (frag_digest bytes)).

Lemma fstep_frx F st from bc bytes :
  fstep F st (FRx from bc bytes) =
  ({| fs_s := ro_s (frx_out F st from bc bytes); fs_db := ro_db (frx_out F st from bc bytes) |},
   FDigest (frag_digest bytes) (frag_rv_code bytes) :: ro_log (frx_out F st from bc bytes)).
Proof. reflexivity. Qed.

Lemma fstep_fsleep F st ms :
  fstep F st (FSleep ms) =
  ({| fs_s := ro_s (fevent_out F st (fs_db st) (ESleep ms)); fs_db := ro_db (fevent_out F st (fs_db st) (ESleep ms)) |},
   ro_log (fevent_out F st (fs_db st) (ESleep ms))).
Proof. reflexivity. Qed.

(* the session's part of a composed step IS a step of the session model, on the answers the replay computed *)
Lemma fevent_run F st d ev :
  ostep (f_o F) (fs_s st) ev (ro_answers (fevent_out F st d ev)) =
  (ro_s (fevent_out F st d ev), ro_out (fevent_out F st d ev)).
Proof.
  unfold fevent_out.
  destruct (replay_event_inv F d (ctx_of (f_o F) (fs_s st) ev) (fun a => ostep (f_o F) (fs_s st) ev a)) as (_ & _ & H).
  exact H.
Qed.

(* ---- every observation in the log is an observation of a session step ---------------------------- *)

Section LogObs.
  Variable F : fcfg.
  Variable P : oobs -> Prop.

  Definition log_ok (log : list fobs) : Prop := forall o, In (FObs o) log -> P o.

  Lemma log_ok_obs o log : P o -> log_ok log -> log_ok (FObs o :: log).
  Proof. intros Ho Hl x [Hx|Hx]; [inversion Hx; subst; exact Ho|apply Hl; exact Hx]. Qed.

  Lemma log_ok_other x log : (forall o, x <> FObs o) -> log_ok log -> log_ok (x :: log).
  Proof. intros Hx Hl o [H|H]; [exfalso; exact (Hx o H)|apply Hl; exact H]. Qed.

  Lemma log_ok_app l1 l2 : log_ok l1 -> log_ok l2 -> log_ok (l1 ++ l2).
  Proof. intros H1 H2 o Hin. apply in_app_or in Hin. destruct Hin; auto. Qed.

  Lemma log_ok_tx o : log_ok (tx_log o).
  Proof. destruct o; cbn [tx_log]; intros x Hx; try destruct Hx as [Hx|[]]; try discriminate Hx; destruct Hx. Qed.

  Lemma log_ok_flag u : log_ok (flag_unmodelled u).
  Proof. destruct u; intros x Hx; [destruct Hx as [Hx|[]]; discriminate Hx|destruct Hx]. Qed.

  Definition wres_ok (w : wres) : Prop :=
    match w with WDone _ _ log => log_ok log | WAsk _ _ log _ _ => log_ok log | WBad log => log_ok log end.

  Lemma walk_log : forall rest d c n log, log_ok log -> Forall P rest -> wres_ok (walk F d c n log rest).
  Proof.
    induction rest as [|o tl IH]; intros d c n log Hl Hr; cbn [walk]; [exact Hl|].
    inversion Hr as [|x l Ho Htl]; subst.
    assert (Hlo : log_ok (FObs o :: log)) by (apply log_ok_obs; assumption).
    destruct o as [dest bytes|call|cb|i| |t| |].
    - apply IH; [|exact Htl]. apply log_ok_app; [apply log_ok_tx|exact Hlo].
    - destruct call as [| |c1 c2 c3| | | |].
      + destruct tl as [|[] tl']; try exact Hl.
        destruct (select_headers d _) as [[d1 v] u]. cbn [wres_ok].
        apply log_ok_app; [apply log_ok_flag|]. apply log_ok_other; [discriminate|exact Hlo].
      + destruct tl as [|[] tl']; try exact Hl.
        destruct (write_answer F d) as [d1 a]. cbn [wres_ok]. apply log_ok_other; [discriminate|exact Hlo].
      + destruct (unsol_answer F d c1 c2 c3) as [d1 [cnt body]].
        destruct (cnt =? 0); cbn [wres_ok]; [exact Hl|]. apply log_ok_other; [discriminate|exact Hlo].
      + destruct (db_clear_written d) as [d1 [ids cnt]]. apply IH; [|exact Htl].
        apply log_ok_other; [discriminate|exact Hlo].
      + apply IH; assumption.
      + destruct tl as [|[] tl']; try exact Hl. cbn [wres_ok]. apply log_ok_other; [discriminate|exact Hlo].
      + destruct tl as [|[] tl']; try exact Hl.
        destruct (select_deferred d _) as [[d1 v] u]. cbn [wres_ok].
        apply log_ok_app; [apply log_ok_flag|]. apply log_ok_other; [discriminate|exact Hlo].
    - apply IH; [|exact Htl]. exact Hlo.
    - destruct i; (apply IH; [|exact Htl]; exact Hlo).
    - apply IH; [|exact Htl]. exact Hlo.
    - apply IH; [|exact Htl]. exact Hlo.
    - exact Hl.
    - apply IH; [|exact Htl]. exact Hlo.
  Qed.

  Variable run : list answer -> ostate * list oobs.
  Hypothesis Hrun : forall a, Forall P (snd (run a)).

  Lemma Forall_skipn_P k : forall l : list oobs, Forall P l -> Forall P (skipn k l).
  Proof.
    induction k as [|k IH]; intros l H; [exact H|]. destruct l as [|x l]; [constructor|].
    cbn [skipn]. apply IH. inversion H; assumption.
  Qed.

  Lemma replay_log fuel : forall r r',
    log_ok (rs_log r) -> replay fuel F run r = RDone r' \/ replay fuel F run r = RFail r' -> log_ok (rs_log r').
  Proof.
    induction fuel as [|f IH]; intros r r' Hl H; cbn [replay] in H.
    { destruct H as [H|H]; [discriminate|]. inversion H; subst. exact Hl. }
    pose proof (walk_log _ (rs_db r) (rs_ctx r) (rs_settled r) (rs_log r) Hl
                  (Forall_skipn_P (rs_settled r) _ (Hrun (rs_answers r ++ [sentinel])))) as Hw.
    destruct (walk F (rs_db r) (rs_ctx r) (rs_settled r) (rs_log r)
                   (skipn (rs_settled r) (snd (run (rs_answers r ++ [sentinel]))))) as [d c log|d c log a k|log].
    - destruct H as [H|H]; [|discriminate]. inversion H; subst. exact Hw.
    - eapply IH; [|exact H]. exact Hw.
    - destruct H as [H|H]; [discriminate|]. inversion H; subst. exact Hw.
  Qed.
End LogObs.

Local Transparent replay_event.
Lemma replay_event_log F P run d c :
  (forall a, Forall P (snd (run a))) -> log_ok P (ro_log (replay_event F d c run)).
Proof.
  intros Hrun. unfold replay_event. cbv zeta.
  match goal with |- context [replay replay_fuel F run ?x] => set (r0 := x) end.
  assert (H0 : log_ok P (rs_log r0)) by (intros o []).
  destruct (replay replay_fuel F run r0) as [r|r] eqn:R.
  - pose proof (replay_log F P run Hrun _ _ _ H0 (or_introl R)) as Hl.
    destruct (run (rs_answers r)) as [s1 out]. cbn [ro_log]. intros o Hin. apply in_rev in Hin.
    destruct (forallb _ out && _); [apply Hl; exact Hin|].
    destruct Hin as [Hin|Hin]; [discriminate Hin|apply Hl; exact Hin].
  - pose proof (replay_log F P run Hrun _ _ _ H0 (or_intror R)) as Hl.
    destruct (run (rs_answers r)) as [s1 out]. cbn [ro_log]. intros o Hin. apply in_rev in Hin.
    destruct Hin as [Hin|Hin]; [discriminate Hin|apply Hl; exact Hin].
Qed.
Local Opaque replay_event.

(* every session observation in the log of a received fragment's step occurs in the output of the session
   step for that fragment under SOME answers: a property that holds of the session step for ALL answers
   holds of the log *)
Theorem frx_log_obs F st from bc bytes (P : oobs -> Prop) :
  (forall a, Forall P (snd (ostep (f_o F) (fs_s st) (ERx from bc bytes (frag_digest bytes)) a))) ->
  forall o, In (FObs o) (snd (fstep F st (FRx from bc bytes))) -> P o.
Proof.
  intros H o Hin. rewrite fstep_frx in Hin. cbn [snd] in Hin. destruct Hin as [Hin|Hin]; [discriminate Hin|].
  unfold frx_out, fevent_out in Hin. eapply replay_event_log; [|exact Hin]. exact H.
Qed.

(* ---- FReach implies the reachability predicates of the session-level proofs ------------------------ *)

Lemma fstart_state F sel op iin :
  fs_s (fst (fstart F sel op iin)) = fst (ostart (f_o F) sel op iin (ro_answers (fstart_out F sel op iin))) /\
  snd (ostart (f_o F) sel op iin (ro_answers (fstart_out F sel op iin))) = ro_out (fstart_out F sel op iin).
Proof.
  unfold fstart. cbn [fst fs_s]. unfold fstart_out.
  destruct (replay_event_inv F (fdb_new F) ctx_start (fun a => ostart (f_o F) sel op iin a)) as (_ & _ & H).
  cbv beta in H. rewrite H. split; reflexivity.
Qed.

Lemma fstep_state F st op :
  fs_s (fst (fstep F st op)) =
  fst (ostep (f_o F) (fs_s st) (snd (fop_event st op))
         (ro_answers (fevent_out F st (fst (fop_event st op)) (snd (fop_event st op))))) /\
  snd (ostep (f_o F) (fs_s st) (snd (fop_event st op))
         (ro_answers (fevent_out F st (fst (fop_event st op)) (snd (fop_event st op))))) =
  ro_out (fevent_out F st (fst (fop_event st op)) (snd (fop_event st op))).
Proof.
  destruct (fstep_fevent F st op) as [-> _]. unfold fevent. cbn [fst fs_s].
  rewrite fevent_run. split; reflexivity.
Qed.

Lemma fop_event_digest st op :
  match snd (fop_event st op) with ERx _ _ bytes d => d = frag_digest bytes | _ => True end.
Proof. destruct op; cbn; auto. Qed.

(* C12's ReachD with the digest function of the composed model (hence its invariant K: the recorded last
   request carries its own sequence number and passed the request validation) *)
Theorem freach_reachD F st : FReach F st -> SessionC12Proofs.ReachD (f_o F) frag_digest (fs_s st).
Proof.
  induction 1 as [sel op iin|st op _ IH].
  - rewrite (proj1 (fstart_state F sel op iin)). apply SessionC12Proofs.ReachD_start.
  - rewrite (proj1 (fstep_state F st op)). apply SessionC12Proofs.ReachD_step; [exact IH|].
    unfold SessionC12Proofs.ev_ok. exact (fop_event_digest st op).
Qed.

Theorem freach_reach12 F st : FReach F st -> SessionC12Proofs.Reach SessionC12Proofs.any_answers (f_o F) (fs_s st).
Proof. intros H. apply SessionC12Proofs.ReachD_Reach with (dg := frag_digest). apply freach_reachD. exact H. Qed.

(* C05's Reach carries the history *)
Theorem freach_reach05 F st : FReach F st -> exists h, SessionC05Proofs.Reach (f_o F) h (fs_s st).
Proof.
  induction 1 as [sel op iin|st op _ [h IH]].
  - destruct (fstart_state F sel op iin) as [E1 E2].
    exists (ro_out (fstart_out F sel op iin)). rewrite E1.
    eapply SessionC05Proofs.Reach_start. rewrite <- E2. apply surjective_pairing.
  - destruct (fstep_state F st op) as [E1 E2].
    eexists (h ++ _). rewrite E1. eapply SessionC05Proofs.Reach_step; [exact IH|]. apply surjective_pairing.
Qed.

Theorem freach_J F st : FReach F st -> SessionLemmas_c04.J (fs_s st).
Proof. exact (freach_boundary_inv F st). Qed.

(* ================================================================================================ *)
(* 1. C04: OPERATE actuates only after its own matching, fresh, directly preceding SELECT               *)

(* In the log of the composed step for the received octets `bytes`, a select-before-operate callback of
   the control handler occurs only if: the fragment is not a broadcast, comes from an accepted master,
   octet 1 is 4 (OPERATE), octet 0 has FIR and FIN set and UNS clear, the objects parse, and the session
   state holds a select whose recorded request octets are `bytes` from octet 2 on, whose sequence number
   is the predecessor of this one (octet 0 mod 16), whose frame id is the previous fragment's (its
   successor is this fragment's frame id), and which is not older than the select timeout. *)
Theorem frx_sbo_operate_needs_matching_select : forall F st from bc bytes g v idx obj,
  FReach F st ->
  In (FObs (OCb (CbOperate g v idx OpSbo obj))) (snd (fstep F st (FRx from bc bytes))) ->
  bc = None /\ accepted_master (f_o F) from /\ wf_request bytes /\
  exists c rest sel,
    bytes = c :: 4 :: rest /\
    N.testbit c 7 = true /\ N.testbit c 6 = true /\ N.testbit c 4 = false /\
    s_select (fs_s st) = Some sel /\
    ss_objects sel = rest /\
    seq16_next (ss_seq sel) = c mod 16 /\
    (ss_frame_id sel + 1) mod 4294967296 = (s_frame_id (fs_s st) + 1) mod 4294967296 /\
    (s_now (fs_s st) - ss_time sel <= o_select_ms (f_o F))%Z.
Proof.
  intros F st from bc bytes g v idx obj HR Hin.
  pose proof (freach_J F st HR) as HJ.
  match goal with |- ?G =>
    assert (H : forall o, In (FObs o) (snd (fstep F st (FRx from bc bytes))) -> o = OCb (CbOperate g v idx OpSbo obj) -> G);
      [apply (frx_log_obs F st from bc bytes (fun o => o = OCb (CbOperate g v idx OpSbo obj) -> G))
      |exact (H _ Hin eq_refl)] end.
  clear Hin.
  intros a. apply Forall_forall. intros x Hx Hxo. subst x.
  destruct (SessionC04Proofs.sbo_operate_needs_matching_select _ _ _ _ _ _ _ _ HJ Hx)
    as (from' & bytes' & d & ctl & hdrs & rh & sel & Hev & Htq & Hsel & Hseq & Hfid & Hobj & Htime).
  inversion Hev; subst from' bytes' d bc; clear Hev.
  apply to_treq_request_inv in Htq. destruct Htq as [Hacc Hd].
  destruct (frag_digest_rvok _ _ _ _ Hd) as (rest & Hb & H7 & H6 & H4).
  split; [reflexivity|]. split; [exact Hacc|]. split.
  { apply wf_request_digest. exists hdrs, rh. rewrite Hd. subst bytes. reflexivity. }
  exists ctl, rest, sel. subst bytes. cbn [objects_of skipn] in Hobj.
  split; [reflexivity|]. split; [exact H7|]. split; [exact H6|]. split; [apply H4; discriminate|].
  split; [exact Hsel|]. split; [exact Hobj|]. split; [exact Hseq|]. split; [exact Hfid|exact Htime].
Qed.

(* non-vacuity: SELECT then OPERATE of one CROB (g12v1, index 7) in the composed model *)
Definition cx_F : fcfg :=
  {| f_o := {| o_master := 1; o_any_master := false; o_unsol := false; o_broadcast := true;
               o_confirm_ms := 5000; o_select_ms := 5000; o_retries := None; o_retry_delay_ms := 5000;
               o_max_controls := None; o_sol_tx := 2048; o_delay_ms := 0; o_cold := None; o_warm := None;
               o_wtime := 0; o_freeze := 0 |};
     f_unsol_tx := 2048; f_evbuf := 5 |}.
Definition cx_crob : list N := [3; 1; 100; 0; 0; 0; 100; 0; 0; 0; 0].
Definition cx_objs : list N := [12; 1; 23; 1; 7] ++ cx_crob.
Definition cx_sel : list N := [197; 3] ++ cx_objs.
Definition cx_op : list N := [198; 4] ++ cx_objs.
Definition cx_st0 : fstate := fst (fstart cx_F 0 0 0).
Definition cx_selected : fstate := ffinal cx_F cx_st0 [FRx 1 None cx_sel].

Definition has_sbo (l : list fobs) : bool :=
  existsb (fun x => match x with FObs (OCb (CbOperate _ _ _ OpSbo _)) => true | _ => false end) l.

Example ex_frx_sbo_operate :
  FReach cx_F cx_selected /\
  In (FObs (OCb (CbOperate 12 1 7 OpSbo cx_crob))) (snd (fstep cx_F cx_selected (FRx 1 None cx_op))) /\
  s_select (fs_s cx_selected) = Some {| ss_seq := 5; ss_frame_id := 1; ss_time := 0; ss_objects := cx_objs |} /\
  s_frame_id (fs_s cx_selected) = 1 /\
  has_sbo (snd (fstep cx_F cx_st0 (FRx 1 None cx_op))) = false /\
  has_sbo (snd (fstep cx_F cx_selected (FRx 1 None ([199; 4] ++ cx_objs)))) = false /\
  has_replay_error (snd (fstep cx_F cx_selected (FRx 1 None cx_op))) = false.
Proof.
  split; [apply FReach_ffinal; constructor|]. vm_compute. intuition.
Qed.

(* ================================================================================================ *)
(* 2. C05: a retransmitted request is answered from memory and never executed twice                    *)

Module L05 := SessionLemmas_c05.
Module P05 := SessionC05Proofs.

(* a step that calls the database nowhere leaves it alone: when the session step for the event makes no
   database call and asks nothing WHATEVER answers it is offered, the replay converges at once, computes no
   answer, and the database of the composed model is the one the step started with *)
Definition dbfree (o : oobs) : Prop := match o with ODb _ | OMissingAnswer => False | _ => True end.

Lemma walk_dbfree F : forall rest d c n log, Forall dbfree rest -> exists c' log', walk F d c n log rest = WDone d c' log'.
Proof.
  induction rest as [|o tl IH]; intros d c n log H; cbn [walk]; [eauto|].
  inversion H as [|x l Ho Htl]; subst.
  destruct o as [dest bytes|call|cb|i| |t| |]; try (destruct Ho); try (apply IH; exact Htl).
  destruct i; apply IH; exact Htl.
Qed.


Local Transparent replay_event.
Lemma replay_event_dbfree F d c run :
  (forall a, Forall dbfree (snd (run a))) ->
  ro_db (replay_event F d c run) = d /\ ro_answers (replay_event F d c run) = [] /\
  run [] = (ro_s (replay_event F d c run), ro_out (replay_event F d c run)).
Proof.
  intros H. unfold replay_event. cbv zeta. change replay_fuel with (S 2999). rewrite replay_S.
  cbn [rs_answers rs_db rs_ctx rs_settled rs_log app skipn].
  destruct (walk_dbfree F (snd (run [sentinel])) d c 0 [] (H [sentinel])) as (c' & log' & ->).
  cbn [rs_answers]. destruct (run []) as [s1 out]. cbn [ro_db ro_answers ro_s ro_out rs_db rs_answers]. auto.
Qed.
Local Opaque replay_event.

Theorem fevent_db_untouched F st d ev :
  (forall a, Forall dbfree (snd (ostep (f_o F) (fs_s st) ev a))) ->
  ro_db (fevent_out F st d ev) = d /\ ro_answers (fevent_out F st d ev) = [] /\
  ostep (f_o F) (fs_s st) ev [] = (ro_s (fevent_out F st d ev), ro_out (fevent_out F st d ev)).
Proof. intros H. unfold fevent_out. apply (replay_event_dbfree F d _ (fun a => ostep (f_o F) (fs_s st) ev a)). exact H. Qed.

(* ---- the session model, exactly, where the step consists of the repeat's answer alone ---------------- *)


(* in the unsolicited confirm wait, the deadline further away than the settling time: the echo, nothing else *)
Lemma ostep_repeat_unsol_wait_exact cfg s from bytes d ans ctl fn obj resp resp0 n rt dl :
  s_control s = CUnsolWait resp0 n rt dl -> (s_now s + settle_ms < dl)%Z ->
  to_treq cfg from d = TqRequest ctl fn obj -> classify s None bytes ctl fn obj = FtRepeatNonRead resp ->
  snd (ostep cfg s (ERx from None bytes d) ans) = L05.echo_of s from resp.
Proof.
  intros Hc Hdl Et Ecl. rewrite ostep_rx.
  rewrite (P05.on_rx_unsol cfg (upd_answers s ans) from None bytes d resp0 n rt dl) by exact Hc.
  rewrite (L05.unsol_wait_fragment_repeat cfg _ resp0 from bytes d _ ctl fn obj resp);
    [|exact Et|rewrite <- Ecl; apply L05.classify_last; reflexivity].
  change 64%nat with (S 63). rewrite advance_stay.
  - cbn [snd]. rewrite app_nil_r. apply L05.echo_of_buf. reflexivity.
  - unfold next_deadline, P05.rx_state. L05.psimpl. rewrite Hc. exact Hdl.
Qed.

(* idle, unsolicited responses disabled, the remembered response does not ask for a confirmation: the
   notification and the echo, nothing else *)
Definition calm (s : ostate) : Prop := s_control s = CIdle /\ s_pending s = None /\ s_deferred s = None.

Lemma St2_calm cfg f s : o_unsol cfg = false -> calm s ->
  exists s', idle_run (S (S (S (S (S (S (S f))))))) cfg St2 s = (s', []) /\ s_control s' = CIdle /\ s_now s' = s_now s.
Proof.
  intros Hu (Hc & Hp & Hd).
  assert (Hcu : forall x, check_unsolicited cfg x = (x, false, [])) by (intros x; unfold check_unsolicited; rewrite Hu; reflexivity).
  assert (Hnil : forall (x : ostate) (o : list oobs), (let '(s3, o3) := (x, o) in (s3, [] ++ o3)) = (x, o)) by reflexivity.
  rewrite L05.idle_run_S, Hcu. cbv beta iota. rewrite Hc.
  rewrite L05.idle_run_S, (L05.handle_deferred_none cfg s false Hd). cbv beta iota. rewrite Hc.
  rewrite L05.idle_run_S, Hp. destruct (s_notify s) eqn:En.
  - rewrite L05.idle_run_S. L05.psimpl. rewrite Hp. cbv beta iota. L05.psimpl. rewrite Hc.
    rewrite L05.idle_run_S, Hcu. cbv beta iota. L05.psimpl. rewrite Hc.
    rewrite L05.idle_run_S, (L05.handle_deferred_none cfg (upd_notify s false) false Hd). cbv beta iota. L05.psimpl. rewrite Hc.
    rewrite L05.idle_run_S. L05.psimpl. rewrite Hp.
    eexists. split; [reflexivity|]. split; [exact Hc|reflexivity].
  - eexists. split; [reflexivity|]. split; [exact Hc|reflexivity].
Qed.

Lemma ostep_repeat_idle_exact cfg s from bytes d ans ctl fn obj resp :
  s_control s = CIdle -> s_deferred s = None -> o_unsol cfg = false ->
  (forall r, resp = Some r -> ctl_con (r_ctl r) = false) ->
  to_treq cfg from d = TqRequest ctl fn obj -> classify s None bytes ctl fn obj = FtRepeatNonRead resp ->
  snd (ostep cfg s (ERx from None bytes d) ans) = OInfo (IIdleRequest fn (ctl_seq ctl)) :: L05.echo_of s from resp.
Proof.
  intros Hc Hd Hu Hcon Et Ecl. rewrite ostep_rx.
  rewrite P05.on_rx_idle by exact Hc. unfold idle_loop. change (4 * 8)%nat with (S 31).
  rewrite L05.idle_run_S. L05.psimpl.
  rewrite L05.handle_from_idle_unfold, Et. cbv zeta.
  rewrite (L05.classify_last s) by reflexivity. rewrite Ecl.
  set (s1 := L05.touch_select _ _).
  assert (Hf : L05.frame (upd_pending (P05.rx_state (upd_answers s ans)) None) s1) by apply L05.touch_select_frame.
  destruct Hf as [(F1 & F2 & F3 & F4 & F5 & F6) F7]. unfold P05.rx_state in F1, F3, F7. L05.psimpl_in F1. L05.psimpl_in F3. L05.psimpl_in F4. L05.psimpl_in F7.
  assert (Hnow : s_now s1 = s_now s).
  { subst s1. unfold L05.touch_select. destruct (s_select _) as [sel|]; [|reflexivity]. destruct (_ =? _); reflexivity. }
  unfold L05.finish_fn. destruct resp as [r|].
  - unfold L05.confirm_series. rewrite (Hcon r eq_refl).
    set (s2 := upd_last s1 _).
    assert (Hcalm : calm s2) by (subst s2; unfold calm; L05.psimpl; rewrite F1, F3, F4, Hc, Hd; auto).
    replace (s_control s2) with CIdle by (symmetry; apply Hcalm).
    destruct (St2_calm cfg 24 s2 Hu Hcalm) as (s3 & E3 & Hc3 & Hn3). rewrite E3.
    change 64%nat with (S 63). rewrite advance_stay.
    + cbn [snd app]. rewrite !app_nil_r. unfold repeat_solicited, L05.echo_of. rewrite F7. reflexivity.
    + unfold next_deadline. rewrite Hc3, Hu. exact I.
  - set (s2 := upd_last s1 _).
    assert (Hcalm : calm s2) by (subst s2; unfold calm; L05.psimpl; rewrite F1, F3, F4, Hc, Hd; auto).
    replace (s_control s2) with CIdle by (symmetry; apply Hcalm).
    destruct (St2_calm cfg 24 s2 Hu Hcalm) as (s3 & E3 & Hc3 & Hn3). rewrite E3.
    change 64%nat with (S 63). rewrite advance_stay.
    + cbn [snd app]. reflexivity.
    + unfold next_deadline. rewrite Hc3, Hu. exact I.
Qed.

(* ---- from the octets to the classification ------------------------------------------------------------ *)

(* the octets received equal the octets of the last request accepted (s_last), the request is well-formed and
   not a READ: the session classifies it as the repetition of that request, whatever the control state *)
Lemma frx_repeat_classified F st from bytes l :
  FReach F st -> accepted_master (f_o F) from ->
  s_last (fs_s st) = Some l -> lr_bytes l = bytes -> nth 1 bytes 0 <> 1 -> wf_request bytes ->
  exists obj,
    frag_digest bytes = DOk (nth 0 bytes 0) (nth 1 bytes 0) RvOk obj /\
    to_treq (f_o F) from (frag_digest bytes) = TqRequest (nth 0 bytes 0) (nth 1 bytes 0) obj /\
    classify (fs_s st) None bytes (nth 0 bytes 0) (nth 1 bytes 0) obj = FtRepeatNonRead (lr_response l).
Proof.
  intros HR Hacc Hl Hb Hnr Hwf.
  apply wf_request_digest in Hwf. destruct Hwf as (hdrs & rh & Hd).
  pose proof (SessionC12Proofs.ReachD_K _ _ _ (freach_reachD F st HR)) as (K1 & _).
  destruct (K1 l Hl) as (ctl & fn & obj & Hdg & Hseq & Hf0 & _).
  rewrite Hb, Hd in Hdg. inversion Hdg; subst ctl fn obj; clear Hdg.
  exists (ObjOk hdrs rh). split; [exact Hd|]. split; [rewrite (to_treq_accepted _ _ _ Hacc), Hd; reflexivity|].
  apply L05.classify_repeat_nonread_iff. split; [exact Hf0|]. split; [exact Hnr|]. split; [eauto|].
  exists l. auto.
Qed.

(* THEOREM C05 (composed).  The octets of the last request accepted from the master arrive again (unicast, from
   an accepted master), the request being well-formed and not a READ.  Then, in every control state:
   - NOTHING IS EXECUTED: no observation in the log of the composed step is a callback of the control handler
     or the application, or the clearing of the RESTART bit;
   - the session's observations are pre ++ echo ++ post: echo is the STORED response octets (nothing if no
     response was stored: echo_of), pre is the notification of the request (idle), nothing (unsolicited
     confirm wait) or the abort of the solicited series (repeat_prefix), post is the idle loop and the timers
     going on (no callback, no request taken up: bg). *)
Theorem frx_repeat_not_reexecuted : forall F st from bytes l,
  FReach F st -> accepted_master (f_o F) from ->
  s_last (fs_s st) = Some l -> lr_bytes l = bytes -> nth 1 bytes 0 <> 1 -> wf_request bytes ->
  (forall o, In (FObs o) (snd (fstep F st (FRx from None bytes))) -> L05.quiet o = true) /\
  exists pre post,
    ro_out (frx_out F st from None bytes) = pre ++ L05.echo_of (fs_s st) from (lr_response l) ++ post /\
    forallb L05.bg post = true /\
    P05.repeat_prefix (s_control (fs_s st)) (nth 1 bytes 0) (nth 0 bytes 0 mod 16) pre.
Proof.
  intros F st from bytes l HR Hacc Hl Hb Hnr Hwf.
  destruct (frx_repeat_classified F st from bytes l HR Hacc Hl Hb Hnr Hwf) as (obj & _ & Et & Ecl).
  destruct (freach_reach05 F st HR) as [h Hh].
  split.
  - apply (frx_log_obs F st from None bytes (fun o => L05.quiet o = true)).
    intros a. apply Forall_forall. intros o Ho.
    destruct (ostep (f_o F) (fs_s st) (ERx from None bytes (frag_digest bytes)) a) as [s' out] eqn:E.
    destruct (P05.repeat_not_reexecuted _ _ _ _ _ _ _ _ _ _ _ _ _ Hh Et Ecl E) as [_ Hq].
    rewrite forallb_forall in Hq. apply Hq. exact Ho.
  - pose proof (fevent_run F st (fs_db st) (ERx from None bytes (frag_digest bytes))) as E.
    destruct (P05.repeat_not_reexecuted _ _ _ _ _ _ _ _ _ _ _ _ _ Hh Et Ecl E) as [(pre & post & Ho & Hbg & Hp) _].
    exists pre, post. auto.
Qed.

(* THE DATABASE.  Where the step consists of the repeat's answer alone, the database model is not called at
   all and `fs_db` after the step is `fs_db` before it:
   (a) in the unsolicited confirm wait, the confirm deadline further away than the settling millisecond:
       the session's observations are exactly the stored response octets (or nothing);
   (b) idle, unsolicited responses disabled, the stored response (if any) not asking for a confirmation:
       exactly the notification and the stored response octets.
   Not in general: in the solicited confirm wait the repeat aborts the series (ISolNewRequest, database reset:
   repeat_prefix), and in every state the idle loop and the timers go on in the same step (post: a new
   unsolicited response, a confirm time-out), which legitimately call the database. *)
Theorem frx_repeat_database_untouched : forall F st from bytes l,
  FReach F st -> accepted_master (f_o F) from ->
  s_last (fs_s st) = Some l -> lr_bytes l = bytes -> nth 1 bytes 0 <> 1 -> wf_request bytes ->
  let pre := match s_control (fs_s st) with
             | CIdle => [OInfo (IIdleRequest (nth 1 bytes 0) (nth 0 bytes 0 mod 16))]
             | _ => []
             end in
  match s_control (fs_s st) with
  | CUnsolWait _ _ _ dl => (s_now (fs_s st) + settle_ms < dl)%Z
  | CIdle => o_unsol (f_o F) = false /\ (forall r, lr_response l = Some r -> ctl_con (r_ctl r) = false)
  | CSolWait _ _ _ => False
  end ->
  fs_db (fst (fstep F st (FRx from None bytes))) = fs_db st /\
  ro_answers (frx_out F st from None bytes) = [] /\
  ro_out (frx_out F st from None bytes) = pre ++ L05.echo_of (fs_s st) from (lr_response l).
Proof.
  intros F st from bytes l HR Hacc Hl Hb Hnr Hwf pre Hside.
  destruct (frx_repeat_classified F st from bytes l HR Hacc Hl Hb Hnr Hwf) as (obj & _ & Et & Ecl).
  pose proof (freach_J F st HR) as [_ HJ2].
  assert (Hout : forall a, snd (ostep (f_o F) (fs_s st) (ERx from None bytes (frag_digest bytes)) a)
                           = pre ++ L05.echo_of (fs_s st) from (lr_response l)).
  { intros a. subst pre. destruct (s_control (fs_s st)) as [|se dl r|resp0 n rt dl] eqn:Ec; [|destruct Hside|].
    - destruct Hside as [Hu Hcon]. destruct HJ2 as [Hd|Hd]; [|destruct Hd].
      apply (ostep_repeat_idle_exact _ _ _ _ _ _ _ _ _ _ Ec Hd Hu Hcon Et Ecl).
    - apply (ostep_repeat_unsol_wait_exact _ _ _ _ _ _ _ _ _ _ _ _ _ _ Ec Hside Et Ecl). }
  assert (Hfree : forall a, Forall dbfree (snd (ostep (f_o F) (fs_s st) (ERx from None bytes (frag_digest bytes)) a))).
  { intros a. rewrite Hout. apply Forall_app. split.
    - subst pre. destruct (s_control (fs_s st)); repeat constructor.
    - destruct (lr_response l); repeat constructor. }
  destruct (fevent_db_untouched F st (fs_db st) _ Hfree) as (Hdb & Hans & Hrun).
  rewrite fstep_frx. cbn [fst fs_db]. unfold frx_out.
  split; [exact Hdb|]. split; [exact Hans|].
  rewrite <- (Hout []), Hrun. reflexivity.
Qed.

(* non-vacuity: a WRITE clearing the RESTART bit, repeated from idle (unsolicited responses disabled) *)
Definition cx_wr : list N := [195; 2; 80; 1; 0; 7; 7; 0].
Definition cx_written : fstate := ffinal cx_F cx_st0 [FRx 1 None cx_wr].

Example ex_frx_repeat_idle :
  FReach cx_F cx_written /\ accepted_master (f_o cx_F) 1 /\ wf_request cx_wr /\
  (exists l, s_last (fs_s cx_written) = Some l /\ lr_bytes l = cx_wr /\
             lr_response l = Some {| r_ctl := 195; r_fn := 129; r_iin1 := 0; r_iin2 := 0; r_size := 0 |}) /\
  s_control (fs_s cx_written) = CIdle /\
  ro_out (frx_out cx_F cx_st0 1 None cx_wr) =
    [OInfo (IIdleRequest 2 3); OInfo IClearRestart; ODb DbEvinfo; OTx 1 [195; 129; 0; 0]] /\
  ro_out (frx_out cx_F cx_written 1 None cx_wr) = [OInfo (IIdleRequest 2 3); OTx 1 [195; 129; 0; 0]] /\
  fs_db (fst (fstep cx_F cx_written (FRx 1 None cx_wr))) = fs_db cx_written /\
  has_replay_error (snd (fstep cx_F cx_written (FRx 1 None cx_wr))) = false.
Proof.
  split; [apply FReach_ffinal; constructor|]. split; [right; reflexivity|].
  split; [apply wf_request_digest; eexists; eexists; vm_compute; reflexivity|].
  split; [eexists; vm_compute; repeat split|]. vm_compute. repeat split.
Qed.

(* ================================================================================================ *)
(* 3. C14: a READ during the unsolicited confirm wait is deferred and answered from the database as it  *)
(*    is when the series ends                                                                          *)

Module P14 := SessionC14Proofs.
Module P11 := SessionC11Proofs.

(* ---- reception: nothing is done ------------------------------------------------------------------- *)

Lemma ostep_read_deferred_exact cfg s resp n ret dl from bytes d a ctl hdrs rh :
  s_control s = CUnsolWait resp n ret dl -> (s_now s + settle_ms < dl)%Z ->
  to_treq cfg from d = TqRequest ctl 1 (ObjOk hdrs rh) ->
  ostep cfg s (ERx from None bytes d) a =
  (upd_now (deferred_set (upd_frame_id (upd_answers s a) (P14.next_fid s)) bytes (ctl_seq ctl) from rh)
           (s_now s + settle_ms), []).
Proof.
  intros Hc Hdl Et. rewrite ostep_rx.
  rewrite (P14.read_deferred cfg (upd_answers s a) resp n ret dl from bytes d ctl hdrs rh Hc Et).
  change 64%nat with (S 63). rewrite advance_stay; [reflexivity|].
  unfold next_deadline. L05.psimpl. rewrite Hc. exact Hdl.
Qed.

(* THEOREM C14a (composed).  During an unsolicited confirm wait whose deadline is further away than the
   settling millisecond, the octets of a well-formed unicast READ request from an accepted master arrive.
   The composed step calls the database nowhere (`fs_db` unchanged, no answer computed), the session observes
   and transmits NOTHING, the wait goes on, and the request is kept: its octets, its sequence number
   (octet 0 mod 16) and its source. *)
Theorem frx_read_deferred : forall F st from bytes resp n ret dl,
  s_control (fs_s st) = CUnsolWait resp n ret dl -> (s_now (fs_s st) + settle_ms < dl)%Z ->
  accepted_master (f_o F) from -> wf_request bytes -> nth 1 bytes 0 = 1 ->
  let st' := fst (fstep F st (FRx from None bytes)) in
  fs_db st' = fs_db st /\
  ro_answers (frx_out F st from None bytes) = [] /\ ro_out (frx_out F st from None bytes) = [] /\
  s_control (fs_s st') = CUnsolWait resp n ret dl /\
  exists x, s_deferred (fs_s st') =
            Some {| df_bytes := bytes; df_seq := nth 0 bytes 0 mod 16; df_from := from; df_iin2 := x |}.
Proof.
  intros F st from bytes resp n ret dl Hc Hdl Hacc Hwf Hfn st'.
  apply wf_request_digest in Hwf. destruct Hwf as (hdrs & rh & Hd). rewrite Hfn in Hd.
  assert (Et : to_treq (f_o F) from (frag_digest bytes) = TqRequest (nth 0 bytes 0) 1 (ObjOk hdrs rh))
    by (rewrite (to_treq_accepted _ _ _ Hacc), Hd; reflexivity).
  assert (Hfree : forall a, Forall dbfree (snd (ostep (f_o F) (fs_s st) (ERx from None bytes (frag_digest bytes)) a))).
  { intros a. rewrite (ostep_read_deferred_exact _ _ _ _ _ _ _ _ _ a _ _ _ Hc Hdl Et). constructor. }
  destruct (fevent_db_untouched F st (fs_db st) _ Hfree) as (Hdb & Hans & Hrun).
  rewrite (ostep_read_deferred_exact _ _ _ _ _ _ _ _ _ [] _ _ _ Hc Hdl Et) in Hrun.
  injection Hrun as Hs Ho.
  subst st'. rewrite fstep_frx. cbn [fst fs_db fs_s]. unfold frx_out.
  split; [exact Hdb|]. split; [exact Hans|]. split; [symmetry; exact Ho|].
  rewrite <- Hs. L05.psimpl. split; [exact Hc|]. eexists. reflexivity.
Qed.

(* ---- the step that ends the series: the answers the replay computes ---------------------------------- *)

Definition not_iin2 (a : list answer) : Prop := match a with AIin2 _ :: _ => False | _ => True end.

Lemma skipn_app_len {A} (pre : list A) : forall x tl, skipn (S (length pre)) (pre ++ x :: tl) = tl.
Proof. induction pre as [|y pre IH]; intros x tl; [reflexivity|]. cbn [length app]. exact (IH x tl). Qed.

Lemma skipn_app_len2 {A} (pre : list A) x y tl : skipn (S (S (length pre))) (pre ++ x :: y :: tl) = tl.
Proof. change (pre ++ x :: y :: tl) with (pre ++ [x] ++ y :: tl). rewrite app_assoc.
  replace (S (S (length pre))) with (S (length (pre ++ [x]))) by (rewrite app_length; cbn; lia). apply skipn_app_len. Qed.

Lemma in_rev_cons_err (l : list fobs) : In FReplayError (rev (FReplayError :: l)).
Proof. apply in_rev. rewrite rev_involutive. left. reflexivity. Qed.

Local Transparent replay_event.
Section DeferredAnswers.
  Variable F : fcfg.
  Variable run : list answer -> ostate * list oobs.
  Variables (d dpre : db) (c : wctx) (pre : list oobs).
  (* the observations before the deferred READ is taken up contain no question; replaying them takes the
     database from d to dpre and leaves the context alone *)
  Hypothesis Hpre : forall tl, exists log', walk F d c 0 [] (pre ++ tl) = walk F dpre c (length pre) log' tl.
  Hypothesis H0 : forall a, not_iin2 a -> exists tl, snd (run a) = pre ++ ODb DbDeferredSelect :: OMissingAnswer :: tl.
  Hypothesis H1 : forall v a, P11.no_write a ->
    exists tl, snd (run (AIin2 v :: a)) = pre ++ ODb DbDeferredSelect :: ODb DbWrite :: OMissingAnswer :: tl.
  Hypothesis H2 : forall v cp he b a, P11.no_evinfo a ->
    exists tl, snd (run (AIin2 v :: AWrite cp he b :: a)) =
               pre ++ ODb DbDeferredSelect :: ODb DbWrite :: ODb DbEvinfo :: OMissingAnswer :: tl.

  Lemma replay_deferred_answers :
    let ro := replay_event F d c run in
    ~ In FReplayError (ro_log ro) ->
    let sel := select_deferred dpre (request_headers (deferred_request c)) in
    let w := db_write_response (fst (fst sel)) (N.of_nat (o_sol_tx (f_o F)) - 4) in
    exists more,
      ro_answers ro = AIin2 (snd (fst sel)) :: AWrite (snd (snd w)) (snd (fst (snd w))) (fst (fst (snd w)))
                      :: evinfo_answer_of (fst w) :: more.
  Proof.
    intros ro Hno sel w. subst ro. unfold replay_event in *. cbv zeta in Hno |- *.
    match goal with |- context [replay replay_fuel F run ?x] => set (r0 := x) in * end.
    set (v := snd (fst sel)). set (d1 := fst (fst sel)).
    set (body := fst (fst (snd w))). set (he := snd (fst (snd w))). set (cp := snd (snd w)).
    set (k := length pre).
    assert (W1 : exists log1, walk F (rs_db r0) (rs_ctx r0) (rs_settled r0) (rs_log r0)
                   (skipn (rs_settled r0) (snd (run (rs_answers r0 ++ [sentinel]))))
                 = WAsk d1 c log1 (AIin2 v) (S k)).
    { subst r0. cbn [rs_db rs_ctx rs_settled rs_log rs_answers skipn app].
      destruct (H0 [sentinel] I) as [tl ->]. destruct (Hpre (ODb DbDeferredSelect :: OMissingAnswer :: tl)) as [log' ->].
      cbn [walk]. subst v d1 sel. fold k. destruct (select_deferred dpre (request_headers (deferred_request c))) as [[dd vv] u].
      cbn [fst snd]. eexists. reflexivity. }
    destruct W1 as [log1 W1].
    change replay_fuel with (S (S (S 2997))) in *.
    rewrite (replay_step _ F run r0 _ _ _ _ _ W1) in *.
    match goal with |- context [replay (S (S 2997)) F run ?x] => set (r1 := x) in * end.
    assert (W2 : exists log2, walk F (rs_db r1) (rs_ctx r1) (rs_settled r1) (rs_log r1)
                   (skipn (rs_settled r1) (snd (run (rs_answers r1 ++ [sentinel]))))
                 = WAsk (fst w) c log2 (AWrite cp he body) (S (S k))).
    { subst r1 r0. cbn [rs_db rs_ctx rs_settled rs_log rs_answers app].
      destruct (H1 v [sentinel] I) as [tl ->]. subst k. rewrite skipn_app_len.
      cbn [walk]. unfold write_answer. subst cp he body w. fold d1.
      destruct (db_write_response d1 (N.of_nat (o_sol_tx (f_o F)) - 4)) as [d2 [[bs e] cpl]]. cbn [fst snd].
      eexists. reflexivity. }
    destruct W2 as [log2 W2].
    rewrite (replay_step _ F run r1 _ _ _ _ _ W2) in *.
    match goal with |- context [replay (S 2997) F run ?x] => set (r2 := x) in * end.
    assert (W3 : exists log3, walk F (rs_db r2) (rs_ctx r2) (rs_settled r2) (rs_log r2)
                   (skipn (rs_settled r2) (snd (run (rs_answers r2 ++ [sentinel]))))
                 = WAsk (fst w) c log3 (evinfo_answer_of (fst w)) (S (S (S k)))).
    { subst r2 r1 r0. cbn [rs_db rs_ctx rs_settled rs_log rs_answers app].
      destruct (H2 v cp he body [sentinel] I) as [tl ->]. subst k. rewrite skipn_app_len2.
      cbn [walk]. eexists. reflexivity. }
    destruct W3 as [log3 W3].
    rewrite (replay_step _ F run r2 _ _ _ _ _ W3) in *.
    match goal with |- context [replay 2997 F run ?x] => set (r3 := x) in * end.
    destruct (replay 2997 F run r3) as [rf|rf] eqn:R.
    - destruct (replay_extends 2997 F run r3 rf (or_introl R)) as [l Hl].
      destruct (run (rs_answers rf)) as [sx ox]. cbn [ro_answers]. exists l. rewrite Hl.
      subst r3 r2 r1 r0. cbn [rs_answers app]. reflexivity.
    - exfalso. destruct (run (rs_answers rf)) as [sx ox]. cbn [ro_log] in Hno. apply Hno. apply in_rev_cons_err.
  Qed.
End DeferredAnswers.
Local Opaque replay_event.

(* ---- handle_deferred_read, by the answers it finds --------------------------------------------------- *)

Lemma handle_deferred_q0 cfg s ns df :
  s_deferred s = Some df -> not_iin2 (s_answers s) ->
  exists tl, snd (handle_deferred cfg s ns) = ODb DbDeferredSelect :: OMissingAnswer :: tl.
Proof.
  intros Hd Ha. unfold handle_deferred. rewrite Hd. unfold ask_iin2. L05.psimpl.
  destruct (s_answers s) as [|[v|cp he b|cnt b|c1 c2 c3 ov] rest]; try contradiction;
    (match goal with |- context [format_read_response ?x ?f ?q ?i] => destruct (format_read_response x f q i) as [[[s2 r] se] o2] end;
     match goal with |- context [write_solicited ?x ?f ?q] => destruct (write_solicited x f q) as [[s3 r'] o3] end;
     match goal with |- context [match ?se' with Some _ => _ | None => _ end] => destruct se' end;
     cbn [snd app]; eexists; reflexivity).
Qed.

Lemma handle_deferred_q1 cfg s ns df v rest :
  s_deferred s = Some df -> s_answers s = AIin2 v :: rest -> P11.no_write rest ->
  exists tl, snd (handle_deferred cfg s ns) = ODb DbDeferredSelect :: ODb DbWrite :: OMissingAnswer :: tl.
Proof.
  intros Hd Ha Hn. unfold handle_deferred. rewrite Hd. unfold ask_iin2. L05.psimpl. rewrite Ha.
  match goal with |- context [format_read_response ?x ?f ?q ?i] =>
    destruct (P11.format_read_response_nowrite x f q i Hn) as (s2 & r & se & ->) end.
  match goal with |- context [write_solicited ?x ?f ?q] => destruct (write_solicited x f q) as [[s3 r'] o3] end.
  match goal with |- context [match ?se' with Some _ => _ | None => _ end] => destruct se' end;
    cbn [snd app]; eexists; reflexivity.
Qed.

Lemma handle_deferred_q2 cfg s ns df v cp he b rest :
  s_deferred s = Some df -> s_answers s = AIin2 v :: AWrite cp he b :: rest -> P11.no_evinfo rest ->
  exists tl, snd (handle_deferred cfg s ns) =
             ODb DbDeferredSelect :: ODb DbWrite :: ODb DbEvinfo :: OMissingAnswer :: tl.
Proof.
  intros Hd Ha Hn. unfold handle_deferred. rewrite Hd. unfold ask_iin2. L05.psimpl. rewrite Ha.
  match goal with |- context [format_read_response ?x ?f ?q ?i] =>
    destruct (P11.format_read_response_exact x f q i cp he b rest eq_refl) as (s2 & -> & A2 & _) end.
  rewrite <- A2 in Hn.
  match goal with |- context [write_solicited s2 ?f ?q] =>
    destruct (P11.write_solicited_noevinfo s2 f q Hn) as (s3 & r' & bb & ->) end.
  match goal with |- context [match ?se' with Some _ => _ | None => _ end] => destruct se' end;
    cbn [snd app]; eexists; reflexivity.
Qed.

(* ---- the step in which the confirm timeout fires with a READ pending ----------------------------------- *)

Lemma sleep_ends_series cfg s resp n ret dl df ms a :
  s_control s = CUnsolWait resp n ret dl -> s_deferred s = Some df -> (dl <= s_now s + ms)%Z ->
  exists sx ns tl,
    s_answers sx = a /\ s_deferred sx = Some df /\
    snd (ostep cfg s (ESleep ms) a) =
    (OAt (Z.max dl (s_now s)) :: OInfo (IUnsolTimeout (ctl_seq (r_ctl resp)) false) :: (if n then [] else [ODb DbReset]))
    ++ snd (handle_deferred cfg sx ns) ++ tl.
Proof.
  intros Hc Hd Hle. rewrite ostep_sleep. set (s0 := upd_answers s a).
  assert (Hn : next_deadline cfg s0 = Some dl) by (unfold next_deadline; subst s0; L05.psimpl; rewrite Hc; reflexivity).
  change 4096%nat with (S 4095). change (s_now s) with (s_now s0).
  rewrite (P14.advance_first _ cfg s0 _ dl Hn Hle).
  unfold fire_deadline. L05.psimpl. subst s0. L05.psimpl. rewrite Hc. cbv zeta. L05.psimpl. rewrite Hd, andb_false_r.
  unfold end_unsol. destruct n.
  - rewrite resume_at_eq. change 32%nat with (S 31). rewrite L05.idle_run_S.
    match goal with |- context [handle_deferred cfg ?x ?y] => exists x, y; destruct (handle_deferred cfg x y) as [s3 o3] end.
    destruct (s_control s3).
    + match goal with |- context [idle_run 31 cfg ?st s3] => destruct (idle_run 31 cfg st s3) as [s4 o4] end.
      match goal with |- context [advance 4095 cfg ?x ?y] => destruct (advance 4095 cfg x y) as [s5 o5] end.
      exists (o4 ++ o5). split; [reflexivity|]. split; [exact Hd|]. cbn [snd app]. rewrite <- ?app_assoc. reflexivity.
    + match goal with |- context [advance 4095 cfg ?x ?y] => destruct (advance 4095 cfg x y) as [s5 o5] end.
      exists o5. split; [reflexivity|]. split; [exact Hd|]. cbn [snd app]. rewrite <- ?app_assoc. reflexivity.
    + match goal with |- context [advance 4095 cfg ?x ?y] => destruct (advance 4095 cfg x y) as [s5 o5] end.
      exists o5. split; [reflexivity|]. split; [exact Hd|]. cbn [snd app]. rewrite <- ?app_assoc. reflexivity.
  - rewrite resume_at_eq. change 32%nat with (S 31). rewrite L05.idle_run_S.
    match goal with |- context [handle_deferred cfg ?x ?y] => exists x, y; destruct (handle_deferred cfg x y) as [s3 o3] end.
    destruct (s_control s3).
    + match goal with |- context [idle_run 31 cfg ?st s3] => destruct (idle_run 31 cfg st s3) as [s4 o4] end.
      match goal with |- context [advance 4095 cfg ?x ?y] => destruct (advance 4095 cfg x y) as [s5 o5] end.
      exists (o4 ++ o5). split; [reflexivity|]. split; [exact Hd|]. cbn [snd app]. rewrite <- ?app_assoc. reflexivity.
    + match goal with |- context [advance 4095 cfg ?x ?y] => destruct (advance 4095 cfg x y) as [s5 o5] end.
      exists o5. split; [reflexivity|]. split; [exact Hd|]. cbn [snd app]. rewrite <- ?app_assoc. reflexivity.
    + match goal with |- context [advance 4095 cfg ?x ?y] => destruct (advance 4095 cfg x y) as [s5 o5] end.
      exists o5. split; [reflexivity|]. split; [exact Hd|]. cbn [snd app]. rewrite <- ?app_assoc. reflexivity.
Qed.

(* the deferred READ's sequence number is a sequence number *)
Lemma freach_deferred_seq F st df : FReach F st -> s_deferred (fs_s st) = Some df -> df_seq df < 16.
Proof.
  intros HR Hd. pose proof (SessionC12Proofs.ReachD_K _ _ _ (freach_reachD F st HR)) as (_ & _ & K3 & _).
  destruct (K3 df Hd) as (ctl & obj & _ & ->). unfold ctl_seq. apply N.mod_lt. discriminate.
Qed.

(* THEOREM C14b (composed).  A READ is deferred (`s_deferred = Some df`) and the confirm timeout of the
   unsolicited response fires in this step (`FSleep ms` reaching the deadline).  With a READ pending there is
   no retry: the series ends (database reset unless the response was the empty one), and the READ is answered
   in THIS step from the database as it is NOW - `fs_db st`, every transaction of the user since the reception
   included: select_deferred (reset, then the read headers of the kept request octets) on that database, then
   db_write_response, then the IIN bits of the database as the write left it.  These are the answers the replay
   computes, and the transmitted fragment carries exactly the octets db_write_response produced, with the
   request's sequence number and FIR set, to the request's source. *)
Theorem fsleep_deferred_read_served : forall F st resp n ret dl df ms,
  FReach F st ->
  s_control (fs_s st) = CUnsolWait resp n ret dl -> s_deferred (fs_s st) = Some df ->
  (dl <= s_now (fs_s st) + ms)%Z ->
  let ro := fevent_out F st (fs_db st) (ESleep ms) in
  ~ In FReplayError (ro_log ro) ->
  let d0 := if n then fs_db st else db_reset (fs_db st) in
  let sel := select_deferred d0 (request_headers (df_bytes df)) in
  let w := db_write_response (fst (fst sel)) (N.of_nat (o_sol_tx (f_o F)) - 4) in
  let body := fst (fst (snd w)) in
  let has_events := snd (fst (snd w)) in
  let complete := snd (snd w) in
  exists con iin1 iin2 tail more,
    ro_answers ro = AIin2 (snd (fst sel)) :: AWrite complete has_events body :: evinfo_answer_of (fst w) :: more /\
    ro_out ro =
      (OAt (Z.max dl (s_now (fs_s st))) :: OInfo (IUnsolTimeout (ctl_seq (r_ctl resp)) false)
       :: (if n then [] else [ODb DbReset])) ++
      [ODb DbDeferredSelect; ODb DbWrite; ODb DbEvinfo;
       OTx (df_from df) ([ctl_byte true complete con false (df_seq df); 129; iin1; iin2] ++ body)] ++ tail.
Proof.
  intros F st resp n ret dl df ms HR Hc Hd Hle ro Hno d0 sel w body has_events complete.
  set (cfg := f_o F) in *. set (s := fs_s st) in *.
  set (pre := OAt (Z.max dl (s_now s)) :: OInfo (IUnsolTimeout (ctl_seq (r_ctl resp)) false) :: (if n then [] else [ODb DbReset])).
  set (run := fun a => ostep cfg s (ESleep ms) a).
  assert (Hctx : deferred_request (ctx_of cfg s (ESleep ms)) = df_bytes df).
  { unfold deferred_request, ctx_of. cbn [wc_ev_read wc_deferred]. rewrite Hd. reflexivity. }
  assert (Hans : exists more, ro_answers ro = AIin2 (snd (fst sel)) :: AWrite complete has_events body
                                              :: evinfo_answer_of (fst w) :: more).
  { subst ro. unfold fevent_out in *. fold cfg s run in Hno |- *.
    pose proof (replay_deferred_answers F run (fs_db st) d0 (ctx_of cfg s (ESleep ms)) pre) as H.
    rewrite Hctx in H. apply H; [| | | |exact Hno]; clear H.
    - intros tl. subst pre d0. destruct n; cbn [walk app length tx_log]; eexists; reflexivity.
    - intros a Ha. unfold run. destruct (sleep_ends_series cfg s resp n ret dl df ms a Hc Hd Hle) as (sx & ns & tl & A1 & A2 & ->).
      rewrite <- A1 in Ha. destruct (handle_deferred_q0 cfg sx ns df A2 Ha) as [tl' ->].
      fold pre. eexists. cbn [app]. reflexivity.
    - intros v a Ha. unfold run.
      destruct (sleep_ends_series cfg s resp n ret dl df ms (AIin2 v :: a) Hc Hd Hle) as (sx & ns & tl & A1 & A2 & ->).
      destruct (handle_deferred_q1 cfg sx ns df v a A2 A1 Ha) as [tl' ->].
      fold pre. eexists. cbn [app]. reflexivity.
    - intros v cp he b a Ha. unfold run.
      destruct (sleep_ends_series cfg s resp n ret dl df ms (AIin2 v :: AWrite cp he b :: a) Hc Hd Hle) as (sx & ns & tl & A1 & A2 & ->).
      destruct (handle_deferred_q2 cfg sx ns df v cp he b a A2 A1 Ha) as [tl' ->].
      fold pre. eexists. cbn [app]. reflexivity. }
  destruct Hans as [more Hans].
  pose proof (fevent_run F st (fs_db st) (ESleep ms)) as Hrun. fold ro cfg s in Hrun.
  destruct (evinfo_answer_of (fst w)) as [v0|c0 e0 b0|n0 b0|c1 c2 c3 ovf] eqn:Eev;
    try (unfold evinfo_answer_of in Eev; destruct (db_unwritten_classes (fst w)) as [[? ?] ?]; discriminate Eev).
  destruct (sleep_ends_series cfg s resp n ret dl df ms (ro_answers ro) Hc Hd Hle) as (sx & ns & tl & A1 & A2 & Ho).
  rewrite Hrun in Ho. cbn [snd] in Ho.
  destruct (handle_deferred cfg sx ns) as [s' o'] eqn:Eh.
  rewrite Hans in A1.
  destruct (P11.first_fragment_deferred cfg sx ns df _ complete has_events body c1 c2 c3 ovf more s' o' A2
              (freach_deferred_seq F st df HR Hd) A1 Eh) as (iin1 & iin2 & Ho' & _).
  eexists _, iin1, iin2, _, more. split; [exact Hans|].
  rewrite Ho. cbn [snd]. rewrite Ho'. fold pre. rewrite <- !app_assoc. reflexivity.
Qed.

(* ---- the step in which the CONFIRM of the unsolicited response arrives with a READ pending ------------- *)

Lemma bcast_confirmed_same s u q :
  s_answers (bcast_confirmed s u q) = s_answers s /\ s_deferred (bcast_confirmed s u q) = s_deferred s.
Proof. unfold bcast_confirmed. destruct (rep_eqb (s_bcast_rep s) u q); split; reflexivity. Qed.

Lemma confirm_ends_series cfg s resp n ret dl df from bytes d ctl obj a :
  s_control s = CUnsolWait resp n ret dl -> s_deferred s = Some df ->
  to_treq cfg from d = TqRequest ctl fn_confirm obj -> ctl_uns ctl = true -> ctl_seq ctl = ctl_seq (r_ctl resp) ->
  exists sx tl,
    s_answers sx = a /\ s_deferred sx = Some df /\
    snd (ostep cfg s (ERx from None bytes d) a) =
    (OInfo (IUnsolConfirmed (ctl_seq (r_ctl resp))) :: (if n then [] else [ODb DbClearWritten]))
    ++ snd (handle_deferred cfg sx true) ++ tl.
Proof.
  intros Hc Hd Et Hu Hq. rewrite ostep_rx.
  rewrite (P05.on_rx_unsol cfg (upd_answers s a) from None bytes d resp n ret dl) by exact Hc.
  unfold unsol_wait_fragment. rewrite Et. cbv zeta. unfold classify. change (fn_confirm =? fn_confirm) with true. cbv iota.
  rewrite Hu, Hq, N.eqb_refl.
  match goal with |- context [bcast_confirmed ?x ?u ?q] =>
    pose proof (bcast_confirmed_same x u q) as [B1 B2]; set (sb := bcast_confirmed x u q) in * end.
  unfold P05.rx_state in B1, B2. L05.psimpl_in B1. L05.psimpl_in B2.
  unfold end_unsol. destruct n.
  - rewrite resume_at_eq. change 32%nat with (S 31). rewrite L05.idle_run_S.
    match goal with |- context [handle_deferred cfg ?x ?y] => exists x; destruct (handle_deferred cfg x y) as [s3 o3] end.
    destruct (s_control s3).
    + match goal with |- context [idle_run 31 cfg ?st s3] => destruct (idle_run 31 cfg st s3) as [s4 o4] end.
      match goal with |- context [advance 64 cfg ?x ?y] => destruct (advance 64 cfg x y) as [s5 o5] end.
      exists (o4 ++ o5). L05.psimpl. split; [exact B1|]. split; [rewrite B2; exact Hd|]. cbn [snd app]. rewrite <- ?app_assoc. reflexivity.
    + match goal with |- context [advance 64 cfg ?x ?y] => destruct (advance 64 cfg x y) as [s5 o5] end.
      exists o5. L05.psimpl. split; [exact B1|]. split; [rewrite B2; exact Hd|]. cbn [snd app]. rewrite <- ?app_assoc. reflexivity.
    + match goal with |- context [advance 64 cfg ?x ?y] => destruct (advance 64 cfg x y) as [s5 o5] end.
      exists o5. L05.psimpl. split; [exact B1|]. split; [rewrite B2; exact Hd|]. cbn [snd app]. rewrite <- ?app_assoc. reflexivity.
  - rewrite resume_at_eq. change 32%nat with (S 31). rewrite L05.idle_run_S.
    match goal with |- context [handle_deferred cfg ?x ?y] => exists x; destruct (handle_deferred cfg x y) as [s3 o3] end.
    destruct (s_control s3).
    + match goal with |- context [idle_run 31 cfg ?st s3] => destruct (idle_run 31 cfg st s3) as [s4 o4] end.
      match goal with |- context [advance 64 cfg ?x ?y] => destruct (advance 64 cfg x y) as [s5 o5] end.
      exists (o4 ++ o5). L05.psimpl. split; [exact B1|]. split; [rewrite B2; exact Hd|]. cbn [snd app]. rewrite <- ?app_assoc. reflexivity.
    + match goal with |- context [advance 64 cfg ?x ?y] => destruct (advance 64 cfg x y) as [s5 o5] end.
      exists o5. L05.psimpl. split; [exact B1|]. split; [rewrite B2; exact Hd|]. cbn [snd app]. rewrite <- ?app_assoc. reflexivity.
    + match goal with |- context [advance 64 cfg ?x ?y] => destruct (advance 64 cfg x y) as [s5 o5] end.
      exists o5. L05.psimpl. split; [exact B1|]. split; [rewrite B2; exact Hd|]. cbn [snd app]. rewrite <- ?app_assoc. reflexivity.
Qed.

(* THEOREM C14c (composed).  The same when the series ends because the CONFIRM of the unsolicited response
   arrives: octet 1 = 0, UNS set in octet 0, sequence number (octet 0 mod 16) that of the outstanding
   response.  The written events are released first (unless the response was the empty one), then the deferred
   READ is selected and written from the database as that left it. *)
Theorem frx_confirm_deferred_read_served : forall F st from bytes resp n ret dl df,
  FReach F st ->
  s_control (fs_s st) = CUnsolWait resp n ret dl -> s_deferred (fs_s st) = Some df ->
  accepted_master (f_o F) from -> wf_request bytes ->
  nth 1 bytes 0 = 0 -> N.testbit (nth 0 bytes 0) 4 = true -> nth 0 bytes 0 mod 16 = ctl_seq (r_ctl resp) ->
  let ro := frx_out F st from None bytes in
  ~ In FReplayError (ro_log ro) ->
  let d0 := if n then fs_db st else fst (db_clear_written (fs_db st)) in
  let sel := select_deferred d0 (request_headers (df_bytes df)) in
  let w := db_write_response (fst (fst sel)) (N.of_nat (o_sol_tx (f_o F)) - 4) in
  let body := fst (fst (snd w)) in
  let has_events := snd (fst (snd w)) in
  let complete := snd (snd w) in
  exists con iin1 iin2 tail more,
    ro_answers ro = AIin2 (snd (fst sel)) :: AWrite complete has_events body :: evinfo_answer_of (fst w) :: more /\
    ro_out ro =
      (OInfo (IUnsolConfirmed (ctl_seq (r_ctl resp))) :: (if n then [] else [ODb DbClearWritten])) ++
      [ODb DbDeferredSelect; ODb DbWrite; ODb DbEvinfo;
       OTx (df_from df) ([ctl_byte true complete con false (df_seq df); 129; iin1; iin2] ++ body)] ++ tail.
Proof.
  intros F st from bytes resp n ret dl df HR Hc Hd Hacc Hwf Hfn Huns Hseq ro Hno d0 sel w body has_events complete.
  set (cfg := f_o F) in *. set (s := fs_s st) in *.
  apply wf_request_digest in Hwf. destruct Hwf as (hdrs & rh & Hdg). rewrite Hfn in Hdg.
  set (ctl := nth 0 bytes 0) in *. set (dg := frag_digest bytes) in *.
  assert (Et : to_treq cfg from dg = TqRequest ctl fn_confirm (ObjOk hdrs rh))
    by (rewrite (to_treq_accepted _ _ _ Hacc), Hdg; reflexivity).
  assert (Hu : ctl_uns ctl = true) by exact Huns.
  assert (Hq : ctl_seq ctl = ctl_seq (r_ctl resp)) by exact Hseq.
  set (pre := OInfo (IUnsolConfirmed (ctl_seq (r_ctl resp))) :: (if n then [] else [ODb DbClearWritten])).
  set (ev := ERx from None bytes dg).
  set (run := fun a => ostep cfg s ev a).
  assert (Hctx : deferred_request (ctx_of cfg s ev) = df_bytes df).
  { unfold deferred_request, ctx_of, ev, event_is_deferrable. rewrite Et. cbn [wc_ev_read wc_deferred].
    change (fn_confirm =? fn_read) with false. cbv iota. rewrite Hd. reflexivity. }
  assert (Hans : exists more, ro_answers ro = AIin2 (snd (fst sel)) :: AWrite complete has_events body
                                              :: evinfo_answer_of (fst w) :: more).
  { subst ro. unfold frx_out, fevent_out in *. fold cfg s dg ev run in Hno |- *.
    pose proof (replay_deferred_answers F run (fs_db st) d0 (ctx_of cfg s ev) pre) as H.
    rewrite Hctx in H. apply H; [| | | |exact Hno]; clear H.
    - intros tl. subst pre d0. destruct n; cbn [walk app length tx_log]; [eexists; reflexivity|].
      destruct (db_clear_written (fs_db st)) as [d1 [ids cnt]]. cbn [fst]. eexists. reflexivity.
    - intros a Ha. unfold run, ev.
      destruct (confirm_ends_series cfg s resp n ret dl df from bytes dg ctl _ a Hc Hd Et Hu Hq) as (sx & tl & A1 & A2 & ->).
      rewrite <- A1 in Ha. destruct (handle_deferred_q0 cfg sx true df A2 Ha) as [tl' ->].
      fold pre. eexists. cbn [app]. reflexivity.
    - intros v a Ha. unfold run, ev.
      destruct (confirm_ends_series cfg s resp n ret dl df from bytes dg ctl _ (AIin2 v :: a) Hc Hd Et Hu Hq) as (sx & tl & A1 & A2 & ->).
      destruct (handle_deferred_q1 cfg sx true df v a A2 A1 Ha) as [tl' ->].
      fold pre. eexists. cbn [app]. reflexivity.
    - intros v cp he b a Ha. unfold run, ev.
      destruct (confirm_ends_series cfg s resp n ret dl df from bytes dg ctl _ (AIin2 v :: AWrite cp he b :: a) Hc Hd Et Hu Hq)
        as (sx & tl & A1 & A2 & ->).
      destruct (handle_deferred_q2 cfg sx true df v cp he b a A2 A1 Ha) as [tl' ->].
      fold pre. eexists. cbn [app]. reflexivity. }
  destruct Hans as [more Hans].
  pose proof (fevent_run F st (fs_db st) ev) as Hrun. fold cfg s in Hrun. change (fevent_out F st (fs_db st) ev) with ro in Hrun.
  destruct (evinfo_answer_of (fst w)) as [v0|c0 e0 b0|n0 b0|c1 c2 c3 ovf] eqn:Eev;
    try (unfold evinfo_answer_of in Eev; destruct (db_unwritten_classes (fst w)) as [[? ?] ?]; discriminate Eev).
  destruct (confirm_ends_series cfg s resp n ret dl df from bytes dg ctl _ (ro_answers ro) Hc Hd Et Hu Hq) as (sx & tl & A1 & A2 & Ho).
  fold ev in Ho. rewrite Hrun in Ho. cbn [snd] in Ho.
  destruct (handle_deferred cfg sx true) as [s' o'] eqn:Eh.
  rewrite Hans in A1.
  destruct (P11.first_fragment_deferred cfg sx true df _ complete has_events body c1 c2 c3 ovf more s' o' A2
              (freach_deferred_seq F st df HR Hd) A1 Eh) as (iin1 & iin2 & Ho' & _).
  eexists _, iin1, iin2, _, more. split; [exact Hans|].
  rewrite Ho. cbn [snd]. rewrite Ho'. fold pre. rewrite <- !app_assoc. reflexivity.
Qed.

(* non-vacuity: a counter (value 10), a class 0 READ while the empty unsolicited response of start-up awaits its
   confirmation: deferred, nothing done; the user updates the counter to 99; the confirm timeout (or the
   CONFIRM) ends the series: the answer carries 99, the value at THAT moment (10 had the update not happened) *)
Definition cy_F : fcfg :=
  {| f_o := {| o_master := 1; o_any_master := false; o_unsol := true; o_broadcast := true;
               o_confirm_ms := 5000; o_select_ms := 5000; o_retries := None; o_retry_delay_ms := 5000;
               o_max_controls := None; o_sol_tx := 2048; o_delay_ms := 0; o_cold := None; o_warm := None;
               o_wtime := 0; o_freeze := 0 |};
     f_unsol_tx := 2048; f_evbuf := 5 |}.
Definition cy_count (v : N) : meas := mkMeas v 1 None [].
Definition cy_rd : list N := [193; 1; 60; 1; 6].
Definition cy_waiting : fstate :=
  ffinal cy_F (fst (fstart cy_F 0 0 0)) [FAdd TCounter 0 None; FUpdate TCounter 0 (cy_count 10)].
Definition cy_deferred : fstate := ffinal cy_F cy_waiting [FRx 1 None cy_rd].
Definition cy_updated : fstate := ffinal cy_F cy_deferred [FUpdate TCounter 0 (cy_count 99)].

Example ex_frx_read_deferred :
  FReach cy_F cy_waiting /\ accepted_master (f_o cy_F) 1 /\ wf_request cy_rd /\
  s_control (fs_s cy_waiting) =
    CUnsolWait {| r_ctl := 240; r_fn := 130; r_iin1 := 128; r_iin2 := 0; r_size := 0 |} true (Some 0%nat) 5000 /\
  s_now (fs_s cy_waiting) = 2%Z /\
  ro_out (frx_out cy_F cy_waiting 1 None cy_rd) = [] /\ fs_db cy_deferred = fs_db cy_waiting /\
  s_deferred (fs_s cy_deferred) = Some {| df_bytes := cy_rd; df_seq := 1; df_from := 1; df_iin2 := 0 |} /\
  has_replay_error (snd (fstep cy_F cy_waiting (FRx 1 None cy_rd))) = false.
Proof.
  split; [apply FReach_ffinal; constructor|]. split; [right; reflexivity|].
  split; [apply wf_request_digest; eexists; eexists; vm_compute; reflexivity|].
  vm_compute. repeat split.
Qed.

Example ex_deferred_read_served :
  FReach cy_F cy_updated /\
  has_replay_error (snd (fstep cy_F cy_updated (FSleep 5000))) = false /\
  ro_out (fevent_out cy_F cy_updated (fs_db cy_updated) (ESleep 5000)) =
    [OAt 5000; OInfo (IUnsolTimeout 0 false); ODb DbDeferredSelect; ODb DbWrite; ODb DbEvinfo;
     OTx 1 [193; 129; 128; 0; 20; 1; 1; 0; 0; 0; 0; 1; 99; 0; 0; 0];
     ODb DbEvinfo; OTx 1 [241; 130; 128; 0]; OInfo (IEnterUnsolWait 1)] /\
  ro_out (fevent_out cy_F cy_deferred (fs_db cy_deferred) (ESleep 5000)) =
    [OAt 5000; OInfo (IUnsolTimeout 0 false); ODb DbDeferredSelect; ODb DbWrite; ODb DbEvinfo;
     OTx 1 [193; 129; 128; 0; 20; 1; 1; 0; 0; 0; 0; 1; 10; 0; 0; 0];
     ODb DbEvinfo; OTx 1 [241; 130; 128; 0]; OInfo (IEnterUnsolWait 1)] /\
  wf_request [208; 0] /\
  has_replay_error (snd (fstep cy_F cy_updated (FRx 1 None [208; 0]))) = false /\
  ro_out (frx_out cy_F cy_updated 1 None [208; 0]) =
    [OInfo (IUnsolConfirmed 0); ODb DbDeferredSelect; ODb DbWrite; ODb DbEvinfo;
     OTx 1 [193; 129; 128; 0; 20; 1; 1; 0; 0; 0; 0; 1; 99; 0; 0; 0]].
Proof.
  split; [apply FReach_ffinal; apply FReach_ffinal; apply FReach_ffinal; constructor|].
  split; [vm_compute; reflexivity|]. split; [vm_compute; reflexivity|]. split; [vm_compute; reflexivity|].
  split; [apply wf_request_digest; eexists; eexists; vm_compute; reflexivity|].
  vm_compute. repeat split.
Qed.

(* ================================================================================================ *)
(* 4. C12: header errors are reported, in every control state                                          *)

Module L12 := SessionLemmas_c12.
Module P12 := SessionC12Proofs.

(* a solicited response with IIN2.0 NO_FUNC_CODE_SUPPORT and sequence number q *)
Definition err_resp (q : N) (b : list N) : Prop :=
  nth 1 b 0 = 129 /\ ctl_seq (nth 0 b 0) = q mod 16 /\ N.land (nth 3 b 0) 1 = 1.

(* exactly one solicited fragment in the output: that response, to `from`; whatever else is transmitted is
   an unsolicited response (function 130) *)
Definition reports_error (from q : N) (out : list oobs) : Prop :=
  exists pre b post, out = pre ++ OTx from b :: post /\ Forall P12.not_sol pre /\ Forall P12.not_sol post /\ err_resp q b.

Lemma wer_reports s from q s1 o :
  write_error_response s from None (Some q) = (s1, o) ->
  L12.same_core s s1 /\ exists pre b, o = pre ++ [OTx from b] /\ Forall L12.no_tx pre /\ err_resp q b.
Proof.
  intros H. apply L12.write_error_response_spec in H. destruct H as [Hc (r' & pre & G1 & G2 & G3)].
  split; [exact Hc|]. exists pre, (response_bytes r' (s_sol_buf s1)). split; [exact G2|]. split; [exact G3|].
  unfold err_resp. rewrite P12.response_bytes_nth0, P12.response_bytes_nth1, P12.response_bytes_nth3.
  pose proof (L12.sent_of_seq _ _ G1) as Hs. destruct G1 as (A & _ & _ & [x D]).
  split; [exact A|]. split; [rewrite Hs; cbn [empty_solicited r_ctl]; apply L12.ctl_byte_seq|].
  rewrite D. apply P12.land_lor_1.
Qed.

Lemma reports_error_intro from q pre0 pre b post :
  Forall P12.not_sol pre0 -> Forall L12.no_tx pre -> err_resp q b -> Forall P12.not_sol post ->
  reports_error from q (pre0 ++ (pre ++ [OTx from b]) ++ post).
Proof.
  intros H0 H1 Hb H2. exists (pre0 ++ pre), b, post. rewrite <- !app_assoc. cbn [app].
  split; [reflexivity|]. split; [apply Forall_app; split; [exact H0|apply P12.no_tx_not_sol; exact H1]|].
  split; assumption.
Qed.

Section HeaderError.
  Variable cfg : ocfg.
  Variables (from : N) (bytes : list N) (d : digest) (q : N).
  Hypothesis Et : to_treq cfg from d = TqError (Some q).

  Let IAany := P12.IA P12.szany.

  (* the idle loop at stage 1 with the offending fragment in the reader *)
  Lemma idle_run_err_St1 f s fid s' o :
    IAany s -> s_pending s = Some (from, None, bytes, d, fid) -> s_deferred s = None -> s_control s = CIdle ->
    idle_run (S f) cfg St1 s = (s', o) ->
    reports_error from q o /\ P12.quiet s' /\ IAany s'.
  Proof.
    intros HI Hp Hd Hc H. rewrite L05.idle_run_S, Hp in H.
    destruct (handle_from_idle cfg (upd_pending s None) from None bytes d fid) as [s1 o1] eqn:E1.
    assert (HI0 : IAany (upd_pending s None)) by exact HI.
    pose proof (P12.handle_from_idle_IA cfg P12.szany P12.szany_small (P12.szany_tx cfg) _ _ _ _ _ _ _ _ HI0 E1) as [HI1 _].
    rewrite L12.handle_from_idle_eq, Et in E1. apply wer_reports in E1.
    destruct E1 as [Hsc (pre & b & -> & Hpre & Hb)].
    destruct Hsc as (_ & C2 & _ & _ & _ & C6 & _ & C8 & _). L05.psimpl_in C2. L05.psimpl_in C6. L05.psimpl_in C8.
    assert (Q1 : P12.quiet s1) by (split; [exact C8|rewrite C6; exact Hd]).
    rewrite C2, Hc in H.
    destruct (idle_run f cfg St2 s1) as [s2 o2] eqn:E2. injection H as <- <-.
    pose proof (P12.idle_run_IA cfg P12.szany P12.szany_small (P12.szany_tx cfg) _ _ _ _ _ HI1 E2) as [HI2 _].
    apply P12.idle_run_quiet in E2; [|exact Q1]. destruct E2 as [Q2 Ho2].
    split; [|split; assumption].
    change (reports_error from q ([] ++ (pre ++ [OTx from b]) ++ o2)). apply reports_error_intro; auto.
  Qed.

  (* ... resumed at stage 2 or 4 after an aborted solicited series *)
  Lemma idle_run_err f st s fid s' o :
    (st = St2 \/ exists ns, st = St4 ns) ->
    IAany s -> s_pending s = Some (from, None, bytes, d, fid) -> s_deferred s = None -> s_control s = CIdle ->
    idle_run (S (S (S (S f)))) cfg st s = (s', o) ->
    reports_error from q o /\ P12.quiet s' /\ IAany s'.
  Proof.
    intros Hst HI Hp Hd Hc H. destruct Hst as [->|[ns ->]].
    - rewrite L05.idle_run_S in H.
      destruct (check_unsolicited cfg s) as [[s2 ns2] o2] eqn:E2.
      pose proof (P12.check_unsolicited_notsol _ _ _ _ _ E2) as Ho2.
      pose proof (P12.check_unsolicited_IA cfg P12.szany _ _ _ _ HI E2) as [HI2 _].
      apply L12.check_unsolicited_frame in E2. destruct E2 as (_ & Hcu & Hctl).
      destruct Hcu as (_ & _ & _ & D4 & D5 & _).
      destruct Hctl as [Hctl|(resp & is_null & retries & dl & Hctl)].
      + rewrite Hctl, Hc in H.
        rewrite L05.idle_run_S, (L05.handle_deferred_none cfg s2 false) in H by congruence. rewrite Hctl, Hc in H.
        rewrite L05.idle_run_S, D5, Hp in H.
        destruct (idle_run (S f) cfg St1 s2) as [s3 o3] eqn:E3.
        apply (idle_run_err_St1 f s2 fid) in E3; [|exact HI2|congruence|congruence|congruence].
        destruct E3 as [(pre & b & post & -> & R1 & R2 & R3) Hrest].
        injection H as <- <-. split; [|exact Hrest].
        exists (o2 ++ pre), b, post. cbn [app]. rewrite <- app_assoc. split; [reflexivity|].
        split; [apply Forall_app; split; assumption|]. split; assumption.
      + rewrite Hctl, D5, Hp in H.
        destruct (unsol_wait_fragment cfg (upd_pending s2 None) resp from None bytes d fid) as [[s3 res] o3] eqn:E3.
        assert (HI20 : IAany (upd_pending s2 None)) by exact HI2.
        pose proof (P12.unsol_wait_fragment_IA cfg P12.szany P12.szany_small (P12.szany_tx cfg) _ _ _ _ _ _ _ _ _ _ HI20 E3) as [HI3 _].
        unfold unsol_wait_fragment in E3. rewrite Et in E3.
        destruct (write_error_response (upd_deferred (upd_pending s2 None) None) from None (Some q)) as [s4 o4] eqn:E4.
        injection E3 as <- <- <-. apply wer_reports in E4. destruct E4 as [Hsc (pre & b & -> & Hpre & Hb)].
        destruct Hsc as (_ & _ & _ & _ & _ & C6 & _ & C8 & _). L05.psimpl_in C6. L05.psimpl_in C8.
        injection H as <- <-. split; [|split; [split; assumption|exact HI3]].
        replace (o2 ++ pre ++ [OTx from b]) with (o2 ++ (pre ++ [OTx from b]) ++ []) by (rewrite app_nil_r; reflexivity).
        apply reports_error_intro; auto.
    - rewrite L05.idle_run_S, Hp in H.
      replace (S (S (S f))) with (S (S (S f))) in H by reflexivity.
      eapply idle_run_err_St1; eauto.
  Qed.

  (* THEOREM (session level, every control state).  A unicast fragment with a header error that carries a
     sequence number (unknown function code, invalid flags: the reader's TqError (Some q)) from an accepted
     master is answered in the same step with exactly one solicited response: to the sender, sequence number q,
     IIN2.0 NO_FUNC_CODE_SUPPORT set.  Idle: C12_header_error_reported.  In the solicited confirm wait the series
     is aborted first (the fragment is a new request); in the unsolicited confirm wait the wait goes on. *)
  Theorem header_error_reported_all : forall AP s answers,
    P12.Reach AP cfg s ->
    reports_error from q (snd (ostep cfg s (ERx from None bytes d) answers)).
  Proof.
    intros AP s answers HR.
    pose proof (P12.Reach_J cfg AP s HR) as [J1 J2].
    pose proof (P12.Reach_Inv_any _ _ _ HR) as HInv.
    destruct (s_control s) as [|se dl r|resp is_null retries dl] eqn:Ec.
    - destruct (P12.header_error_reported AP cfg s from bytes d answers q HR Ec Et)
        as (pre & b & post & E & H1 & H2 & H3).
      exists pre, b, post. split; [exact E|]. split; [apply P12.no_tx_not_sol; exact H1|]. split; [exact H2|exact H3].
    - rewrite ostep_rx. set (s0 := upd_answers s answers).
      assert (HI0 : IAany s0) by (split; [exact HInv|apply P12.Forall_aok_any]).
      assert (Hd : s_deferred s = None) by (apply J2; reflexivity).
      rewrite (P05.on_rx_sol_new cfg s0 from None bytes d se dl r [OInfo ISolNewRequest]);
        [|exact Ec|unfold sol_wait_fragment; rewrite Et; reflexivity].
      match goal with |- context [resume_at cfg ?st ?sx] => destruct (resume_at cfg st sx) as [s2 o2] eqn:E2 end.
      rewrite resume_at_eq in E2. change 32%nat with (S (S (S (S 28)))) in E2.
      apply (idle_run_err 28 _ _ (P05.next_fid s0)) in E2;
        [|destruct r; cbn [stage_of]; eauto|split; [split; [exact (proj1 HInv)|exact I]|apply P12.Forall_aok_any]|reflexivity|exact Hd|reflexivity].
      destruct E2 as [(pre & b & post & -> & R1 & R2 & R3) [Q2 HI2]].
      destruct (advance 64 cfg s2 (s_now s2 + settle_ms)) as [s3 o3] eqn:E3.
      apply P12.advance_quiet in E3; [|exact HI2|exact Q2]. destruct E3 as [_ Ho3].
      cbn [snd]. exists (OInfo ISolNewRequest :: ODb DbReset :: pre), b, (post ++ o3).
      split; [cbn [app]; rewrite <- !app_assoc; reflexivity|].
      split; [constructor; [exact I|constructor; [exact I|exact R1]]|]. split; [apply Forall_app; split; assumption|exact R3].
    - rewrite ostep_rx. set (s0 := upd_answers s answers).
      assert (HI0 : IAany s0) by (split; [exact HInv|apply P12.Forall_aok_any]).
      destruct (on_rx cfg s0 from None bytes d) as [s1 o1] eqn:E1.
      pose proof (P12.on_rx_IA cfg P12.szany P12.szany_small (P12.szany_tx cfg) _ _ _ _ _ _ _ HI0 E1) as [HI1 _].
      rewrite (P05.on_rx_unsol cfg s0 from None bytes d resp is_null retries dl) in E1 by exact Ec.
      unfold unsol_wait_fragment in E1. rewrite Et in E1.
      destruct (write_error_response (upd_deferred (P05.rx_state s0) None) from None (Some q)) as [s4 o4] eqn:E4.
      injection E1 as <- <-. apply wer_reports in E4. destruct E4 as [Hsc (pre & b & -> & Hpre & Hb)].
      destruct Hsc as (_ & _ & _ & _ & _ & C6 & _ & C8 & _). unfold P05.rx_state in C6, C8. L05.psimpl_in C6. L05.psimpl_in C8.
      assert (Q4 : P12.quiet s4) by (split; [rewrite C8; exact J1|exact C6]).
      destruct (advance 64 cfg s4 (s_now s4 + settle_ms)) as [s3 o3] eqn:E3.
      apply P12.advance_quiet in E3; [|exact HI1|exact Q4]. destruct E3 as [_ Ho3].
      cbn [snd]. change (reports_error from q ([] ++ (pre ++ [OTx from b]) ++ o3)). apply reports_error_intro; auto.
  Qed.
End HeaderError.

(* which octets have such a digest: an unknown function code in octet 1; or a known request function code with
   FIR or FIN clear, or UNS set on anything but a CONFIRM, in octet 0 *)
Lemma frag_digest_unknown_function c f r :
  afunction_known f = false -> frag_digest (c :: f :: r) = DUnknown (c mod 16) f.
Proof. intros H. unfold frag_digest, parse_fragment, aparse_header. rewrite H, seq_bits. reflexivity. Qed.

Lemma frag_digest_bad_flags c f r :
  afunction_known f = true -> afunction_has_iin f = false ->
  (N.testbit c 7 = false \/ N.testbit c 6 = false \/ (N.testbit c 4 = true /\ f <> 0)) ->
  exists obj, frag_digest (c :: f :: r) = DOk c f RvBad obj.
Proof.
  intros Hk Hi Hflags. unfold frag_digest, parse_fragment, aparse_header. rewrite Hk, Hi.
  unfold digest_of_parsed. cbn [pf_header ah_function nth]. eexists.
  assert (Hr : ato_request {| ah_control := actl_of c; ah_function := f; ah_iin := None |} <> None).
  { unfold ato_request. cbn [ah_iin ah_control ah_function]. rewrite fir_bit, fin_bit, uns_bit.
    destruct Hflags as [H|[H|[H Hf]]]; rewrite H; cbn [andb negb]; try discriminate.
    - rewrite andb_false_r. discriminate.
    - destruct (N.testbit c 7 && N.testbit c 6); cbn [negb]; [|discriminate].
      destruct (f =? fc_confirm) eqn:E; [apply N.eqb_eq in E; contradiction|discriminate]. }
  destruct (ato_request _); [reflexivity|contradiction].
Qed.

(* THEOREM C12 (composed).  The octets received have a header error with a sequence number - their digest is
   DUnknown (function code octet 1 not a function code) or carries RvBad (FIR/FIN/UNS flags a request must
   not have, or a response function code) -, the fragment is not a broadcast and comes from an accepted master.
   Then, in every reachable state of the composed model and every control state (idle, solicited confirm wait,
   unsolicited confirm wait), the session's observations of the step contain exactly one solicited response
   (function 129; everything else transmitted has function 130): it goes to the sender, its sequence number
   is the request's (octet 0 mod 16), and IIN2 bit 0 NO_FUNC_CODE_SUPPORT is set. *)
Theorem frx_header_error_reported : forall F st from bytes,
  FReach F st -> accepted_master (f_o F) from ->
  ((exists seq code, frag_digest bytes = DUnknown seq code) \/
   (exists ctl fn obj, frag_digest bytes = DOk ctl fn RvBad obj)) ->
  exists pre b post,
    ro_out (frx_out F st from None bytes) = pre ++ OTx from b :: post /\
    Forall P12.not_sol pre /\ Forall P12.not_sol post /\
    nth 1 b 0 = 129 /\ (nth 0 b 0) mod 16 = (nth 0 bytes 0) mod 16 /\ N.testbit (nth 3 b 0) 0 = true.
Proof.
  intros F st from bytes HR Hacc Hdg.
  assert (Et : to_treq (f_o F) from (frag_digest bytes) = TqError (Some (nth 0 bytes 0 mod 16))).
  { rewrite (to_treq_accepted _ _ _ Hacc).
    destruct (frag_digest_total bytes) as (dg & Edg & Hshape). rewrite Edg.
    destruct Hdg as [(seq & code & E)|(ctl & fn & obj & E)]; rewrite Edg in E; subst dg.
    - destruct Hshape as (_ & _ & c & Hc & ->). rewrite seq_bits.
      destruct bytes as [|c0 r]; [discriminate Hc|]. cbn in Hc. inversion Hc; subst. reflexivity.
    - destruct Hshape as (Hc & _). destruct bytes as [|c0 r]; [discriminate Hc|]. cbn in Hc. inversion Hc; subst. reflexivity. }
  pose proof (fevent_run F st (fs_db st) (ERx from None bytes (frag_digest bytes))) as Hrun.
  pose proof (header_error_reported_all (f_o F) from bytes (frag_digest bytes) _ Et _ (fs_s st)
                (ro_answers (frx_out F st from None bytes)) (freach_reach12 F st HR)) as H.
  unfold frx_out in *. rewrite Hrun in H. cbn [snd] in H.
  destruct H as (pre & b & post & E & R1 & R2 & (B1 & B2 & B3)).
  exists pre, b, post. split; [exact E|]. split; [exact R1|]. split; [exact R2|]. split; [exact B1|].
  split.
  - unfold ctl_seq in B2. rewrite B2. apply N.mod_mod. discriminate.
  - assert (Hb : N.testbit (N.land (nth 3 b 0) 1) 0 = true) by (rewrite B3; reflexivity).
    rewrite N.land_spec in Hb. apply andb_prop in Hb. exact (proj1 Hb).
Qed.

(* non-vacuity: an unknown function code (octet 1 = 70) and a request without FIR (octet 0 = 0x49), received
   idle, during a solicited confirm wait (a class 1 event was read), during an unsolicited confirm wait *)
Definition cz_bi (v : N) (t : N) : meas := mkMeas v 1 (Some (true, t)) [].
Definition cz_solwait : fstate :=
  ffinal cx_F cx_st0 [FAdd TBinary 0 (Some Class1); FUpdate TBinary 0 (cz_bi 1 1000); FRx 1 None [193; 1; 60; 2; 6]].

Example ex_frx_header_error :
  FReach cx_F cx_st0 /\ FReach cx_F cz_solwait /\ FReach cy_F cy_waiting /\
  frag_digest [194; 70] = DUnknown 2 70 /\ frag_digest [73; 3] = DOk 73 3 RvBad (ObjOk [] []) /\
  s_control (fs_s cx_st0) = CIdle /\
  s_control (fs_s cz_solwait) = CSolWait {| se_ecsn := 1; se_fin := true |} 5002 RStep2 /\
  (exists resp, s_control (fs_s cy_waiting) = CUnsolWait resp true (Some 0%nat) 5000) /\
  ro_out (frx_out cx_F cx_st0 1 None [194; 70]) = [ODb DbEvinfo; OTx 1 [194; 129; 128; 1]] /\
  ro_out (frx_out cx_F cz_solwait 1 None [194; 70]) =
    [OInfo ISolNewRequest; ODb DbReset; ODb DbEvinfo; OTx 1 [194; 129; 130; 1]] /\
  ro_out (frx_out cy_F cy_waiting 1 None [194; 70]) = [ODb DbEvinfo; OTx 1 [194; 129; 128; 1]] /\
  ro_out (frx_out cx_F cx_st0 1 None [73; 3]) = [ODb DbEvinfo; OTx 1 [201; 129; 128; 1]] /\
  ro_out (frx_out cx_F cz_solwait 1 None [73; 3]) =
    [OInfo ISolNewRequest; ODb DbReset; ODb DbEvinfo; OTx 1 [201; 129; 130; 1]] /\
  ro_out (frx_out cy_F cy_waiting 1 None [73; 3]) = [ODb DbEvinfo; OTx 1 [201; 129; 128; 1]] /\
  has_replay_error (snd (fstep cx_F cz_solwait (FRx 1 None [194; 70]))) = false /\
  has_replay_error (snd (fstep cy_F cy_waiting (FRx 1 None [73; 3]))) = false.
Proof.
  split; [constructor|]. split; [apply FReach_ffinal; constructor|]. split; [apply FReach_ffinal; constructor|].
  vm_compute. repeat split. eexists. reflexivity.
Qed.

(* non-vacuity of C05 in the unsolicited confirm wait: the WRITE is executed and answered in the wait, its
   repetition gets the stored octets and nothing else happens *)
Definition cy_written : fstate := ffinal cy_F cy_waiting [FRx 1 None cx_wr].

Example ex_frx_repeat_unsol_wait :
  FReach cy_F cy_written /\ wf_request cx_wr /\
  (exists l, s_last (fs_s cy_written) = Some l /\ lr_bytes l = cx_wr) /\
  (exists resp, s_control (fs_s cy_written) = CUnsolWait resp true (Some 0%nat) 5000) /\ s_now (fs_s cy_written) = 3%Z /\
  ro_out (frx_out cy_F cy_waiting 1 None cx_wr) = [OInfo IClearRestart; ODb DbEvinfo; OTx 1 [195; 129; 0; 0]] /\
  ro_out (frx_out cy_F cy_written 1 None cx_wr) = [OTx 1 [195; 129; 0; 0]] /\
  fs_db (fst (fstep cy_F cy_written (FRx 1 None cx_wr))) = fs_db cy_written /\
  has_replay_error (snd (fstep cy_F cy_written (FRx 1 None cx_wr))) = false.
Proof.
  split; [apply FReach_ffinal; apply FReach_ffinal; constructor|].
  split; [apply wf_request_digest; eexists; eexists; vm_compute; reflexivity|].
  split; [eexists; vm_compute; split; reflexivity|]. split; [eexists; vm_compute; reflexivity|].
  vm_compute. repeat split.
Qed.
