(* Outstation/SessionLemmas_c12.v — helper lemmas about the outstation session model used by
   SessionC12Proofs.v (properties C12 and the session half of C07): control-octet arithmetic,
   frame ("what a helper leaves alone") lemmas, output-shape lemmas of the request handlers. *)
From Dnp3V Require Import Outstation.Session.
Import ListNotations.
Open Scope N_scope.

(* ---------- control octet and IIN arithmetic ------------------------------------------------ *)

Lemma testbit_div (c : N) (n : N) : N.testbit c n = ((c / 2 ^ n) mod 2 =? 1).
Proof. apply N.testbit_eqb. Qed.

Lemma b2n_cases (b : bool) (v : N) : b2n b v = 0 \/ b2n b v = v.
Proof. destruct b; cbn [b2n]; auto. Qed.

Lemma ctl_byte_seq fir fin con uns seq : ctl_seq (ctl_byte fir fin con uns seq) = seq mod 16.
Proof.
  unfold ctl_seq, ctl_byte.
  destruct fir, fin, con, uns; lia.
Qed.

Lemma ctl_byte_uns fir fin con uns seq : ctl_uns (ctl_byte fir fin con uns seq) = uns.
Proof.
  unfold ctl_uns, ctl_byte. rewrite testbit_div. change (2 ^ 4) with 16.
  destruct fir, fin, con, uns; lia.
Qed.

Lemma ctl_byte_con fir fin con uns seq : ctl_con (ctl_byte fir fin con uns seq) = con.
Proof.
  unfold ctl_con, ctl_byte. rewrite testbit_div. change (2 ^ 5) with 32.
  destruct fir, fin, con, uns; lia.
Qed.

Lemma ctl_byte_fir fir fin con uns seq : N.testbit (ctl_byte fir fin con uns seq) 7 = fir.
Proof.
  unfold ctl_byte. rewrite testbit_div. change (2 ^ 7) with 128.
  destruct fir, fin, con, uns; lia.
Qed.

Lemma ctl_byte_fin fir fin con uns seq : N.testbit (ctl_byte fir fin con uns seq) 6 = fin.
Proof.
  unfold ctl_byte. rewrite testbit_div. change (2 ^ 6) with 64.
  destruct fir, fin, con, uns; lia.
Qed.

Lemma ctl_byte_lt fir fin con uns seq : ctl_byte fir fin con uns seq < 256.
Proof. unfold ctl_byte. destruct fir, fin, con, uns; lia. Qed.

Lemma ctl_byte_unsol_ge seq : 240 <= ctl_byte true true true true seq.
Proof. unfold ctl_byte. lia. Qed.

Lemma set_con_seq c : ctl_seq (set_con c) = ctl_seq c.
Proof. unfold set_con, ctl_seq. destruct (ctl_con c); lia. Qed.

Lemma set_con_uns c : ctl_uns (set_con c) = ctl_uns c.
Proof.
  unfold set_con, ctl_uns. destruct (ctl_con c); [reflexivity|].
  rewrite !testbit_div. change (2 ^ 4) with 16. lia.
Qed.

Lemma set_con_fir c : N.testbit (set_con c) 7 = N.testbit c 7.
Proof.
  unfold set_con, ctl_con. destruct (N.testbit c 5) eqn:E; [reflexivity|].
  rewrite testbit_div in E. rewrite !testbit_div. change (2 ^ 5) with 32 in E. change (2 ^ 7) with 128.
  lia.
Qed.

Lemma set_con_con c : ctl_con (set_con c) = true.
Proof.
  unfold set_con. destruct (ctl_con c) eqn:E; [exact E|].
  unfold ctl_con in *. rewrite testbit_div in E. rewrite testbit_div. change (2 ^ 5) with 32 in *. lia.
Qed.

Lemma seq16_next_lt q : seq16_next q < 16.
Proof. unfold seq16_next. lia. Qed.

Lemma land7_lor a b : N.land a 7 <> 0 -> N.land (N.lor a b) 7 <> 0.
Proof.
  intros Ha Hz. rewrite N.land_lor_distr_l in Hz. apply N.lor_eq_0_l in Hz. contradiction.
Qed.

Lemma land7_lor_r a b : N.land b 7 <> 0 -> N.land (N.lor a b) 7 <> 0.
Proof. rewrite N.lor_comm. apply land7_lor. Qed.

Lemma land_lor_absorb a b : N.land (N.lor a b) a = a.
Proof.
  apply N.bits_inj. intros n. rewrite N.land_spec, N.lor_spec.
  destruct (N.testbit a n), (N.testbit b n); reflexivity.
Qed.

Lemma bytes_eqb_eq a : forall b, bytes_eqb a b = true -> a = b.
Proof.
  induction a as [|x a IH]; intros [|y b] H; cbn [bytes_eqb] in H; try discriminate; [reflexivity|].
  apply andb_true_iff in H. destruct H as [H1 H2]. apply N.eqb_eq in H1. subst. f_equal. auto.
Qed.

(* ---------- what the low-level helpers leave alone ------------------------------------------ *)

Definition ans_suffix (s s' : ostate) : Prop := exists pre, s_answers s = pre ++ s_answers s'.

(* every field the properties talk about; the helpers below change only s_answers (consuming
   answers), s_last_bcast, s_restart_iin, s_enabled, s_sol_buf, s_select, s_last_recorded *)
Definition same_core (s s' : ostate) : Prop :=
  s_now s' = s_now s /\ s_control s' = s_control s /\ s_last s' = s_last s /\ s_unsol s' = s_unsol s /\
  s_unsol_seq s' = s_unsol_seq s /\ s_deferred s' = s_deferred s /\ s_unsol_buf s' = s_unsol_buf s /\
  s_pending s' = s_pending s /\ s_frame_id s' = s_frame_id s /\ s_notify s' = s_notify s /\
  s_sel_status s' = s_sel_status s /\ s_op_status s' = s_op_status s /\ s_app_iin s' = s_app_iin s /\
  ans_suffix s s'.

Lemma sc_refl s : same_core s s.
Proof. unfold same_core, ans_suffix. repeat split. exists []. reflexivity. Qed.

Lemma sc_trans s1 s2 s3 : same_core s1 s2 -> same_core s2 s3 -> same_core s1 s3.
Proof.
  unfold same_core, ans_suffix.
  intros (A1 & A2 & A3 & A4 & A5 & A6 & A7 & A8 & A9 & A10 & A11 & A12 & A13 & [p1 A14])
         (B1 & B2 & B3 & B4 & B5 & B6 & B7 & B8 & B9 & B10 & B11 & B12 & B13 & [p2 B14]).
  repeat split; try congruence.
  exists (p1 ++ p2). rewrite A14, B14, app_assoc. reflexivity.
Qed.

Ltac sc_basic := unfold same_core, ans_suffix; cbn; repeat split; exists []; reflexivity.

Lemma sc_pop s a rest : s_answers s = a :: rest -> same_core s (upd_answers s rest).
Proof. intros H. unfold same_core, ans_suffix. cbn. repeat split. exists [a]. rewrite H. reflexivity. Qed.
Lemma sc_last_bcast s b : same_core s (upd_last_bcast s b).  Proof. sc_basic. Qed.
Lemma sc_restart s b : same_core s (upd_restart s b).  Proof. sc_basic. Qed.
Lemma sc_enabled s b : same_core s (upd_enabled s b).  Proof. sc_basic. Qed.
Lemma sc_sol_buf s b : same_core s (upd_sol_buf s b).  Proof. sc_basic. Qed.
Lemma sc_select s b : same_core s (upd_select s b).  Proof. sc_basic. Qed.
Lemma sc_last_recorded s b : same_core s (upd_last_recorded s b).  Proof. sc_basic. Qed.
Lemma sc_bcast_rep s b : same_core s (upd_bcast_rep s b).  Proof. sc_basic. Qed.
Lemma sc_bcast_new s b r : same_core s (upd_bcast_rep (upd_last_bcast s b) r).  Proof. sc_basic. Qed.

(* fix F25: the bookkeeping of which response reported a confirm-mandatory broadcast touches only
   s_bcast_rep and (on the matching confirm) s_last_bcast *)
Lemma sc_bcast_reported s c : same_core s (bcast_reported s c).
Proof. unfold bcast_reported. destruct (s_last_bcast s) as [[]|]; try apply sc_refl. apply sc_bcast_rep. Qed.
Lemma sc_bcast_confirmed s u q : same_core s (bcast_confirmed s u q).
Proof. unfold bcast_confirmed. destruct (rep_eqb _ _ _); [sc_basic|apply sc_refl]. Qed.
Lemma bcast_reported_sol_buf s c : s_sol_buf (bcast_reported s c) = s_sol_buf s.
Proof. unfold bcast_reported. destruct (s_last_bcast s) as [[]|]; reflexivity. Qed.
Lemma bcast_reported_unsol_buf s c : s_unsol_buf (bcast_reported s c) = s_unsol_buf s.
Proof. unfold bcast_reported. destruct (s_last_bcast s) as [[]|]; reflexivity. Qed.
Lemma bcast_reported_last_bcast s c : s_last_bcast (bcast_reported s c) = s_last_bcast s.
Proof. unfold bcast_reported. destruct (s_last_bcast s) as [[]|] eqn:E; cbn; auto. Qed.

#[global] Hint Resolve sc_refl sc_pop sc_last_bcast sc_restart sc_enabled sc_sol_buf sc_select sc_last_recorded
  sc_bcast_rep sc_bcast_new sc_bcast_reported sc_bcast_confirmed : sc.

(* observations that are not transmissions *)
Definition no_tx (o : oobs) : Prop := match o with OTx _ _ => False | _ => True end.

Lemma Forall_no_tx_app a b : Forall no_tx a -> Forall no_tx b -> Forall no_tx (a ++ b).
Proof. intros. apply Forall_app. auto. Qed.

Ltac notx := repeat (first [apply Forall_nil | apply Forall_cons; [exact I|] | apply Forall_app; split]); auto.

Lemma ask_evinfo_spec s s1 x o : ask_evinfo s = (s1, x, o) -> same_core s s1 /\ Forall no_tx o.
Proof.
  unfold ask_evinfo. destruct (s_answers s) as [|[] rest] eqn:Ea; intros H; inversion H; subst; clear H;
    (split; [eauto with sc | notx]).
Qed.

Lemma ask_iin2_spec s c s1 x o : ask_iin2 s c = (s1, x, o) -> same_core s s1 /\ Forall no_tx o.
Proof.
  unfold ask_iin2. destruct (s_answers s) as [|[] rest] eqn:Ea; intros H; inversion H; subst; clear H;
    (split; [eauto with sc | notx]).
Qed.

Lemma ask_unsol_spec s s1 x : ask_unsol s = (s1, x) -> same_core s s1.
Proof.
  unfold ask_unsol. destruct (s_answers s) as [|[] rest] eqn:Ea; intros H; inversion H; subst; clear H;
    eauto with sc.
Qed.

Ltac notx2 :=
  repeat match goal with
         | |- Forall _ [] => apply Forall_nil
         | |- Forall _ (_ :: _) => apply Forall_cons; [exact I|]
         | |- Forall _ (_ ++ _) => apply Forall_app; split
         | |- Forall _ (if ?b then _ else _) => destruct b
         end; auto.

Lemma response_iin_spec s s2 iin o : response_iin s = (s2, iin, o) -> same_core s s2 /\ Forall no_tx o.
Proof.
  unfold response_iin. destruct (ask_evinfo s) as [[s1 [[[c1 c2] c3] ovf]] o1] eqn:E.
  apply ask_evinfo_spec in E. destruct E as [E1 E2].
  intros H. inversion H; subst; clear H. split; [|exact E2].
  destruct (s_last_bcast s1) as [[]|]; eauto using sc_trans with sc.
Qed.

(* write_solicited: the response as sent keeps function code and size, its control octet is the
   handler's or that plus CON, IIN bits are only added; the fragment is the last observation *)
Lemma write_solicited_spec s dest r s1 r2 o :
  write_solicited s dest r = (s1, r2, o) ->
  same_core s s1 /\
  (exists pre, o = pre ++ [OTx dest (response_bytes r2 (s_sol_buf s1))] /\ Forall no_tx pre) /\
  r_fn r2 = r_fn r /\ r_size r2 = r_size r /\
  (r_ctl r2 = r_ctl r \/ r_ctl r2 = set_con (r_ctl r)) /\
  (exists x, r_iin2 r2 = N.lor (r_iin2 r) x).
Proof.
  unfold write_solicited. destruct (response_iin s) as [[s' iin] o'] eqn:E.
  apply response_iin_spec in E. destruct E as [E1 E2].
  intros H. inversion H; subst; clear H.
  split; [eapply sc_trans; [exact E1|apply sc_bcast_reported]|].
  split; [exists o'; split; [rewrite bcast_reported_sol_buf; reflexivity|exact E2]|].
  destruct (s_last_bcast s') as [[]|]; cbn [with_ctl or_iin r_fn r_size r_ctl r_iin2]; repeat split; eauto.
Qed.

Lemma write_unsolicited_spec cfg s r s1 r2 o :
  write_unsolicited cfg s r = (s1, r2, o) ->
  same_core s s1 /\
  (exists pre, o = pre ++ [OTx (o_master cfg) (response_bytes r2 (s_unsol_buf s1))] /\ Forall no_tx pre) /\
  r_fn r2 = r_fn r /\ r_size r2 = r_size r /\ r_ctl r2 = r_ctl r.
Proof.
  unfold write_unsolicited. destruct (response_iin s) as [[s' iin] o'] eqn:E.
  apply response_iin_spec in E. destruct E as [E1 E2].
  intros H. inversion H; subst; clear H.
  split; [eapply sc_trans; [exact E1|apply sc_bcast_reported]|].
  split; [exists o'; split; [rewrite bcast_reported_unsol_buf; reflexivity|exact E2]|].
  cbn [or_iin r_fn r_size r_ctl]. auto.
Qed.

(* ---------- the non-READ handlers ------------------------------------------------------------ *)

Lemma write_iin_bits_spec bits : forall s s1 v o,
  write_iin_bits s bits = (s1, v, o) -> same_core s s1 /\ Forall no_tx o.
Proof.
  induction bits as [|[idx value] rest IH]; intros s s1 v o H; cbn [write_iin_bits] in H.
  - inversion H; subst. split; [apply sc_refl | constructor].
  - destruct (idx =? 7); [destruct value|].
    + destruct (write_iin_bits s rest) as [[s' v'] o'] eqn:E. apply IH in E. inversion H; subst. exact E.
    + destruct (write_iin_bits (upd_restart s false) rest) as [[s' v'] o'] eqn:E. apply IH in E.
      inversion H; subst. destruct E as [E1 E2]. split; [eauto using sc_trans with sc | notx2].
    + destruct (write_iin_bits s rest) as [[s' v'] o'] eqn:E. apply IH in E. inversion H; subst. exact E.
Qed.

Lemma write_header_spec cfg s h s1 v o :
  write_header cfg s h = (s1, v, o) -> same_core s s1 /\ Forall no_tx o.
Proof.
  unfold write_header. destruct h as [bits|[t|]|[t|]|c| |a b|x| | |g v0 p items|];
    try (intros H; inversion H; subst; split; [apply sc_refl | notx2]; fail).
  - apply write_iin_bits_spec.
  - destruct (s_last_recorded s) as [t0|]; [destruct (max_timestamp - t <? Z.to_N (s_now s - t0))|];
      intros H; inversion H; subst; (split; [eauto with sc | notx2]).
Qed.

Lemma handle_write_headers_spec cfg hdrs : forall s s1 v o,
  handle_write_headers cfg s hdrs = (s1, v, o) -> same_core s s1 /\ Forall no_tx o.
Proof.
  induction hdrs as [|h rest IH]; intros s s1 v o H; cbn [handle_write_headers] in H.
  - inversion H; subst. split; [apply sc_refl | constructor].
  - destruct (write_header cfg s h) as [[s' v1] o1] eqn:E1. apply write_header_spec in E1.
    destruct (handle_write_headers cfg s' rest) as [[s'' v2] o2] eqn:E2. apply IH in E2.
    inversion H; subst. destruct E1, E2. split; [eauto using sc_trans | notx2].
Qed.

Lemma freeze_header_notx cfg ft t i h : Forall no_tx (snd (freeze_header cfg ft t i h)).
Proof. destruct h; cbn [freeze_header snd]; notx2. Qed.

Lemma handle_freeze_notx cfg ft hdrs : Forall no_tx (snd (handle_freeze cfg ft hdrs)).
Proof.
  induction hdrs as [|h rest IH]; cbn [handle_freeze snd]; [constructor|].
  pose proof (freeze_header_notx cfg ft 0 0 h) as Hh.
  destruct (freeze_header cfg ft 0 0 h) as [v1 o1]. destruct (handle_freeze cfg ft rest) as [v2 o2].
  cbn [snd] in *. notx2.
Qed.

Lemma handle_freeze_at_time_notx cfg hdrs : forall timing, Forall no_tx (snd (handle_freeze_at_time cfg timing hdrs)).
Proof.
  induction hdrs as [|h rest IH]; intros timing; cbn [handle_freeze_at_time snd]; [constructor|].
  assert (Hgen : Forall no_tx (snd (match timing with
      | None => let '(v, o) := handle_freeze_at_time cfg timing rest in (N.lor iin2_param v, o)
      | Some (t, i) => let '(v1, o1) := freeze_header cfg 2 t i h in
                       let '(v2, o2) := handle_freeze_at_time cfg timing rest in (N.lor v1 v2, o1 ++ o2)
      end))).
  { destruct timing as [[t i]|].
    - pose proof (freeze_header_notx cfg 2 t i h) as Hh. pose proof (IH (Some (t, i))) as Hr.
      destruct (freeze_header cfg 2 t i h) as [v1 o1].
      destruct (handle_freeze_at_time cfg (Some (t, i)) rest) as [v2 o2]. cbn [snd] in *. notx2.
    - pose proof (IH None) as Hr. destruct (handle_freeze_at_time cfg None rest) as [v2 o2]. exact Hr. }
  destruct h as [bits|t0|t0|c| |a b|[x|]| | |g v0 p items|]; try exact Hgen.
  - apply IH.
  - pose proof (IH timing) as Hr. destruct (handle_freeze_at_time cfg timing rest) as [v2 o2]. exact Hr.
Qed.

Lemma enable_disable_spec cfg s en seq hdrs s1 r :
  enable_disable cfg s en seq hdrs = (s1, r) -> same_core s s1 /\ exists v, r = empty_solicited seq v.
Proof.
  unfold enable_disable. destruct (negb (o_unsol cfg)).
  - intros H; inversion H; subst. split; [apply sc_refl | eauto].
  - match goal with |- context [fold_left ?f hdrs ?a] => destruct (fold_left f hdrs a) as [e v] end.
    intros H; inversion H; subst. split; [eauto with sc | eauto].
Qed.

Lemma restart_response_spec seq s d s1 r :
  restart_response seq s d = (s1, r) ->
  same_core s s1 /\ r_ctl r = ctl_byte true true false false seq /\ r_fn r = fn_response /\
  (r_size r = 0 \/ r_size r = 10)%nat.
Proof.
  unfold restart_response. destruct d as [[ms v]|]; intros H; inversion H; subst; cbn; eauto 6 with sc.
Qed.

Lemma ctl_one_header_notx s cfg cap mode g v prefix hdr_start items : forall written n num started w ok cbs st num' started',
  ctl_one_header s cfg cap mode g v prefix written n hdr_start num started items = (w, ok, cbs, st, num', started') ->
  Forall no_tx cbs.
Proof.
  induction items as [|[idx obj] rest IH]; intros written n num started w ok cbs st num' started' H;
    cbn [ctl_one_header] in H.
  - inversion H; subst. constructor.
  - destruct (item_status s cfg mode num) as [st0 consulted].
    destruct (echo_items cap g v prefix written n hdr_start [(idx, replace_status obj st0)]) as [w1 ok1].
    destruct ok1.
    + destruct (ctl_one_header s cfg cap mode g v prefix w1 (n + 1) hdr_start (num + 1) (started || consulted) rest)
        as [[[[[w2 ok2] cbs2] st2] num2] started2] eqn:E. apply IH in E.
      inversion H; subst. notx2.
    + inversion H; subst. notx2.
Qed.

Lemma ctl_headers_notx s cfg cap mode hdrs : forall written num started w ok cbs st started',
  ctl_headers s cfg cap mode written num started hdrs = (w, ok, cbs, st, started') -> Forall no_tx cbs.
Proof.
  induction hdrs as [|h rest IH]; intros written num started w ok cbs st started' H; cbn [ctl_headers] in H.
  - inversion H; subst. constructor.
  - destruct h as [bits|t0|t0|c| |a b|x| | |g v p items|]; try (apply IH in H; exact H).
    destruct (ctl_one_header s cfg cap mode g v p written 0 (length written) num started items)
      as [[[[[w1 ok1] cbs1] st1] num1] started1] eqn:E1. apply ctl_one_header_notx in E1.
    destruct ok1.
    + destruct (ctl_headers s cfg cap mode w1 num1 started1 rest) as [[[[w2 ok2] cbs2] st2] started2] eqn:E2.
      apply IH in E2. inversion H; subst. notx2.
    + inversion H; subst. exact E1.
Qed.

Lemma noack_items_notx s cfg g v items : forall num started cbs num' started',
  noack_items s cfg g v num started items = (cbs, num', started') -> Forall no_tx cbs.
Proof.
  induction items as [|[idx obj] rest IH]; intros num started cbs num' started' H; cbn [noack_items] in H.
  - inversion H; subst. constructor.
  - match type of H with context [noack_items s cfg g v ?a ?b rest] =>
      destruct (noack_items s cfg g v a b rest) as [[cbs2 num2] started2] eqn:E end.
    apply IH in E. inversion H; subst. notx2.
Qed.

Lemma noack_headers_notx s cfg hdrs : forall num started cbs started',
  noack_headers s cfg num started hdrs = (cbs, started') -> Forall no_tx cbs.
Proof.
  induction hdrs as [|h rest IH]; intros num started cbs started' H; cbn [noack_headers] in H.
  - inversion H; subst. constructor.
  - destruct h as [bits|t0|t0|c| |a b|x| | |g v p items|]; try (apply IH in H; exact H).
    destruct (noack_items s cfg g v num started items) as [[cbs1 num1] started1] eqn:E1.
    apply noack_items_notx in E1.
    destruct (noack_headers s cfg num1 started1 rest) as [cbs2 started2] eqn:E2. apply IH in E2.
    inversion H; subst. notx2.
Qed.

(* the shape of a freshly made solicited response to request `seq` *)
Definition fresh_resp (seq : N) (r : response) : Prop :=
  r_ctl r = ctl_byte true true false false seq /\ r_fn r = fn_response.

Lemma fresh_empty seq v : fresh_resp seq (empty_solicited seq v).
Proof. split; reflexivity. Qed.

Lemma fresh_control seq st n : fresh_resp seq (control_response seq st n).
Proof. split; reflexivity. Qed.

Lemma fresh_with_iin2 seq r v : fresh_resp seq r -> fresh_resp seq (with_iin2 r v).
Proof. intros [A B]. split; assumption. Qed.

Lemma handle_controls_spec cfg s fn seq fid bytes hdrs s1 r o :
  handle_controls cfg s fn seq fid bytes hdrs = (s1, r, o) ->
  same_core s s1 /\ Forall no_tx o /\ (forall r0, r = Some r0 -> fresh_resp seq r0).
Proof.
  unfold handle_controls. destruct (negb (all_controls hdrs)).
  { intros H; inversion H; subst. split; [apply sc_refl|]. split; [constructor|].
    intros r0 Hr. destruct (fn =? fn_direct_operate_nr); inversion Hr; subst. apply fresh_empty. }
  destruct (fn =? fn_direct_operate_nr).
  { destruct (noack_headers s cfg 0 false hdrs) as [cbs started] eqn:E. apply noack_headers_notx in E.
    intros H; inversion H; subst. split; [apply sc_refl|]. split; [notx2|]. discriminate. }
  destruct (fn =? fn_select).
  { destruct (ctl_headers s cfg (o_sol_tx cfg - 4) CmSelect [] 0 false hdrs) as [[[[echo ok] cbs] st] started] eqn:E.
    apply ctl_headers_notx in E. intros H; inversion H; subst. split.
    - destruct (ok && (st =? 0)); eauto using sc_trans with sc.
    - split; [notx2|]. intros r0 Hr; inversion Hr; subst. apply fresh_control. }
  destruct (fn =? fn_direct_operate).
  { destruct (ctl_headers s cfg (o_sol_tx cfg - 4) (CmOperate OpDo) [] 0 false hdrs) as [[[[echo ok] cbs] st] started] eqn:E.
    apply ctl_headers_notx in E. intros H; inversion H; subst. split; [eauto with sc|].
    split; [notx2|]. intros r0 Hr; inversion Hr; subst. apply fresh_control. }
  match goal with |- context [match ?v with Some _ => _ | None => _ end = _] => destruct v as [status|] end.
  - destruct (ctl_headers s cfg (o_sol_tx cfg - 4) (CmStatus status) [] 0 false hdrs) as [[[[echo ok] cbs] st] started] eqn:E.
    intros H; inversion H; subst. split; [eauto with sc|]. split; [constructor|].
    intros r0 Hr; inversion Hr; subst. apply fresh_control.
  - destruct (ctl_headers s cfg (o_sol_tx cfg - 4) (CmOperate OpSbo) [] 0 false hdrs) as [[[[echo ok] cbs] st] started] eqn:E.
    apply ctl_headers_notx in E. intros H; inversion H; subst. split; [eauto with sc|].
    split; [notx2|]. intros r0 Hr; inversion Hr; subst. apply fresh_control.
Qed.

(* handle_non_read with the branch result exposed: `fin` only ORs `extra` into IIN2 *)
Definition hnr_body (cfg : ocfg) (s : ostate) (fn seq frame_id : N) (bytes : list N) (hdrs : list whdr)
  : ostate * option response * list oobs :=
    if fn =? fn_write then
      let '(s1, v, o) := handle_write_headers cfg s hdrs in (s1, Some (empty_solicited seq v), o)
    else if fn =? fn_delay_measure then
      let body := count_of_one 52 2 (o_delay_ms cfg) in
      (upd_sol_buf s (buf_set (s_sol_buf s) body),
       Some {| r_ctl := ctl_byte true true false false seq; r_fn := fn_response; r_iin1 := 0; r_iin2 := 0; r_size := 10 |}, [])
    else if fn =? fn_record_time then
      (upd_last_recorded s (Some (s_now s)), Some (empty_solicited seq 0), [])
    else if fn =? fn_cold_restart then
      let '(s1, r) := restart_response seq s (o_cold cfg) in (s1, Some r, [OCb CbColdRestart])
    else if fn =? fn_warm_restart then
      let '(s1, r) := restart_response seq s (o_warm cfg) in (s1, Some r, [OCb CbWarmRestart])
    else if (fn =? fn_select) || (fn =? fn_operate) || (fn =? fn_direct_operate) || (fn =? fn_direct_operate_nr) then
      handle_controls cfg s fn seq frame_id bytes hdrs
    else if fn =? fn_immediate_freeze then
      let '(v, o) := handle_freeze cfg 0 hdrs in (s, Some (empty_solicited seq v), o)
    else if fn =? fn_immediate_freeze_nr then
      let '(v, o) := handle_freeze cfg 0 hdrs in (s, None, o)
    else if fn =? fn_freeze_clear then
      let '(v, o) := handle_freeze cfg 1 hdrs in (s, Some (empty_solicited seq v), o)
    else if fn =? fn_freeze_clear_nr then
      let '(v, o) := handle_freeze cfg 1 hdrs in (s, None, o)
    else if fn =? fn_freeze_at_time then
      let '(v, o) := handle_freeze_at_time cfg None hdrs in (s, Some (empty_solicited seq v), o)
    else if fn =? fn_freeze_at_time_nr then
      let '(v, o) := handle_freeze_at_time cfg None hdrs in (s, None, o)
    else if fn =? fn_enable_unsol then
      let '(s1, r) := enable_disable cfg s true seq hdrs in (s1, Some r, [])
    else if fn =? fn_disable_unsol then
      let '(s1, r) := enable_disable cfg s false seq hdrs in (s1, Some r, [])
    else (s, Some (empty_solicited seq iin2_no_func), []).

Definition hnr_extra (fn : N) (hdrs : list whdr) : N :=
  if objects_allowed fn then 0 else match hdrs with [] => 0 | _ => iin2_param end.

Lemma handle_non_read_eq cfg s fn seq fid bytes hdrs :
  handle_non_read cfg s fn seq fid bytes hdrs =
  let '(s1, r, o) := hnr_body cfg s fn seq fid bytes hdrs in
  (s1, match r with Some r => Some (with_iin2 r (hnr_extra fn hdrs)) | None => None end, o).
Proof. reflexivity. Qed.

Lemma hnr_body_spec cfg s fn seq fid bytes hdrs s1 r o :
  hnr_body cfg s fn seq fid bytes hdrs = (s1, r, o) ->
  same_core s s1 /\ Forall no_tx o /\ (forall r0, r = Some r0 -> fresh_resp seq r0).
Proof.
  unfold hnr_body.
  repeat match goal with
         | |- (if ?c then _ else _) = _ -> _ => destruct c
         end.
  - destruct (handle_write_headers cfg s hdrs) as [[s' v] o'] eqn:E. apply handle_write_headers_spec in E.
    destruct E as [E1 E2]. intros H; inversion H; subst. split; [exact E1|]. split; [exact E2|].
    intros r0 Hr; inversion Hr; subst. apply fresh_empty.
  - intros H; inversion H; subst. split; [eauto with sc|]. split; [constructor|].
    intros r0 Hr; inversion Hr; subst. split; reflexivity.
  - intros H; inversion H; subst. split; [eauto with sc|]. split; [constructor|].
    intros r0 Hr; inversion Hr; subst. split; reflexivity.
  - destruct (restart_response seq s (o_cold cfg)) as [s' r'] eqn:E. apply restart_response_spec in E.
    destruct E as (E1 & E2 & E3 & _). intros H; inversion H; subst. split; [exact E1|]. split; [notx2|].
    intros r0 Hr; inversion Hr; subst. split; assumption.
  - destruct (restart_response seq s (o_warm cfg)) as [s' r'] eqn:E. apply restart_response_spec in E.
    destruct E as (E1 & E2 & E3 & _). intros H; inversion H; subst. split; [exact E1|]. split; [notx2|].
    intros r0 Hr; inversion Hr; subst. split; assumption.
  - apply handle_controls_spec.
  - pose proof (handle_freeze_notx cfg 0 hdrs) as Hn. destruct (handle_freeze cfg 0 hdrs) as [v o'].
    intros H; inversion H; subst. split; [apply sc_refl|]. split; [exact Hn|].
    intros r0 Hr; inversion Hr; subst. apply fresh_empty.
  - pose proof (handle_freeze_notx cfg 0 hdrs) as Hn. destruct (handle_freeze cfg 0 hdrs) as [v o'].
    intros H; inversion H; subst. split; [apply sc_refl|]. split; [exact Hn|]. discriminate.
  - pose proof (handle_freeze_notx cfg 1 hdrs) as Hn. destruct (handle_freeze cfg 1 hdrs) as [v o'].
    intros H; inversion H; subst. split; [apply sc_refl|]. split; [exact Hn|].
    intros r0 Hr; inversion Hr; subst. apply fresh_empty.
  - pose proof (handle_freeze_notx cfg 1 hdrs) as Hn. destruct (handle_freeze cfg 1 hdrs) as [v o'].
    intros H; inversion H; subst. split; [apply sc_refl|]. split; [exact Hn|]. discriminate.
  - pose proof (handle_freeze_at_time_notx cfg hdrs None) as Hn. destruct (handle_freeze_at_time cfg None hdrs) as [v o'].
    intros H; inversion H; subst. split; [apply sc_refl|]. split; [exact Hn|].
    intros r0 Hr; inversion Hr; subst. apply fresh_empty.
  - pose proof (handle_freeze_at_time_notx cfg hdrs None) as Hn. destruct (handle_freeze_at_time cfg None hdrs) as [v o'].
    intros H; inversion H; subst. split; [apply sc_refl|]. split; [exact Hn|]. discriminate.
  - destruct (enable_disable cfg s true seq hdrs) as [s' r'] eqn:E. apply enable_disable_spec in E.
    destruct E as [E1 [v E2]]. intros H; inversion H; subst. split; [exact E1|]. split; [constructor|].
    intros r0 Hr; inversion Hr; subst. apply fresh_empty.
  - destruct (enable_disable cfg s false seq hdrs) as [s' r'] eqn:E. apply enable_disable_spec in E.
    destruct E as [E1 [v E2]]. intros H; inversion H; subst. split; [exact E1|]. split; [constructor|].
    intros r0 Hr; inversion Hr; subst. apply fresh_empty.
  - intros H; inversion H; subst. split; [apply sc_refl|]. split; [constructor|].
    intros r0 Hr; inversion Hr; subst. apply fresh_empty.
Qed.

Lemma handle_non_read_spec cfg s fn seq fid bytes hdrs s1 r o :
  handle_non_read cfg s fn seq fid bytes hdrs = (s1, r, o) ->
  same_core s s1 /\ Forall no_tx o /\ (forall r0, r = Some r0 -> fresh_resp seq r0).
Proof.
  rewrite handle_non_read_eq. destruct (hnr_body cfg s fn seq fid bytes hdrs) as [[s' r'] o'] eqn:E.
  apply hnr_body_spec in E. destruct E as (E1 & E2 & E3).
  intros H; inversion H; subst. split; [exact E1|]. split; [exact E2|].
  intros r0 Hr. destruct r' as [r'|]; inversion Hr; subst. apply fresh_with_iin2. auto.
Qed.

(* ---------- the control echo (PrefixWriter) ---------------------------------------------------- *)
(* ---------- definitions (to be moved to a shared file) ------------------------------------------ *)

Definition item_bytes (prefix : N) (it : N * list N) : list N := index_bytes prefix (fst it) ++ snd it.
Definition group_bytes (g v prefix : N) (items : list (N * list N)) : list N :=
  [g; v; qualifier_of prefix] ++ count_bytes prefix (N.of_nat (length items)) ++ concat (map (item_bytes prefix) items).
Record egroup := { eg_g : N; eg_v : N; eg_prefix : N; eg_items : list (N * list N) }.
Definition egroup_bytes (e : egroup) : list N := group_bytes (eg_g e) (eg_v e) (eg_prefix e) (eg_items e).
Definition groups_bytes (gs : list egroup) : list N := concat (map egroup_bytes gs).
(* the control headers of a request that carry at least one item *)
Fixpoint req_groups (hdrs : list whdr) : list egroup :=
  match hdrs with
  | [] => []
  | WCtl g v prefix [] :: rest => req_groups rest
  | WCtl g v prefix items :: rest => {| eg_g := g; eg_v := v; eg_prefix := prefix; eg_items := items |} :: req_groups rest
  | _ :: rest => req_groups rest
  end.
(* e echoes (a prefix of, when cut = true allowed) the request group r: same g, v, prefix, same indices in order, each object is the request's object with its status octet replaced *)
Definition item_echoes (a b : N * list N) : Prop := fst a = fst b /\ exists st, snd a = replace_status (snd b) st.
Definition group_echoes (e r : egroup) : Prop :=
  eg_g e = eg_g r /\ eg_v e = eg_v r /\ eg_prefix e = eg_prefix r /\ eg_items e <> [] /\
  Forall2 item_echoes (eg_items e) (firstn (length (eg_items e)) (eg_items r)).

(* ---------- list helpers ------------------------------------------------------------------------ *)

Lemma firstn_len_app (A B : list N) (k : nat) : k = length A -> firstn k (A ++ B) = A.
Proof.
  intros ->. induction A as [|a A IH]; cbn [length app firstn].
  - reflexivity.
  - now rewrite IH.
Qed.

Lemma skipn_len_app (A B : list N) (k : nat) : k = length A -> skipn k (A ++ B) = B.
Proof.
  intros ->. induction A as [|a A IH]; cbn [length app skipn].
  - reflexivity.
  - exact IH.
Qed.

Lemma count_bytes_length (p n : N) : length (count_bytes p n) = length (count_bytes p 0).
Proof. unfold count_bytes. destruct (p =? 1); reflexivity. Qed.

(* the patch rewrites exactly the count field *)
Lemma patch_count (pre : list N) (g v q : N) (c0 c1 tl : list N) (hs k : nat) :
  hs = length pre -> k = length c0 ->
  firstn (hs + 3) (pre ++ [g; v; q] ++ c0 ++ tl) ++ c1 ++ skipn (hs + 3 + k) (pre ++ [g; v; q] ++ c0 ++ tl)
  = pre ++ [g; v; q] ++ c1 ++ tl.
Proof.
  intros Hhs Hk.
  assert (H1 : firstn (hs + 3) (pre ++ [g; v; q] ++ c0 ++ tl) = pre ++ [g; v; q]).
  { rewrite (app_assoc pre). apply firstn_len_app. rewrite app_length. cbn [length]. lia. }
  assert (H2 : skipn (hs + 3 + k) (pre ++ [g; v; q] ++ c0 ++ tl) = tl).
  { rewrite (app_assoc pre), (app_assoc (pre ++ [g; v; q])). apply skipn_len_app.
    rewrite !app_length. cbn [length]. lia. }
  rewrite H1, H2, <- app_assoc. reflexivity.
Qed.

(* ---------- one item ---------------------------------------------------------------------------- *)

(* bytes of the group being written: nothing until the first item has been written *)
Definition gb_opt (g v p : N) (its : list (N * list N)) : list N :=
  match its with [] => [] | _ => group_bytes g v p its end.

Lemma gb_opt_snoc g v p its it : gb_opt g v p (its ++ [it]) = group_bytes g v p (its ++ [it]).
Proof. destruct its; reflexivity. Qed.

Lemma group_bytes_snoc g v p its it :
  group_bytes g v p (its ++ [it]) =
  [g; v; qualifier_of p] ++ count_bytes p (N.of_nat (length its) + 1)
    ++ concat (map (item_bytes p) its) ++ item_bytes p it.
Proof.
  unfold group_bytes. rewrite map_app, concat_app, app_length. cbn [map concat length].
  rewrite app_nil_r.
  replace (N.of_nat (length its + 1)) with (N.of_nat (length its) + 1) by lia.
  reflexivity.
Qed.

Lemma echo_items_single_unfold cap g v p written n hs idx obj :
  echo_items cap g v p written n hs [(idx, obj)] =
  let attempt := written ++ (if n =? 0 then [g; v; qualifier_of p] ++ count_bytes p 0 else [])
                         ++ index_bytes p idx ++ obj in
  if (cap <? length attempt)%nat then (written, false)
  else (firstn (hs + 3) attempt ++ count_bytes p (n + 1)
          ++ skipn (hs + 3 + length (count_bytes p 0)) attempt, true).
Proof. reflexivity. Qed.

Lemma echo_items_single cap g v p pre its idx obj :
  echo_items cap g v p (pre ++ gb_opt g v p its) (N.of_nat (length its)) (length pre) [(idx, obj)] =
  if (cap <? length (pre ++ group_bytes g v p (its ++ [(idx, obj)])))%nat
  then (pre ++ gb_opt g v p its, false)
  else (pre ++ group_bytes g v p (its ++ [(idx, obj)]), true).
Proof.
  rewrite echo_items_single_unfold. cbv zeta.
  set (T := concat (map (item_bytes p) its) ++ item_bytes p (idx, obj)).
  assert (Hatt : exists cX, length cX = length (count_bytes p 0) /\
            (pre ++ gb_opt g v p its)
              ++ (if N.of_nat (length its) =? 0 then [g; v; qualifier_of p] ++ count_bytes p 0 else [])
              ++ index_bytes p idx ++ obj
            = pre ++ [g; v; qualifier_of p] ++ cX ++ T).
  { destruct its as [|a its].
    - exists (count_bytes p 0). split; [reflexivity|].
      subst T. cbn [gb_opt length N.of_nat N.eqb map concat item_bytes fst snd].
      rewrite !app_nil_r. cbn [app]. reflexivity.
    - exists (count_bytes p (N.of_nat (length (a :: its)))). split; [apply count_bytes_length|].
      replace (N.of_nat (length (a :: its)) =? 0) with false
        by (symmetry; apply N.eqb_neq; cbn [length]; lia).
      subst T. cbn [gb_opt]. unfold group_bytes, item_bytes at 3. cbn [fst snd].
      cbn [app]. rewrite <- !app_assoc. cbn [app]. rewrite <- ?app_assoc. reflexivity. }
  destruct Hatt as [cX [HcX Hatt]].
  rewrite Hatt.
  rewrite (patch_count pre g v (qualifier_of p) cX _ T (length pre) _ eq_refl (eq_sym HcX)).
  rewrite group_bytes_snoc. fold T.
  replace (length (pre ++ [g; v; qualifier_of p] ++ cX ++ T))
    with (length (pre ++ [g; v; qualifier_of p] ++ count_bytes p (N.of_nat (length its) + 1) ++ T)).
  - reflexivity.
  - rewrite !app_length, HcX, (count_bytes_length p (N.of_nat (length its) + 1)). reflexivity.
Qed.

(* ---------- one header -------------------------------------------------------------------------- *)

Lemma ctl_one_header_inv s cfg cap mode g v p pre :
  forall items its num started w ok cbs st num' started',
  ctl_one_header s cfg cap mode g v p (pre ++ gb_opt g v p its) (N.of_nat (length its)) (length pre)
                 num started items = (w, ok, cbs, st, num', started') ->
  (length (pre ++ gb_opt g v p its) <= cap)%nat ->
  exists its',
    w = pre ++ gb_opt g v p (its ++ its') /\
    (length w <= cap)%nat /\
    Forall2 item_echoes its' (firstn (length its') items) /\
    (ok = true -> length its' = length items).
Proof.
  induction items as [|[idx obj] rest IH]; intros its num started w ok cbs st num' started' Hrun Hcap.
  - cbn [ctl_one_header] in Hrun. inversion Hrun; subst.
    exists []. rewrite app_nil_r. repeat split; auto. constructor.
  - cbn [ctl_one_header] in Hrun.
    destruct (item_status s cfg mode num) as [st0 consulted].
    rewrite echo_items_single in Hrun.
    destruct (cap <? length (pre ++ group_bytes g v p (its ++ [(idx, replace_status obj st0)])))%nat eqn:Hfit.
    + cbv beta iota in Hrun. inversion Hrun; subst.
      exists []. rewrite app_nil_r. repeat split; auto; [constructor | discriminate].
    + cbv beta iota in Hrun.
      apply Nat.ltb_ge in Hfit.
      rewrite <- gb_opt_snoc in Hrun, Hfit.
      replace (N.of_nat (length its) + 1) with (N.of_nat (length (its ++ [(idx, replace_status obj st0)]))) in Hrun
        by (rewrite app_length; cbn [length]; lia).
      destruct (ctl_one_header s cfg cap mode g v p (pre ++ gb_opt g v p (its ++ [(idx, replace_status obj st0)]))
                  (N.of_nat (length (its ++ [(idx, replace_status obj st0)]))) (length pre) (num + 1)
                  (started || consulted) rest) as [[[[[w2 ok2] cbs2] st2] num2] started2] eqn:Hrec.
      inversion Hrun; subst.
      destruct (IH _ _ _ _ _ _ _ _ _ Hrec Hfit) as [its' [Hw [Hlen [Hech Hok]]]].
      exists ((idx, replace_status obj st0) :: its').
      rewrite <- app_assoc in Hw. cbn [app] in Hw.
      split; [exact Hw|]. split; [exact Hlen|]. split.
      * cbn [length firstn]. constructor; [|exact Hech].
        split; [reflexivity|]. exists st0. reflexivity.
      * intros Hok2. cbn [length]. rewrite (Hok Hok2). reflexivity.
Qed.

(* ---------- all headers ------------------------------------------------------------------------- *)

Lemma groups_bytes_snoc gs e : groups_bytes (gs ++ [e]) = groups_bytes gs ++ egroup_bytes e.
Proof. unfold groups_bytes. rewrite map_app, concat_app. cbn [map concat]. now rewrite app_nil_r. Qed.

Lemma ctl_headers_inv s cfg cap mode :
  forall hdrs gs0 num started echo ok cbs st started',
  ctl_headers s cfg cap mode (groups_bytes gs0) num started hdrs = (echo, ok, cbs, st, started') ->
  (length (groups_bytes gs0) <= cap)%nat ->
  exists gs,
    echo = groups_bytes (gs0 ++ gs) /\
    (length echo <= cap)%nat /\
    Forall2 group_echoes gs (firstn (length gs) (req_groups hdrs)) /\
    (ok = true -> length gs = length (req_groups hdrs) /\
                  Forall2 (fun e r => length (eg_items e) = length (eg_items r)) gs (req_groups hdrs)).
Proof.
  induction hdrs as [|h rest IH]; intros gs0 num started echo ok cbs st started' Hrun Hcap.
  - cbn [ctl_headers] in Hrun. inversion Hrun; subst.
    exists []. rewrite app_nil_r. cbn [length firstn req_groups]. repeat split; auto; constructor.
  - destruct h as [bits|t|t|c| |a b|x| | |g v p items| ];
      try (cbn [ctl_headers req_groups] in *; eapply IH; eassumption).
    cbn [ctl_headers] in Hrun.
    destruct (ctl_one_header s cfg cap mode g v p (groups_bytes gs0) 0 (length (groups_bytes gs0)) num started items)
      as [[[[[w1 ok1] cbs1] st1] num1] started1] eqn:Hone.
    assert (Hone' : ctl_one_header s cfg cap mode g v p (groups_bytes gs0 ++ gb_opt g v p [])
                      (N.of_nat (length (@nil (N * list N)))) (length (groups_bytes gs0)) num started items
                    = (w1, ok1, cbs1, st1, num1, started1)).
    { cbn [gb_opt length N.of_nat]. rewrite app_nil_r. exact Hone. }
    assert (Hcap' : (length (groups_bytes gs0 ++ gb_opt g v p []) <= cap)%nat).
    { cbn [gb_opt]. rewrite app_nil_r. exact Hcap. }
    destruct (ctl_one_header_inv _ _ _ _ _ _ _ _ _ _ _ _ _ _ _ _ _ _ Hone' Hcap')
      as [its' [Hw1 [Hlen1 [Hech Hok1]]]].
    cbn [app] in Hw1.
    destruct its' as [|i0 its'].
    + (* nothing written for this header *)
      cbn [gb_opt] in Hw1. rewrite app_nil_r in Hw1. subst w1.
      destruct ok1.
      * assert (Hitems : items = []).
        { specialize (Hok1 eq_refl). destruct items; [reflexivity|discriminate]. }
        subst items. cbn [req_groups].
        destruct (ctl_headers s cfg cap mode (groups_bytes gs0) num1 started1 rest)
          as [[[[w2 ok2] cbs2] st2] started2] eqn:Hrest.
        inversion Hrun; subst.
        exact (IH _ _ _ _ _ _ _ _ Hrest Hcap).
      * inversion Hrun; subst.
        exists []. rewrite app_nil_r. cbn [length firstn]. split; [reflexivity|]. split; [exact Hcap|]. split; [constructor|discriminate].
    + (* a group was written *)
      set (e := {| eg_g := g; eg_v := v; eg_prefix := p; eg_items := i0 :: its' |}).
      assert (Hw1' : w1 = groups_bytes (gs0 ++ [e])).
      { rewrite groups_bytes_snoc. exact Hw1. }
      assert (Hne : exists i items', items = i :: items').
      { inversion Hech as [|? y ? l' ? ? Hfi]. destruct items as [|i items']; [discriminate|].
        exists i, items'. reflexivity. }
      destruct Hne as [i [items' Hitems]].
      assert (Hreq : req_groups (WCtl g v p items :: rest)
                     = {| eg_g := g; eg_v := v; eg_prefix := p; eg_items := items |} :: req_groups rest).
      { subst items. reflexivity. }
      rewrite Hreq.
      assert (Hge : group_echoes e {| eg_g := g; eg_v := v; eg_prefix := p; eg_items := items |}).
      { unfold group_echoes, e. cbn [eg_g eg_v eg_prefix eg_items].
        repeat split; [discriminate | exact Hech]. }
      destruct ok1.
      * destruct (ctl_headers s cfg cap mode w1 num1 started1 rest)
          as [[[[w2 ok2] cbs2] st2] started2] eqn:Hrest.
        inversion Hrun; subst echo ok cbs st started'.
        rewrite Hw1' in Hrest, Hlen1.
        destruct (IH _ _ _ _ _ _ _ _ Hrest Hlen1) as [gs [Hecho [Hlen [Hfa Hok]]]].
        exists (e :: gs). rewrite <- app_assoc in Hecho. cbn [app] in Hecho.
        split; [exact Hecho|]. split; [exact Hlen|]. split.
        -- cbn [length firstn]. constructor; assumption.
        -- intros Hok2. destruct (Hok Hok2) as [Hl Hf]. split.
           ++ cbn [length]. now rewrite Hl.
           ++ constructor; [|exact Hf]. cbn [eg_items]. unfold e. cbn [eg_items]. exact (Hok1 eq_refl).
      * inversion Hrun; subst echo ok cbs st started'.
        exists [e]. split; [exact Hw1'|]. split; [exact Hlen1|]. split.
        -- cbn [length firstn]. constructor; [exact Hge|constructor].
        -- discriminate.
Qed.

(* ---------- main theorem ------------------------------------------------------------------------ *)

Theorem echo_wellformed : forall s cfg cap mode num started hdrs echo ok cbs st started',
  ctl_headers s cfg cap mode [] num started hdrs = (echo, ok, cbs, st, started') ->
  exists gs,
    echo = groups_bytes gs /\
    (length echo <= cap)%nat /\
    Forall2 group_echoes gs (firstn (length gs) (req_groups hdrs)) /\
    (ok = true -> length gs = length (req_groups hdrs) /\
                  Forall2 (fun e r => length (eg_items e) = length (eg_items r)) gs (req_groups hdrs)).
Proof.
  intros s cfg cap mode num started hdrs echo ok cbs st started' Hrun.
  apply (ctl_headers_inv s cfg cap mode hdrs [] num started echo ok cbs st started' Hrun).
  cbn [groups_bytes map concat length]. lia.
Qed.

Lemma ctl_headers_length : forall s cfg cap mode num started hdrs echo ok cbs st started',
  ctl_headers s cfg cap mode [] num started hdrs = (echo, ok, cbs, st, started') -> (length echo <= cap)%nat.
Proof.
  intros s cfg cap mode num started hdrs echo ok cbs st started' Hrun.
  destruct (echo_wellformed _ _ _ _ _ _ _ _ _ _ _ _ Hrun) as [gs [_ [Hlen _]]]. exact Hlen.
Qed.


(* a truncated echo: cap = 20, the second header is cut after its first item (its count field says 1) *)
Example echo_truncated_example : forall s cfg,
  ctl_headers s cfg 20 (CmStatus 4) [] 0 false
    [WCtl 12 1 1 [(3, [1; 1; 0])]; WCtl 12 1 2 [(5, [2; 2; 0]); (6, [3; 3; 0])]]
  = ([12; 1; 23; 1; 3; 1; 1; 4;   12; 1; 40; 1; 0; 5; 0; 2; 2; 4], false, [], 4, false).
Proof. intros s cfg. vm_compute. reflexivity. Qed.


(* ---------- READ ------------------------------------------------------------------------------- *)

Lemma ask_write_spec s s1 x o : ask_write s = (s1, x, o) -> same_core s s1 /\ Forall no_tx o.
Proof.
  unfold ask_write. destruct (s_answers s) as [|[] rest] eqn:Ea; intros H; inversion H; subst; clear H;
    (split; [eauto with sc | notx2]).
Qed.

(* the body written by the database is the body of the answer consumed (or empty) *)
Lemma ask_write_body s s1 c e b o :
  ask_write s = (s1, (c, e, b), o) ->
  (exists rest, s_answers s = AWrite c e b :: rest) \/ b = [].
Proof.
  unfold ask_write. destruct (s_answers s) as [|[] rest] eqn:Ea; intros H; inversion H; subst; eauto.
Qed.

Lemma format_read_response_spec s fir seq iin2 s2 r se o :
  format_read_response s fir seq iin2 = (s2, r, se, o) ->
  same_core s s2 /\ Forall no_tx o /\
  r_fn r = fn_response /\ r_iin2 r = iin2 /\
  (exists fin con, r_ctl r = ctl_byte fir fin con false seq /\
     se = (if con then Some {| se_ecsn := seq; se_fin := fin |} else None)) /\
  (exists c e b, (r_size r = 4 + length b)%nat /\ ((exists rest, s_answers s = AWrite c e b :: rest) \/ b = [])).
Proof.
  unfold format_read_response. destruct (ask_write s) as [[s1 [[c e] b]] o1] eqn:E.
  pose proof (ask_write_body _ _ _ _ _ _ E) as Hb. apply ask_write_spec in E. destruct E as [E1 E2].
  intros H; inversion H; subst; clear H. cbn [r_fn r_iin2 r_ctl r_size].
  split; [eauto using sc_trans with sc|]. split; [exact E2|]. split; [reflexivity|]. split; [reflexivity|].
  split; [exists c, (e || negb c); split; reflexivity|]. exists c, e, b. split; [reflexivity|exact Hb].
Qed.

Lemma format_first_read_response_spec s seq s2 r se o :
  format_first_read_response s seq = (s2, r, se, o) ->
  same_core s s2 /\ Forall no_tx o /\
  r_fn r = fn_response /\
  (exists fin con, r_ctl r = ctl_byte true fin con false seq /\
     se = (if con then Some {| se_ecsn := seq; se_fin := fin |} else None)) /\
  (exists c e b, (r_size r = 4 + length b)%nat /\ (In (AWrite c e b) (s_answers s) \/ b = [])).
Proof.
  unfold format_first_read_response. destruct (ask_iin2 s DbSelect) as [[s1 v] o1] eqn:E1.
  apply ask_iin2_spec in E1. destruct E1 as [A1 A2].
  destruct (format_read_response s1 true seq v) as [[[s2' r'] se'] o2] eqn:E2.
  apply format_read_response_spec in E2. destruct E2 as (B1 & B2 & B3 & _ & B4 & (c & e & b & B5 & B6)).
  intros H; inversion H; subst; clear H.
  split; [eauto using sc_trans|]. split; [notx2|]. split; [exact B3|]. split; [exact B4|].
  exists c, e, b. split; [exact B5|]. destruct B6 as [[rest B6]|B6]; [left|right; exact B6].
  destruct A1 as (_ & _ & _ & _ & _ & _ & _ & _ & _ & _ & _ & _ & _ & [pre Hp]).
  rewrite Hp, B6. apply in_or_app. right. left. reflexivity.
Qed.

(* ---------- handle_one_request_from_idle ------------------------------------------------------- *)

(* the fields a request handler changes on top of same_core: s_control and s_last *)
Definition same_aux (s s' : ostate) : Prop :=
  s_now s' = s_now s /\ s_unsol s' = s_unsol s /\
  s_unsol_seq s' = s_unsol_seq s /\ s_deferred s' = s_deferred s /\ s_unsol_buf s' = s_unsol_buf s /\
  s_pending s' = s_pending s /\ s_frame_id s' = s_frame_id s /\ s_notify s' = s_notify s /\
  s_sel_status s' = s_sel_status s /\ s_op_status s' = s_op_status s /\ s_app_iin s' = s_app_iin s /\
  ans_suffix s s'.

Lemma sa_of_sc s s' : same_core s s' -> same_aux s s'.
Proof. unfold same_core, same_aux. intuition. Qed.

Lemma sa_refl s : same_aux s s.
Proof. apply sa_of_sc, sc_refl. Qed.

Lemma sa_trans s1 s2 s3 : same_aux s1 s2 -> same_aux s2 s3 -> same_aux s1 s3.
Proof.
  unfold same_aux, ans_suffix.
  intros (A1 & A2 & A3 & A4 & A5 & A6 & A7 & A8 & A9 & A10 & A11 & [p1 A14])
         (B1 & B2 & B3 & B4 & B5 & B6 & B7 & B8 & B9 & B10 & B11 & [p2 B14]).
  repeat split; try congruence.
  exists (p1 ++ p2). rewrite A14, B14, app_assoc. reflexivity.
Qed.

Lemma sa_upd_last s l : same_aux s (upd_last s l).
Proof. unfold same_aux, ans_suffix; cbn; repeat split; exists []; reflexivity. Qed.
Lemma sa_upd_control s c : same_aux s (upd_control s c).
Proof. unfold same_aux, ans_suffix; cbn; repeat split; exists []; reflexivity. Qed.

(* r' is r as transmitted by write_solicited *)
Definition sent_of (r r' : response) : Prop :=
  r_fn r' = r_fn r /\ r_size r' = r_size r /\ (r_ctl r' = r_ctl r \/ r_ctl r' = set_con (r_ctl r)) /\
  (exists x, r_iin2 r' = N.lor (r_iin2 r) x).

Lemma sent_of_seq r r' : sent_of r r' -> ctl_seq (r_ctl r') = ctl_seq (r_ctl r).
Proof. intros (_ & _ & [H|H] & _); rewrite H; [reflexivity|apply set_con_seq]. Qed.
Lemma sent_of_uns r r' : sent_of r r' -> ctl_uns (r_ctl r') = ctl_uns (r_ctl r).
Proof. intros (_ & _ & [H|H] & _); rewrite H; [reflexivity|apply set_con_uns]. Qed.
Lemma sent_of_fir r r' : sent_of r r' -> N.testbit (r_ctl r') 7 = N.testbit (r_ctl r) 7.
Proof. intros (_ & _ & [H|H] & _); rewrite H; [reflexivity|apply set_con_fir]. Qed.

Definition hfi_finish (cfg : ocfg) (from seq : N) (bytes : list N) (fn : N) (s1 : ostate)
           (resp : option response) (se : option series) (repeat : bool) (o1 : list oobs) : ostate * list oobs :=
  let o0 := [OInfo (IIdleRequest fn seq)] in
  match resp with
  | Some r =>
      if repeat then
        let o2 := repeat_solicited s1 from r in
        let se' := match se with None => if ctl_con (r_ctl r) then Some {| se_ecsn := ctl_seq (r_ctl r); se_fin := true |} else None | x => x end in
        let s2 := upd_last s1 (mk_last seq bytes (Some r) se') in
        match se' with
        | Some x => (upd_control s2 (CSolWait x (confirm_deadline cfg s2) RStep2), o0 ++ o1 ++ o2 ++ [OInfo (IEnterSolWait (se_ecsn x))])
        | None => (s2, o0 ++ o1 ++ o2)
        end
      else
        let '(s2, r', o2) := write_solicited s1 from r in
        let se' := match se with None => if ctl_con (r_ctl r') then Some {| se_ecsn := ctl_seq (r_ctl r'); se_fin := true |} else None | x => x end in
        let s3 := upd_last s2 (mk_last seq bytes (Some r') se') in
        match se' with
        | Some x => (upd_control s3 (CSolWait x (confirm_deadline cfg s3) RStep2), o0 ++ o1 ++ o2 ++ [OInfo (IEnterSolWait (se_ecsn x))])
        | None => (s3, o0 ++ o1 ++ o2)
        end
  | None => (upd_last s1 (mk_last seq bytes None se), o0 ++ o1)
  end.

Lemma handle_from_idle_eq cfg s from bc bytes d frame_id :
  handle_from_idle cfg s from bc bytes d frame_id =
  match to_treq cfg from d with
  | TqNone => (s, [])
  | TqError seq => write_error_response s from bc seq
  | TqRequest ctl fn obj =>
      let seq := ctl_seq ctl in
      match classify s bc bytes ctl fn obj with
      | FtMalformed iin2 => hfi_finish cfg from seq bytes fn s (Some (empty_solicited seq iin2)) None false []
      | FtNewRead _ _ | FtRepeatRead _ _ _ =>
          let '(s1, r, se, o1) := format_first_read_response s seq in hfi_finish cfg from seq bytes fn s1 (Some r) se false o1
      | FtNewNonRead hdrs =>
          let '(s1, r, o1) := handle_non_read cfg s fn seq frame_id bytes hdrs in hfi_finish cfg from seq bytes fn s1 r None false o1
      | FtRepeatNonRead last =>
          let s1 := match s_select s with
                    | Some sel =>
                        if (ss_frame_id sel + 1) mod 4294967296 =? frame_id
                        then upd_select s (Some {| ss_seq := ss_seq sel; ss_frame_id := frame_id;
                                                   ss_time := ss_time sel; ss_objects := ss_objects sel |})
                        else s
                    | None => s
                    end in
          hfi_finish cfg from seq bytes fn s1 last None true []
      | FtBroadcast m =>
          let '(s1, o1) := process_broadcast cfg s m frame_id ctl fn bytes obj in (s1, [OInfo (IIdleRequest fn seq)] ++ o1)
      | FtSolConfirm _ | FtUnsolConfirm _ => (s, [OInfo (IIdleRequest fn seq)])
      end
  end.
Proof. reflexivity. Qed.

Lemma hfi_finish_none cfg from seq bytes fn s1 se repeat o1 :
  hfi_finish cfg from seq bytes fn s1 None se repeat o1 =
  (upd_last s1 (mk_last seq bytes None se), OInfo (IIdleRequest fn seq) :: o1).
Proof. reflexivity. Qed.

Lemma hfi_finish_some cfg from seq bytes fn s1 r se repeat o1 s' o :
  hfi_finish cfg from seq bytes fn s1 (Some r) se repeat o1 = (s', o) ->
  exists s2 r' pre post,
    same_core s1 s2 /\ (if repeat then r' = r else sent_of r r') /\
    o = OInfo (IIdleRequest fn seq) :: o1 ++ pre ++ OTx from (response_bytes r' (s_sol_buf s2)) :: post /\
    Forall no_tx pre /\ Forall no_tx post /\
    exists se', s_last s' = mk_last seq bytes (Some r') se' /\ same_aux s2 s' /\
      (s_control s' = s_control s1 \/ exists x, s_control s' = CSolWait x (confirm_deadline cfg s') RStep2).
Proof.
  unfold hfi_finish. destruct repeat.
  - set (se' := match se with None => if ctl_con (r_ctl r) then Some {| se_ecsn := ctl_seq (r_ctl r); se_fin := true |} else None | x => x end).
    unfold repeat_solicited.
    destruct se' as [x|] eqn:Ese; intros H; inversion H; subst; clear H.
    + exists s1, r, [], [OInfo (IEnterSolWait (se_ecsn x))]. split; [apply sc_refl|]. split; [reflexivity|].
      split; [reflexivity|]. split; [constructor|]. split; [notx2|].
      exists (Some x). split; [reflexivity|]. split; [eauto using sa_trans, sa_upd_last, sa_upd_control|].
      right. exists x. reflexivity.
    + exists s1, r, [], []. split; [apply sc_refl|]. split; [reflexivity|].
      split; [reflexivity|]. split; [constructor|]. split; [constructor|].
      exists None. split; [reflexivity|]. split; [apply sa_upd_last|]. left. reflexivity.
  - destruct (write_solicited s1 from r) as [[s2 r'] o2] eqn:E. apply write_solicited_spec in E.
    destruct E as (E1 & (pre & E2 & E3) & E4 & E5 & E6 & E7).
    set (se' := match se with None => if ctl_con (r_ctl r') then Some {| se_ecsn := ctl_seq (r_ctl r'); se_fin := true |} else None | x => x end).
    destruct se' as [x|] eqn:Ese; intros H; inversion H; subst; clear H.
    + exists s2, r', pre, [OInfo (IEnterSolWait (se_ecsn x))]. split; [exact E1|].
      split; [repeat split; assumption|]. split; [cbn [app]; rewrite <- app_assoc; reflexivity|].
      split; [exact E3|]. split; [notx2|].
      exists (Some x). split; [reflexivity|]. split; [eauto using sa_trans, sa_upd_last, sa_upd_control|].
      right. exists x. reflexivity.
    + exists s2, r', pre, []. split; [exact E1|].
      split; [repeat split; assumption|]. split; [reflexivity|].
      split; [exact E3|]. split; [constructor|].
      exists None. split; [reflexivity|]. split; [apply sa_upd_last|].
      left. cbn. destruct E1 as (_ & E1 & _). exact E1.
Qed.

(* ---------- frames of the mid-level functions -------------------------------------------------- *)

Lemma ans_suffix_refl s : ans_suffix s s.
Proof. exists []. reflexivity. Qed.
Lemma ans_suffix_trans s1 s2 s3 : ans_suffix s1 s2 -> ans_suffix s2 s3 -> ans_suffix s1 s3.
Proof. intros [p1 H1] [p2 H2]. exists (p1 ++ p2). rewrite H1, H2, app_assoc. reflexivity. Qed.
Lemma ans_suffix_eq s s' : s_answers s' = s_answers s -> ans_suffix s s'.
Proof. intros H. exists []. rewrite H. reflexivity. Qed.
Lemma sc_ans s s' : same_core s s' -> ans_suffix s s'.
Proof. unfold same_core. intuition. Qed.
Lemma sa_ans s s' : same_aux s s' -> ans_suffix s s'.
Proof. unfold same_aux. intuition. Qed.

Ltac open_frames :=
  repeat match goal with
         | H : same_core _ _ |- _ =>
             let A := fresh "Hans" in pose proof (sc_ans _ _ H) as A;
             destruct H as (? & ? & ? & ? & ? & ? & ? & ? & ? & ? & ? & ? & ? & _)
         | H : same_aux _ _ |- _ =>
             let A := fresh "Hans" in pose proof (sa_ans _ _ H) as A;
             destruct H as (? & ? & ? & ? & ? & ? & ? & ? & ? & ? & ? & _)
         end.

Ltac ans_solve :=
  first [ apply ans_suffix_refl
        | assumption
        | apply ans_suffix_eq; reflexivity
        | eapply ans_suffix_trans; [eassumption|]; ans_solve
        | eapply ans_suffix_trans; [|eassumption]; apply ans_suffix_eq; reflexivity ].

Lemma process_broadcast_spec cfg s m fid ctl fn bytes obj s1 o :
  process_broadcast cfg s m fid ctl fn bytes obj = (s1, o) -> same_core s s1 /\ Forall no_tx o.
Proof.
  unfold process_broadcast. destruct (negb (o_broadcast cfg)).
  { intros H; inversion H; subst. split; [eauto with sc | notx2]. }
  destruct obj as [e|hdrs rh].
  { intros H; inversion H; subst. split; [eauto with sc | notx2]. }
  assert (S0 : same_core s (upd_bcast_rep (upd_last_bcast s (Some m)) None)) by eauto with sc.
  repeat match goal with |- (if ?c then _ else _) = _ -> _ => destruct c end.
  - destruct (handle_write_headers cfg (upd_bcast_rep (upd_last_bcast s (Some m)) None) hdrs) as [[s' v] o'] eqn:E.
    apply handle_write_headers_spec in E. destruct E as [E1 E2].
    intros H; inversion H; subst. split; [eauto using sc_trans | notx2].
  - destruct (handle_controls cfg (upd_bcast_rep (upd_last_bcast s (Some m)) None) fn (ctl_seq ctl) fid bytes hdrs) as [[s' r'] o'] eqn:E.
    apply handle_controls_spec in E. destruct E as (E1 & E2 & _).
    intros H; inversion H; subst. split; [eauto using sc_trans | notx2].
  - pose proof (handle_freeze_notx cfg 0 hdrs) as Hn. destruct (handle_freeze cfg 0 hdrs) as [v o'].
    intros H; inversion H; subst. split; [exact S0 | notx2].
  - pose proof (handle_freeze_notx cfg 1 hdrs) as Hn. destruct (handle_freeze cfg 1 hdrs) as [v o'].
    intros H; inversion H; subst. split; [exact S0 | notx2].
  - pose proof (handle_freeze_at_time_notx cfg hdrs None) as Hn. destruct (handle_freeze_at_time cfg None hdrs) as [v o'].
    intros H; inversion H; subst. split; [exact S0 | notx2].
  - intros H; inversion H; subst. split; [eauto using sc_trans with sc | notx2].
  - destruct (enable_disable cfg (upd_bcast_rep (upd_last_bcast s (Some m)) None) false (ctl_seq ctl) hdrs) as [s' r'] eqn:E.
    apply enable_disable_spec in E. destruct E as [E1 _].
    intros H; inversion H; subst. split; [eauto using sc_trans | notx2].
  - destruct (enable_disable cfg (upd_bcast_rep (upd_last_bcast s (Some m)) None) true (ctl_seq ctl) hdrs) as [s' r'] eqn:E.
    apply enable_disable_spec in E. destruct E as [E1 _].
    intros H; inversion H; subst. split; [eauto using sc_trans | notx2].
  - intros H; inversion H; subst. split; [exact S0 | notx2].
Qed.

Lemma write_error_response_spec s from bc seq s1 o :
  write_error_response s from bc seq = (s1, o) ->
  same_core s s1 /\
  match bc, seq with
  | None, Some q => exists r' pre, sent_of (empty_solicited q iin2_no_func) r' /\
                      o = pre ++ [OTx from (response_bytes r' (s_sol_buf s1))] /\ Forall no_tx pre
  | _, _ => o = []
  end.
Proof.
  unfold write_error_response. destruct bc as [m|]; [intros H; inversion H; subst; split; [apply sc_refl|reflexivity]|].
  destruct seq as [q|]; [|intros H; inversion H; subst; split; [apply sc_refl|reflexivity]].
  destruct (write_solicited s from (empty_solicited q iin2_no_func)) as [[s' r'] o'] eqn:E.
  apply write_solicited_spec in E. destruct E as (E1 & (pre & E2 & E3) & E4 & E5 & E6 & E7).
  intros H; inversion H; subst. split; [exact E1|]. exists r', pre. repeat split; assumption.
Qed.

(* handle_from_idle changes, of the fields listed in same_core, only s_last and s_control, and the
   control state only by entering a solicited confirm wait that resumes at step 2 *)
Lemma handle_from_idle_frame cfg s from bc bytes d fid s' o :
  handle_from_idle cfg s from bc bytes d fid = (s', o) ->
  same_aux s s' /\
  (s_control s' = s_control s \/ exists x, s_control s' = CSolWait x (confirm_deadline cfg s') RStep2).
Proof.
  rewrite handle_from_idle_eq. destruct (to_treq cfg from d) as [|sq|ctl fn obj].
  - intros H; inversion H; subst. split; [apply sa_refl|left; reflexivity].
  - intros H. apply write_error_response_spec in H. destruct H as [H _]. split; [apply sa_of_sc; exact H|].
    left. destruct H as (_ & H & _). exact H.
  - cbv zeta. destruct (classify s bc bytes ctl fn obj) as [iin2|hdrs rh|resp hdrs rh|hdrs|last|m|q|q].
    + intros H. apply hfi_finish_some in H.
      destruct H as (s2 & r' & pre & post & H1 & _ & _ & _ & _ & se' & H2 & H3 & H4).
      split; [eauto using sa_trans, sa_of_sc|]. exact H4.
    + destruct (format_first_read_response s (ctl_seq ctl)) as [[[s1 r] se] o1] eqn:E.
      apply format_first_read_response_spec in E. destruct E as (E1 & _).
      intros H. apply hfi_finish_some in H.
      destruct H as (s2 & r' & pre & post & H1 & _ & _ & _ & _ & se' & H2 & H3 & H4).
      split; [eauto using sa_trans, sa_of_sc|].
      destruct E1 as (_ & E1 & _). rewrite E1 in H4. exact H4.
    + destruct (format_first_read_response s (ctl_seq ctl)) as [[[s1 r] se] o1] eqn:E.
      apply format_first_read_response_spec in E. destruct E as (E1 & _).
      intros H. apply hfi_finish_some in H.
      destruct H as (s2 & r' & pre & post & H1 & _ & _ & _ & _ & se' & H2 & H3 & H4).
      split; [eauto using sa_trans, sa_of_sc|].
      destruct E1 as (_ & E1 & _). rewrite E1 in H4. exact H4.
    + destruct (handle_non_read cfg s fn (ctl_seq ctl) fid bytes hdrs) as [[s1 r] o1] eqn:E.
      apply handle_non_read_spec in E. destruct E as (E1 & _).
      destruct r as [r|].
      * intros H. apply hfi_finish_some in H.
        destruct H as (s2 & r' & pre & post & H1 & _ & _ & _ & _ & se' & H2 & H3 & H4).
        split; [eauto using sa_trans, sa_of_sc|].
        destruct E1 as (_ & E1 & _). rewrite E1 in H4. exact H4.
      * rewrite hfi_finish_none. intros H; inversion H; subst.
        split; [eauto using sa_trans, sa_of_sc, sa_upd_last|]. left. cbn. destruct E1 as (_ & E1 & _). exact E1.
    + match goal with |- hfi_finish _ _ _ _ _ ?s1 _ _ _ _ = _ -> _ => set (s1' := s1) end.
      assert (S1 : same_core s s1').
      { subst s1'. destruct (s_select s) as [sel|]; [|apply sc_refl].
        destruct ((ss_frame_id sel + 1) mod 4294967296 =? fid); eauto with sc. }
      destruct last as [r|].
      * intros H. apply hfi_finish_some in H.
        destruct H as (s2 & r' & pre & post & H1 & _ & _ & _ & _ & se' & H2 & H3 & H4).
        split; [eauto using sa_trans, sa_of_sc|].
        destruct S1 as (_ & S1 & _). rewrite S1 in H4. exact H4.
      * rewrite hfi_finish_none. intros H; inversion H; subst.
        split; [eauto using sa_trans, sa_of_sc, sa_upd_last|]. left. cbn. destruct S1 as (_ & S1 & _). exact S1.
    + destruct (process_broadcast cfg s m fid ctl fn bytes obj) as [s1 o1] eqn:E.
      apply process_broadcast_spec in E. destruct E as [E1 _].
      intros H; inversion H; subst. split; [apply sa_of_sc; exact E1|]. left. destruct E1 as (_ & E1 & _). exact E1.
    + intros H; inversion H; subst. split; [apply sa_refl|left; reflexivity].
    + intros H; inversion H; subst. split; [apply sa_refl|left; reflexivity].
Qed.

(* unsol_wait_fragment: control state, pending fragment, wake-up permit and the unsolicited
   numbering are left alone; it changes s_last and s_deferred *)
Definition same_uw (s s' : ostate) : Prop :=
  s_now s' = s_now s /\ s_control s' = s_control s /\ s_unsol s' = s_unsol s /\
  s_unsol_seq s' = s_unsol_seq s /\ s_unsol_buf s' = s_unsol_buf s /\
  s_pending s' = s_pending s /\ s_frame_id s' = s_frame_id s /\ s_notify s' = s_notify s /\
  ans_suffix s s'.

Lemma uw_of_sc s s' : same_core s s' -> same_uw s s'.
Proof. unfold same_core, same_uw. intuition. Qed.
Lemma uw_refl s : same_uw s s.
Proof. apply uw_of_sc, sc_refl. Qed.
Lemma uw_trans s1 s2 s3 : same_uw s1 s2 -> same_uw s2 s3 -> same_uw s1 s3.
Proof.
  unfold same_uw. intros (A1 & A2 & A3 & A4 & A5 & A6 & A7 & A8 & A9) (B1 & B2 & B3 & B4 & B5 & B6 & B7 & B8 & B9).
  repeat split; try congruence. eapply ans_suffix_trans; eassumption.
Qed.
Lemma uw_upd_deferred s x : same_uw s (upd_deferred s x).
Proof. unfold same_uw; cbn; repeat split. apply ans_suffix_eq; reflexivity. Qed.
Lemma uw_upd_last s x : same_uw s (upd_last s x).
Proof. unfold same_uw; cbn; repeat split. apply ans_suffix_eq; reflexivity. Qed.
Lemma uw_upd_last_bcast s x : same_uw s (upd_last_bcast s x).
Proof. unfold same_uw; cbn; repeat split. apply ans_suffix_eq; reflexivity. Qed.

Lemma unsol_wait_fragment_frame cfg s resp from bc bytes d fid s' res o :
  unsol_wait_fragment cfg s resp from bc bytes d fid = (s', res, o) ->
  same_uw s s' /\ (res <> None -> s_deferred s' = s_deferred s \/ s_deferred s' = None).
Proof.
  unfold unsol_wait_fragment. destruct (to_treq cfg from d) as [|sq|ctl fn obj].
  - intros H; inversion H; subst. split; [apply uw_refl|]. intros C; contradiction.
  - destruct (write_error_response (upd_deferred s None) from bc sq) as [s1 o1] eqn:E.
    apply write_error_response_spec in E. destruct E as [E _].
    intros H; inversion H; subst. split; [apply uw_trans with (upd_deferred s None); [apply uw_upd_deferred|apply uw_of_sc; exact E]|]. intros C; contradiction.
  - destruct (classify s bc bytes ctl fn obj) as [iin2|hdrs rh|rsp hdrs rh|hdrs|last|m|q|q].
    + destruct (write_solicited (upd_deferred s None) from (empty_solicited (ctl_seq ctl) iin2)) as [[s1 r1] o1] eqn:E.
      apply write_solicited_spec in E. destruct E as [E _].
      intros H; inversion H; subst. split; [apply uw_trans with (upd_deferred s None); [apply uw_upd_deferred|apply uw_of_sc; exact E]|]. intros C; contradiction.
    + intros H; inversion H; subst. split; [apply uw_upd_deferred|]. intros C; contradiction.
    + intros H; inversion H; subst. split; [apply uw_upd_deferred|]. intros C; contradiction.
    + destruct (handle_non_read cfg (upd_deferred s None) fn (ctl_seq ctl) fid bytes hdrs) as [[s1 r] o1] eqn:E.
      apply handle_non_read_spec in E. destruct E as (E1 & _).
      assert (Hd1 : s_deferred s1 = None) by (destruct E1 as (_ & _ & _ & _ & _ & E1 & _); exact E1).
      destruct r as [r0|].
      * destruct (write_solicited s1 from r0) as [[s2 r1] o2] eqn:E2.
        apply write_solicited_spec in E2. destruct E2 as [E2 _].
        intros H; inversion H; subst. split.
        -- apply uw_trans with (upd_deferred s None); [apply uw_upd_deferred|].
           apply uw_trans with s1; [apply uw_of_sc; exact E1|].
           apply uw_trans with s2; [apply uw_of_sc; exact E2|apply uw_upd_last].
        -- intros _. right. cbn. destruct E2 as (_ & _ & _ & _ & _ & E2 & _). congruence.
      * intros H; inversion H; subst. split.
        -- apply uw_trans with (upd_deferred s None); [apply uw_upd_deferred|].
           apply uw_trans with s1; [apply uw_of_sc; exact E1|apply uw_upd_last].
        -- intros _. right. cbn. exact Hd1.
    + intros H; inversion H; subst. split; [apply uw_upd_deferred|]. intros C; contradiction.
    + destruct (process_broadcast cfg (upd_deferred s None) m fid ctl fn bytes obj) as [s1 o1] eqn:E.
      apply process_broadcast_spec in E. destruct E as [E _].
      intros H; inversion H; subst. split; [apply uw_trans with (upd_deferred s None); [apply uw_upd_deferred|apply uw_of_sc; exact E]|].
      intros _. right. destruct E as (_ & _ & _ & _ & _ & E & _). exact E.
    + intros H. split.
      * inversion H; subst. apply uw_of_sc, sc_bcast_confirmed.
      * inversion H; subst. intros C; contradiction.
    + destruct (q =? ctl_seq (r_ctl resp)); intros H; inversion H; subst.
      * split; [apply uw_of_sc, sc_bcast_confirmed|]. intros _. left.
        destruct (sc_bcast_confirmed s true q) as (_ & _ & _ & _ & _ & Hd & _). exact Hd.
      * split; [apply uw_refl|]. intros C; contradiction.
Qed.

(* check_unsolicited: never answers NoSleep; leaves s_last, s_deferred, the pending fragment and the
   permit alone; from idle it stays idle or enters the unsolicited confirm wait *)
Definition same_cu (s s' : ostate) : Prop :=
  s_now s' = s_now s /\ s_last s' = s_last s /\ s_unsol s' = s_unsol s /\ s_deferred s' = s_deferred s /\
  s_pending s' = s_pending s /\ s_frame_id s' = s_frame_id s /\ s_notify s' = s_notify s /\
  ans_suffix s s'.

Lemma cu_of_sc s s' : same_core s s' -> same_cu s s'.
Proof. unfold same_core, same_cu. intuition. Qed.
Lemma cu_refl s : same_cu s s.
Proof. apply cu_of_sc, sc_refl. Qed.
Lemma cu_trans s1 s2 s3 : same_cu s1 s2 -> same_cu s2 s3 -> same_cu s1 s3.
Proof.
  unfold same_cu. intros (A1 & A2 & A3 & A4 & A5 & A6 & A7 & A8) (B1 & B2 & B3 & B4 & B5 & B6 & B7 & B8).
  repeat split; try congruence. eapply ans_suffix_trans; eassumption.
Qed.
Lemma cu_upd_control s x : same_cu s (upd_control s x).
Proof. unfold same_cu; cbn; repeat split. apply ans_suffix_eq; reflexivity. Qed.
Lemma cu_upd_unsol_seq s x : same_cu s (upd_unsol_seq s x).
Proof. unfold same_cu; cbn; repeat split. apply ans_suffix_eq; reflexivity. Qed.
Lemma cu_upd_unsol_buf s x : same_cu s (upd_unsol_buf s x).
Proof. unfold same_cu; cbn; repeat split. apply ans_suffix_eq; reflexivity. Qed.

Lemma start_unsol_spec cfg s r is_null s' o :
  start_unsol cfg s r is_null = (s', o) ->
  exists s1 r1 pre,
    same_core s s1 /\ r_fn r1 = r_fn r /\ r_size r1 = r_size r /\ r_ctl r1 = r_ctl r /\
    s' = upd_control s1 (CUnsolWait r1 is_null (if is_null then Some 0%nat else o_retries cfg) (confirm_deadline cfg s1)) /\
    o = pre ++ [OTx (o_master cfg) (response_bytes r1 (s_unsol_buf s1)); OInfo (IEnterUnsolWait (ctl_seq (r_ctl r1)))] /\
    Forall no_tx pre.
Proof.
  unfold start_unsol. destruct (write_unsolicited cfg s r) as [[s1 r1] o1] eqn:E.
  apply write_unsolicited_spec in E. destruct E as (E1 & (pre & E2 & E3) & E4 & E5 & E6).
  intros H; inversion H; subst. exists s1, r1, pre. split; [exact E1|]. repeat split; try assumption.
  rewrite <- app_assoc. reflexivity.
Qed.

Lemma check_unsolicited_frame cfg s s' ns o :
  check_unsolicited cfg s = (s', ns, o) ->
  ns = false /\ same_cu s s' /\
  (s_control s' = s_control s \/ exists resp is_null retries dl, s_control s' = CUnsolWait resp is_null retries dl).
Proof.
  unfold check_unsolicited. destruct (negb (o_unsol cfg)).
  { intros H; inversion H; subst. split; [reflexivity|]. split; [apply cu_refl|left; reflexivity]. }
  destruct (s_unsol s) as [|deadline].
  { destruct (start_unsol cfg (upd_unsol_seq s (seq16_next (s_unsol_seq s))) (unsol_header (s_unsol_seq s) 0) true) as [s2 o2] eqn:E.
    apply start_unsol_spec in E. destruct E as (s1 & r1 & pre & E1 & _ & _ & _ & E2 & _).
    intros H; inversion H; subst. split; [reflexivity|]. split.
    - eapply cu_trans; [apply cu_upd_unsol_seq|]. eapply cu_trans; [apply cu_of_sc; exact E1|apply cu_upd_control].
    - right. cbn. eauto. }
  destruct (negb match deadline with Some t => (t <=? s_now s)%Z | None => true end).
  { intros H; inversion H; subst. split; [reflexivity|]. split; [apply cu_refl|left; reflexivity]. }
  destruct (negb (any_enabled s)).
  { intros H; inversion H; subst. split; [reflexivity|]. split; [apply cu_refl|left; reflexivity]. }
  destruct (ask_unsol s) as [s1 [count body]] eqn:E0. apply ask_unsol_spec in E0.
  destruct (s_enabled s) as [[c1 c2] c3].
  destruct (count =? 0).
  { intros H; inversion H; subst. split; [reflexivity|]. split; [apply cu_of_sc; exact E0|].
    left. destruct E0 as (_ & E0 & _). exact E0. }
  match goal with |- context [start_unsol cfg ?a ?b ?c] => destruct (start_unsol cfg a b c) as [s3 o3] eqn:E end.
  apply start_unsol_spec in E. destruct E as (s2 & r1 & pre & E1 & _ & _ & _ & E2 & _).
  intros H; inversion H; subst. split; [reflexivity|]. split.
  - eapply cu_trans; [apply cu_of_sc; exact E0|]. eapply cu_trans; [apply cu_upd_unsol_seq|].
    eapply cu_trans; [apply cu_upd_unsol_buf|]. eapply cu_trans; [apply cu_of_sc; exact E1|apply cu_upd_control].
  - right. cbn. eauto.
Qed.

Lemma end_unsol_frame cfg s is_null res s' ns o :
  end_unsol cfg s is_null res = (s', ns, o) ->
  s_control s' = CIdle /\ s_last s' = s_last s /\ s_deferred s' = s_deferred s /\ s_pending s' = s_pending s /\
  s_notify s' = s_notify s /\ s_unsol_seq s' = s_unsol_seq s /\ s_unsol_buf s' = s_unsol_buf s /\
  s_answers s' = s_answers s /\ s_now s' = s_now s /\ s_frame_id s' = s_frame_id s /\ Forall no_tx o.
Proof.
  unfold end_unsol. destruct is_null, res; intros H; inversion H; subst; cbn; repeat split; notx2.
Qed.

Lemma handle_deferred_none cfg s ns : s_deferred s = None -> handle_deferred cfg s ns = (s, []).
Proof. unfold handle_deferred. intros H. rewrite H. reflexivity. Qed.

(* handle_deferred with a deferred READ: answers it (one solicited fragment to the recorded source,
   with the recorded sequence number), clears it, stores a wake-up permit *)
Lemma handle_deferred_some cfg s ns d s' o :
  s_deferred s = Some d -> handle_deferred cfg s ns = (s', o) ->
  exists s3 r r' pre post se',
    r_fn r = fn_response /\ (exists fin con, r_ctl r = ctl_byte true fin con false (df_seq d)) /\
    (exists c e b, (r_size r = 4 + length b)%nat /\ (In (AWrite c e b) (s_answers s) \/ b = [])) /\
    sent_of r r' /\
    o = pre ++ OTx (df_from d) (response_bytes r' (s_sol_buf s3)) :: post /\
    Forall no_tx pre /\ Forall no_tx post /\
    s_last s' = mk_last (df_seq d) (df_bytes d) (Some r') se' /\
    s_deferred s' = None /\ s_pending s' = s_pending s /\ s_notify s' = true /\
    s_unsol_seq s' = s_unsol_seq s /\ s_unsol_buf s' = s_unsol_buf s /\ s_unsol s' = s_unsol s /\
    s_now s' = s_now s /\ s_frame_id s' = s_frame_id s /\ ans_suffix s s' /\
    (s_control s' = s_control s \/ exists x, s_control s' = CSolWait x (confirm_deadline cfg s') (RStep4 ns)).
Proof.
  unfold handle_deferred. intros Hd. rewrite Hd.
  destruct (ask_iin2 (upd_notify (upd_deferred s None) true) DbDeferredSelect) as [[s1 iin2] o1] eqn:E1.
  apply ask_iin2_spec in E1. destruct E1 as [A1 A2].
  destruct (format_read_response s1 true (df_seq d) (N.lor (df_iin2 d) iin2)) as [[[s2 r] se] o2] eqn:E2.
  apply format_read_response_spec in E2. destruct E2 as (B1 & B2 & B3 & _ & (fin & con & B4 & _) & (c & e & b & B5 & B6)).
  destruct (write_solicited s2 (df_from d) r) as [[s3 r'] o3] eqn:E3.
  apply write_solicited_spec in E3. destruct E3 as (C1 & (pre & C2 & C3) & C4 & C5 & C6 & C7).
  set (se' := match se with None => if ctl_con (r_ctl r') then Some {| se_ecsn := ctl_seq (r_ctl r'); se_fin := true |} else None | x => x end).
  assert (Hsuf : ans_suffix s s3).
  { apply ans_suffix_trans with (upd_notify (upd_deferred s None) true); [apply ans_suffix_eq; reflexivity|].
    eapply ans_suffix_trans; [apply sc_ans; exact A1|].
    eapply ans_suffix_trans; [apply sc_ans; exact B1|apply sc_ans; exact C1]. }
  assert (HIn : In (AWrite c e b) (s_answers s) \/ b = []).
  { destruct B6 as [[rest B6]|B6]; [left|right; exact B6].
    destruct A1 as (_ & _ & _ & _ & _ & _ & _ & _ & _ & _ & _ & _ & _ & [p Hp]). cbn in Hp.
    rewrite Hp, B6. apply in_or_app. right. left. reflexivity. }
  pose proof (sc_trans _ _ _ (sc_trans _ _ _ A1 B1) C1) as S13.
  destruct S13 as (S1 & S2 & S3 & S4 & S5 & S6 & S7 & S8 & S9 & S10 & _). cbn in S1, S2, S3, S4, S5, S6, S7, S8, S9, S10.
  destruct se' as [x|] eqn:Ese; intros H; inversion H; subst; clear H.
  - exists s3, r, r', (o1 ++ o2 ++ pre), [OInfo (IEnterSolWait (se_ecsn x))], se. split; [exact B3|]. split; [eauto|]. split; [eauto|].
    split; [repeat split; assumption|].
    split; [rewrite <- !app_assoc; reflexivity|]. split; [notx2|]. split; [notx2|].
    cbn. repeat split; try assumption. right. exists x. reflexivity.
  - exists s3, r, r', (o1 ++ o2 ++ pre), [], se. split; [exact B3|]. split; [eauto|]. split; [eauto|].
    split; [repeat split; assumption|].
    split; [rewrite <- !app_assoc; reflexivity|]. split; [notx2|]. split; [notx2|].
    cbn. repeat split; try assumption. left. exact S2.
Qed.

(* ---------- sizes of fresh responses ------------------------------------------------------------- *)

Lemma handle_controls_size cfg s fn seq fid bytes hdrs s1 r o :
  handle_controls cfg s fn seq fid bytes hdrs = (s1, Some r, o) ->
  (r_size r <= 4 \/ r_size r <= o_sol_tx cfg)%nat.
Proof.
  unfold handle_controls. destruct (negb (all_controls hdrs)).
  { destruct (fn =? fn_direct_operate_nr); intros H; inversion H; subst. left. cbn. lia. }
  destruct (fn =? fn_direct_operate_nr).
  { destruct (noack_headers s cfg 0 false hdrs) as [cbs started]. intros H; inversion H. }
  assert (Hsz : forall (echo : list N) st, (length echo <= o_sol_tx cfg - 4)%nat ->
                 (r_size (control_response seq st (length echo)) <= 4 \/
                  r_size (control_response seq st (length echo)) <= o_sol_tx cfg)%nat).
  { intros echo st Hl. cbn [control_response r_size]. lia. }
  destruct (fn =? fn_select).
  { destruct (ctl_headers s cfg (o_sol_tx cfg - 4) CmSelect [] 0 false hdrs) as [[[[echo ok] cbs] st] started] eqn:E.
    apply ctl_headers_length in E. intros H; inversion H; subst. apply Hsz. exact E. }
  destruct (fn =? fn_direct_operate).
  { destruct (ctl_headers s cfg (o_sol_tx cfg - 4) (CmOperate OpDo) [] 0 false hdrs) as [[[[echo ok] cbs] st] started] eqn:E.
    apply ctl_headers_length in E. intros H; inversion H; subst. apply Hsz. exact E. }
  match goal with |- context [match ?v with Some _ => _ | None => _ end = _] => destruct v as [status|] end.
  - destruct (ctl_headers s cfg (o_sol_tx cfg - 4) (CmStatus status) [] 0 false hdrs) as [[[[echo ok] cbs] st] started] eqn:E.
    apply ctl_headers_length in E. intros H; inversion H; subst. apply Hsz. exact E.
  - destruct (ctl_headers s cfg (o_sol_tx cfg - 4) (CmOperate OpSbo) [] 0 false hdrs) as [[[[echo ok] cbs] st] started] eqn:E.
    apply ctl_headers_length in E. intros H; inversion H; subst. apply Hsz. exact E.
Qed.

Lemma handle_non_read_size cfg s fn seq fid bytes hdrs s1 r o :
  handle_non_read cfg s fn seq fid bytes hdrs = (s1, Some r, o) ->
  (r_size r <= 10 \/ r_size r <= o_sol_tx cfg)%nat.
Proof.
  rewrite handle_non_read_eq. destruct (hnr_body cfg s fn seq fid bytes hdrs) as [[s' r'] o'] eqn:E.
  destruct r' as [r'|]; intros H; inversion H; subst; clear H. cbn [with_iin2 r_size].
  revert E. unfold hnr_body.
  repeat match goal with |- (if ?c then _ else _) = _ -> _ => destruct c end.
  - destruct (handle_write_headers cfg s hdrs) as [[s2 v] o2]. intros H; inversion H; subst. left; cbn; lia.
  - intros H; inversion H; subst. left; cbn; lia.
  - intros H; inversion H; subst. left; cbn; lia.
  - destruct (restart_response seq s (o_cold cfg)) as [s2 r2] eqn:E. apply restart_response_spec in E.
    destruct E as (_ & _ & _ & E). intros H; inversion H; subst. left. lia.
  - destruct (restart_response seq s (o_warm cfg)) as [s2 r2] eqn:E. apply restart_response_spec in E.
    destruct E as (_ & _ & _ & E). intros H; inversion H; subst. left. lia.
  - intros H. apply handle_controls_size in H. lia.
  - destruct (handle_freeze cfg 0 hdrs) as [v o2]. intros H; inversion H; subst. left; cbn; lia.
  - destruct (handle_freeze cfg 0 hdrs) as [v o2]. intros H; inversion H.
  - destruct (handle_freeze cfg 1 hdrs) as [v o2]. intros H; inversion H; subst. left; cbn; lia.
  - destruct (handle_freeze cfg 1 hdrs) as [v o2]. intros H; inversion H.
  - destruct (handle_freeze_at_time cfg None hdrs) as [v o2]. intros H; inversion H; subst. left; cbn; lia.
  - destruct (handle_freeze_at_time cfg None hdrs) as [v o2]. intros H; inversion H.
  - destruct (enable_disable cfg s true seq hdrs) as [s2 r2] eqn:E. apply enable_disable_spec in E.
    destruct E as [_ [v E]]. intros H; inversion H; subst. left; cbn; lia.
  - destruct (enable_disable cfg s false seq hdrs) as [s2 r2] eqn:E. apply enable_disable_spec in E.
    destruct E as [_ [v E]]. intros H; inversion H; subst. left; cbn; lia.
  - intros H; inversion H; subst. left; cbn; lia.
Qed.

(* ---------- which object headers the non-READ handlers reject ------------------------------------ *)

(* the function codes handle_non_read executes (everything else but CONFIRM and READ falls into its
   default branch: NO_FUNC_CODE_SUPPORT) *)
Definition fn_executed (fn : N) : bool :=
  existsb (N.eqb fn) [2; 3; 4; 5; 6; 7; 8; 9; 10; 11; 12; 13; 14; 20; 21; 23; 24].

(* WRITE: g80v1 other than "clear IIN1.7", malformed or refused time objects, anything else *)
Definition write_rejects (cfg : ocfg) (h : whdr) : bool :=
  match h with
  | WIin bits => existsb (fun iv => negb (fst iv =? 7) || snd iv) bits
  | WAbsTime None => true
  | WLastRec None => true
  | WAbsTime (Some _) => negb (o_wtime cfg =? 0)
  | WLastRec (Some _) => negb (o_wtime cfg =? 0)
  | _ => true
  end.

(* freeze functions: anything but g20v0 (all objects / range), or the application refuses *)
Definition freeze_rejects (cfg : ocfg) (h : whdr) : bool :=
  match h with
  | WFrzAll => negb (o_freeze cfg =? 0)
  | WFrzRange _ _ => negb (o_freeze cfg =? 0)
  | _ => true
  end.

(* FREEZE_AT_TIME: a malformed g50v2, and the above for every other header *)
Definition freeze_at_time_rejects (cfg : ocfg) (h : whdr) : bool :=
  match h with
  | WFt (Some _) => false
  | WFt None => true
  | _ => freeze_rejects cfg h
  end.

(* ENABLE/DISABLE_UNSOLICITED: anything but g60v2/3/4 *)
Definition unsol_class_hdr (h : whdr) : bool :=
  match h with WCls 1 => true | WCls 2 => true | WCls 3 => true | _ => false end.

Definition is_ctl_hdr (h : whdr) : bool := match h with WCtl _ _ _ _ => true | _ => false end.

Lemma req_result_nonzero code : (code =? 0) = false -> N.land (req_result_iin2 code) 7 <> 0.
Proof.
  intros H. unfold req_result_iin2. rewrite H. destruct (code =? 1); cbn; discriminate.
Qed.

Lemma write_iin_bits_rejects bits : forall s s1 v o,
  existsb (fun iv => negb (fst iv =? 7) || snd iv) bits = true ->
  write_iin_bits s bits = (s1, v, o) -> N.land v 7 <> 0.
Proof.
  induction bits as [|[idx value] rest IH]; intros s s1 v o Hex H; cbn [existsb] in Hex; [discriminate|].
  cbn [write_iin_bits] in H. cbn [fst snd] in Hex.
  destruct (idx =? 7); [destruct value|].
  - destruct (write_iin_bits s rest) as [[s' v'] o']. replace v with (N.lor iin2_param v') by congruence.
    apply land7_lor. cbn. discriminate.
  - cbn in Hex. destruct (write_iin_bits (upd_restart s false) rest) as [[s' v'] o'] eqn:E.
    replace v with v' by congruence. eapply IH; eassumption.
  - destruct (write_iin_bits s rest) as [[s' v'] o']. replace v with (N.lor iin2_param v') by congruence.
    apply land7_lor. cbn. discriminate.
Qed.

Lemma write_header_rejects cfg s h s1 v o :
  write_rejects cfg h = true -> write_header cfg s h = (s1, v, o) -> N.land v 7 <> 0.
Proof.
  unfold write_rejects, write_header.
  destruct h as [bits|[t|]|[t|]|c| |a b|x| | |g v0 p items|]; intros Hr H;
    try (inversion H; subst; cbn; discriminate).
  - eapply write_iin_bits_rejects; eassumption.
  - inversion H; subst. apply req_result_nonzero. apply negb_true_iff. exact Hr.
  - destruct (s_last_recorded s) as [t0|]; [|inversion H; subst; cbn; discriminate].
    destruct (max_timestamp - t <? Z.to_N (s_now s - t0)); inversion H; subst; [cbn; discriminate|].
    apply req_result_nonzero. apply negb_true_iff. exact Hr.
Qed.

Lemma handle_write_headers_rejects cfg hdrs : forall s s1 v o,
  existsb (write_rejects cfg) hdrs = true -> handle_write_headers cfg s hdrs = (s1, v, o) -> N.land v 7 <> 0.
Proof.
  induction hdrs as [|h rest IH]; intros s s1 v o Hex H; cbn [existsb] in Hex; [discriminate|].
  cbn [handle_write_headers] in H.
  destruct (write_header cfg s h) as [[s' v1] o1] eqn:E1.
  destruct (handle_write_headers cfg s' rest) as [[s'' v2] o2] eqn:E2.
  inversion H; subst. apply orb_true_iff in Hex. destruct Hex as [Hex|Hex].
  - apply land7_lor. eapply write_header_rejects; eassumption.
  - apply land7_lor_r. eapply IH; eassumption.
Qed.

Lemma freeze_header_rejects cfg ft t i h :
  freeze_rejects cfg h = true -> N.land (fst (freeze_header cfg ft t i h)) 7 <> 0.
Proof.
  unfold freeze_rejects, freeze_header. destruct h; intros Hr; cbn [fst];
    try (cbn; discriminate); apply req_result_nonzero; apply negb_true_iff; exact Hr.
Qed.

Lemma handle_freeze_rejects cfg ft hdrs :
  existsb (freeze_rejects cfg) hdrs = true -> N.land (fst (handle_freeze cfg ft hdrs)) 7 <> 0.
Proof.
  induction hdrs as [|h rest IH]; intros Hex; cbn [existsb] in Hex; [discriminate|].
  cbn [handle_freeze]. pose proof (freeze_header_rejects cfg ft 0 0 h) as Hh.
  destruct (freeze_header cfg ft 0 0 h) as [v1 o1]. destruct (handle_freeze cfg ft rest) as [v2 o2].
  cbn [fst] in *. apply orb_true_iff in Hex. destruct Hex as [Hex|Hex]; [apply land7_lor|apply land7_lor_r]; auto.
Qed.

Lemma handle_freeze_at_time_rejects cfg hdrs : forall timing,
  existsb (freeze_at_time_rejects cfg) hdrs = true ->
  N.land (fst (handle_freeze_at_time cfg timing hdrs)) 7 <> 0.
Proof.
  induction hdrs as [|h rest IH]; intros timing Hex; cbn [existsb] in Hex; [discriminate|].
  apply orb_true_iff in Hex.
  assert (Hgen : (freeze_rejects cfg h = true \/ existsb (freeze_at_time_rejects cfg) rest = true) ->
                 N.land (fst (match timing with
      | None => let '(v, o) := handle_freeze_at_time cfg timing rest in (N.lor iin2_param v, o)
      | Some (t, i) => let '(v1, o1) := freeze_header cfg 2 t i h in
                       let '(v2, o2) := handle_freeze_at_time cfg timing rest in (N.lor v1 v2, o1 ++ o2)
      end)) 7 <> 0).
  { intros Hc. destruct timing as [[t i]|].
    - pose proof (freeze_header_rejects cfg 2 t i h) as Hh. pose proof (IH (Some (t, i))) as Hr.
      destruct (freeze_header cfg 2 t i h) as [v1 o1].
      destruct (handle_freeze_at_time cfg (Some (t, i)) rest) as [v2 o2]. cbn [fst] in *.
      destruct Hc as [Hc|Hc]; [apply land7_lor|apply land7_lor_r]; auto.
    - destruct (handle_freeze_at_time cfg None rest) as [v2 o2]. cbn [fst]. apply land7_lor. cbn. discriminate. }
  cbn [handle_freeze_at_time].
  destruct h as [bits|t0|t0|c| |a b|[x|]| | |g v0 p items|]; try (apply Hgen; exact Hex).
  - destruct Hex as [Hex|Hex]; [discriminate|]. apply IH. exact Hex.
  - destruct (handle_freeze_at_time cfg timing rest) as [v2 o2]. cbn [fst]. apply land7_lor. cbn. discriminate.
Qed.

Definition ed_step (enable : bool) (acc : (bool * bool * bool) * N) (h : whdr) : (bool * bool * bool) * N :=
  let '((c1, c2, c3), v) := acc in
  match h with
  | WCls 1 => ((enable, c2, c3), v)
  | WCls 2 => ((c1, enable, c3), v)
  | WCls 3 => ((c1, c2, enable), v)
  | _ => ((c1, c2, c3), N.lor v iin2_no_func)
  end.

Lemma enable_disable_eq cfg s enable seq hdrs :
  enable_disable cfg s enable seq hdrs =
  if negb (o_unsol cfg) then (s, empty_solicited seq iin2_no_func)
  else let '(e, v) := fold_left (ed_step enable) hdrs (s_enabled s, 0) in (upd_enabled s e, empty_solicited seq v).
Proof. reflexivity. Qed.

Lemma ed_fold_rejects enable hdrs : forall acc,
  (N.land (snd acc) 7 <> 0 \/ existsb (fun h => negb (unsol_class_hdr h)) hdrs = true) ->
  N.land (snd (fold_left (ed_step enable) hdrs acc)) 7 <> 0.
Proof.
  induction hdrs as [|h rest IH]; intros acc Hc; cbn [fold_left].
  - destruct Hc as [Hc|Hc]; [exact Hc|discriminate].
  - apply IH. cbn [existsb] in Hc. destruct acc as [[[c1 c2] c3] v]. cbn [snd] in Hc.
    destruct Hc as [Hc|Hc].
    + left. unfold ed_step.
      destruct h as [bits|t0|t0|c| |a b|x| | |g v0 p items|]; cbn [snd]; try (apply land7_lor; exact Hc).
      destruct c as [|[[[]|[]|]|[[]|[]|]|]]; cbn [snd]; try exact Hc; apply land7_lor; exact Hc.
    + apply orb_true_iff in Hc. destruct Hc as [Hc|Hc]; [left|right; exact Hc].
      unfold ed_step.
      destruct h as [bits|t0|t0|c| |a b|x| | |g v0 p items|]; cbn [snd]; try (apply land7_lor_r; cbn; discriminate).
      destruct c as [|[[[]|[]|]|[[]|[]|]|]]; cbn [snd]; try (apply land7_lor_r; cbn; discriminate);
        cbn in Hc; discriminate.
Qed.

Lemma enable_disable_rejects cfg s enable seq hdrs :
  (o_unsol cfg = false \/ existsb (fun h => negb (unsol_class_hdr h)) hdrs = true) ->
  N.land (r_iin2 (snd (enable_disable cfg s enable seq hdrs))) 7 <> 0.
Proof.
  intros Hc. rewrite enable_disable_eq. destruct (o_unsol cfg) eqn:Eu; cbn [negb].
  - destruct Hc as [Hc|Hc]; [discriminate|].
    pose proof (ed_fold_rejects enable hdrs (s_enabled s, 0) (or_intror Hc)) as Hf.
    destruct (fold_left (ed_step enable) hdrs (s_enabled s, 0)) as [e v]. cbn [snd] in *. exact Hf.
  - cbn. discriminate.
Qed.

Lemma all_controls_false hdrs : existsb (fun h => negb (is_ctl_hdr h)) hdrs = true -> all_controls hdrs = false.
Proof.
  induction hdrs as [|h rest IH]; cbn [existsb all_controls forallb]; [discriminate|].
  intros H. apply orb_true_iff in H. destruct H as [H|H].
  - destruct h; cbn in H; try discriminate; reflexivity.
  - unfold all_controls in IH. rewrite (IH H). apply andb_false_r.
Qed.

Lemma handle_controls_rejects cfg s fn seq fid bytes hdrs :
  existsb (fun h => negb (is_ctl_hdr h)) hdrs = true -> (fn =? fn_direct_operate_nr) = false ->
  handle_controls cfg s fn seq fid bytes hdrs = (s, Some (empty_solicited seq iin2_param), []).
Proof.
  intros H Hfn. unfold handle_controls. rewrite (all_controls_false _ H), Hfn. reflexivity.
Qed.

(* handle_non_read per function code *)
Lemma hnr_body_write cfg s seq fid bytes hdrs :
  hnr_body cfg s 2 seq fid bytes hdrs =
  let '(s1, v, o) := handle_write_headers cfg s hdrs in (s1, Some (empty_solicited seq v), o).
Proof. reflexivity. Qed.
Lemma hnr_body_select cfg s seq fid bytes hdrs :
  hnr_body cfg s 3 seq fid bytes hdrs = handle_controls cfg s 3 seq fid bytes hdrs.
Proof. reflexivity. Qed.
Lemma hnr_body_operate cfg s seq fid bytes hdrs :
  hnr_body cfg s 4 seq fid bytes hdrs = handle_controls cfg s 4 seq fid bytes hdrs.
Proof. reflexivity. Qed.
Lemma hnr_body_direct_operate cfg s seq fid bytes hdrs :
  hnr_body cfg s 5 seq fid bytes hdrs = handle_controls cfg s 5 seq fid bytes hdrs.
Proof. reflexivity. Qed.
Lemma hnr_body_direct_operate_nr cfg s seq fid bytes hdrs :
  hnr_body cfg s 6 seq fid bytes hdrs = handle_controls cfg s 6 seq fid bytes hdrs.
Proof. reflexivity. Qed.
Lemma hnr_body_freeze cfg s seq fid bytes hdrs :
  hnr_body cfg s 7 seq fid bytes hdrs =
  let '(v, o) := handle_freeze cfg 0 hdrs in (s, Some (empty_solicited seq v), o).
Proof. reflexivity. Qed.
Lemma hnr_body_freeze_nr cfg s seq fid bytes hdrs :
  hnr_body cfg s 8 seq fid bytes hdrs = let '(v, o) := handle_freeze cfg 0 hdrs in (s, None, o).
Proof. reflexivity. Qed.
Lemma hnr_body_freeze_clear cfg s seq fid bytes hdrs :
  hnr_body cfg s 9 seq fid bytes hdrs =
  let '(v, o) := handle_freeze cfg 1 hdrs in (s, Some (empty_solicited seq v), o).
Proof. reflexivity. Qed.
Lemma hnr_body_freeze_clear_nr cfg s seq fid bytes hdrs :
  hnr_body cfg s 10 seq fid bytes hdrs = let '(v, o) := handle_freeze cfg 1 hdrs in (s, None, o).
Proof. reflexivity. Qed.
Lemma hnr_body_freeze_at_time cfg s seq fid bytes hdrs :
  hnr_body cfg s 11 seq fid bytes hdrs =
  let '(v, o) := handle_freeze_at_time cfg None hdrs in (s, Some (empty_solicited seq v), o).
Proof. reflexivity. Qed.
Lemma hnr_body_freeze_at_time_nr cfg s seq fid bytes hdrs :
  hnr_body cfg s 12 seq fid bytes hdrs = let '(v, o) := handle_freeze_at_time cfg None hdrs in (s, None, o).
Proof. reflexivity. Qed.
Lemma hnr_body_enable cfg s seq fid bytes hdrs :
  hnr_body cfg s 20 seq fid bytes hdrs = let '(s1, r) := enable_disable cfg s true seq hdrs in (s1, Some r, []).
Proof. reflexivity. Qed.
Lemma hnr_body_disable cfg s seq fid bytes hdrs :
  hnr_body cfg s 21 seq fid bytes hdrs = let '(s1, r) := enable_disable cfg s false seq hdrs in (s1, Some r, []).
Proof. reflexivity. Qed.

Lemma hnr_body_default cfg s fn seq fid bytes hdrs :
  fn_executed fn = false -> hnr_body cfg s fn seq fid bytes hdrs = (s, Some (empty_solicited seq iin2_no_func), []).
Proof.
  unfold fn_executed. cbn [existsb]. intros H.
  repeat (apply orb_false_iff in H; let A := fresh "A" in destruct H as [A H]).
  unfold hnr_body, fn_write, fn_delay_measure, fn_record_time, fn_cold_restart, fn_warm_restart, fn_select,
    fn_operate, fn_direct_operate, fn_direct_operate_nr, fn_immediate_freeze, fn_immediate_freeze_nr,
    fn_freeze_clear, fn_freeze_clear_nr, fn_freeze_at_time, fn_freeze_at_time_nr, fn_enable_unsol, fn_disable_unsol.
  rewrite A, A0, A1, A2, A3, A4, A5, A6, A7, A8, A9, A10, A11, A12, A13, A14, A15. reflexivity.
Qed.

(* ---------- more detail for the correlation of retransmissions ---------------------------------- *)

Lemma to_treq_request cfg from d ctl fn obj :
  to_treq cfg from d = TqRequest ctl fn obj -> d = DOk ctl fn RvOk obj.
Proof.
  unfold to_treq. destruct (negb (o_any_master cfg) && negb (from =? o_master cfg)); [discriminate|].
  destruct d as [|sq code|ctl0 fn0 [|] obj0]; try discriminate. intros H; inversion H; reflexivity.
Qed.

(* what each classification of a unicast fragment says about it *)
Lemma classify_unicast_cases s bytes ctl fn obj :
  match classify s None bytes ctl fn obj with
  | FtMalformed iin2 => (fn =? fn_confirm) = false /\ obj = ObjErr iin2
  | FtNewRead hdrs rh => (fn =? fn_confirm) = false /\ (fn =? fn_read) = true /\ obj = ObjOk hdrs rh
  | FtRepeatRead last hdrs rh => (fn =? fn_confirm) = false /\ (fn =? fn_read) = true /\ obj = ObjOk hdrs rh
  | FtNewNonRead hdrs => (fn =? fn_confirm) = false /\ (fn =? fn_read) = false /\ exists rh, obj = ObjOk hdrs rh
  | FtRepeatNonRead last =>
      (fn =? fn_confirm) = false /\ (fn =? fn_read) = false /\ (exists hdrs rh, obj = ObjOk hdrs rh) /\
      exists l, s_last s = Some l /\ lr_seq l = ctl_seq ctl /\ lr_bytes l = bytes /\ lr_response l = last
  | FtBroadcast _ => False
  | FtSolConfirm _ => (fn =? fn_confirm) = true
  | FtUnsolConfirm _ => (fn =? fn_confirm) = true
  end.
Proof.
  unfold classify. destruct (fn =? fn_confirm) eqn:E0; [destruct (ctl_uns ctl); reflexivity|].
  destruct obj as [e|hdrs rh]; [auto|].
  destruct (s_last s) as [l|].
  - destruct ((lr_seq l =? ctl_seq ctl) && bytes_eqb (lr_bytes l) bytes) eqn:Erep; destruct (fn =? fn_read) eqn:E1; eauto.
    apply andb_true_iff in Erep. destruct Erep as [R1 R2]. apply N.eqb_eq in R1. apply bytes_eqb_eq in R2.
    split; [reflexivity|]. split; [reflexivity|]. split; [eauto|]. exists l. auto.
  - destruct (fn =? fn_read) eqn:E1; eauto.
Qed.

Lemma hfi_finish_state cfg from seq bytes fn s1 resp se rep o1 s' o :
  hfi_finish cfg from seq bytes fn s1 resp se rep o1 = (s', o) ->
  exists ropt se',
    s_last s' = mk_last seq bytes ropt se' /\
    (resp = None -> ropt = None) /\
    (forall r, resp = Some r -> exists r', ropt = Some r' /\ (if rep then r' = r else sent_of r r')) /\
    (s_control s' = s_control s1 \/
     exists x dl, s_control s' = CSolWait x dl RStep2 /\ (se = Some x \/ se_fin x = true)).
Proof.
  destruct resp as [r|].
  2:{ rewrite hfi_finish_none. intros H; inversion H; subst. exists None, se. cbn.
      split; [reflexivity|]. split; [reflexivity|]. split; [discriminate|]. left. reflexivity. }
  unfold hfi_finish. destruct rep.
  - set (se' := match se with None => if ctl_con (r_ctl r) then Some {| se_ecsn := ctl_seq (r_ctl r); se_fin := true |} else None | x => x end).
    assert (Hse : forall x, se' = Some x -> se = Some x \/ se_fin x = true).
    { subst se'. intros x Hx. destruct se as [y|]; [left; exact Hx|]. destruct (ctl_con (r_ctl r)); inversion Hx; subst. right; reflexivity. }
    destruct se' as [x|] eqn:Ese; intros H; inversion H; subst; clear H; exists (Some r).
    + exists (Some x). cbn. split; [reflexivity|]. split; [discriminate|].
      split; [intros r0 Hr; inversion Hr; subst; eauto|]. right. exists x. eexists. split; [reflexivity|auto].
    + exists None. cbn. split; [reflexivity|]. split; [discriminate|].
      split; [intros r0 Hr; inversion Hr; subst; eauto|]. left. reflexivity.
  - destruct (write_solicited s1 from r) as [[s2 r'] o2] eqn:E. apply write_solicited_spec in E.
    destruct E as (E1 & _ & E4 & E5 & E6 & E7).
    assert (Hs : sent_of r r') by exact (conj E4 (conj E5 (conj E6 E7))).
    set (se' := match se with None => if ctl_con (r_ctl r') then Some {| se_ecsn := ctl_seq (r_ctl r'); se_fin := true |} else None | x => x end).
    assert (Hse : forall x, se' = Some x -> se = Some x \/ se_fin x = true).
    { subst se'. intros x Hx. destruct se as [y|]; [left; exact Hx|]. destruct (ctl_con (r_ctl r')); inversion Hx; subst. right; reflexivity. }
    destruct se' as [x|] eqn:Ese; intros H; inversion H; subst; clear H; exists (Some r').
    + exists (Some x). cbn. split; [reflexivity|]. split; [discriminate|].
      split; [intros r0 Hr; inversion Hr; subst; eauto|]. right. exists x. eexists. split; [reflexivity|auto].
    + exists None. cbn. split; [reflexivity|]. split; [discriminate|].
      split; [intros r0 Hr; inversion Hr; subst; eauto|]. left. destruct E1 as (_ & E1 & _). exact E1.
Qed.
