(* Outstation/EventBuffer.v — executable model of
     dnp3/src/outstation/database/details/event/buffer.rs   (EventBuffer, Counters, EventRecord)
     dnp3/src/outstation/database/details/event/list.rs     (VecList: abstracted to a Coq list in
                                                             insertion order; add/remove_first/
                                                             remove_all/iter keep that order)
     dnp3/src/outstation/database/details/event/writer.rs   (EventWriter: header state machine)
     dnp3/src/outstation/database/details/event/write_fn.rs (write_fixed_size, write_cto, octets)
     dnp3/src/outstation/database/details/event/traits.rs   (EventVariation)
   as the code is AFTER fix 485ed42 (F3: `written` is decremented when an overflow discards a
   record in state Written).

   The buffer is the insertion-ordered list of records with the `total` / `written` counters KEPT
   AS THE CODE KEEPS THEM (incremented / decremented / zeroed at the same places), so that a stale
   counter is representable; EventBufferProofs.v shows that they are exact in every reachable state.
   `usize` counters are N; `decrement` is N.pred (no underflow in reachable states: `no_underflow`).
   Not modelled: `next: u64` wrapping after 2^64 inserts.

   Output of `ebuf_write` is structured (list of headers, each with the RECORDS it carries);
   `ehdrs_bytes` renders it. The code patches the 2-byte count in place after every object; rendering the final count is
   the same thing.  Object bodies: DbTypes.event_obj. *)
From Dnp3V Require Import Base.Bytes Outstation.DbTypes.
Open Scope N_scope.

Inductive estate := Unselected | Selected | Written.

Definition estate_eqb (a b : estate) : bool :=
  match a, b with
  | Unselected, Unselected | Selected, Selected | Written, Written => true
  | _, _ => false
  end.

Record erec := mkRec {
  r_id : N;
  r_index : N;
  r_class : eclass;
  r_type : ptype;
  r_meas : meas;
  r_dvar : evar;            (* Variation.default *)
  r_svar : evar;            (* Variation.selected *)
  r_state : estate
}.

Definition set_state (r : erec) (s : estate) : erec :=
  mkRec (r_id r) (r_index r) (r_class r) (r_type r) (r_meas r) (r_dvar r) (r_svar r) s.
Definition set_svar (r : erec) (v : evar) : erec :=
  mkRec (r_id r) (r_index r) (r_class r) (r_type r) (r_meas r) (r_dvar r) v (r_state r).

(* ClassCounter + TypeCounter *)
Record counters := mkCnt {
  c_c1 : N; c_c2 : N; c_c3 : N;
  c_bi : N; c_dbi : N; c_bos : N; c_ctr : N; c_fctr : N; c_ai : N; c_aos : N; c_oct : N
}.

Definition cnt_zero : counters := mkCnt 0 0 0 0 0 0 0 0 0 0 0.

Definition cnt_class (c : counters) (k : eclass) : N :=
  match k with Class1 => c_c1 c | Class2 => c_c2 c | Class3 => c_c3 c end.
Definition cnt_type (c : counters) (t : ptype) : N :=
  match t with
  | TBinary => c_bi c | TDoubleBit => c_dbi c | TBos => c_bos c | TCounter => c_ctr c
  | TFrozen => c_fctr c | TAnalog => c_ai c | TAos => c_aos c | TOctet => c_oct c
  end.

Definition cnt_map_class (f : N -> N) (k : eclass) (c : counters) : counters :=
  match k with
  | Class1 => mkCnt (f (c_c1 c)) (c_c2 c) (c_c3 c) (c_bi c) (c_dbi c) (c_bos c) (c_ctr c) (c_fctr c) (c_ai c) (c_aos c) (c_oct c)
  | Class2 => mkCnt (c_c1 c) (f (c_c2 c)) (c_c3 c) (c_bi c) (c_dbi c) (c_bos c) (c_ctr c) (c_fctr c) (c_ai c) (c_aos c) (c_oct c)
  | Class3 => mkCnt (c_c1 c) (c_c2 c) (f (c_c3 c)) (c_bi c) (c_dbi c) (c_bos c) (c_ctr c) (c_fctr c) (c_ai c) (c_aos c) (c_oct c)
  end.
Definition cnt_map_type (f : N -> N) (t : ptype) (c : counters) : counters :=
  match t with
  | TBinary => mkCnt (c_c1 c) (c_c2 c) (c_c3 c) (f (c_bi c)) (c_dbi c) (c_bos c) (c_ctr c) (c_fctr c) (c_ai c) (c_aos c) (c_oct c)
  | TDoubleBit => mkCnt (c_c1 c) (c_c2 c) (c_c3 c) (c_bi c) (f (c_dbi c)) (c_bos c) (c_ctr c) (c_fctr c) (c_ai c) (c_aos c) (c_oct c)
  | TBos => mkCnt (c_c1 c) (c_c2 c) (c_c3 c) (c_bi c) (c_dbi c) (f (c_bos c)) (c_ctr c) (c_fctr c) (c_ai c) (c_aos c) (c_oct c)
  | TCounter => mkCnt (c_c1 c) (c_c2 c) (c_c3 c) (c_bi c) (c_dbi c) (c_bos c) (f (c_ctr c)) (c_fctr c) (c_ai c) (c_aos c) (c_oct c)
  | TFrozen => mkCnt (c_c1 c) (c_c2 c) (c_c3 c) (c_bi c) (c_dbi c) (c_bos c) (c_ctr c) (f (c_fctr c)) (c_ai c) (c_aos c) (c_oct c)
  | TAnalog => mkCnt (c_c1 c) (c_c2 c) (c_c3 c) (c_bi c) (c_dbi c) (c_bos c) (c_ctr c) (c_fctr c) (f (c_ai c)) (c_aos c) (c_oct c)
  | TAos => mkCnt (c_c1 c) (c_c2 c) (c_c3 c) (c_bi c) (c_dbi c) (c_bos c) (c_ctr c) (c_fctr c) (c_ai c) (f (c_aos c)) (c_oct c)
  | TOctet => mkCnt (c_c1 c) (c_c2 c) (c_c3 c) (c_bi c) (c_dbi c) (c_bos c) (c_ctr c) (c_fctr c) (c_ai c) (c_aos c) (f (c_oct c))
  end.

(* Counters::increment / decrement (record) *)
Definition cnt_inc (k : eclass) (t : ptype) (c : counters) : counters :=
  cnt_map_class N.succ k (cnt_map_type N.succ t c).
Definition cnt_dec (k : eclass) (t : ptype) (c : counters) : counters :=
  cnt_map_class N.pred k (cnt_map_type N.pred t c).

(* EventBufferConfig *)
Record ebcfg := mkEbCfg {
  max_bi : N; max_dbi : N; max_bos : N; max_ctr : N; max_fctr : N; max_ai : N; max_aos : N; max_oct : N
}.
Definition cfg_max (c : ebcfg) (t : ptype) : N :=
  match t with
  | TBinary => max_bi c | TDoubleBit => max_dbi c | TBos => max_bos c | TCounter => max_ctr c
  | TFrozen => max_fctr c | TAnalog => max_ai c | TAos => max_aos c | TOctet => max_oct c
  end.

Record ebuf := mkEbuf {
  eb_cfg : ebcfg;
  eb_events : list erec;
  eb_total : counters;
  eb_written : counters;
  eb_overflown : bool;
  eb_next : N
}.

Definition ebuf_new (cfg : ebcfg) : ebuf := mkEbuf cfg [] cnt_zero cnt_zero false 0.

(* ---------------------------------------------------------------------------------------------- *)
(* insert *)

Inductive insert_result :=
| InsOk (id : N)
| InsTypeMaxIsZero
| InsOverflow (created discarded : N).

(* VecList::remove_first(is_type) *)
Fixpoint remove_first_type (t : ptype) (l : list erec) : option (erec * list erec) :=
  match l with
  | [] => None
  | r :: tl =>
    if ptype_eqb (r_type r) t then Some (r, tl)
    else match remove_first_type t tl with
         | Some (x, tl') => Some (x, r :: tl')
         | None => None
         end
  end.

Definition ebuf_insert (b : ebuf) (index : N) (k : eclass) (t : ptype) (m : meas) (dv : evar)
  : ebuf * insert_result :=
  let max := cfg_max (eb_cfg b) t in
  if max =? 0 then (b, InsTypeMaxIsZero)
  else
    let id := eb_next b in
    let rec := mkRec id index k t m dv dv Unselected in
    let full := cnt_type (eb_total b) t =? max in
    match (if full then remove_first_type t (eb_events b) else None) with
    | Some (old, rest) =>
      let total := cnt_dec (r_class old) t (eb_total b) in
      let written :=
        match r_state old with
        | Written => cnt_dec (r_class old) t (eb_written b)      (* fix 485ed42 *)
        | _ => eb_written b
        end in
      (mkEbuf (eb_cfg b) (rest ++ [rec]) (cnt_inc k t total) written true (id + 1),
       InsOverflow id (r_id old))
    | None =>
      (mkEbuf (eb_cfg b) (eb_events b ++ [rec]) (cnt_inc k t (eb_total b)) (eb_written b)
              (eb_overflown b) (id + 1),
       InsOk id)
    end.

(* ---------------------------------------------------------------------------------------------- *)
(* select: the first `limit` Unselected records satisfying the selector become Selected;
   the selector may also set the selected variation *)

(* None = usize::MAX *)
Definition limit_take (lim : option N) : bool := match lim with Some 0 => false | _ => true end.
Definition limit_pred (lim : option N) : option N :=
  match lim with Some n => Some (N.pred n) | None => None end.

Fixpoint select_loop (sel : erec -> option erec) (lim : option N) (l : list erec) : list erec * N :=
  match l with
  | [] => ([], 0)
  | r :: tl =>
    if limit_take lim then
      match (if estate_eqb (r_state r) Unselected then sel r else None) with
      | Some r' =>
        let '(tl', n) := select_loop sel (limit_pred lim) tl in
        (set_state r' Selected :: tl', n + 1)
      | None =>
        let '(tl', n) := select_loop sel lim tl in (r :: tl', n)
      end
    else (l, 0)
  end.

Definition with_events (b : ebuf) (evs : list erec) : ebuf :=
  mkEbuf (eb_cfg b) evs (eb_total b) (eb_written b) (eb_overflown b) (eb_next b).

(* EventClasses as three booleans *)
Definition classes_match (c1 c2 c3 : bool) (k : eclass) : bool :=
  match k with Class1 => c1 | Class2 => c2 | Class3 => c3 end.

Definition sel_class (c1 c2 c3 : bool) (r : erec) : option erec :=
  if classes_match c1 c2 c3 (r_class r) then Some (set_svar r (r_dvar r)) else None.
Definition sel_type (t : ptype) (v : option evar) (r : erec) : option erec :=
  if ptype_eqb (r_type r) t
  then Some (set_svar r (match v with Some x => x | None => r_dvar r end))
  else None.

Definition ebuf_select_by_class (b : ebuf) (c1 c2 c3 : bool) (lim : option N) : ebuf * N :=
  let '(evs, n) := select_loop (sel_class c1 c2 c3) lim (eb_events b) in (with_events b evs, n).
Definition ebuf_select_by_type (b : ebuf) (t : ptype) (v : option evar) (lim : option N) : ebuf * N :=
  let '(evs, n) := select_loop (sel_type t v) lim (eb_events b) in (with_events b evs, n).

(* ---------------------------------------------------------------------------------------------- *)
(* the event writer *)

(* one written object header; objects newest first while writing *)
Record ehdr := mkEhdr {
  eh_cto : option (bool * N);      (* g51v1 (synchronized) / g51v2 preceding the header *)
  eh_group : N;
  eh_var : N;
  eh_objs : list (erec * N)        (* (record, time relative to the CTO); newest first *)
}.

(* HeaderType + variation: what makes two events share a header;
   rec_wvar: the variation actually used (an octet string event always writes g111) *)
Definition hdr_key : Type := ptype * evar * N.
Definition rec_wvar (r : erec) : evar := match r_type r with TOctet => G111 | _ => r_svar r end.
Definition rec_key (r : erec) : hdr_key :=
  (r_type r, rec_wvar r, match r_type r with TOctet => N.of_nat (length (m_oct (r_meas r))) | _ => 0 end).
Definition hdr_key_eqb (a b : hdr_key) : bool :=
  let '(t1, v1, n1) := a in
  let '(t2, v2, n2) := b in
  ptype_eqb t1 t2 && evar_eqb v1 v2 && (n1 =? n2).

Inductive ewstate :=
| EwStart
| EwProgress (count : N) (cto : bool * N) (key : hdr_key)
| EwFull.

Record ewriter := mkEw {
  ew_rem : N;                  (* bytes left in the cursor *)
  ew_state : ewstate;
  ew_out : list ehdr           (* newest header first, objects newest first *)
}.

Definition ew_new (budget : N) : ewriter := mkEw budget EwStart [].


Definition prefixed_len (body : list N) : N := 2 + N.of_nat (length body).

(* EventWriter::start_new_header: CTO header (when needed) + header + first object, all or nothing *)
Definition ew_start (w : ewriter) (r : erec) : option ewriter :=
  let time := time_or_default (m_time (r_meas r)) in
  let v := rec_wvar r in
  let body := event_obj v (r_meas r) 0 in
  let cto_len := if evar_uses_cto v then 10 else 0 in
  let need := cto_len + 5 + prefixed_len body in
  if need <=? ew_rem w then
    let '(g, var) := evar_gv v (r_meas r) in
    let h := mkEhdr (if evar_uses_cto v then Some time else None) g var [(r, 0)] in
    Some (mkEw (ew_rem w - need) (EwProgress 1 time (rec_key r)) (h :: ew_out w))
  else None.

(* write_cto: None = Continue::NewHeader, Some rel = offset to encode *)
Definition cto_offset (cto : bool * N) (r : erec) : option N :=
  let time := time_or_default (m_time (r_meas r)) in
  if negb (Bool.eqb (fst time) (fst cto)) then None
  else if snd time <? snd cto then None
  else let d := snd time - snd cto in
       if 65535 <? d then None else Some d.

Definition push_obj (out : list ehdr) (o : erec * N) : list ehdr :=
  match out with
  | h :: tl => mkEhdr (eh_cto h) (eh_group h) (eh_var h) (o :: eh_objs h) :: tl
  | [] => []
  end.

(* EventWriter::try_write, without the trap to Full *)
Definition ew_try (w : ewriter) (r : erec) : option ewriter :=
  match ew_state w with
  | EwFull => None
  | EwStart => ew_start w r
  | EwProgress count cto key =>
    if negb (hdr_key_eqb key (rec_key r)) then ew_start w r
    else if count =? 65535 then ew_start w r
    else
      let v := rec_wvar r in
      let rel := if evar_uses_cto v then cto_offset cto r else Some 0 in
      match rel with
      | None => ew_start w r
      | Some d =>
        let body := event_obj v (r_meas r) d in
        if prefixed_len body <=? ew_rem w
        then Some (mkEw (ew_rem w - prefixed_len body) (EwProgress (count + 1) cto key)
                        (push_obj (ew_out w) (r, d)))
        else None
      end
  end.

(* EventBuffer::write_events: selected records in list order until the first that does not fit *)
Fixpoint write_loop (l : list erec) (w : ewriter) (cnt : counters)
  : list erec * ewriter * counters * N * bool :=
  match l with
  | [] => ([], w, cnt, 0, true)
  | r :: tl =>
    if estate_eqb (r_state r) Selected then
      match ew_try w r with
      | Some w' =>
        let '(tl', w'', cnt', n, c) := write_loop tl w' (cnt_inc (r_class r) (r_type r) cnt) in
        (set_state r Written :: tl', w'', cnt', n + 1, c)
      | None => (l, w, cnt, 0, false)
      end
    else
      let '(tl', w'', cnt', n, c) := write_loop tl w cnt in (r :: tl', w'', cnt', n, c)
  end.

(* index prefix + body of one event object *)
Definition obj_bytes (o : erec * N) : list N :=
  le_bytes 2 (r_index (fst o)) ++ event_obj (rec_wvar (fst o)) (r_meas (fst o)) (snd o).

Definition ehdr_bytes (h : ehdr) : list N :=
  (match eh_cto h with
   | Some (sync, t) => [51; if sync then 1 else 2; 7; 1] ++ le_bytes 6 t
   | None => []
   end)
  ++ [eh_group h; eh_var h; 40] ++ le_bytes 2 (N.of_nat (length (eh_objs h)))
  ++ concat (map obj_bytes (rev (eh_objs h))).

Definition ehdrs_bytes (out : list ehdr) : list N := concat (map ehdr_bytes (rev out)).

(* the (record, relative time) objects in the order written *)
Definition ehdrs_objs (out : list ehdr) : list (erec * N) :=
  concat (map (fun h => rev (eh_objs h)) (rev out)).

Record write_result := mkWr {
  wr_hdrs : list ehdr;       (* newest first *)
  wr_count : N;
  wr_complete : bool;        (* Ok(count) vs Err(count) *)
  wr_rem : N                 (* space left for static data *)
}.

Definition ebuf_write_hdrs (b : ebuf) (budget : N) : ebuf * write_result :=
  let '(evs, w, cnt, n, c) := write_loop (eb_events b) (ew_new budget) (eb_written b) in
  (mkEbuf (eb_cfg b) evs (eb_total b) cnt (eb_overflown b) (eb_next b),
   mkWr (ew_out w) n c (ew_rem w)).

(* bytes + count + complete + new state *)
Definition ebuf_write (b : ebuf) (budget : N) : ebuf * (list N * N * bool) :=
  let '(b', r) := ebuf_write_hdrs b budget in
  (b', (ehdrs_bytes (wr_hdrs r), wr_count r, wr_complete r)).

(* ---------------------------------------------------------------------------------------------- *)
(* clear_written, reset, queries *)

Definition is_written (r : erec) : bool := estate_eqb (r_state r) Written.

(* VecList::remove_all with the closure of clear_written: total.decrement for every removed record *)
Fixpoint clear_loop (l : list erec) (total : counters) : list erec * counters * list N :=
  match l with
  | [] => ([], total, [])
  | r :: tl =>
    if is_written r then
      let '(tl', t', ids) := clear_loop tl (cnt_dec (r_class r) (r_type r) total) in
      (tl', t', r_id r :: ids)
    else
      let '(tl', t', ids) := clear_loop tl total in (r :: tl', t', ids)
  end.

Definition type_full (cfg : ebcfg) (total : counters) (t : ptype) : bool :=
  if cfg_max cfg t =? 0 then false else cfg_max cfg t <=? cnt_type total t.
Definition any_full (cfg : ebcfg) (total : counters) : bool :=
  existsb (type_full cfg total) all_ptypes.

(* returns the ids passed to OutstationApplication::event_cleared, in order *)
Definition ebuf_clear_written (b : ebuf) : ebuf * list N :=
  let '(evs, total, ids) := clear_loop (eb_events b) (eb_total b) in
  (mkEbuf (eb_cfg b) evs total cnt_zero
          (if any_full (eb_cfg b) total then eb_overflown b else false) (eb_next b),
   ids).

Definition ebuf_reset (b : ebuf) : ebuf :=
  mkEbuf (eb_cfg b) (map (fun r => set_state r Unselected) (eb_events b)) (eb_total b) cnt_zero
         (eb_overflown b) (eb_next b).

(* total.classes.subtract(written.classes) > 0 *)
Definition ebuf_unwritten_classes (b : ebuf) : bool * bool * bool :=
  (0 <? c_c1 (eb_total b) - c_c1 (eb_written b),
   0 <? c_c2 (eb_total b) - c_c2 (eb_written b),
   0 <? c_c3 (eb_total b) - c_c3 (eb_written b)).

(* the `usize` subtraction of Count::subtract does not underflow *)
Definition ebuf_subtract_ok (b : ebuf) : bool :=
  (c_c1 (eb_written b) <=? c_c1 (eb_total b)) && (c_c2 (eb_written b) <=? c_c2 (eb_total b))
  && (c_c3 (eb_written b) <=? c_c3 (eb_total b)).

Definition ebuf_is_overflown (b : ebuf) : bool := eb_overflown b.

(* buffer_state(): the total counters *)
Definition ebuf_state (b : ebuf) : counters := eb_total b.
