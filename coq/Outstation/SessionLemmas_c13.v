(* Outstation/SessionLemmas_c13.v — helper lemmas about Outstation/Session.v for property C13
   (internal indication bits): the bits of an IIN octet, what every function of the session does to
   the three fields behind the session-owned bits (s_restart_iin, s_last_bcast, s_bcast_rep), and the
   resulting description of one step (ostep_sr). *)
From Dnp3V Require Import Outstation.Session Outstation.SessionLemmas_c12 Outstation.SessionLemmas_c04.
Import ListNotations.
Open Scope N_scope.

(* ---------- the bits of an octet ---------------------------------------------------------------- *)

(* bit n of the octet whose bits are listed least significant first *)
Definition bit_of (l : list bool) (n : N) : bool := nth (N.to_nat n) l false.

Lemma testbit_small K n : K < 256 -> 8 <= n -> N.testbit K n = false.
Proof.
  intros HK Hn. destruct (N.eq_dec K 0) as [Hz|Hz]; [subst K; apply N.bits_0|].
  apply N.bits_above_log2. apply N.lt_le_trans with 8; [|exact Hn].
  apply N.log2_lt_pow2; [lia|exact HK].
Qed.

Lemma byte_bits b0 b1 b2 b3 b4 b5 b6 b7 n :
  N.testbit (b2n b0 1 + b2n b1 2 + b2n b2 4 + b2n b3 8 + b2n b4 16 + b2n b5 32 + b2n b6 64 + b2n b7 128) n
  = bit_of [b0; b1; b2; b3; b4; b5; b6; b7] n.
Proof.
  destruct (N.lt_ge_cases n 8) as [Hn|Hn].
  - assert (Hc : n = 0 \/ n = 1 \/ n = 2 \/ n = 3 \/ n = 4 \/ n = 5 \/ n = 6 \/ n = 7) by lia.
    destruct b0, b1, b2, b3, b4, b5, b6, b7;
      repeat (destruct Hc as [Hc|Hc]; [subst n; reflexivity|]); subst n; reflexivity.
  - rewrite testbit_small; [|destruct b0, b1, b2, b3, b4, b5, b6, b7; reflexivity|exact Hn].
    unfold bit_of. rewrite nth_overflow; [reflexivity|]. cbn [length]. lia.
Qed.

(* the answer get_response_iin obtains from the database *)
Definition evinfo_answer (s : ostate) : bool * bool * bool * bool :=
  match s_answers s with AEvinfo a b c o :: _ => (a, b, c, o) | _ => (false, false, false, false) end.

Definition bcast_pending (s : ostate) : bool := match s_last_bcast s with Some _ => true | None => false end.

Lemma response_iin_exact s s' iin1 iin2 o :
  response_iin s = (s', (iin1, iin2), o) ->
  let '(c1, c2, c3, ovf) := evinfo_answer s in
  let a := s_app_iin s in
  (forall n, N.testbit iin1 n =
     bit_of [bcast_pending s; c1; c2; c3; N.testbit a 0; N.testbit a 1; N.testbit a 2; s_restart_iin s] n) /\
  (forall n, N.testbit iin2 n = bit_of [false; false; false; ovf; false; N.testbit a 3; false; false] n).
Proof.
  unfold response_iin, ask_evinfo, evinfo_answer, bcast_pending.
  destruct (s_answers s) as [|[v|c e b|n0 b|a b c ovf] rest]; prj;
    destruct (s_last_bcast s) as [[]|]; prj; intros H; inversion H; subst; clear H;
    (split; intros n; rewrite <- byte_bits; f_equal; cbn [b2n]; lia).
Qed.

(* ---------- the tracked fields ---------------------------------------------------------------- *)

Definition trk (s : ostate) : bool * option bcast_mode * option (bool * N) * N :=
  (s_restart_iin s, s_last_bcast s, s_bcast_rep s, s_app_iin s).

Definition keep (s s' : ostate) : Prop := trk s' = trk s.

Lemma keep_refl s : keep s s.
Proof. reflexivity. Qed.
Lemma keep_trans s1 s2 s3 : keep s1 s2 -> keep s2 s3 -> keep s1 s3.
Proof. unfold keep. congruence. Qed.
Lemma keep_fields s s' : keep s s' ->
  s_restart_iin s' = s_restart_iin s /\ s_last_bcast s' = s_last_bcast s /\ s_bcast_rep s' = s_bcast_rep s.
Proof. unfold keep, trk. intros H. inversion H. auto. Qed.
Lemma keep_app s s' : keep s s' -> s_app_iin s' = s_app_iin s.
Proof. unfold keep, trk. intros H. inversion H. auto. Qed.
Lemma sc_app s s' : same_core s s' -> s_app_iin s' = s_app_iin s.
Proof. unfold same_core. tauto. Qed.

Lemma ask_evinfo_keep s s1 r o : ask_evinfo s = (s1, r, o) -> keep s s1.
Proof. unfold ask_evinfo. destruct (s_answers s) as [|[] rest]; intros H; inversion H; subst; reflexivity. Qed.
Lemma ask_iin2_keep s c s1 r o : ask_iin2 s c = (s1, r, o) -> keep s s1.
Proof. unfold ask_iin2. destruct (s_answers s) as [|[] rest]; intros H; inversion H; subst; reflexivity. Qed.
Lemma ask_write_keep s s1 r o : ask_write s = (s1, r, o) -> keep s s1.
Proof. unfold ask_write. destruct (s_answers s) as [|[] rest]; intros H; inversion H; subst; reflexivity. Qed.
Lemma ask_unsol_keep s s1 r : ask_unsol s = (s1, r) -> keep s s1.
Proof. unfold ask_unsol. destruct (s_answers s) as [|[] rest]; intros H; inversion H; subst; reflexivity. Qed.

Definition after_report (b : option bcast_mode) : option bcast_mode :=
  match b with Some BMandatory => Some BMandatory | _ => None end.

Lemma response_iin_trk s s1 iin o : response_iin s = (s1, iin, o) ->
  s_restart_iin s1 = s_restart_iin s /\ s_bcast_rep s1 = s_bcast_rep s /\
  s_last_bcast s1 = after_report (s_last_bcast s).
Proof.
  unfold response_iin. destruct (ask_evinfo s) as [[s0 [[[c1 c2] c3] ovf]] o0] eqn:E.
  apply ask_evinfo_keep, keep_fields in E. destruct E as (E1 & E2 & E3).
  rewrite <- E1, <- E2, <- E3.
  destruct (s_last_bcast s0) as [[]|] eqn:Eb; intros H; inversion H; subst; prj; rewrite ?Eb; auto.
Qed.

Lemma format_read_response_keep s fir seq iin2 s1 r se o :
  format_read_response s fir seq iin2 = (s1, r, se, o) -> keep s s1.
Proof.
  unfold format_read_response. destruct (ask_write s) as [[s0 [[c e] b]] o0] eqn:E.
  apply ask_write_keep in E. intros H; inversion H; subst. exact E.
Qed.

Lemma format_first_read_response_keep s seq s1 r se o :
  format_first_read_response s seq = (s1, r, se, o) -> keep s s1.
Proof.
  unfold format_first_read_response. destruct (ask_iin2 s DbSelect) as [[s0 v] o0] eqn:E.
  apply ask_iin2_keep in E.
  destruct (format_read_response s0 true seq v) as [[[s2 r2] se2] o2] eqn:F.
  apply format_read_response_keep in F. intros H; inversion H; subst. eapply keep_trans; eauto.
Qed.

(* ---------- WRITE: the only place the restart bit is cleared ------------------------------------ *)

Definition clears_bit (x : N * bool) : bool := (fst x =? 7) && negb (snd x).
Definition hdr_clears_restart (h : whdr) : bool :=
  match h with WIin bits => existsb clears_bit bits | _ => false end.
Definition clears_restart (hdrs : list whdr) : bool := existsb hdr_clears_restart hdrs.

Lemma write_iin_bits_trk bits : forall s s1 v o, write_iin_bits s bits = (s1, v, o) ->
  s_last_bcast s1 = s_last_bcast s /\ s_bcast_rep s1 = s_bcast_rep s /\
  s_restart_iin s1 = (if existsb clears_bit bits then false else s_restart_iin s).
Proof.
  induction bits as [|[idx value] rest IH]; intros s s1 v o H; cbn [write_iin_bits] in H.
  - inversion H; subst. auto.
  - cbn [existsb]. unfold clears_bit at 1. cbn [fst snd].
    destruct (idx =? 7); [destruct value|]; cbn [negb andb orb].
    + destruct (write_iin_bits s rest) as [[s' v'] o'] eqn:E. apply IH in E. inversion H; subst. exact E.
    + destruct (write_iin_bits (upd_restart s false) rest) as [[s' v'] o'] eqn:E. apply IH in E.
      inversion H; subst. prj. destruct E as (E1 & E2 & E3). split; [exact E1|]. split; [exact E2|].
      rewrite E3. destruct (existsb clears_bit rest); reflexivity.
    + destruct (write_iin_bits s rest) as [[s' v'] o'] eqn:E. apply IH in E. inversion H; subst. exact E.
Qed.

Lemma write_header_trk cfg s h s1 v o : write_header cfg s h = (s1, v, o) ->
  s_last_bcast s1 = s_last_bcast s /\ s_bcast_rep s1 = s_bcast_rep s /\
  s_restart_iin s1 = (if hdr_clears_restart h then false else s_restart_iin s).
Proof.
  unfold write_header. destruct h as [bits|[t|]|[t|]|c| |a b|x| | |g v0 p items|]; cbn [hdr_clears_restart];
    try (intros H; inversion H; subst; auto; fail).
  - apply write_iin_bits_trk.
  - destruct (s_last_recorded s) as [t0|]; [destruct (max_timestamp - t <? Z.to_N (s_now s - t0))|];
      intros H; inversion H; subst; auto.
Qed.

Lemma handle_write_headers_trk cfg hdrs : forall s s1 v o, handle_write_headers cfg s hdrs = (s1, v, o) ->
  s_last_bcast s1 = s_last_bcast s /\ s_bcast_rep s1 = s_bcast_rep s /\
  s_restart_iin s1 = (if clears_restart hdrs then false else s_restart_iin s).
Proof.
  induction hdrs as [|h rest IH]; intros s s1 v o H; cbn [handle_write_headers] in H.
  - inversion H; subst. auto.
  - destruct (write_header cfg s h) as [[s' v1] o1] eqn:E1. apply write_header_trk in E1.
    destruct (handle_write_headers cfg s' rest) as [[s'' v2] o2] eqn:E2. apply IH in E2.
    inversion H; subst. destruct E1 as (A1 & A2 & A3), E2 as (B1 & B2 & B3).
    split; [congruence|]. split; [congruence|]. unfold clears_restart in *. cbn [existsb].
    rewrite B3, A3. destruct (hdr_clears_restart h), (existsb hdr_clears_restart rest); reflexivity.
Qed.

(* ---------- the other request handlers leave all three alone ------------------------------------- *)

Lemma handle_controls_keep cfg s fn seq fid bytes hdrs s1 r o :
  handle_controls cfg s fn seq fid bytes hdrs = (s1, r, o) -> keep s s1.
Proof.
  unfold handle_controls. destruct (negb (all_controls hdrs)); [intros H; inversion H; subst; reflexivity|].
  destruct (fn =? fn_direct_operate_nr).
  { destruct (noack_headers s cfg 0 false hdrs) as [cbs started]. intros H; inversion H; subst; reflexivity. }
  destruct (fn =? fn_select).
  { destruct (ctl_headers s cfg (o_sol_tx cfg - 4) CmSelect [] 0 false hdrs) as [[[[echo ok] cbs] st] started].
    intros H; inversion H; subst. destruct (ok && (st =? 0)); reflexivity. }
  destruct (fn =? fn_direct_operate).
  { destruct (ctl_headers s cfg (o_sol_tx cfg - 4) (CmOperate OpDo) [] 0 false hdrs) as [[[[echo ok] cbs] st] started].
    intros H; inversion H; subst; reflexivity. }
  match goal with |- context [match ?v with Some _ => _ | None => _ end = _] => destruct v as [status|] end.
  - destruct (ctl_headers s cfg (o_sol_tx cfg - 4) (CmStatus status) [] 0 false hdrs) as [[[[echo ok] cbs] st] started].
    intros H; inversion H; subst; reflexivity.
  - destruct (ctl_headers s cfg (o_sol_tx cfg - 4) (CmOperate OpSbo) [] 0 false hdrs) as [[[[echo ok] cbs] st] started].
    intros H; inversion H; subst; reflexivity.
Qed.

Lemma enable_disable_keep cfg s en seq hdrs s1 r : enable_disable cfg s en seq hdrs = (s1, r) -> keep s s1.
Proof.
  unfold enable_disable. destruct (negb (o_unsol cfg)); [intros H; inversion H; subst; reflexivity|].
  match goal with |- context [fold_left ?f hdrs ?a] => destruct (fold_left f hdrs a) as [e v] end.
  intros H; inversion H; subst; reflexivity.
Qed.

Lemma restart_response_keep seq s d s1 r : restart_response seq s d = (s1, r) -> keep s s1.
Proof. unfold restart_response. destruct d as [[ms v]|]; intros H; inversion H; subst; reflexivity. Qed.

Lemma hnr_body_trk cfg s fn seq fid bytes hdrs s1 r o :
  hnr_body cfg s fn seq fid bytes hdrs = (s1, r, o) ->
  s_last_bcast s1 = s_last_bcast s /\ s_bcast_rep s1 = s_bcast_rep s /\
  s_restart_iin s1 = (if (fn =? fn_write) && clears_restart hdrs then false else s_restart_iin s).
Proof.
  unfold hnr_body. destruct (fn =? fn_write); cbn [andb].
  { destruct (handle_write_headers cfg s hdrs) as [[s' v] o'] eqn:E. apply handle_write_headers_trk in E.
    intros H; inversion H; subst. exact E. }
  assert (K : keep s s1 -> s_last_bcast s1 = s_last_bcast s /\ s_bcast_rep s1 = s_bcast_rep s /\
                             s_restart_iin s1 = s_restart_iin s).
  { intros Hk. apply keep_fields in Hk. tauto. }
  repeat match goal with
         | |- (if ?c then _ else _) = _ -> _ => destruct c
         end; intros H; apply K; clear K.
  - inversion H; subst; reflexivity.
  - inversion H; subst; reflexivity.
  - destruct (restart_response seq s (o_cold cfg)) as [s' r'] eqn:E. apply restart_response_keep in E.
    inversion H; subst. exact E.
  - destruct (restart_response seq s (o_warm cfg)) as [s' r'] eqn:E. apply restart_response_keep in E.
    inversion H; subst. exact E.
  - eapply handle_controls_keep; eauto.
  - destruct (handle_freeze cfg 0 hdrs) as [v o']. inversion H; subst; reflexivity.
  - destruct (handle_freeze cfg 0 hdrs) as [v o']. inversion H; subst; reflexivity.
  - destruct (handle_freeze cfg 1 hdrs) as [v o']. inversion H; subst; reflexivity.
  - destruct (handle_freeze cfg 1 hdrs) as [v o']. inversion H; subst; reflexivity.
  - destruct (handle_freeze_at_time cfg None hdrs) as [v o']. inversion H; subst; reflexivity.
  - destruct (handle_freeze_at_time cfg None hdrs) as [v o']. inversion H; subst; reflexivity.
  - destruct (enable_disable cfg s true seq hdrs) as [s' r'] eqn:E. apply enable_disable_keep in E.
    inversion H; subst. exact E.
  - destruct (enable_disable cfg s false seq hdrs) as [s' r'] eqn:E. apply enable_disable_keep in E.
    inversion H; subst. exact E.
  - inversion H; subst; reflexivity.
Qed.

Lemma handle_non_read_trk cfg s fn seq fid bytes hdrs s1 r o :
  handle_non_read cfg s fn seq fid bytes hdrs = (s1, r, o) ->
  s_last_bcast s1 = s_last_bcast s /\ s_bcast_rep s1 = s_bcast_rep s /\
  s_restart_iin s1 = (if (fn =? fn_write) && clears_restart hdrs then false else s_restart_iin s).
Proof.
  rewrite SessionLemmas_c12.handle_non_read_eq.
  destruct (hnr_body cfg s fn seq fid bytes hdrs) as [[s' r'] o'] eqn:E.
  apply hnr_body_trk in E. intros H; inversion H; subst. exact E.
Qed.

(* ---------- the relation of a step ---------------------------------------------------------------- *)

(* restart bit: unchanged, or cleared and then Wr holds; the broadcast indication: unchanged, or one
   that needs no confirmation was consumed (by a report), or Wb holds; the application's bits: unchanged *)
Definition sr (Wr Wb : Prop) (s s' : ostate) : Prop :=
  (s_restart_iin s' = s_restart_iin s \/ (s_restart_iin s' = false /\ Wr)) /\
  (s_last_bcast s' = s_last_bcast s \/ (s_last_bcast s' = None /\ s_last_bcast s <> Some BMandatory) \/ Wb) /\
  s_app_iin s' = s_app_iin s.

Definition qs : ostate -> ostate -> Prop := sr False False.

Lemma sr_refl Wr Wb s : sr Wr Wb s s.
Proof. split; [|split]; auto. Qed.

Lemma sr_trans Wr Wb s1 s2 s3 : sr Wr Wb s1 s2 -> sr Wr Wb s2 s3 -> sr Wr Wb s1 s3.
Proof.
  intros (A1 & B1 & C1) (A2 & B2 & C2). split; [|split].
  - destruct A2 as [A2|[A2 W]]; [|right; auto]. rewrite A2. exact A1.
  - destruct B1 as [B1|[[B1 N1]|W]]; [| |right; right; exact W].
    + rewrite <- B1. exact B2.
    + destruct B2 as [B2|[[B2 N2]|W]]; [| |right; right; exact W]; right; left; split; congruence.
  - congruence.
Qed.

Lemma sr_weaken (Wr Wb Wr' Wb' : Prop) s s' : (Wr -> Wr') -> (Wb -> Wb') -> sr Wr Wb s s' -> sr Wr' Wb' s s'.
Proof.
  intros Hr Hb (A & B & C). split; [|split].
  - destruct A as [A|[A W]]; auto.
  - destruct B as [B|[B|W]]; auto.
  - exact C.
Qed.

Lemma keep_sr Wr Wb s s' : keep s s' -> sr Wr Wb s s'.
Proof.
  intros H. pose proof (keep_app _ _ H) as D. apply keep_fields in H. destruct H as (A & B & C).
  split; [left; exact A|]. split; [|exact D]. left. exact B.
Qed.

Lemma qs_sr Wr Wb s s' : qs s s' -> sr Wr Wb s s'.
Proof. apply sr_weaken; intros []. Qed.

Lemma sr_keep_l Wr Wb s s1 s' : keep s s1 -> sr Wr Wb s1 s' -> sr Wr Wb s s'.
Proof. intros H. apply sr_trans. apply keep_sr. exact H. Qed.

Lemma sr_keep_r Wr Wb s s1 s' : sr Wr Wb s s1 -> keep s1 s' -> sr Wr Wb s s'.
Proof. intros H1 H. eapply sr_trans; [exact H1|]. apply keep_sr. exact H. Qed.

(* ---------- writing a response -------------------------------------------------------------------- *)

Lemma bcast_reported_trk s c :
  s_restart_iin (bcast_reported s c) = s_restart_iin s /\ s_last_bcast (bcast_reported s c) = s_last_bcast s /\
  s_bcast_rep (bcast_reported s c) =
    match s_last_bcast s with Some BMandatory => Some (ctl_uns c, ctl_seq c) | _ => s_bcast_rep s end.
Proof. unfold bcast_reported. destruct (s_last_bcast s) as [[]|] eqn:E; prj; auto. Qed.

(* what a first transmission does: an indication that does not require a confirmation is consumed,
   a confirm-mandatory one stays and the response registers itself as its reporter (with CON set if
   solicited) *)
Lemma write_solicited_trk s dest r s1 r1 o :
  write_solicited s dest r = (s1, r1, o) ->
  s_restart_iin s1 = s_restart_iin s /\
  match s_last_bcast s with
  | Some BMandatory =>
      s_last_bcast s1 = Some BMandatory /\ s_bcast_rep s1 = Some (ctl_uns (r_ctl r1), ctl_seq (r_ctl r1)) /\
      ctl_con (r_ctl r1) = true
  | _ => s_last_bcast s1 = None /\ s_bcast_rep s1 = s_bcast_rep s
  end.
Proof.
  unfold write_solicited. destruct (response_iin s) as [[s0 iin] o0] eqn:E.
  apply response_iin_trk in E. destruct E as (E1 & E2 & E3).
  intros H; inversion H; subst s1 r1 o; clear H.
  pose proof (bcast_reported_trk s0) as B. rewrite E3 in *.
  destruct (s_last_bcast s) as [[]|]; cbn [after_report] in *;
    match goal with |- context [bcast_reported s0 ?c] => destruct (B c) as (B1 & B2 & B3) end;
    (split; [congruence|]); try (split; congruence).
  split; [congruence|]. split; [exact B3|]. cbn [with_ctl r_ctl]. apply set_con_con.
Qed.

Lemma write_unsolicited_trk cfg s r s1 r1 o :
  write_unsolicited cfg s r = (s1, r1, o) ->
  s_restart_iin s1 = s_restart_iin s /\
  match s_last_bcast s with
  | Some BMandatory =>
      s_last_bcast s1 = Some BMandatory /\ s_bcast_rep s1 = Some (ctl_uns (r_ctl r1), ctl_seq (r_ctl r1))
  | _ => s_last_bcast s1 = None /\ s_bcast_rep s1 = s_bcast_rep s
  end.
Proof.
  unfold write_unsolicited. destruct (response_iin s) as [[s0 iin] o0] eqn:E.
  apply response_iin_trk in E. destruct E as (E1 & E2 & E3).
  intros H; inversion H; subst s1 r1 o; clear H.
  pose proof (bcast_reported_trk s0) as B. rewrite E3 in *.
  destruct (s_last_bcast s) as [[]|]; cbn [after_report] in *;
    match goal with |- context [bcast_reported s0 ?c] => destruct (B c) as (B1 & B2 & B3) end;
    (split; [congruence|]); split; first [congruence | exact B3].
Qed.

Lemma write_solicited_qs s dest r s1 r1 o : write_solicited s dest r = (s1, r1, o) -> qs s s1.
Proof.
  intros H. pose proof (write_solicited_spec _ _ _ _ _ _ H) as [D _]. apply sc_app in D.
  apply write_solicited_trk in H. destruct H as [A B]. split; [left; exact A|]. split; [|exact D].
  destruct (s_last_bcast s) as [[]|]; [right; left; split; [tauto|discriminate]|left; tauto|
                                       right; left; split; [tauto|discriminate]|left; tauto].
Qed.

Lemma write_unsolicited_qs cfg s r s1 r1 o : write_unsolicited cfg s r = (s1, r1, o) -> qs s s1.
Proof.
  intros H. pose proof (write_unsolicited_spec _ _ _ _ _ _ H) as [D _]. apply sc_app in D.
  apply write_unsolicited_trk in H. destruct H as [A B]. split; [left; exact A|]. split; [|exact D].
  destruct (s_last_bcast s) as [[]|]; [right; left; split; [tauto|discriminate]|left; tauto|
                                       right; left; split; [tauto|discriminate]|left; tauto].
Qed.

Lemma write_error_response_qs s from bc seq s1 o : write_error_response s from bc seq = (s1, o) -> qs s s1.
Proof.
  unfold write_error_response. destruct bc; [intros H; inversion H; subst; apply sr_refl|].
  destruct seq; [|intros H; inversion H; subst; apply sr_refl].
  destruct (write_solicited s from (empty_solicited n iin2_no_func)) as [[s0 r0] o0] eqn:E.
  apply write_solicited_qs in E. intros H; inversion H; subst. exact E.
Qed.

(* ---------- a fragment ---------------------------------------------------------------------------- *)

(* the fragment is a WRITE, accepted from this master, holding the header that clears IIN1.7 *)
Definition clearing_write (cfg : ocfg) (from : N) (d : digest) : Prop :=
  exists ctl hdrs rh, to_treq cfg from d = TqRequest ctl fn_write (ObjOk hdrs rh) /\ clears_restart hdrs = true.

Lemma process_broadcast_trk cfg s m fid ctl fn bytes obj s1 o :
  process_broadcast cfg s m fid ctl fn bytes obj = (s1, o) ->
  s_last_bcast s1 = Some m /\ s_bcast_rep s1 = None /\
  (s_restart_iin s1 = s_restart_iin s \/
   (s_restart_iin s1 = false /\ fn = fn_write /\ exists hdrs rh, obj = ObjOk hdrs rh /\ clears_restart hdrs = true)).
Proof.
  unfold process_broadcast. set (s0 := upd_bcast_rep (upd_last_bcast s (Some m)) None).
  assert (K0 : s_last_bcast s0 = Some m /\ s_bcast_rep s0 = None /\ s_restart_iin s0 = s_restart_iin s)
    by (subst s0; prj; auto).
  destruct K0 as (K1 & K2 & K3). clearbody s0.
  assert (K : forall s2, keep s0 s2 -> s_last_bcast s2 = Some m /\ s_bcast_rep s2 = None /\
     (s_restart_iin s2 = s_restart_iin s \/
      (s_restart_iin s2 = false /\ fn = fn_write /\ exists hdrs rh, obj = ObjOk hdrs rh /\ clears_restart hdrs = true))).
  { intros s2 Hk. apply keep_fields in Hk. destruct Hk as (A & B & C).
    split; [congruence|]. split; [congruence|]. left. congruence. }
  destruct (negb (o_broadcast cfg)); [intros H; inversion H; subst; apply K; apply keep_refl|].
  destruct obj as [e|hdrs rh]; [intros H; inversion H; subst; apply K; apply keep_refl|].
  destruct (fn =? fn_write) eqn:Ew.
  { apply N.eqb_eq in Ew. destruct (handle_write_headers cfg s0 hdrs) as [[s2 v] o2] eqn:E.
    apply handle_write_headers_trk in E. destruct E as (A & B & C).
    intros H; inversion H; subst s1 o. split; [congruence|]. split; [congruence|].
    destruct (clears_restart hdrs) eqn:Ec; [right|left; congruence].
    split; [exact C|]. split; [exact Ew|]. exists hdrs, rh. auto. }
  destruct (fn =? fn_direct_operate_nr).
  { destruct (handle_controls cfg s0 fn (ctl_seq ctl) fid bytes hdrs) as [[s2 r2] o2] eqn:E.
    apply handle_controls_keep in E. intros H; inversion H; subst. apply K; exact E. }
  destruct (fn =? fn_immediate_freeze_nr).
  { destruct (handle_freeze cfg 0 hdrs) as [v o']. intros H; inversion H; subst. apply K; apply keep_refl. }
  destruct (fn =? fn_freeze_clear_nr).
  { destruct (handle_freeze cfg 1 hdrs) as [v o']. intros H; inversion H; subst. apply K; apply keep_refl. }
  destruct (fn =? fn_freeze_at_time_nr).
  { destruct (handle_freeze_at_time cfg None hdrs) as [v o']. intros H; inversion H; subst. apply K; apply keep_refl. }
  destruct (fn =? fn_record_time).
  { intros H; inversion H; subst. apply K; reflexivity. }
  destruct (fn =? fn_disable_unsol).
  { destruct (enable_disable cfg s0 false (ctl_seq ctl) hdrs) as [s2 r2] eqn:E. apply enable_disable_keep in E.
    intros H; inversion H; subst. apply K; exact E. }
  destruct (fn =? fn_enable_unsol).
  { destruct (enable_disable cfg s0 true (ctl_seq ctl) hdrs) as [s2 r2] eqn:E. apply enable_disable_keep in E.
    intros H; inversion H; subst. apply K; exact E. }
  intros H; inversion H; subst. apply K; apply keep_refl.
Qed.

Lemma hfi_finish_qs cfg from seq bytes fn s1 resp se rep o1 s' o :
  hfi_finish cfg from seq bytes fn s1 resp se rep o1 = (s', o) -> qs s1 s'.
Proof.
  unfold hfi_finish. destruct resp as [r|]; [|intros H; inversion H; subst; apply keep_sr; reflexivity].
  destruct rep.
  - match goal with |- context [match ?x with Some _ => _ | None => _ end = _] => destruct x end;
      intros H; inversion H; subst; apply keep_sr; reflexivity.
  - destruct (write_solicited s1 from r) as [[s2 r'] o2] eqn:E. apply write_solicited_qs in E.
    match goal with |- context [match ?x with Some _ => _ | None => _ end = _] => destruct x end;
      intros H; inversion H; subst; (eapply sr_keep_r; [exact E|reflexivity]).
Qed.

Lemma classify_bcast s m bytes ctl fn obj : classify s (Some m) bytes ctl fn obj = FtBroadcast m.
Proof. reflexivity. Qed.

Lemma classify_confirm s bc bytes ctl fn obj q :
  (classify s bc bytes ctl fn obj = FtSolConfirm q -> bc = None /\ fn = fn_confirm /\ ctl_uns ctl = false /\ q = ctl_seq ctl) /\
  (classify s bc bytes ctl fn obj = FtUnsolConfirm q -> bc = None /\ fn = fn_confirm /\ ctl_uns ctl = true /\ q = ctl_seq ctl).
Proof.
  destruct bc as [m|]; [cbn [classify]; split; discriminate|].
  unfold classify. destruct (fn =? fn_confirm) eqn:E0.
  - apply N.eqb_eq in E0. destruct (ctl_uns ctl); split; intros H; inversion H; auto.
  - destruct obj as [e|hdrs rh]; [split; discriminate|].
    destruct (match s_last s with Some l => (lr_seq l =? ctl_seq ctl) && bytes_eqb (lr_bytes l) bytes | None => false end);
      destruct (fn =? fn_read); split; discriminate.
Qed.

Lemma handle_from_idle_sr cfg s from bc bytes d fid s' o :
  handle_from_idle cfg s from bc bytes d fid = (s', o) -> sr (clearing_write cfg from d) (bc <> None) s s'.
Proof.
  rewrite SessionLemmas_c12.handle_from_idle_eq. destruct (to_treq cfg from d) as [|eseq|ctl fn obj] eqn:Et.
  - intros H; inversion H; subst. apply sr_refl.
  - intros H. apply write_error_response_qs in H. apply qs_sr. exact H.
  - cbv zeta. destruct bc as [m|].
    + rewrite classify_bcast.
      destruct (process_broadcast cfg s m fid ctl fn bytes obj) as [s1 o1] eqn:E.
      pose proof (SessionLemmas_c12.process_broadcast_spec _ _ _ _ _ _ _ _ _ _ E) as [D _]. apply sc_app in D.
      apply process_broadcast_trk in E. destruct E as (A & B & C). intros H; inversion H; subst s' o.
      split; [|split; [right; right; discriminate|exact D]].
      destruct C as [C|(C1 & C2 & hdrs & rh & C3 & C4)]; [left; exact C|right]. split; [exact C1|].
      subst fn obj. exists ctl, hdrs, rh. auto.
    + pose proof (classify_unicast_cases s bytes ctl fn obj) as Hc.
      destruct (classify s None bytes ctl fn obj) as [iin2|hdrs rh|last hdrs rh|hdrs|last|m|q|q].
      * intros H. apply hfi_finish_qs in H. apply qs_sr. exact H.
      * destruct (format_first_read_response s (ctl_seq ctl)) as [[[s1 r] se] o1] eqn:E.
        apply format_first_read_response_keep in E. intros H. apply hfi_finish_qs in H.
        apply qs_sr. eapply sr_keep_l; eauto.
      * destruct (format_first_read_response s (ctl_seq ctl)) as [[[s1 r] se] o1] eqn:E.
        apply format_first_read_response_keep in E. intros H. apply hfi_finish_qs in H.
        apply qs_sr. eapply sr_keep_l; eauto.
      * destruct Hc as (_ & _ & rh & Hobj).
        destruct (handle_non_read cfg s fn (ctl_seq ctl) fid bytes hdrs) as [[s1 r] o1] eqn:E.
        pose proof (SessionLemmas_c12.handle_non_read_spec _ _ _ _ _ _ _ _ _ _ E) as [D _]. apply sc_app in D.
        apply handle_non_read_trk in E. destruct E as (A & B & C). intros H. apply hfi_finish_qs in H.
        eapply sr_trans; [|apply qs_sr; exact H]. split; [|split; [left; exact A|exact D]].
        destruct (fn =? fn_write) eqn:Ew; cbn [andb] in C; [|left; exact C].
        destruct (clears_restart hdrs) eqn:Ecl; [|left; exact C]. right. split; [exact C|].
        apply N.eqb_eq in Ew. subst fn obj. exists ctl, hdrs, rh. auto.
      * intros H. apply hfi_finish_qs in H. apply qs_sr. eapply sr_keep_l; [|exact H].
        destruct (s_select s) as [sel|]; [|reflexivity].
        destruct ((ss_frame_id sel + 1) mod 4294967296 =? fid); reflexivity.
      * destruct Hc.
      * intros H; inversion H; subst. apply sr_refl.
      * intros H; inversion H; subst. apply sr_refl.
Qed.

(* the confirm that bcast_confirmed accepts: it names the response recorded in s_bcast_rep *)
Definition reporter_confirm (cfg : ocfg) (s : ostate) (from : N) (bc : option bcast_mode) (d : digest) : Prop :=
  exists ctl obj, bc = None /\ to_treq cfg from d = TqRequest ctl fn_confirm obj /\
    rep_eqb (s_bcast_rep s) (ctl_uns ctl) (ctl_seq ctl) = true.

Lemma bcast_confirmed_trk s u q :
  s_restart_iin (bcast_confirmed s u q) = s_restart_iin s /\
  (s_last_bcast (bcast_confirmed s u q) = s_last_bcast s \/ rep_eqb (s_bcast_rep s) u q = true).
Proof. unfold bcast_confirmed. destruct (rep_eqb (s_bcast_rep s) u q); prj; auto. Qed.

Lemma unsol_wait_fragment_sr cfg s resp from bc bytes d fid s' res o :
  unsol_wait_fragment cfg s resp from bc bytes d fid = (s', res, o) ->
  sr (clearing_write cfg from d) (bc <> None \/ reporter_confirm cfg s from bc d) s s'.
Proof.
  unfold unsol_wait_fragment. destruct (to_treq cfg from d) as [|eseq|ctl fn obj] eqn:Et.
  - intros H; inversion H; subst. apply sr_refl.
  - destruct (write_error_response (upd_deferred s None) from bc eseq) as [s1 o1] eqn:E.
    apply write_error_response_qs in E. intros H; inversion H; subst. apply qs_sr.
    eapply sr_keep_l; [|exact E]. reflexivity.
  - cbv zeta. destruct bc as [m|].
    + rewrite classify_bcast.
      destruct (process_broadcast cfg (upd_deferred s None) m fid ctl fn bytes obj) as [s1 o1] eqn:E.
      pose proof (SessionLemmas_c12.process_broadcast_spec _ _ _ _ _ _ _ _ _ _ E) as [D _]. apply sc_app in D.
      apply process_broadcast_trk in E. destruct E as (A & B & C). prj. intros H; inversion H; subst s' res o.
      split; [|split; [right; right; left; discriminate|exact D]].
      destruct C as [C|(C1 & C2 & hdrs & rh & C3 & C4)]; [left; exact C|right]. split; [exact C1|].
      subst fn obj. exists ctl, hdrs, rh. auto.
    + pose proof (classify_unicast_cases s bytes ctl fn obj) as Hc.
      pose proof (classify_confirm s None bytes ctl fn obj) as Hq.
      destruct (classify s None bytes ctl fn obj) as [iin2|hdrs rh|last hdrs rh|hdrs|last|m|q|q].
      * destruct (write_solicited (upd_deferred s None) from (empty_solicited (ctl_seq ctl) iin2)) as [[s1 r1] o1] eqn:E.
        apply write_solicited_qs in E. intros H; inversion H; subst. apply qs_sr.
        eapply sr_keep_l; [|exact E]. reflexivity.
      * intros H; inversion H; subst. apply keep_sr. reflexivity.
      * intros H; inversion H; subst. apply keep_sr. reflexivity.
      * destruct Hc as (_ & _ & rh & Hobj).
        destruct (handle_non_read cfg (upd_deferred s None) fn (ctl_seq ctl) fid bytes hdrs) as [[s1 r] o1] eqn:E.
        pose proof (SessionLemmas_c12.handle_non_read_spec _ _ _ _ _ _ _ _ _ _ E) as [D _]. apply sc_app in D.
        apply handle_non_read_trk in E. prj. destruct E as (A & B & C).
        assert (S1 : sr (clearing_write cfg from d) (@None bcast_mode <> None \/ reporter_confirm cfg s from None d) s s1).
        { split; [|split; [left; exact A|exact D]].
          destruct (fn =? fn_write) eqn:Ew; cbn [andb] in C; [|left; exact C].
          destruct (clears_restart hdrs) eqn:Ecl; [|left; exact C]. right. split; [exact C|].
          apply N.eqb_eq in Ew. subst fn obj. exists ctl, hdrs, rh. auto. }
        destruct r as [r0|].
        -- destruct (write_solicited s1 from r0) as [[s2 r1] o2] eqn:Ew2. apply write_solicited_qs in Ew2.
           intros H; inversion H; subst s' res o. eapply sr_trans; [exact S1|]. apply qs_sr.
           eapply sr_keep_r; [exact Ew2|reflexivity].
        -- intros H; inversion H; subst s' res o. eapply sr_keep_r; [exact S1|reflexivity].
      * intros H; inversion H; subst. apply keep_sr. reflexivity.
      * destruct Hc.
      * destruct (Hq q) as [Hq1 _]. destruct (Hq1 eq_refl) as (_ & Hfn & Hu & Hs).
        intros H; inversion H; subst s' res o. destruct (bcast_confirmed_trk s false q) as [A B].
        split; [left; exact A|]. split; [|apply sc_app, sc_bcast_confirmed].
        destruct B as [B|B]; [left; exact B|].
        right. right. right. exists ctl, obj. subst fn. rewrite Hu, <- Hs. auto.
      * destruct (Hq q) as [_ Hq2]. destruct (Hq2 eq_refl) as (_ & Hfn & Hu & Hs).
        destruct (q =? ctl_seq (r_ctl resp)); intros H; inversion H; subst s' res o; [|apply sr_refl].
        destruct (bcast_confirmed_trk s true q) as [A B].
        split; [left; exact A|]. split; [|apply sc_app, sc_bcast_confirmed].
        destruct B as [B|B]; [left; exact B|].
        right. right. right. exists ctl, obj. subst fn. rewrite Hu, <- Hs. auto.
Qed.

(* ---------- unsolicited, deferred read ------------------------------------------------------------ *)

Lemma start_unsol_qs cfg s r is_null s' o : start_unsol cfg s r is_null = (s', o) -> qs s s'.
Proof.
  unfold start_unsol. destruct (write_unsolicited cfg s r) as [[s1 r1] o1] eqn:E.
  apply write_unsolicited_qs in E. intros H; inversion H; subst. eapply sr_keep_r; [exact E|reflexivity].
Qed.

Lemma check_unsolicited_qs cfg s s' ns o : check_unsolicited cfg s = (s', ns, o) -> qs s s'.
Proof.
  unfold check_unsolicited.
  destruct (negb (o_unsol cfg)); [intros H; inversion H; subst; apply sr_refl|].
  destruct (s_unsol s) as [|deadline].
  - match goal with |- context [start_unsol cfg ?S ?R true] => destruct (start_unsol cfg S R true) as [s2 o2] eqn:E end.
    apply start_unsol_qs in E. intros H; inversion H; subst. eapply sr_keep_l; [|exact E]. reflexivity.
  - match goal with |- context [negb ?b] => destruct (negb b) end; [intros H; inversion H; subst; apply sr_refl|].
    destruct (negb (any_enabled s)); [intros H; inversion H; subst; apply sr_refl|].
    destruct (ask_unsol s) as [s0 [count body]] eqn:E. apply ask_unsol_keep in E.
    destruct (s_enabled s) as [[c1 c2] c3].
    destruct (count =? 0); [intros H; inversion H; subst; apply keep_sr; exact E|].
    match goal with |- context [start_unsol cfg ?S ?R false] => destruct (start_unsol cfg S R false) as [s3 o3] eqn:E3 end.
    apply start_unsol_qs in E3. intros H; inversion H; subst.
    eapply sr_keep_l; [exact E|]. eapply sr_keep_l; [|exact E3]. reflexivity.
Qed.

Lemma end_unsol_keep cfg s is_null res s' ns o : end_unsol cfg s is_null res = (s', ns, o) -> keep s s'.
Proof. unfold end_unsol. destruct is_null; destruct res; intros H; inversion H; subst; reflexivity. Qed.

Lemma handle_deferred_qs cfg s ns s' o : handle_deferred cfg s ns = (s', o) -> qs s s'.
Proof.
  unfold handle_deferred. destruct (s_deferred s) as [d|]; [|intros H; inversion H; subst; apply sr_refl].
  destruct (ask_iin2 (upd_notify (upd_deferred s None) true) DbDeferredSelect) as [[sa iin2] oa] eqn:Ea.
  apply ask_iin2_keep in Ea.
  destruct (format_read_response sa true (df_seq d) (N.lor (df_iin2 d) iin2)) as [[[sb r] se] ob] eqn:Eb.
  apply format_read_response_keep in Eb.
  destruct (write_solicited sb (df_from d) r) as [[sc r'] oc] eqn:Ec.
  apply write_solicited_qs in Ec.
  assert (Q : qs s sc).
  { eapply sr_keep_l; [|eapply sr_keep_l; [exact Ea|eapply sr_keep_l; [exact Eb|exact Ec]]]. reflexivity. }
  cbv zeta. destruct se as [x|]; [|destruct (ctl_con (r_ctl r'))]; intros H; inversion H; subst s' o;
    (eapply sr_keep_r; [exact Q|reflexivity]).
Qed.

(* ---------- the idle loop ---------------------------------------------------------------------------- *)

Definition pend_W (W : N -> option bcast_mode -> digest -> Prop) (s : ostate) : Prop :=
  match s_pending s with Some (from, bc, _, d, _) => W from bc d | None => False end.

(* the held fragment is not a unicast CONFIRM *)
Definition not_confirm (cfg : ocfg) (from : N) (bc : option bcast_mode) (d : digest) : Prop :=
  bc = None -> forall ctl obj, to_treq cfg from d <> TqRequest ctl fn_confirm obj.

Definition pend_nc (cfg : ocfg) (s : ostate) : Prop :=
  match s_pending s with Some (from, bc, _, d, _) => not_confirm cfg from bc d | None => True end.

Definition Wr_of (cfg : ocfg) : N -> option bcast_mode -> digest -> Prop := fun from _ d => clearing_write cfg from d.
Definition Wb_of : N -> option bcast_mode -> digest -> Prop := fun _ bc _ => bc <> None.

Definition isr (cfg : ocfg) (s0 s s' : ostate) : Prop := sr (pend_W (Wr_of cfg) s0) (pend_W Wb_of s0) s s'.

Lemma isr_pend cfg s0 s1 a b :
  s_pending s1 = s_pending s0 \/ s_pending s1 = None -> isr cfg s1 a b -> isr cfg s0 a b.
Proof.
  unfold isr, pend_W. intros [H|H]; rewrite H; [auto|]. apply sr_weaken; intros [].
Qed.

Lemma pend_nc_pend cfg s0 s1 :
  s_pending s1 = s_pending s0 \/ s_pending s1 = None -> pend_nc cfg s0 -> pend_nc cfg s1.
Proof. unfold pend_nc. intros [H|H]; rewrite H; auto. Qed.

Lemma idle_run_sr cfg : forall f st s s' o,
  idle_run f cfg st s = (s', o) -> pend_nc cfg s -> isr cfg s s s'.
Proof.
  induction f as [|f IH]; intros st s s' o H Hnc.
  { cbn [idle_run] in H. inversion H; subst. apply sr_refl. }
  cbn [idle_run] in H. destruct st as [| |ns|ns].
  - (* St1 *)
    destruct (s_pending s) as [[[[[from bc] bytes] d] fid]|] eqn:Ep.
    + destruct (handle_from_idle cfg (upd_pending s None) from bc bytes d fid) as [s1 o1] eqn:Eh.
      pose proof (handle_from_idle_spec _ _ _ _ _ _ _ _ _ Eh) as [A _]. pget FPend A. prj.
      apply handle_from_idle_sr in Eh.
      assert (S1 : isr cfg s s s1).
      { unfold isr, pend_W. rewrite Ep. eapply sr_keep_l; [|exact Eh]. reflexivity. }
      destruct (s_control s1) eqn:Ec.
      * destruct (idle_run f cfg St2 s1) as [s2 o2] eqn:Er. inversion H; subst s' o. clear H.
        apply IH in Er; [|unfold pend_nc; rewrite P; exact I].
        eapply sr_trans; [exact S1|]. eapply isr_pend; [|exact Er]. right; exact P.
      * inversion H; subst. exact S1.
      * inversion H; subst. exact S1.
    + destruct (s_control s) eqn:Ec.
      * destruct (idle_run f cfg St2 s) as [s2 o2] eqn:Er. inversion H; subst s' o. eapply IH; eauto.
      * inversion H; subst. apply sr_refl.
      * inversion H; subst. apply sr_refl.
  - (* St2 *)
    destruct (check_unsolicited cfg s) as [[s2 ns2] o2] eqn:Ecu.
    pose proof (check_unsolicited_spec _ _ _ _ _ Ecu) as [A _]. pget FPend A.
    apply check_unsolicited_qs in Ecu.
    assert (S2 : isr cfg s s s2) by (apply qs_sr; exact Ecu).
    destruct (s_control s2) as [|se dl rs|resp is_null rt dl] eqn:Ec.
    + destruct (idle_run f cfg (St3 false) s2) as [s3 o3] eqn:Er. inversion H; subst s' o.
      apply IH in Er; [|eapply pend_nc_pend; [left; exact P|exact Hnc]].
      eapply sr_trans; [exact S2|]. eapply isr_pend; [|exact Er]. left; exact P.
    + inversion H; subst. exact S2.
    + destruct (s_pending s2) as [[[[[from bc] bytes] d] fid]|] eqn:Ep2; [|inversion H; subst; exact S2].
      destruct (unsol_wait_fragment cfg (upd_pending s2 None) resp from bc bytes d fid) as [[s3 res] o3] eqn:Eu.
      pose proof (unsol_wait_fragment_spec _ _ _ _ _ _ _ _ _ _ _ Eu) as [A3 _]. pget FPend A3. prj.
      apply unsol_wait_fragment_sr in Eu.
      assert (S3 : isr cfg s s2 s3).
      { unfold isr, pend_W. rewrite <- P. eapply sr_keep_l; [|eapply sr_weaken; [| |exact Eu]]; [reflexivity|auto|].
        intros [Hb|(ctl & obj & Hb & Ht & _)]; [exact Hb|]. exfalso.
        unfold pend_nc in Hnc. rewrite <- P in Hnc. exact (Hnc Hb ctl obj Ht). }
      destruct res as [r|].
      * destruct (end_unsol cfg s3 is_null r) as [[s4 ns4] o4] eqn:Ee.
        pose proof (end_unsol_spec _ _ _ _ _ _ _ Ee) as [A4 _]. pget FPend A4.
        apply end_unsol_keep in Ee.
        destruct (idle_run f cfg (St3 ns4) s4) as [s5 o5] eqn:Er. inversion H; subst s' o. clear H.
        assert (P4 : s_pending s4 = None) by congruence.
        apply IH in Er; [|unfold pend_nc; rewrite P4; exact I].
        eapply sr_trans; [exact S2|]. eapply sr_trans; [exact S3|]. eapply sr_keep_l; [exact Ee|].
        eapply isr_pend; [|exact Er]. right; exact P4.
      * inversion H; subst s' o. eapply sr_trans; [exact S2|exact S3].
  - (* St3 *)
    destruct (handle_deferred cfg s ns) as [s3 o3] eqn:Ed.
    pose proof (handle_deferred_spec _ _ _ _ _ Ed) as [A _]. pget FPend A.
    apply handle_deferred_qs in Ed.
    assert (S3 : isr cfg s s s3) by (apply qs_sr; exact Ed).
    destruct (s_control s3) eqn:Ec.
    + destruct (idle_run f cfg (St4 ns) s3) as [s4 o4] eqn:Er. inversion H; subst s' o.
      apply IH in Er; [|eapply pend_nc_pend; [left; exact P|exact Hnc]].
      eapply sr_trans; [exact S3|]. eapply isr_pend; [|exact Er]. left; exact P.
    + inversion H; subst. exact S3.
    + inversion H; subst. exact S3.
  - (* St4 *)
    destruct (s_pending s) eqn:Ep; [eapply IH; eauto|].
    destruct ns; [eapply IH; eauto|].
    destruct (s_notify s).
    + apply IH in H; [|unfold pend_nc; prj; rewrite Ep; exact I].
      eapply sr_keep_l; [|eapply isr_pend; [|exact H]]; [reflexivity|left; reflexivity].
    + inversion H; subst. apply sr_refl.
Qed.

Lemma idle_run_qs cfg f st s s' o : s_pending s = None -> idle_run f cfg st s = (s', o) -> qs s s'.
Proof.
  intros Hp H. apply idle_run_sr in H; [|unfold pend_nc; rewrite Hp; exact I].
  unfold isr, pend_W in H. rewrite Hp in H. exact H.
Qed.

Lemma resume_at_qs cfg st s s' o : s_pending s = None -> resume_at cfg st s = (s', o) -> qs s s'.
Proof. unfold resume_at. apply idle_run_qs. Qed.

Lemma idle_loop_qs cfg s s' o : s_pending s = None -> idle_loop 8 cfg s = (s', o) -> qs s s'.
Proof. rewrite idle_loop8. apply idle_run_qs. Qed.

Lemma resume_at_sr cfg st s s' o : resume_at cfg st s = (s', o) -> pend_nc cfg s -> isr cfg s s s'.
Proof. unfold resume_at. apply idle_run_sr. Qed.

Lemma idle_loop_sr cfg s s' o : idle_loop 8 cfg s = (s', o) -> pend_nc cfg s -> isr cfg s s s'.
Proof. rewrite idle_loop8. apply idle_run_sr. Qed.

Lemma idle_run_St1_S f cfg s :
  idle_run (S f) cfg St1 s =
  let '(s1, o1) := match s_pending s with
                   | Some (from, bc, bytes, d, fid) => handle_from_idle cfg (upd_pending s None) from bc bytes d fid
                   | None => (s, [])
                   end in
  match s_control s1 with
  | CIdle => let '(s2, o2) := idle_run f cfg St2 s1 in (s2, o1 ++ o2)
  | _ => (s1, o1)
  end.
Proof. reflexivity. Qed.

(* ---------- time -------------------------------------------------------------------------------------- *)

Lemma fire_deadline_qs cfg s s' o : J s -> fire_deadline cfg s = (s', o) -> qs s s'.
Proof.
  intros [Jp _] H. unfold fire_deadline in H. destruct (s_control s) as [|se dl r|resp is_null retries dl].
  - eapply resume_at_qs; eauto.
  - destruct (resume_at cfg (stage_of r) (upd_control s CIdle)) as [s1 o1] eqn:Er.
    inversion H; subst s' o. eapply sr_keep_l; [|eapply resume_at_qs; [|exact Er]]; [reflexivity|exact Jp].
  - match type of H with (if ?c then _ else _) = _ => destruct c end.
    + inversion H; subst. apply keep_sr. reflexivity.
    + destruct (end_unsol cfg s is_null UrTimeout) as [[s1 ns] o1] eqn:Ee.
      pose proof (end_unsol_spec _ _ _ _ _ _ _ Ee) as [A _]. pget FPend A.
      apply end_unsol_keep in Ee.
      destruct (resume_at cfg (St3 ns) s1) as [s2 o2] eqn:Er.
      inversion H; subst s' o. eapply sr_keep_l; [exact Ee|]. eapply resume_at_qs; [|exact Er]. congruence.
Qed.

Lemma advance_qs cfg target : forall f s s' o, J s -> advance f cfg s target = (s', o) -> qs s s'.
Proof.
  induction f as [|f IH]; intros s s' o HJ H; cbn [advance] in H.
  { inversion H; subst. apply keep_sr. reflexivity. }
  destruct (next_deadline cfg s) as [dl|]; [|inversion H; subst; apply keep_sr; reflexivity].
  destruct (dl <=? target)%Z; [|inversion H; subst; apply keep_sr; reflexivity].
  destruct (fire_deadline cfg (upd_now s (Z.max dl (s_now s)))) as [s1 o1] eqn:Ef.
  pose proof (fire_deadline_spec _ _ _ _ (J_upd_now _ _ HJ) Ef) as [_ J1].
  apply fire_deadline_qs in Ef; [|apply J_upd_now; exact HJ].
  destruct (advance f cfg s1 target) as [s2 o2] eqn:Ea. inversion H; subst s' o. clear H.
  apply IH in Ea; [|exact J1].
  eapply sr_keep_l; [|eapply sr_trans; [exact Ef|exact Ea]]. reflexivity.
Qed.

(* ---------- a received fragment ---------------------------------------------------------------------- *)

Lemma sol_wait_fragment_cases cfg s se dl from bc bytes d out o :
  sol_wait_fragment cfg s se dl from bc bytes d = (out, o) ->
  match out with
  | SoStay _ => True
  | SoConfirmed _ => exists ctl obj, bc = None /\ to_treq cfg from d = TqRequest ctl fn_confirm obj /\
                       ctl_uns ctl = false /\ ctl_seq ctl = se_ecsn se
  | SoNewRequest => not_confirm cfg from bc d
  end.
Proof.
  unfold sol_wait_fragment, not_confirm. destruct (to_treq cfg from d) as [|eseq|ctl fn obj] eqn:Et.
  - intros H; inversion H; subst. exact I.
  - intros H; inversion H; subst. intros _ ctl obj Hx; discriminate Hx.
  - pose proof (classify_confirm s bc bytes ctl fn obj) as Hq.
    destruct bc as [m|].
    { rewrite classify_bcast. intros H; inversion H; subst. intros Hx; discriminate Hx. }
    pose proof (classify_unicast_cases s bytes ctl fn obj) as Hc.
    destruct (classify s None bytes ctl fn obj) as [iin2|hdrs rh|last hdrs rh|hdrs|last|m|q|q].
    1-5: intros H; inversion H; subst out o; try exact I; intros _ ctl0 obj0 Hx; inversion Hx; subst;
      destruct Hc as [Hc _]; apply N.eqb_neq in Hc; congruence.
    + destruct Hc.
    + destruct (Hq q) as [Hq1 _]. destruct (Hq1 eq_refl) as (_ & Hfn & Hu & Hs).
      destruct (q =? se_ecsn se) eqn:Eq; intros H; inversion H; subst out o; [|exact I].
      apply N.eqb_eq in Eq. exists ctl, obj. subst fn. repeat split; congruence.
    + intros H; inversion H; subst. exact I.
Qed.

(* what may clear a pending confirm-mandatory indication: a newer broadcast, or the CONFIRM of the
   response recorded in s_bcast_rep (unsolicited confirm wait), or the expected CONFIRM of the
   solicited series being waited for *)
Definition bcast_cause (cfg : ocfg) (s : ostate) (from : N) (bc : option bcast_mode) (d : digest) : Prop :=
  bc <> None \/
  exists ctl obj, bc = None /\ to_treq cfg from d = TqRequest ctl fn_confirm obj /\
    (((exists resp n k dl, s_control s = CUnsolWait resp n k dl) /\
      rep_eqb (s_bcast_rep s) (ctl_uns ctl) (ctl_seq ctl) = true) \/
     (exists se dl r, s_control s = CSolWait se dl r /\ ctl_uns ctl = false /\ ctl_seq ctl = se_ecsn se)).

Lemma not_confirm_dec cfg from bc d :
  not_confirm cfg from bc d \/ exists ctl obj, bc = None /\ to_treq cfg from d = TqRequest ctl fn_confirm obj.
Proof.
  unfold not_confirm. destruct bc as [m|]; [left; discriminate|].
  destruct (to_treq cfg from d) as [|eseq|ctl fn obj]; try (left; intros _ c ob Hx; discriminate Hx).
  destruct (N.eq_dec fn fn_confirm) as [->|Hn]; [right; eauto|].
  left. intros _ c ob Hx. inversion Hx. congruence.
Qed.

Lemma handle_from_idle_confirm cfg s from bytes d fid ctl obj :
  to_treq cfg from d = TqRequest ctl fn_confirm obj ->
  exists o, handle_from_idle cfg s from None bytes d fid = (s, o).
Proof.
  intros Ht. rewrite SessionLemmas_c12.handle_from_idle_eq, Ht. cbv zeta. unfold classify.
  change (fn_confirm =? fn_confirm) with true. cbv iota. destruct (ctl_uns ctl); eauto.
Qed.

Lemma idle_run_confirm_pending cfg f s from bytes d fid ctl obj s' o :
  to_treq cfg from d = TqRequest ctl fn_confirm obj -> s_pending s = Some (from, None, bytes, d, fid) ->
  idle_run (S f) cfg St1 s = (s', o) -> qs s s'.
Proof.
  intros Ht Hp. rewrite idle_run_St1_S, Hp.
  destruct (handle_from_idle_confirm cfg (upd_pending s None) from bytes d fid ctl obj Ht) as [o1 E1].
  rewrite E1. change (s_control (upd_pending s None)) with (s_control s).
  destruct (s_control s).
  - destruct (idle_run f cfg St2 (upd_pending s None)) as [s2 o2] eqn:Er. intros H; inversion H; subst s' o.
    apply idle_run_qs in Er; [|reflexivity]. eapply sr_keep_l; [|exact Er]. reflexivity.
  - intros H; inversion H; subst. apply keep_sr. reflexivity.
  - intros H; inversion H; subst. apply keep_sr. reflexivity.
Qed.

Lemma on_rx_sr cfg s from bc bytes d s' o :
  J s -> on_rx cfg s from bc bytes d = (s', o) ->
  sr (clearing_write cfg from d) (bcast_cause cfg s from bc d) s s'.
Proof.
  intros HJ H. pose proof HJ as [Jp Jd]. unfold on_rx in H.
  set (fid := (s_frame_id s + 1) mod 4294967296) in *.
  set (s0 := upd_frame_id s fid) in *.
  assert (K0 : keep s s0) by reflexivity.
  assert (P0 : s_pending s0 = None) by exact Jp.
  assert (R0 : s_bcast_rep s0 = s_bcast_rep s) by reflexivity.
  change (s_control s0) with (s_control s) in H.
  destruct (s_control s) as [|se dl r|resp is_null retries dl] eqn:Ec.
  - (* idle *)
    set (sp := upd_pending s0 (Some (from, bc, bytes, d, fid))) in *.
    assert (Ksp : keep s sp) by reflexivity.
    assert (Psp : s_pending sp = Some (from, bc, bytes, d, fid)) by reflexivity.
    clearbody sp.
    destruct (not_confirm_dec cfg from bc d) as [Hnc|(ctl & obj & Hb & Ht)].
    + apply idle_loop_sr in H; [|unfold pend_nc; rewrite Psp; exact Hnc].
      unfold isr, pend_W, Wr_of, Wb_of in H. rewrite Psp in H.
      eapply sr_keep_l; [exact Ksp|]. eapply sr_weaken; [| |exact H]; [auto|].
      intros Hx. left. exact Hx.
    + subst bc. rewrite idle_loop8 in H. change 32%nat with (S 31) in H.
      apply (idle_run_confirm_pending cfg 31 sp from bytes d fid ctl obj) in H; [|exact Ht|exact Psp].
      apply qs_sr. eapply sr_keep_l; [exact Ksp|exact H].
  - (* solicited confirm wait *)
    destruct (sol_wait_fragment cfg s0 se dl from bc bytes d) as [outc o0] eqn:Es.
    apply sol_wait_fragment_cases in Es.
    destruct outc as [dl'|respond_to|].
    + inversion H; subst. apply keep_sr. reflexivity.
    + destruct Es as (ctl & obj & Hb & Ht & Hu & Hs).
      assert (Wb : bcast_cause cfg s from bc d).
      { right. exists ctl, obj. split; [exact Hb|]. split; [exact Ht|]. right. exists se, dl, r. auto. }
      set (s1 := upd_last_bcast s0 None) in *.
      assert (S1 : sr (clearing_write cfg from d) (bcast_cause cfg s from bc d) s s1).
      { split; [left; reflexivity|]. split; [|reflexivity]. right. right. exact Wb. }
      assert (P1 : s_pending s1 = None) by exact Jp.
      clearbody s1.
      destruct (se_fin se).
      * destruct (resume_at cfg (stage_of r) (upd_control s1 CIdle)) as [s2 o2] eqn:Er.
        inversion H; subst s' o. eapply sr_trans; [exact S1|]. apply qs_sr.
        eapply sr_keep_l; [|eapply resume_at_qs; [|exact Er]]; [reflexivity|exact P1].
      * destruct (format_read_response s1 false (seq16_next (se_ecsn se)) 0) as [[[s2 rsp] next] o2] eqn:Ef.
        pose proof (format_read_response_pres _ _ _ _ _ _ _ _ Ef) as [A2 _]. pget FPend A2.
        apply format_read_response_keep in Ef.
        destruct (write_solicited s2 respond_to rsp) as [[s3 rsp'] o3] eqn:Ew.
        pose proof (write_solicited_pres _ _ _ _ _ _ Ew) as [A3 _]. pget FPend A3.
        apply write_solicited_qs in Ew.
        match type of H with context [upd_last s3 ?l] => set (s4 := upd_last s3 l) in * end.
        assert (S4 : sr (clearing_write cfg from d) (bcast_cause cfg s from bc d) s s4).
        { eapply sr_trans; [exact S1|]. apply qs_sr. eapply sr_keep_l; [exact Ef|].
          eapply sr_keep_r; [exact Ew|]. reflexivity. }
        assert (P4 : s_pending s4 = None) by (subst s4; prj; congruence).
        clearbody s4.
        destruct next as [n|].
        -- inversion H; subst s' o. eapply sr_keep_r; [exact S4|reflexivity].
        -- destruct (resume_at cfg (stage_of r) (upd_control s4 CIdle)) as [s5 o5] eqn:Er.
           inversion H; subst s' o. eapply sr_trans; [exact S4|]. apply qs_sr.
           eapply sr_keep_l; [|eapply resume_at_qs; [|exact Er]]; [reflexivity|exact P4].
    + destruct (resume_at cfg (stage_of r) (upd_pending (upd_control s0 CIdle) (Some (from, bc, bytes, d, fid))))
        as [s2 o2] eqn:Er.
      inversion H; subst s' o. apply resume_at_sr in Er; [|exact Es].
      unfold isr, pend_W, Wr_of, Wb_of in Er. prj.
      eapply sr_keep_l; [|eapply sr_weaken; [| |exact Er]]; [reflexivity|auto|].
      intros Hx. left. exact Hx.
  - (* unsolicited confirm wait *)
    destruct (unsol_wait_fragment cfg s0 resp from bc bytes d fid) as [[s1 res] o1] eqn:Eu.
    pose proof (unsol_wait_fragment_spec _ _ _ _ _ _ _ _ _ _ _ Eu) as [A1 _]. pget FPend A1.
    apply unsol_wait_fragment_sr in Eu.
    assert (S1 : sr (clearing_write cfg from d) (bcast_cause cfg s from bc d) s s1).
    { eapply sr_keep_l; [exact K0|]. eapply sr_weaken; [| |exact Eu]; [auto|].
      intros [Hb|(ctl & obj & Hb & Ht & Hr)]; [left; exact Hb|]. right. exists ctl, obj.
      split; [exact Hb|]. split; [exact Ht|]. left. split; [eauto|]. rewrite <- R0. exact Hr. }
    destruct res as [r|].
    + destruct (end_unsol cfg s1 is_null r) as [[s2 ns] o2] eqn:Ee.
      pose proof (end_unsol_spec _ _ _ _ _ _ _ Ee) as [A2 _]. pget FPend A2.
      apply end_unsol_keep in Ee.
      destruct (resume_at cfg (St3 ns) s2) as [s3 o3] eqn:Er.
      inversion H; subst s' o. eapply sr_trans; [exact S1|]. apply qs_sr.
      eapply sr_keep_l; [exact Ee|]. eapply resume_at_qs; [|exact Er]. congruence.
    + inversion H; subst. exact S1.
Qed.

(* ---------- the step ------------------------------------------------------------------------------------ *)

Definition ev_Wr (cfg : ocfg) (ev : oevent) : Prop :=
  match ev with ERx from _ _ d => clearing_write cfg from d | _ => False end.

Definition ev_Wb (cfg : ocfg) (s : ostate) (ev : oevent) : Prop :=
  match ev with ERx from bc _ d => bcast_cause cfg s from bc d | _ => False end.

Lemma ostep_appiin cfg s v ans s' o :
  ostep cfg s (EAppIin v) ans = (s', o) ->
  s_restart_iin s' = s_restart_iin s /\ s_last_bcast s' = s_last_bcast s /\ s_bcast_rep s' = s_bcast_rep s /\
  s_app_iin s' = v.
Proof. unfold ostep. intros H; inversion H; subst. prj. auto. Qed.

Lemma ostep_sr cfg s ev ans s' o :
  J s -> ostep cfg s ev ans = (s', o) -> (forall v, ev <> EAppIin v) -> sr (ev_Wr cfg ev) (ev_Wb cfg s ev) s s'.
Proof.
  intros HJ H Hev. unfold ostep in H.
  set (s0 := upd_answers s ans) in *.
  assert (J0 : J s0) by exact HJ.
  assert (K0 : keep s s0) by reflexivity.
  destruct ev as [from bc bytes d|ms| |sel op|v|]; cbn [ev_Wr ev_Wb].
  - destruct (on_rx cfg s0 from bc bytes d) as [s1 o1] eqn:Eo.
    pose proof (on_rx_spec _ _ _ _ _ _ _ _ J0 Eo) as [J1 _].
    apply on_rx_sr in Eo; [|exact J0].
    destruct (advance 64 cfg s1 (s_now s1 + settle_ms)) as [s2 o2] eqn:Ea.
    apply advance_qs in Ea; [|exact J1]. inversion H; subst s' o.
    eapply sr_keep_l; [exact K0|]. eapply sr_trans; [exact Eo|apply qs_sr; exact Ea].
  - destruct (advance 4096 cfg s0 (s_now s0 + ms)) as [s2 o2] eqn:Ea.
    apply advance_qs in Ea; [|exact J0]. inversion H; subst s' o. eapply sr_keep_l; [exact K0|exact Ea].
  - destruct J0 as [Jp Jd].
    assert (H1 : exists s1 o1, qs s0 s1 /\ J s1 /\
              match s_control s0 with CIdle => idle_loop 8 cfg s0 | _ => (upd_notify s0 true, []) end = (s1, o1)).
    { destruct (s_control s0) eqn:Ec.
      - destruct Jd as [Jd|Jd]; [|destruct Jd].
        destruct (idle_loop 8 cfg s0) as [s1 o1] eqn:Ei. exists s1, o1.
        pose proof (idle_loop_spec _ _ _ _ (conj Ec Jd) Jp Ei) as [_ J1].
        split; [eapply idle_loop_qs; [exact Jp|exact Ei]|]. split; [exact J1|reflexivity].
      - exists (upd_notify s0 true), []. split; [apply keep_sr; reflexivity|]. split; [|reflexivity].
        split; [exact Jp|]. destruct Jd as [Jd|Jd]; [left; exact Jd|destruct Jd].
      - exists (upd_notify s0 true), []. split; [apply keep_sr; reflexivity|]. split; [|reflexivity].
        split; [exact Jp|right; prj; rewrite Ec; exact I]. }
    destruct H1 as [s1 [o1 [Q1 [J1 E1]]]]. rewrite E1 in H.
    destruct (advance 64 cfg s1 (s_now s1 + settle_ms)) as [s2 o2] eqn:Ea.
    apply advance_qs in Ea; [|exact J1]. inversion H; subst s' o.
    eapply sr_keep_l; [exact K0|]. eapply sr_trans; [exact Q1|exact Ea].
  - inversion H; subst s' o. apply keep_sr. reflexivity.
  - exfalso. exact (Hev v eq_refl).
  - set (s1 := upd_pending (upd_control (session_reset s0) CIdle) None) in *.
    assert (K1 : s_restart_iin s1 = s_restart_iin s /\ s_last_bcast s1 = s_last_bcast s /\ s_app_iin s1 = s_app_iin s)
      by (repeat split; reflexivity).
    destruct (idle_loop 8 cfg s1) as [s2 o2] eqn:Ei.
    pose proof (idle_loop_spec cfg s1 s2 o2 (conj eq_refl eq_refl) eq_refl Ei) as [_ J2].
    apply idle_loop_qs in Ei; [|reflexivity].
    destruct (advance 64 cfg s2 (s_now s2 + settle_ms)) as [s3 o3] eqn:Ea.
    apply advance_qs in Ea; [|exact J2]. inversion H; subst s' o.
    eapply sr_trans; [|eapply sr_trans; [exact Ei|exact Ea]].
    destruct K1 as (K1 & K2 & K3). split; [left; exact K1|]. split; [|exact K3]. left. exact K2.
Qed.
