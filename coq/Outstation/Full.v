(* Outstation/Full.v — the COMPOSED outstation model: nothing but the script is an input.

   Outstation/Session.v takes as inputs (a) the verdict of the real parser on every received fragment
   (`digest`) and (b) the answers of the real database to the session's calls.  Here both are computed:

     1. `frag_digest`  : the digest, computed with App/Grammar.v exactly as /verif/harness/outstation.rs
                         `digest()` + `control_token()` compute it from the crate's parser
     2. `replay`       : the database in the loop.  One event is run through the session model again
                         and again; each run is given the answers known so far, the first question of
                         its output that has no answer yet is put to the database model
                         (Outstation/Database.v) and the answer appended, until no question is left.
     3. `fstart`, `fstep`, `frun` : start-up, one script operation, a whole history; per operation the
                         ordered observations INCLUDING the computed digest and the computed answers.

   Definitions only (theorems: Outstation/FullProofs.v).  Session.v, Database.v and Grammar.v are used
   as they are. *)
From Dnp3V Require Import Base.Bytes App.Grammar.
From Dnp3V Require Import Outstation.DbTypes Outstation.EventBuffer Outstation.StaticDb Outstation.Database.
From Dnp3V Require Import Outstation.Session.
Import ListNotations.
Open Scope N_scope.

(* ================================================================================================ *)
(* 1. the digest of a received fragment                                                              *)

(* ParseOptions::get_static(): zero-length octet strings are rejected *)
Definition full_opts : aopts := {| ao_zero_length_strings := false |}.

Definition payload_none (p : apayload) : bool := match p with PyNone => true | _ => false end.
Definition payload_attr (p : apayload) : bool := match p with PyAttr _ => true | _ => false end.

(* ReadHeader::get(h).is_some()  (dnp3/src/outstation/database/read.rs).  The three `match`es of
   from_all_objects / from_count / from_range are exhaustive over the variants the parser can produce
   for the qualifier family, so it is enough to say which GROUPS answer None:
     all objects    g13 g43 g80 g102
     count          g13 g43 g50 g51 g52, g60v1 does not parse, g111 only as Group111Var0
     range          g80 g102; g0 only without a value (READ, or g0v254) and g110 only as Group110Var0
                    (READ) - both are the cases in which the ranged parser reads no object data
     prefixes, free format: never *)
Definition hdr_is_read (h : aobj_header) : bool :=
  let g := oh_g h in
  let v := oh_v h in
  match oh_details h with
  | HAll => negb (amem g [13; 43; 80; 102])
  | HCount8 _ | HCount16 _ =>
      amem g [2; 4; 11; 22; 23; 32; 33; 42] || ((g =? 60) && amem v [2; 3; 4]) || ((g =? 111) && (v =? 0))
  | HRange8 _ _ | HRange16 _ _ =>
      amem g [1; 3; 10; 20; 21; 30; 31; 34; 40] || (amem g [0; 110] && payload_none (oh_payload h))
  | HPrefix8 _ | HPrefix16 _ | HFree _ => false
  end.

(* CountSequence::single(): the object of a count-of-one header *)
Definition single_fields (c : N) (h : aobj_header) : option (list N) :=
  if c =? 1 then match aiterate h with ObFixed _ xs :: _ => Some xs | _ => None end else None.

Definition single_time (c : N) (h : aobj_header) : option N :=
  match single_fields c h with Some (t :: _) => Some t | _ => None end.

Definition single_time_interval (c : N) (h : aobj_header) : option (N * N) :=
  match single_fields c h with Some (t :: i :: _) => Some (t, i) | _ => None end.

(* BitSequence::iter of g80v1: (index, value) *)
Definition iin_bits (h : aobj_header) : list (N * bool) :=
  concat (map (fun ob => match ob with ObBit i b => [(i, b)] | _ => [] end) (aiterate h)).

(* the items of a control header: index and T::write of the object *)
Definition ctl_items_of (h : aobj_header) : list (N * list N) :=
  map (fun p => (match fst p with Some i => i | None => 0 end, snd p)) (alisting h).

Definition is_control_gv (g v : N) : bool := ((g =? 12) && (v =? 1)) || ((g =? 41) && amem v [1; 2; 3; 4]).

(* the token of one object header: the big `match h.details` of digest(), first arm that fires *)
Definition whdr_of (h : aobj_header) : whdr :=
  let g := oh_g h in
  let v := oh_v h in
  match oh_details h with
  | HRange8 a b =>
      if (g =? 80) && (v =? 1) then WIin (iin_bits h)
      else if (g =? 20) && (v =? 0) then WFrzRange a b
      else if (g =? 0) && payload_attr (oh_payload h) then WAttr
      else WOther
  | HRange16 a b =>
      if (g =? 20) && (v =? 0) then WFrzRange a b
      else if (g =? 0) && payload_attr (oh_payload h) then WAttr
      else WOther
  | HCount8 c =>
      if (g =? 50) && (v =? 1) then WAbsTime (single_time c h)
      else if (g =? 50) && (v =? 3) then WLastRec (single_time c h)
      else if (g =? 50) && (v =? 2) then WFt (single_time_interval c h)
      else WOther
  | HCount16 c =>
      if (g =? 50) && (v =? 2) then WFt (single_time_interval c h) else WOther
  | HAll =>
      if (g =? 60) && (v =? 2) then WCls 1
      else if (g =? 60) && (v =? 3) then WCls 2
      else if (g =? 60) && (v =? 4) then WCls 3
      else if (g =? 20) && (v =? 0) then WFrzAll
      else WOther
  | HPrefix8 _ =>
      if (g =? 34) then WDb34
      else if is_control_gv g v then WCtl g v 1 (ctl_items_of h)
      else WOther
  | HPrefix16 _ =>
      if (g =? 34) then WDb34
      else if is_control_gv g v then WCtl g v 2 (ctl_items_of h)
      else WOther
  | HFree _ => WOther
  end.

(* impl From<ObjectParseError> for Iin2 (end of dnp3/src/outstation/session.rs) *)
Definition iin2_of_obj_err (e : aobj_err) : N :=
  match e with
  | OEUnknownGV _ _ => 2          (* OBJECT_UNKNOWN *)
  | OEInvalidQual _ _ _ => 1      (* NO_FUNC_CODE_SUPPORT *)
  | _ => 4                        (* PARAMETER_ERROR *)
  end.

Definition digest_of_parsed (ctl : N) (pf : aparsed_fragment) : digest :=
  DOk ctl (ah_function (pf_header pf))
      (match ato_request (pf_header pf) with None => RvOk | Some _ => RvBad end)
      (match headers_of pf with
       | AErr e => ObjErr (iin2_of_obj_err e)
       | AOk hs => ObjOk (map whdr_of hs) (map hdr_is_read hs)
       end).

Definition frag_digest (bytes : list N) : digest :=
  match parse_fragment full_opts bytes with
  | AErr AHInsufficient => DInsuf
  | AErr (AHUnknownFunction seq code) => DUnknown seq code
  | AOk pf => digest_of_parsed (nth 0 bytes 0) pf
  end.

(* which RequestValidationError: 0 ok, 1 unexpected function, 2 not FIR+FIN, 3 unexpected UNS bit
   (the digest keeps ok / not ok only; the trace line names the error) *)
Definition frag_rv_code (bytes : list N) : N :=
  match parse_fragment full_opts bytes with
  | AOk pf => match ato_request (pf_header pf) with
              | None => 0
              | Some ARUnexpectedFunction => 1
              | Some ARNonFirFin => 2
              | Some ARUnexpectedUns => 3
              end
  | AErr _ => 0
  end.

(* tx_verdict of the harness: does the crate's parser accept a transmitted fragment as a response?
   0 ok, 1 header-error, 2 not-a-response, 3 object-error *)
Definition tx_verdict (bytes : list N) : N :=
  match parse_fragment full_opts bytes with
  | AErr _ => 1
  | AOk pf =>
      match ato_response (pf_header pf) with
      | Some _ => 2
      | None => match pf_objects pf with AErr _ => 3 | AOk _ => 0 end
      end
  end.

(* the object headers of a request whose objects parsed *)
Definition request_headers (bytes : list N) : list aobj_header :=
  match parse_fragment full_opts bytes with
  | AOk pf => match headers_of pf with AOk hs => hs | AErr _ => [] end
  | AErr _ => []
  end.

(* ================================================================================================ *)
(* 2. the database in the loop                                                                       *)

Record fcfg := {
  f_o : ocfg;            (* the session's configuration *)
  f_unsol_tx : N;        (* unsolicited transmit buffer size *)
  f_evbuf : N            (* EventBufferConfig::all_types(evbuf) *)
}.

(* ClassZeroConfig::default(): everything but octet strings *)
Definition class_zero_default (t : ptype) : bool := match t with TOctet => false | _ => true end.

(* DatabaseHandle::new(config.max_read_request_headers = None, ClassZeroConfig::default(), all_types(evbuf)) *)
Definition fdb_new (F : fcfg) : db :=
  let m := f_evbuf F in
  db_new None class_zero_default (mkEbCfg m m m m m m m m).

(* `impl Default for ...Config` of dnp3/src/outstation/database/config.rs; dead-bands 0 / 0.0 *)
Definition default_pconfig (t : ptype) (k : option eclass) : pconfig :=
  match t with
  | TBinary => mkPc k G1V1 G2V1 0
  | TDoubleBit => mkPc k G3V1 G4V1 0
  | TBos => mkPc k G10V1 G11V2 0
  | TCounter => mkPc k G20V1 G22V1 0
  | TFrozen => mkPc k G21V1 G23V1 0
  | TAnalog => mkPc k G30V1 G32V1 0
  | TAos => mkPc k G40V1 G42V1 0
  | TOctet => mkPc k G110 G111 0
  end.

Definition qual_of (d : ahdetails) : option qualifier :=
  match d with
  | HAll => Some QAll
  | HCount8 c | HCount16 c => Some (QCount c)
  | HRange8 a b | HRange16 a b => Some (QRange a b)
  | _ => None
  end.

(* what DatabaseHandle::select does with one header of a READ request *)
Inductive rhsel :=
| RsNot                         (* ReadHeader::get = None: IIN2.NO_FUNC_CODE_SUPPORT *)
| RsModelled (r : read_header)  (* a header of Outstation/Database.v *)
| RsNoop                        (* frozen analog inputs g31 / g33: known to the code, nothing is selected, IIN2 = 0 *)
| RsUnmodelled.                 (* g0 device attributes, g34 dead-bands: not in Database.v *)

Definition rh_classify (h : aobj_header) : rhsel :=
  if negb (hdr_is_read h) then RsNot
  else if (oh_g h =? 31) || (oh_g h =? 33) then RsNoop
  else match qual_of (oh_details h) with
       | Some q => match read_header_of (oh_g h) (oh_v h) q with
                   | Some r => RsModelled r
                   | None => RsUnmodelled
                   end
       | None => RsUnmodelled
       end.

(* DatabaseHandle::select: every header in order, IIN2 results ORed; the flag says that a header
   outside Database.v was met (the composed model then does not cover the script) *)
Fixpoint select_headers (d : db) (hs : list aobj_header) : db * N * bool :=
  match hs with
  | [] => (d, 0, false)
  | h :: r =>
      match rh_classify h with
      | RsNot => let '(d', v, u) := select_headers d r in (d', N.lor iin2_no_func v, u)
      | RsNoop => select_headers d r
      | RsModelled x =>
          let '(d1, v1) := db_select d x in
          let '(d2, v2, u) := select_headers d1 r in (d2, N.lor v1 v2, u)
      | RsUnmodelled => let '(d', v, _) := select_headers d r in (d', v, true)
      end
  end.

(* DeferredRead::set keeps the read headers only, at most max_read_headers_per_request (default 64) of
   them; DeferredRead::select: reset, then select_by_header for each, IIN2 results ORed *)
Definition deferred_capacity : nat := 64.

Definition select_deferred (d : db) (hs : list aobj_header) : db * N * bool :=
  select_headers (db_reset d) (firstn deferred_capacity (filter hdr_is_read hs)).

(* DatabaseHandle::write_unsolicited: reset, select the enabled classes, write events only *)
Definition unsol_answer (F : fcfg) (d : db) (c1 c2 c3 : bool) : db * (N * list N) :=
  let '(d1, n) := db_select_event_classes (db_reset d) c1 c2 c3 in
  if n =? 0 then (d1, (0, []))
  else let '(d2, (bytes, written)) := db_write_events_only d1 (f_unsol_tx F - 4) in (d2, (written, bytes)).

Definition write_answer (F : fcfg) (d : db) : db * answer :=
  let '(d1, (bytes, has_events, complete)) := db_write_response d (N.of_nat (o_sol_tx (f_o F)) - 4) in
  (d1, AWrite complete has_events bytes).

Definition evinfo_answer_of (d : db) : answer :=
  let '(c1, c2, c3) := db_unwritten_classes d in AEvinfo c1 c2 c3 (db_is_overflown d).

(* ---- observations of the composed model --------------------------------------------------------- *)

Inductive fobs :=
| FDigest (d : digest) (rv : N)                 (* `> digest ...` *)
| FUser (added : bool) (ok : bool)              (* `> added n` / `> updated n` *)
| FObs (o : oobs)                               (* what the session does, as in Session.v *)
| FAns (a : answer)                             (* the database's answer to the call just before *)
| FCleared (ids : list N) (c1 c2 c3 : N)        (* clear_written: event_cleared ids, end_confirm counters *)
| FTxParse (v : N)                              (* `> txparse ...` after a transmitted fragment *)
| FUnmodelled                                   (* a READ header outside Database.v was selected *)
| FReplayError.                                 (* the replay did not converge (see `replay`) *)

(* ---- which request a database call belongs to -------------------------------------------------------
   DbSelect is issued by handle_one_request_from_idle for the READ it is processing; that request was
   announced by the `OInfo (IIdleRequest fn seq)` which precedes it in the output.  The fragments
   handle_from_idle can see during one event are, in this order, the fragment held in `s_pending` of the
   state before the event and the event's own fragment (`wc_cands`).  On IIdleRequest fn seq the
   candidates are dropped from the front up to and including the first one whose digest is
   DOk ctl fn _ _ with that function code and ctl mod 16 = seq: it becomes the current request.
   (Fragments that handle_from_idle discards without a callback - foreign master, header errors - are
   dropped on the way.)

   DbDeferredSelect belongs to the READ stored by DeferredRead::set.  That is the event's own fragment
   if it is a READ request with well-formed objects, not a broadcast, accepted by the master filter,
   and has not been announced by an IIdleRequest (then it was not handled from idle, so it was read in
   an unsolicited confirm wait, where such a fragment replaces whatever was stored); otherwise it is
   `s_deferred` of the state before the event. *)

Record wctx := {
  wc_cands : list (list N * digest);
  wc_cur : list N;                    (* bytes of the request being handled from idle *)
  wc_ev_read : option (list N);       (* the event's fragment while it may still become the deferred READ *)
  wc_deferred : list N                (* df_bytes of the state before the event ([] = none) *)
}.

Definition cand_matches (fn seq : N) (c : list N * digest) : bool :=
  match snd c with
  | DOk ctl f _ _ => (f =? fn) && (ctl_seq ctl =? seq)
  | _ => false
  end.

Fixpoint pick_cand (fn seq : N) (l : list (list N * digest)) : option (list N) * list (list N * digest) :=
  match l with
  | [] => (None, [])
  | c :: r => if cand_matches fn seq c then (Some (fst c), r) else pick_cand fn seq r
  end.

Definition bytes_eq_opt (a : option (list N)) (b : list N) : bool :=
  match a with Some x => bytes_eqb x b | None => false end.

Definition announce (c : wctx) (fn seq : N) : wctx :=
  let '(cur, rest) := pick_cand fn seq (wc_cands c) in
  match cur with
  | Some b =>
      {| wc_cands := rest; wc_cur := b;
         wc_ev_read := match rest with [] => None | _ => wc_ev_read c end;   (* the event's fragment is the last candidate *)
         wc_deferred := wc_deferred c |}
  | None => {| wc_cands := rest; wc_cur := []; wc_ev_read := wc_ev_read c; wc_deferred := wc_deferred c |}
  end.

Definition deferred_request (c : wctx) : list N :=
  match wc_ev_read c with Some b => b | None => wc_deferred c end.

Definition event_is_deferrable (cfg : ocfg) (from : N) (bc : option bcast_mode) (d : digest) : bool :=
  match bc, to_treq cfg from d with
  | None, TqRequest _ fn (ObjOk _ _) => fn =? fn_read
  | _, _ => false
  end.

Definition ctx_of (cfg : ocfg) (s : ostate) (ev : oevent) : wctx :=
  let pend := match s_pending s with Some (_, _, b, d, _) => [(b, d)] | None => [] end in
  let dfr := match s_deferred s with Some d => df_bytes d | None => [] end in
  match ev with
  | ERx from bc bytes d =>
      {| wc_cands := pend ++ [(bytes, d)]; wc_cur := [];
         wc_ev_read := if event_is_deferrable cfg from bc d then Some bytes else None;
         wc_deferred := dfr |}
  | _ => {| wc_cands := pend; wc_cur := []; wc_ev_read := None; wc_deferred := dfr |}
  end.

Definition ctx_start : wctx := {| wc_cands := []; wc_cur := []; wc_ev_read := None; wc_deferred := [] |}.

(* ---- one pass over the not yet processed part of a run's output ------------------------------------ *)

(* the log is accumulated in REVERSE order *)
Inductive wres :=
| WDone (d : db) (c : wctx) (log : list fobs)
    (* the end of the output was reached: no question is left *)
| WAsk (d : db) (c : wctx) (log : list fobs) (a : answer) (consumed : nat)
    (* the first question without an answer, the database model's answer to it (d = the database after
       the call) and how many elements of the output are settled now *)
| WBad (log : list fobs).
    (* the output does not have the shape of a run whose known answers were all consumed *)

Definition tx_log (o : oobs) : list fobs :=
  match o with OTx _ bytes => [FTxParse (tx_verdict bytes)] | _ => [] end.

Definition flag_unmodelled (u : bool) : list fobs := if u then [FUnmodelled] else [].

Fixpoint walk (F : fcfg) (d : db) (c : wctx) (n : nat) (log : list fobs) (rest : list oobs) : wres :=
  match rest with
  | [] => WDone d c log
  | o :: tl =>
      match o with
      | OMissingAnswer => WBad log
      | OInfo (IIdleRequest fn seq) => walk F d (announce c fn seq) (S n) (FObs o :: log) tl
      | ODb DbReset => walk F (db_reset d) c (S n) (FObs o :: log) tl
      | ODb DbClearWritten =>
          let '(d1, (ids, cnt)) := db_clear_written d in
          walk F d1 c (S n) (FCleared ids (c_c1 cnt) (c_c2 cnt) (c_c3 cnt) :: FObs o :: log) tl
      | ODb (DbWriteUnsol c1 c2 c3) =>
          (* the probe consumed the sentinel: this is the next question *)
          let '(d1, (cnt, body)) := unsol_answer F d c1 c2 c3 in
          if cnt =? 0
          then WAsk d1 c log (AUnsol 0 []) n             (* a probe that finds nothing leaves no trace *)
          else WAsk d1 c (FAns (AUnsol cnt body) :: FObs o :: log) (AUnsol cnt body) (S n)
      | ODb DbEvinfo =>
          match tl with
          | OMissingAnswer :: _ =>
              let a := evinfo_answer_of d in WAsk d c (FAns a :: FObs o :: log) a (S n)
          | _ => WBad log
          end
      | ODb DbWrite =>
          match tl with
          | OMissingAnswer :: _ =>
              let '(d1, a) := write_answer F d in WAsk d1 c (FAns a :: FObs o :: log) a (S n)
          | _ => WBad log
          end
      | ODb DbSelect =>
          match tl with
          | OMissingAnswer :: _ =>
              let '(d1, v, u) := select_headers d (request_headers (wc_cur c)) in
              WAsk d1 c (flag_unmodelled u ++ FAns (AIin2 v) :: FObs o :: log) (AIin2 v) (S n)
          | _ => WBad log
          end
      | ODb DbDeferredSelect =>
          match tl with
          | OMissingAnswer :: _ =>
              let '(d1, v, u) := select_deferred d (request_headers (deferred_request c)) in
              WAsk d1 c (flag_unmodelled u ++ FAns (AIin2 v) :: FObs o :: log) (AIin2 v) (S n)
          | _ => WBad log
          end
      | _ => walk F d c (S n) (tx_log o ++ FObs o :: log) tl
      end
  end.

(* ---- the replay loop -------------------------------------------------------------------------------
   `run answers` is one deterministic run of the session model (ostep for an event, ostart for the
   start-up).  The answers known so far are followed by a SENTINEL `AUnsol 1 []`: the unsolicited probe
   (`ask_unsol`) is the one question that leaves no mark in the output when it has no answer, so the
   sentinel makes the probe show itself as `ODb (DbWriteUnsol ..)`; any other question finds the
   sentinel unsuitable and reports `OMissingAnswer` as usual.  The first `settled` elements of the
   output were produced from known answers and are skipped. *)

Definition sentinel : answer := AUnsol 1 [].

Definition answer_is_evinfo (a : answer) : bool := match a with AEvinfo _ _ _ _ => true | _ => false end.

Record rstate := {
  rs_answers : list answer;
  rs_db : db;
  rs_ctx : wctx;
  rs_settled : nat;
  rs_log : list fobs;      (* reverse order *)
  rs_snaps : list db       (* ghost: the database state at every DbEvinfo call answered so far, in order *)
}.

Inductive rres :=
| RDone (r : rstate)       (* converged *)
| RFail (r : rstate).      (* out of fuel, or the output lost its shape *)

Fixpoint replay (fuel : nat) (F : fcfg) (run : list answer -> ostate * list oobs) (r : rstate) : rres :=
  match fuel with
  | O => RFail r
  | S f =>
      let out := snd (run (rs_answers r ++ [sentinel])) in
      match walk F (rs_db r) (rs_ctx r) (rs_settled r) (rs_log r) (skipn (rs_settled r) out) with
      | WDone d c log =>
          RDone {| rs_answers := rs_answers r; rs_db := d; rs_ctx := c; rs_settled := length out; rs_log := log;
                   rs_snaps := rs_snaps r |}
      | WAsk d c log a k =>
          replay f F run {| rs_answers := rs_answers r ++ [a]; rs_db := d; rs_ctx := c; rs_settled := k; rs_log := log;
                            rs_snaps := if answer_is_evinfo a then rs_snaps r ++ [d] else rs_snaps r |}
      | WBad log =>
          RFail {| rs_answers := rs_answers r; rs_db := rs_db r; rs_ctx := rs_ctx r; rs_settled := rs_settled r;
                   rs_log := log; rs_snaps := rs_snaps r |}
      end
  end.

Definition replay_fuel : nat := 3000.

Definition is_missing (o : oobs) : bool := match o with OMissingAnswer => true | _ => false end.

(* what one event of the composed model yields *)
Record rout := {
  ro_s : ostate;               (* the session state after the event *)
  ro_db : db;                  (* the database after the event *)
  ro_answers : list answer;    (* the answers the replay computed *)
  ro_out : list oobs;          (* the session's observations (run on ro_answers) *)
  ro_log : list fobs;          (* the same with digest, answers, callbacks of the database interleaved *)
  ro_snaps : list db           (* ghost: the database state at every DbEvinfo call, in order *)
}.

(* the final run, WITHOUT the sentinel, is the step of the composed model; it must not ask anything and
   must be as long as the output the replay settled *)
Definition replay_event (F : fcfg) (d : db) (c : wctx) (run : list answer -> ostate * list oobs) : rout :=
  let r0 := {| rs_answers := []; rs_db := d; rs_ctx := c; rs_settled := 0; rs_log := []; rs_snaps := [] |} in
  match replay replay_fuel F run r0 with
  | RDone r =>
      let '(s1, out) := run (rs_answers r) in
      let ok := forallb (fun o => negb (is_missing o)) out && (length out =? rs_settled r)%nat in
      {| ro_s := s1; ro_db := rs_db r; ro_answers := rs_answers r; ro_out := out;
         ro_log := rev (if ok then rs_log r else FReplayError :: rs_log r); ro_snaps := rs_snaps r |}
  | RFail r =>
      let '(s1, out) := run (rs_answers r) in
      {| ro_s := s1; ro_db := rs_db r; ro_answers := rs_answers r; ro_out := out;
         ro_log := rev (FReplayError :: rs_log r); ro_snaps := rs_snaps r |}
  end.

(* ================================================================================================ *)
(* 3. the script level                                                                               *)

Record fstate := { fs_s : ostate; fs_db : db }.

Inductive fop :=
| FRx (from : N) (bc : option bcast_mode) (bytes : list N)
| FSleep (ms : Z)
| FAdd (t : ptype) (index : N) (k : option eclass)
| FUpdate (t : ptype) (index : N) (v : meas)        (* UpdateOptions::detect_event() *)
| FHandler (sel op : N)
| FAppIin (v : N)
| FDisconnect.

Definition fstart_out (F : fcfg) (sel op appiin : N) : rout :=
  replay_event F (fdb_new F) ctx_start (fun a => ostart (f_o F) sel op appiin a).

Definition fstart (F : fcfg) (sel op appiin : N) : fstate * list fobs :=
  let ro := fstart_out F sel op appiin in
  ({| fs_s := ro_s ro; fs_db := ro_db ro |}, ro_log ro).

(* one session event with the database d (the user's transaction, if any, already applied) *)
Definition fevent_out (F : fcfg) (st : fstate) (d : db) (ev : oevent) : rout :=
  replay_event F d (ctx_of (f_o F) (fs_s st) ev) (fun a => ostep (f_o F) (fs_s st) ev a).

Definition fevent (F : fcfg) (st : fstate) (d : db) (ev : oevent) : fstate * list fobs :=
  let ro := fevent_out F st d ev in
  ({| fs_s := ro_s ro; fs_db := ro_db ro |}, ro_log ro).

Definition fstep (F : fcfg) (st : fstate) (op : fop) : fstate * list fobs :=
  match op with
  | FRx from bc bytes =>
      let dg := frag_digest bytes in
      let '(st1, log) := fevent F st (fs_db st) (ERx from bc bytes dg) in
      (st1, FDigest dg (frag_rv_code bytes) :: log)
  | FSleep ms => fevent F st (fs_db st) (ESleep ms)
  | FAdd t i k =>
      let '(d1, ok) := db_add (fs_db st) t i (default_pconfig t k) in
      let '(st1, log) := fevent F st d1 EDbChange in
      (st1, FUser true ok :: log)
  | FUpdate t i v =>
      let '(d1, info) := db_update (fs_db st) t i v true Detect in
      let '(st1, log) := fevent F st d1 EDbChange in
      (st1, FUser false (match info with UNoPoint => false | _ => true end) :: log)
  | FHandler sel op => fevent F st (fs_db st) (EHandler sel op)
  | FAppIin v => fevent F st (fs_db st) (EAppIin v)
  | FDisconnect => fevent F st (fs_db st) EDisconnect
  end.

(* the whole history: the observations of the start-up, then those of every operation *)
Fixpoint frun_from (F : fcfg) (st : fstate) (ops : list fop) : list (list fobs) :=
  match ops with
  | [] => []
  | op :: rest => let '(st1, log) := fstep F st op in log :: frun_from F st1 rest
  end.

Definition frun (F : fcfg) (sel op appiin : N) (ops : list fop) : list (list fobs) :=
  let '(st0, log0) := fstart F sel op appiin in log0 :: frun_from F st0 ops.

Definition fnow (st : fstate) : Z := s_now (fs_s st).
