(* Outstation/SessionC12Proofs.v — property C12 (outstation replies are well-formed, correlated,
   bounded, and report rejections) and the session half of C07 (foreign masters and broadcasts),
   proved over the session model Outstation/Session.v for all configurations, all reachable
   states, all events and all answers of the environment. *)
From Dnp3V Require Import Outstation.Session Outstation.SessionLemmas_c12.
Import ListNotations.
Open Scope N_scope.

(* ---------- reachable states ---------------------------------------------------------------- *)

(* states reached from start-up by any history whose per-step answers satisfy AP *)
Inductive Reach (AP : list answer -> Prop) (cfg : ocfg) : ostate -> Prop :=
| Reach_start : forall sel op iin a0, AP a0 -> Reach AP cfg (fst (ostart cfg sel op iin a0))
| Reach_step : forall s ev ans, Reach AP cfg s -> AP ans -> Reach AP cfg (fst (ostep cfg s ev ans)).

Definition any_answers (_ : list answer) : Prop := True.

Lemma Reach_weaken (AP : list answer -> Prop) cfg s : Reach AP cfg s -> Reach any_answers cfg s.
Proof. induction 1; constructor; auto; exact I. Qed.

(* ---------- 1/6. shape and size of everything transmitted ---------------------------------- *)

Section Sized.
  Variable cfg : ocfg.
  Variable szok : nat -> Prop.
  Hypothesis szok_small : forall n, (n <= 10)%nat -> szok n.
  Hypothesis szok_tx : forall n, (n <= o_sol_tx cfg)%nat -> szok n.

  Definition aok (a : answer) : Prop :=
    match a with AWrite _ _ b => szok (4 + length b)%nat | _ => True end.
  Definition ans_ok (s : ostate) : Prop := Forall aok (s_answers s).

  Definition sol_resp (r : response) : Prop :=
    r_fn r = fn_response /\ ctl_uns (r_ctl r) = false /\ szok (r_size r).
  Definition unsol_resp (r : response) : Prop :=
    r_fn r = fn_unsol_response /\ exists q, r_ctl r = ctl_byte true true true true q.

  Definition tx_ok (dest : N) (b : list N) : Prop :=
    exists r buf, b = response_bytes r buf /\ (sol_resp r \/ (unsol_resp r /\ dest = o_master cfg)).
  Definition obs_ok (o : oobs) : Prop := match o with OTx d b => tx_ok d b | _ => True end.

  Definition Inv (s : ostate) : Prop :=
    (forall l r, s_last s = Some l -> lr_response l = Some r -> sol_resp r) /\
    match s_control s with CUnsolWait resp _ _ _ => unsol_resp resp | _ => True end.

  (* invariant plus the condition on the answers not yet consumed in the current step *)
  Definition IA (s : ostate) : Prop := Inv s /\ ans_ok s.

  Lemma ans_ok_suffix s s' : ans_suffix s s' -> ans_ok s -> ans_ok s'.
  Proof.
    unfold ans_ok. intros [pre H] Hok. rewrite H in Hok. apply Forall_app in Hok. tauto.
  Qed.

  Lemma ans_ok_in s c e b : ans_ok s -> In (AWrite c e b) (s_answers s) \/ b = [] -> szok (4 + length b)%nat.
  Proof.
    intros Hok [Hin|Hb].
    - unfold ans_ok in Hok. rewrite Forall_forall in Hok. apply (Hok _ Hin).
    - subst b. apply szok_small. cbn. lia.
  Qed.

  Lemma no_tx_obs_ok o : Forall no_tx o -> Forall obs_ok o.
  Proof. apply Forall_impl. intros [] H; try exact I. destruct H. Qed.

  Lemma Inv_sc s s' : same_core s s' -> Inv s -> Inv s'.
  Proof. intros (_ & Hc & Hl & _) [I1 I2]. unfold Inv. rewrite Hc, Hl. split; assumption. Qed.

  Lemma IA_sc s s' : same_core s s' -> IA s -> IA s'.
  Proof. intros H [I1 I2]. split; [eapply Inv_sc; eassumption|]. eapply ans_ok_suffix; [apply sc_ans; exact H|exact I2]. Qed.

  Lemma sol_sent r r' : sent_of r r' -> sol_resp r -> sol_resp r'.
  Proof.
    intros Hs (A & B & C). pose proof (sent_of_uns _ _ Hs) as Hu. destruct Hs as (S1 & S2 & _).
    unfold sol_resp. rewrite S1, S2, Hu. auto.
  Qed.

  Lemma sol_fresh seq r : fresh_resp seq r -> szok (r_size r) -> sol_resp r.
  Proof. intros [A B] C. unfold sol_resp. rewrite A, ctl_byte_uns. auto. Qed.

  Lemma sol_empty seq v : sol_resp (empty_solicited seq v).
  Proof. apply sol_fresh with seq; [apply fresh_empty|]. apply szok_small. cbn. lia. Qed.

  Lemma sol_non_read s fn seq fid bytes hdrs s1 r o :
    handle_non_read cfg s fn seq fid bytes hdrs = (s1, Some r, o) -> sol_resp r.
  Proof.
    intros H. pose proof (handle_non_read_size _ _ _ _ _ _ _ _ _ _ H) as Hs.
    apply handle_non_read_spec in H. destruct H as (_ & _ & H). apply sol_fresh with seq; [apply H; reflexivity|].
    destruct Hs; auto.
  Qed.

  (* the request handlers transmit solicited responses only *)
  Definition sobs_ok (o : oobs) : Prop :=
    match o with OTx d b => exists r buf, b = response_bytes r buf /\ sol_resp r | _ => True end.

  Lemma sobs_obs o : Forall sobs_ok o -> Forall obs_ok o.
  Proof. apply Forall_impl. intros [] H; try exact I. destruct H as (r & buf & H1 & H2). exists r, buf. auto. Qed.

  Lemma no_tx_sobs_ok o : Forall no_tx o -> Forall sobs_ok o.
  Proof. apply Forall_impl. intros [] H; try exact I. destruct H. Qed.

  Lemma tx_sol_ok dest r buf : sol_resp r -> sobs_ok (OTx dest (response_bytes r buf)).
  Proof. intros H. exists r, buf. auto. Qed.

  Lemma one_tx_ok pre dest r buf post :
    Forall no_tx pre -> Forall no_tx post -> sol_resp r ->
    Forall sobs_ok (pre ++ OTx dest (response_bytes r buf) :: post).
  Proof.
    intros H1 H2 H3. apply Forall_app. split; [apply no_tx_sobs_ok; exact H1|].
    constructor; [apply tx_sol_ok; exact H3 | apply no_tx_sobs_ok; exact H2].
  Qed.

  (* the write-the-response tail of handle_one_request_from_idle *)
  Lemma hfi_finish_IA from seq bytes fn s1 resp se rep o1 s' o :
    IA s1 -> Forall no_tx o1 -> (forall r, resp = Some r -> sol_resp r) ->
    hfi_finish cfg from seq bytes fn s1 resp se rep o1 = (s', o) ->
    IA s' /\ Forall sobs_ok o.
  Proof.
    intros [[I1 I2] I3] Ho1 Hr H. destruct resp as [r|].
    - apply hfi_finish_some in H.
      destruct H as (s2 & r' & pre & post & H1 & H2 & H3 & H4 & H5 & se' & H6 & H7 & H8).
      assert (Hr' : sol_resp r').
      { destruct rep; [subst r'; auto|]. eapply sol_sent; [exact H2|auto]. }
      split; [split; [split|]|].
      + intros l r0 Hl Hr0. rewrite H6 in Hl. inversion Hl; subst. cbn in Hr0. inversion Hr0; subst. exact Hr'.
      + destruct H8 as [H8|[x H8]]; rewrite H8; [exact I2|exact I].
      + eapply ans_ok_suffix; [|exact I3]. eapply ans_suffix_trans; [apply sc_ans; exact H1|apply sa_ans; exact H7].
      + subst o. constructor; [exact I|]. apply Forall_app. split; [apply no_tx_sobs_ok; exact Ho1|].
        apply one_tx_ok; assumption.
    - rewrite hfi_finish_none in H. inversion H; subst. split; [split; [split|]|].
      + cbn. intros l r0 Hl Hr0. inversion Hl; subst. discriminate.
      + exact I2.
      + exact I3.
      + constructor; [exact I|]. apply no_tx_sobs_ok; exact Ho1.
  Qed.

  Lemma write_error_response_IA s from bc sq s1 o :
    IA s -> write_error_response s from bc sq = (s1, o) -> IA s1 /\ Forall sobs_ok o.
  Proof.
    intros HI H. apply write_error_response_spec in H. destruct H as [H1 H2].
    split; [eapply IA_sc; eassumption|].
    destruct bc as [m|]; [subst o; constructor|]. destruct sq as [q|]; [|subst o; constructor].
    destruct H2 as (r' & pre & S1 & S2 & S3). subst o.
    apply one_tx_ok; [exact S3|constructor|]. eapply sol_sent; [exact S1|apply sol_empty].
  Qed.

  Lemma read_resp_sol s r seq :
    ans_ok s -> r_fn r = fn_response ->
    (exists fir fin con, r_ctl r = ctl_byte fir fin con false seq) ->
    (exists c e b, (r_size r = 4 + length b)%nat /\ (In (AWrite c e b) (s_answers s) \/ b = [])) ->
    sol_resp r.
  Proof.
    intros Hok Hf (fir & fin & con & Hc) (c & e & b & Hs & Hin). unfold sol_resp.
    rewrite Hf, Hc, ctl_byte_uns, Hs. split; [reflexivity|]. split; [reflexivity|]. eapply ans_ok_in; eassumption.
  Qed.

  Lemma handle_from_idle_IA s from bc bytes d fid s' o :
    IA s -> handle_from_idle cfg s from bc bytes d fid = (s', o) -> IA s' /\ Forall sobs_ok o.
  Proof.
    intros HI. rewrite handle_from_idle_eq. destruct (to_treq cfg from d) as [|sq|ctl fn obj].
    - intros H; inversion H; subst. split; [exact HI|constructor].
    - apply write_error_response_IA; exact HI.
    - cbv zeta. destruct (classify s bc bytes ctl fn obj) as [iin2|hdrs rh|resp hdrs rh|hdrs|last|m|q|q] eqn:Ecl.
      + apply hfi_finish_IA; [exact HI|constructor|]. intros r Hr; inversion Hr; subst. apply sol_empty.
      + destruct (format_first_read_response s (ctl_seq ctl)) as [[[s1 r] se] o1] eqn:E.
        apply format_first_read_response_spec in E. destruct E as (E1 & E2 & E3 & (fin & con & E4 & _) & E5).
        apply hfi_finish_IA; [eapply IA_sc; eassumption|exact E2|]. intros r0 Hr; inversion Hr; subst.
        eapply read_resp_sol; [exact (proj2 HI)|exact E3|eauto|exact E5].
      + destruct (format_first_read_response s (ctl_seq ctl)) as [[[s1 r] se] o1] eqn:E.
        apply format_first_read_response_spec in E. destruct E as (E1 & E2 & E3 & (fin & con & E4 & _) & E5).
        apply hfi_finish_IA; [eapply IA_sc; eassumption|exact E2|]. intros r0 Hr; inversion Hr; subst.
        eapply read_resp_sol; [exact (proj2 HI)|exact E3|eauto|exact E5].
      + destruct (handle_non_read cfg s fn (ctl_seq ctl) fid bytes hdrs) as [[s1 r] o1] eqn:E.
        pose proof (handle_non_read_spec _ _ _ _ _ _ _ _ _ _ E) as (E1 & E2 & _).
        apply hfi_finish_IA; [eapply IA_sc; eassumption|exact E2|]. intros r0 Hr; subst r.
        eapply sol_non_read; exact E.
      + match goal with |- hfi_finish _ _ _ _ _ ?s1 _ _ _ _ = _ -> _ => set (s1' := s1) end.
        assert (S1 : same_core s s1').
        { subst s1'. destruct (s_select s) as [sel|]; [|apply sc_refl].
          destruct ((ss_frame_id sel + 1) mod 4294967296 =? fid); eauto with sc. }
        apply hfi_finish_IA; [eapply IA_sc; eassumption|constructor|]. intros r0 Hr; subst last.
        (* the repeated response is the recorded one *)
        unfold classify in Ecl. destruct bc as [m|]; [discriminate|].
        destruct (fn =? fn_confirm); [destruct (ctl_uns ctl); discriminate|].
        destruct obj as [e|hdrs rh]; [discriminate|].
        destruct (s_last s) as [l|] eqn:El.
        * destruct ((lr_seq l =? ctl_seq ctl) && bytes_eqb (lr_bytes l) bytes);
            destruct (fn =? fn_read); inversion Ecl as [Hl]. apply (proj1 (proj1 HI) l r0 El Hl).
        * destruct (fn =? fn_read); discriminate.
      + destruct (process_broadcast cfg s m fid ctl fn bytes obj) as [s1 o1] eqn:E.
        apply process_broadcast_spec in E. destruct E as [E1 E2].
        intros H; inversion H; subst. split; [eapply IA_sc; eassumption|].
        constructor; [exact I|]. apply no_tx_sobs_ok; exact E2.
      + intros H; inversion H; subst. split; [exact HI|]. repeat constructor.
      + intros H; inversion H; subst. split; [exact HI|]. repeat constructor.
  Qed.

  Lemma IA_upd_deferred s x : IA s -> IA (upd_deferred s x).
  Proof. intros H. exact H. Qed.
  Lemma IA_upd_last_bcast s x : IA s -> IA (upd_last_bcast s x).
  Proof. intros H. exact H. Qed.
  Lemma IA_upd_pending s x : IA s -> IA (upd_pending s x).
  Proof. intros H. exact H. Qed.
  Lemma IA_upd_notify s x : IA s -> IA (upd_notify s x).
  Proof. intros H. exact H. Qed.
  Lemma IA_upd_now s x : IA s -> IA (upd_now s x).
  Proof. intros H. exact H. Qed.
  Lemma IA_upd_frame_id s x : IA s -> IA (upd_frame_id s x).
  Proof. intros H. exact H. Qed.
  Lemma IA_upd_unsol s x : IA s -> IA (upd_unsol s x).
  Proof. intros H. exact H. Qed.
  Lemma IA_upd_unsol_seq s x : IA s -> IA (upd_unsol_seq s x).
  Proof. intros H. exact H. Qed.
  Lemma IA_upd_unsol_buf s x : IA s -> IA (upd_unsol_buf s x).
  Proof. intros H. exact H. Qed.
  Lemma IA_upd_knobs s a b c : IA s -> IA (upd_knobs s a b c).
  Proof. intros H. exact H. Qed.

  Lemma IA_upd_control_wait s x dl r : IA s -> IA (upd_control s (CSolWait x dl r)).
  Proof. intros [[I1 I2] I3]. split; [split|]; [exact I1|exact I|exact I3]. Qed.
  Lemma IA_upd_control_idle s : IA s -> IA (upd_control s CIdle).
  Proof. intros [[I1 I2] I3]. split; [split|]; [exact I1|exact I|exact I3]. Qed.
  Lemma IA_upd_control_unsol s r n k dl : IA s -> unsol_resp r -> IA (upd_control s (CUnsolWait r n k dl)).
  Proof. intros [[I1 I2] I3] Hr. split; [split|]; [exact I1|exact Hr|exact I3]. Qed.

  Lemma IA_upd_last s seq bytes r se :
    IA s -> (forall r0, r = Some r0 -> sol_resp r0) -> IA (upd_last s (mk_last seq bytes r se)).
  Proof.
    intros [[I1 I2] I3] Hr. split; [split|]; [|exact I2|exact I3].
    cbn. intros l r0 Hl Hr0. inversion Hl; subst. cbn in Hr0. auto.
  Qed.

  Lemma write_solicited_IA s dest r s1 r1 o :
    IA s -> sol_resp r -> write_solicited s dest r = (s1, r1, o) -> IA s1 /\ sol_resp r1 /\ Forall sobs_ok o.
  Proof.
    intros HI Hr H. apply write_solicited_spec in H. destruct H as (E1 & (pre & E2 & E3) & E4 & E5 & E6 & E7).
    assert (Hr1 : sol_resp r1) by (eapply sol_sent; [exact (conj E4 (conj E5 (conj E6 E7)))|exact Hr]).
    split; [eapply IA_sc; eassumption|]. split; [exact Hr1|]. subst o.
    apply one_tx_ok; [exact E3|constructor|exact Hr1].
  Qed.

  Lemma classify_repeat_last s bc bytes ctl fn obj last r :
    classify s bc bytes ctl fn obj = FtRepeatNonRead last -> last = Some r ->
    exists l, s_last s = Some l /\ lr_response l = Some r.
  Proof.
    unfold classify. intros Ecl Hl. subst last. destruct bc as [m|]; [discriminate|].
    destruct (fn =? fn_confirm); [destruct (ctl_uns ctl); discriminate|].
    destruct obj as [e|hdrs rh]; [discriminate|].
    destruct (s_last s) as [l|] eqn:El.
    - destruct ((lr_seq l =? ctl_seq ctl) && bytes_eqb (lr_bytes l) bytes);
        destruct (fn =? fn_read); inversion Ecl as [Hl]. eauto.
    - destruct (fn =? fn_read); discriminate.
  Qed.

  Lemma classify_repeat_read_last s bc bytes ctl fn obj last hdrs rh r :
    classify s bc bytes ctl fn obj = FtRepeatRead last hdrs rh -> last = Some r ->
    exists l, s_last s = Some l /\ lr_response l = Some r.
  Proof.
    unfold classify. intros Ecl Hl. subst last. destruct bc as [m|]; [discriminate|].
    destruct (fn =? fn_confirm); [destruct (ctl_uns ctl); discriminate|].
    destruct obj as [e|hdrs' rh']; [discriminate|].
    destruct (s_last s) as [l|] eqn:El.
    - destruct ((lr_seq l =? ctl_seq ctl) && bytes_eqb (lr_bytes l) bytes);
        destruct (fn =? fn_read); inversion Ecl as [Hl]. eauto.
    - destruct (fn =? fn_read); discriminate.
  Qed.

  Lemma unsol_wait_fragment_IA s resp from bc bytes d fid s' res o :
    IA s -> unsol_wait_fragment cfg s resp from bc bytes d fid = (s', res, o) -> IA s' /\ Forall sobs_ok o.
  Proof.
    intros HI. unfold unsol_wait_fragment. destruct (to_treq cfg from d) as [|sq|ctl fn obj].
    - intros H; inversion H; subst. split; [exact HI|constructor].
    - destruct (write_error_response (upd_deferred s None) from bc sq) as [s1 o1] eqn:E.
      apply write_error_response_IA in E; [|exact HI]. intros H; inversion H; subst. exact E.
    - destruct (classify s bc bytes ctl fn obj) as [iin2|hdrs rh|rsp hdrs rh|hdrs|last|m|q|q] eqn:Ecl.
      + destruct (write_solicited (upd_deferred s None) from (empty_solicited (ctl_seq ctl) iin2)) as [[s1 r1] o1] eqn:E.
        apply write_solicited_IA in E; [|exact HI|apply sol_empty]. intros H; inversion H; subst. tauto.
      + intros H; inversion H; subst. split; [exact HI|constructor].
      + intros H; inversion H; subst. split; [exact HI|constructor].
      + destruct (handle_non_read cfg (upd_deferred s None) fn (ctl_seq ctl) fid bytes hdrs) as [[s1 r] o1] eqn:E.
        pose proof (handle_non_read_spec _ _ _ _ _ _ _ _ _ _ E) as (E1 & E2 & _).
        assert (HI1 : IA s1) by (eapply IA_sc; [exact E1|exact HI]).
        destruct r as [r0|].
        * apply sol_non_read in E.
          destruct (write_solicited s1 from r0) as [[s2 r1] o2] eqn:E3.
          apply write_solicited_IA in E3; [|exact HI1|exact E]. destruct E3 as (F1 & F2 & F3).
          intros H; inversion H; subst. split.
          -- apply IA_upd_last; [exact F1|]. intros r2 Hr2; inversion Hr2; subst; exact F2.
          -- apply Forall_app. split; [apply no_tx_sobs_ok; exact E2|exact F3].
        * intros H; inversion H; subst. split.
          -- apply IA_upd_last; [exact HI1|]. discriminate.
          -- apply Forall_app. split; [apply no_tx_sobs_ok; exact E2|constructor].
      + intros H; inversion H; subst. split; [exact HI|].
        destruct last as [r|]; [|constructor].
        destruct (classify_repeat_last _ _ _ _ _ _ _ _ Ecl eq_refl) as (l & Hl1 & Hl2).
        constructor; [|constructor]. apply tx_sol_ok. exact (proj1 (proj1 HI) l r Hl1 Hl2).
      + destruct (process_broadcast cfg (upd_deferred s None) m fid ctl fn bytes obj) as [s1 o1] eqn:E.
        apply process_broadcast_spec in E. destruct E as [E1 E2].
        intros H; inversion H; subst. split; [eapply IA_sc; [exact E1|exact HI]|apply no_tx_sobs_ok; exact E2].
      + intros H; inversion H; subst. split; [|constructor].
        eapply IA_sc; [apply sc_bcast_confirmed|exact HI].
      + destruct (q =? ctl_seq (r_ctl resp)); intros H; inversion H; subst.
        * split; [eapply IA_sc; [apply sc_bcast_confirmed|exact HI]|repeat constructor].
        * split; [exact HI|constructor].
  Qed.

  Lemma unsol_header_resp seq n : unsol_resp (unsol_header seq n).
  Proof. split; [reflexivity|]. exists seq. reflexivity. Qed.

  Lemma start_unsol_IA s r is_null s' o :
    IA s -> unsol_resp r -> start_unsol cfg s r is_null = (s', o) -> IA s' /\ Forall obs_ok o.
  Proof.
    intros HI Hr H. apply start_unsol_spec in H.
    destruct H as (s1 & r1 & pre & E1 & E2 & E3 & E4 & E5 & E6 & E7).
    assert (Hr1 : unsol_resp r1).
    { destruct Hr as [A [q B]]. split; [congruence|]. exists q. congruence. }
    subst s' o. split.
    - apply IA_upd_control_unsol; [eapply IA_sc; eassumption|exact Hr1].
    - apply Forall_app. split; [apply no_tx_obs_ok; exact E7|].
      constructor; [|repeat constructor]. exists r1, (s_unsol_buf s1). auto.
  Qed.

  Lemma check_unsolicited_IA s s' ns o :
    IA s -> check_unsolicited cfg s = (s', ns, o) -> IA s' /\ Forall obs_ok o.
  Proof.
    intros HI. unfold check_unsolicited. destruct (negb (o_unsol cfg)).
    { intros H; inversion H; subst. split; [exact HI|constructor]. }
    destruct (s_unsol s) as [|deadline].
    { destruct (start_unsol cfg (upd_unsol_seq s (seq16_next (s_unsol_seq s))) (unsol_header (s_unsol_seq s) 0) true) as [s2 o2] eqn:E.
      apply start_unsol_IA in E; [|exact HI|apply unsol_header_resp]. intros H; inversion H; subst. exact E. }
    destruct (negb match deadline with Some t => (t <=? s_now s)%Z | None => true end).
    { intros H; inversion H; subst. split; [exact HI|constructor]. }
    destruct (negb (any_enabled s)).
    { intros H; inversion H; subst. split; [exact HI|constructor]. }
    destruct (ask_unsol s) as [s1 [count body]] eqn:E0. apply ask_unsol_spec in E0.
    assert (HI1 : IA s1) by (eapply IA_sc; eassumption).
    destruct (s_enabled s) as [[c1 c2] c3].
    destruct (count =? 0).
    { intros H; inversion H; subst. split; [exact HI1|constructor]. }
    match goal with |- context [start_unsol cfg ?a ?b ?c] => destruct (start_unsol cfg a b c) as [s3 o3] eqn:E end.
    apply start_unsol_IA in E; [|exact HI1|apply unsol_header_resp].
    intros H; inversion H; subst. split; [tauto|]. constructor; [exact I|tauto].
  Qed.

  Lemma end_unsol_IA s is_null res s' ns o :
    IA s -> end_unsol cfg s is_null res = (s', ns, o) -> IA s' /\ Forall obs_ok o.
  Proof.
    intros HI. unfold end_unsol.
    destruct is_null, res; intros H; inversion H; subst;
      (split; [apply IA_upd_unsol, IA_upd_control_idle, HI|repeat constructor]).
  Qed.

  Lemma handle_deferred_IA s ns s' o :
    IA s -> handle_deferred cfg s ns = (s', o) -> IA s' /\ Forall sobs_ok o.
  Proof.
    intros HI H. destruct (s_deferred s) as [d|] eqn:Ed.
    - unfold handle_deferred in H. rewrite Ed in H.
      destruct (ask_iin2 (upd_notify (upd_deferred s None) true) DbDeferredSelect) as [[s1 iin2] o1] eqn:E1.
      apply ask_iin2_spec in E1. destruct E1 as [A1 A2].
      assert (HI1 : IA s1) by (eapply IA_sc; [exact A1|exact HI]).
      destruct (format_read_response s1 true (df_seq d) (N.lor (df_iin2 d) iin2)) as [[[s2 r] se] o2] eqn:E2.
      apply format_read_response_spec in E2.
      destruct E2 as (B1 & B2 & B3 & _ & (fin & con & B4 & _) & (c & e & b & B5 & B6)).
      assert (HI2 : IA s2) by (eapply IA_sc; eassumption).
      assert (Hr : sol_resp r).
      { eapply read_resp_sol; [exact (proj2 HI1)|exact B3|eauto|].
        exists c, e, b. split; [exact B5|]. destruct B6 as [[rest B6]|B6]; [left; rewrite B6; left; reflexivity|right; exact B6]. }
      destruct (write_solicited s2 (df_from d) r) as [[s3 r'] o3] eqn:E3.
      apply write_solicited_IA in E3; [|exact HI2|exact Hr]. destruct E3 as (F1 & F2 & F3).
      assert (HI4 : IA (upd_last s3 (mk_last (df_seq d) (df_bytes d) (Some r') se))).
      { apply IA_upd_last; [exact F1|]. intros r0 Hr0; inversion Hr0; subst; exact F2. }
      assert (Ho : Forall sobs_ok (o1 ++ o2 ++ o3)).
      { apply Forall_app. split; [apply no_tx_sobs_ok; exact A2|]. apply Forall_app. split; [apply no_tx_sobs_ok; exact B2|exact F3]. }
      match type of H with (match ?x with Some _ => _ | None => _ end) = _ => destruct x as [x0|] end;
        inversion H; subst.
      + split; [apply IA_upd_control_wait; exact HI4|].
        rewrite !app_assoc. apply Forall_app. split; [rewrite <- !app_assoc; exact Ho|repeat constructor].
      + split; [exact HI4|exact Ho].
    - rewrite handle_deferred_none in H by exact Ed. inversion H; subst. split; [exact HI|constructor].
  Qed.

  Lemma idle_run_IA fuel : forall st s s' o,
    IA s -> idle_run fuel cfg st s = (s', o) -> IA s' /\ Forall obs_ok o.
  Proof.
    induction fuel as [|f IH]; intros st s s' o HI H; cbn [idle_run] in H.
    { inversion H; subst. split; [exact HI|repeat constructor]. }
    destruct st as [| |ns|ns].
    - (* St1 *)
      destruct (match s_pending s with
                | Some (from, bc, bytes, d, fid) => handle_from_idle cfg (upd_pending s None) from bc bytes d fid
                | None => (s, [])
                end) as [s1 o1] eqn:E1.
      assert (H1 : IA s1 /\ Forall obs_ok o1).
      { destruct (s_pending s) as [[[[[from bc] bytes] d] fid]|].
        - destruct (handle_from_idle_IA (upd_pending s None) _ _ _ _ _ _ _ HI E1) as [A B]. split; [exact A|apply sobs_obs; exact B].
        - inversion E1; subst. split; [exact HI|constructor]. }
      destruct H1 as [HI1 Ho1].
      destruct (s_control s1); [|inversion H; subst; split; assumption..].
      destruct (idle_run f cfg St2 s1) as [s2 o2] eqn:E2. apply IH in E2; [|exact HI1].
      inversion H; subst. split; [tauto|apply Forall_app; tauto].
    - (* St2 *)
      destruct (check_unsolicited cfg s) as [[s2 ns] o2] eqn:E2.
      apply check_unsolicited_IA in E2; [|exact HI]. destruct E2 as [HI2 Ho2].
      destruct (s_control s2) as [|se dl r|resp is_null retries dl] eqn:Ec.
      + destruct (idle_run f cfg (St3 false) s2) as [s3 o3] eqn:E3. apply IH in E3; [|exact HI2].
        inversion H; subst. split; [tauto|apply Forall_app; tauto].
      + inversion H; subst. split; assumption.
      + destruct (s_pending s2) as [[[[[from bc] bytes] d] fid]|]; [|inversion H; subst; split; assumption].
        destruct (unsol_wait_fragment cfg (upd_pending s2 None) resp from bc bytes d fid) as [[s3 res] o3] eqn:E3.
        apply unsol_wait_fragment_IA in E3; [|exact HI2]. destruct E3 as [HI3 Ho3]. apply sobs_obs in Ho3.
        destruct res as [r|]; [|inversion H; subst; split; [assumption|apply Forall_app; tauto]].
        destruct (end_unsol cfg s3 is_null r) as [[s4 ns4] o4] eqn:E4.
        apply end_unsol_IA in E4; [|exact HI3]. destruct E4 as [HI4 Ho4].
        destruct (idle_run f cfg (St3 ns4) s4) as [s5 o5] eqn:E5. apply IH in E5; [|exact HI4].
        inversion H; subst. split; [tauto|]. repeat (apply Forall_app; split); tauto.
    - (* St3 *)
      destruct (handle_deferred cfg s ns) as [s3 o3] eqn:E3.
      apply handle_deferred_IA in E3; [|exact HI]. destruct E3 as [HI3 Ho3]. apply sobs_obs in Ho3.
      destruct (s_control s3); [|inversion H; subst; split; assumption..].
      destruct (idle_run f cfg (St4 ns) s3) as [s4 o4] eqn:E4. apply IH in E4; [|exact HI3].
      inversion H; subst. split; [tauto|apply Forall_app; tauto].
    - (* St4 *)
      destruct (s_pending s); [eapply IH; eassumption|].
      destruct ns; [eapply IH; eassumption|].
      destruct (s_notify s); [eapply IH; [|exact H]; exact HI|].
      inversion H; subst. split; [exact HI|constructor].
  Qed.

  Lemma resume_at_IA st s s' o : IA s -> resume_at cfg st s = (s', o) -> IA s' /\ Forall obs_ok o.
  Proof. unfold resume_at. apply idle_run_IA. Qed.

  Lemma idle_loop_IA n s s' o : IA s -> idle_loop n cfg s = (s', o) -> IA s' /\ Forall obs_ok o.
  Proof. unfold idle_loop. apply idle_run_IA. Qed.

  Lemma fire_deadline_IA s s' o : IA s -> fire_deadline cfg s = (s', o) -> IA s' /\ Forall obs_ok o.
  Proof.
    intros HI. unfold fire_deadline. destruct (s_control s) as [|se dl r|resp is_null retries dl] eqn:Ec.
    - apply resume_at_IA; exact HI.
    - destruct (resume_at cfg (stage_of r) (upd_control s CIdle)) as [s1 o1] eqn:E.
      apply resume_at_IA in E; [|apply IA_upd_control_idle; exact HI].
      intros H; inversion H; subst. split; [tauto|]. cbn [app]. constructor; [exact I|]. constructor; [exact I|]. tauto.
    - assert (Hresp : unsol_resp resp). { destruct HI as [[_ I2] _]. rewrite Ec in I2. exact I2. }
      match goal with |- (if ?c then _ else _) = _ -> _ => destruct c end.
      + intros H; inversion H; subst. split; [apply IA_upd_control_unsol; assumption|].
        cbn [app]. constructor; [exact I|]. unfold repeat_unsolicited. constructor; [|constructor].
        exists resp, (s_unsol_buf s). auto.
      + destruct (end_unsol cfg s is_null UrTimeout) as [[s1 ns] o1] eqn:E1.
        apply end_unsol_IA in E1; [|exact HI]. destruct E1 as [HI1 Ho1].
        destruct (resume_at cfg (St3 ns) s1) as [s2 o2] eqn:E2. apply resume_at_IA in E2; [|exact HI1].
        intros H; inversion H; subst. split; [tauto|]. cbn [app]. constructor; [exact I|].
        apply Forall_app. tauto.
  Qed.

  Lemma advance_IA fuel : forall s target s' o,
    IA s -> advance fuel cfg s target = (s', o) -> IA s' /\ Forall obs_ok o.
  Proof.
    induction fuel as [|f IH]; intros s target s' o HI H; cbn [advance] in H.
    { inversion H; subst. split; [exact HI|repeat constructor]. }
    destruct (next_deadline cfg s) as [d|]; [|inversion H; subst; split; [exact HI|constructor]].
    destruct (d <=? target)%Z; [|inversion H; subst; split; [exact HI|constructor]].
    destruct (fire_deadline cfg (upd_now s (Z.max d (s_now s)))) as [s1 o1] eqn:E1.
    apply fire_deadline_IA in E1; [|exact HI]. destruct E1 as [HI1 Ho1].
    destruct (advance f cfg s1 target) as [s2 o2] eqn:E2. apply IH in E2; [|exact HI1].
    inversion H; subst. split; [tauto|]. constructor; [exact I|]. apply Forall_app. tauto.
  Qed.

  Lemma sol_wait_fragment_ok s se dl from bc bytes d oc o :
    IA s -> sol_wait_fragment cfg s se dl from bc bytes d = (oc, o) -> Forall sobs_ok o.
  Proof.
    intros HI. unfold sol_wait_fragment. destruct (to_treq cfg from d) as [|sq|ctl fn obj].
    - intros H; inversion H; subst. constructor.
    - intros H; inversion H; subst. repeat constructor.
    - destruct (classify s bc bytes ctl fn obj) as [iin2|hdrs rh|rsp hdrs rh|hdrs|last|m|q|q] eqn:Ecl;
        try (intros H; inversion H; subst; repeat constructor; fail).
      + intros H; inversion H; subst. destruct rsp as [r|]; [|constructor].
        destruct (classify_repeat_read_last _ _ _ _ _ _ _ _ _ _ Ecl eq_refl) as (l & Hl1 & Hl2).
        constructor; [|constructor]. apply tx_sol_ok. exact (proj1 (proj1 HI) l r Hl1 Hl2).
      + destruct (q =? se_ecsn se); intros H; inversion H; subst; repeat constructor.
  Qed.

  Lemma on_rx_IA s from bc bytes d s' o : IA s -> on_rx cfg s from bc bytes d = (s', o) -> IA s' /\ Forall obs_ok o.
  Proof.
    intros HI. unfold on_rx.
    set (fid := (s_frame_id s + 1) mod 4294967296).
    assert (HI0 : IA (upd_frame_id s fid)) by exact HI.
    destruct (s_control (upd_frame_id s fid)) as [|se dl r|resp is_null retries dl] eqn:Ec.
    - apply idle_loop_IA. exact HI0.
    - destruct (sol_wait_fragment cfg (upd_frame_id s fid) se dl from bc bytes d) as [oc o1] eqn:E1.
      pose proof (sol_wait_fragment_ok _ _ _ _ _ _ _ _ _ HI0 E1) as Ho1. apply sobs_obs in Ho1.
      destruct oc as [dl'|respond_to|].
      + intros H; inversion H; subst. split; [apply IA_upd_control_wait; exact HI0|exact Ho1].
      + destruct (se_fin se).
        * match goal with |- context [resume_at cfg ?a ?b] => destruct (resume_at cfg a b) as [s2 o2] eqn:E2 end.
          apply resume_at_IA in E2; [|apply IA_upd_control_idle; exact HI0].
          intros H; inversion H; subst. split; [tauto|]. apply Forall_app. split; [exact Ho1|].
          constructor; [exact I|tauto].
        * match goal with |- context [format_read_response ?a ?b ?c ?e] =>
            destruct (format_read_response a b c e) as [[[s2 rsp] next] o2] eqn:E2 end.
          apply format_read_response_spec in E2.
          destruct E2 as (B1 & B2 & B3 & _ & (fin & con & B4 & _) & (c & e & b & B5 & B6)).
          assert (HI2 : IA s2) by (eapply IA_sc; [exact B1|exact HI0]).
          assert (Hr : sol_resp rsp).
          { eapply read_resp_sol; [exact (proj2 HI0)|exact B3|eauto|].
            exists c, e, b. split; [exact B5|].
            destruct B6 as [[rest B6]|B6]; [left; cbn in B6; cbn; rewrite B6; left; reflexivity|right; exact B6]. }
          destruct (write_solicited s2 respond_to rsp) as [[s3 rsp'] o3] eqn:E3.
          apply write_solicited_IA in E3; [|exact HI2|exact Hr]. destruct E3 as (F1 & F2 & F3). apply sobs_obs in F3.
          match goal with |- context [upd_last s3 ?x] => set (nl := x) end.
          assert (HI4 : IA (upd_last s3 nl)).
          { destruct F1 as [[I1 I2] I3]. split; [split|]; [|exact I2|exact I3].
            cbn. subst nl. intros l r0 Hl Hr0. destruct (s_last s3) as [l0|]; [|discriminate].
            inversion Hl; subst. cbn in Hr0. inversion Hr0; subst. exact F2. }
          assert (Ho : Forall obs_ok (o1 ++ [ODb DbClearWritten] ++ o2 ++ o3)).
          { apply Forall_app. split; [exact Ho1|]. constructor; [exact I|].
            apply Forall_app. split; [apply no_tx_obs_ok; exact B2|exact F3]. }
          destruct next as [n|].
          -- intros H; inversion H; subst. split; [apply IA_upd_control_wait; exact HI4|exact Ho].
          -- match goal with |- context [resume_at cfg ?a ?b] => destruct (resume_at cfg a b) as [s5 o5] eqn:E5 end.
             apply resume_at_IA in E5; [|apply IA_upd_control_idle; exact HI4].
             intros H; inversion H; subst. split; [tauto|].
             apply Forall_app. split; [exact Ho1|]. constructor; [exact I|].
             apply Forall_app. split; [apply no_tx_obs_ok; exact B2|].
             apply Forall_app. split; [exact F3|exact (proj2 E5)].
      + match goal with |- context [resume_at cfg ?a ?b] => destruct (resume_at cfg a b) as [s2 o2] eqn:E2 end.
        apply resume_at_IA in E2; [|apply IA_upd_pending, IA_upd_control_idle; exact HI0].
        intros H; inversion H; subst. split; [tauto|]. apply Forall_app. split; [exact Ho1|].
        constructor; [exact I|tauto].
    - destruct (unsol_wait_fragment cfg (upd_frame_id s fid) resp from bc bytes d fid) as [[s1 res] o1] eqn:E1.
      apply unsol_wait_fragment_IA in E1; [|exact HI0]. destruct E1 as [HI1 Ho1]. apply sobs_obs in Ho1.
      destruct res as [r|]; [|intros H; inversion H; subst; split; assumption].
      destruct (end_unsol cfg s1 is_null r) as [[s2 ns] o2] eqn:E2.
      apply end_unsol_IA in E2; [|exact HI1]. destruct E2 as [HI2 Ho2].
      destruct (resume_at cfg (St3 ns) s2) as [s3 o3] eqn:E3. apply resume_at_IA in E3; [|exact HI2].
      intros H; inversion H; subst. split; [tauto|]. repeat (apply Forall_app; split); tauto.
  Qed.

  Lemma ostep_IA s ev answers s' o :
    Inv s -> Forall aok answers -> ostep cfg s ev answers = (s', o) -> IA s' /\ Forall obs_ok o.
  Proof.
    intros HInv Hans. assert (HI0 : IA (upd_answers s answers)) by (split; [exact HInv|exact Hans]).
    unfold ostep. destruct ev as [from bc bytes d|ms| |sel op|v|].
    - destruct (on_rx cfg (upd_answers s answers) from bc bytes d) as [s1 o1] eqn:E1.
      apply on_rx_IA in E1; [|exact HI0]. destruct E1 as [HI1 Ho1].
      destruct (advance 64 cfg s1 (s_now s1 + settle_ms)) as [s2 o2] eqn:E2.
      apply advance_IA in E2; [|exact HI1]. intros H; inversion H; subst. split; [tauto|apply Forall_app; tauto].
    - destruct (advance 4096 cfg (upd_answers s answers) (s_now (upd_answers s answers) + ms)) as [s1 o1] eqn:E1.
      apply advance_IA in E1; [|exact HI0]. intros H; inversion H; subst. exact E1.
    - destruct (match s_control (upd_answers s answers) with
                | CIdle => idle_loop 8 cfg (upd_answers s answers)
                | _ => (upd_notify (upd_answers s answers) true, [])
                end) as [s1 o1] eqn:E1.
      assert (H1 : IA s1 /\ Forall obs_ok o1).
      { destruct (s_control (upd_answers s answers)).
        - eapply idle_loop_IA; [exact HI0|exact E1].
        - inversion E1; subst. split; [exact HI0|constructor].
        - inversion E1; subst. split; [exact HI0|constructor]. }
      destruct H1 as [HI1 Ho1].
      destruct (advance 64 cfg s1 (s_now s1 + settle_ms)) as [s2 o2] eqn:E2.
      apply advance_IA in E2; [|exact HI1]. intros H; inversion H; subst. split; [tauto|apply Forall_app; tauto].
    - intros H; inversion H; subst. split; [exact HI0|constructor].
    - intros H; inversion H; subst. split; [exact HI0|constructor].
    - match goal with |- context [idle_loop 8 cfg ?a] => destruct (idle_loop 8 cfg a) as [s2 o2] eqn:E2 end.
      apply idle_loop_IA in E2.
      2:{ destruct HI0 as [[I1 I2] I3]. split; [split|]; [|exact I|exact I3]. cbn. discriminate. }
      destruct E2 as [HI2 Ho2].
      destruct (advance 64 cfg s2 (s_now s2 + settle_ms)) as [s3 o3] eqn:E3.
      apply advance_IA in E3; [|exact HI2]. intros H; inversion H; subst. split; [tauto|].
      constructor; [exact I|]. constructor; [exact I|]. apply Forall_app. tauto.
  Qed.

  Lemma ostart_IA sel op iin a0 s' o :
    Forall aok a0 -> ostart cfg sel op iin a0 = (s', o) -> IA s' /\ Forall obs_ok o.
  Proof.
    unfold ostart. intros Ha H. apply idle_loop_IA in H; [exact H|].
    split; [split|]; [|exact I|exact Ha]. cbn. discriminate.
  Qed.

  Lemma Reach_Inv (AP : list answer -> Prop) s :
    (forall a, AP a -> Forall aok a) -> Reach AP cfg s -> Inv s.
  Proof.
    intros HAP. induction 1 as [sel op iin a0 Ha|s ev ans HR IH Ha].
    - destruct (ostart cfg sel op iin a0) as [s' o] eqn:E. apply ostart_IA in E; [|auto]. exact (proj1 (proj1 E)).
    - destruct (ostep cfg s ev ans) as [s' o] eqn:E. apply ostep_IA in E; auto. exact (proj1 (proj1 E)).
  Qed.
End Sized.

Lemma response_bytes_length r buf :
  (4 <= length (response_bytes r buf) <= Nat.max 4 (r_size r))%nat.
Proof.
  unfold response_bytes. rewrite app_length. cbn [length].
  pose proof (firstn_le_length (r_size r - 4) buf) as H1.
  assert (H2 : (length (firstn (r_size r - 4) buf) <= r_size r - 4)%nat).
  { rewrite firstn_length. lia. }
  lia.
Qed.

Lemma response_bytes_nth0 r buf : nth 0 (response_bytes r buf) 0 = r_ctl r.
Proof. reflexivity. Qed.
Lemma response_bytes_nth1 r buf : nth 1 (response_bytes r buf) 0 = r_fn r.
Proof. reflexivity. Qed.
Lemma response_bytes_nth3 r buf : nth 3 (response_bytes r buf) 0 = r_iin2 r.
Proof. reflexivity. Qed.

Definition tx_shape_ok (cfg : ocfg) (dest : N) (bytes : list N) : Prop :=
  (4 <= length bytes)%nat /\
  (nth 1 bytes 0 = 129 \/ nth 1 bytes 0 = 130) /\
  (nth 1 bytes 0 = 129 -> N.testbit (nth 0 bytes 0) 4 = false) /\
  (nth 1 bytes 0 = 130 -> 240 <= nth 0 bytes 0 < 256 /\ dest = o_master cfg).

Lemma tx_ok_shape cfg szok dest bytes : tx_ok cfg szok dest bytes -> tx_shape_ok cfg dest bytes.
Proof.
  intros (r & buf & Hb & Hr). subst bytes. unfold tx_shape_ok.
  rewrite response_bytes_nth0, response_bytes_nth1.
  split; [apply response_bytes_length|].
  destruct Hr as [(A & B & _)|[(A & q & B) C]]; rewrite A.
  - split; [left; reflexivity|]. split; [intros _; exact B|]. unfold fn_response. intros H; discriminate.
  - split; [right; reflexivity|]. split; [unfold fn_unsol_response; intros H; discriminate|].
    intros _. rewrite B. split; [|exact C]. split; [apply ctl_byte_unsol_ge|apply ctl_byte_lt].
Qed.

Definition szany (_ : nat) : Prop := True.

Lemma Forall_aok_any a : Forall (aok szany) a.
Proof. apply Forall_forall. intros [] _; exact I. Qed.

(* 1. every fragment transmitted in any step from any reachable state (and at start-up) *)
Theorem tx_shape : forall cfg s ev answers dest bytes,
  Reach any_answers cfg s ->
  In (OTx dest bytes) (snd (ostep cfg s ev answers)) -> tx_shape_ok cfg dest bytes.
Proof.
  intros cfg s ev answers dest bytes HR Hin.
  assert (HInv : Inv szany s).
  { eapply Reach_Inv; [| |intros a _; apply Forall_aok_any|exact HR]; intros; exact I. }
  destruct (ostep cfg s ev answers) as [s' o] eqn:E.
  apply (ostep_IA cfg szany) in E; [|intros; exact I|intros; exact I|exact HInv|apply Forall_aok_any].
  destruct E as [_ E]. rewrite Forall_forall in E. apply E in Hin. cbn in Hin. eapply tx_ok_shape; exact Hin.
Qed.

Theorem tx_shape_start : forall cfg sel op iin a0 dest bytes,
  In (OTx dest bytes) (snd (ostart cfg sel op iin a0)) -> tx_shape_ok cfg dest bytes.
Proof.
  intros cfg sel op iin a0 dest bytes Hin.
  destruct (ostart cfg sel op iin a0) as [s' o] eqn:E.
  apply (ostart_IA cfg szany) in E; [|intros; exact I|intros; exact I|apply Forall_aok_any].
  destruct E as [_ E]. rewrite Forall_forall in E. apply E in Hin. cbn in Hin. eapply tx_ok_shape; exact Hin.
Qed.

(* 6. size of solicited fragments, when the database respects the cursor it is given *)
Definition answer_fits (cfg : ocfg) (a : answer) : Prop :=
  match a with AWrite _ _ body => (length body <= o_sol_tx cfg - 4)%nat | _ => True end.
Definition answers_fit (cfg : ocfg) (a : list answer) : Prop := Forall (answer_fits cfg) a.

Definition szfit (cfg : ocfg) (n : nat) : Prop := (n <= o_sol_tx cfg)%nat.

Lemma answers_fit_aok cfg a : (10 <= o_sol_tx cfg)%nat -> answers_fit cfg a -> Forall (aok (szfit cfg)) a.
Proof.
  intros H10. apply Forall_impl. intros [] H; try exact I. unfold aok, szfit. cbn in H. lia.
Qed.

Lemma tx_ok_fits cfg dest bytes :
  (4 <= o_sol_tx cfg)%nat -> tx_ok cfg (szfit cfg) dest bytes -> nth 1 bytes 0 = 129 ->
  (length bytes <= o_sol_tx cfg)%nat.
Proof.
  intros H4 (r & buf & Hb & Hr) Hfn. subst bytes. rewrite response_bytes_nth1 in Hfn.
  destruct Hr as [(A & B & C)|[(A & _) _]].
  - pose proof (response_bytes_length r buf) as Hl. unfold szfit in C. lia.
  - rewrite A in Hfn. discriminate.
Qed.

Theorem fits : forall cfg s ev answers dest bytes,
  (10 <= o_sol_tx cfg)%nat ->
  Reach (answers_fit cfg) cfg s -> answers_fit cfg answers ->
  In (OTx dest bytes) (snd (ostep cfg s ev answers)) -> nth 1 bytes 0 = 129 ->
  (length bytes <= o_sol_tx cfg)%nat.
Proof.
  intros cfg s ev answers dest bytes H10 HR Hans Hin Hfn.
  assert (Hs1 : forall n, (n <= 10)%nat -> szfit cfg n) by (unfold szfit; intros; lia).
  assert (Hs2 : forall n, (n <= o_sol_tx cfg)%nat -> szfit cfg n) by (unfold szfit; intros; lia).
  assert (HInv : Inv (szfit cfg) s).
  { eapply Reach_Inv; [exact Hs1|exact Hs2| |exact HR]. intros a Ha. apply answers_fit_aok; assumption. }
  destruct (ostep cfg s ev answers) as [s' o] eqn:E.
  apply (ostep_IA cfg (szfit cfg)) in E; [|exact Hs1|exact Hs2|exact HInv|apply answers_fit_aok; assumption].
  destruct E as [_ E]. rewrite Forall_forall in E. apply E in Hin. cbn in Hin.
  eapply tx_ok_fits; [lia|exact Hin|exact Hfn].
Qed.

(* ---------- the reader's fragment and the deferred READ ---------------------------------------- *)

(* At the boundaries of a step the session holds no unprocessed fragment, and a deferred READ exists
   only while an unsolicited confirmation is awaited.  This needs that the idle loop never runs out
   of fuel: `need` bounds the number of stage transitions left. *)
Definition is_unsol_wait (c : control) : bool := match c with CUnsolWait _ _ _ _ => true | _ => false end.

Definition J (s : ostate) : Prop :=
  s_pending s = None /\ (is_unsol_wait (s_control s) = false -> s_deferred s = None).

Definition b2nat (b : bool) : nat := if b then 1 else 0.
Definition has {A : Type} (o : option A) : bool := match o with Some _ => true | None => false end.

Definition tokens (s : ostate) : nat :=
  (b2nat (has (s_pending s)) + b2nat (has (s_deferred s)) + b2nat (s_notify s))%nat.

Definition need (st : stage) (s : ostate) : nat :=
  match st with
  | St1 => 4 + 4 * (b2nat (has (s_deferred s)) + b2nat (s_notify s))
  | St2 => 3 + 4 * tokens s
  | St3 ns => 2 + 4 * (tokens s + b2nat ns)
  | St4 ns => 1 + 4 * (tokens s + b2nat ns)
  end%nat.

Definition stage_pre (st : stage) (s : ostate) : Prop :=
  match st with
  | St3 _ => s_pending s = None \/ s_deferred s = None
  | _ => s_deferred s = None
  end.

Lemma need_le_18 st s : (need st s <= 18)%nat.
Proof.
  unfold need, tokens. destruct st as [| |ns|ns]; try destruct ns;
    destruct (has (s_pending s)), (has (s_deferred s)), (s_notify s); cbn; lia.
Qed.

Section Pending.
  Variable cfg : ocfg.

  Lemma idle_run_J fuel : forall st s s' o,
    (need st s <= fuel)%nat -> s_control s = CIdle -> stage_pre st s ->
    idle_run fuel cfg st s = (s', o) -> J s'.
  Proof.
    induction fuel as [|f IH]; intros st s s' o Hn Hc Hp H.
    { exfalso. destruct st; cbn in Hn; lia. }
    cbn [idle_run] in H. destruct st as [| |ns|ns]; cbn [stage_pre] in Hp.
    - (* St1 *)
      destruct (match s_pending s with
                | Some (from, bc, bytes, d, fid) => handle_from_idle cfg (upd_pending s None) from bc bytes d fid
                | None => (s, [])
                end) as [s1 o1] eqn:E1.
      assert (H1 : s_pending s1 = None /\ s_deferred s1 = None /\ s_notify s1 = s_notify s /\
                   (s_control s1 = CIdle \/ exists x dl, s_control s1 = CSolWait x dl RStep2)).
      { destruct (s_pending s) as [[[[[from bc] bytes] d] fid]|] eqn:Epen.
        - apply handle_from_idle_frame in E1. destruct E1 as [A B].
          destruct A as (_ & _ & _ & A4 & _ & A6 & _ & A8 & _). cbn in A4, A6, A8.
          split; [exact A6|]. split; [congruence|]. split; [exact A8|].
          destruct B as [B|[x B]]; [left; cbn in B; congruence|right; eauto].
        - inversion E1; subst. auto. }
      destruct H1 as (P1 & P2 & P3 & P4).
      destruct (s_control s1) as [|se dl r|resp is_null retries dl] eqn:Ec1.
      + destruct (idle_run f cfg St2 s1) as [s2 o2] eqn:E2. inversion H; subst.
        eapply IH; [|exact Ec1| |exact E2].
        * unfold need, tokens in Hn |- *. rewrite P1, P2, P3. rewrite Hp in Hn. cbn [has b2nat] in *. lia.
        * exact P2.
      + inversion H; subst. split; [exact P1|]. intros _. exact P2.
      + exfalso. destruct P4 as [P4|(x & dl' & P4)]; discriminate.
    - (* St2 *)
      destruct (check_unsolicited cfg s) as [[s2 ns] o2] eqn:E2.
      apply check_unsolicited_frame in E2. destruct E2 as (_ & A & B).
      destruct A as (_ & _ & _ & A4 & A5 & _ & A7 & _).
      destruct (s_control s2) as [|se dl r|resp is_null retries dl] eqn:Ec2.
      + destruct (idle_run f cfg (St3 false) s2) as [s3 o3] eqn:E3. inversion H; subst.
        eapply IH; [|exact Ec2| |exact E3].
        * unfold need, tokens in Hn |- *. rewrite A4, A5, A7. cbn [b2nat]. lia.
        * right. congruence.
      + exfalso. destruct B as [B|(r1 & n1 & k1 & d1 & B)]; congruence.
      + destruct (s_pending s2) as [[[[[from bc] bytes] d] fid]|] eqn:Epen.
        2:{ inversion H; subst. split; [exact Epen|]. rewrite Ec2. discriminate. }
        destruct (unsol_wait_fragment cfg (upd_pending s2 None) resp from bc bytes d fid) as [[s3 res] o3] eqn:E3.
        apply unsol_wait_fragment_frame in E3. destruct E3 as [C D].
        destruct C as (_ & C2 & _ & _ & _ & C6 & _ & C8 & _). cbn in C2, C6, C8.
        destruct res as [r|].
        2:{ inversion H; subst. split; [exact C6|]. rewrite C2, Ec2. discriminate. }
        assert (Hd3 : s_deferred s3 = None).
        { destruct D as [D|D]; [discriminate| |exact D]. cbn in D. congruence. }
        destruct (end_unsol cfg s3 is_null r) as [[s4 ns4] o4] eqn:E4.
        apply end_unsol_frame in E4. destruct E4 as (F1 & _ & F3 & F4 & F5 & _).
        destruct (idle_run f cfg (St3 ns4) s4) as [s5 o5] eqn:E5. inversion H; subst.
        eapply IH; [|exact F1| |exact E5].
        * unfold need, tokens in Hn |- *. rewrite F3, F4, F5, Hd3, C6, C8, A7.
          rewrite <- A5 in Hn. cbn [has b2nat] in *.
          destruct ns4; cbn [b2nat]; lia.
        * left. congruence.
    - (* St3 *)
      destruct (s_deferred s) as [d|] eqn:Ed.
      + destruct Hp as [Hp|Hp]; [|discriminate].
        destruct (handle_deferred cfg s ns) as [s3 o3] eqn:E3.
        eapply handle_deferred_some in E3; [|exact Ed].
        destruct E3 as (s3' & r & r' & pre & post & se' & _ & _ & _ & _ & _ & _ & _ & _ & G1 & G2 & G3 & _ & _ & _ & _ & _ & _ & G4).
        destruct (s_control s3) as [|se dl r0|resp is_null retries dl] eqn:Ec3.
        * destruct (idle_run f cfg (St4 ns) s3) as [s4 o4] eqn:E4. inversion H; subst.
          eapply IH; [|exact Ec3| |exact E4].
          -- unfold need, tokens in Hn |- *. rewrite G1, G2, G3, Hp. rewrite Hp, Ed in Hn. cbn [has b2nat] in *.
             destruct (s_notify s); cbn [b2nat] in *; lia.
          -- exact G1.
        * inversion H; subst. split; [congruence|]. intros _. exact G1.
        * exfalso. destruct G4 as [G4|[x G4]]; congruence.
      + rewrite handle_deferred_none in H by exact Ed. rewrite Hc in H.
        destruct (idle_run f cfg (St4 ns) s) as [s4 o4] eqn:E4. inversion H; subst.
        eapply IH; [|exact Hc| |exact E4].
        * unfold need, tokens in Hn |- *. lia.
        * exact Ed.
    - (* St4 *)
      destruct (s_pending s) as [p|] eqn:Epen.
      + eapply IH; [|exact Hc| |exact H].
        * unfold need, tokens in Hn |- *. rewrite Epen, Hp in *. cbn [has b2nat] in *. lia.
        * exact Hp.
      + destruct ns.
        * eapply IH; [|exact Hc| |exact H].
          -- unfold need, tokens in Hn |- *. rewrite Epen, Hp in *. cbn [has b2nat] in *. lia.
          -- exact Hp.
        * destruct (s_notify s) eqn:En.
          -- eapply IH; [| | |exact H].
             ++ unfold need, tokens in Hn |- *. cbn. rewrite Hp. rewrite Epen, Hp, En in Hn. cbn [has b2nat] in *. lia.
             ++ exact Hc.
             ++ exact Hp.
          -- inversion H; subst. split; [exact Epen|]. intros _. exact Hp.
  Qed.

  Lemma resume_at_J st s s' o :
    s_control s = CIdle -> stage_pre st s -> resume_at cfg st s = (s', o) -> J s'.
  Proof. unfold resume_at. apply idle_run_J. pose proof (need_le_18 st s). lia. Qed.

  Lemma idle_loop_J s s' o :
    s_control s = CIdle -> s_deferred s = None -> idle_loop 8 cfg s = (s', o) -> J s'.
  Proof.
    unfold idle_loop. intros Hc Hd. apply idle_run_J; [|exact Hc|exact Hd].
    pose proof (need_le_18 St1 s). lia.
  Qed.

  Lemma J_deferred_none s : J s -> is_unsol_wait (s_control s) = false -> s_deferred s = None.
  Proof. intros [_ H]. exact H. Qed.

  Lemma stage_of_pre r s : s_deferred s = None -> stage_pre (stage_of r) s.
  Proof. intros H. destruct r; exact H. Qed.

  Lemma fire_deadline_J s s' o : J s -> fire_deadline cfg s = (s', o) -> J s'.
  Proof.
    intros [J1 J2]. unfold fire_deadline. destruct (s_control s) as [|se dl r|resp is_null retries dl] eqn:Ec.
    - apply resume_at_J; [exact Ec|]. apply J2. reflexivity.
    - destruct (resume_at cfg (stage_of r) (upd_control s CIdle)) as [s1 o1] eqn:E.
      apply resume_at_J in E; [|reflexivity|apply stage_of_pre; apply J2; reflexivity].
      intros H; inversion H; subst. exact E.
    - match goal with |- (if ?c then _ else _) = _ -> _ => destruct c end.
      + intros H; inversion H; subst. split; [exact J1|]. cbn. discriminate.
      + destruct (end_unsol cfg s is_null UrTimeout) as [[s1 ns] o1] eqn:E1.
        apply end_unsol_frame in E1. destruct E1 as (F1 & _ & F3 & F4 & _).
        destruct (resume_at cfg (St3 ns) s1) as [s2 o2] eqn:E2.
        apply resume_at_J in E2; [|exact F1|left; congruence].
        intros H; inversion H; subst. exact E2.
  Qed.

  Lemma advance_J fuel : forall s target s' o, J s -> advance fuel cfg s target = (s', o) -> J s'.
  Proof.
    induction fuel as [|f IH]; intros s target s' o HJ H; cbn [advance] in H.
    { inversion H; subst. exact HJ. }
    destruct (next_deadline cfg s) as [d|]; [|inversion H; subst; exact HJ].
    destruct (d <=? target)%Z; [|inversion H; subst; exact HJ].
    destruct (fire_deadline cfg (upd_now s (Z.max d (s_now s)))) as [s1 o1] eqn:E1.
    apply fire_deadline_J in E1; [|exact HJ].
    destruct (advance f cfg s1 target) as [s2 o2] eqn:E2. apply IH in E2; [|exact E1].
    inversion H; subst. exact E2.
  Qed.

  Lemma on_rx_J s from bc bytes d s' o : J s -> on_rx cfg s from bc bytes d = (s', o) -> J s'.
  Proof.
    intros [J1 J2]. unfold on_rx.
    set (fid := (s_frame_id s + 1) mod 4294967296).
    change (s_control (upd_frame_id s fid)) with (s_control s).
    destruct (s_control s) as [|se dl r|resp is_null retries dl] eqn:Ec.
    - apply idle_loop_J; [exact Ec|]. apply J2. reflexivity.
    - assert (Hd : s_deferred s = None) by (apply J2; reflexivity).
      destruct (sol_wait_fragment cfg (upd_frame_id s fid) se dl from bc bytes d) as [oc o1] eqn:E1.
      destruct oc as [dl'|respond_to|].
      + intros H; inversion H; subst. split; [exact J1|]. intros _. exact Hd.
      + destruct (se_fin se).
        * match goal with |- context [resume_at cfg ?a ?b] => destruct (resume_at cfg a b) as [s2 o2] eqn:E2 end.
          apply resume_at_J in E2; [|reflexivity|apply stage_of_pre; exact Hd].
          intros H; inversion H; subst. exact E2.
        * match goal with |- context [format_read_response ?a ?b ?c ?e] =>
            destruct (format_read_response a b c e) as [[[s2 rsp] next] o2] eqn:E2 end.
          apply format_read_response_spec in E2. destruct E2 as (B1 & _).
          destruct (write_solicited s2 respond_to rsp) as [[s3 rsp'] o3] eqn:E3.
          apply write_solicited_spec in E3. destruct E3 as (C1 & _).
          pose proof (sc_trans _ _ _ B1 C1) as S.
          destruct S as (_ & _ & _ & _ & _ & S6 & _ & S8 & _). cbn in S6, S8.
          destruct next as [n|].
          -- intros H; inversion H; subst. split; [cbn; congruence|]. intros _. cbn. congruence.
          -- match goal with |- context [resume_at cfg ?a ?b] => destruct (resume_at cfg a b) as [s5 o5] eqn:E5 end.
             apply resume_at_J in E5; [|reflexivity|apply stage_of_pre; cbn; congruence].
             intros H; inversion H; subst. exact E5.
      + match goal with |- context [resume_at cfg ?a ?b] => destruct (resume_at cfg a b) as [s2 o2] eqn:E2 end.
        apply resume_at_J in E2; [|reflexivity|apply stage_of_pre; exact Hd].
        intros H; inversion H; subst. exact E2.
    - destruct (unsol_wait_fragment cfg (upd_frame_id s fid) resp from bc bytes d fid) as [[s1 res] o1] eqn:E1.
      apply unsol_wait_fragment_frame in E1. destruct E1 as [C _].
      destruct C as (_ & C2 & _ & _ & _ & C6 & _). cbn in C2, C6.
      destruct res as [r|].
      2:{ intros H; inversion H; subst. split; [congruence|]. rewrite C2, Ec. discriminate. }
      destruct (end_unsol cfg s1 is_null r) as [[s2 ns] o2] eqn:E2.
      apply end_unsol_frame in E2. destruct E2 as (F1 & _ & F3 & F4 & _).
      destruct (resume_at cfg (St3 ns) s2) as [s3 o3] eqn:E3.
      apply resume_at_J in E3; [|exact F1|left; congruence].
      intros H; inversion H; subst. exact E3.
  Qed.

  Lemma ostep_J s ev answers s' o : J s -> ostep cfg s ev answers = (s', o) -> J s'.
  Proof.
    intros HJ. assert (HJ0 : J (upd_answers s answers)) by exact HJ.
    unfold ostep. destruct ev as [from bc bytes d|ms| |sel op|v|].
    - destruct (on_rx cfg (upd_answers s answers) from bc bytes d) as [s1 o1] eqn:E1.
      apply on_rx_J in E1; [|exact HJ0].
      destruct (advance 64 cfg s1 (s_now s1 + settle_ms)) as [s2 o2] eqn:E2.
      apply advance_J in E2; [|exact E1]. intros H; inversion H; subst. exact E2.
    - destruct (advance 4096 cfg (upd_answers s answers) (s_now (upd_answers s answers) + ms)) as [s1 o1] eqn:E1.
      apply advance_J in E1; [|exact HJ0]. intros H; inversion H; subst. exact E1.
    - destruct (match s_control (upd_answers s answers) with
                | CIdle => idle_loop 8 cfg (upd_answers s answers)
                | _ => (upd_notify (upd_answers s answers) true, [])
                end) as [s1 o1] eqn:E1.
      assert (H1 : J s1).
      { destruct (s_control (upd_answers s answers)) eqn:Ec.
        - eapply idle_loop_J; [exact Ec| |exact E1]. apply (proj2 HJ0). rewrite Ec. reflexivity.
        - inversion E1; subst. exact HJ0.
        - inversion E1; subst. exact HJ0. }
      destruct (advance 64 cfg s1 (s_now s1 + settle_ms)) as [s2 o2] eqn:E2.
      apply advance_J in E2; [|exact H1]. intros H; inversion H; subst. exact E2.
    - intros H; inversion H; subst. exact HJ0.
    - intros H; inversion H; subst. exact HJ0.
    - match goal with |- context [idle_loop 8 cfg ?a] => destruct (idle_loop 8 cfg a) as [s2 o2] eqn:E2 end.
      apply idle_loop_J in E2; [|reflexivity|reflexivity].
      destruct (advance 64 cfg s2 (s_now s2 + settle_ms)) as [s3 o3] eqn:E3.
      apply advance_J in E3; [|exact E2]. intros H; inversion H; subst. exact E3.
  Qed.

  Lemma Reach_J (AP : list answer -> Prop) s : Reach AP cfg s -> J s.
  Proof.
    induction 1 as [sel op iin a0 Ha|s ev ans HR IH Ha].
    - destruct (ostart cfg sel op iin a0) as [s' o] eqn:E. unfold ostart in E.
      apply idle_loop_J in E; [exact E|reflexivity|reflexivity].
    - destruct (ostep cfg s ev ans) as [s' o] eqn:E. apply ostep_J in E; [exact E|exact IH].
  Qed.
End Pending.

(* ---------- what the session does on its own never is a solicited response ------------------- *)

Definition not_sol (o : oobs) : Prop := match o with OTx _ b => nth 1 b 0 = 130 | _ => True end.
Definition quiet (s : ostate) : Prop := s_pending s = None /\ s_deferred s = None.

Lemma no_tx_not_sol o : Forall no_tx o -> Forall not_sol o.
Proof. apply Forall_impl. intros [] H; try exact I. destruct H. Qed.

Lemma J_quiet s : J s -> is_unsol_wait (s_control s) = false -> quiet s.
Proof. intros [J1 J2] H. split; auto. Qed.

Section Quiet.
  Variable cfg : ocfg.

  Lemma start_unsol_notsol s seq n is_null s' o :
    start_unsol cfg s (unsol_header seq n) is_null = (s', o) -> Forall not_sol o.
  Proof.
    intros H. apply start_unsol_spec in H. destruct H as (s1 & r1 & pre & _ & E2 & _ & _ & _ & E6 & E7).
    subst o. apply Forall_app. split; [apply no_tx_not_sol; exact E7|].
    constructor; [|repeat constructor]. cbn. exact E2.
  Qed.

  Lemma check_unsolicited_notsol s s' ns o : check_unsolicited cfg s = (s', ns, o) -> Forall not_sol o.
  Proof.
    unfold check_unsolicited. destruct (negb (o_unsol cfg)).
    { intros H; inversion H; subst. constructor. }
    destruct (s_unsol s) as [|deadline].
    { match goal with |- context [start_unsol cfg ?a ?b ?c] => destruct (start_unsol cfg a b c) as [s2 o2] eqn:E end.
      apply start_unsol_notsol in E. intros H; inversion H; subst. exact E. }
    destruct (negb match deadline with Some t => (t <=? s_now s)%Z | None => true end).
    { intros H; inversion H; subst. constructor. }
    destruct (negb (any_enabled s)).
    { intros H; inversion H; subst. constructor. }
    destruct (ask_unsol s) as [s1 [count body]] eqn:E0.
    destruct (s_enabled s) as [[c1 c2] c3].
    destruct (count =? 0).
    { intros H; inversion H; subst. constructor. }
    match goal with |- context [start_unsol cfg ?a ?b ?c] => destruct (start_unsol cfg a b c) as [s3 o3] eqn:E end.
    apply start_unsol_notsol in E. intros H; inversion H; subst. constructor; [exact I|exact E].
  Qed.

  Lemma idle_run_quiet fuel : forall st s s' o,
    quiet s -> idle_run fuel cfg st s = (s', o) -> quiet s' /\ Forall not_sol o.
  Proof.
    induction fuel as [|f IH]; intros st s s' o [Q1 Q2] H; cbn [idle_run] in H.
    { inversion H; subst. split; [split; assumption|repeat constructor]. }
    destruct st as [| |ns|ns].
    - rewrite Q1 in H. destruct (s_control s).
      + destruct (idle_run f cfg St2 s) as [s2 o2] eqn:E2. apply IH in E2; [|split; assumption].
        inversion H; subst. exact E2.
      + inversion H; subst. split; [split; assumption|constructor].
      + inversion H; subst. split; [split; assumption|constructor].
    - destruct (check_unsolicited cfg s) as [[s2 ns] o2] eqn:E2.
      pose proof (check_unsolicited_notsol _ _ _ _ E2) as Ho2.
      apply check_unsolicited_frame in E2. destruct E2 as (_ & A & _).
      destruct A as (_ & _ & _ & A4 & A5 & _).
      assert (Q : quiet s2) by (split; congruence).
      destruct (s_control s2).
      + destruct (idle_run f cfg (St3 false) s2) as [s3 o3] eqn:E3. apply IH in E3; [|exact Q].
        inversion H; subst. split; [tauto|apply Forall_app; tauto].
      + inversion H; subst. split; assumption.
      + rewrite (proj1 Q) in H. inversion H; subst. split; assumption.
    - rewrite handle_deferred_none in H by exact Q2. destruct (s_control s).
      + destruct (idle_run f cfg (St4 ns) s) as [s4 o4] eqn:E4. apply IH in E4; [|split; assumption].
        inversion H; subst. exact E4.
      + inversion H; subst. split; [split; assumption|constructor].
      + inversion H; subst. split; [split; assumption|constructor].
    - rewrite Q1 in H. destruct ns; [apply IH in H; [exact H|split; assumption]|].
      destruct (s_notify s); [apply IH in H; [exact H|split; assumption]|].
      inversion H; subst. split; [split; assumption|constructor].
  Qed.

  Lemma resume_at_quiet st s s' o : quiet s -> resume_at cfg st s = (s', o) -> quiet s' /\ Forall not_sol o.
  Proof. unfold resume_at. apply idle_run_quiet. Qed.

  Lemma fire_deadline_quiet s s' o :
    IA szany s -> quiet s -> fire_deadline cfg s = (s', o) -> quiet s' /\ Forall not_sol o.
  Proof.
    intros HI [Q1 Q2]. unfold fire_deadline. destruct (s_control s) as [|se dl r|resp is_null retries dl] eqn:Ec.
    - apply resume_at_quiet. split; assumption.
    - destruct (resume_at cfg (stage_of r) (upd_control s CIdle)) as [s1 o1] eqn:E.
      apply resume_at_quiet in E; [|split; assumption].
      intros H; inversion H; subst. split; [tauto|]. cbn [app]. constructor; [exact I|]. constructor; [exact I|]. tauto.
    - assert (Hresp : r_fn resp = 130). { destruct HI as [[_ I2] _]. rewrite Ec in I2. exact (proj1 I2). }
      match goal with |- (if ?c then _ else _) = _ -> _ => destruct c end.
      + intros H; inversion H; subst. split; [split; assumption|].
        cbn [app]. constructor; [exact I|]. unfold repeat_unsolicited. constructor; [exact Hresp|constructor].
      + destruct (end_unsol cfg s is_null UrTimeout) as [[s1 ns] o1] eqn:E1.
        apply end_unsol_frame in E1. destruct E1 as (F1 & _ & F3 & F4 & _ & _ & _ & _ & _ & _ & F11).
        destruct (resume_at cfg (St3 ns) s1) as [s2 o2] eqn:E2.
        apply resume_at_quiet in E2; [|split; congruence].
        intros H; inversion H; subst. split; [tauto|]. cbn [app]. constructor; [exact I|].
        apply Forall_app. split; [apply no_tx_not_sol; exact F11|tauto].
  Qed.

  Lemma advance_quiet fuel : forall s target s' o,
    IA szany s -> quiet s -> advance fuel cfg s target = (s', o) -> quiet s' /\ Forall not_sol o.
  Proof.
    induction fuel as [|f IH]; intros s target s' o HI HQ H; cbn [advance] in H.
    { inversion H; subst. split; [exact HQ|repeat constructor]. }
    destruct (next_deadline cfg s) as [d|]; [|inversion H; subst; split; [exact HQ|constructor]].
    destruct (d <=? target)%Z; [|inversion H; subst; split; [exact HQ|constructor]].
    destruct (fire_deadline cfg (upd_now s (Z.max d (s_now s)))) as [s1 o1] eqn:E1.
    pose proof E1 as E1'. apply fire_deadline_quiet in E1'; [|exact HI|exact HQ].
    apply (fire_deadline_IA cfg szany) in E1; [|intros; exact I|intros; exact I|exact HI].
    destruct (advance f cfg s1 target) as [s2 o2] eqn:E2. apply IH in E2; [|tauto|tauto].
    inversion H; subst. split; [tauto|]. constructor; [exact I|]. apply Forall_app. tauto.
  Qed.
End Quiet.

(* ---------- a fragment received while idle ------------------------------------------------------ *)

(* the state in which handle_one_request_from_idle runs on a fragment received while idle: the
   state of the previous step with the answers installed and the frame id advanced *)
Definition frame_id_next (s : ostate) : N := (s_frame_id s + 1) mod 4294967296.

Definition rx_state (s : ostate) (answers : list answer) (from : N) (bc : option bcast_mode)
           (bytes : list N) (d : digest) : ostate :=
  upd_pending (upd_pending (upd_frame_id (upd_answers s answers) (frame_id_next s))
                           (Some (from, bc, bytes, d, frame_id_next s))) None.

Lemma szany_small : forall n, (n <= 10)%nat -> szany n.  Proof. intros; exact I. Qed.
Lemma szany_tx cfg : forall n, (n <= o_sol_tx cfg)%nat -> szany n.  Proof. intros; exact I. Qed.

Lemma Reach_Inv_any AP cfg s : Reach AP cfg s -> Inv szany s.
Proof.
  intros HR. apply Reach_weaken in HR.
  eapply Reach_Inv; [apply szany_small|apply szany_tx| |exact HR]. intros a _. apply Forall_aok_any.
Qed.

Lemma idle_run_St1 f cfg s :
  idle_run (S f) cfg St1 s =
  let '(s1, o1) := match s_pending s with
                   | Some (from, bc, bytes, d, fid) => handle_from_idle cfg (upd_pending s None) from bc bytes d fid
                   | None => (s, [])
                   end in
  match s_control s1 with
  | CIdle => let '(s2, o2) := idle_run f cfg St2 s1 in (s2, o1 ++ o2)
  | _ => (s1, o1)
  end.
Proof. reflexivity. Qed.

Lemma on_rx_idle cfg s from bc bytes d :
  s_control s = CIdle ->
  on_rx cfg s from bc bytes d =
  let fid := frame_id_next s in
  let '(s1, o1) := handle_from_idle cfg (upd_pending (upd_pending (upd_frame_id s fid) (Some (from, bc, bytes, d, fid))) None)
                                    from bc bytes d fid in
  match s_control s1 with
  | CIdle => let '(s2, o2) := idle_run 31 cfg St2 s1 in (s2, o1 ++ o2)
  | _ => (s1, o1)
  end.
Proof.
  intros Hc. unfold on_rx.
  change (s_control (upd_frame_id s ((s_frame_id s + 1) mod 4294967296))) with (s_control s). rewrite Hc.
  unfold idle_loop. change (4 * 8)%nat with (S 31). rewrite idle_run_St1. reflexivity.
Qed.

(* A step that receives a fragment while idle runs handle_one_request_from_idle on it first; what
   follows in the step (the rest of the idle loop, deadlines firing during the settle time)
   transmits no solicited response. *)
Lemma ostep_rx_idle AP cfg s from bc bytes d answers s' out :
  Reach AP cfg s -> s_control s = CIdle ->
  ostep cfg s (ERx from bc bytes d) answers = (s', out) ->
  exists s1 o1 rest,
    handle_from_idle cfg (rx_state s answers from bc bytes d) from bc bytes d (frame_id_next s) = (s1, o1) /\
    out = o1 ++ rest /\ Forall not_sol rest.
Proof.
  intros HR Hc H.
  pose proof (Reach_J cfg AP s HR) as [J1 J2].
  pose proof (Reach_Inv_any _ _ _ HR) as HInv.
  assert (Hd : s_deferred s = None) by (apply J2; rewrite Hc; reflexivity).
  unfold ostep in H.
  destruct (on_rx cfg (upd_answers s answers) from bc bytes d) as [s1 o1] eqn:E1.
  destruct (advance 64 cfg s1 (s_now s1 + settle_ms)) as [s2 o2] eqn:E2.
  inversion H; subst; clear H.
  rewrite on_rx_idle in E1 by exact Hc. cbv zeta in E1.
  change (frame_id_next (upd_answers s answers)) with (frame_id_next s) in E1.
  fold (rx_state s answers from bc bytes d) in E1.
  destruct (handle_from_idle cfg (rx_state s answers from bc bytes d) from bc bytes d (frame_id_next s)) as [s3 o3] eqn:E3.
  exists s3, o3.
  assert (HI0 : IA szany (rx_state s answers from bc bytes d)) by (split; [exact HInv|apply Forall_aok_any]).
  pose proof (handle_from_idle_IA cfg szany szany_small (szany_tx cfg) _ _ _ _ _ _ _ _ HI0 E3) as [HI3 _].
  pose proof (handle_from_idle_frame _ _ _ _ _ _ _ _ _ E3) as [A B].
  destruct A as (_ & _ & _ & A4 & _ & A6 & _).
  assert (Q3 : quiet s3). { split; [exact A6|]. rewrite A4. exact Hd. }
  destruct (s_control s3) as [|se dl r|resp is_null retries dl] eqn:Ec3.
  - destruct (idle_run 31 cfg St2 s3) as [s4 o4] eqn:E4. inversion E1; subst.
    pose proof (idle_run_IA cfg szany szany_small (szany_tx cfg) _ _ _ _ _ HI3 E4) as [HI4 _].
    apply idle_run_quiet in E4; [|exact Q3]. destruct E4 as [Q4 Ho4].
    apply advance_quiet in E2; [|exact HI4|exact Q4].
    exists (o4 ++ o2). split; [reflexivity|]. split; [rewrite app_assoc; reflexivity|]. apply Forall_app. tauto.
  - inversion E1; subst. apply advance_quiet in E2; [|exact HI3|exact Q3].
    exists o2. split; [reflexivity|]. split; [reflexivity|tauto].
  - exfalso. destruct B as [B|[x B]]; cbn in B; congruence.
Qed.

Lemma classify_rx_state s answers from bc bytes d bc' bytes' ctl fn obj :
  classify (rx_state s answers from bc bytes d) bc' bytes' ctl fn obj = classify s bc' bytes' ctl fn obj.
Proof. reflexivity. Qed.

Lemma ctl_seq_idem ctl : ctl_seq ctl mod 16 = ctl_seq ctl.
Proof. unfold ctl_seq. lia. Qed.

(* ---------- 2. solicited responses are correlated with the request ------------------------------ *)

(* a solicited fragment goes to `from` and carries sequence number `seq` *)
Definition sol_tx_correlated (from seq : N) (o : oobs) : Prop :=
  match o with
  | OTx dest b => nth 1 b 0 = 129 -> dest = from /\ ctl_seq (nth 0 b 0) = seq
  | _ => True
  end.

Lemma no_tx_corr from seq o : Forall no_tx o -> Forall (sol_tx_correlated from seq) o.
Proof. apply Forall_impl. intros [] H; try exact I. destruct H. Qed.

Lemma not_sol_corr from seq o : Forall not_sol o -> Forall (sol_tx_correlated from seq) o.
Proof. apply Forall_impl. intros [] H; try exact I. cbn in *. intros C. rewrite H in C. discriminate. Qed.

Lemma hfi_finish_corr cfg from seq bytes fn s1 resp se o1 s' o :
  Forall no_tx o1 -> (forall r, resp = Some r -> ctl_seq (r_ctl r) = seq) ->
  hfi_finish cfg from seq bytes fn s1 resp se false o1 = (s', o) ->
  (exists rest, o = OInfo (IIdleRequest fn seq) :: rest) /\ Forall (sol_tx_correlated from seq) o.
Proof.
  intros Ho1 Hr H. destruct resp as [r|].
  - apply hfi_finish_some in H. destruct H as (s2 & r' & pre & post & _ & H2 & H3 & H4 & H5 & _).
    subst o. split; [eauto|]. constructor; [exact I|].
    apply Forall_app. split; [apply no_tx_corr; exact Ho1|].
    apply Forall_app. split; [apply no_tx_corr; exact H4|].
    constructor; [|apply no_tx_corr; exact H5].
    cbn. intros _. split; [reflexivity|]. rewrite (sent_of_seq _ _ H2). apply Hr. reflexivity.
  - rewrite hfi_finish_none in H. inversion H; subst. split; [eauto|].
    constructor; [exact I|apply no_tx_corr; exact Ho1].
Qed.

Lemma hfi_corr cfg s0 from bytes d fid ctl fn obj s1 o1 :
  to_treq cfg from d = TqRequest ctl fn obj ->
  (forall last, classify s0 None bytes ctl fn obj <> FtRepeatNonRead last) ->
  handle_from_idle cfg s0 from None bytes d fid = (s1, o1) ->
  (exists rest, o1 = OInfo (IIdleRequest fn (ctl_seq ctl)) :: rest) /\
  Forall (sol_tx_correlated from (ctl_seq ctl)) o1.
Proof.
  intros Htq Hnr. rewrite handle_from_idle_eq, Htq. cbv zeta.
  destruct (classify s0 None bytes ctl fn obj) as [iin2|hdrs rh|resp hdrs rh|hdrs|last|m|q|q] eqn:Ecl.
  - apply hfi_finish_corr; [constructor|]. intros r Hr; inversion Hr; subst. cbn [empty_solicited r_ctl].
    rewrite ctl_byte_seq. apply ctl_seq_idem.
  - destruct (format_first_read_response s0 (ctl_seq ctl)) as [[[s2 r] se] o2] eqn:E.
    apply format_first_read_response_spec in E. destruct E as (_ & E2 & _ & (fin & con & E4 & _) & _).
    apply hfi_finish_corr; [exact E2|]. intros r0 Hr; inversion Hr; subst. rewrite E4, ctl_byte_seq. apply ctl_seq_idem.
  - destruct (format_first_read_response s0 (ctl_seq ctl)) as [[[s2 r] se] o2] eqn:E.
    apply format_first_read_response_spec in E. destruct E as (_ & E2 & _ & (fin & con & E4 & _) & _).
    apply hfi_finish_corr; [exact E2|]. intros r0 Hr; inversion Hr; subst. rewrite E4, ctl_byte_seq. apply ctl_seq_idem.
  - destruct (handle_non_read cfg s0 fn (ctl_seq ctl) fid bytes hdrs) as [[s2 r] o2] eqn:E.
    apply handle_non_read_spec in E. destruct E as (_ & E2 & E3).
    apply hfi_finish_corr; [exact E2|]. intros r0 Hr. destruct (E3 r0 Hr) as [E4 _].
    rewrite E4, ctl_byte_seq. apply ctl_seq_idem.
  - exfalso. exact (Hnr last eq_refl).
  - destruct (process_broadcast cfg s0 m fid ctl fn bytes obj) as [s2 o2] eqn:E.
    apply process_broadcast_spec in E. destruct E as [_ E2].
    intros H; inversion H; subst. split; [eauto|]. constructor; [exact I|apply no_tx_corr; exact E2].
  - intros H; inversion H; subst. split; [eauto|repeat constructor].
  - intros H; inversion H; subst. split; [eauto|repeat constructor].
Qed.

(* In a step that processes an accepted unicast request from idle, the first observation names the
   request, and EVERY solicited fragment of the step (there is at most one) is addressed to the
   sender and carries the request's sequence number.  (A verbatim retransmission of a non-READ
   request, answered by repeating the recorded response, is the subject of solicited_repeat.) *)
Theorem solicited_correlated : forall AP cfg s from bytes d answers ctl fn obj,
  Reach AP cfg s -> s_control s = CIdle ->
  to_treq cfg from d = TqRequest ctl fn obj ->
  (forall last, classify s None bytes ctl fn obj <> FtRepeatNonRead last) ->
  (exists rest, snd (ostep cfg s (ERx from None bytes d) answers) = OInfo (IIdleRequest fn (ctl_seq ctl)) :: rest) /\
  Forall (sol_tx_correlated from (ctl_seq ctl)) (snd (ostep cfg s (ERx from None bytes d) answers)).
Proof.
  intros AP cfg s from bytes d answers ctl fn obj HR Hc Htq Hnr.
  destruct (ostep cfg s (ERx from None bytes d) answers) as [s' out] eqn:E.
  destruct (ostep_rx_idle _ _ _ _ _ _ _ _ _ _ HR Hc E) as (s1 & o1 & rest & H1 & H2 & H3).
  apply hfi_corr with (ctl := ctl) (fn := fn) (obj := obj) in H1; [|exact Htq|].
  2:{ intros last. rewrite classify_rx_state. apply Hnr. }
  destruct H1 as [[rest1 H1] H4]. cbn [snd]. subst out. split.
  - rewrite H1. cbn [app]. eauto.
  - apply Forall_app. split; [exact H4|apply not_sol_corr; exact H3].
Qed.

(* the retransmission case: the one solicited fragment of the step is the recorded response of the
   request with the same sequence number and the same bytes, sent again to the sender *)
Theorem solicited_repeat : forall AP cfg s from bytes d answers ctl fn obj last,
  Reach AP cfg s -> s_control s = CIdle ->
  to_treq cfg from d = TqRequest ctl fn obj ->
  classify s None bytes ctl fn obj = FtRepeatNonRead last ->
  (exists l, s_last s = Some l /\ lr_seq l = ctl_seq ctl /\ lr_bytes l = bytes /\ lr_response l = last) /\
  Forall (fun o => match o with
                   | OTx dest b => nth 1 b 0 = 129 ->
                                   dest = from /\ exists r buf, last = Some r /\ b = response_bytes r buf
                   | _ => True
                   end) (snd (ostep cfg s (ERx from None bytes d) answers)).
Proof.
  intros AP cfg s from bytes d answers ctl fn obj last HR Hc Htq Hcl. split.
  - unfold classify in Hcl. destruct (fn =? fn_confirm); [destruct (ctl_uns ctl); discriminate|].
    destruct obj as [e|hdrs rh]; [discriminate|]. destruct (s_last s) as [l|].
    + destruct ((lr_seq l =? ctl_seq ctl) && bytes_eqb (lr_bytes l) bytes) eqn:Erep;
        destruct (fn =? fn_read); inversion Hcl; subst.
      apply andb_true_iff in Erep. destruct Erep as [R1 R2]. apply N.eqb_eq in R1. apply bytes_eqb_eq in R2.
      exists l. auto.
    + destruct (fn =? fn_read); discriminate.
  - destruct (ostep cfg s (ERx from None bytes d) answers) as [s' out] eqn:E.
    destruct (ostep_rx_idle _ _ _ _ _ _ _ _ _ _ HR Hc E) as (s1 & o1 & rest & H1 & H2 & H3).
    cbn [snd]. subst out. apply Forall_app. split.
    + rewrite handle_from_idle_eq, Htq in H1. cbv zeta in H1. rewrite classify_rx_state, Hcl in H1.
      destruct last as [r|].
      * apply hfi_finish_some in H1. destruct H1 as (s2 & r' & pre & post & _ & G2 & G3 & G4 & G5 & _).
        subst o1 r'. constructor; [exact I|]. cbn [app].
        apply Forall_app. split; [eapply Forall_impl; [|exact G4]; intros [] Hn; try exact I; destruct Hn|].
        constructor; [|eapply Forall_impl; [|exact G5]; intros [] Hn; try exact I; destruct Hn].
        intros _. split; [reflexivity|]. eauto.
      * rewrite hfi_finish_none in H1. inversion H1; subst. repeat constructor.
    + eapply Forall_impl; [|exact H3]. intros [] Hn; try exact I. cbn in Hn. intros C. rewrite Hn in C. discriminate.
Qed.

(* ---------- 4. function codes that forbid a reply ---------------------------------------------- *)

Lemma handle_controls_nr cfg s seq fid bytes hdrs s1 r o :
  handle_controls cfg s 6 seq fid bytes hdrs = (s1, r, o) -> r = None.
Proof.
  unfold handle_controls. change (6 =? fn_direct_operate_nr) with true. cbv iota.
  destruct (negb (all_controls hdrs)); [intros H; inversion H; reflexivity|].
  destruct (noack_headers s cfg 0 false hdrs) as [cbs started]. intros H; inversion H; reflexivity.
Qed.

Lemma hnr_no_reply cfg s fn seq fid bytes hdrs s1 r o :
  In fn [6; 8; 10; 12] -> handle_non_read cfg s fn seq fid bytes hdrs = (s1, r, o) -> r = None.
Proof.
  intros Hin. rewrite handle_non_read_eq.
  destruct (hnr_body cfg s fn seq fid bytes hdrs) as [[s' r'] o'] eqn:E.
  assert (Hr : r' = None).
  { cbn [In] in Hin. destruct Hin as [<-|[<-|[<-|[<-|[]]]]].
    - rewrite hnr_body_direct_operate_nr in E. eapply handle_controls_nr; exact E.
    - rewrite hnr_body_freeze_nr in E. destruct (handle_freeze cfg 0 hdrs). inversion E; reflexivity.
    - rewrite hnr_body_freeze_clear_nr in E. destruct (handle_freeze cfg 1 hdrs). inversion E; reflexivity.
    - rewrite hnr_body_freeze_at_time_nr in E. destruct (handle_freeze_at_time cfg None hdrs). inversion E; reflexivity. }
  subst r'. intros H; inversion H; reflexivity.
Qed.

(* A well-formed unicast CONFIRM, DIRECT_OPERATE_NR, IMMED_FREEZE_NR, FREEZE_CLEAR_NR or
   FREEZE_AT_TIME_NR processed from idle is not answered: no solicited fragment in the whole step
   (an unsolicited response the idle loop starts afterwards has function code 130).  The hypothesis
   on the classification excludes only the verbatim retransmission of a request for which a response
   was recorded; see the remark at solicited_repeat. *)
Theorem no_reply_functions : forall AP cfg s from bytes d answers ctl fn hdrs rh,
  Reach AP cfg s -> s_control s = CIdle ->
  to_treq cfg from d = TqRequest ctl fn (ObjOk hdrs rh) ->
  In fn [0; 6; 8; 10; 12] ->
  (forall r, classify s None bytes ctl fn (ObjOk hdrs rh) <> FtRepeatNonRead (Some r)) ->
  Forall not_sol (snd (ostep cfg s (ERx from None bytes d) answers)).
Proof.
  intros AP cfg s from bytes d answers ctl fn hdrs rh HR Hc Htq Hin Hnr.
  destruct (ostep cfg s (ERx from None bytes d) answers) as [s' out] eqn:E.
  destruct (ostep_rx_idle _ _ _ _ _ _ _ _ _ _ HR Hc E) as (s1 & o1 & rest & H1 & H2 & H3).
  cbn [snd]. subst out. apply Forall_app. split; [|exact H3]. apply no_tx_not_sol.
  rewrite handle_from_idle_eq, Htq in H1. cbv zeta in H1. rewrite classify_rx_state in H1.
  cbn [In] in Hin. destruct Hin as [<-|Hin].
  { unfold classify in H1. change (0 =? fn_confirm) with true in H1. cbv iota in H1.
    destruct (ctl_uns ctl); inversion H1; subst; repeat constructor. }
  assert (Hfn : (fn =? fn_confirm) = false /\ (fn =? fn_read) = false).
  { destruct Hin as [<-|[<-|[<-|[<-|[]]]]]; split; reflexivity. }
  destruct Hfn as [Hf0 Hf1].
  destruct (classify s None bytes ctl fn (ObjOk hdrs rh)) as [iin2|hdrs' rh'|resp hdrs' rh'|hdrs'|last|m|q|q] eqn:Ecl;
    unfold classify in Ecl; rewrite Hf0, Hf1 in Ecl;
    try (destruct (match s_last s with Some l => (lr_seq l =? ctl_seq ctl) && bytes_eqb (lr_bytes l) bytes | None => false end);
         discriminate).
  - destruct (handle_non_read cfg (rx_state s answers from None bytes d) fn (ctl_seq ctl) (frame_id_next s) bytes hdrs')
      as [[s2 r] o2] eqn:E2.
    pose proof (hnr_no_reply _ _ _ _ _ _ _ _ _ _ Hin E2) as Hr. subst r.
    apply handle_non_read_spec in E2. destruct E2 as (_ & E2 & _).
    rewrite hfi_finish_none in H1. inversion H1; subst. constructor; [exact I|exact E2].
  - destruct last as [r|]; [exfalso; apply (Hnr r); reflexivity|].
    rewrite hfi_finish_none in H1. inversion H1; subst. repeat constructor.
Qed.

(* ---------- 5. rejections are reported ---------------------------------------------------------- *)

(* a request the session does not execute, or of which it rejects some object header *)
Definition hdr_rejected (cfg : ocfg) (fn : N) (hdrs : list whdr) : Prop :=
  fn_executed fn = false \/
  (fn = 2 /\ existsb (write_rejects cfg) hdrs = true) \/
  (In fn [3; 4; 5] /\ existsb (fun h => negb (is_ctl_hdr h)) hdrs = true) \/
  ((fn = 7 \/ fn = 9) /\ existsb (freeze_rejects cfg) hdrs = true) \/
  (fn = 11 /\ existsb (freeze_at_time_rejects cfg) hdrs = true) \/
  ((fn = 20 \/ fn = 21) /\ (o_unsol cfg = false \/ existsb (fun h => negb (unsol_class_hdr h)) hdrs = true)) \/
  (In fn [13; 14; 23; 24] /\ hdrs <> []).

Lemma hnr_body_cold cfg s seq fid bytes hdrs :
  hnr_body cfg s 13 seq fid bytes hdrs =
  let '(s1, r) := restart_response seq s (o_cold cfg) in (s1, Some r, [OCb CbColdRestart]).
Proof. reflexivity. Qed.
Lemma hnr_body_warm cfg s seq fid bytes hdrs :
  hnr_body cfg s 14 seq fid bytes hdrs =
  let '(s1, r) := restart_response seq s (o_warm cfg) in (s1, Some r, [OCb CbWarmRestart]).
Proof. reflexivity. Qed.

Lemma hnr_rejected cfg s fn seq fid bytes hdrs s1 r o :
  hdr_rejected cfg fn hdrs -> handle_non_read cfg s fn seq fid bytes hdrs = (s1, r, o) ->
  exists r0, r = Some r0 /\ N.land (r_iin2 r0) 7 <> 0.
Proof.
  intros Hrej. rewrite handle_non_read_eq.
  destruct (hnr_body cfg s fn seq fid bytes hdrs) as [[s' r'] o'] eqn:E.
  assert (Hr : exists r0, r' = Some r0 /\ (N.land (r_iin2 r0) 7 <> 0 \/ N.land (hnr_extra fn hdrs) 7 <> 0)).
  { destruct Hrej as [Hd|[[-> Hw]|[[Hin Hc]|[[Hf Hz]|[[-> Hz]|[[Hf Hu]|[Hin Hne]]]]]]].
    - rewrite hnr_body_default in E by exact Hd. inversion E; subst. eexists. split; [reflexivity|].
      left. cbn. discriminate.
    - rewrite hnr_body_write in E. destruct (handle_write_headers cfg s hdrs) as [[s2 v] o2] eqn:E2.
      inversion E; subst. eexists. split; [reflexivity|]. left. cbn [empty_solicited r_iin2].
      eapply handle_write_headers_rejects; eassumption.
    - assert (E' : handle_controls cfg s fn seq fid bytes hdrs = (s', r', o')).
      { cbn [In] in Hin. destruct Hin as [<-|[<-|[<-|[]]]]; exact E. }
      rewrite handle_controls_rejects in E'; [|exact Hc|cbn [In] in Hin; destruct Hin as [<-|[<-|[<-|[]]]]; reflexivity].
      inversion E'; subst. eexists. split; [reflexivity|]. left. cbn. discriminate.
    - pose proof (handle_freeze_rejects cfg 0 hdrs Hz) as Hz0. pose proof (handle_freeze_rejects cfg 1 hdrs Hz) as Hz1.
      destruct Hf as [-> | ->].
      + rewrite hnr_body_freeze in E. destruct (handle_freeze cfg 0 hdrs) as [v o2]. inversion E; subst.
        eexists. split; [reflexivity|]. left. exact Hz0.
      + rewrite hnr_body_freeze_clear in E. destruct (handle_freeze cfg 1 hdrs) as [v o2]. inversion E; subst.
        eexists. split; [reflexivity|]. left. exact Hz1.
    - pose proof (handle_freeze_at_time_rejects cfg hdrs None Hz) as Hz0.
      rewrite hnr_body_freeze_at_time in E. destruct (handle_freeze_at_time cfg None hdrs) as [v o2]. inversion E; subst.
      eexists. split; [reflexivity|]. left. exact Hz0.
    - pose proof (enable_disable_rejects cfg s true seq hdrs Hu) as Ht.
      pose proof (enable_disable_rejects cfg s false seq hdrs Hu) as Hf'.
      destruct Hf as [-> | ->].
      + rewrite hnr_body_enable in E. destruct (enable_disable cfg s true seq hdrs) as [s2 r2]. inversion E; subst.
        eexists. split; [reflexivity|]. left. exact Ht.
      + rewrite hnr_body_disable in E. destruct (enable_disable cfg s false seq hdrs) as [s2 r2]. inversion E; subst.
        eexists. split; [reflexivity|]. left. exact Hf'.
    - assert (Hex : N.land (hnr_extra fn hdrs) 7 <> 0).
      { unfold hnr_extra. cbn [In] in Hin. destruct hdrs as [|h hdrs]; [contradiction|].
        destruct Hin as [<-|[<-|[<-|[<-|[]]]]]; cbn; discriminate. }
      cbn [In] in Hin. destruct Hin as [<-|[<-|[<-|[<-|[]]]]].
      + rewrite hnr_body_cold in E. destruct (restart_response seq s (o_cold cfg)) as [s2 r2]. inversion E; subst. eauto.
      + rewrite hnr_body_warm in E. destruct (restart_response seq s (o_warm cfg)) as [s2 r2]. inversion E; subst. eauto.
      + cbv [hnr_body] in E. change (23 =? fn_write) with false in E. change (23 =? fn_delay_measure) with true in E.
        cbv iota in E. inversion E; subst. eauto.
      + cbv [hnr_body] in E. change (24 =? fn_write) with false in E. change (24 =? fn_delay_measure) with false in E.
        change (24 =? fn_record_time) with true in E. cbv iota in E. inversion E; subst. eauto. }
  destruct Hr as (r0 & -> & Hr). intros H; inversion H; subst.
  eexists. split; [reflexivity|]. cbn [with_iin2 r_iin2]. destruct Hr as [Hr|Hr]; [apply land7_lor|apply land7_lor_r]; exact Hr.
Qed.

Definition reports_rejection (from seq : N) (out : list oobs) : Prop :=
  exists pre b post, out = pre ++ OTx from b :: post /\ Forall no_tx pre /\
    nth 1 b 0 = 129 /\ ctl_seq (nth 0 b 0) = seq /\ N.land (nth 3 b 0) 7 <> 0.

Lemma hfi_finish_reports cfg from seq bytes fn s1 r se o1 s' o :
  Forall no_tx o1 -> r_fn r = fn_response -> ctl_seq (r_ctl r) = seq -> N.land (r_iin2 r) 7 <> 0 ->
  hfi_finish cfg from seq bytes fn s1 (Some r) se false o1 = (s', o) ->
  reports_rejection from seq o.
Proof.
  intros Ho1 Hfn Hseq Hiin H. apply hfi_finish_some in H.
  destruct H as (s2 & r' & pre & post & _ & H2 & H3 & H4 & H5 & _).
  exists (OInfo (IIdleRequest fn seq) :: o1 ++ pre), (response_bytes r' (s_sol_buf s2)), post.
  split; [subst o; cbn [app]; rewrite <- app_assoc; reflexivity|].
  split; [constructor; [exact I|apply Forall_app; split; assumption]|].
  rewrite response_bytes_nth0, response_bytes_nth1, response_bytes_nth3.
  pose proof (sent_of_seq _ _ H2) as Hs. destruct H2 as (A & _ & _ & [x D]).
  split; [rewrite A; exact Hfn|]. split; [rewrite Hs; exact Hseq|]. rewrite D. apply land7_lor. exact Hiin.
Qed.

Theorem rejection_reported : forall AP cfg s from bytes d answers ctl fn obj,
  Reach AP cfg s -> s_control s = CIdle ->
  to_treq cfg from d = TqRequest ctl fn obj -> fn <> 0 ->
  (forall last, classify s None bytes ctl fn obj <> FtRepeatNonRead last) ->
  match obj with
  | ObjErr iin2 => N.land iin2 7 <> 0
  | ObjOk hdrs _ => fn <> 1 /\ hdr_rejected cfg fn hdrs
  end ->
  reports_rejection from (ctl_seq ctl) (snd (ostep cfg s (ERx from None bytes d) answers)).
Proof.
  intros AP cfg s from bytes d answers ctl fn obj HR Hc Htq Hf0 Hnr Hrej.
  destruct (ostep cfg s (ERx from None bytes d) answers) as [s' out] eqn:E.
  destruct (ostep_rx_idle _ _ _ _ _ _ _ _ _ _ HR Hc E) as (s1 & o1 & rest & H1 & H2 & H3).
  cbn [snd]. subst out.
  assert (Ho1 : reports_rejection from (ctl_seq ctl) o1).
  { rewrite handle_from_idle_eq, Htq in H1. cbv zeta in H1. rewrite classify_rx_state in H1.
    assert (Hf0' : (fn =? fn_confirm) = false) by (apply N.eqb_neq; exact Hf0).
    destruct obj as [iin2|hdrs rh].
    - unfold classify in H1. rewrite Hf0' in H1.
      refine (hfi_finish_reports _ _ _ _ _ _ _ _ _ _ _ _ _ _ _ H1); [constructor|reflexivity| |exact Hrej].
      cbn [empty_solicited r_ctl]. rewrite ctl_byte_seq. apply ctl_seq_idem.
    - destruct Hrej as [Hf1 Hrej]. assert (Hf1' : (fn =? fn_read) = false) by (apply N.eqb_neq; exact Hf1).
      destruct (classify s None bytes ctl fn (ObjOk hdrs rh)) as [iin2|hdrs' rh'|resp hdrs' rh'|hdrs'|last|m|q|q] eqn:Ecl;
        try (exfalso; unfold classify in Ecl; rewrite Hf0', Hf1' in Ecl;
             destruct (match s_last s with Some l => (lr_seq l =? ctl_seq ctl) && bytes_eqb (lr_bytes l) bytes | None => false end);
             discriminate).
      + assert (hdrs' = hdrs).
        { unfold classify in Ecl. rewrite Hf0', Hf1' in Ecl.
          destruct (match s_last s with Some l => (lr_seq l =? ctl_seq ctl) && bytes_eqb (lr_bytes l) bytes | None => false end);
            inversion Ecl; reflexivity. }
        subst hdrs'.
        destruct (handle_non_read cfg (rx_state s answers from None bytes d) fn (ctl_seq ctl) (frame_id_next s) bytes hdrs)
          as [[s2 r] o2] eqn:E2.
        destruct (hnr_rejected _ _ _ _ _ _ _ _ _ _ Hrej E2) as (r0 & -> & Hiin).
        apply handle_non_read_spec in E2. destruct E2 as (_ & E2 & E3). destruct (E3 r0 eq_refl) as [E4 E5].
        refine (hfi_finish_reports _ _ _ _ _ _ _ _ _ _ _ _ _ _ _ H1); [exact E2|exact E5| |exact Hiin].
        rewrite E4, ctl_byte_seq. apply ctl_seq_idem.
      + exfalso. exact (Hnr last eq_refl). }
  destruct Ho1 as (pre & b & post & G1 & G2 & G3).
  exists pre, b, (post ++ rest). split; [subst o1; rewrite <- app_assoc; reflexivity|]. split; assumption.
Qed.

Lemma land_lor_1 x : N.land (N.lor 1 x) 1 = 1.
Proof. apply land_lor_absorb. Qed.

(* unknown function codes and invalid header flags: answered with NO_FUNC_CODE_SUPPORT, with the
   sequence number of the offending fragment *)
Theorem header_error_reported : forall AP cfg s from bytes d answers q,
  Reach AP cfg s -> s_control s = CIdle ->
  to_treq cfg from d = TqError (Some q) ->
  exists pre b post,
    snd (ostep cfg s (ERx from None bytes d) answers) = pre ++ OTx from b :: post /\ Forall no_tx pre /\
    Forall not_sol post /\
    nth 1 b 0 = 129 /\ ctl_seq (nth 0 b 0) = q mod 16 /\ N.land (nth 3 b 0) 1 = 1.
Proof.
  intros AP cfg s from bytes d answers q HR Hc Htq.
  destruct (ostep cfg s (ERx from None bytes d) answers) as [s' out] eqn:E.
  destruct (ostep_rx_idle _ _ _ _ _ _ _ _ _ _ HR Hc E) as (s1 & o1 & rest & H1 & H2 & H3).
  cbn [snd]. subst out. rewrite handle_from_idle_eq, Htq in H1.
  apply write_error_response_spec in H1. destruct H1 as [_ (r' & pre & G1 & G2 & G3)].
  exists pre, (response_bytes r' (s_sol_buf s1)), rest.
  split; [subst o1; rewrite <- app_assoc; reflexivity|]. split; [exact G3|]. split; [exact H3|].
  rewrite response_bytes_nth0, response_bytes_nth1, response_bytes_nth3.
  pose proof (sent_of_seq _ _ G1) as Hs. destruct G1 as (A & _ & _ & [x D]).
  split; [exact A|]. split; [rewrite Hs; cbn [empty_solicited r_ctl]; apply ctl_byte_seq|].
  rewrite D. apply land_lor_1.
Qed.

(* ---------- 2 (continued). the fragment after a solicited confirm; the deferred READ ------------- *)

Lemma seq16_next_idem q : seq16_next q mod 16 = seq16_next q.
Proof. unfold seq16_next. lia. Qed.

(* A CONFIRM with the expected sequence number, received while a non-final fragment of a response
   series awaits confirmation, is followed by the next fragment: to the confirming master, FIR
   clear, sequence number = confirmed sequence + 1 mod 16.  Nothing else solicited is sent. *)
Theorem next_fragment_sequence : forall AP cfg s answers from bytes d se dl r ctl obj,
  Reach AP cfg s ->
  s_control s = CSolWait se dl r -> se_fin se = false ->
  to_treq cfg from d = TqRequest ctl 0 obj -> ctl_uns ctl = false -> ctl_seq ctl = se_ecsn se ->
  exists pre b post,
    snd (on_rx cfg (upd_answers s answers) from None bytes d) = pre ++ OTx from b :: post /\
    Forall no_tx pre /\ Forall not_sol post /\ nth 1 b 0 = 129 /\
    ctl_seq (nth 0 b 0) = seq16_next (se_ecsn se) /\ N.testbit (nth 0 b 0) 7 = false.
Proof.
  intros AP cfg s answers from bytes d se dl r ctl obj HR Hc Hfin Htq Huns Hseq.
  pose proof (Reach_J cfg AP s HR) as [J1 J2].
  assert (Hd : s_deferred s = None) by (apply J2; rewrite Hc; reflexivity).
  unfold on_rx.
  set (s0 := upd_frame_id (upd_answers s answers) ((s_frame_id (upd_answers s answers) + 1) mod 4294967296)).
  change (s_control s0) with (s_control s). rewrite Hc.
  assert (Hsw : sol_wait_fragment cfg s0 se dl from None bytes d = (SoConfirmed from, [OInfo (ISolConfirmed (se_ecsn se))])).
  { unfold sol_wait_fragment. rewrite Htq. unfold classify. change (0 =? fn_confirm) with true. cbv iota.
    rewrite Huns, Hseq, N.eqb_refl. reflexivity. }
  rewrite Hsw, Hfin.
  match goal with |- context [format_read_response ?a ?b ?c ?e] =>
    destruct (format_read_response a b c e) as [[[s2 rsp] next] o2] eqn:E2 end.
  apply format_read_response_spec in E2.
  destruct E2 as (B1 & B2 & B3 & _ & (fin & con & B4 & _) & _).
  destruct (write_solicited s2 from rsp) as [[s3 rsp'] o3] eqn:E3.
  apply write_solicited_spec in E3. destruct E3 as (C1 & (pre3 & C2 & C3) & C4 & C5 & C6 & C7).
  assert (Hsent : sent_of rsp rsp') by exact (conj C4 (conj C5 (conj C6 C7))).
  pose proof (sc_trans _ _ _ B1 C1) as S. destruct S as (_ & _ & _ & _ & _ & S6 & _ & S8 & _). cbn in S6, S8.
  assert (Hb : nth 1 (response_bytes rsp' (s_sol_buf s3)) 0 = 129 /\
               ctl_seq (nth 0 (response_bytes rsp' (s_sol_buf s3)) 0) = seq16_next (se_ecsn se) /\
               N.testbit (nth 0 (response_bytes rsp' (s_sol_buf s3)) 0) 7 = false).
  { rewrite response_bytes_nth0, response_bytes_nth1. split; [rewrite C4; exact B3|]. split.
    - rewrite (sent_of_seq _ _ Hsent), B4, ctl_byte_seq. apply seq16_next_idem.
    - rewrite (sent_of_fir _ _ Hsent), B4. apply ctl_byte_fir. }
  destruct next as [n|].
  - exists ([OInfo (ISolConfirmed (se_ecsn se))] ++ [ODb DbClearWritten] ++ o2 ++ pre3), (response_bytes rsp' (s_sol_buf s3)), [].
    cbn [snd]. split; [subst o3; rewrite <- !app_assoc; reflexivity|].
    split; [repeat (apply Forall_app; split); auto; repeat constructor|]. split; [constructor|exact Hb].
  - match goal with |- context [resume_at cfg ?a ?b] => destruct (resume_at cfg a b) as [s5 o5] eqn:E5 end.
    apply resume_at_quiet in E5; [|split; cbn; congruence].
    exists ([OInfo (ISolConfirmed (se_ecsn se))] ++ [ODb DbClearWritten] ++ o2 ++ pre3), (response_bytes rsp' (s_sol_buf s3)), o5.
    cbn [snd]. split; [subst o3; rewrite <- !app_assoc; reflexivity|].
    split; [repeat (apply Forall_app; split); auto; repeat constructor|]. split; [tauto|exact Hb].
Qed.

(* A READ received while an unsolicited confirmation is awaited is deferred: nothing is sent, its
   bytes, sequence number and source are recorded ... *)
Theorem deferred_read_recorded : forall cfg s resp from bytes d fid ctl obj hdrs rh,
  to_treq cfg from d = TqRequest ctl fn_read obj ->
  (classify s None bytes ctl fn_read obj = FtNewRead hdrs rh \/
   exists last, classify s None bytes ctl fn_read obj = FtRepeatRead last hdrs rh) ->
  exists s',
    unsol_wait_fragment cfg s resp from None bytes d fid = (s', None, []) /\
    exists x, s_deferred s' = Some {| df_bytes := bytes; df_seq := ctl_seq ctl; df_from := from; df_iin2 := x |}.
Proof.
  intros cfg s resp from bytes d fid ctl obj hdrs rh Htq Hcl. unfold unsol_wait_fragment. rewrite Htq.
  destruct Hcl as [Hcl|[last Hcl]]; rewrite Hcl; eexists; (split; [reflexivity|]); cbn; eauto.
Qed.

(* ... and when the wait is over, handle_deferred_read answers it with one solicited fragment
   (FIR set) addressed to the recorded source and carrying the recorded sequence number *)
Theorem deferred_read_answered : forall cfg s ns df,
  s_deferred s = Some df ->
  exists pre b post,
    snd (handle_deferred cfg s ns) = pre ++ OTx (df_from df) b :: post /\
    Forall no_tx pre /\ Forall no_tx post /\ nth 1 b 0 = 129 /\
    ctl_seq (nth 0 b 0) = df_seq df mod 16 /\ N.testbit (nth 0 b 0) 7 = true /\
    s_deferred (fst (handle_deferred cfg s ns)) = None.
Proof.
  intros cfg s ns df Hd. destruct (handle_deferred cfg s ns) as [s' o] eqn:E.
  eapply handle_deferred_some in E; [|exact Hd].
  destruct E as (s3 & r & r' & pre & post & se' & G1 & (fin & con & G2) & _ & G4 & G5 & G6 & G7 & _ & G9 & _).
  exists pre, (response_bytes r' (s_sol_buf s3)), post. cbn [fst snd].
  split; [exact G5|]. split; [exact G6|]. split; [exact G7|].
  rewrite response_bytes_nth0, response_bytes_nth1.
  split; [destruct G4 as (A & _); rewrite A; exact G1|].
  split; [rewrite (sent_of_seq _ _ G4), G2; apply ctl_byte_seq|].
  split; [rewrite (sent_of_fir _ _ G4), G2; apply ctl_byte_fir|exact G9].
Qed.

(* ---------- 7. fragments of a foreign master (session half of C07) -------------------------------- *)

Lemma upd_control_same s : upd_control s (s_control s) = s.
Proof. destruct s; reflexivity. Qed.

(* With a configured master address and `from` another address, on_rx only advances the frame
   counter; when idle, the idle loop is entered at its unsolicited stage exactly as after any
   wake-up.  The right-hand side does not mention from, bc, bytes or d.  (In a reachable state
   s_pending s = None, so `upd_pending _ None` changes nothing.) *)
Theorem foreign_master_inert : forall cfg s from bc bytes d,
  o_any_master cfg = false -> from <> o_master cfg ->
  on_rx cfg s from bc bytes d =
  match s_control s with
  | CIdle => idle_run 31 cfg St2 (upd_pending (upd_frame_id s (frame_id_next s)) None)
  | _ => (upd_frame_id s (frame_id_next s), [])
  end.
Proof.
  intros cfg s from bc bytes d Ham Hfrom.
  assert (Htq : to_treq cfg from d = TqNone).
  { unfold to_treq. rewrite Ham. apply N.eqb_neq in Hfrom. rewrite Hfrom. reflexivity. }
  destruct (s_control s) as [|se dl r|resp is_null retries dl] eqn:Ec.
  - rewrite on_rx_idle by exact Ec. cbv zeta. rewrite handle_from_idle_eq, Htq.
    change (s_control (upd_pending (upd_pending (upd_frame_id s (frame_id_next s)) (Some (from, bc, bytes, d, frame_id_next s))) None))
      with (s_control s). rewrite Ec.
    change (upd_pending (upd_pending (upd_frame_id s (frame_id_next s)) (Some (from, bc, bytes, d, frame_id_next s))) None)
      with (upd_pending (upd_frame_id s (frame_id_next s)) None).
    destruct (idle_run 31 cfg St2 (upd_pending (upd_frame_id s (frame_id_next s)) None)) as [s2 o2]. reflexivity.
  - unfold on_rx. fold (frame_id_next s).
    change (s_control (upd_frame_id s (frame_id_next s))) with (s_control s). rewrite Ec.
    unfold sol_wait_fragment. rewrite Htq.
    replace (CSolWait se dl r) with (s_control (upd_frame_id s (frame_id_next s))) by exact Ec.
    rewrite upd_control_same. reflexivity.
  - unfold on_rx. fold (frame_id_next s).
    change (s_control (upd_frame_id s (frame_id_next s))) with (s_control s). rewrite Ec.
    unfold unsol_wait_fragment. rewrite Htq. reflexivity.
Qed.

(* the whole step: the fragment is replaced by nothing *)
Theorem foreign_master_step : forall cfg s from bc bytes d answers,
  o_any_master cfg = false -> from <> o_master cfg ->
  ostep cfg s (ERx from bc bytes d) answers =
  let s0 := upd_frame_id (upd_answers s answers) (frame_id_next s) in
  let '(s1, o1) := match s_control s with
                   | CIdle => idle_run 31 cfg St2 (upd_pending s0 None)
                   | _ => (s0, [])
                   end in
  let '(s2, o2) := advance 64 cfg s1 (s_now s1 + settle_ms) in (s2, o1 ++ o2).
Proof.
  intros cfg s from bc bytes d answers Ham Hfrom. unfold ostep.
  rewrite foreign_master_inert by assumption. cbv zeta.
  change (s_control (upd_answers s answers)) with (s_control s).
  change (frame_id_next (upd_answers s answers)) with (frame_id_next s).
  destruct (match s_control s with
            | CIdle => idle_run 31 cfg St2 (upd_pending (upd_frame_id (upd_answers s answers) (frame_id_next s)) None)
            | _ => (upd_frame_id (upd_answers s answers) (frame_id_next s), [])
            end) as [s1 o1].
  destruct (advance 64 cfg s1 (s_now s1 + settle_ms)) as [s2 o2]. reflexivity.
Qed.

(* in particular two fragments of foreign masters are indistinguishable, and nothing of the state
   but the frame counter changes before the idle loop / the timers run *)
Corollary foreign_master_indistinguishable : forall cfg s answers from bc bytes d from' bc' bytes' d',
  o_any_master cfg = false -> from <> o_master cfg -> from' <> o_master cfg ->
  ostep cfg s (ERx from bc bytes d) answers = ostep cfg s (ERx from' bc' bytes' d') answers.
Proof. intros. rewrite !foreign_master_step by assumption. reflexivity. Qed.

(* from a reachable state on_rx transmits no solicited response for such a fragment *)
Corollary foreign_master_no_reply : forall AP cfg s answers from bc bytes d,
  Reach AP cfg s -> o_any_master cfg = false -> from <> o_master cfg ->
  Forall not_sol (snd (on_rx cfg (upd_answers s answers) from bc bytes d)).
Proof.
  intros AP cfg s answers from bc bytes d HR Ham Hfrom. rewrite foreign_master_inert by assumption.
  pose proof (Reach_J cfg AP s HR) as [J1 J2].
  change (s_control (upd_answers s answers)) with (s_control s).
  destruct (s_control s) eqn:Ec; try (cbn [snd]; constructor).
  destruct (idle_run 31 cfg St2 (upd_pending (upd_frame_id (upd_answers s answers) (frame_id_next (upd_answers s answers))) None))
    as [s2 o2] eqn:E.
  apply idle_run_quiet in E; [exact (proj2 E)|]. split; [reflexivity|]. cbn. apply J2. reflexivity.
Qed.

(* ---------- 8. broadcasts are never answered (session half of C07) -------------------------------- *)

Lemma classify_bcast s m bytes ctl fn obj : classify s (Some m) bytes ctl fn obj = FtBroadcast m.
Proof. reflexivity. Qed.

Lemma hfi_bcast cfg s from m bytes d fid s' o :
  handle_from_idle cfg s from (Some m) bytes d fid = (s', o) -> Forall no_tx o.
Proof.
  rewrite handle_from_idle_eq. destruct (to_treq cfg from d) as [|sq|ctl fn obj].
  - intros H; inversion H; subst. constructor.
  - intros H. apply write_error_response_spec in H. destruct H as [_ H]. subst o. constructor.
  - cbv zeta. rewrite classify_bcast.
    destruct (process_broadcast cfg s m fid ctl fn bytes obj) as [s1 o1] eqn:E.
    apply process_broadcast_spec in E. destruct E as [_ E].
    intros H; inversion H; subst. constructor; [exact I|exact E].
Qed.

(* the result of unsol_wait_fragment for a broadcast: a DISABLE_UNSOLICITED that the broadcast
   processes cancels the series (fix F30), nothing else ends the wait *)
Definition bcast_unsol_result (cfg : ocfg) (from : N) (d : digest) : option unsol_result :=
  match to_treq cfg from d with
  | TqRequest _ fn obj => if bcast_disable_processed cfg fn obj then Some UrReturnToIdle else None
  | _ => None
  end.

(* in the unsolicited confirm wait a broadcast confirms nothing and is not answered; it ends the wait
   only as a processed DISABLE_UNSOLICITED, and then no deferred READ is left *)
Lemma uwf_bcast cfg s resp from m bytes d fid s' res o :
  unsol_wait_fragment cfg s resp from (Some m) bytes d fid = (s', res, o) ->
  res = bcast_unsol_result cfg from d /\ Forall no_tx o /\
  (s_deferred s = None -> s_deferred s' = None) /\ (res <> None -> s_deferred s' = None).
Proof.
  unfold unsol_wait_fragment, bcast_unsol_result. destruct (to_treq cfg from d) as [|sq|ctl fn obj].
  - intros H; inversion H; subst. split; [reflexivity|]. split; [constructor|]. split; [auto|intros C; contradiction].
  - destruct (write_error_response (upd_deferred s None) from (Some m) sq) as [s1 o1] eqn:E.
    apply write_error_response_spec in E. destruct E as [E1 E2]. subst o1.
    intros H; inversion H; subst. split; [reflexivity|]. split; [constructor|].
    destruct E1 as (_ & _ & _ & _ & _ & E1 & _). split; intros _; exact E1.
  - rewrite classify_bcast.
    destruct (process_broadcast cfg (upd_deferred s None) m fid ctl fn bytes obj) as [s1 o1] eqn:E.
    apply process_broadcast_spec in E. destruct E as [E1 E2].
    intros H; inversion H; subst. split; [reflexivity|]. split; [exact E2|].
    destruct E1 as (_ & _ & _ & _ & _ & E1 & _). split; intros _; exact E1.
Qed.

(* in the solicited confirm wait a broadcast never confirms: it is ignored (foreign master) or aborts
   the series as a new request *)
Lemma swf_bcast cfg s se dl from m bytes d :
  sol_wait_fragment cfg s se dl from (Some m) bytes d = (SoStay dl, []) \/
  sol_wait_fragment cfg s se dl from (Some m) bytes d = (SoNewRequest, [OInfo ISolNewRequest]).
Proof.
  unfold sol_wait_fragment. destruct (to_treq cfg from d) as [|sq|ctl fn obj]; auto.
Qed.

Definition calm (s : ostate) : Prop :=
  s_deferred s = None /\
  match s_pending s with Some (_, bc, _, _, _) => bc <> None | None => True end.

Lemma idle_run_calm cfg fuel : forall st s s' o,
  calm s -> idle_run fuel cfg st s = (s', o) -> calm s' /\ Forall not_sol o.
Proof.
  induction fuel as [|f IH]; intros st s s' o [Q1 Q2] H; cbn [idle_run] in H.
  { inversion H; subst. split; [split; assumption|repeat constructor]. }
  destruct st as [| |ns|ns].
  - destruct (match s_pending s with
              | Some (from, bc, bytes, d, fid) => handle_from_idle cfg (upd_pending s None) from bc bytes d fid
              | None => (s, [])
              end) as [s1 o1] eqn:E1.
    assert (H1 : calm s1 /\ Forall not_sol o1).
    { destruct (s_pending s) as [[[[[from bc] bytes] d] fid]|] eqn:Epen.
      - destruct bc as [m|]; [|contradiction].
        pose proof (hfi_bcast _ _ _ _ _ _ _ _ _ E1) as Hn.
        apply handle_from_idle_frame in E1. destruct E1 as [A _].
        destruct A as (_ & _ & _ & A4 & _ & A6 & _). cbn in A4, A6.
        split; [split; [congruence|rewrite A6; exact I]|apply no_tx_not_sol; exact Hn].
      - inversion E1; subst. split; [split; [exact Q1|rewrite Epen; exact I]|constructor]. }
    destruct H1 as [C1 Ho1].
    destruct (s_control s1).
    + destruct (idle_run f cfg St2 s1) as [s2 o2] eqn:E2. apply IH in E2; [|exact C1].
      inversion H; subst. split; [tauto|apply Forall_app; tauto].
    + inversion H; subst. split; assumption.
    + inversion H; subst. split; assumption.
  - destruct (check_unsolicited cfg s) as [[s2 ns] o2] eqn:E2.
    pose proof (check_unsolicited_notsol _ _ _ _ _ E2) as Ho2.
    apply check_unsolicited_frame in E2. destruct E2 as (_ & A & _).
    destruct A as (_ & _ & _ & A4 & A5 & _).
    assert (C2 : calm s2) by (split; [congruence|rewrite A5; exact Q2]).
    destruct (s_control s2) as [|se dl r|resp is_null retries dl].
    + destruct (idle_run f cfg (St3 false) s2) as [s3 o3] eqn:E3. apply IH in E3; [|exact C2].
      inversion H; subst. split; [tauto|apply Forall_app; tauto].
    + inversion H; subst. split; assumption.
    + destruct C2 as [D1 D2].
      destruct (s_pending s2) as [[[[[from bc] bytes] d] fid]|] eqn:Epen.
      2:{ inversion H; subst. split; [split; [exact D1|rewrite Epen; exact I]|exact Ho2]. }
      destruct bc as [m|]; [|contradiction].
      destruct (unsol_wait_fragment cfg (upd_pending s2 None) resp from (Some m) bytes d fid) as [[s3 res] o3] eqn:E3.
      pose proof (uwf_bcast _ _ _ _ _ _ _ _ _ _ _ E3) as (_ & U2 & U3 & _).
      apply unsol_wait_fragment_frame in E3. destruct E3 as [C _].
      destruct C as (_ & _ & _ & _ & _ & C6 & _). cbn in C6.
      assert (C3 : calm s3) by (split; [apply U3; exact D1|rewrite C6; exact I]).
      destruct res as [r|].
      * destruct (end_unsol cfg s3 is_null r) as [[s4 ns'] o4] eqn:E4.
        apply end_unsol_frame in E4. destruct E4 as (_ & _ & F3 & F4 & _ & _ & _ & _ & _ & _ & F11).
        destruct (idle_run f cfg (St3 ns') s4) as [s5 o5] eqn:E5.
        apply IH in E5; [|destruct C3 as [G1 G2]; split; [congruence|rewrite F4; exact G2]].
        inversion H; subst. split; [tauto|].
        apply Forall_app. split; [exact Ho2|]. apply Forall_app. split; [apply no_tx_not_sol; exact U2|].
        apply Forall_app. split; [apply no_tx_not_sol; exact F11|tauto].
      * inversion H; subst. split; [exact C3|].
        apply Forall_app. split; [exact Ho2|apply no_tx_not_sol; exact U2].
  - rewrite handle_deferred_none in H by exact Q1. destruct (s_control s).
    + destruct (idle_run f cfg (St4 ns) s) as [s4 o4] eqn:E4. apply IH in E4; [|split; assumption].
      inversion H; subst. exact E4.
    + inversion H; subst. split; [split; assumption|constructor].
    + inversion H; subst. split; [split; assumption|constructor].
  - destruct (s_pending s) eqn:Epen.
    + apply IH in H; [exact H|]. split; [exact Q1|rewrite Epen; exact Q2].
    + destruct ns; [apply IH in H; [exact H|split; [exact Q1|rewrite Epen; exact I]]|].
      destruct (s_notify s); [apply IH in H; [exact H|split; [exact Q1|cbn; rewrite Epen; exact I]]|].
      inversion H; subst. split; [split; [exact Q1|rewrite Epen; exact I]|constructor].
Qed.

Lemma resume_at_calm cfg st s s' o : calm s -> resume_at cfg st s = (s', o) -> calm s' /\ Forall not_sol o.
Proof. unfold resume_at. apply idle_run_calm. Qed.

Lemma idle_loop_calm cfg n s s' o : calm s -> idle_loop n cfg s = (s', o) -> calm s' /\ Forall not_sol o.
Proof. unfold idle_loop. apply idle_run_calm. Qed.

(* For a fragment that arrived by broadcast, whatever it holds (CONFIRM, malformed objects, an
   unknown function code, invalid header flags) and whatever the session is doing, on_rx transmits no
   solicited response.  (The idle loop may go on to send an UNSOLICITED response, function code 130 -
   e.g. after a broadcast ENABLE_UNSOLICITED; the settle time of the step may see a timeout end an
   unsolicited wait, after which a READ deferred BEFORE the broadcast is answered - unless the
   broadcast was processed, which drops the deferred READ.) *)
Theorem no_solicited_tx_for_broadcast : forall AP cfg s answers from m bytes d,
  Reach AP cfg s ->
  Forall not_sol (snd (on_rx cfg (upd_answers s answers) from (Some m) bytes d)).
Proof.
  intros AP cfg s answers from m bytes d HR.
  pose proof (Reach_J cfg AP s HR) as [J1 J2].
  unfold on_rx.
  set (fid := (s_frame_id (upd_answers s answers) + 1) mod 4294967296).
  set (s0 := upd_frame_id (upd_answers s answers) fid).
  change (s_control s0) with (s_control s).
  destruct (s_control s) as [|se dl r|resp is_null retries dl] eqn:Ec.
  - destruct (idle_loop 8 cfg (upd_pending s0 (Some (from, Some m, bytes, d, fid)))) as [s1 o1] eqn:E.
    apply idle_loop_calm in E; [exact (proj2 E)|]. split; [cbn; apply J2; reflexivity|cbn; discriminate].
  - assert (Hd : s_deferred s = None) by (apply J2; reflexivity).
    destruct (swf_bcast cfg s0 se dl from m bytes d) as [Hs|Hs]; rewrite Hs.
    + cbn [snd]. constructor.
    + match goal with |- context [resume_at cfg ?a ?b] => destruct (resume_at cfg a b) as [s2 o2] eqn:E2 end.
      apply resume_at_calm in E2; [|split; [exact Hd|cbn; discriminate]].
      cbn [snd]. constructor; [exact I|]. constructor; [exact I|tauto].
  - destruct (unsol_wait_fragment cfg s0 resp from (Some m) bytes d fid) as [[s1 res] o1] eqn:E1.
    pose proof (uwf_bcast _ _ _ _ _ _ _ _ _ _ _ E1) as (_ & U2 & _ & U4).
    apply unsol_wait_fragment_frame in E1. destruct E1 as [C _].
    destruct C as (_ & _ & _ & _ & _ & C6 & _). cbn in C6.
    destruct res as [r|]; [|cbn [snd]; apply no_tx_not_sol; exact U2].
    destruct (end_unsol cfg s1 is_null r) as [[s2 ns] o2] eqn:E2.
    apply end_unsol_frame in E2. destruct E2 as (_ & _ & F3 & F4 & _ & _ & _ & _ & _ & _ & F11).
    destruct (resume_at cfg (St3 ns) s2) as [s3 o3] eqn:E3.
    apply resume_at_calm in E3.
    2:{ split; [rewrite F3; apply U4; discriminate|rewrite F4, C6, J1; exact I]. }
    cbn [snd]. apply Forall_app. split; [apply no_tx_not_sol; exact U2|].
    apply Forall_app. split; [apply no_tx_not_sol; exact F11|tauto].
Qed.

(* a broadcast CONFIRM completes neither kind of confirm wait; the only broadcast that ends an
   unsolicited confirm wait is a DISABLE_UNSOLICITED the outstation processes (fix F30), which cancels
   the series (UrReturnToIdle, never UrConfirmed) *)
Theorem broadcast_confirms_nothing : forall cfg s from m bytes d,
  (forall se dl, exists oc o, sol_wait_fragment cfg s se dl from (Some m) bytes d = (oc, o) /\
                              forall x, oc <> SoConfirmed x) /\
  (forall resp fid, snd (fst (unsol_wait_fragment cfg s resp from (Some m) bytes d fid)) =
                    match to_treq cfg from d with
                    | TqRequest _ fn obj => if bcast_disable_processed cfg fn obj then Some UrReturnToIdle else None
                    | _ => None
                    end).
Proof.
  intros cfg s from m bytes d. split.
  - intros se dl. destruct (swf_bcast cfg s se dl from m bytes d) as [H|H]; rewrite H; eexists; eexists;
      (split; [reflexivity|discriminate]).
  - intros resp fid. destruct (unsol_wait_fragment cfg s resp from (Some m) bytes d fid) as [[s1 res] o1] eqn:E.
    apply uwf_bcast in E. cbn [fst snd]. exact (proj1 E).
Qed.

(* ---------- 3. numbering of unsolicited responses ------------------------------------------------ *)

(* the unsolicited fragments (function code 130) among the observations, in order *)
Definition unsol_bytes (o : oobs) : option (list N) :=
  match o with OTx _ b => if nth 1 b 0 =? 130 then Some b else None | _ => None end.

Fixpoint unsol_txs (o : list oobs) : list (list N) :=
  match o with
  | [] => []
  | x :: rest => match unsol_bytes x with Some b => b :: unsol_txs rest | None => unsol_txs rest end
  end.

(* each unsolicited fragment either repeats its predecessor byte for byte (a retry) or carries the
   predecessor's sequence number + 1 mod 16 *)
Fixpoint chain_ok (prev : option (list N)) (l : list (list N)) : Prop :=
  match l with
  | [] => True
  | b :: rest =>
      match prev with
      | Some p => b = p \/ ctl_seq (nth 0 b 0) = seq16_next (ctl_seq (nth 0 p 0))
      | None => True
      end /\ chain_ok (Some b) rest
  end.

Fixpoint last_tx (prev : option (list N)) (l : list (list N)) : option (list N) :=
  match l with [] => prev | b :: rest => last_tx (Some b) rest end.

Lemma unsol_txs_app a b : unsol_txs (a ++ b) = unsol_txs a ++ unsol_txs b.
Proof.
  induction a as [|x a IH]; cbn [app unsol_txs]; [reflexivity|].
  destruct (unsol_bytes x); rewrite IH; reflexivity.
Qed.

Lemma last_tx_app l1 : forall prev l2, last_tx prev (l1 ++ l2) = last_tx (last_tx prev l1) l2.
Proof. induction l1 as [|b l1 IH]; intros prev l2; cbn [app last_tx]; [reflexivity|apply IH]. Qed.

Lemma chain_ok_app l1 : forall prev l2,
  chain_ok prev (l1 ++ l2) <-> chain_ok prev l1 /\ chain_ok (last_tx prev l1) l2.
Proof.
  induction l1 as [|b l1 IH]; intros prev l2; cbn [app chain_ok last_tx]; [tauto|].
  rewrite IH. tauto.
Qed.

Lemma no_tx_no_unsol o : Forall no_tx o -> unsol_txs o = [].
Proof.
  induction 1 as [|x o Hx Ho IH]; [reflexivity|]. cbn [unsol_txs].
  destruct x; try exact IH. destruct Hx.
Qed.

Lemma sobs_no_unsol szok o : Forall (sobs_ok szok) o -> unsol_txs o = [].
Proof.
  induction 1 as [|x o Hx Ho IH]; [reflexivity|]. cbn [unsol_txs].
  destruct x; try exact IH. cbn [unsol_bytes].
  destruct Hx as (r & buf & -> & (A & _)). rewrite response_bytes_nth1, A. exact IH.
Qed.

(* the state against the last unsolicited fragment transmitted so far *)
Definition U (s : ostate) (prev : option (list N)) : Prop :=
  s_unsol_seq s < 16 /\
  (forall p, prev = Some p -> seq16_next (ctl_seq (nth 0 p 0)) = s_unsol_seq s) /\
  (forall resp n k dl, s_control s = CUnsolWait resp n k dl -> prev = Some (response_bytes resp (s_unsol_buf s))).

Definition Ustep (prev : option (list N)) (s' : ostate) (o : list oobs) : Prop :=
  chain_ok prev (unsol_txs o) /\ U s' (last_tx prev (unsol_txs o)).

Lemma Ustep_silent s prev s' o :
  U s prev -> unsol_txs o = [] ->
  s_unsol_seq s' = s_unsol_seq s -> s_unsol_buf s' = s_unsol_buf s ->
  (s_control s' = s_control s \/ is_unsol_wait (s_control s') = false) ->
  Ustep prev s' o.
Proof.
  intros (U1 & U2 & U3) Ho Hs Hb Hc. unfold Ustep. rewrite Ho. cbn [chain_ok last_tx]. split; [exact I|].
  split; [rewrite Hs; exact U1|]. split; [intros p Hp; rewrite Hs; auto|].
  intros resp n k dl Hc'. destruct Hc as [Hc|Hc].
  - rewrite Hb. apply (U3 resp n k dl). congruence.
  - rewrite Hc' in Hc. discriminate.
Qed.

Lemma Ustep_nil s prev : U s prev -> Ustep prev s [].
Proof. intros H. eapply Ustep_silent; eauto. Qed.

Lemma Ustep_app prev s1 o1 s2 o2 :
  Ustep prev s1 o1 -> Ustep (last_tx prev (unsol_txs o1)) s2 o2 -> Ustep prev s2 (o1 ++ o2).
Proof.
  intros [A1 A2] [B1 B2]. unfold Ustep. rewrite unsol_txs_app, chain_ok_app, last_tx_app. tauto.
Qed.

(* observations without unsolicited fragments in front change nothing *)
Lemma Ustep_pre prev s' pre o : unsol_txs pre = [] -> Ustep prev s' o -> Ustep prev s' (pre ++ o).
Proof. intros Hp [A B]. unfold Ustep. rewrite unsol_txs_app, Hp. exact (conj A B). Qed.

Lemma Ustep_post prev s' o post : unsol_txs post = [] -> Ustep prev s' o -> Ustep prev s' (o ++ post).
Proof. intros Hp [A B]. unfold Ustep. rewrite unsol_txs_app, Hp, app_nil_r. exact (conj A B). Qed.

Section Numbering.
  Variable cfg : ocfg.

  Notation IAa := (IA szany).

  Lemma handle_from_idle_U s prev from bc bytes d fid s' o :
    IAa s -> U s prev -> handle_from_idle cfg s from bc bytes d fid = (s', o) -> Ustep prev s' o.
  Proof.
    intros HI HU H.
    pose proof (handle_from_idle_IA cfg szany szany_small (szany_tx cfg) _ _ _ _ _ _ _ _ HI H) as [_ Ho].
    apply handle_from_idle_frame in H. destruct H as [A B].
    destruct A as (_ & _ & A3 & _ & A5 & _).
    eapply Ustep_silent; [exact HU|eapply sobs_no_unsol; exact Ho|exact A3|exact A5|].
    destruct B as [B|[x B]]; [left; exact B|right; rewrite B; reflexivity].
  Qed.

  Lemma unsol_wait_fragment_U s prev resp from bc bytes d fid s' res o :
    IAa s -> U s prev -> unsol_wait_fragment cfg s resp from bc bytes d fid = (s', res, o) -> Ustep prev s' o.
  Proof.
    intros HI HU H.
    pose proof (unsol_wait_fragment_IA cfg szany szany_small (szany_tx cfg) _ _ _ _ _ _ _ _ _ _ HI H) as [_ Ho].
    apply unsol_wait_fragment_frame in H. destruct H as [A _].
    destruct A as (_ & A2 & _ & A4 & A5 & _).
    eapply Ustep_silent; [exact HU|eapply sobs_no_unsol; exact Ho|exact A4|exact A5|left; exact A2].
  Qed.

  Lemma handle_deferred_U s prev ns s' o :
    IAa s -> U s prev -> handle_deferred cfg s ns = (s', o) -> Ustep prev s' o.
  Proof.
    intros HI HU H.
    pose proof (handle_deferred_IA cfg szany szany_small _ _ _ _ HI H) as [_ Ho].
    destruct (s_deferred s) as [df|] eqn:Ed.
    - eapply handle_deferred_some in H; [|exact Ed].
      destruct H as (s3 & r & r' & pre & post & se' & _ & _ & _ & _ & _ & _ & _ & _ & _ & _ & _ & G4 & G5 & _ & _ & _ & _ & G6).
      eapply Ustep_silent; [exact HU|eapply sobs_no_unsol; exact Ho|exact G4|exact G5|].
      destruct G6 as [G6|[x G6]]; [left; exact G6|right; rewrite G6; reflexivity].
    - rewrite handle_deferred_none in H by exact Ed. inversion H; subst. apply Ustep_nil. exact HU.
  Qed.

  Lemma end_unsol_U s prev is_null res s' ns o :
    U s prev -> end_unsol cfg s is_null res = (s', ns, o) -> Ustep prev s' o.
  Proof.
    intros HU H. apply end_unsol_frame in H.
    destruct H as (F1 & _ & _ & _ & _ & F6 & F7 & _ & _ & _ & F11).
    eapply Ustep_silent; [exact HU|apply no_tx_no_unsol; exact F11|exact F6|exact F7|].
    right. rewrite F1. reflexivity.
  Qed.

  (* a NEW unsolicited response takes the sequence number s_unsol_seq and advances it *)
  Lemma start_unsol_U s prev seq n is_null s' o :
    seq < 16 -> s_unsol_seq s = seq16_next seq ->
    (forall p, prev = Some p -> seq16_next (ctl_seq (nth 0 p 0)) = seq) ->
    start_unsol cfg s (unsol_header seq n) is_null = (s', o) -> Ustep prev s' o.
  Proof.
    intros Hlt Hs Hp H. apply start_unsol_spec in H.
    destruct H as (s1 & r1 & pre & E1 & E2 & E3 & E4 & E5 & E6 & E7).
    destruct E1 as (_ & _ & _ & _ & S5 & _ & S7 & _).
    assert (Hseq : ctl_seq (r_ctl r1) = seq).
    { rewrite E4. cbn [unsol_header r_ctl]. rewrite ctl_byte_seq. apply N.mod_small. exact Hlt. }
    subst o. apply Ustep_pre; [apply no_tx_no_unsol; exact E7|].
    unfold Ustep. cbn [unsol_txs unsol_bytes]. rewrite response_bytes_nth1, E2. cbn [unsol_header r_fn].
    change (fn_unsol_response =? 130) with true. cbv iota. cbn [chain_ok last_tx]. split.
    - split; [|exact I]. destruct prev as [p|]; [|exact I]. right.
      rewrite response_bytes_nth0, Hseq. symmetry. apply Hp. reflexivity.
    - subst s'. split; [cbn; rewrite S5, Hs; apply seq16_next_lt|]. split.
      + intros p Hp'. inversion Hp'; subst p. rewrite response_bytes_nth0, Hseq. cbn. rewrite S5, Hs. reflexivity.
      + intros resp n0 k dl Hc. cbn in Hc. inversion Hc; subst. reflexivity.
  Qed.

  Lemma check_unsolicited_U s prev s' ns o :
    U s prev -> check_unsolicited cfg s = (s', ns, o) -> is_unsol_wait (s_control s) = false -> Ustep prev s' o.
  Proof.
    intros HU H Hc. pose proof HU as (U1 & U2 & U3). revert H. unfold check_unsolicited.
    destruct (negb (o_unsol cfg)).
    { intros H; inversion H; subst. apply Ustep_nil. exact HU. }
    destruct (s_unsol s) as [|deadline].
    { match goal with |- context [start_unsol cfg ?a ?b ?c] => destruct (start_unsol cfg a b c) as [s2 o2] eqn:E end.
      apply start_unsol_U with (prev := prev) in E; [|exact U1|reflexivity|exact U2].
      intros H; inversion H; subst. exact E. }
    destruct (negb match deadline with Some t => (t <=? s_now s)%Z | None => true end).
    { intros H; inversion H; subst. apply Ustep_nil. exact HU. }
    destruct (negb (any_enabled s)).
    { intros H; inversion H; subst. apply Ustep_nil. exact HU. }
    destruct (ask_unsol s) as [s1 [count body]] eqn:E0. apply ask_unsol_spec in E0.
    destruct E0 as (_ & T2 & _ & _ & T5 & _ & T7 & _).
    destruct (s_enabled s) as [[c1 c2] c3].
    destruct (count =? 0).
    { intros H; inversion H; subst. eapply Ustep_silent; [exact HU|reflexivity|exact T5|exact T7|left; exact T2]. }
    match goal with |- context [start_unsol cfg ?a ?b ?c] => destruct (start_unsol cfg a b c) as [s3 o3] eqn:E end.
    apply start_unsol_U with (prev := prev) in E; [|rewrite T5; exact U1|reflexivity|intros p Hp; rewrite T5; auto].
    intros H; inversion H; subst. apply (Ustep_pre prev s' [ODb (DbWriteUnsol c1 c2 c3)]); [reflexivity|exact E].
  Qed.

  Lemma idle_run_U fuel : forall st s prev s' o,
    IAa s -> U s prev -> is_unsol_wait (s_control s) = false ->
    idle_run fuel cfg st s = (s', o) -> Ustep prev s' o.
  Proof.
    induction fuel as [|f IH]; intros st s prev s' o HI HU Hc H; cbn [idle_run] in H.
    { inversion H; subst. eapply Ustep_silent; [exact HU|reflexivity|reflexivity|reflexivity|left; reflexivity]. }
    destruct st as [| |ns|ns].
    - (* St1 *)
      destruct (match s_pending s with
                | Some (from, bc, bytes, d, fid) => handle_from_idle cfg (upd_pending s None) from bc bytes d fid
                | None => (s, [])
                end) as [s1 o1] eqn:E1.
      assert (H1 : IAa s1 /\ Ustep prev s1 o1).
      { destruct (s_pending s) as [[[[[from bc] bytes] d] fid]|].
        - split.
          + exact (proj1 (handle_from_idle_IA cfg szany szany_small (szany_tx cfg) (upd_pending s None) _ _ _ _ _ _ _ HI E1)).
          + eapply handle_from_idle_U; [| |exact E1]; [exact HI|exact HU].
        - inversion E1; subst. split; [exact HI|apply Ustep_nil; exact HU]. }
      destruct H1 as [HI1 HU1].
      destruct (s_control s1) eqn:Ec1; [|inversion H; subst; exact HU1..].
      destruct (idle_run f cfg St2 s1) as [s2 o2] eqn:E2.
      apply IH with (prev := last_tx prev (unsol_txs o1)) in E2; [|exact HI1|exact (proj2 HU1)|rewrite Ec1; reflexivity].
      inversion H; subst. eapply Ustep_app; eassumption.
    - (* St2 *)
      destruct (check_unsolicited cfg s) as [[s2 ns] o2] eqn:E2.
      pose proof (check_unsolicited_IA cfg szany _ _ _ _ HI E2) as [HI2 _].
      apply check_unsolicited_U with (prev := prev) in E2; [|exact HU|exact Hc].
      destruct (s_control s2) as [|se dl r|resp is_null retries dl] eqn:Ec2.
      + destruct (idle_run f cfg (St3 false) s2) as [s3 o3] eqn:E3.
        apply IH with (prev := last_tx prev (unsol_txs o2)) in E3; [|exact HI2|exact (proj2 E2)|rewrite Ec2; reflexivity].
        inversion H; subst. eapply Ustep_app; eassumption.
      + inversion H; subst. exact E2.
      + destruct (s_pending s2) as [[[[[from bc] bytes] d] fid]|]; [|inversion H; subst; exact E2].
        destruct (unsol_wait_fragment cfg (upd_pending s2 None) resp from bc bytes d fid) as [[s3 res] o3] eqn:E3.
        pose proof (unsol_wait_fragment_IA cfg szany szany_small (szany_tx cfg) (upd_pending s2 None) _ _ _ _ _ _ _ _ _ HI2 E3) as [HI3 _].
        apply unsol_wait_fragment_U with (prev := last_tx prev (unsol_txs o2)) in E3; [|exact HI2|exact (proj2 E2)].
        pose proof (Ustep_app _ _ _ _ _ E2 E3) as E23.
        destruct res as [r|]; [|inversion H; subst; exact E23].
        destruct (end_unsol cfg s3 is_null r) as [[s4 ns4] o4] eqn:E4.
        pose proof (end_unsol_IA cfg szany _ _ _ _ _ _ HI3 E4) as [HI4 _].
        pose proof (end_unsol_frame _ _ _ _ _ _ _ E4) as (F1 & _).
        apply end_unsol_U with (prev := last_tx prev (unsol_txs (o2 ++ o3))) in E4; [|exact (proj2 E23)].
        pose proof (Ustep_app _ _ _ _ _ E23 E4) as E234.
        destruct (idle_run f cfg (St3 ns4) s4) as [s5 o5] eqn:E5.
        apply IH with (prev := last_tx prev (unsol_txs ((o2 ++ o3) ++ o4))) in E5;
          [|exact HI4|exact (proj2 E234)|rewrite F1; reflexivity].
        inversion H; subst.
        replace (o2 ++ o3 ++ o4 ++ o5) with (((o2 ++ o3) ++ o4) ++ o5) by (rewrite <- !app_assoc; reflexivity).
        eapply Ustep_app; eassumption.
    - (* St3 *)
      destruct (handle_deferred cfg s ns) as [s3 o3] eqn:E3.
      pose proof (handle_deferred_IA cfg szany szany_small _ _ _ _ HI E3) as [HI3 _].
      apply handle_deferred_U with (prev := prev) in E3; [|exact HI|exact HU].
      destruct (s_control s3) eqn:Ec3; [|inversion H; subst; exact E3..].
      destruct (idle_run f cfg (St4 ns) s3) as [s4 o4] eqn:E4.
      apply IH with (prev := last_tx prev (unsol_txs o3)) in E4; [|exact HI3|exact (proj2 E3)|rewrite Ec3; reflexivity].
      inversion H; subst. eapply Ustep_app; eassumption.
    - (* St4 *)
      destruct (s_pending s); [eapply IH; eassumption|].
      destruct ns; [eapply IH; eassumption|].
      destruct (s_notify s); [eapply IH; [| | |exact H]; [exact HI|exact HU|exact Hc]|].
      inversion H; subst. apply Ustep_nil. exact HU.
  Qed.
End Numbering.

Section Numbering2.
  Variable cfg : ocfg.
  Notation IAa := (IA szany).

  Lemma U_upd_control s prev c : U s prev -> is_unsol_wait c = false -> U (upd_control s c) prev.
  Proof.
    intros (U1 & U2 & U3) Hc. split; [exact U1|]. split; [exact U2|].
    intros resp n k dl H. cbn in H. rewrite H in Hc. discriminate.
  Qed.

  Lemma resume_at_U st s prev s' o :
    IAa s -> U s prev -> is_unsol_wait (s_control s) = false -> resume_at cfg st s = (s', o) -> Ustep prev s' o.
  Proof. unfold resume_at. apply idle_run_U. Qed.

  Lemma idle_loop_U n s prev s' o :
    IAa s -> U s prev -> is_unsol_wait (s_control s) = false -> idle_loop n cfg s = (s', o) -> Ustep prev s' o.
  Proof. unfold idle_loop. apply idle_run_U. Qed.

  Lemma fire_deadline_U s prev s' o :
    IAa s -> U s prev -> fire_deadline cfg s = (s', o) -> Ustep prev s' o.
  Proof.
    intros HI HU. unfold fire_deadline. destruct (s_control s) as [|se dl r|resp is_null retries dl] eqn:Ec.
    - apply resume_at_U; [exact HI|exact HU|rewrite Ec; reflexivity].
    - destruct (resume_at cfg (stage_of r) (upd_control s CIdle)) as [s1 o1] eqn:E.
      apply resume_at_U with (prev := prev) in E;
        [|apply IA_upd_control_idle; exact HI|apply U_upd_control; [exact HU|reflexivity]|reflexivity].
      intros H; inversion H; subst. apply (Ustep_pre prev s' [OInfo (ISolTimeout (se_ecsn se)); ODb DbReset]); [reflexivity|exact E].
    - assert (Hresp : r_fn resp = 130). { destruct HI as [[_ I2] _]. rewrite Ec in I2. exact (proj1 I2). }
      pose proof HU as (U1 & U2 & U3).
      match goal with |- (if ?c then _ else _) = _ -> _ => destruct c end.
      + intros H; inversion H; subst. unfold repeat_unsolicited.
        apply (Ustep_pre prev _ [OInfo (IUnsolTimeout (ctl_seq (r_ctl resp)) true)]); [reflexivity|].
        unfold Ustep. cbn [unsol_txs unsol_bytes]. rewrite response_bytes_nth1, Hresp. cbn [N.eqb Pos.eqb chain_ok last_tx].
        rewrite (U3 _ _ _ _ Ec). split; [split; [left; reflexivity|exact I]|].
        split; [exact U1|]. split.
        * intros p Hp. apply U2. rewrite (U3 _ _ _ _ Ec). exact Hp.
        * intros resp0 n k dl0 Hc. cbn in Hc. inversion Hc; subst. reflexivity.
      + destruct (end_unsol cfg s is_null UrTimeout) as [[s1 ns] o1] eqn:E1.
        pose proof (end_unsol_IA cfg szany _ _ _ _ _ _ HI E1) as [HI1 _].
        pose proof (end_unsol_frame _ _ _ _ _ _ _ E1) as (F1 & _).
        apply end_unsol_U with (prev := prev) in E1; [|exact HU].
        destruct (resume_at cfg (St3 ns) s1) as [s2 o2] eqn:E2.
        apply resume_at_U with (prev := last_tx prev (unsol_txs o1)) in E2; [|exact HI1|exact (proj2 E1)|rewrite F1; reflexivity].
        intros H; inversion H; subst.
        apply (Ustep_pre prev s' [OInfo (IUnsolTimeout (ctl_seq (r_ctl resp)) false)]); [reflexivity|].
        eapply Ustep_app; eassumption.
  Qed.

  Lemma advance_U fuel : forall s prev target s' o,
    IAa s -> U s prev -> advance fuel cfg s target = (s', o) -> Ustep prev s' o.
  Proof.
    induction fuel as [|f IH]; intros s prev target s' o HI HU H; cbn [advance] in H.
    { inversion H; subst. eapply Ustep_silent; [exact HU|reflexivity|reflexivity|reflexivity|left; reflexivity]. }
    destruct (next_deadline cfg s) as [d|];
      [|inversion H; subst; eapply Ustep_silent; [exact HU|reflexivity|reflexivity|reflexivity|left; reflexivity]].
    destruct (d <=? target)%Z;
      [|inversion H; subst; eapply Ustep_silent; [exact HU|reflexivity|reflexivity|reflexivity|left; reflexivity]].
    destruct (fire_deadline cfg (upd_now s (Z.max d (s_now s)))) as [s1 o1] eqn:E1.
    pose proof (fire_deadline_IA cfg szany szany_small (szany_tx cfg) (upd_now s (Z.max d (s_now s))) _ _ HI E1) as [HI1 _].
    apply fire_deadline_U with (prev := prev) in E1; [|exact HI|exact HU].
    destruct (advance f cfg s1 target) as [s2 o2] eqn:E2.
    apply IH with (prev := last_tx prev (unsol_txs o1)) in E2; [|exact HI1|exact (proj2 E1)].
    inversion H; subst. apply (Ustep_pre prev s' [OAt (Z.max d (s_now s))]); [reflexivity|].
    eapply Ustep_app; eassumption.
  Qed.

  Lemma on_rx_U s prev from bc bytes d s' o :
    IAa s -> U s prev -> on_rx cfg s from bc bytes d = (s', o) -> Ustep prev s' o.
  Proof.
    intros HI HU. unfold on_rx.
    set (fid := (s_frame_id s + 1) mod 4294967296).
    assert (HI0 : IAa (upd_frame_id s fid)) by exact HI.
    assert (HU0 : U (upd_frame_id s fid) prev) by exact HU.
    destruct (s_control (upd_frame_id s fid)) as [|se dl r|resp is_null retries dl] eqn:Ec.
    - apply idle_loop_U; [exact HI0|exact HU0|]. cbn. cbn in Ec. rewrite Ec. reflexivity.
    - destruct (sol_wait_fragment cfg (upd_frame_id s fid) se dl from bc bytes d) as [oc o1] eqn:E1.
      pose proof (sol_wait_fragment_ok cfg szany _ _ _ _ _ _ _ _ _ HI0 E1) as Ho1. apply sobs_no_unsol in Ho1.
      destruct oc as [dl'|respond_to|].
      + intros H; inversion H; subst.
        eapply Ustep_silent; [exact HU0|exact Ho1|reflexivity|reflexivity|right; reflexivity].
      + destruct (se_fin se).
        * match goal with |- context [resume_at cfg ?a ?b] => destruct (resume_at cfg a b) as [s2 o2] eqn:E2 end.
          apply resume_at_U with (prev := prev) in E2;
            [|apply IA_upd_control_idle; exact HI0|apply U_upd_control; [exact HU0|reflexivity]|reflexivity].
          intros H; inversion H; subst. apply Ustep_pre; [exact Ho1|].
          apply (Ustep_pre prev s' [ODb DbClearWritten]); [reflexivity|exact E2].
        * match goal with |- context [format_read_response ?a ?b ?c ?e] =>
            destruct (format_read_response a b c e) as [[[s2 rsp] next] o2] eqn:E2 end.
          apply format_read_response_spec in E2.
          destruct E2 as (B1 & B2 & B3 & _ & (fin & con & B4 & _) & (c & e & b & B5 & B6)).
          assert (HI2 : IAa s2) by (eapply IA_sc; [exact B1|exact HI0]).
          assert (Hr : sol_resp szany rsp).
          { split; [exact B3|]. split; [rewrite B4; apply ctl_byte_uns|exact I]. }
          destruct (write_solicited s2 respond_to rsp) as [[s3 rsp'] o3] eqn:E3.
          pose proof (write_solicited_spec _ _ _ _ _ _ E3) as (C1 & _).
          apply (write_solicited_IA szany) in E3; [|exact HI2|exact Hr]. destruct E3 as (F1 & F2 & F3).
          apply sobs_no_unsol in F3.
          pose proof (sc_trans _ _ _ B1 C1) as S. destruct S as (_ & _ & _ & _ & S5 & _ & S7 & _). cbn in S5, S7.
          match goal with |- context [upd_last s3 ?x] => set (nl := x) end.
          assert (HI4 : IAa (upd_last s3 nl)).
          { destruct F1 as [[I1 I2] I3]. split; [split|]; [|exact I2|exact I3].
            cbn. subst nl. intros l r0 Hl Hr0. destruct (s_last s3) as [l0|]; [|discriminate].
            inversion Hl; subst. cbn in Hr0. inversion Hr0; subst. exact F2. }
          assert (Hno : unsol_txs (o1 ++ [ODb DbClearWritten] ++ o2 ++ o3) = []).
          { rewrite !unsol_txs_app, Ho1, F3, (no_tx_no_unsol _ B2). reflexivity. }
          destruct next as [n|].
          -- intros H; inversion H; subst.
             eapply Ustep_silent; [exact HU0|exact Hno|exact S5|exact S7|right; reflexivity].
          -- match goal with |- context [resume_at cfg ?a ?b] => destruct (resume_at cfg a b) as [s5 o5] eqn:E5 end.
             apply resume_at_U with (prev := prev) in E5; [|apply IA_upd_control_idle; exact HI4| |reflexivity].
             2:{ destruct HU0 as (U1 & U2 & U3). split; [cbn; rewrite S5; exact U1|].
                 split; [intros p Hp; cbn; rewrite S5; auto|]. intros resp n k dl0 Hc. discriminate. }
             intros H; inversion H; subst.
             apply Ustep_pre; [exact Ho1|]. apply (Ustep_pre prev s' [ODb DbClearWritten]); [reflexivity|].
             apply Ustep_pre; [apply no_tx_no_unsol; exact B2|]. apply Ustep_pre; [exact F3|exact E5].
      + match goal with |- context [resume_at cfg ?a ?b] => destruct (resume_at cfg a b) as [s2 o2] eqn:E2 end.
        apply resume_at_U with (prev := prev) in E2;
          [|apply IA_upd_pending, IA_upd_control_idle; exact HI0|apply U_upd_control; [exact HU0|reflexivity]|reflexivity].
        intros H; inversion H; subst. apply Ustep_pre; [exact Ho1|].
        apply (Ustep_pre prev s' [ODb DbReset]); [reflexivity|exact E2].
    - destruct (unsol_wait_fragment cfg (upd_frame_id s fid) resp from bc bytes d fid) as [[s1 res] o1] eqn:E1.
      pose proof (unsol_wait_fragment_IA cfg szany szany_small (szany_tx cfg) _ _ _ _ _ _ _ _ _ _ HI0 E1) as [HI1 _].
      apply unsol_wait_fragment_U with (prev := prev) in E1; [|exact HI0|exact HU0].
      destruct res as [r|]; [|intros H; inversion H; subst; exact E1].
      destruct (end_unsol cfg s1 is_null r) as [[s2 ns] o2] eqn:E2.
      pose proof (end_unsol_IA cfg szany _ _ _ _ _ _ HI1 E2) as [HI2 _].
      pose proof (end_unsol_frame _ _ _ _ _ _ _ E2) as (F1 & _).
      apply end_unsol_U with (prev := last_tx prev (unsol_txs o1)) in E2; [|exact (proj2 E1)].
      pose proof (Ustep_app _ _ _ _ _ E1 E2) as E12.
      destruct (resume_at cfg (St3 ns) s2) as [s3 o3] eqn:E3.
      apply resume_at_U with (prev := last_tx prev (unsol_txs (o1 ++ o2))) in E3; [|exact HI2|exact (proj2 E12)|rewrite F1; reflexivity].
      intros H; inversion H; subst. rewrite app_assoc. eapply Ustep_app; eassumption.
  Qed.

  Lemma ostep_U s prev ev answers s' o :
    Inv szany s -> U s prev -> ostep cfg s ev answers = (s', o) -> Ustep prev s' o.
  Proof.
    intros HInv HU.
    assert (HI0 : IAa (upd_answers s answers)) by (split; [exact HInv|apply Forall_aok_any]).
    assert (HU0 : U (upd_answers s answers) prev) by exact HU.
    unfold ostep. destruct ev as [from bc bytes d|ms| |sel op|v|].
    - destruct (on_rx cfg (upd_answers s answers) from bc bytes d) as [s1 o1] eqn:E1.
      pose proof (on_rx_IA cfg szany szany_small (szany_tx cfg) _ _ _ _ _ _ _ HI0 E1) as [HI1 _].
      apply on_rx_U with (prev := prev) in E1; [|exact HI0|exact HU0].
      destruct (advance 64 cfg s1 (s_now s1 + settle_ms)) as [s2 o2] eqn:E2.
      apply advance_U with (prev := last_tx prev (unsol_txs o1)) in E2; [|exact HI1|exact (proj2 E1)].
      intros H; inversion H; subst. eapply Ustep_app; eassumption.
    - destruct (advance 4096 cfg (upd_answers s answers) (s_now (upd_answers s answers) + ms)) as [s1 o1] eqn:E1.
      apply advance_U with (prev := prev) in E1; [|exact HI0|exact HU0]. intros H; inversion H; subst. exact E1.
    - destruct (match s_control (upd_answers s answers) with
                | CIdle => idle_loop 8 cfg (upd_answers s answers)
                | _ => (upd_notify (upd_answers s answers) true, [])
                end) as [s1 o1] eqn:E1.
      assert (H1 : IAa s1 /\ Ustep prev s1 o1).
      { destruct (s_control (upd_answers s answers)) eqn:Ec.
        - split; [exact (proj1 (idle_loop_IA cfg szany szany_small (szany_tx cfg) _ _ _ _ HI0 E1))|].
          eapply idle_loop_U; [exact HI0|exact HU0|rewrite Ec; reflexivity|exact E1].
        - inversion E1; subst. split; [exact HI0|apply Ustep_nil; exact HU0].
        - inversion E1; subst. split; [exact HI0|apply Ustep_nil; exact HU0]. }
      destruct H1 as [HI1 HU1].
      destruct (advance 64 cfg s1 (s_now s1 + settle_ms)) as [s2 o2] eqn:E2.
      apply advance_U with (prev := last_tx prev (unsol_txs o1)) in E2; [|exact HI1|exact (proj2 HU1)].
      intros H; inversion H; subst. eapply Ustep_app; eassumption.
    - intros H; inversion H; subst. apply Ustep_nil. exact HU0.
    - intros H; inversion H; subst. apply Ustep_nil. exact HU0.
    - match goal with |- context [idle_loop 8 cfg ?a] => set (sr := a) end.
      assert (HIr : IAa sr).
      { destruct HI0 as [[I1 I2] I3]. split; [split|]; [|exact I|exact I3]. cbn. discriminate. }
      assert (HUr : U sr prev).
      { destruct HU0 as (U1 & U2 & U3). split; [exact U1|]. split; [exact U2|]. intros resp n k dl Hc. discriminate. }
      destruct (idle_loop 8 cfg sr) as [s2 o2] eqn:E2.
      pose proof (idle_loop_IA cfg szany szany_small (szany_tx cfg) _ _ _ _ HIr E2) as [HI2 _].
      apply idle_loop_U with (prev := prev) in E2; [|exact HIr|exact HUr|reflexivity].
      destruct (advance 64 cfg s2 (s_now s2 + settle_ms)) as [s3 o3] eqn:E3.
      apply advance_U with (prev := last_tx prev (unsol_txs o2)) in E3; [|exact HI2|exact (proj2 E2)].
      intros H; inversion H; subst.
      apply (Ustep_pre prev s' [ODb DbReset; OSessionEnd]); [reflexivity|]. eapply Ustep_app; eassumption.
  Qed.

  Lemma ostart_U sel op iin a0 s' o : ostart cfg sel op iin a0 = (s', o) -> Ustep None s' o.
  Proof.
    unfold ostart. apply idle_loop_U.
    - split; [split|apply Forall_aok_any]; [|exact I]. cbn. discriminate.
    - split; [cbn; lia|]. split; [discriminate|]. intros resp n k dl Hc. discriminate.
    - reflexivity.
  Qed.

  Lemma orun_U evs : forall s prev,
    Inv szany s -> U s prev -> chain_ok prev (unsol_txs (concat (orun cfg s evs))).
  Proof.
    induction evs as [|[ev ans] evs IH]; intros s prev HInv HU; cbn [orun concat unsol_txs chain_ok]; [exact I|].
    destruct (ostep cfg s ev ans) as [s1 o1] eqn:E. cbn [concat].
    pose proof (ostep_IA cfg szany szany_small (szany_tx cfg) _ _ _ _ _ HInv (Forall_aok_any ans) E) as [[HInv1 _] _].
    apply ostep_U with (prev := prev) in E; [|exact HInv|exact HU].
    rewrite unsol_txs_app, chain_ok_app. split; [exact (proj1 E)|]. apply IH; [exact HInv1|exact (proj2 E)].
  Qed.
End Numbering2.

(* all observations of a run: start-up, then one list per event *)
Definition run_obs (cfg : ocfg) (sel op iin : N) (a0 : list answer) (evs : list (oevent * list answer)) : list oobs :=
  snd (ostart cfg sel op iin a0) ++ concat (orun cfg (fst (ostart cfg sel op iin a0)) evs).

(* Trace statement: along any run, each unsolicited fragment either repeats its predecessor byte for
   byte (a retry) or carries the predecessor's sequence number + 1 mod 16. *)
Theorem unsolicited_numbering : forall cfg sel op iin a0 evs,
  chain_ok None (unsol_txs (run_obs cfg sel op iin a0 evs)).
Proof.
  intros cfg sel op iin a0 evs. unfold run_obs.
  destruct (ostart cfg sel op iin a0) as [s0 o0] eqn:E. cbn [fst snd].
  pose proof (ostart_IA cfg szany szany_small (szany_tx cfg) _ _ _ _ _ _ (Forall_aok_any a0) E) as [[HInv _] _].
  apply ostart_U in E. rewrite unsol_txs_app, chain_ok_app. split; [exact (proj1 E)|].
  apply orun_U; [exact HInv|exact (proj2 E)].
Qed.

(* the state after a run *)
Fixpoint ofinal (cfg : ocfg) (s : ostate) (evs : list (oevent * list answer)) : ostate :=
  match evs with
  | [] => s
  | (ev, ans) :: rest => ofinal cfg (fst (ostep cfg s ev ans)) rest
  end.

Lemma orun_U_final cfg evs : forall s prev,
  Inv szany s -> U s prev -> U (ofinal cfg s evs) (last_tx prev (unsol_txs (concat (orun cfg s evs)))).
Proof.
  induction evs as [|[ev ans] evs IH]; intros s prev HInv HU; cbn [orun concat unsol_txs last_tx ofinal]; [exact HU|].
  destruct (ostep cfg s ev ans) as [s1 o1] eqn:E. cbn [concat fst].
  pose proof (ostep_IA cfg szany szany_small (szany_tx cfg) _ _ _ _ _ HInv (Forall_aok_any ans) E) as [[HInv1 _] _].
  apply ostep_U with (prev := prev) in E; [|exact HInv|exact HU].
  rewrite unsol_txs_app, last_tx_app. apply IH; [exact HInv1|exact (proj2 E)].
Qed.

(* The session state against the trace: s_unsol_seq is the successor of the sequence number of the
   last unsolicited fragment sent, and while a confirmation is awaited the fragment kept for retries
   IS that last fragment. *)
Theorem unsolicited_state_tracks_trace : forall cfg sel op iin a0 evs,
  U (ofinal cfg (fst (ostart cfg sel op iin a0)) evs) (last_tx None (unsol_txs (run_obs cfg sel op iin a0 evs))).
Proof.
  intros cfg sel op iin a0 evs. unfold run_obs.
  destruct (ostart cfg sel op iin a0) as [s0 o0] eqn:E. cbn [fst snd].
  pose proof (ostart_IA cfg szany szany_small (szany_tx cfg) _ _ _ _ _ _ (Forall_aok_any a0) E) as [[HInv _] _].
  apply ostart_U in E. rewrite unsol_txs_app, last_tx_app. apply orun_U_final; [exact HInv|exact (proj2 E)].
Qed.

Lemma start_unsol_new cfg s seq n is_null s' o :
  seq < 16 -> start_unsol cfg s (unsol_header seq n) is_null = (s', o) ->
  exists resp k dl b,
    s_control s' = CUnsolWait resp is_null k dl /\ b = response_bytes resp (s_unsol_buf s') /\
    unsol_txs o = [b] /\ nth 1 b 0 = 130 /\ 240 <= nth 0 b 0 /\ ctl_seq (nth 0 b 0) = seq /\
    s_unsol_seq s' = s_unsol_seq s /\ In (OTx (o_master cfg) b) o.
Proof.
  intros Hlt H. apply start_unsol_spec in H.
  destruct H as (s1 & r1 & pre & E1 & E2 & E3 & E4 & E5 & E6 & E7).
  destruct E1 as (_ & _ & _ & _ & S5 & _ & S7 & _).
  exists r1, (if is_null then Some 0%nat else o_retries cfg), (confirm_deadline cfg s1), (response_bytes r1 (s_unsol_buf s1)).
  subst s' o. split; [reflexivity|]. split; [reflexivity|].
  rewrite unsol_txs_app, (no_tx_no_unsol _ E7). cbn [app unsol_txs unsol_bytes].
  rewrite response_bytes_nth0, response_bytes_nth1, E2, E4. cbn [unsol_header r_fn r_ctl].
  change (fn_unsol_response =? 130) with true. cbv iota.
  split; [reflexivity|]. split; [reflexivity|]. split; [apply ctl_byte_unsol_ge|].
  split; [rewrite ctl_byte_seq; apply N.mod_small; exact Hlt|]. split; [exact S5|].
  apply in_or_app. right. left. reflexivity.
Qed.

(* each NEW unsolicited response (null or data) takes s_unsol_seq and advances it mod 16 *)
Theorem new_unsolicited_sequence : forall cfg s s' ns o,
  s_unsol_seq s < 16 -> check_unsolicited cfg s = (s', ns, o) ->
  (unsol_txs o = [] /\ s_unsol_seq s' = s_unsol_seq s /\ s_control s' = s_control s) \/
  (exists resp n k dl b,
     s_control s' = CUnsolWait resp n k dl /\ b = response_bytes resp (s_unsol_buf s') /\
     unsol_txs o = [b] /\ nth 1 b 0 = 130 /\ 240 <= nth 0 b 0 /\ ctl_seq (nth 0 b 0) = s_unsol_seq s /\
     s_unsol_seq s' = seq16_next (s_unsol_seq s) /\ In (OTx (o_master cfg) b) o).
Proof.
  intros cfg s s' ns o Hlt. unfold check_unsolicited.
  destruct (negb (o_unsol cfg)); [intros H; inversion H; subst; left; auto|].
  destruct (s_unsol s) as [|deadline].
  { match goal with |- context [start_unsol cfg ?a ?b ?c] => destruct (start_unsol cfg a b c) as [s2 o2] eqn:E end.
    apply start_unsol_new in E; [|exact Hlt]. destruct E as (resp & k & dl & b & G1 & G2 & G3 & G4 & G5 & G6 & G7 & G8).
    intros H; inversion H; subst s2 o2. right. exists resp, true, k, dl, b. repeat split; auto. }
  destruct (negb match deadline with Some t => (t <=? s_now s)%Z | None => true end); [intros H; inversion H; subst; left; auto|].
  destruct (negb (any_enabled s)); [intros H; inversion H; subst; left; auto|].
  destruct (ask_unsol s) as [s1 [count body]] eqn:E0. apply ask_unsol_spec in E0.
  destruct E0 as (_ & T2 & _ & _ & T5 & _).
  destruct (s_enabled s) as [[c1 c2] c3].
  destruct (count =? 0); [intros H; inversion H; subst; left; auto|].
  match goal with |- context [start_unsol cfg ?a ?b ?c] => destruct (start_unsol cfg a b c) as [s3 o3] eqn:E end.
  apply start_unsol_new in E; [|rewrite T5; exact Hlt].
  destruct E as (resp & k & dl & b & G1 & G2 & G3 & G4 & G5 & G6 & G7 & G8).
  intros H; inversion H; subst s3 o. right. exists resp, false, k, dl, b.
  cbn in G7. rewrite T5 in G6, G7. repeat split; auto. right. exact G8.
Qed.

(* a retry re-sends the fragment kept in the wait state: same bytes, hence same sequence number,
   and s_unsol_seq is not touched *)
Theorem unsolicited_retry_same_bytes : forall cfg s resp n k dl,
  s_control s = CUnsolWait resp n k dl ->
  k <> Some 0%nat -> s_deferred s = None ->
  fire_deadline cfg s =
  (upd_control s (CUnsolWait resp n (match k with Some (S m) => Some m | x => x end) (confirm_deadline cfg s)),
   [OInfo (IUnsolTimeout (ctl_seq (r_ctl resp)) true); OTx (o_master cfg) (response_bytes resp (s_unsol_buf s))]).
Proof.
  intros cfg s resp n k dl Hc Hk Hd. unfold fire_deadline. rewrite Hc, Hd.
  destruct k as [[|m]|]; [contradiction| |]; reflexivity.
Qed.

Lemma Reach_U AP cfg s : Reach AP cfg s -> exists prev, U s prev.
Proof.
  induction 1 as [sel op iin a0 Ha|s ev ans HR IH Ha].
  - destruct (ostart cfg sel op iin a0) as [s' o] eqn:E. apply ostart_U in E. cbn [fst]. eexists. exact (proj2 E).
  - destruct IH as [prev IH]. pose proof (Reach_Inv_any _ _ _ HR) as HInv.
    destruct (ostep cfg s ev ans) as [s' o] eqn:E. apply ostep_U with (prev := prev) in E; [|exact HInv|exact IH].
    cbn [fst]. eexists. exact (proj2 E).
Qed.

Theorem unsol_seq_bounded : forall AP cfg s, Reach AP cfg s -> s_unsol_seq s < 16.
Proof. intros AP cfg s HR. destruct (Reach_U _ _ _ HR) as [prev (H & _)]. exact H. Qed.

(* reachability of the state after a run (used by the non-vacuity examples) *)
Lemma Reach_ofinal AP cfg evs : forall s,
  Reach AP cfg s -> Forall (fun ea => AP (snd ea)) evs -> Reach AP cfg (ofinal cfg s evs).
Proof.
  induction evs as [|[ev ans] evs IH]; intros s HR Hall; cbn [ofinal]; [exact HR|].
  inversion Hall; subst. apply IH; [|assumption]. apply Reach_step; assumption.
Qed.

(* the invariant about the reader's fragment and the deferred READ, for reachable states *)
Theorem no_pending_at_step_boundaries : forall AP cfg s,
  Reach AP cfg s ->
  s_pending s = None /\ (s_deferred s <> None -> exists resp n k dl, s_control s = CUnsolWait resp n k dl).
Proof.
  intros AP cfg s HR. destruct (Reach_J cfg AP s HR) as [J1 J2]. split; [exact J1|].
  intros Hd. destruct (s_control s) as [|se dl r|resp n k dl] eqn:Ec; [exfalso; apply Hd, J2; reflexivity..|eauto].
Qed.

Lemma chain_ok_neighbours : forall l1 a b l2,
  chain_ok None (l1 ++ a :: b :: l2) ->
  b = a \/ ctl_seq (nth 0 b 0) = seq16_next (ctl_seq (nth 0 a 0)).
Proof.
  intros l1 a b l2 H. apply chain_ok_app in H. destruct H as [_ H].
  cbn [chain_ok] in H. destruct H as (_ & H & _). exact H.
Qed.

(* ---------- 2/4 at full strength: retransmissions, when the digest is a function of the bytes ---- *)

(* In the model the received bytes and the parser's digest of them are independent inputs of a step.
   In the implementation the digest is computed from the bytes.  Under that hypothesis - every
   received fragment's digest is `dg bytes` for one function dg - the response recorded with the last
   request carries that request's sequence number (unless the request was a READ, whose record holds
   the latest fragment of a multi-fragment response), and no response is recorded for a function code
   that forbids one.  This closes the retransmission case of solicited_correlated and
   no_reply_functions. *)
Section Retransmission.
  Variable cfg : ocfg.
  Variable dg : list N -> digest.

  Definition ev_ok (ev : oevent) : Prop := match ev with ERx _ _ bytes d => d = dg bytes | _ => True end.

  Inductive ReachD : ostate -> Prop :=
  | ReachD_start : forall sel op iin a0, ReachD (fst (ostart cfg sel op iin a0))
  | ReachD_step : forall s ev ans, ReachD s -> ev_ok ev -> ReachD (fst (ostep cfg s ev ans)).

  Lemma ReachD_Reach s : ReachD s -> Reach any_answers cfg s.
  Proof. induction 1; constructor; auto; exact I. Qed.

  Definition resp_fits (ctl fn : N) (obj : objres) (r : response) : Prop :=
    (fn <> 1 -> ctl_seq (r_ctl r) = ctl_seq ctl) /\
    (forall hdrs rh, obj = ObjOk hdrs rh -> ~ In fn [6; 8; 10; 12]).

  Definition rec_ok (l : last_request) : Prop :=
    exists ctl fn obj, dg (lr_bytes l) = DOk ctl fn RvOk obj /\ lr_seq l = ctl_seq ctl /\ fn <> 0 /\
      forall r, lr_response l = Some r -> resp_fits ctl fn obj r.

  Definition rec_read (l : last_request) : Prop := exists ctl obj, dg (lr_bytes l) = DOk ctl 1 RvOk obj.

  Definition K (s : ostate) : Prop :=
    (forall l, s_last s = Some l -> rec_ok l) /\
    (forall se dl r, s_control s = CSolWait se dl r -> se_fin se = false -> exists l, s_last s = Some l /\ rec_read l) /\
    (forall df, s_deferred s = Some df -> exists ctl obj, dg (df_bytes df) = DOk ctl 1 RvOk obj /\ df_seq df = ctl_seq ctl) /\
    (forall from bc bytes d fid, s_pending s = Some (from, bc, bytes, d, fid) -> d = dg bytes).

  Lemma K_fields s s' :
    s_last s' = s_last s -> s_control s' = s_control s -> s_deferred s' = s_deferred s -> s_pending s' = s_pending s ->
    K s -> K s'.
  Proof. intros H1 H2 H3 H4 (K1 & K2 & K3 & K4). unfold K. rewrite H1, H2, H3, H4. auto. Qed.

  Lemma K_sc s s' : same_core s s' -> K s -> K s'.
  Proof.
    intros (_ & A2 & A3 & _ & _ & A6 & _ & A8 & _). apply K_fields; assumption.
  Qed.

  Lemma K_idle s c : K s -> (forall se dl r, c <> CSolWait se dl r) -> K (upd_control s c).
  Proof.
    intros (K1 & K2 & K3 & K4) Hc. split; [exact K1|]. split; [|split; [exact K3|exact K4]].
    intros se dl r H. cbn in H. exfalso. exact (Hc _ _ _ H).
  Qed.

  Lemma K_no_pending s : K s -> K (upd_pending s None).
  Proof. intros (K1 & K2 & K3 & K4). split; [exact K1|]. split; [exact K2|]. split; [exact K3|]. intros; discriminate. Qed.

  Lemma K_set_pending s from bc bytes fid : K s -> K (upd_pending s (Some (from, bc, bytes, dg bytes, fid))).
  Proof.
    intros (K1 & K2 & K3 & K4). split; [exact K1|]. split; [exact K2|]. split; [exact K3|].
    intros f b by0 d0 fi H. cbn in H. inversion H; subst. reflexivity.
  Qed.

  Lemma sent_fits ctl fn obj r r' : sent_of r r' -> resp_fits ctl fn obj r -> resp_fits ctl fn obj r'.
  Proof. intros Hs [A B]. split; [|exact B]. intros Hf. rewrite (sent_of_seq _ _ Hs). auto. Qed.

  (* the last-request record and the confirm wait after the tail of handle_one_request_from_idle *)
  Lemma hfi_finish_KL from bytes fn s1 resp se rep o1 s' o ctl fnn obj :
    s_control s1 = CIdle -> dg bytes = DOk ctl fnn RvOk obj -> fnn <> 0 ->
    (forall r, resp = Some r -> resp_fits ctl fnn obj r) ->
    (forall x, se = Some x -> se_fin x = false -> fnn = 1) ->
    hfi_finish cfg from (ctl_seq ctl) bytes fn s1 resp se rep o1 = (s', o) ->
    (forall l, s_last s' = Some l -> rec_ok l) /\
    (forall x dl r0, s_control s' = CSolWait x dl r0 -> se_fin x = false -> exists l, s_last s' = Some l /\ rec_read l).
  Proof.
    intros Hc Hdg Hf0 Hr Hse H. apply hfi_finish_state in H.
    destruct H as (ropt & se' & H1 & H2 & H3 & H4). rewrite H1. split.
    - intros l Hl. inversion Hl; subst l. exists ctl, fnn, obj. cbn.
      split; [exact Hdg|]. split; [reflexivity|]. split; [exact Hf0|].
      intros r Hro. subst ropt. destruct resp as [r0|]; [|specialize (H2 eq_refl); discriminate].
      destruct (H3 r0 eq_refl) as (r' & Hr' & Hrel). inversion Hr'; subst r'.
      destruct rep; [subst r; auto|]. eapply sent_fits; [exact Hrel|auto].
    - intros x dl r0 Hcx Hfin. destruct H4 as [H4|(y & dl' & H4 & H5)].
      + rewrite H4, Hc in Hcx. discriminate.
      + rewrite H4 in Hcx. inversion Hcx; subst y dl' r0.
        destruct H5 as [H5|H5]; [|rewrite H5 in Hfin; discriminate].
        eexists. split; [reflexivity|]. exists ctl, obj. cbn. rewrite Hdg. rewrite (Hse x H5 Hfin). reflexivity.
  Qed.

  Lemma eqb_neq_0 fn : (fn =? fn_confirm) = false -> fn <> 0.
  Proof. intros H. apply N.eqb_neq in H. exact H. Qed.

  Lemma handle_from_idle_K s from bc bytes fid s' o :
    K s -> s_control s = CIdle ->
    handle_from_idle cfg s from bc bytes (dg bytes) fid = (s', o) -> K s'.
  Proof.
    intros HK Hc H. pose proof HK as (K1 & K2 & K3 & K4).
    pose proof (handle_from_idle_frame _ _ _ _ _ _ _ _ _ H) as [A _].
    destruct A as (_ & _ & _ & A4 & _ & A6 & _).
    assert (Hgoal : (forall l, s_last s' = Some l -> rec_ok l) /\
                    (forall x dl r0, s_control s' = CSolWait x dl r0 -> se_fin x = false -> exists l, s_last s' = Some l /\ rec_read l)).
    2:{ destruct Hgoal as [G1 G2]. unfold K. rewrite A4, A6. auto. }
    assert (Hsame : forall s1, same_core s s1 ->
              (forall l, s_last s1 = Some l -> rec_ok l) /\
              (forall x dl r0, s_control s1 = CSolWait x dl r0 -> se_fin x = false -> exists l, s_last s1 = Some l /\ rec_read l)).
    { intros s1 (_ & B2 & B3 & _). rewrite B2, B3. auto. }
    rewrite handle_from_idle_eq in H. destruct (to_treq cfg from (dg bytes)) as [|sq|ctl fn obj] eqn:Etq.
    - inversion H; subst. apply Hsame, sc_refl.
    - apply write_error_response_spec in H. apply Hsame. exact (proj1 H).
    - apply to_treq_request in Etq. cbv zeta in H.
      destruct bc as [m|].
      { rewrite classify_bcast in H. destruct (process_broadcast cfg s m fid ctl fn bytes obj) as [s1 o1] eqn:E.
        apply process_broadcast_spec in E. inversion H; subst. apply Hsame. exact (proj1 E). }
      pose proof (classify_unicast_cases s bytes ctl fn obj) as Hcl.
      destruct (classify s None bytes ctl fn obj) as [iin2|hdrs rh|resp hdrs rh|hdrs|last|m|q|q].
      + destruct Hcl as [C0 C1]. subst obj.
        eapply hfi_finish_KL; [exact Hc|exact Etq|apply eqb_neq_0; exact C0| | |exact H].
        * intros r Hr; inversion Hr; subst. split; [intros _; cbn [empty_solicited r_ctl]; rewrite ctl_byte_seq; apply ctl_seq_idem|].
          intros hdrs rh Ho. discriminate.
        * intros x Hx. discriminate.
      + destruct Hcl as (C0 & C1 & C2). apply N.eqb_eq in C1. subst fn.
        destruct (format_first_read_response s (ctl_seq ctl)) as [[[s1 r] se] o1] eqn:E.
        apply format_first_read_response_spec in E. destruct E as (E1 & _).
        eapply hfi_finish_KL; [|exact Etq|discriminate| | |exact H].
        * destruct E1 as (_ & E1 & _). congruence.
        * intros r0 Hr. split; [intros C; exfalso; apply C; reflexivity|]. intros hdrs0 rh0 _ Hin.
          cbn in Hin. repeat (destruct Hin as [Hin|Hin]; [discriminate|]). exact Hin.
        * reflexivity.
      + destruct Hcl as (C0 & C1 & C2). apply N.eqb_eq in C1. subst fn.
        destruct (format_first_read_response s (ctl_seq ctl)) as [[[s1 r] se] o1] eqn:E.
        apply format_first_read_response_spec in E. destruct E as (E1 & _).
        eapply hfi_finish_KL; [|exact Etq|discriminate| | |exact H].
        * destruct E1 as (_ & E1 & _). congruence.
        * intros r0 Hr. split; [intros C; exfalso; apply C; reflexivity|]. intros hdrs0 rh0 _ Hin.
          cbn in Hin. repeat (destruct Hin as [Hin|Hin]; [discriminate|]). exact Hin.
        * reflexivity.
      + destruct Hcl as (C0 & C1 & [rh C2]). subst obj.
        destruct (handle_non_read cfg s fn (ctl_seq ctl) fid bytes hdrs) as [[s1 r] o1] eqn:E.
        pose proof (handle_non_read_spec _ _ _ _ _ _ _ _ _ _ E) as (E1 & _ & E3).
        eapply hfi_finish_KL; [|exact Etq|apply eqb_neq_0; exact C0| | |exact H].
        * destruct E1 as (_ & E1 & _). congruence.
        * intros r0 Hr. subst r. destruct (E3 r0 eq_refl) as [E4 _]. split.
          -- intros _. rewrite E4, ctl_byte_seq. apply ctl_seq_idem.
          -- intros hdrs0 rh0 _ Hin. pose proof (hnr_no_reply _ _ _ _ _ _ _ _ _ _ Hin E). discriminate.
        * intros x Hx. discriminate.
      + destruct Hcl as (C0 & C1 & _ & (l & L1 & L2 & L3 & L4)).
        destruct (K1 l L1) as (ctl' & fn' & obj' & R1 & R2 & R3 & R4).
        rewrite L3, Etq in R1. inversion R1; subst ctl' fn' obj'.
        match type of H with hfi_finish _ _ _ _ _ ?s1 _ _ _ _ = _ => set (s1' := s1) in H end.
        assert (S1 : same_core s s1').
        { subst s1'. destruct (s_select s) as [sel|]; [|apply sc_refl].
          destruct ((ss_frame_id sel + 1) mod 4294967296 =? fid); eauto with sc. }
        eapply hfi_finish_KL; [|exact Etq|exact R3| | |exact H].
        * destruct S1 as (_ & S1 & _). congruence.
        * intros r0 Hr. apply R4. congruence.
        * intros x Hx. discriminate.
      + destruct Hcl.
      + inversion H; subst. apply Hsame, sc_refl.
      + inversion H; subst. apply Hsame, sc_refl.
  Qed.

  Lemma unsol_wait_fragment_K s resp from bc bytes fid s' res o :
    K s -> is_unsol_wait (s_control s) = true ->
    unsol_wait_fragment cfg s resp from bc bytes (dg bytes) fid = (s', res, o) -> K s'.
  Proof.
    intros HK Hc H. pose proof HK as (K1 & K2 & K3 & K4).
    pose proof (unsol_wait_fragment_frame _ _ _ _ _ _ _ _ _ _ _ H) as [A _].
    destruct A as (_ & A2 & _ & _ & _ & A6 & _).
    assert (Hgoal : (forall l, s_last s' = Some l -> rec_ok l) /\
                    (forall df, s_deferred s' = Some df -> exists ctl obj, dg (df_bytes df) = DOk ctl 1 RvOk obj /\ df_seq df = ctl_seq ctl)).
    2:{ destruct Hgoal as [G1 G3]. split; [exact G1|]. split; [|split; [exact G3|rewrite A6; exact K4]].
        intros se dl r Hcs. rewrite A2 in Hcs. rewrite Hcs in Hc. discriminate. }
    assert (Hdrop : forall s1, same_core (upd_deferred s None) s1 ->
              (forall l, s_last s1 = Some l -> rec_ok l) /\
              (forall df, s_deferred s1 = Some df -> exists ctl obj, dg (df_bytes df) = DOk ctl 1 RvOk obj /\ df_seq df = ctl_seq ctl)).
    { intros s1 (_ & _ & B3 & _ & _ & B6 & _). cbn in B3, B6. rewrite B3, B6. split; [exact K1|discriminate]. }
    unfold unsol_wait_fragment in H. destruct (to_treq cfg from (dg bytes)) as [|sq|ctl fn obj] eqn:Etq.
    - inversion H; subst. auto.
    - destruct (write_error_response (upd_deferred s None) from bc sq) as [s1 o1] eqn:E.
      apply write_error_response_spec in E. inversion H; subst. apply Hdrop. exact (proj1 E).
    - apply to_treq_request in Etq.
      destruct bc as [m|].
      { rewrite classify_bcast in H.
        destruct (process_broadcast cfg (upd_deferred s None) m fid ctl fn bytes obj) as [s1 o1] eqn:E.
        apply process_broadcast_spec in E. inversion H; subst. apply Hdrop. exact (proj1 E). }
      pose proof (classify_unicast_cases s bytes ctl fn obj) as Hcl.
      destruct (classify s None bytes ctl fn obj) as [iin2|hdrs rh|rsp hdrs rh|hdrs|last|m|q|q].
      + destruct (write_solicited (upd_deferred s None) from (empty_solicited (ctl_seq ctl) iin2)) as [[s1 r1] o1] eqn:E.
        apply write_solicited_spec in E. inversion H; subst. apply Hdrop. exact (proj1 E).
      + destruct Hcl as (C0 & C1 & C2). apply N.eqb_eq in C1. subst fn. inversion H; subst.
        split; [exact K1|]. intros df Hdf. cbn in Hdf. inversion Hdf; subst df. cbn. eauto.
      + destruct Hcl as (C0 & C1 & C2). apply N.eqb_eq in C1. subst fn. inversion H; subst.
        split; [exact K1|]. intros df Hdf. cbn in Hdf. inversion Hdf; subst df. cbn. eauto.
      + destruct Hcl as (C0 & C1 & [rh C2]). subst obj.
        destruct (handle_non_read cfg (upd_deferred s None) fn (ctl_seq ctl) fid bytes hdrs) as [[s1 r] o1] eqn:E.
        pose proof (handle_non_read_spec _ _ _ _ _ _ _ _ _ _ E) as (E1 & _ & E3).
        assert (Hrec : forall ropt s2, s_deferred s2 = None ->
                  (forall r1, ropt = Some r1 -> exists r0, r = Some r0 /\ sent_of r0 r1) ->
                  (forall l, s_last (upd_last s2 (mk_last (ctl_seq ctl) bytes ropt None)) = Some l -> rec_ok l) /\
                  (forall df, s_deferred (upd_last s2 (mk_last (ctl_seq ctl) bytes ropt None)) = Some df ->
                      exists ctl0 obj0, dg (df_bytes df) = DOk ctl0 1 RvOk obj0 /\ df_seq df = ctl_seq ctl0)).
        { intros ropt s2 Hd2 Hro. split; [|cbn; rewrite Hd2; discriminate].
          cbn. intros l Hl. inversion Hl; subst l. exists ctl, fn, (ObjOk hdrs rh). cbn.
          split; [exact Etq|]. split; [reflexivity|]. split; [apply eqb_neq_0; exact C0|].
          intros r1 Hr1. destruct (Hro r1 Hr1) as (r0 & -> & Hs). destruct (E3 r0 eq_refl) as [E4 _].
          eapply sent_fits; [exact Hs|]. split.
          - intros _. rewrite E4, ctl_byte_seq. apply ctl_seq_idem.
          - intros hdrs0 rh0 _ Hin. pose proof (hnr_no_reply _ _ _ _ _ _ _ _ _ _ Hin E). discriminate. }
        assert (Hd1 : s_deferred s1 = None) by (destruct E1 as (_ & _ & _ & _ & _ & E1 & _); exact E1).
        destruct r as [r0|].
        * destruct (write_solicited s1 from r0) as [[s2 r1] o2] eqn:E2.
          apply write_solicited_spec in E2. destruct E2 as (F1 & _ & F4 & F5 & F6 & F7).
          inversion H; subst. apply Hrec.
          -- destruct F1 as (_ & _ & _ & _ & _ & F1 & _). congruence.
          -- intros r2 Hr2. inversion Hr2; subst r2. exists r0. split; [reflexivity|]. exact (conj F4 (conj F5 (conj F6 F7))).
        * inversion H; subst. apply Hrec; [exact Hd1|]. intros r2 Hr2. discriminate.
      + inversion H; subst. cbn. split; [exact K1|discriminate].
      + destruct Hcl.
      + inversion H; subst.
        destruct (sc_bcast_confirmed s false q) as (_ & _ & B3 & _ & _ & B6 & _). rewrite B3, B6. auto.
      + destruct (q =? ctl_seq (r_ctl resp)); inversion H; subst; auto.
        destruct (sc_bcast_confirmed s true q) as (_ & _ & B3 & _ & _ & B6 & _). rewrite B3, B6. auto.
  Qed.

  Lemma handle_deferred_K s ns s' o :
    K s -> s_control s = CIdle -> handle_deferred cfg s ns = (s', o) -> K s'.
  Proof.
    intros HK Hc H. pose proof HK as (K1 & K2 & K3 & K4).
    destruct (s_deferred s) as [df|] eqn:Ed.
    - eapply handle_deferred_some in H; [|exact Ed].
      destruct H as (s3 & r & r' & pre & post & se' & _ & _ & _ & _ & _ & _ & _ & G8 & G9 & G10 & _ & _ & _ & _ & _ & _ & _ & G17).
      destruct (K3 df eq_refl) as (ctl & obj & D1 & D2).
      assert (Hl : forall l, s_last s' = Some l -> rec_ok l /\ rec_read l).
      { intros l Hl. rewrite G8 in Hl. inversion Hl; subst l. split.
        - exists ctl, 1, obj. cbn. split; [exact D1|]. split; [exact D2|]. split; [discriminate|].
          intros r0 _. split; [intros C; exfalso; apply C; reflexivity|]. intros hdrs0 rh0 _ Hin.
          cbn in Hin. repeat (destruct Hin as [Hin|Hin]; [discriminate|]). exact Hin.
        - exists ctl, obj. exact D1. }
      split; [intros l Hl'; exact (proj1 (Hl l Hl'))|]. split; [|split; [rewrite G9; discriminate|rewrite G10; exact K4]].
      intros x dl r0 Hcx _. rewrite G8. eexists. split; [reflexivity|]. apply (Hl _ G8).
    - rewrite handle_deferred_none in H by exact Ed. inversion H; subst. exact HK.
  Qed.

  Lemma end_unsol_K s is_null res s' ns o : K s -> end_unsol cfg s is_null res = (s', ns, o) -> K s'.
  Proof.
    intros (K1 & K2 & K3 & K4) H. apply end_unsol_frame in H. destruct H as (F1 & F2 & F3 & F4 & _).
    unfold K. rewrite F1, F2, F3, F4. split; [exact K1|]. split; [discriminate|]. split; assumption.
  Qed.

  Lemma check_unsolicited_K s s' ns o : K s -> check_unsolicited cfg s = (s', ns, o) -> K s'.
  Proof.
    intros (K1 & K2 & K3 & K4) H. apply check_unsolicited_frame in H. destruct H as (_ & A & B).
    destruct A as (_ & A2 & _ & A4 & A5 & _). unfold K. rewrite A2, A4, A5.
    split; [exact K1|]. split; [|split; assumption].
    intros se dl r Hcs. destruct B as [B|(r1 & n1 & k1 & d1 & B)]; [rewrite B in Hcs; eauto|congruence].
  Qed.

  Lemma idle_run_K fuel : forall st s s' o,
    K s -> s_control s = CIdle -> idle_run fuel cfg st s = (s', o) -> K s'.
  Proof.
    induction fuel as [|f IH]; intros st s s' o HK Hc H; cbn [idle_run] in H.
    { inversion H; subst. exact HK. }
    destruct st as [| |ns|ns].
    - destruct (match s_pending s with
                | Some (from, bc, bytes, d, fid) => handle_from_idle cfg (upd_pending s None) from bc bytes d fid
                | None => (s, [])
                end) as [s1 o1] eqn:E1.
      assert (HK1 : K s1).
      { destruct (s_pending s) as [[[[[from bc] bytes] d] fid]|] eqn:Epen.
        - pose proof (proj2 (proj2 (proj2 HK)) _ _ _ _ _ Epen) as Hd. subst d.
          eapply handle_from_idle_K; [apply K_no_pending; exact HK|exact Hc|exact E1].
        - inversion E1; subst. exact HK. }
      destruct (s_control s1) eqn:Ec1; [|inversion H; subst; exact HK1..].
      destruct (idle_run f cfg St2 s1) as [s2 o2] eqn:E2. inversion H; subst. eapply IH; eassumption.
    - destruct (check_unsolicited cfg s) as [[s2 ns] o2] eqn:E2.
      apply check_unsolicited_K in E2; [|exact HK].
      destruct (s_control s2) as [|se dl r|resp is_null retries dl] eqn:Ec2.
      + destruct (idle_run f cfg (St3 false) s2) as [s3 o3] eqn:E3. inversion H; subst. eapply IH; eassumption.
      + inversion H; subst. exact E2.
      + destruct (s_pending s2) as [[[[[from bc] bytes] d] fid]|] eqn:Epen; [|inversion H; subst; exact E2].
        pose proof (proj2 (proj2 (proj2 E2)) _ _ _ _ _ Epen) as Hd. subst d.
        destruct (unsol_wait_fragment cfg (upd_pending s2 None) resp from bc bytes (dg bytes) fid) as [[s3 res] o3] eqn:E3.
        apply unsol_wait_fragment_K in E3; [|apply K_no_pending; exact E2|cbn; rewrite Ec2; reflexivity].
        destruct res as [r|]; [|inversion H; subst; exact E3].
        destruct (end_unsol cfg s3 is_null r) as [[s4 ns4] o4] eqn:E4.
        pose proof (end_unsol_frame _ _ _ _ _ _ _ E4) as (F1 & _).
        apply end_unsol_K in E4; [|exact E3].
        destruct (idle_run f cfg (St3 ns4) s4) as [s5 o5] eqn:E5. inversion H; subst. eapply IH; eassumption.
    - destruct (handle_deferred cfg s ns) as [s3 o3] eqn:E3.
      apply handle_deferred_K in E3; [|exact HK|exact Hc].
      destruct (s_control s3) eqn:Ec3; [|inversion H; subst; exact E3..].
      destruct (idle_run f cfg (St4 ns) s3) as [s4 o4] eqn:E4. inversion H; subst. eapply IH; eassumption.
    - destruct (s_pending s); [eapply IH; eassumption|].
      destruct ns; [eapply IH; eassumption|].
      destruct (s_notify s); [eapply IH; [| |exact H]; [exact HK|exact Hc]|].
      inversion H; subst. exact HK.
  Qed.

  Lemma resume_at_K st s s' o : K s -> s_control s = CIdle -> resume_at cfg st s = (s', o) -> K s'.
  Proof. unfold resume_at. apply idle_run_K. Qed.
  Lemma idle_loop_K n s s' o : K s -> s_control s = CIdle -> idle_loop n cfg s = (s', o) -> K s'.
  Proof. unfold idle_loop. apply idle_run_K. Qed.

  Lemma fire_deadline_K s s' o : K s -> fire_deadline cfg s = (s', o) -> K s'.
  Proof.
    intros HK. unfold fire_deadline. destruct (s_control s) as [|se dl r|resp is_null retries dl] eqn:Ec.
    - apply resume_at_K; assumption.
    - destruct (resume_at cfg (stage_of r) (upd_control s CIdle)) as [s1 o1] eqn:E.
      apply resume_at_K in E; [|apply K_idle; [exact HK|discriminate]|reflexivity].
      intros H; inversion H; subst. exact E.
    - match goal with |- (if ?c then _ else _) = _ -> _ => destruct c end.
      + intros H; inversion H; subst. apply K_idle; [exact HK|discriminate].
      + destruct (end_unsol cfg s is_null UrTimeout) as [[s1 ns] o1] eqn:E1.
        pose proof (end_unsol_frame _ _ _ _ _ _ _ E1) as (F1 & _).
        apply end_unsol_K in E1; [|exact HK].
        destruct (resume_at cfg (St3 ns) s1) as [s2 o2] eqn:E2. apply resume_at_K in E2; [|exact E1|exact F1].
        intros H; inversion H; subst. exact E2.
  Qed.

  Lemma advance_K fuel : forall s target s' o, K s -> advance fuel cfg s target = (s', o) -> K s'.
  Proof.
    induction fuel as [|f IH]; intros s target s' o HK H; cbn [advance] in H.
    { inversion H; subst. exact HK. }
    destruct (next_deadline cfg s) as [d|]; [|inversion H; subst; exact HK].
    destruct (d <=? target)%Z; [|inversion H; subst; exact HK].
    destruct (fire_deadline cfg (upd_now s (Z.max d (s_now s)))) as [s1 o1] eqn:E1.
    apply fire_deadline_K in E1; [|exact HK].
    destruct (advance f cfg s1 target) as [s2 o2] eqn:E2. apply IH in E2; [|exact E1].
    inversion H; subst. exact E2.
  Qed.

  Lemma on_rx_K s from bc bytes s' o : K s -> on_rx cfg s from bc bytes (dg bytes) = (s', o) -> K s'.
  Proof.
    intros HK. unfold on_rx.
    set (fid := (s_frame_id s + 1) mod 4294967296).
    assert (HK0 : K (upd_frame_id s fid)) by exact HK.
    change (s_control (upd_frame_id s fid)) with (s_control s).
    destruct (s_control s) as [|se dl r|resp is_null retries dl] eqn:Ec.
    - apply idle_loop_K; [apply K_set_pending; exact HK0|exact Ec].
    - destruct (sol_wait_fragment cfg (upd_frame_id s fid) se dl from bc bytes (dg bytes)) as [oc o1] eqn:E1.
      destruct oc as [dl'|respond_to|].
      + intros H; inversion H; subst. destruct HK0 as (K1 & K2 & K3 & K4).
        split; [exact K1|]. split; [|split; assumption].
        intros x dl0 r0 Hcx Hfin. cbn in Hcx. inversion Hcx; subst. cbn. apply (K2 _ _ _ Ec Hfin).
      + destruct (se_fin se) eqn:Efin.
        * match goal with |- context [resume_at cfg ?a ?b] => destruct (resume_at cfg a b) as [s2 o2] eqn:E2 end.
          apply resume_at_K in E2; [|apply K_idle; [exact HK0|discriminate]|reflexivity].
          intros H; inversion H; subst. exact E2.
        * match goal with |- context [format_read_response ?a ?b ?c ?e] =>
            destruct (format_read_response a b c e) as [[[s2 rsp] next] o2] eqn:E2 end.
          apply format_read_response_spec in E2. destruct E2 as (B1 & _).
          destruct (write_solicited s2 respond_to rsp) as [[s3 rsp'] o3] eqn:E3.
          apply write_solicited_spec in E3. destruct E3 as (C1 & _).
          pose proof (sc_trans _ _ _ B1 C1) as S.
          destruct S as (_ & S2 & S3 & _ & _ & S6 & _ & S8 & _). cbn in S2, S3, S6, S8.
          destruct HK0 as (K1 & K2 & K3 & K4). cbn in K1, K2, K3, K4.
          destruct (K2 _ _ _ Ec Efin) as (l & L1 & (ctlr & objr & L2)).
          destruct (K1 l L1) as (ctl' & fn' & obj' & R1 & R2 & R3 & R4).
          rewrite L2 in R1. inversion R1; subst ctl' fn' obj'.
          match goal with |- context [upd_last s3 ?x] => set (nl := x) end.
          assert (Hnl : nl = Some {| lr_seq := lr_seq l; lr_bytes := lr_bytes l; lr_response := Some rsp'; lr_series := lr_series l |}).
          { subst nl. rewrite S3, L1. reflexivity. }
          assert (HK4 : forall c, K (upd_control (upd_last s3 nl) c)).
          { intros c. split; [|split; [|split]].
            - cbn. intros l0 Hl0. rewrite Hnl in Hl0. inversion Hl0; subst l0.
              exists ctlr, 1, objr. cbn. split; [exact L2|]. split; [exact R2|]. split; [discriminate|].
              intros r0 _. split; [intros C; exfalso; apply C; reflexivity|]. intros hdrs0 rh0 _ Hin.
              cbn in Hin. repeat (destruct Hin as [Hin|Hin]; [discriminate|]). exact Hin.
            - cbn. intros x dl0 r0 _ _. rewrite Hnl. eexists. split; [reflexivity|]. exists ctlr, objr. exact L2.
            - cbn. rewrite S6. exact K3.
            - cbn. rewrite S8. exact K4. }
          destruct next as [n|].
          -- intros H; inversion H; subst. apply HK4.
          -- match goal with |- context [resume_at cfg ?a ?b] => destruct (resume_at cfg a b) as [s5 o5] eqn:E5 end.
             apply resume_at_K in E5; [|apply HK4|reflexivity].
             intros H; inversion H; subst. exact E5.
      + match goal with |- context [resume_at cfg ?a ?b] => destruct (resume_at cfg a b) as [s2 o2] eqn:E2 end.
        apply resume_at_K in E2; [|apply (K_set_pending (upd_control (upd_frame_id s fid) CIdle)); apply K_idle; [exact HK0|discriminate]|reflexivity].
        intros H; inversion H; subst. exact E2.
    - destruct (unsol_wait_fragment cfg (upd_frame_id s fid) resp from bc bytes (dg bytes) fid) as [[s1 res] o1] eqn:E1.
      apply unsol_wait_fragment_K in E1; [|exact HK0|cbn; rewrite Ec; reflexivity].
      destruct res as [r|]; [|intros H; inversion H; subst; exact E1].
      destruct (end_unsol cfg s1 is_null r) as [[s2 ns] o2] eqn:E2.
      pose proof (end_unsol_frame _ _ _ _ _ _ _ E2) as (F1 & _).
      apply end_unsol_K in E2; [|exact E1].
      destruct (resume_at cfg (St3 ns) s2) as [s3 o3] eqn:E3. apply resume_at_K in E3; [|exact E2|exact F1].
      intros H; inversion H; subst. exact E3.
  Qed.

  Lemma ostep_K s ev answers s' o : K s -> ev_ok ev -> ostep cfg s ev answers = (s', o) -> K s'.
  Proof.
    intros HK Hev. assert (HK0 : K (upd_answers s answers)) by exact HK.
    unfold ostep. destruct ev as [from bc bytes d|ms| |sel op|v|].
    - cbn in Hev. subst d.
      destruct (on_rx cfg (upd_answers s answers) from bc bytes (dg bytes)) as [s1 o1] eqn:E1.
      apply on_rx_K in E1; [|exact HK0].
      destruct (advance 64 cfg s1 (s_now s1 + settle_ms)) as [s2 o2] eqn:E2.
      apply advance_K in E2; [|exact E1]. intros H; inversion H; subst. exact E2.
    - destruct (advance 4096 cfg (upd_answers s answers) (s_now (upd_answers s answers) + ms)) as [s1 o1] eqn:E1.
      apply advance_K in E1; [|exact HK0]. intros H; inversion H; subst. exact E1.
    - destruct (match s_control (upd_answers s answers) with
                | CIdle => idle_loop 8 cfg (upd_answers s answers)
                | _ => (upd_notify (upd_answers s answers) true, [])
                end) as [s1 o1] eqn:E1.
      assert (H1 : K s1).
      { destruct (s_control (upd_answers s answers)) eqn:Ec.
        - eapply idle_loop_K; [exact HK0|exact Ec|exact E1].
        - inversion E1; subst. exact HK0.
        - inversion E1; subst. exact HK0. }
      destruct (advance 64 cfg s1 (s_now s1 + settle_ms)) as [s2 o2] eqn:E2.
      apply advance_K in E2; [|exact H1]. intros H; inversion H; subst. exact E2.
    - intros H; inversion H; subst. exact HK0.
    - intros H; inversion H; subst. exact HK0.
    - match goal with |- context [idle_loop 8 cfg ?a] => destruct (idle_loop 8 cfg a) as [s2 o2] eqn:E2 end.
      apply idle_loop_K in E2; [| |reflexivity].
      2:{ split; [cbn; discriminate|]. split; [cbn; discriminate|]. split; cbn; discriminate. }
      destruct (advance 64 cfg s2 (s_now s2 + settle_ms)) as [s3 o3] eqn:E3.
      apply advance_K in E3; [|exact E2]. intros H; inversion H; subst. exact E3.
  Qed.

  Lemma ReachD_K s : ReachD s -> K s.
  Proof.
    induction 1 as [sel op iin a0|s ev ans HR IH Hev].
    - destruct (ostart cfg sel op iin a0) as [s' o] eqn:E. unfold ostart in E.
      apply idle_loop_K in E; [exact E| |reflexivity].
      split; [cbn; discriminate|]. split; [cbn; discriminate|]. split; cbn; discriminate.
    - destruct (ostep cfg s ev ans) as [s' o] eqn:E. eapply ostep_K; eassumption.
  Qed.
End Retransmission.

Lemma hfi_finish_head cfg from seq bytes fn s1 resp se rep o1 s' o :
  hfi_finish cfg from seq bytes fn s1 resp se rep o1 = (s', o) -> exists rest, o = OInfo (IIdleRequest fn seq) :: rest.
Proof.
  destruct resp as [r|].
  - intros H. apply hfi_finish_some in H. destruct H as (s2 & r' & pre & post & _ & _ & H & _). subst o. eauto.
  - rewrite hfi_finish_none. intros H; inversion H; subst. eauto.
Qed.

Lemma hfi_head cfg s0 from bc bytes d fid ctl fn obj s1 o1 :
  to_treq cfg from d = TqRequest ctl fn obj -> handle_from_idle cfg s0 from bc bytes d fid = (s1, o1) ->
  exists rest, o1 = OInfo (IIdleRequest fn (ctl_seq ctl)) :: rest.
Proof.
  intros Htq. rewrite handle_from_idle_eq, Htq. cbv zeta.
  destruct (classify s0 bc bytes ctl fn obj) as [iin2|hdrs rh|resp hdrs rh|hdrs|last|m|q|q].
  - apply hfi_finish_head.
  - destruct (format_first_read_response s0 (ctl_seq ctl)) as [[[s2 r] se] o2]. apply hfi_finish_head.
  - destruct (format_first_read_response s0 (ctl_seq ctl)) as [[[s2 r] se] o2]. apply hfi_finish_head.
  - destruct (handle_non_read cfg s0 fn (ctl_seq ctl) fid bytes hdrs) as [[s2 r] o2]. apply hfi_finish_head.
  - apply hfi_finish_head.
  - destruct (process_broadcast cfg s0 m fid ctl fn bytes obj) as [s2 o2]. intros H; inversion H; subst. cbn [app]. eauto.
  - intros H; inversion H; subst. eauto.
  - intros H; inversion H; subst. eauto.
Qed.

(* 2, all classifications: with the digest a function of the bytes (ReachD, and d = dg bytes for the
   request itself), EVERY accepted unicast request processed from idle - a retransmission included -
   is answered, if at all, to its sender and with its own sequence number *)
Theorem solicited_correlated_full : forall cfg dg s from bytes answers ctl fn obj,
  ReachD cfg dg s -> s_control s = CIdle ->
  to_treq cfg from (dg bytes) = TqRequest ctl fn obj ->
  (exists rest, snd (ostep cfg s (ERx from None bytes (dg bytes)) answers) = OInfo (IIdleRequest fn (ctl_seq ctl)) :: rest) /\
  Forall (sol_tx_correlated from (ctl_seq ctl)) (snd (ostep cfg s (ERx from None bytes (dg bytes)) answers)).
Proof.
  intros cfg dg s from bytes answers ctl fn obj HRD Hc Htq.
  pose proof (ReachD_Reach _ _ _ HRD) as HR. pose proof (ReachD_K _ _ _ HRD) as (K1 & _).
  destruct (classify s None bytes ctl fn obj) as [iin2|hdrs rh|resp hdrs rh|hdrs|last|m|q|q] eqn:Ecl;
    try (apply (solicited_correlated any_answers cfg s from bytes (dg bytes) answers ctl fn obj);
         [exact HR|exact Hc|exact Htq|intros last'; rewrite Ecl; discriminate]).
  split.
  - destruct (ostep cfg s (ERx from None bytes (dg bytes)) answers) as [s' out] eqn:E.
    destruct (ostep_rx_idle _ _ _ _ _ _ _ _ _ _ HR Hc E) as (s1 & o1 & rest & H1 & H2 & H3).
    destruct (hfi_head _ _ _ _ _ _ _ _ _ _ _ _ Htq H1) as [rest1 H4]. cbn [snd]. subst out o1. cbn [app]. eauto.
  - pose proof (solicited_repeat any_answers cfg s from bytes (dg bytes) answers ctl fn obj last HR Hc Htq Ecl) as [(l & L1 & L2 & L3 & L4) Hall].
    pose proof (classify_unicast_cases s bytes ctl fn obj) as Hcl. rewrite Ecl in Hcl. destruct Hcl as (C0 & C1 & _).
    destruct (K1 l L1) as (ctl' & fn' & obj' & R1 & R2 & R3 & R4).
    rewrite L3, (to_treq_request _ _ _ _ _ _ Htq) in R1. inversion R1; subst ctl' fn' obj'.
    eapply Forall_impl; [|exact Hall]. intros [dest b| | | | | | |] Ho; try exact I.
    cbn. intros Hb. destruct (Ho Hb) as [Hd (r & buf & Hr & Hbb)]. split; [exact Hd|].
    subst b. rewrite response_bytes_nth0. assert (Hlr : lr_response l = Some r) by congruence.
    destruct (R4 r Hlr) as [R5 _]. apply R5. apply N.eqb_neq. exact C1.
Qed.

(* 4, all classifications: a well-formed unicast CONFIRM / *_NR request from idle is never answered *)
Theorem no_reply_functions_full : forall cfg dg s from bytes answers ctl fn hdrs rh,
  ReachD cfg dg s -> s_control s = CIdle ->
  to_treq cfg from (dg bytes) = TqRequest ctl fn (ObjOk hdrs rh) ->
  In fn [0; 6; 8; 10; 12] ->
  Forall not_sol (snd (ostep cfg s (ERx from None bytes (dg bytes)) answers)).
Proof.
  intros cfg dg s from bytes answers ctl fn hdrs rh HRD Hc Htq Hin.
  pose proof (ReachD_Reach _ _ _ HRD) as HR. pose proof (ReachD_K _ _ _ HRD) as (K1 & _).
  apply (no_reply_functions any_answers) with (ctl := ctl) (fn := fn) (hdrs := hdrs) (rh := rh); try assumption.
  intros r Ecl.
  pose proof (classify_unicast_cases s bytes ctl fn (ObjOk hdrs rh)) as Hcl. rewrite Ecl in Hcl.
  destruct Hcl as (C0 & C1 & _ & (l & L1 & L2 & L3 & L4)).
  destruct (K1 l L1) as (ctl' & fn' & obj' & R1 & R2 & R3 & R4).
  rewrite L3, (to_treq_request _ _ _ _ _ _ Htq) in R1. inversion R1; subst ctl' fn' obj'.
  destruct (R4 r L4) as [_ R5]. cbn [In] in Hin. destruct Hin as [<-|Hin]; [discriminate|].
  exact (R5 hdrs rh eq_refl Hin).
Qed.

(* definitions spelled out, for the property files *)
Lemma hdr_rejected_spec : forall cfg fn hdrs,
  hdr_rejected cfg fn hdrs <->
  (fn_executed fn = false \/
   (fn = 2 /\ existsb (write_rejects cfg) hdrs = true) \/
   (In fn [3; 4; 5] /\ existsb (fun h => negb (is_ctl_hdr h)) hdrs = true) \/
   ((fn = 7 \/ fn = 9) /\ existsb (freeze_rejects cfg) hdrs = true) \/
   (fn = 11 /\ existsb (freeze_at_time_rejects cfg) hdrs = true) \/
   ((fn = 20 \/ fn = 21) /\ (o_unsol cfg = false \/ existsb (fun h => negb (unsol_class_hdr h)) hdrs = true)) \/
   (In fn [13; 14; 23; 24] /\ hdrs <> [])).
Proof. intros. reflexivity. Qed.

Lemma group_bytes_spec : forall g v prefix items,
  group_bytes g v prefix items =
  [g; v; qualifier_of prefix] ++ count_bytes prefix (N.of_nat (length items)) ++
  concat (map (fun it => index_bytes prefix (fst it) ++ snd it) items).
Proof. intros. reflexivity. Qed.

Lemma ReachD_spec : forall cfg dg s,
  ReachD cfg dg s <->
  ((exists sel op iin a0, s = fst (ostart cfg sel op iin a0)) \/
   (exists s0 ev ans, ReachD cfg dg s0 /\
      match ev with ERx _ _ bytes d => d = dg bytes | _ => True end /\ s = fst (ostep cfg s0 ev ans))).
Proof.
  intros cfg dg s. split.
  - intros H. destruct H as [sel op iin a0|s0 ev ans H1 H2]; [left; eauto|right]. exists s0, ev, ans. auto.
  - intros [(sel & op & iin & a0 & ->)|(s0 & ev & ans & H1 & H2 & ->)]; [apply ReachD_start|apply ReachD_step; assumption].
Qed.

Lemma Reach_spec : forall AP cfg s,
  Reach AP cfg s <->
  ((exists sel op iin a0, AP a0 /\ s = fst (ostart cfg sel op iin a0)) \/
   (exists s0 ev ans, Reach AP cfg s0 /\ AP ans /\ s = fst (ostep cfg s0 ev ans))).
Proof.
  intros AP cfg s. split.
  - intros H. destruct H as [sel op iin a0 Ha|s0 ev ans H1 H2]; [left; eauto 6|right]. exists s0, ev, ans. auto.
  - intros [(sel & op & iin & a0 & Ha & ->)|(s0 & ev & ans & H1 & H2 & ->)]; [apply Reach_start|apply Reach_step]; assumption.
Qed.
