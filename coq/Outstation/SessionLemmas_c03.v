(* Outstation/SessionLemmas_c03.v — lemmas for property C03 at session level: which calls into the
   database (`ODb ..`) each function of Outstation/Session.v can emit, and in which order.
   Part 1: output-shape lemmas, generic in a predicate P on observations (closed under ++).
   Part 2: the run_idle_state loop, deadlines.
   Part 3: a received fragment in the two confirm waits (exact case analysis). *)
From Dnp3V Require Import Outstation.Session Outstation.SessionLemmas_c04.
Import ListNotations.
Open Scope N_scope.

(* ---------- kinds of observations ------------------------------------------------------------------ *)

(* no call into the database at all *)
Definition nodb (o : oobs) : Prop := match o with ODb _ => False | _ => True end.
(* the only call into the database is the event-info probe of get_response_iin *)
Definition hq (o : oobs) : Prop := match o with ODb DbEvinfo => True | ODb _ => False | _ => True end.
(* not clear_written_events *)
Definition nc (o : oobs) : Prop := match o with ODb DbClearWritten => False | _ => True end.

Lemma nodb_hq o : nodb o -> hq o.
Proof. destruct o as [| c | | | | | |]; try exact (fun H => H). intros []. Qed.
Lemma hq_nc o : hq o -> nc o.
Proof. destruct o as [| c | | | | | |]; try exact (fun H => H). destruct c; intros H; try exact I; destruct H. Qed.

(* informations the idle loop and the handlers can give: not the ones that end a confirm wait *)
Definition idle_info (i : infocb) : bool :=
  match i with
  | ISolTimeout _ | ISolNewRequest | IUnsolTimeout _ _ | ISolConfirmed _ => false
  | _ => true
  end.

Ltac inv_pair H := inversion H; subst; clear H.

(* ---------- part 1: output shapes, generic ------------------------------------------------------- *)

(* what a predicate must allow to hold of everything the request handlers emit *)
Record hshape (P : oobs -> Prop) : Prop := {
  hs_cb : forall c, P (OCb c);
  hs_tx : forall d b, P (OTx d b);
  hs_miss : P OMissingAnswer;
  hs_info : forall i, idle_info i = true -> P (OInfo i);
  hs_ev : P (ODb DbEvinfo)
}.

Section Shape.
  Variable P : oobs -> Prop.
  Hypothesis HP : hshape P.
  Let Pcb := hs_cb P HP.
  Let Ptx := hs_tx P HP.
  Let Pmiss := hs_miss P HP.
  Let Pinfo := hs_info P HP.
  Let Pev := hs_ev P HP.

  Ltac shp :=
    repeat match goal with
           | |- Forall _ [] => apply Forall_nil
           | |- Forall _ (_ :: _) => apply Forall_cons; [first [apply Pcb | apply Ptx | exact Pmiss | exact Pev | apply Pinfo; reflexivity | auto]|]
           | |- Forall _ (_ ++ _) => apply Forall_app; split
           | |- Forall _ (if ?b then _ else _) => destruct b
           end; auto.

  Lemma ask_evinfo_P s s1 x o : ask_evinfo s = (s1, x, o) -> Forall P o.
  Proof. unfold ask_evinfo. destruct (s_answers s) as [|[] rest]; intros H; inv_pair H; shp. Qed.

  Lemma response_iin_P s s1 iin o : response_iin s = (s1, iin, o) -> Forall P o.
  Proof.
    unfold response_iin. destruct (ask_evinfo s) as [[s0 [[[c1 c2] c3] ovf]] o0] eqn:E.
    apply ask_evinfo_P in E. intros H; inv_pair H. exact E.
  Qed.

  Lemma write_solicited_P s dest r s1 r1 o : write_solicited s dest r = (s1, r1, o) -> Forall P o.
  Proof.
    unfold write_solicited. destruct (response_iin s) as [[s0 iin] o0] eqn:E.
    apply response_iin_P in E. intros H; inv_pair H. shp.
  Qed.

  Lemma write_unsolicited_P cfg s r s1 r1 o : write_unsolicited cfg s r = (s1, r1, o) -> Forall P o.
  Proof.
    unfold write_unsolicited. destruct (response_iin s) as [[s0 iin] o0] eqn:E.
    apply response_iin_P in E. intros H; inv_pair H. shp.
  Qed.

  Lemma write_error_response_P s from bc seq s1 o : write_error_response s from bc seq = (s1, o) -> Forall P o.
  Proof.
    unfold write_error_response. destruct bc as [m|]; [intros H; inv_pair H; shp|].
    destruct seq as [q|]; [|intros H; inv_pair H; shp].
    destruct (write_solicited s from (empty_solicited q iin2_no_func)) as [[s0 r0] o0] eqn:E.
    apply write_solicited_P in E. intros H; inv_pair H. exact E.
  Qed.

  Lemma repeat_solicited_P s dest r : Forall P (repeat_solicited s dest r).
  Proof. unfold repeat_solicited. shp. Qed.

  Lemma start_unsol_P cfg s r n s1 o : start_unsol cfg s r n = (s1, o) -> Forall P o.
  Proof.
    unfold start_unsol. destruct (write_unsolicited cfg s r) as [[s0 r0] o0] eqn:E.
    apply write_unsolicited_P in E. intros H; inv_pair H. shp.
  Qed.

  (* the non-READ handlers *)
  Lemma write_iin_bits_P bits : forall s s1 v o, write_iin_bits s bits = (s1, v, o) -> Forall P o.
  Proof.
    induction bits as [|[idx value] rest IH]; intros s s1 v o H; cbn [write_iin_bits] in H.
    - inv_pair H. shp.
    - destruct (idx =? 7); [destruct value|].
      + destruct (write_iin_bits s rest) as [[s' v'] o'] eqn:E. apply IH in E. inv_pair H. exact E.
      + destruct (write_iin_bits (upd_restart s false) rest) as [[s' v'] o'] eqn:E. apply IH in E. inv_pair H. shp.
      + destruct (write_iin_bits s rest) as [[s' v'] o'] eqn:E. apply IH in E. inv_pair H. exact E.
  Qed.

  Lemma write_header_P cfg s h s1 v o : write_header cfg s h = (s1, v, o) -> Forall P o.
  Proof.
    unfold write_header. destruct h as [bits|[t|]|[t|]|c| |a b|x| | |g v0 p items|];
      try (intros H; inv_pair H; shp; fail).
    - apply write_iin_bits_P.
    - destruct (s_last_recorded s) as [t0|]; [destruct (max_timestamp - t <? Z.to_N (s_now s - t0))|];
        intros H; inv_pair H; shp.
  Qed.

  Lemma handle_write_headers_P cfg hdrs : forall s s1 v o, handle_write_headers cfg s hdrs = (s1, v, o) -> Forall P o.
  Proof.
    induction hdrs as [|h rest IH]; intros s s1 v o H; cbn [handle_write_headers] in H.
    - inv_pair H. shp.
    - destruct (write_header cfg s h) as [[s' v1] o1] eqn:E1. apply write_header_P in E1.
      destruct (handle_write_headers cfg s' rest) as [[s'' v2] o2] eqn:E2. apply IH in E2. inv_pair H. shp.
  Qed.

  Lemma freeze_header_P cfg ft t i h : Forall P (snd (freeze_header cfg ft t i h)).
  Proof. destruct h; cbn [freeze_header snd]; shp. Qed.

  Lemma handle_freeze_P cfg ft hdrs : Forall P (snd (handle_freeze cfg ft hdrs)).
  Proof.
    induction hdrs as [|h rest IH]; cbn [handle_freeze snd]; [constructor|].
    pose proof (freeze_header_P cfg ft 0 0 h) as Hh.
    destruct (freeze_header cfg ft 0 0 h) as [v1 o1]. destruct (handle_freeze cfg ft rest) as [v2 o2].
    cbn [snd] in *. shp.
  Qed.

  Lemma handle_freeze_at_time_P cfg hdrs : forall timing, Forall P (snd (handle_freeze_at_time cfg timing hdrs)).
  Proof.
    induction hdrs as [|h rest IH]; intros timing; cbn [handle_freeze_at_time snd]; [constructor|].
    assert (Hgen : Forall P (snd (match timing with
        | None => let '(v, o) := handle_freeze_at_time cfg timing rest in (N.lor iin2_param v, o)
        | Some (t, i) => let '(v1, o1) := freeze_header cfg 2 t i h in
                         let '(v2, o2) := handle_freeze_at_time cfg timing rest in (N.lor v1 v2, o1 ++ o2)
        end))).
    { destruct timing as [[t i]|].
      - pose proof (freeze_header_P cfg 2 t i h) as Hh. pose proof (IH (Some (t, i))) as Hr.
        destruct (freeze_header cfg 2 t i h) as [v1 o1].
        destruct (handle_freeze_at_time cfg (Some (t, i)) rest) as [v2 o2]. cbn [snd] in *. shp.
      - pose proof (IH None) as Hr. destruct (handle_freeze_at_time cfg None rest) as [v2 o2]. exact Hr. }
    destruct h as [bits|t0|t0|c| |a b|[x|]| | |g v0 p items|]; try exact Hgen.
    - apply IH.
    - pose proof (IH timing) as Hr. destruct (handle_freeze_at_time cfg timing rest) as [v2 o2]. exact Hr.
  Qed.

  Lemma ctl_one_header_P s cfg cap mode g v prefix hdr_start items : forall written n num started w ok cbs st num' started',
    ctl_one_header s cfg cap mode g v prefix written n hdr_start num started items = (w, ok, cbs, st, num', started') ->
    Forall P cbs.
  Proof.
    induction items as [|[idx obj] rest IH]; intros written n num started w ok cbs st num' started' H;
      cbn [ctl_one_header] in H.
    - inv_pair H. constructor.
    - destruct (item_status s cfg mode num) as [st0 consulted].
      destruct (echo_items cap g v prefix written n hdr_start [(idx, replace_status obj st0)]) as [w1 ok1].
      destruct ok1.
      + destruct (ctl_one_header s cfg cap mode g v prefix w1 (n + 1) hdr_start (num + 1) (started || consulted) rest)
          as [[[[[w2 ok2] cbs2] st2] num2] started2] eqn:E. apply IH in E.
        inv_pair H. shp.
      + inv_pair H. shp.
  Qed.

  Lemma ctl_headers_P s cfg cap mode hdrs : forall written num started w ok cbs st started',
    ctl_headers s cfg cap mode written num started hdrs = (w, ok, cbs, st, started') -> Forall P cbs.
  Proof.
    induction hdrs as [|h rest IH]; intros written num started w ok cbs st started' H; cbn [ctl_headers] in H.
    - inv_pair H. constructor.
    - destruct h as [bits|t0|t0|c| |a b|x| | |g v p items|]; try (apply IH in H; exact H).
      destruct (ctl_one_header s cfg cap mode g v p written 0 (length written) num started items)
        as [[[[[w1 ok1] cbs1] st1] num1] started1] eqn:E1. apply ctl_one_header_P in E1.
      destruct ok1.
      + destruct (ctl_headers s cfg cap mode w1 num1 started1 rest) as [[[[w2 ok2] cbs2] st2] started2] eqn:E2.
        apply IH in E2. inv_pair H. shp.
      + inv_pair H. exact E1.
  Qed.

  Lemma noack_items_P s cfg g v items : forall num started cbs num' started',
    noack_items s cfg g v num started items = (cbs, num', started') -> Forall P cbs.
  Proof.
    induction items as [|[idx obj] rest IH]; intros num started cbs num' started' H; cbn [noack_items] in H.
    - inv_pair H. constructor.
    - match type of H with context [noack_items s cfg g v ?a ?b rest] =>
        destruct (noack_items s cfg g v a b rest) as [[cbs2 num2] started2] eqn:E end.
      apply IH in E. inv_pair H. shp.
  Qed.

  Lemma noack_headers_P s cfg hdrs : forall num started cbs started',
    noack_headers s cfg num started hdrs = (cbs, started') -> Forall P cbs.
  Proof.
    induction hdrs as [|h rest IH]; intros num started cbs started' H; cbn [noack_headers] in H.
    - inv_pair H. constructor.
    - destruct h as [bits|t0|t0|c| |a b|x| | |g v p items|]; try (apply IH in H; exact H).
      destruct (noack_items s cfg g v num started items) as [[cbs1 num1] started1] eqn:E1.
      apply noack_items_P in E1.
      destruct (noack_headers s cfg num1 started1 rest) as [cbs2 started2] eqn:E2. apply IH in E2.
      inv_pair H. shp.
  Qed.

  Lemma handle_controls_P cfg s fn seq fid bytes hdrs s1 r o :
    handle_controls cfg s fn seq fid bytes hdrs = (s1, r, o) -> Forall P o.
  Proof.
    unfold handle_controls. destruct (negb (all_controls hdrs)); [intros H; inv_pair H; constructor|].
    destruct (fn =? fn_direct_operate_nr).
    { destruct (noack_headers s cfg 0 false hdrs) as [cbs started] eqn:E. apply noack_headers_P in E.
      intros H; inv_pair H. shp. }
    destruct (fn =? fn_select).
    { destruct (ctl_headers s cfg (o_sol_tx cfg - 4) CmSelect [] 0 false hdrs) as [[[[echo ok] cbs] st] started] eqn:E.
      apply ctl_headers_P in E. intros H; inv_pair H. shp. }
    destruct (fn =? fn_direct_operate).
    { destruct (ctl_headers s cfg (o_sol_tx cfg - 4) (CmOperate OpDo) [] 0 false hdrs) as [[[[echo ok] cbs] st] started] eqn:E.
      apply ctl_headers_P in E. intros H; inv_pair H. shp. }
    match goal with |- context [match ?v with Some _ => _ | None => _ end = _] => destruct v as [status|] end.
    - destruct (ctl_headers s cfg (o_sol_tx cfg - 4) (CmStatus status) [] 0 false hdrs) as [[[[echo ok] cbs] st] started] eqn:E.
      intros H; inv_pair H. constructor.
    - destruct (ctl_headers s cfg (o_sol_tx cfg - 4) (CmOperate OpSbo) [] 0 false hdrs) as [[[[echo ok] cbs] st] started] eqn:E.
      apply ctl_headers_P in E. intros H; inv_pair H. shp.
  Qed.

  Lemma handle_non_read_P cfg s fn seq fid bytes hdrs s1 r o :
    handle_non_read cfg s fn seq fid bytes hdrs = (s1, r, o) -> Forall P o.
  Proof.
    unfold handle_non_read. cbv zeta. intros H.
    match type of H with (match ?X with _ => _ end) = _ => destruct X as [[sa ra] oa] eqn:EX end.
    inv_pair H. revert EX.
    repeat match goal with
           | |- (if ?c then _ else _) = _ -> _ => destruct c
           end.
    - destruct (handle_write_headers cfg s hdrs) as [[s' v] o'] eqn:E. apply handle_write_headers_P in E.
      intros H; inv_pair H. exact E.
    - intros H; inv_pair H. constructor.
    - intros H; inv_pair H. constructor.
    - destruct (restart_response seq s (o_cold cfg)) as [s' r']. intros H; inv_pair H. shp.
    - destruct (restart_response seq s (o_warm cfg)) as [s' r']. intros H; inv_pair H. shp.
    - apply handle_controls_P.
    - pose proof (handle_freeze_P cfg 0 hdrs) as Hn. destruct (handle_freeze cfg 0 hdrs) as [v o']. intros H; inv_pair H. exact Hn.
    - pose proof (handle_freeze_P cfg 0 hdrs) as Hn. destruct (handle_freeze cfg 0 hdrs) as [v o']. intros H; inv_pair H. exact Hn.
    - pose proof (handle_freeze_P cfg 1 hdrs) as Hn. destruct (handle_freeze cfg 1 hdrs) as [v o']. intros H; inv_pair H. exact Hn.
    - pose proof (handle_freeze_P cfg 1 hdrs) as Hn. destruct (handle_freeze cfg 1 hdrs) as [v o']. intros H; inv_pair H. exact Hn.
    - pose proof (handle_freeze_at_time_P cfg hdrs None) as Hn. destruct (handle_freeze_at_time cfg None hdrs) as [v o'].
      intros H; inv_pair H. exact Hn.
    - pose proof (handle_freeze_at_time_P cfg hdrs None) as Hn. destruct (handle_freeze_at_time cfg None hdrs) as [v o'].
      intros H; inv_pair H. exact Hn.
    - destruct (enable_disable cfg s true seq hdrs) as [s' r']. intros H; inv_pair H. constructor.
    - destruct (enable_disable cfg s false seq hdrs) as [s' r']. intros H; inv_pair H. constructor.
    - intros H; inv_pair H. constructor.
  Qed.

  Lemma process_broadcast_P cfg s m fid ctl fn bytes obj s1 o :
    process_broadcast cfg s m fid ctl fn bytes obj = (s1, o) -> Forall P o.
  Proof.
    unfold process_broadcast. destruct (negb (o_broadcast cfg)); [intros H; inv_pair H; shp|].
    destruct obj as [e|hdrs rh]; [intros H; inv_pair H; shp|].
    repeat match goal with
           | |- (if ?c then _ else _) = _ -> _ => destruct c
           end.
    - match goal with |- context [handle_write_headers cfg ?a hdrs] =>
        destruct (handle_write_headers cfg a hdrs) as [[s' v] o'] eqn:E end.
      apply handle_write_headers_P in E. intros H; inv_pair H. shp.
    - match goal with |- context [handle_controls cfg ?a ?b ?c ?d ?e hdrs] =>
        destruct (handle_controls cfg a b c d e hdrs) as [[s' r'] o'] eqn:E end.
      apply handle_controls_P in E. intros H; inv_pair H. shp.
    - pose proof (handle_freeze_P cfg 0 hdrs) as Hn. destruct (handle_freeze cfg 0 hdrs) as [v o']. intros H; inv_pair H. shp.
    - pose proof (handle_freeze_P cfg 1 hdrs) as Hn. destruct (handle_freeze cfg 1 hdrs) as [v o']. intros H; inv_pair H. shp.
    - pose proof (handle_freeze_at_time_P cfg hdrs None) as Hn. destruct (handle_freeze_at_time cfg None hdrs) as [v o'].
      intros H; inv_pair H. shp.
    - intros H; inv_pair H. shp.
    - match goal with |- context [enable_disable cfg ?a false ?c hdrs] =>
        destruct (enable_disable cfg a false c hdrs) as [s' r'] end. intros H; inv_pair H. shp.
    - match goal with |- context [enable_disable cfg ?a true ?c hdrs] =>
        destruct (enable_disable cfg a true c hdrs) as [s' r'] end. intros H; inv_pair H. shp.
    - intros H; inv_pair H. shp.
  Qed.

  (* a fragment in the unsolicited confirm wait *)
  Lemma unsol_wait_fragment_P cfg s resp from bc bytes d fid s1 res o :
    unsol_wait_fragment cfg s resp from bc bytes d fid = (s1, res, o) -> Forall P o.
  Proof.
    unfold unsol_wait_fragment. destruct (to_treq cfg from d) as [|eseq|ctl fn obj].
    - intros H; inv_pair H. constructor.
    - destruct (write_error_response (upd_deferred s None) from bc eseq) as [s0 o0] eqn:E.
      apply write_error_response_P in E. intros H; inv_pair H. exact E.
    - destruct (classify s bc bytes ctl fn obj) as [iin2|hdrs rh|rsp hdrs rh|hdrs|rsp|m|q|q].
      + match goal with |- context [write_solicited ?a ?b ?c] => destruct (write_solicited a b c) as [[s0 r0] o0] eqn:E end.
        apply write_solicited_P in E. intros H; inv_pair H. exact E.
      + intros H; inv_pair H. constructor.
      + intros H; inv_pair H. constructor.
      + match goal with |- context [handle_non_read cfg ?a ?b ?c ?e ?f ?g] =>
          destruct (handle_non_read cfg a b c e f g) as [[sa ra] oa] eqn:Ea end.
        apply handle_non_read_P in Ea.
        destruct ra as [r0|].
        * destruct (write_solicited sa from r0) as [[sb rb] ob] eqn:Eb. apply write_solicited_P in Eb.
          intros H; inv_pair H. shp.
        * intros H; inv_pair H. shp.
      + intros H; inv_pair H. destruct rsp; [apply repeat_solicited_P|constructor].
      + match goal with |- context [process_broadcast cfg ?a ?b ?c ?e ?f ?g ?h] =>
          destruct (process_broadcast cfg a b c e f g h) as [sa oa] eqn:Ea end.
        apply process_broadcast_P in Ea. intros H; inv_pair H. exact Ea.
      + intros H; inv_pair H. constructor.
      + destruct (q =? ctl_seq (r_ctl resp)); intros H; inv_pair H; shp.
  Qed.

  (* ---- the READ path and the unsolicited probe: more calls into the database ---- *)
  Hypothesis Pfuel : P OOutOfFuel.
  Hypothesis Pdb : forall c, c <> DbClearWritten -> P (ODb c).

  Ltac shd :=
    repeat match goal with
           | |- Forall _ [] => apply Forall_nil
           | |- Forall _ (_ :: _) => apply Forall_cons; [first [apply Pcb | apply Ptx | exact Pmiss | exact Pfuel | apply Pinfo; reflexivity | apply Pdb; discriminate | auto]|]
           | |- Forall _ (_ ++ _) => apply Forall_app; split
           | |- Forall _ (if ?b then _ else _) => destruct b
           end; auto.

  Lemma ask_iin2_P s c s1 v o : c <> DbClearWritten -> ask_iin2 s c = (s1, v, o) -> Forall P o.
  Proof. intros Hc. unfold ask_iin2. destruct (s_answers s) as [|[] rest]; intros H; inv_pair H; shd. Qed.

  Lemma ask_write_P s s1 x o : ask_write s = (s1, x, o) -> Forall P o.
  Proof. unfold ask_write. destruct (s_answers s) as [|[] rest]; intros H; inv_pair H; shd. Qed.

  Lemma format_read_response_P s fir seq iin2 s1 r se o : format_read_response s fir seq iin2 = (s1, r, se, o) -> Forall P o.
  Proof.
    unfold format_read_response. destruct (ask_write s) as [[s0 [[c e] b]] o0] eqn:E. apply ask_write_P in E.
    intros H; inv_pair H. exact E.
  Qed.

  Lemma format_first_read_response_P s seq s1 r se o : format_first_read_response s seq = (s1, r, se, o) -> Forall P o.
  Proof.
    unfold format_first_read_response. destruct (ask_iin2 s DbSelect) as [[s0 v] o0] eqn:E.
    apply ask_iin2_P in E; [|discriminate].
    destruct (format_read_response s0 true seq v) as [[[s2 r2] se2] o2] eqn:F. apply format_read_response_P in F.
    intros H; inv_pair H. shd.
  Qed.

  Lemma finish_idle_P cfg from seq bytes fn q s1 resp se rep o1 s2 o2 :
    Forall P o1 -> finish_idle cfg from seq bytes [OInfo (IIdleRequest fn q)] s1 resp se rep o1 = (s2, o2) -> Forall P o2.
  Proof.
    intros H1. unfold finish_idle. destruct resp as [r|]; [|intros H; inv_pair H; shd].
    destruct rep.
    - cbv zeta. match goal with |- context [match ?x with Some _ => _ | None => _ end = _] => destruct x end;
        intros H; inv_pair H; shd; apply repeat_solicited_P.
    - destruct (write_solicited s1 from r) as [[sa ra] oa] eqn:E. apply write_solicited_P in E. cbv zeta.
      match goal with |- context [match ?x with Some _ => _ | None => _ end = _] => destruct x end;
        intros H; inv_pair H; shd.
  Qed.

  Lemma handle_from_idle_P cfg s from bc bytes d fid s2 o2 :
    handle_from_idle cfg s from bc bytes d fid = (s2, o2) -> Forall P o2.
  Proof.
    rewrite handle_from_idle_eq. destruct (to_treq cfg from d) as [|eseq|ctl fn obj].
    - intros H; inv_pair H. constructor.
    - apply write_error_response_P.
    - cbv zeta. destruct (classify s bc bytes ctl fn obj) as [iin2|hdrs rh|rsp hdrs rh|hdrs|rsp|m|q|q].
      + apply finish_idle_P. constructor.
      + destruct (format_first_read_response s (ctl_seq ctl)) as [[[s1 r] se] o1] eqn:E.
        apply format_first_read_response_P in E. apply finish_idle_P. exact E.
      + destruct (format_first_read_response s (ctl_seq ctl)) as [[[s1 r] se] o1] eqn:E.
        apply format_first_read_response_P in E. apply finish_idle_P. exact E.
      + destruct (handle_non_read cfg s fn (ctl_seq ctl) fid bytes hdrs) as [[s1 r] o1] eqn:E.
        apply handle_non_read_P in E. apply finish_idle_P. exact E.
      + apply finish_idle_P. constructor.
      + destruct (process_broadcast cfg s m fid ctl fn bytes obj) as [s1 o1] eqn:E.
        apply process_broadcast_P in E. intros H; inv_pair H. shd.
      + intros H; inv_pair H. shd.
      + intros H; inv_pair H. shd.
  Qed.

  Lemma check_unsolicited_P cfg s s1 ns o : check_unsolicited cfg s = (s1, ns, o) -> Forall P o.
  Proof.
    unfold check_unsolicited. destruct (negb (o_unsol cfg)); [intros H; inv_pair H; constructor|].
    destruct (s_unsol s) as [|deadline].
    { match goal with |- context [start_unsol cfg ?a ?b ?c] => destruct (start_unsol cfg a b c) as [s2 o2] eqn:E end.
      apply start_unsol_P in E. intros H; inv_pair H. exact E. }
    destruct (negb match deadline with Some t => (t <=? s_now s)%Z | None => true end); [intros H; inv_pair H; constructor|].
    destruct (negb (any_enabled s)); [intros H; inv_pair H; constructor|].
    destruct (ask_unsol s) as [sa [count body]]. destruct (s_enabled s) as [[c1 c2] c3].
    destruct (count =? 0); [intros H; inv_pair H; constructor|].
    match goal with |- context [start_unsol cfg ?a ?b ?c] => destruct (start_unsol cfg a b c) as [s2 o2] eqn:E end.
    apply start_unsol_P in E. intros H; inv_pair H. shd.
  Qed.

  Lemma handle_deferred_P cfg s ns s1 o : handle_deferred cfg s ns = (s1, o) -> Forall P o.
  Proof.
    unfold handle_deferred. destruct (s_deferred s) as [d|]; [|intros H; inv_pair H; constructor].
    match goal with |- context [ask_iin2 ?a ?b] => destruct (ask_iin2 a b) as [[sa iin2] oa] eqn:Ea end.
    apply ask_iin2_P in Ea; [|discriminate].
    destruct (format_read_response sa true (df_seq d) (N.lor (df_iin2 d) iin2)) as [[[sb r] se] ob] eqn:Eb.
    apply format_read_response_P in Eb.
    destruct (write_solicited sb (df_from d) r) as [[sc r'] oc] eqn:Ec. apply write_solicited_P in Ec.
    cbv zeta. match goal with |- context [match ?x with Some _ => _ | None => _ end = _] => destruct x end;
      intros H; inv_pair H; shd.
  Qed.

  Lemma end_unsol_P cfg s n res s1 ns o : res <> UrConfirmed -> end_unsol cfg s n res = (s1, ns, o) -> Forall P o.
  Proof. intros Hr. unfold end_unsol. destruct n, res; intros H; inv_pair H; shd; congruence. Qed.
End Shape.

(* ---------- part 3a: which fragment is the awaited CONFIRM ------------------------------------------- *)

(* the sequence number of a unicast CONFIRM with the UNS bit, accepted from the master *)
Definition uconf_seq (cfg : ocfg) (from : N) (bc : option bcast_mode) (d : digest) : option N :=
  match bc, to_treq cfg from d with
  | None, TqRequest ctl fn _ => if (fn =? fn_confirm) && ctl_uns ctl then Some (ctl_seq ctl) else None
  | _, _ => None
  end.

(* a unicast CONFIRM without the UNS bit carrying the expected solicited sequence number *)
Definition sol_conf (cfg : ocfg) (se : series) (from : N) (bc : option bcast_mode) (d : digest) : bool :=
  match bc, to_treq cfg from d with
  | None, TqRequest ctl fn _ => (fn =? fn_confirm) && negb (ctl_uns ctl) && (ctl_seq ctl =? se_ecsn se)
  | _, _ => false
  end.

(* the unsolicited confirm wait: the series is confirmed exactly by the UNS CONFIRM with the sequence
   number of the outstanding response; then nothing but the information callback is emitted *)
Lemma unsol_wait_fragment_res cfg s resp from bc bytes d fid s1 res o :
  unsol_wait_fragment cfg s resp from bc bytes d fid = (s1, res, o) ->
  match uconf_seq cfg from bc d with
  | Some q => if q =? ctl_seq (r_ctl resp)
              then res = Some UrConfirmed /\ o = [OInfo (IUnsolConfirmed q)]
              else res = None /\ o = []
  | None => res <> Some UrConfirmed
  end.
Proof.
  unfold unsol_wait_fragment, uconf_seq. destruct (to_treq cfg from d) as [|eseq|ctl fn obj].
  - intros H; inv_pair H. destruct bc; discriminate.
  - destruct (write_error_response (upd_deferred s None) from bc eseq) as [s0 o0].
    intros H; inv_pair H. destruct bc; discriminate.
  - destruct bc as [m|].
    + cbn [classify].
      match goal with |- context [process_broadcast cfg ?a ?b ?c ?e ?f ?g ?h] =>
        destruct (process_broadcast cfg a b c e f g h) as [sa oa] end.
      intros H; inv_pair H. destruct (bcast_disable_processed cfg fn obj); discriminate.
    + unfold classify. destruct (fn =? fn_confirm) eqn:Ef.
      * destruct (ctl_uns ctl); cbn [andb].
        -- destruct (ctl_seq ctl =? ctl_seq (r_ctl resp)); intros H; inv_pair H; split; reflexivity.
        -- intros H; inv_pair H. discriminate.
      * cbn [andb]. destruct obj as [iin2|hdrs rh].
        { match goal with |- context [write_solicited ?a ?b ?c] => destruct (write_solicited a b c) as [[s0 r0] o0] end.
          intros H; inv_pair H. discriminate. }
        destruct (match s_last s with Some l => (lr_seq l =? ctl_seq ctl) && bytes_eqb (lr_bytes l) bytes | None => false end);
          destruct (fn =? fn_read); try (intros H; inv_pair H; discriminate).
        match goal with |- context [handle_non_read cfg ?a ?b ?c ?e ?f ?g] =>
          destruct (handle_non_read cfg a b c e f g) as [[sa ra] oa] end.
        destruct ra as [r0|]; [destruct (write_solicited sa from r0) as [[sb rb] ob]|];
          intros H; inv_pair H; destruct (fn =? fn_disable_unsol); discriminate.
Qed.

(* observations of a fragment that leaves the solicited confirm wait as it is *)
Definition sol_quiet (o : oobs) : Prop :=
  match o with OTx _ _ | OInfo (ISolWrongSeq _ _) | OInfo (IUnexpectedConfirm _ _) => True | _ => False end.

Lemma sol_quiet_nodb o : sol_quiet o -> nodb o.
Proof. destruct o; cbn; tauto. Qed.

Lemma sol_wait_fragment_cases cfg s se dl from bc bytes d out o :
  sol_wait_fragment cfg s se dl from bc bytes d = (out, o) ->
  match out with
  | SoConfirmed rt => sol_conf cfg se from bc d = true /\ rt = from /\ o = [OInfo (ISolConfirmed (se_ecsn se))]
  | SoStay _ => sol_conf cfg se from bc d = false /\ Forall sol_quiet o
  | SoNewRequest => sol_conf cfg se from bc d = false /\ uconf_seq cfg from bc d = None /\ o = [OInfo ISolNewRequest]
  end.
Proof.
  unfold sol_wait_fragment, sol_conf, uconf_seq. destruct (to_treq cfg from d) as [|eseq|ctl fn obj].
  - intros H; inv_pair H. destruct bc; split; constructor.
  - intros H; inv_pair H. destruct bc; repeat split.
  - destruct bc as [m|]; [cbn [classify]; intros H; inv_pair H; repeat split|].
    unfold classify. destruct (fn =? fn_confirm) eqn:Ef; cbn [andb].
    + destruct (ctl_uns ctl); cbn [andb negb].
      * intros H; inv_pair H. split; [reflexivity|repeat constructor].
      * destruct (ctl_seq ctl =? se_ecsn se); intros H; inv_pair H; [repeat split|split; [reflexivity|repeat constructor]].
    + destruct obj as [iin2|hdrs rh]; [intros H; inv_pair H; repeat split|].
      destruct (match s_last s with Some l => (lr_seq l =? ctl_seq ctl) && bytes_eqb (lr_bytes l) bytes | None => false end);
        destruct (fn =? fn_read); intros H; inv_pair H; repeat split.
      destruct (match s_last s with Some l => lr_response l | None => None end); repeat constructor.
Qed.

(* ---------- part 2: the idle loop ---------------------------------------------------------------------- *)

(* a fragment retained by the reader is not an unsolicited CONFIRM (it was retained because it aborted a
   solicited series, and a CONFIRM never does that) *)
Definition pnc (cfg : ocfg) (s : ostate) : Prop :=
  match s_pending s with
  | Some (from, bc, _, d, _) => uconf_seq cfg from bc d = None
  | None => True
  end.

Section Loop.
  Variable P : oobs -> Prop.
  Hypothesis HP : hshape P.
  Hypothesis Pfuel : P OOutOfFuel.
  Hypothesis Pdb : forall c, c <> DbClearWritten -> P (ODb c).

  (* everything run_idle_state emits satisfies P, when P allows every database call but
     clear_written_events: a fragment read from the reader at stage 2 (inside a freshly started
     unsolicited series) is never that series' CONFIRM *)
  Lemma idle_run_P cfg : forall f st s s' o,
    (st = St2 -> pnc cfg s) -> idle_run f cfg st s = (s', o) -> Forall P o.
  Proof.
    induction f as [|f IH]; intros st s s' o Hp H; cbn [idle_run] in H.
    { inv_pair H. constructor; [exact Pfuel|constructor]. }
    destruct st as [| |ns|ns].
    - (* St1 *)
      destruct (s_pending s) as [[[[[from bc] bytes] d] fid]|] eqn:Ep.
      + destruct (handle_from_idle cfg (upd_pending s None) from bc bytes d fid) as [s1 o1] eqn:Eh.
        pose proof (handle_from_idle_P P HP Pdb _ _ _ _ _ _ _ _ _ Eh) as Ho1.
        apply handle_from_idle_spec in Eh. destruct Eh as [A _]. pget FPend A. prj.
        destruct (s_control s1).
        * destruct (idle_run f cfg St2 s1) as [s2 o2] eqn:Er. inv_pair H.
          apply Forall_app. split; [exact Ho1|]. eapply (IH St2 s1); [|exact Er].
          intros _. unfold pnc. rewrite P0. exact I.
        * inv_pair H. exact Ho1.
        * inv_pair H. exact Ho1.
      + destruct (s_control s).
        * destruct (idle_run f cfg St2 s) as [s2 o2] eqn:Er. inv_pair H.
          eapply (IH St2 s); [|exact Er]. intros _. unfold pnc. rewrite Ep. exact I.
        * inv_pair H. constructor.
        * inv_pair H. constructor.
    - (* St2 *)
      specialize (Hp eq_refl).
      destruct (check_unsolicited cfg s) as [[s2 b2] o2] eqn:Ecu.
      pose proof (check_unsolicited_P P HP Pdb _ _ _ _ _ Ecu) as Ho2.
      apply check_unsolicited_spec in Ecu. destruct Ecu as [A _]. pget FPend A.
      destruct (s_control s2) as [|se dl r|resp isn rt dl].
      + destruct (idle_run f cfg (St3 false) s2) as [s3 o3] eqn:Er. inv_pair H.
        apply Forall_app. split; [exact Ho2|]. eapply (IH (St3 false) s2); [discriminate|exact Er].
      + inv_pair H. exact Ho2.
      + destruct (s_pending s2) as [[[[[from bc] bytes] d] fid]|] eqn:Ep2; [|inv_pair H; exact Ho2].
        destruct (unsol_wait_fragment cfg (upd_pending s2 None) resp from bc bytes d fid) as [[s3 res] o3] eqn:Eu.
        pose proof (unsol_wait_fragment_P P HP _ _ _ _ _ _ _ _ _ _ _ Eu) as Ho3.
        apply unsol_wait_fragment_res in Eu.
        assert (Hnc : uconf_seq cfg from bc d = None).
        { unfold pnc in Hp. rewrite <- P0 in Hp. exact Hp. }
        rewrite Hnc in Eu.
        destruct res as [r|].
        * destruct (end_unsol cfg s3 isn r) as [[s4 ns4] o4] eqn:Ee.
          apply (end_unsol_P P Pdb) in Ee; [|congruence].
          destruct (idle_run f cfg (St3 ns4) s4) as [s5 o5] eqn:Er. inv_pair H.
          repeat (apply Forall_app; split); auto. eapply (IH (St3 ns4) s4); [discriminate|exact Er].
        * inv_pair H. apply Forall_app. split; assumption.
    - (* St3 *)
      destruct (handle_deferred cfg s ns) as [s3 o3] eqn:Ed.
      pose proof (handle_deferred_P P HP Pdb _ _ _ _ _ Ed) as Ho3.
      destruct (s_control s3).
      + destruct (idle_run f cfg (St4 ns) s3) as [s4 o4] eqn:Er. inv_pair H.
        apply Forall_app. split; [exact Ho3|]. eapply (IH (St4 ns) s3); [discriminate|exact Er].
      + inv_pair H. exact Ho3.
      + inv_pair H. exact Ho3.
    - (* St4 *)
      destruct (s_pending s) as [fr|]; [eapply (IH St1 s); [discriminate|exact H]|].
      destruct ns; [eapply (IH St1 s); [discriminate|exact H]|].
      destruct (s_notify s); [eapply (IH St1 _); [discriminate|exact H]|].
      inv_pair H. constructor.
  Qed.
End Loop.

(* ---------- part 3b: a whole step -------------------------------------------------------------------- *)

(* the event is the CONFIRM the session is waiting for; the information callback it causes *)
Definition releasing (cfg : ocfg) (s : ostate) (ev : oevent) : option infocb :=
  match ev with
  | ERx from bc bytes d =>
      match s_control s with
      | CSolWait se _ _ => if sol_conf cfg se from bc d then Some (ISolConfirmed (se_ecsn se)) else None
      | CUnsolWait resp false _ _ =>
          match uconf_seq cfg from bc d with
          | Some q => if q =? ctl_seq (r_ctl resp) then Some (IUnsolConfirmed q) else None
          | None => None
          end
      | _ => None
      end
  | _ => None
  end.

(* a solicited confirm wait is given up *)
Definition is_abandon (i : infocb) : bool :=
  match i with ISolTimeout _ | ISolNewRequest => true | _ => false end.

(* a list of observations in which everything satisfies P, except that a solicited confirm wait may be
   given up - and then the database is reset at once *)
Inductive tl_shape (P : oobs -> Prop) : list oobs -> Prop :=
| ts_nil : tl_shape P []
| ts_cons : forall x l, P x -> tl_shape P l -> tl_shape P (x :: l)
| ts_abandon : forall i l, is_abandon i = true -> tl_shape P l -> tl_shape P (OInfo i :: ODb DbReset :: l).

Lemma tl_shape_Forall P l : Forall P l -> tl_shape P l.
Proof. induction 1; constructor; assumption. Qed.

Lemma tl_shape_app P a b : tl_shape P a -> tl_shape P b -> tl_shape P (a ++ b).
Proof. induction 1; intros Hb; cbn [app]; [exact Hb|apply ts_cons; auto|apply ts_abandon; auto]. Qed.

(* the output of a step: clear_written_events is called at most once, directly after the information
   callback of the awaited CONFIRM *)
Definition release_shape (P : oobs -> Prop) (i : option infocb) (out : list oobs) : Prop :=
  match i with
  | Some i => exists rest, out = OInfo i :: ODb DbClearWritten :: rest /\ tl_shape P rest
  | None => tl_shape P out
  end.

Lemma pnc_none cfg s : s_pending s = None -> pnc cfg s.
Proof. intros H. unfold pnc. rewrite H. exact I. Qed.

Section Step.
  Variable P : oobs -> Prop.
  Hypothesis HP : hshape P.
  Hypothesis Pfuel : P OOutOfFuel.
  Hypothesis Pdb : forall c, c <> DbClearWritten -> P (ODb c).
  Hypothesis Pat : forall t, P (OAt t).
  Hypothesis Putmo : forall q b, P (OInfo (IUnsolTimeout q b)).
  Hypothesis Pend : P OSessionEnd.

  Lemma resume_at_P cfg st s s' o : (st = St2 -> pnc cfg s) -> resume_at cfg st s = (s', o) -> Forall P o.
  Proof. unfold resume_at. apply (idle_run_P P HP Pfuel Pdb). Qed.

  Lemma idle_loop_P cfg s s' o : idle_loop 8 cfg s = (s', o) -> Forall P o.
  Proof. rewrite idle_loop8. apply (idle_run_P P HP Pfuel Pdb). discriminate. Qed.

  Lemma sol_quiet_P o : Forall sol_quiet o -> Forall P o.
  Proof.
    apply Forall_impl. intros [d b|c|c|i| |t| |] H; try destruct H.
    - apply (hs_tx P HP).
    - destruct i; try destruct H; apply (hs_info P HP); reflexivity.
  Qed.

  Lemma fire_deadline_P cfg s s' o : s_pending s = None -> fire_deadline cfg s = (s', o) -> tl_shape P o.
  Proof.
    intros Hp H. unfold fire_deadline in H. destruct (s_control s) as [|se dl r|resp n rt dl].
    - apply tl_shape_Forall. apply (resume_at_P cfg St1 s s' o); [discriminate|exact H].
    - destruct (resume_at cfg (stage_of r) (upd_control s CIdle)) as [s1 o1] eqn:Er. inv_pair H.
      apply resume_at_P in Er; [|intros _; apply pnc_none; exact Hp].
      apply (ts_abandon P (ISolTimeout (se_ecsn se)) o1); [reflexivity|]. apply tl_shape_Forall. exact Er.
    - cbv zeta in H. apply tl_shape_Forall.
      destruct (match rt with Some 0%nat => false | _ => true end && match s_deferred s with Some _ => false | None => true end).
      + inv_pair H. constructor; [apply Putmo|]. constructor; [apply (hs_tx P HP)|constructor].
      + destruct (end_unsol cfg s n UrTimeout) as [[s1 ns] o1] eqn:Ee.
        apply (end_unsol_P P Pdb) in Ee; [|discriminate].
        destruct (resume_at cfg (St3 ns) s1) as [s2 o2] eqn:Er. inv_pair H.
        apply resume_at_P in Er; [|discriminate].
        constructor; [apply Putmo|]. apply Forall_app. split; assumption.
  Qed.

  Lemma advance_P cfg target : forall f s s' o, J s -> advance f cfg s target = (s', o) -> tl_shape P o.
  Proof.
    induction f as [|f IH]; intros s s' o HJ H; cbn [advance] in H.
    { inv_pair H. apply tl_shape_Forall. repeat constructor. exact Pfuel. }
    destruct (next_deadline cfg s) as [dl|]; [|inv_pair H; constructor].
    destruct (dl <=? target)%Z; [|inv_pair H; constructor].
    destruct (fire_deadline cfg (upd_now s (Z.max dl (s_now s)))) as [s1 o1] eqn:Ef.
    pose proof (fire_deadline_P cfg (upd_now s (Z.max dl (s_now s))) _ _ (proj1 HJ) Ef) as Ho1.
    apply fire_deadline_spec in Ef; [|exact HJ]. destruct Ef as [_ J1].
    destruct (advance f cfg s1 target) as [s2 o2] eqn:Ea. inv_pair H.
    apply IH in Ea; [|exact J1]. apply ts_cons; [apply Pat|]. apply tl_shape_app; assumption.
  Qed.

  Lemma on_rx_release cfg s from bc bytes d s' out :
    J s -> on_rx cfg s from bc bytes d = (s', out) ->
    release_shape P (releasing cfg s (ERx from bc bytes d)) out.
  Proof.
    intros [Jp Jd] H. unfold on_rx in H. cbv zeta in H.
    set (fid := (s_frame_id s + 1) mod 4294967296) in *.
    set (s0 := upd_frame_id s fid) in *.
    assert (Hp0 : s_pending s0 = None) by exact Jp.
    change (s_control s0) with (s_control s) in H. unfold releasing, release_shape.
    destruct (s_control s) as [|se dl r|resp n rt dl] eqn:Ec.
    - apply tl_shape_Forall. eapply idle_loop_P; exact H.
    - destruct (sol_wait_fragment cfg s0 se dl from bc bytes d) as [out1 o1] eqn:E1.
      apply sol_wait_fragment_cases in E1. destruct out1 as [dl'|rt|].
      + destruct E1 as [E1 Q]. rewrite E1. inv_pair H. apply tl_shape_Forall, sol_quiet_P, Q.
      + destruct E1 as (E1 & -> & ->). rewrite E1.
        destruct (se_fin se).
        * match type of H with context [resume_at cfg ?a ?b] => destruct (resume_at cfg a b) as [s2 o2] eqn:E2 end.
          inv_pair H. exists o2. split; [reflexivity|]. apply tl_shape_Forall.
          eapply resume_at_P; [|exact E2]. intros _. apply pnc_none. exact Hp0.
        * match type of H with context [format_read_response ?a ?b ?c ?e] =>
            destruct (format_read_response a b c e) as [[[s2 rsp] next] o2] eqn:E2 end.
          destruct (write_solicited s2 from rsp) as [[s3 rsp'] o3] eqn:E3.
          pose proof (format_read_response_P P HP Pdb _ _ _ _ _ _ _ _ E2) as Ho2.
          pose proof (write_solicited_P P HP _ _ _ _ _ _ E3) as Ho3.
          apply format_read_response_pres in E2. destruct E2 as [A2 _]. pget FPend A2.
          apply write_solicited_pres in E3. destruct E3 as [A3 _]. pget FPend A3. prj.
          destruct next as [nx|].
          -- inv_pair H. exists (o2 ++ o3). split; [reflexivity|]. apply tl_shape_Forall, Forall_app. split; assumption.
          -- match type of H with context [resume_at cfg ?a ?b] => destruct (resume_at cfg a b) as [s5 o5] eqn:E5 end.
             inv_pair H. exists (o2 ++ o3 ++ o5). split; [reflexivity|].
             apply resume_at_P in E5; [|intros _; apply pnc_none; prj; congruence].
             apply tl_shape_Forall. repeat (apply Forall_app; split); assumption.
      + destruct E1 as (E1 & Eu & ->). rewrite E1.
        match type of H with context [resume_at cfg ?a ?b] => destruct (resume_at cfg a b) as [s2 o2] eqn:E2 end.
        inv_pair H. apply (ts_abandon P ISolNewRequest o2); [reflexivity|]. apply tl_shape_Forall.
        eapply resume_at_P; [|exact E2]. intros _. unfold pnc. prj. exact Eu.
    - destruct (unsol_wait_fragment cfg s0 resp from bc bytes d fid) as [[s1 res] o1] eqn:E1.
      pose proof (unsol_wait_fragment_P P HP _ _ _ _ _ _ _ _ _ _ _ E1) as Ho1.
      apply unsol_wait_fragment_res in E1.
      destruct res as [r|].
      + destruct (end_unsol cfg s1 n r) as [[s2 ns] o2] eqn:E2.
        destruct (resume_at cfg (St3 ns) s2) as [s3 o3] eqn:E3. inv_pair H.
        apply resume_at_P in E3; [|discriminate].
        destruct (uconf_seq cfg from bc d) as [q|] eqn:Eq.
        * destruct (q =? ctl_seq (r_ctl resp)); destruct E1 as [E1a E1b]; [|discriminate E1a].
          inv_pair E1a. unfold end_unsol in E2. destruct n; inv_pair E2.
          -- cbn [app]. apply tl_shape_Forall. constructor; [apply (hs_info P HP); reflexivity|exact E3].
          -- exists o3. split; [reflexivity|apply tl_shape_Forall; exact E3].
        * apply (end_unsol_P P Pdb) in E2; [|congruence].
          assert (Hall : tl_shape P (o1 ++ o2 ++ o3)) by (apply tl_shape_Forall; repeat (apply Forall_app; split); assumption).
          destruct n; exact Hall.
      + inv_pair H. apply tl_shape_Forall in Ho1. destruct (uconf_seq cfg from bc d) as [q|]; [|destruct n; exact Ho1].
        destruct (q =? ctl_seq (r_ctl resp)); [destruct E1 as [E1 _]; discriminate E1|destruct n; exact Ho1].
  Qed.

  Lemma ostep_release_P cfg s ev ans s' out :
    J s -> ostep cfg s ev ans = (s', out) -> release_shape P (releasing cfg s ev) out.
  Proof.
    intros HJ H. unfold ostep in H.
    set (s0 := upd_answers s ans) in *.
    assert (J0 : J s0) by exact HJ.
    change (releasing cfg s ev) with (releasing cfg s0 ev).
    destruct ev as [from bc bytes d|ms| |sel op|v|].
    - destruct (on_rx cfg s0 from bc bytes d) as [s1 o1] eqn:E1.
      destruct (advance 64 cfg s1 (s_now s1 + settle_ms)) as [s2 o2] eqn:E2. inv_pair H.
      pose proof (on_rx_release _ _ _ _ _ _ _ _ J0 E1) as R1.
      apply on_rx_spec in E1; [|exact J0]. destruct E1 as [J1 _].
      apply advance_P in E2; [|exact J1].
      unfold release_shape in *. destruct (releasing cfg s0 (ERx from bc bytes d)) as [i|].
      + destruct R1 as (rest & -> & Hr). exists (rest ++ o2). split; [reflexivity|]. apply tl_shape_app; assumption.
      + apply tl_shape_app; assumption.
    - destruct (advance 4096 cfg s0 (s_now s0 + ms)) as [sa oa] eqn:Ea. inv_pair H.
      eapply advance_P; [exact J0|exact Ea].
    - change (s_control s0) with (s_control s) in H. cbn [releasing release_shape].
      destruct (s_control s) eqn:Ec.
      + destruct (idle_loop 8 cfg s0) as [s1 o1] eqn:E1.
        destruct (advance 64 cfg s1 (s_now s1 + settle_ms)) as [s2 o2] eqn:E2. inv_pair H.
        pose proof (idle_loop_P _ _ _ _ E1) as Ho1.
        apply idle_loop_spec in E1; [|split; [exact Ec|]|exact (proj1 J0)].
        * destruct E1 as [_ J1]. apply advance_P in E2; [|exact J1]. apply tl_shape_app; [apply tl_shape_Forall|]; assumption.
        * destruct J0 as [_ [Jd|Jd]]; [exact Jd|]. change (s_control s0) with (s_control s) in Jd. rewrite Ec in Jd. destruct Jd.
      + match type of H with context [advance 64 cfg ?a ?b] => destruct (advance 64 cfg a b) as [s2 o2] eqn:E2 end.
        inv_pair H. eapply advance_P; [|exact E2]. exact J0.
      + match type of H with context [advance 64 cfg ?a ?b] => destruct (advance 64 cfg a b) as [s2 o2] eqn:E2 end.
        inv_pair H. eapply advance_P; [|exact E2]. exact J0.
    - inv_pair H. constructor.
    - inv_pair H. constructor.
    - set (s1 := upd_pending (upd_control (session_reset s0) CIdle) None) in H.
      destruct (idle_loop 8 cfg s1) as [s2 o2] eqn:E2.
      destruct (advance 64 cfg s2 (s_now s2 + settle_ms)) as [s3 o3] eqn:E3. inv_pair H.
      pose proof (idle_loop_P _ _ _ _ E2) as Ho2.
      apply idle_loop_spec in E2; [|split; reflexivity|reflexivity]. destruct E2 as [_ J2].
      apply advance_P in E3; [|exact J2].
      cbn [releasing release_shape]. apply ts_cons; [apply Pdb; discriminate|]. apply ts_cons; [exact Pend|].
      apply tl_shape_app; [apply tl_shape_Forall|]; assumption.
  Qed.

  Lemma ostart_P cfg sel op iin a s o : ostart cfg sel op iin a = (s, o) -> Forall P o.
  Proof. unfold ostart. apply idle_loop_P. Qed.
End Step.

(* ---------- the instances ------------------------------------------------------------------------------- *)

Lemma nodb_h_weak : forall P : oobs -> Prop, (forall o, nodb o -> P o) -> P (ODb DbEvinfo) -> hshape P.
Proof. intros P H Hev. split; intros; try (apply H; exact I). exact Hev. Qed.

Lemma hq_h : hshape hq.
Proof. apply nodb_h_weak; [apply nodb_hq|exact I]. Qed.

Lemma nc_h : hshape nc.
Proof. apply nodb_h_weak; [intros o H; apply hq_nc, nodb_hq, H|exact I]. Qed.

Lemma nc_db c : c <> DbClearWritten -> nc (ODb c).
Proof. destruct c; intros H; try exact I. congruence. Qed.

Lemma tl_shape_nc l : tl_shape nc l -> Forall nc l.
Proof. induction 1; constructor; auto. exact I. constructor; [exact I|assumption]. Qed.

(* 1. clear_written_events only directly after the awaited CONFIRM *)
Definition release_only (i : option infocb) (out : list oobs) : Prop :=
  match i with
  | Some i => exists rest, out = OInfo i :: ODb DbClearWritten :: rest /\ Forall nc rest
  | None => Forall nc out
  end.

Lemma ostep_release cfg s ev ans s' out :
  J s -> ostep cfg s ev ans = (s', out) -> release_only (releasing cfg s ev) out.
Proof.
  intros HJ H.
  pose proof (ostep_release_P nc nc_h I nc_db (fun _ => I) (fun _ _ => I) I cfg s ev ans s' out HJ H) as R.
  unfold release_shape, release_only in *. destruct (releasing cfg s ev) as [i|].
  - destruct R as (rest & E & T). exists rest. split; [exact E|apply tl_shape_nc; exact T].
  - apply tl_shape_nc. exact R.
Qed.

Lemma ostart_nc cfg sel op iin a s o : ostart cfg sel op iin a = (s, o) -> Forall nc o.
Proof. apply (ostart_P nc nc_h I nc_db). Qed.

(* 2. a solicited confirm wait that is given up resets the database at once *)
Definition nomark (o : oobs) : Prop :=
  match o with OInfo i => is_abandon i = false | _ => True end.

Lemma nomark_h : hshape nomark.
Proof. split; intros; try exact I. destruct i; try discriminate; reflexivity. Qed.

(* every ISolTimeout / ISolNewRequest is directly followed by the reset of the database *)
Fixpoint abandon_reset (l : list oobs) : Prop :=
  match l with
  | [] => True
  | OInfo i :: tl =>
      if is_abandon i then match tl with ODb DbReset :: _ => abandon_reset tl | _ => False end
      else abandon_reset tl
  | _ :: tl => abandon_reset tl
  end.

Lemma tl_shape_nomark l : tl_shape nomark l -> abandon_reset l.
Proof.
  induction 1 as [|x l Hx Hl IH|i l Hi Hl IH]; [exact I| |].
  - destruct x as [d b|c|c|i| |t| |]; cbn [abandon_reset]; try exact IH. cbn in Hx. rewrite Hx. exact IH.
  - cbn [abandon_reset]. rewrite Hi. exact IH.
Qed.

Lemma ostep_abandon_reset cfg s ev ans s' out :
  J s -> ostep cfg s ev ans = (s', out) -> abandon_reset out.
Proof.
  intros HJ H.
  pose proof (ostep_release_P nomark nomark_h I (fun _ _ => I) (fun _ => I) (fun _ _ => eq_refl) I cfg s ev ans s' out HJ H) as R.
  unfold release_shape in R. destruct (releasing cfg s ev) as [i|] eqn:Er.
  - destruct R as (rest & -> & T). apply tl_shape_nomark in T.
    assert (Hi : is_abandon i = false).
    { unfold releasing in Er. destruct ev; try discriminate. destruct (s_control s) as [|se dl r|resp [|] rt dl]; try discriminate.
      - destruct (sol_conf cfg se from bc d); inv_pair Er. reflexivity.
      - destruct (uconf_seq cfg from bc d) as [q|]; [|discriminate]. destruct (q =? ctl_seq (r_ctl resp)); inv_pair Er. reflexivity. }
    cbn [abandon_reset]. rewrite Hi. exact T.
  - apply tl_shape_nomark. exact R.
Qed.

(* ---------- part 4: while a response is outstanding -------------------------------------------------- *)

(* a response that may carry events is outstanding: a solicited confirm wait, or the confirm wait of
   an unsolicited response other than the start-up null response *)
Definition waiting (s : ostate) : bool :=
  match s_control s with CIdle => false | CSolWait _ _ _ => true | CUnsolWait _ n _ _ => negb n end.

(* the same response is still outstanding (deadline and retry counter may have changed) *)
Definition same_wait (s s' : ostate) : Prop :=
  match s_control s with
  | CSolWait se _ r => exists dl, s_control s' = CSolWait se dl r
  | CUnsolWait resp n _ _ => exists rt dl, s_control s' = CUnsolWait resp n rt dl
  | CIdle => s_control s' = CIdle
  end.

(* what the session does while the response of state s is outstanding: in the solicited wait no call
   into the database at all, in the unsolicited wait only the event-info probe (for the IIN bits of
   the answer to a request that is not a READ) *)
Definition wq (s : ostate) (o : oobs) : Prop :=
  match s_control s with CSolWait _ _ _ => nodb o | _ => hq o end.

Definition is_end (c : dbcall) : bool := match c with DbClearWritten | DbReset => true | _ => false end.
Definition is_mark (c : dbcall) : bool :=
  match c with DbSelect | DbWrite | DbWriteUnsol _ _ _ | DbDeferredSelect => true | _ => false end.

Definition wait_shape (s : ostate) (out : list oobs) (s' : ostate) : Prop :=
  (Forall (wq s) out /\ same_wait s s') \/
  (exists pre c post, out = pre ++ ODb c :: post /\ is_end c = true /\ Forall (wq s) pre).

Lemma same_wait_ctl s s' : s_control s' = s_control s -> same_wait s s'.
Proof. intros H. unfold same_wait. rewrite H. destruct (s_control s); eauto. Qed.

Lemma same_wait_trans s1 s2 s3 : same_wait s1 s2 -> same_wait s2 s3 -> same_wait s1 s3.
Proof.
  unfold same_wait. destruct (s_control s1).
  - intros ->. exact (fun H => H).
  - intros [dl ->]. exact (fun H => H).
  - intros [rt [dl ->]]. exact (fun H => H).
Qed.

Lemma same_wait_wq s s' o : same_wait s s' -> wq s o -> wq s' o.
Proof.
  unfold same_wait, wq. destruct (s_control s).
  - intros ->. exact (fun H => H).
  - intros [dl ->]. exact (fun H => H).
  - intros [rt [dl ->]]. exact (fun H => H).
Qed.

Lemma same_wait_wq_back s s' o : same_wait s s' -> wq s' o -> wq s o.
Proof.
  unfold same_wait, wq. destruct (s_control s).
  - intros ->. exact (fun H => H).
  - intros [dl ->]. exact (fun H => H).
  - intros [rt [dl ->]]. exact (fun H => H).
Qed.

Lemma same_wait_waiting s s' : same_wait s s' -> waiting s' = waiting s.
Proof.
  unfold same_wait, waiting. destruct (s_control s).
  - intros ->. reflexivity.
  - intros [dl ->]. reflexivity.
  - intros [rt [dl ->]]. reflexivity.
Qed.

Lemma wait_shape_app s o1 s1 o2 s2 :
  Forall (wq s) o1 -> same_wait s s1 -> wait_shape s1 o2 s2 -> wait_shape s (o1 ++ o2) s2.
Proof.
  intros H1 Hs [[H2 Hs2]|(pre & c & post & -> & Hc & Hpre)].
  - left. split; [|eapply same_wait_trans; eauto]. apply Forall_app. split; [exact H1|].
    eapply Forall_impl; [|exact H2]. intros o. apply same_wait_wq_back. exact Hs.
  - right. exists (o1 ++ pre), c, post. split; [rewrite app_assoc; reflexivity|]. split; [exact Hc|].
    apply Forall_app. split; [exact H1|]. eapply Forall_impl; [|exact Hpre]. intros o. apply same_wait_wq_back. exact Hs.
Qed.

Lemma wait_shape_end s pre c post s' : Forall (wq s) pre -> is_end c = true -> wait_shape s (pre ++ ODb c :: post) s'.
Proof. intros H1 H2. right. exists pre, c, post. auto. Qed.

Lemma wait_shape_more s o s1 o2 s2 : wait_shape s o s1 -> (same_wait s s1 -> wait_shape s1 o2 s2) -> wait_shape s (o ++ o2) s2.
Proof.
  intros [[H1 Hs]|(pre & c & post & -> & Hc & Hpre)] H2.
  - eapply wait_shape_app; eauto.
  - right. exists pre, c, (post ++ o2). split; [rewrite <- app_assoc; reflexivity|]. auto.
Qed.

Lemma wq_nodb s o : nodb o -> wq s o.
Proof. intros H. unfold wq. destruct (s_control s); [apply nodb_hq| |apply nodb_hq]; exact H. Qed.

(* time passing while a response is outstanding: retransmissions, then the time-out resets *)
Lemma advance_wait cfg target : forall f s s' o,
  waiting s = true -> advance f cfg s target = (s', o) -> wait_shape s o s'.
Proof.
  induction f as [|f IH]; intros s s' o Hw H; cbn [advance] in H.
  { inv_pair H. left. split; [repeat constructor; apply wq_nodb; exact I|apply same_wait_ctl; reflexivity]. }
  destruct (next_deadline cfg s) as [d|]; [|inv_pair H; left; split; [constructor|apply same_wait_ctl; reflexivity]].
  destruct (d <=? target)%Z; [|inv_pair H; left; split; [constructor|apply same_wait_ctl; reflexivity]].
  set (t := Z.max d (s_now s)) in *.
  destruct (fire_deadline cfg (upd_now s t)) as [s1 o1] eqn:Ef.
  destruct (advance f cfg s1 target) as [s2 o2] eqn:Ea. inv_pair H.
  unfold fire_deadline in Ef. change (s_control (upd_now s t)) with (s_control s) in Ef.
  unfold waiting in Hw.
  destruct (s_control s) as [|se dl r|resp n rt dl] eqn:Ec; [discriminate Hw| |].
  - match type of Ef with context [resume_at cfg ?a ?b] => destruct (resume_at cfg a b) as [s3 o3] end.
    inv_pair Ef.
    apply (wait_shape_end s [OAt t; OInfo (ISolTimeout (se_ecsn se))] DbReset (o3 ++ o2)); [|reflexivity].
    repeat constructor; apply wq_nodb; exact I.
  - destruct n; [discriminate Hw|]. cbv zeta in Ef.
    change (s_deferred (upd_now s t)) with (s_deferred s) in Ef.
    destruct (match rt with Some 0%nat => false | _ => true end && match s_deferred s with Some _ => false | None => true end).
    + inv_pair Ef.
      apply (wait_shape_app s [OAt t; OInfo (IUnsolTimeout (ctl_seq (r_ctl resp)) true); OTx (o_master cfg) (response_bytes resp (s_unsol_buf s))]
                            (upd_control (upd_now s t) (CUnsolWait resp false (match rt with Some (S n) => Some n | x => x end) (confirm_deadline cfg (upd_now s t)))) o2 s').
      * repeat constructor; apply wq_nodb; exact I.
      * unfold same_wait. rewrite Ec. cbn. eauto.
      * eapply IH; [|exact Ea]. reflexivity.
    + unfold end_unsol in Ef.
      match type of Ef with context [resume_at cfg ?a ?b] => destruct (resume_at cfg a b) as [s3 o3] end.
      inv_pair Ef.
      apply (wait_shape_end s [OAt t; OInfo (IUnsolTimeout (ctl_seq (r_ctl resp)) false)] DbReset (o3 ++ o2)); [|reflexivity].
      repeat constructor; apply wq_nodb; exact I.
Qed.

(* a received fragment while a response is outstanding *)
Lemma on_rx_wait cfg s from bc bytes d s' out :
  waiting s = true -> on_rx cfg s from bc bytes d = (s', out) -> wait_shape s out s'.
Proof.
  intros Hw H. unfold on_rx in H. cbv zeta in H.
  set (fid := (s_frame_id s + 1) mod 4294967296) in *.
  set (s0 := upd_frame_id s fid) in *.
  change (s_control s0) with (s_control s) in H. unfold waiting in Hw.
  destruct (s_control s) as [|se dl r|resp n rt dl] eqn:Ec; [discriminate Hw| |].
  - destruct (sol_wait_fragment cfg s0 se dl from bc bytes d) as [out1 o1] eqn:E1.
    apply sol_wait_fragment_cases in E1. destruct out1 as [dl'|rtx|].
    + destruct E1 as [_ Q]. inv_pair H. left. split.
      * eapply Forall_impl; [|exact Q]. intros o Ho. apply wq_nodb, sol_quiet_nodb, Ho.
      * unfold same_wait. rewrite Ec. cbn. eauto.
    + destruct E1 as (_ & -> & ->).
      assert (Hgen : forall post, wait_shape s ([OInfo (ISolConfirmed (se_ecsn se))] ++ [ODb DbClearWritten] ++ post) s').
      { intros post. apply (wait_shape_end s [OInfo (ISolConfirmed (se_ecsn se))] DbClearWritten post); [|reflexivity].
        repeat constructor. apply wq_nodb. exact I. }
      destruct (se_fin se).
      * match type of H with context [resume_at cfg ?a ?b] => destruct (resume_at cfg a b) as [s2 o2] end.
        inv_pair H. apply Hgen.
      * match type of H with context [format_read_response ?a ?b ?c ?e] =>
          destruct (format_read_response a b c e) as [[[s2 rsp] next] o2] end.
        destruct (write_solicited s2 from rsp) as [[s3 rsp'] o3].
        destruct next as [nx|].
        -- inv_pair H. apply Hgen.
        -- match type of H with context [resume_at cfg ?a ?b] => destruct (resume_at cfg a b) as [s5 o5] end.
           inv_pair H. apply Hgen.
    + destruct E1 as (_ & _ & ->).
      match type of H with context [resume_at cfg ?a ?b] => destruct (resume_at cfg a b) as [s2 o2] end.
      inv_pair H. apply (wait_shape_end s [OInfo ISolNewRequest] DbReset o2); [|reflexivity].
      repeat constructor. apply wq_nodb. exact I.
  - destruct n; [discriminate Hw|].
    destruct (unsol_wait_fragment cfg s0 resp from bc bytes d fid) as [[s1 res] o1] eqn:E1.
    pose proof (unsol_wait_fragment_P hq hq_h _ _ _ _ _ _ _ _ _ _ _ E1) as Ho1.
    assert (Hq1 : Forall (wq s) o1). { eapply Forall_impl; [|exact Ho1]. intros o Ho. unfold wq. rewrite Ec. exact Ho. }
    apply unsol_wait_fragment_spec in E1. destruct E1 as [A _]. pget FCtl A.
    destruct res as [r|].
    + unfold end_unsol in H.
      destruct r.
      * match type of H with context [resume_at cfg ?a ?b] => destruct (resume_at cfg a b) as [s3 o3] end.
        inv_pair H. apply (wait_shape_end s o1 DbClearWritten o3); [exact Hq1|reflexivity].
      * match type of H with context [resume_at cfg ?a ?b] => destruct (resume_at cfg a b) as [s3 o3] end.
        inv_pair H. apply (wait_shape_end s o1 DbReset o3); [exact Hq1|reflexivity].
      * match type of H with context [resume_at cfg ?a ?b] => destruct (resume_at cfg a b) as [s3 o3] end.
        inv_pair H. apply (wait_shape_end s o1 DbReset o3); [exact Hq1|reflexivity].
    + inv_pair H. left. split; [exact Hq1|]. apply same_wait_ctl. rewrite P. reflexivity.
Qed.

Lemma ostep_wait cfg s ev ans s' out :
  waiting s = true -> ostep cfg s ev ans = (s', out) -> wait_shape s out s'.
Proof.
  intros Hw H. unfold ostep in H.
  set (s0 := upd_answers s ans) in *.
  assert (S0 : same_wait s s0) by (apply same_wait_ctl; reflexivity).
  assert (Hw0 : waiting s0 = true) by exact Hw.
  assert (Hlift : forall o x, wait_shape s0 o x -> wait_shape s o x).
  { intros o x Hx. apply (wait_shape_app s [] s0 o x); [constructor|exact S0|exact Hx]. }
  destruct ev as [from bc bytes d|ms| |sel op|v|].
  - destruct (on_rx cfg s0 from bc bytes d) as [s1 o1] eqn:E1.
    destruct (advance 64 cfg s1 (s_now s1 + settle_ms)) as [s2 o2] eqn:E2. inv_pair H.
    apply Hlift. eapply wait_shape_more; [eapply on_rx_wait; [exact Hw0|exact E1]|].
    intros Hs. eapply advance_wait; [|exact E2]. rewrite (same_wait_waiting _ _ Hs). exact Hw0.
  - destruct (advance 4096 cfg s0 (s_now s0 + ms)) as [sa oa] eqn:Ea. inv_pair H.
    apply Hlift. eapply advance_wait; [exact Hw0|exact Ea].
  - change (s_control s0) with (s_control s) in H. unfold waiting in Hw.
    destruct (s_control s) eqn:Ec; [discriminate Hw| |].
    + match type of H with context [advance 64 cfg ?a ?b] => destruct (advance 64 cfg a b) as [s2 o2] eqn:E2 end.
      inv_pair H. apply (wait_shape_app s [] (upd_notify s0 true)); [constructor|apply same_wait_ctl; reflexivity|].
      eapply advance_wait; [|exact E2]. unfold waiting. prj. change (s_control s0) with (s_control s). rewrite Ec. reflexivity.
    + match type of H with context [advance 64 cfg ?a ?b] => destruct (advance 64 cfg a b) as [s2 o2] eqn:E2 end.
      inv_pair H. apply (wait_shape_app s [] (upd_notify s0 true)); [constructor|apply same_wait_ctl; reflexivity|].
      eapply advance_wait; [|exact E2]. unfold waiting. prj. change (s_control s0) with (s_control s). rewrite Ec. exact Hw.
  - inv_pair H. left. split; [constructor|apply same_wait_ctl; reflexivity].
  - inv_pair H. left. split; [constructor|apply same_wait_ctl; reflexivity].
  - match type of H with context [idle_loop 8 cfg ?a] => destruct (idle_loop 8 cfg a) as [s2 o2] end.
    destruct (advance 64 cfg s2 (s_now s2 + settle_ms)) as [s3 o3]. inv_pair H.
    apply (wait_shape_end s [] DbReset (OSessionEnd :: o2 ++ o3)); [constructor|reflexivity].
Qed.

(* two positions of one list *)
Lemma split_compare {A} (x y : A) : forall pre post pre' post',
  pre ++ x :: post = pre' ++ y :: post' -> In x pre' \/ (x = y /\ pre = pre') \/ In y pre.
Proof.
  induction pre as [|a pre IH]; intros post pre' post' H.
  - destruct pre' as [|b pre']; cbn in H; inversion H; subst; [right; left; split; reflexivity|left; left; reflexivity].
  - destruct pre' as [|b pre']; cbn in H; inversion H; subst.
    + right. right. left. reflexivity.
    + destruct (IH _ _ _ H2) as [Hi|[[Hx Hp]|Hi]].
      * left. right. exact Hi.
      * right. left. split; [exact Hx|f_equal; exact Hp].
      * right. right. right. exact Hi.
Qed.
