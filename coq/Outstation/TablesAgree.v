(* Outstation/TablesAgree.v — the hand-written outstation model (Outstation/Session.v, Outstation/Full.v, App/AppHeader.v)
   agrees with the tables that tools/gen/gen_session_tables.py extracts from the Rust source on every run
   (gen/SessionTables.v).  Each table is INTERPRETED here (what the rows mean, in terms of the model's own
   handler functions) and the interpretation is proved equal to the hand-written definition for every input of the
   finite domain: function codes, groups and variations below 256, every constructor of the error types.
   A change of the source that changes a table makes the proof of the matching theorem fail. *)
From Coq Require Import Bool.
From Dnp3V Require Import Base.Bytes App.AppHeader App.Grammar App.GrammarProofs.
From Dnp3V Require Import Outstation.DbTypes Outstation.EventBuffer Outstation.StaticDb Outstation.Database.
From Dnp3V Require Import Outstation.Session Outstation.Full.
From Dnp3V Require Import gen.SessionTables.
Import ListNotations.
Open Scope N_scope.

(* ---------- lifting a sweep ------------------------------------------------------------------------------ *)

Lemma ta_in_nrange n i : i < N.of_nat n -> In i (nrange n).
Proof.
  intro H. unfold nrange. apply in_map_iff. exists (N.to_nat i). split.
  - apply N2Nat.id.
  - apply in_seq. lia.
Qed.

Lemma ta_forallb_nrange (f : N -> bool) n :
  forallb f (nrange n) = true -> forall i, i < N.of_nat n -> f i = true.
Proof. intros H i Hi. rewrite forallb_forall in H. apply H, ta_in_nrange, Hi. Qed.

(* ================================================================================================ *)
(* (a) impl From<ObjectParseError> for Iin2                                                          *)

(* the constructor of the model's error type that stands for each variant of ObjectParseError
   (UnsupportedQualifierCode is never constructed by the crate's parser and has no counterpart) *)
Definition ta_obj_err (e : aobj_err) : tb_obj_err :=
  match e with
  | OEUnknownGV _ _ => TbUnknownGroupVariation
  | OEUnknownQual _ => TbUnknownQualifier
  | OEInsufficient => TbInsufficientBytes
  | OEInvalidRange _ _ => TbInvalidRange
  | OEInvalidQual _ _ _ => TbInvalidQualifierForVariation
  | OEFreeCount _ => TbUnsupportedFreeFormatCount
  | OEZeroLength => TbZeroLengthOctetData
  | OEBadAttr _ => TbBadAttribute
  | OEBadEncoding => TbBadEncoding
  end.

Definition ta_obj_err_eqb (a b : tb_obj_err) : bool :=
  match a, b with
  | TbUnknownGroupVariation, TbUnknownGroupVariation | TbUnknownQualifier, TbUnknownQualifier
  | TbInsufficientBytes, TbInsufficientBytes | TbInvalidRange, TbInvalidRange
  | TbInvalidQualifierForVariation, TbInvalidQualifierForVariation
  | TbUnsupportedQualifierCode, TbUnsupportedQualifierCode
  | TbUnsupportedFreeFormatCount, TbUnsupportedFreeFormatCount | TbZeroLengthOctetData, TbZeroLengthOctetData
  | TbBadAttribute, TbBadAttribute | TbBadEncoding, TbBadEncoding => true
  | _, _ => false
  end.

Definition ta_obj_err_iin2 (e : tb_obj_err) : option N :=
  match find (fun r => ta_obj_err_eqb (fst r) e) tb_obj_err_iin2 with Some r => Some (snd r) | None => None end.

Theorem tables_obj_err_iin2 : forall e : aobj_err,
  ta_obj_err_iin2 (ta_obj_err e) = Some (iin2_of_obj_err e).
Proof. destruct e; reflexivity. Qed.

(* every variant of the enum has exactly one row *)
Theorem tables_obj_err_total : forall e : tb_obj_err,
  length (filter (fun r => ta_obj_err_eqb (fst r) e) tb_obj_err_iin2) = 1%nat.
Proof. destruct e; reflexivity. Qed.

(* ================================================================================================ *)
(* (b) the IIN masks and get_response_iin                                                            *)

Theorem tables_iin2_constants :
  iin2_no_func = tb_iin2_no_func_code_support /\ iin2_param = tb_iin2_parameter_error.
Proof. split; reflexivity. Qed.

(* the masks are single, distinct bits: ORing them is adding them *)
Theorem tables_iin_masks_are_bits :
  tb_iin1_all = map (fun k => 2 ^ k) [0; 1; 2; 3; 4; 5; 6; 7] /\
  tb_iin2_all = map (fun k => 2 ^ k) [0; 1; 2; 3; 4; 5].
Proof. split; reflexivity. Qed.

Definition ta_iin_cond_eqb (a b : tb_iin_cond) : bool :=
  match a, b with
  | TbRestartAsserted, TbRestartAsserted | TbUnwrittenClass1, TbUnwrittenClass1 | TbUnwrittenClass2, TbUnwrittenClass2
  | TbUnwrittenClass3, TbUnwrittenClass3 | TbOverflown, TbOverflown | TbBroadcastPending, TbBroadcastPending
  | TbAppNeedTime, TbAppNeedTime | TbAppLocalControl, TbAppLocalControl | TbAppDeviceTrouble, TbAppDeviceTrouble
  | TbAppConfigCorrupt, TbAppConfigCorrupt => true
  | _, _ => false
  end.

(* the application's IIN as the harness decodes the script value `appiin` (tb_app_iin_coding) *)
Definition ta_app_bit (a : N) (c : tb_iin_cond) : bool :=
  match find (fun r => ta_iin_cond_eqb (fst r) c) tb_app_iin_coding with
  | Some r => negb (N.land a (snd r) =? 0)
  | None => false
  end.

(* the truth of each condition of get_response_iin in a model state, given the database's answer *)
Definition ta_iin_env (s : ostate) (c1 c2 c3 ovf : bool) (c : tb_iin_cond) : bool :=
  match c with
  | TbRestartAsserted => s_restart_iin s
  | TbUnwrittenClass1 => c1 | TbUnwrittenClass2 => c2 | TbUnwrittenClass3 => c3
  | TbOverflown => ovf
  | TbBroadcastPending => match s_last_bcast s with Some _ => true | None => false end
  | _ => ta_app_bit (s_app_iin s) c
  end.

(* get_response_iin read off the table: every row whose condition holds ORs its mask into its byte *)
Definition ta_response_iin (env : tb_iin_cond -> bool) (byte : N) : N :=
  fold_left (fun acc r => if (snd (fst r) =? byte) && env (fst (fst r)) then N.lor acc (snd r) else acc) tb_response_iin 0.

Lemma ta_testbit_land (a : N) :
  (negb (N.land a 1 =? 0) = N.testbit a 0) /\ (negb (N.land a 2 =? 0) = N.testbit a 1) /\
  (negb (N.land a 4 =? 0) = N.testbit a 2) /\ (negb (N.land a 8 =? 0) = N.testbit a 3).
Proof.
  assert (H : forall k, negb (N.land a (2 ^ k) =? 0) = N.testbit a k).
  { intro k. rewrite N.land_comm. destruct (N.testbit a k) eqn:E.
    - apply negb_true_iff, N.eqb_neq. intro Hz.
      assert (N.testbit (N.land (2 ^ k) a) k = false) by (rewrite Hz; apply N.bits_0).
      rewrite N.land_spec, N.pow2_bits_true, E in H. discriminate.
    - apply negb_false_iff, N.eqb_eq. apply N.bits_inj_0. intro m.
      rewrite N.land_spec. destruct (N.eq_dec k m) as [<-|Hne].
      + rewrite E. apply andb_false_r.
      + rewrite N.pow2_bits_false by exact Hne. reflexivity. }
  repeat split; [exact (H 0) | exact (H 1) | exact (H 2) | exact (H 3)].
Qed.

Theorem tables_response_iin : forall s,
  let '(s1, (c1, c2, c3, ovf), _) := ask_evinfo s in
  snd (fst (response_iin s)) = (ta_response_iin (ta_iin_env s1 c1 c2 c3 ovf) 1, ta_response_iin (ta_iin_env s1 c1 c2 c3 ovf) 2).
Proof.
  intro s. unfold response_iin. destruct (ask_evinfo s) as [[s1 [[[c1 c2] c3] ovf]] o].
  cbn [fst snd].
  assert (Happ : s_app_iin (match s_last_bcast s1 with
                            | Some BMandatory => s1 | Some _ => upd_last_bcast s1 None | None => s1 end) = s_app_iin s1).
  { destruct (s_last_bcast s1) as [[]|]; reflexivity. }
  assert (Hres : s_restart_iin (match s_last_bcast s1 with
                            | Some BMandatory => s1 | Some _ => upd_last_bcast s1 None | None => s1 end) = s_restart_iin s1).
  { destruct (s_last_bcast s1) as [[]|]; reflexivity. }
  rewrite Happ, Hres.
  unfold ta_response_iin, ta_iin_env, ta_app_bit. cbn [tb_response_iin tb_app_iin_coding fold_left find fst snd ta_iin_cond_eqb N.eqb Pos.eqb andb].
  destruct (ta_testbit_land (s_app_iin s1)) as (H0 & H1 & H2 & H3). rewrite H0, H1, H2, H3.
  destruct (s_restart_iin s1), c1, c2, c3, ovf, (s_last_bcast s1), (N.testbit (s_app_iin s1) 0),
    (N.testbit (s_app_iin s1) 1), (N.testbit (s_app_iin s1) 2), (N.testbit (s_app_iin s1) 3); reflexivity.
Qed.

(* impl From<RequestError> for Iin2 through the harness's coding of the application's answers (req_result) *)
Definition ta_request_error_eqb (a b : tb_request_error) : bool :=
  match a, b with TbReParameterError, TbReParameterError | TbReNotSupported, TbReNotSupported => true | _, _ => false end.

Definition ta_req_result_iin2 (code : N) : N :=
  let row := find (fun r => match fst r with Some c => c =? code | None => true end) tb_req_result in
  match row with
  | Some (_, Some e) =>
      match find (fun r => ta_request_error_eqb (fst r) e) tb_request_error_iin2 with Some r => snd r | None => 0 end
  | _ => 0
  end.

Lemma tables_req_result_check : forallb (fun c => req_result_iin2 c =? ta_req_result_iin2 c) (nrange 256) = true.
Proof. vm_compute. reflexivity. Qed.

Theorem tables_req_result_iin2 : forall code, code < 256 -> req_result_iin2 code = ta_req_result_iin2 code.
Proof. intros c Hc. apply N.eqb_eq. exact (ta_forallb_nrange _ 256 tables_req_result_check c Hc). Qed.

(* ================================================================================================ *)
(* (c) dispatch                                                                                      *)

(* the function-code constants of Session.v are those of FunctionCode::as_u8 *)
Theorem tables_function_codes :
  [fn_confirm; fn_read; fn_write; fn_select; fn_operate; fn_direct_operate; fn_direct_operate_nr;
   fn_immediate_freeze; fn_immediate_freeze_nr; fn_freeze_clear; fn_freeze_clear_nr; fn_freeze_at_time;
   fn_freeze_at_time_nr; fn_cold_restart; fn_warm_restart; fn_enable_unsol; fn_disable_unsol;
   fn_delay_measure; fn_record_time; fn_response; fn_unsol_response]
  = [tb_fc_confirm; tb_fc_read; tb_fc_write; tb_fc_select; tb_fc_operate; tb_fc_direct_operate;
     tb_fc_direct_operate_no_response; tb_fc_immediate_freeze; tb_fc_immediate_freeze_no_response;
     tb_fc_freeze_clear; tb_fc_freeze_clear_no_response; tb_fc_freeze_at_time; tb_fc_freeze_at_time_no_response;
     tb_fc_cold_restart; tb_fc_warm_restart; tb_fc_enable_unsolicited; tb_fc_disable_unsolicited;
     tb_fc_delay_measure; tb_fc_record_current_time; tb_fc_response; tb_fc_unsolicited_response].
Proof. reflexivity. Qed.

(* FunctionInfo::objects_allowed (gen/FunctionCodes.v, from app/extensions.rs) for every function code of the enum *)
Lemma tables_objects_allowed_check :
  forallb (fun r => Bool.eqb (objects_allowed (fst r)) (snd r)) function_codes = true.
Proof. vm_compute. reflexivity. Qed.

Theorem tables_objects_allowed : forall fn b, In (fn, b) function_codes -> objects_allowed fn = b.
Proof.
  intros fn b H. pose proof tables_objects_allowed_check as C. rewrite forallb_forall in C.
  specialize (C _ H). cbn [fst snd] in C. apply eqb_prop. exact C.
Qed.

(* handle_controls of Session.v takes the control type as the function code of the request that carries it *)
Definition ta_ct_code (ct : tb_control_type) : N :=
  match ct with
  | TbSelect => fn_select | TbOperate => fn_operate | TbDirectOperate => fn_direct_operate
  | TbDirectOperateNoAck => fn_direct_operate_nr
  end.

(* FreezeType as the callback CbFreeze prints it: 0 immediate, 1 freeze-and-clear, 2 at-time *)
Definition ta_ft_code (ft : tb_freeze_type) : N :=
  match ft with TbImmediateFreeze => 0 | TbFreezeAndClear => 1 | TbFreezeAtTime => 2 end.

Definition ta_reply (r : tb_reply) (resp : response) : option response :=
  match r with TbReplyNever => None | _ => Some resp end.

Definition ta_count_response (seq : N) : response :=
  {| r_ctl := ctl_byte true true false false seq; r_fn := fn_response; r_iin1 := 0; r_iin2 := 0; r_size := 10 |}.

(* one row of tb_non_read_dispatch: the model's counterpart of the handler the row names, its response kept
   (TbReplyAlways), dropped (TbReplyNever), or decided by the handler (TbReplyByHandler: handle_controls) *)
Definition ta_non_read_row (cfg : ocfg) (s : ostate) (seq frame_id : N) (bytes : list N) (hdrs : list whdr)
           (h : tb_handler) (r : tb_reply) : ostate * option response * list oobs :=
  match h with
  | TbHandleWrite =>
      let '(s1, v, o) := handle_write_headers cfg s hdrs in (s1, ta_reply r (empty_solicited seq v), o)
  | TbHandleDelayMeasure =>
      (upd_sol_buf s (buf_set (s_sol_buf s) (count_of_one 52 2 (o_delay_ms cfg))), ta_reply r (ta_count_response seq), [])
  | TbHandleRecordCurrentTime =>
      (upd_last_recorded s (Some (s_now s)), ta_reply r (empty_solicited seq 0), [])
  | TbHandleRestart cold =>
      let '(s1, resp) := restart_response seq s (if cold then o_cold cfg else o_warm cfg) in
      (s1, ta_reply r resp, [OCb (if cold then CbColdRestart else CbWarmRestart)])
  | TbHandleControls ct =>
      match r with
      | TbReplyByHandler => handle_controls cfg s (ta_ct_code ct) seq frame_id bytes hdrs
      | _ => let '(s1, resp, o) := handle_controls cfg s (ta_ct_code ct) seq frame_id bytes hdrs in
             (s1, match resp with Some x => ta_reply r x | None => None end, o)
      end
  | TbHandleFreeze ft =>
      let '(v, o) := handle_freeze cfg (ta_ft_code ft) hdrs in (s, ta_reply r (empty_solicited seq v), o)
  | TbHandleFreezeAtTime =>
      let '(v, o) := handle_freeze_at_time cfg None hdrs in (s, ta_reply r (empty_solicited seq v), o)
  | TbHandleEnableOrDisableUnsolicited enable =>
      let '(s1, resp) := enable_disable cfg s enable seq hdrs in (s1, ta_reply r resp, [])
  end.

Definition ta_non_read_lookup (fn : N) : option (tb_handler * tb_reply) :=
  match find (fun r => fst (fst r) =? fn) tb_non_read_dispatch with
  | Some r => Some (snd (fst r), snd r)
  | None => None
  end.

(* handle_non_read read off the tables: the row of the function code or the `_` arm, then get_iin2 *)
Definition ta_handle_non_read (cfg : ocfg) (s : ostate) (fn seq frame_id : N) (bytes : list N) (hdrs : list whdr)
  : ostate * option response * list oobs :=
  let extra := if objects_allowed fn then 0 else match hdrs with [] => 0 | _ => tb_objects_not_allowed_iin2 end in
  let '(s1, r, o) :=
    match ta_non_read_lookup fn with
    | Some (h, r) => ta_non_read_row cfg s seq frame_id bytes hdrs h r
    | None => (s, Some (empty_solicited seq tb_non_read_default_iin2), [])
    end in
  (s1, match r with Some r => Some (with_iin2 r extra) | None => None end, o).

(* P holds for every N below 256 when it holds for the 256 numerals *)
Lemma ta_cases_256 (P : N -> Prop) :
  Forall P (nrange 256) -> forall fn, fn < 256 -> P fn.
Proof. intros H fn Hfn. rewrite Forall_forall in H. apply H, ta_in_nrange, Hfn. Qed.

Theorem tables_non_read_dispatch : forall cfg s fn seq frame_id bytes hdrs, fn < 256 ->
  handle_non_read cfg s fn seq frame_id bytes hdrs = ta_handle_non_read cfg s fn seq frame_id bytes hdrs.
Proof.
  intros cfg s fn seq fid bytes hdrs. revert fn. apply ta_cases_256.
  unfold nrange. cbn [List.seq map N.of_nat Pos.of_succ_nat Pos.succ].
  repeat (apply Forall_cons; [reflexivity|]). apply Forall_nil.
Qed.

(* consequences that name no handler: which function codes are answered at all, and the `_` arm *)
Corollary tables_non_read_no_ack : forall cfg s fn seq frame_id bytes hdrs h, fn < 256 ->
  ta_non_read_lookup fn = Some (h, TbReplyNever) ->
  snd (fst (handle_non_read cfg s fn seq frame_id bytes hdrs)) = None.
Proof.
  intros cfg s fn seq fid bytes hdrs h Hfn Hl. rewrite tables_non_read_dispatch by exact Hfn.
  unfold ta_handle_non_read. rewrite Hl.
  destruct h; cbn [ta_non_read_row ta_reply].
  - destruct (handle_write_headers cfg s hdrs) as [[? ?] ?]; reflexivity.
  - reflexivity.
  - reflexivity.
  - destruct (restart_response seq s (if cold then o_cold cfg else o_warm cfg)); reflexivity.
  - destruct (handle_controls cfg s (ta_ct_code ct) seq fid bytes hdrs) as [[? [?|]] ?]; reflexivity.
  - destruct (handle_freeze cfg (ta_ft_code ft) hdrs); reflexivity.
  - destruct (handle_freeze_at_time cfg None hdrs); reflexivity.
  - destruct (enable_disable cfg s enable seq hdrs); reflexivity.
Qed.

Corollary tables_non_read_unsupported : forall cfg s fn seq frame_id bytes hdrs, fn < 256 ->
  ta_non_read_lookup fn = None ->
  handle_non_read cfg s fn seq frame_id bytes hdrs =
  (s, Some (with_iin2 (empty_solicited seq tb_iin2_no_func_code_support)
                      (if objects_allowed fn then 0 else match hdrs with [] => 0 | _ => tb_iin2_parameter_error end)), []).
Proof.
  intros cfg s fn seq fid bytes hdrs Hfn Hl. rewrite tables_non_read_dispatch by exact Hfn.
  unfold ta_handle_non_read. rewrite Hl. reflexivity.
Qed.

(* handle_controls: tb_controls_reply *)
Definition ta_control_type_eqb (a b : tb_control_type) : bool :=
  match a, b with
  | TbSelect, TbSelect | TbOperate, TbOperate | TbDirectOperate, TbDirectOperate
  | TbDirectOperateNoAck, TbDirectOperateNoAck => true
  | _, _ => false
  end.

Definition ta_controls_reply (ct : tb_control_type) : bool * bool :=
  match find (fun r => ta_control_type_eqb (fst (fst r)) ct) tb_controls_reply with
  | Some r => (snd (fst r), snd r)
  | None => (false, false)
  end.

Theorem tables_controls_bad_header : forall cfg s ct seq frame_id bytes hdrs, all_controls hdrs = false ->
  handle_controls cfg s (ta_ct_code ct) seq frame_id bytes hdrs =
  (s, if fst (ta_controls_reply ct) then Some (empty_solicited seq tb_controls_bad_header_iin2) else None, []).
Proof.
  intros cfg s ct seq fid bytes hdrs H. unfold handle_controls. rewrite H. destruct ct; reflexivity.
Qed.

Theorem tables_controls_reply : forall cfg s ct seq frame_id bytes hdrs, all_controls hdrs = true ->
  match snd (fst (handle_controls cfg s (ta_ct_code ct) seq frame_id bytes hdrs)) with
  | Some _ => snd (ta_controls_reply ct) = true
  | None => snd (ta_controls_reply ct) = false
  end.
Proof.
  intros cfg s ct seq fid bytes hdrs H. unfold handle_controls. rewrite H. cbn [negb].
  destruct ct; cbn [ta_ct_code ta_controls_reply].
  - change (fn_select =? fn_direct_operate_nr) with false. change (fn_select =? fn_select) with true. cbv iota.
    destruct (ctl_headers s cfg (o_sol_tx cfg - 4) CmSelect [] 0 false hdrs) as [[[[? ?] ?] ?] ?]. reflexivity.
  - change (fn_operate =? fn_direct_operate_nr) with false. change (fn_operate =? fn_select) with false.
    change (fn_operate =? fn_direct_operate) with false. cbv iota.
    destruct (match s_select s with Some sel => match_operate cfg s sel seq fid (objects_of bytes) | None => Some 2 end) as [st|].
    + destruct (ctl_headers s cfg (o_sol_tx cfg - 4) (CmStatus st) [] 0 false hdrs) as [[[[? ?] ?] ?] ?]. reflexivity.
    + destruct (ctl_headers s cfg (o_sol_tx cfg - 4) (CmOperate OpSbo) [] 0 false hdrs) as [[[[? ?] ?] ?] ?]. reflexivity.
  - change (fn_direct_operate =? fn_direct_operate_nr) with false. change (fn_direct_operate =? fn_select) with false.
    change (fn_direct_operate =? fn_direct_operate) with true. cbv iota.
    destruct (ctl_headers s cfg (o_sol_tx cfg - 4) (CmOperate OpDo) [] 0 false hdrs) as [[[[? ?] ?] ?] ?]. reflexivity.
  - change (fn_direct_operate_nr =? fn_direct_operate_nr) with true. cbv iota.
    destruct (noack_headers s cfg 0 false hdrs). reflexivity.
Qed.

(* process_broadcast_get_action: tb_broadcast_dispatch.  The same handlers as in handle_non_read; the response
   they compute is dropped *)
Definition ta_broadcast_row (cfg : ocfg) (s0 : ostate) (fn seq frame_id : N) (bytes : list N) (hdrs : list whdr)
           (h : tb_handler) : ostate * list oobs :=
  let done (x : ostate * list oobs) := let '(s1, o) := x in (s1, o ++ [OInfo (IBroadcast fn 0 0)]) in
  match h with
  | TbHandleWrite => let '(s1, _, o) := handle_write_headers cfg s0 hdrs in done (s1, o)
  | TbHandleDelayMeasure => done (upd_sol_buf s0 (buf_set (s_sol_buf s0) (count_of_one 52 2 (o_delay_ms cfg))), [])
  | TbHandleRecordCurrentTime => done (upd_last_recorded s0 (Some (s_now s0)), [])
  | TbHandleRestart cold =>
      let '(s1, _) := restart_response seq s0 (if cold then o_cold cfg else o_warm cfg) in
      done (s1, [OCb (if cold then CbColdRestart else CbWarmRestart)])
  | TbHandleControls ct =>
      let '(s1, _, o) := handle_controls cfg s0 (ta_ct_code ct) seq frame_id bytes hdrs in done (s1, o)
  | TbHandleFreeze ft => let '(_, o) := handle_freeze cfg (ta_ft_code ft) hdrs in done (s0, o)
  | TbHandleFreezeAtTime => let '(_, o) := handle_freeze_at_time cfg None hdrs in done (s0, o)
  | TbHandleEnableOrDisableUnsolicited enable => let '(s1, _) := enable_disable cfg s0 enable seq hdrs in done (s1, [])
  end.

Definition ta_broadcast_lookup (fn : N) : option tb_handler :=
  match find (fun r => fst r =? fn) tb_broadcast_dispatch with Some r => Some (snd r) | None => None end.

(* BroadcastAction as OInfo (IBroadcast fn action arg) prints it: 0 Processed, 1 IgnoredByConfiguration,
   2 BadObjectHeaders, 3 UnsupportedFunction(fn) *)
Definition ta_process_broadcast (cfg : ocfg) (s : ostate) (m : bcast_mode) (frame_id ctl fn : N) (bytes : list N)
           (obj : objres) : ostate * list oobs :=
  let s0 := upd_bcast_rep (upd_last_bcast s (Some m)) None in
  if negb (o_broadcast cfg) then (s0, [OInfo (IBroadcast fn 1 0)])
  else match obj with
  | ObjErr _ => (s0, [OInfo (IBroadcast fn 2 0)])
  | ObjOk hdrs _ =>
      match ta_broadcast_lookup fn with
      | Some h => ta_broadcast_row cfg s0 fn (ctl_seq ctl) frame_id bytes hdrs h
      | None => (s0, [OInfo (IBroadcast fn 3 fn)])
      end
  end.

Theorem tables_broadcast_dispatch : forall cfg s m frame_id ctl fn bytes obj, fn < 256 ->
  process_broadcast cfg s m frame_id ctl fn bytes obj = ta_process_broadcast cfg s m frame_id ctl fn bytes obj.
Proof.
  intros cfg s m fid ctl fn bytes obj. revert fn. apply ta_cases_256.
  unfold nrange. cbn [List.seq map N.of_nat Pos.of_succ_nat Pos.succ].
  assert (Hd : forall fn, (forall hdrs rh,
      process_broadcast cfg s m fid ctl fn bytes (ObjOk hdrs rh) = ta_process_broadcast cfg s m fid ctl fn bytes (ObjOk hdrs rh)) ->
      process_broadcast cfg s m fid ctl fn bytes obj = ta_process_broadcast cfg s m fid ctl fn bytes obj).
  { intros fn H. destruct obj as [e|hdrs rh]; [reflexivity | apply H]. }
  repeat (apply Forall_cons; [apply Hd; intros hdrs rh; unfold process_broadcast, ta_process_broadcast;
                              destruct (negb (o_broadcast cfg)); reflexivity|]).
  apply Forall_nil.
Qed.

(* ================================================================================================ *)
(* (d) ReadHeader::get                                                                               *)

Lemma ta_sweep2 (f : N -> N -> bool) :
  forallb (fun g => forallb (f g) (nrange 256)) (nrange 256) = true ->
  forall g v, g < 256 -> v < 256 -> f g v = true.
Proof.
  intros H g v Hg Hv. pose proof (ta_forallb_nrange _ 256 H g Hg) as H1. cbv beta in H1.
  exact (ta_forallb_nrange _ 256 H1 v Hv).
Qed.

Definition ta_vpat (p : tb_vpat) : vpat := match p with TbExact v => PExact v | TbAny => PAny end.

(* the rows of the read-header tables are, in order, the rows of the qualifier tables of gen/Qualifiers.v (both are
   read off the same `match v` of app/gen/{all,count,ranged}.rs, by two translators) *)
Theorem tables_read_rows_are_qualifier_rows :
  map (fun r => (fst (fst r), ta_vpat (snd (fst r)))) tb_read_all = map fst qt_all /\
  map (fun r => (fst (fst r), ta_vpat (snd (fst r)))) tb_read_count = map fst qt_count /\
  map (fun r => (fst (fst r), ta_vpat (snd (fst r)))) tb_read_range_read = map fst qt_range_read /\
  map (fun r => (fst (fst r), ta_vpat (snd (fst r)))) tb_read_range_non_read = map fst qt_range.
Proof. repeat split; vm_compute; reflexivity. Qed.

(* the arm of the parser's `match v` that fires (as App/Grammar.v aqkind), and what ReadHeader::from_* answers for it *)
Definition ta_read_lookup (t : list (N * tb_vpat * bool)) (g v : N) : option bool :=
  match find (fun r => (fst (fst r) =? g) &&
                       match snd (fst r) with TbExact x => v =? x | TbAny => negb (anamed g v) end) t with
  | Some r => Some (snd r)
  | None => None
  end.

Definition ta_header_kind (d : ahdetails) : tb_header_kind :=
  match d with
  | HAll => TbAllObjects
  | HRange8 _ _ => TbOneByteStartStop | HRange16 _ _ => TbTwoByteStartStop
  | HCount8 _ => TbOneByteCount | HCount16 _ => TbTwoByteCount
  | HPrefix8 _ => TbOneByteCountAndPrefix | HPrefix16 _ => TbTwoByteCountAndPrefix
  | HFree _ => TbTwoByteFreeFormat
  end.

Definition ta_header_kind_eqb (a b : tb_header_kind) : bool :=
  match a, b with
  | TbAllObjects, TbAllObjects | TbOneByteCount, TbOneByteCount | TbTwoByteCount, TbTwoByteCount
  | TbOneByteStartStop, TbOneByteStartStop | TbTwoByteStartStop, TbTwoByteStartStop
  | TbOneByteCountAndPrefix, TbOneByteCountAndPrefix | TbTwoByteCountAndPrefix, TbTwoByteCountAndPrefix
  | TbTwoByteFreeFormat, TbTwoByteFreeFormat => true
  | _, _ => false
  end.

(* the parser reads a range header of a READ request with parse_read, of any other request with parse_non_read *)
Definition ta_read_table (fc : N) (src : tb_read_source) : list (N * tb_vpat * bool) :=
  match src with
  | TbFromAllObjects => tb_read_all
  | TbFromCount => tb_read_count
  | TbFromRange => if fc =? fc_read then tb_read_range_read else tb_read_range_non_read
  | TbNever => []
  end.

(* ReadHeader::get(h).is_some() read off the tables, for a header of a request with function code fc *)
Definition ta_hdr_is_read (fc : N) (h : aobj_header) : bool :=
  match find (fun r => ta_header_kind_eqb (fst r) (ta_header_kind (oh_details h))) tb_read_get_impl with
  | Some r => match ta_read_lookup (ta_read_table fc (snd r)) (oh_g h) (oh_v h) with Some b => b | None => false end
  | None => false
  end.

Definition ta_mk (g v : N) (d : ahdetails) (p : apayload) : aobj_header :=
  {| oh_g := g; oh_v := v; oh_details := d; oh_payload := p |}.

Lemma tables_read_all_check :
  forallb (fun g => forallb (fun v =>
     match aqkind qt_all g v with
     | None => true
     | Some _ => match ta_read_lookup tb_read_all g v with
                 | Some b => Bool.eqb (hdr_is_read (ta_mk g v HAll PyNone)) b
                 | None => false
                 end
     end) (nrange 256)) (nrange 256) = true.
Proof. vm_compute. reflexivity. Qed.

Lemma tables_read_count_check :
  forallb (fun g => forallb (fun v =>
     match aqkind qt_count g v with
     | None => true
     | Some _ => match ta_read_lookup tb_read_count g v with
                 | Some b => Bool.eqb (hdr_is_read (ta_mk g v (HCount8 0) PyNone)) b
                 | None => false
                 end
     end) (nrange 256)) (nrange 256) = true.
Proof. vm_compute. reflexivity. Qed.

(* a range header: the model's parser attaches no payload exactly when the qualifier table says DNone *)
Lemma tables_read_range_read_check :
  forallb (fun g => forallb (fun v =>
     match aqkind qt_range_read g v with
     | None => true
     | Some k => match ta_read_lookup tb_read_range_read g v with
                 | Some b => Bool.eqb (hdr_is_read (ta_mk g v (HRange8 0 0)
                                          (match k with DNone => PyNone | _ => PyBits 0 0 [] end))) b
                 | None => false
                 end
     end) (nrange 256)) (nrange 256) = true.
Proof. vm_compute. reflexivity. Qed.

Lemma tables_read_range_non_read_check :
  forallb (fun g => forallb (fun v =>
     match aqkind qt_range g v with
     | None => true
     | Some k => match ta_read_lookup tb_read_range_non_read g v with
                 | Some b => Bool.eqb (hdr_is_read (ta_mk g v (HRange8 0 0)
                                          (match k with DNone => PyNone | _ => PyBits 0 0 [] end))) b
                 | None => false
                 end
     end) (nrange 256)) (nrange 256) = true.
Proof. vm_compute. reflexivity. Qed.

(* hdr_is_read looks at the group, the variation, the kind of the qualifier and whether a payload is attached *)
Lemma ta_hdr_is_read_range g v a b a' b' p p' : payload_none p = payload_none p' ->
  (hdr_is_read (ta_mk g v (HRange8 a b) p) = hdr_is_read (ta_mk g v (HRange8 a' b') p')) /\
  (hdr_is_read (ta_mk g v (HRange16 a b) p) = hdr_is_read (ta_mk g v (HRange8 a' b') p')).
Proof. intro H. unfold hdr_is_read, ta_mk. cbn [oh_g oh_v oh_details oh_payload]. rewrite H. split; reflexivity. Qed.

Lemma ta_range_payload o fc g v s c p : aranged_wf o fc g v s c p ->
  exists k, aqkind (if fc =? fc_read then qt_range_read else qt_range) g v = Some k /\
            payload_none p = payload_none (match k with DNone => PyNone | _ => PyBits 0 0 [] end).
Proof.
  unfold aranged_wf. destruct (aqkind (if fc =? fc_read then qt_range_read else qt_range) g v) as [[| | | | | |]|]; intro H;
    try contradiction; eexists; (split; [reflexivity|]).
  - subst p. reflexivity.
  - destruct H as [d [-> _]]. reflexivity.
  - destruct H as [d [-> _]]. reflexivity.
  - destruct H as [sz [d [_ [-> _]]]]. reflexivity.
  - destruct H as [_ [d [-> _]]]. reflexivity.
  - destruct H as [_ [_ [a [-> _]]]]. reflexivity.
Qed.

Lemma ta_read_range fc g v k : g < 256 -> v < 256 ->
  aqkind (if fc =? fc_read then qt_range_read else qt_range) g v = Some k ->
  exists b, ta_read_lookup (if fc =? fc_read then tb_read_range_read else tb_read_range_non_read) g v = Some b /\
            hdr_is_read (ta_mk g v (HRange8 0 0) (match k with DNone => PyNone | _ => PyBits 0 0 [] end)) = b.
Proof.
  intros Hg Hv Hk. destruct (fc =? fc_read).
  - pose proof (ta_sweep2 _ tables_read_range_read_check g v Hg Hv) as H. cbv beta in H. rewrite Hk in H.
    destruct (ta_read_lookup tb_read_range_read g v) as [b|]; [|discriminate]. exists b. split; [reflexivity|].
    apply eqb_prop. exact H.
  - pose proof (ta_sweep2 _ tables_read_range_non_read_check g v Hg Hv) as H. cbv beta in H. rewrite Hk in H.
    destruct (ta_read_lookup tb_read_range_non_read g v) as [b|]; [|discriminate]. exists b. split; [reflexivity|].
    apply eqb_prop. exact H.
Qed.

(* every object header the model's parser can produce for a request with function code fc (awf_header, see
   GrammarProofs.accept_iff_exact_bytes_header) is a read header in Full.v exactly when ReadHeader::get says so *)
Theorem tables_read_header : forall o fc h, awf_header o fc h -> oh_g h < 256 -> oh_v h < 256 ->
  hdr_is_read h = ta_hdr_is_read fc h.
Proof.
  intros o fc [g v d p] [_ Hw] Hg Hv. cbn [oh_g oh_v oh_details oh_payload] in *.
  unfold ta_hdr_is_read. cbn [oh_g oh_v oh_details].
  destruct d as [|a b|a b|c|c|c|c|c]; cbn [ta_header_kind tb_read_get_impl find ta_header_kind_eqb fst snd ta_read_table].
  - destruct Hw as [Hk Hp]. subst p.
    pose proof (ta_sweep2 _ tables_read_all_check g v Hg Hv) as H. cbv beta in H.
    destruct (aqkind qt_all g v); [|contradiction].
    destruct (ta_read_lookup tb_read_all g v) as [b|]; [|discriminate]. apply eqb_prop. exact H.
  - destruct Hw as [_ [_ Hw]]. destruct (ta_range_payload _ _ _ _ _ _ _ Hw) as [k [Hk Hp]].
    destruct (ta_read_range fc g v k Hg Hv Hk) as [bb [Hl Hb]]. rewrite Hl, <- Hb.
    exact (proj1 (ta_hdr_is_read_range g v a b 0 0 p _ Hp)).
  - destruct Hw as [_ [_ Hw]]. destruct (ta_range_payload _ _ _ _ _ _ _ Hw) as [k [Hk Hp]].
    destruct (ta_read_range fc g v k Hg Hv Hk) as [bb [Hl Hb]]. rewrite Hl, <- Hb.
    exact (proj2 (ta_hdr_is_read_range g v a b 0 0 p _ Hp)).
  - destruct Hw as [_ Hw]. unfold acount_wf in Hw.
    pose proof (ta_sweep2 _ tables_read_count_check g v Hg Hv) as H. cbv beta in H.
    destruct (aqkind qt_count g v); [|contradiction].
    destruct (ta_read_lookup tb_read_count g v) as [b|]; [|discriminate]. apply eqb_prop in H. rewrite <- H. reflexivity.
  - destruct Hw as [_ Hw]. unfold acount_wf in Hw.
    pose proof (ta_sweep2 _ tables_read_count_check g v Hg Hv) as H. cbv beta in H.
    destruct (aqkind qt_count g v); [|contradiction].
    destruct (ta_read_lookup tb_read_count g v) as [b|]; [|discriminate]. apply eqb_prop in H. rewrite <- H. reflexivity.
  - reflexivity.
  - reflexivity.
  - reflexivity.
Qed.

(* ================================================================================================ *)
(* (e) ParsedFragment::to_request / to_response                                                      *)

Definition ta_rq_check (h : aheader) (c : tb_rq_check) : bool :=
  match c with
  | TbRqIinPresent => match ah_iin h with Some _ => true | None => false end
  | TbRqNotFirAndFin => negb (ac_fir (ah_control h) && ac_fin (ah_control h))
  | TbRqUnsAndNotConfirm => ac_uns (ah_control h) && negb (ah_function h =? tb_fc_confirm)
  end.

Definition ta_rq_error (e : tb_rq_error) : areq_err :=
  match e with
  | TbRqUnexpectedFunction => ARUnexpectedFunction
  | TbRqNonFirFin => ARNonFirFin
  | TbRqUnexpectedUnsBit => ARUnexpectedUns
  end.

(* the first check of the list that fires decides *)
Definition ta_to_request (h : aheader) : option areq_err :=
  match find (fun r => ta_rq_check h (fst r)) tb_to_request with
  | Some r => Some (ta_rq_error (snd r))
  | None => None
  end.

Theorem tables_to_request : forall h, ato_request h = ta_to_request h.
Proof.
  intros [[fir fin con uns seq] fn iin]. unfold ato_request, ta_to_request.
  cbn [tb_to_request find ta_rq_check fst snd ah_iin ah_control ah_function ac_fir ac_fin ac_uns].
  change tb_fc_confirm with fc_confirm.
  destruct iin as [[? ?]|]; [reflexivity|]. destruct (negb (fir && fin)); [reflexivity|].
  destruct (uns && negb (fn =? fc_confirm)); reflexivity.
Qed.

Definition ta_is_unsolicited (fn : N) : bool :=
  match find (fun r => fst r =? fn) tb_response_functions with Some r => snd r | None => false end.

Definition ta_rs_check (h : aheader) (c : tb_rs_check) : bool :=
  match c with
  | TbRsNotResponseWithIin =>
      negb (match ah_iin h with Some _ => true | None => false end && existsb (fun r => fst r =? ah_function h) tb_response_functions)
  | TbRsSolicitedWithUns => negb (ta_is_unsolicited (ah_function h)) && ac_uns (ah_control h)
  | TbRsUnsolicitedWithoutUns => ta_is_unsolicited (ah_function h) && negb (ac_uns (ah_control h))
  | TbRsUnsolicitedNotFirAndFin =>
      ta_is_unsolicited (ah_function h) && negb (ac_fir (ah_control h) && ac_fin (ah_control h))
  end.

Definition ta_rs_error (e : tb_rs_error) : aresp_err :=
  match e with
  | TbRsUnexpectedFunction => APUnexpectedFunction
  | TbRsSolicitedResponseWithUnsBit => APSolWithUns
  | TbRsUnsolicitedResponseWithoutUnsBit => APUnsolWithoutUns
  | TbRsUnsolicitedResponseWithoutFirAndFin => APUnsolWithoutFirFin
  end.

Definition ta_to_response (h : aheader) : option aresp_err :=
  match find (fun r => ta_rs_check h (fst r)) tb_to_response with
  | Some r => Some (ta_rs_error (snd r))
  | None => None
  end.

(* the function codes the header parser follows with an IIN (parse_no_logging) *)
Lemma tables_functions_with_iin_check :
  forallb (fun f => Bool.eqb (afunction_has_iin f) (existsb (N.eqb f) tb_functions_with_iin)) (nrange 256) = true.
Proof. vm_compute. reflexivity. Qed.

Theorem tables_functions_with_iin : forall f, f < 256 ->
  afunction_has_iin f = existsb (N.eqb f) tb_functions_with_iin.
Proof. intros f Hf. apply eqb_prop. exact (ta_forallb_nrange _ 256 tables_functions_with_iin_check f Hf). Qed.

(* a header the model's parser produces carries an IIN exactly for those function codes; for such headers the model's
   to_response is the table's *)
Theorem tables_to_response : forall h,
  (match ah_iin h with Some _ => true | None => false end) = afunction_has_iin (ah_function h) ->
  ato_response h = ta_to_response h.
Proof.
  intros [[fir fin con uns seq] fn iin]. unfold ato_response, ta_to_response, afunction_has_iin.
  cbn [tb_to_response find ta_rs_check fst snd ah_iin ah_control ah_function ac_fir ac_fin ac_uns].
  unfold ta_is_unsolicited. cbn [tb_response_functions find existsb fst snd].
  change 129 with fc_response. change 130 with fc_unsolicited_response.
  intro Hi. destruct iin as [[? ?]|].
  - destruct (fn =? fc_response) eqn:E1.
    + apply N.eqb_eq in E1. subst fn. change (fc_response =? fc_unsolicited_response) with false.
      cbn [orb andb negb]. destruct uns; reflexivity.
    + destruct (fn =? fc_unsolicited_response) eqn:E2; [|discriminate].
      apply N.eqb_eq in E2. subst fn. destruct uns, fir, fin; reflexivity.
  - reflexivity.
Qed.

Lemma tables_parsed_header_iin : forall l h r, aparse_header l = AOk (h, r) ->
  (match ah_iin h with Some _ => true | None => false end) = afunction_has_iin (ah_function h).
Proof.
  intros l h r. unfold aparse_header. destruct l as [|c [|f l]]; try discriminate.
  destruct (afunction_known f); [|discriminate].
  destruct (afunction_has_iin f) eqn:E.
  - destruct l as [|i1 [|i2 l]]; try discriminate. intro H; inversion H; subst. cbn. symmetry; exact E.
  - intro H; inversion H; subst. cbn. symmetry; exact E.
Qed.

(* ================================================================================================ *)
(* (f) defaults                                                                                      *)

Definition ta_pconfig_row (c : pconfig) : (N * N) * (N * N) * N :=
  (svar_code (pc_svar c), evar_code (pc_evar c), pc_deadband c).

(* impl Default for <Point>Config: static and event variation, dead-band (octet strings have no configuration) *)
Theorem tables_default_pconfig : forall k,
  map (fun t => ta_pconfig_row (default_pconfig t k)) [TBinary; TDoubleBit; TBos; TCounter; TFrozen; TAnalog; TAos]
  = [tb_default_binary_input_config; tb_default_double_bit_binary_input_config; tb_default_binary_output_status_config;
     tb_default_counter_config; tb_default_frozen_counter_config; tb_default_analog_input_config;
     tb_default_analog_output_status_config]
  /\ forall t, pc_class (default_pconfig t k) = k.
Proof. intro k. split; [reflexivity|]. intros []; reflexivity. Qed.

(* ClassZeroConfig::default(), the fields in the order of the struct *)
Theorem tables_class_zero_default :
  map class_zero_default [TBinary; TDoubleBit; TBos; TCounter; TFrozen; TAnalog; TAos; TOctet] = tb_class_zero_default.
Proof. reflexivity. Qed.

(* DatabaseHandle::new(config.max_read_request_headers, config.class_zero, config.event_buffer_config) with
   OutstationConfig::new's defaults and EventBufferConfig::all_types(evbuf) *)
Theorem tables_fdb_new : forall F,
  fdb_new F = db_new tb_default_max_read_request_headers class_zero_default
                (mkEbCfg (f_evbuf F) (f_evbuf F) (f_evbuf F) (f_evbuf F) (f_evbuf F) (f_evbuf F) (f_evbuf F) (f_evbuf F))
  /\ (let c := eb_cfg (db_events (fdb_new F)) in
      [max_bi c; max_dbi c; max_bos c; max_ctr c; max_fctr c; max_ai c; max_aos c; max_oct c]
      = map (fun a => nth (N.to_nat a) [f_evbuf F] 0) tb_event_buffer_all_types).
Proof. intro F. split; reflexivity. Qed.

(* the capacities that come from max_read_request_headers = None: the selection queue (StaticDatabase::new) and the
   deferred read (SessionParameters) *)
Theorem tables_read_capacities :
  DEFAULT_MAX_READ_REQUEST_HEADERS = tb_const_default_max_read_request_headers /\
  (forall F, sd_cap (db_static (fdb_new F)) = tb_const_default_max_read_request_headers) /\
  deferred_capacity = N.to_nat (match tb_default_max_read_request_headers with
                                | Some x => x | None => tb_const_default_max_read_request_headers end).
Proof. repeat split; reflexivity. Qed.

(* configuration fields the harness leaves at OutstationConfig::new's values and the model has no counterpart for:
   the self address is disabled (Features::default), no limit on READ headers beyond the default capacity *)
Theorem tables_unset_config_defaults :
  nth 0 tb_features_default true = false /\ tb_default_max_read_request_headers = None.
Proof. split; reflexivity. Qed.
