(* Outstation/SessionC04Proofs.v — property C04 over the session model (Outstation/Session.v):
   OPERATE actuates only after its own matching, fresh, directly preceding SELECT.

   1. sbo_operate_needs_matching_select / control_callback_function  (one step)
   2. operate_rejected_echoes_status                                  (one step)
   3. select_state_inv, frame_id_wrap_refuted                         (history invariant)
   4. operate_sbo_implies_select                                      (trace theorem, DESIGN.md appendix B)
   5. select_then_operate_once                                        (converse)

   History of this file: the first proof attempt of (3)/(4) failed on the model as it then was, and
   the obstruction was a genuine defect of the implementation (session.rs, FragmentType::RepeatNonRead:
   `select.update_frame_id(info.id)` ran for the retransmission of ANY non-READ request, also when the
   select was already stale): SELECT, X, X retransmitted, OPERATE actuated; and a refused SELECT that was
   retransmitted revived an older select.  Repaired in /repo (487019d: re-base only when
   `frame_id.wrapping_add(1) == new_frame_id`) and mirrored in Session.v; the witnesses are kept as
   Examples in Properties/C04.v. *)
From Dnp3V Require Import Outstation.Session Outstation.SessionLemmas_c04.
Open Scope N_scope.

(* ================================================================================================ *)
(* 1. One step: which request a control callback comes from                                          *)
(* ================================================================================================ *)

Lemma ostep_cb cfg s ev ans s' out c :
  J s -> ostep cfg s ev ans = (s', out) -> In (OCb c) out ->
  exists from bc bytes d sm ctl fn hdrs rh,
    ev = ERx from bc bytes d /\ rx_mid s sm ((s_frame_id s + 1) mod 4294967296) /\
    to_treq cfg from d = TqRequest ctl fn (ObjOk hdrs rh) /\ cb_fn c fn /\
    (bc <> None -> fn <> fn_select /\ fn <> fn_operate /\ fn <> fn_direct_operate) /\
    (fn = fn_operate -> op_matched cfg sm (ctl_seq ctl) ((s_frame_id s + 1) mod 4294967296) bytes).
Proof.
  intros HJ H Hin. apply ostep_spec in H; [|exact HJ]. destruct H as [_ H].
  destruct ev as [from bc bytes d|ms| |sel op|v|]; cbn [step_res] in H.
  - destruct H as [_ [_ [_ [_ H]]]].
    destruct H as [[A _]|[sm [s2 [o1 [o2 [o3 [Ho [Ho1 [Hmid [Hpr [_ [_ [Ho3 _]]]]]]]]]]]]].
    { exfalso. exact (no_cb_In _ A _ Hin). }
    rewrite Ho in Hin. apply in_ocb_split in Hin; [|exact Ho1|exact Ho3].
    apply proc_frag_spec in Hpr. destruct (fs_cb _ _ _ _ _ _ _ _ _ Hpr c Hin) as [ctl [fn [hdrs [rh [A [B [C D]]]]]]].
    exists from, bc, bytes, d, sm, ctl, fn, hdrs, rh. auto 10.
  - destruct H as [[_ [A _]] _]. exfalso. exact (no_cb_In _ A _ Hin).
  - destruct H as [[_ [A _]] _]. exfalso. exact (no_cb_In _ A _ Hin).
  - destruct H as [A _]. subst out. destruct Hin.
  - destruct H as [A _]. subst out. destruct Hin.
  - destruct H as [A _]. exfalso. exact (no_cb_In _ A _ Hin).
Qed.

(* Theorem 1.  An SBO operate callback in a step: the event is a unicast OPERATE request accepted by the
   transport filter and the state holds the matching select.  `J s` (nothing left in the reader, a
   deferred read only in the unsolicited confirm wait) holds in every reachable state (reach_J); it is
   needed: a state with a fragment still pending would process it on any event. *)
Theorem sbo_operate_needs_matching_select cfg s ev answers g v idx obj :
  J s -> In (OCb (CbOperate g v idx OpSbo obj)) (snd (ostep cfg s ev answers)) ->
  exists from bytes d ctl hdrs rh sel,
    ev = ERx from None bytes d /\
    to_treq cfg from d = TqRequest ctl fn_operate (ObjOk hdrs rh) /\
    s_select s = Some sel /\
    seq16_next (ss_seq sel) = ctl_seq ctl /\
    (ss_frame_id sel + 1) mod 4294967296 = (s_frame_id s + 1) mod 4294967296 /\
    ss_objects sel = objects_of bytes /\
    (s_now s - ss_time sel <= o_select_ms cfg)%Z.
Proof.
  intros HJ Hin. destruct (ostep cfg s ev answers) as [s' out] eqn:E. cbn [snd] in Hin.
  destruct (ostep_cb _ _ _ _ _ _ _ HJ E Hin) as [from [bc [bytes [d [sm [ctl [fn [hdrs [rh [Hev [Hmid [Ht [Hfn [Hbc Hop]]]]]]]]]]]]]].
  cbn [cb_fn optype_fn] in Hfn. subst fn.
  destruct bc as [m|]; [exfalso; assert (Hn : Some m <> None) by discriminate; apply Hbc in Hn; tauto|].
  destruct (Hop eq_refl) as [sel [Hs Hm]]. apply match_operate_none in Hm. destruct Hm as [M1 [M2 [M3 M4]]].
  destruct Hmid as [_ [N2 [_ [_ [N5 _]]]]].
  exists from, bytes, d, ctl, hdrs, rh, sel. rewrite <- N5, <- N2. auto 10.
Qed.

(* the other control callbacks: DIRECT_OPERATE only for function 5 (unicast), DIRECT_OPERATE_NR for
   function 6 (unicast or broadcast), select only for function 3 (unicast) *)
Theorem control_callback_function cfg s ev answers c :
  J s -> In (OCb c) (snd (ostep cfg s ev answers)) ->
  exists from bc bytes d ctl fn hdrs rh,
    ev = ERx from bc bytes d /\ to_treq cfg from d = TqRequest ctl fn (ObjOk hdrs rh) /\
    match c with
    | CbSelect _ _ _ _ => fn = fn_select /\ bc = None
    | CbOperate _ _ _ OpSbo _ => fn = fn_operate /\ bc = None
    | CbOperate _ _ _ OpDo _ => fn = fn_direct_operate /\ bc = None
    | CbOperate _ _ _ OpDoNr _ => fn = fn_direct_operate_nr
    | _ => True
    end.
Proof.
  intros HJ Hin. destruct (ostep cfg s ev answers) as [s' out] eqn:E. cbn [snd] in Hin.
  destruct (ostep_cb _ _ _ _ _ _ _ HJ E Hin) as [from [bc [bytes [d [sm [ctl [fn [hdrs [rh [Hev [Hmid [Ht [Hfn [Hbc Hop]]]]]]]]]]]]]].
  exists from, bc, bytes, d, ctl, fn, hdrs, rh. split; [exact Hev|]. split; [exact Ht|].
  assert (Hb : forall x, fn = x -> (x = fn_select \/ x = fn_operate \/ x = fn_direct_operate) -> bc = None).
  { intros x Hx Hor. destruct bc as [m|]; [|reflexivity]. exfalso.
    assert (Hn : Some m <> None) by discriminate. apply Hbc in Hn. subst x. tauto. }
  destruct c; try exact I; cbn [cb_fn] in Hfn.
  - split; [exact Hfn|]. eapply Hb; eauto.
  - destruct t; cbn [optype_fn] in Hfn; try exact Hfn; (split; [exact Hfn|eapply Hb; eauto]).
Qed.

(* ================================================================================================ *)
(* 2. A rejected OPERATE                                                                             *)
(* ================================================================================================ *)

Lemma handle_non_read_controls cfg s fn seq fid bytes hdrs :
  fn = fn_select \/ fn = fn_operate ->
  handle_non_read cfg s fn seq fid bytes hdrs =
  let '(s1, r, o) := handle_controls cfg s fn seq fid bytes hdrs in
  (s1, match r with Some r => Some (with_iin2 r 0) | None => None end, o).
Proof. intros [H|H]; subst fn; reflexivity. Qed.

Definition operate_verdict (cfg : ocfg) (s : ostate) (seq fid : N) (bytes : list N) : option N :=
  match s_select s with
  | Some sel => match_operate cfg s sel seq fid (objects_of bytes)
  | None => Some 2
  end.

Lemma handle_controls_operate cfg s seq fid bytes hdrs :
  all_controls hdrs = true ->
  handle_controls cfg s fn_operate seq fid bytes hdrs =
  match operate_verdict cfg s seq fid bytes with
  | Some status =>
      let '(echo, ok, _, _, _) := ctl_headers s cfg (o_sol_tx cfg - 4) (CmStatus status) [] 0 false hdrs in
      (upd_sol_buf s (buf_set (s_sol_buf s) echo), Some (control_response seq status (length echo)), [])
  | None =>
      let '(echo, ok, cbs, st, started) := ctl_headers s cfg (o_sol_tx cfg - 4) (CmOperate OpSbo) [] 0 false hdrs in
      (upd_sol_buf s (buf_set (s_sol_buf s) echo),
       Some (control_response seq (if ok then st else 8) (length echo)),
       cbs ++ (if started then [OCb CbEndFragment] else []))
  end.
Proof. intros H. unfold handle_controls, operate_verdict. rewrite H. reflexivity. Qed.

Lemma handle_controls_select cfg s seq fid bytes hdrs :
  all_controls hdrs = true ->
  handle_controls cfg s fn_select seq fid bytes hdrs =
  let '(echo, ok, cbs, st, started) := ctl_headers s cfg (o_sol_tx cfg - 4) CmSelect [] 0 false hdrs in
  let s1 := upd_sol_buf s (buf_set (s_sol_buf s) echo) in
  (if ok && (st =? 0)
   then upd_select s1 (Some {| ss_seq := seq; ss_frame_id := fid; ss_time := s_now s; ss_objects := objects_of bytes |})
   else s1,
   Some (control_response seq (if ok then st else 0) (length echo)),
   cbs ++ (if started then [OCb CbEndFragment] else [])).
Proof. intros H. unfold handle_controls. rewrite H. reflexivity. Qed.

Lemma operate_verdict_ext cfg s s' seq fid bytes :
  s_select s' = s_select s -> s_now s' = s_now s ->
  operate_verdict cfg s' seq fid bytes = operate_verdict cfg s seq fid bytes.
Proof. intros H1 H2. unfold operate_verdict, match_operate. rewrite H1, H2. reflexivity. Qed.

Lemma firstn_buf_set old echo : firstn (length echo) (buf_set old echo) = echo.
Proof.
  unfold buf_set. rewrite firstn_app, Nat.sub_diag, firstn_all. cbn [firstn]. apply app_nil_r.
Qed.

Lemma response_bytes_echo r old echo :
  r_size r = (4 + length echo)%nat ->
  response_bytes r (buf_set old echo) = r_ctl r :: r_fn r :: r_iin1 r :: r_iin2 r :: echo.
Proof.
  intros H. unfold response_bytes. rewrite H.
  replace (4 + length echo - 4)%nat with (length echo) by lia. rewrite firstn_buf_set. reflexivity.
Qed.

Lemma mid_variant sm sm' :
  sm' = sm \/ sm' = upd_deferred sm None ->
  s_select sm' = s_select sm /\ s_now sm' = s_now sm /\ s_sel_status sm' = s_sel_status sm /\
  s_op_status sm' = s_op_status sm /\ s_sol_buf sm' = s_sol_buf sm.
Proof. intros [H|H]; subst sm'; repeat split; reflexivity. Qed.

(* Theorem 2.  An OPERATE that does not match: nothing at all reaches the handler in the step, the
   status is TIMEOUT (1) or NO_SELECT (2), and (unless the request is itself a retransmission of the
   last request, which is answered from memory) the response transmitted carries the echo written by
   `ctl_headers ... (CmStatus status)`: every object with that status. *)
Theorem operate_rejected_echoes_status cfg s from bytes d answers ctl hdrs rh status :
  J s ->
  to_treq cfg from d = TqRequest ctl fn_operate (ObjOk hdrs rh) -> all_controls hdrs = true ->
  operate_verdict cfg s (ctl_seq ctl) ((s_frame_id s + 1) mod 4294967296) bytes = Some status ->
  let out := snd (ostep cfg s (ERx from None bytes d) answers) in
  (status = 1 \/ status = 2) /\ no_cb out /\
  (~ last_matches (s_last s) (ctl_seq ctl) bytes ->
   exists echo ok cbs st started c f i1 i2,
     ctl_headers s cfg (o_sol_tx cfg - 4) (CmStatus status) [] 0 false hdrs = (echo, ok, cbs, st, started) /\
     In (OTx from (c :: f :: i1 :: i2 :: echo)) out).
Proof.
  intros HJ Ht Hall Hv out. subst out.
  destruct (ostep cfg s (ERx from None bytes d) answers) as [s' out] eqn:E. cbn [snd].
  split.
  { unfold operate_verdict in Hv. destruct (s_select s) as [sel|].
    - eapply match_operate_status; eauto.
    - inversion Hv. auto. }
  split.
  { apply no_cb_intro. intros c Hin.
    destruct (ostep_cb _ _ _ _ _ _ _ HJ E Hin) as [from' [bc [bytes' [d' [sm [ctl' [fn [hdrs' [rh' [Hev [Hmid [Ht' [Hfn [Hbc Hop]]]]]]]]]]]]]].
    inversion Hev; subst from' bc bytes' d'. rewrite Ht in Ht'. inversion Ht'; subst ctl' fn hdrs' rh'.
    destruct Hmid as [_ [N2 [_ [_ [N5 _]]]]].
    specialize (Hop eq_refl). apply (op_matched_ext cfg s sm) in Hop; [|congruence|congruence].
    destruct Hop as [sel [Hs Hm]]. unfold operate_verdict in Hv. rewrite Hs in Hv. congruence. }
  intros Hnl. apply ostep_spec in E; [|exact HJ]. destruct E as [_ E]. cbn [step_res] in E.
  destruct E as [_ [_ [_ [_ E]]]].
  destruct E as [[_ [_ Hsk]]|[sm [s2 [o1 [o2 [o3 [Ho [Ho1 [Hmid [Hpr [_ Hq]]]]]]]]]]].
  { exfalso. destruct Hsk as [Hsk|[ctl' [fn [obj [Hsk [_ Hf]]]]]]; [congruence|].
    rewrite Ht in Hsk. inversion Hsk; subst. destruct Hf as [Hf|Hf]; discriminate Hf. }
  destruct Hmid as [N1 [N2 [N3 [N4 [N5 [N6 N7]]]]]].
  apply (proc_new _ _ _ _ _ _ ctl fn_operate hdrs rh) in Hpr; try assumption; try discriminate; [|congruence].
  destruct Hpr as [sm' [Hsm' [s1 [r [oa [pre [rest [Hh [Ho2 [Hpre [Hrest [Hsel Htx]]]]]]]]]]]].
  destruct (mid_variant _ _ Hsm') as [V1 [V2 [V3 [V4 V5]]]].
  rewrite handle_non_read_controls in Hh by (right; reflexivity).
  rewrite handle_controls_operate in Hh by exact Hall.
  rewrite (operate_verdict_ext cfg s sm') in Hh by congruence. rewrite Hv in Hh.
  rewrite (ctl_headers_ext s sm') in Hh by congruence.
  destruct (ctl_headers s cfg (o_sol_tx cfg - 4) (CmStatus status) [] 0 false hdrs) as [[[[echo ok] cbs] st] started] eqn:Ec.
  inversion Hh; subst s1 r oa. clear Hh.
  destruct (Htx _ eq_refl) as [r' [Hsz Hin]]. cbn [with_iin2 control_response r_size] in Hsz.
  prj. rewrite response_bytes_echo in Hin by exact Hsz.
  exists echo, ok, cbs, st, started, (r_ctl r'), (r_fn r'), (r_iin1 r'), (r_iin2 r').
  split; [reflexivity|]. rewrite Ho, Ho2. apply in_or_app. right. apply in_or_app. left.
  apply in_or_app. right. apply in_or_app. right. exact Hin.
Qed.

(* ================================================================================================ *)
(* 3. Histories                                                                                      *)
(* ================================================================================================ *)

Definition hist : Type := list (oevent * list answer).

Definition step (cfg : ocfg) (s : ostate) (ea : oevent * list answer) : ostate :=
  fst (ostep cfg s (fst ea) (snd ea)).

Definition run_from (cfg : ocfg) (s0 : ostate) (h : hist) : ostate := fold_left (step cfg) h s0.

(* the state before event k and the observations of step k *)
Definition state_at (cfg : ocfg) (s0 : ostate) (h : hist) (k : nat) : ostate := run_from cfg s0 (firstn k h).

Definition out_of (cfg : ocfg) (s : ostate) (ea : oevent * list answer) : list oobs :=
  snd (ostep cfg s (fst ea) (snd ea)).

Definition Reach (cfg : ocfg) (s : ostate) (h : hist) : Prop :=
  exists sel op iin a0, s = run_from cfg (fst (ostart cfg sel op iin a0)) h.

Lemma run_from_snoc cfg s0 h ea : run_from cfg s0 (h ++ [ea]) = step cfg (run_from cfg s0 h) ea.
Proof. unfold run_from. rewrite fold_left_app. reflexivity. Qed.

Lemma run_from_app cfg s0 h1 h2 : run_from cfg s0 (h1 ++ h2) = run_from cfg (run_from cfg s0 h1) h2.
Proof. unfold run_from. apply fold_left_app. Qed.

Lemma orun_nth cfg : forall h s0 k ea,
  nth_error h k = Some ea ->
  nth_error (orun cfg s0 h) k = Some (out_of cfg (state_at cfg s0 h k) ea).
Proof.
  induction h as [|[ev a] h IH]; intros s0 k ea H; [destruct k; discriminate H|].
  cbn [orun]. destruct (ostep cfg s0 ev a) as [s1 o] eqn:E. destruct k as [|k].
  - cbn in H. inversion H; subst ea. cbn [nth_error]. unfold out_of, state_at. cbn [firstn run_from fold_left fst snd].
    rewrite E. reflexivity.
  - cbn [nth_error] in H |- *. rewrite (IH s1 k ea H). unfold state_at. cbn [firstn run_from fold_left].
    unfold step at 2. cbn [fst snd]. rewrite E. reflexivity.
Qed.

Lemma step_J cfg s ea : J s -> J (step cfg s ea).
Proof.
  intros HJ. unfold step. destruct (ostep cfg s (fst ea) (snd ea)) as [s' o] eqn:E.
  apply ostep_spec in E; [|exact HJ]. apply E.
Qed.

Lemma run_from_J cfg s0 h : J s0 -> J (run_from cfg s0 h).
Proof.
  revert s0. induction h as [|ea h IH]; intros s0 HJ; [exact HJ|].
  cbn [run_from fold_left]. apply IH. apply step_J. exact HJ.
Qed.

Lemma ostart_spec cfg sel op iin a0 :
  J (fst (ostart cfg sel op iin a0)) /\ s_select (fst (ostart cfg sel op iin a0)) = None.
Proof.
  unfold ostart. destruct (idle_loop 8 cfg (upd_answers (ostate_init cfg sel op iin) a0)) as [s o] eqn:E.
  apply idle_loop_spec in E; [|split; reflexivity|reflexivity]. destruct E as [[A _] B]. cbn [fst].
  split; [exact B|]. pget FSel A. rewrite P. reflexivity.
Qed.

Lemma reach_J cfg s h : Reach cfg s h -> J s.
Proof. intros [sel [op [iin [a0 H]]]]. subst s. apply run_from_J. apply ostart_spec. Qed.

Definition is_rx (ea : oevent * list answer) : bool := match fst ea with ERx _ _ _ _ => true | _ => false end.
Definition is_disc (ea : oevent * list answer) : bool := match fst ea with EDisconnect => true | _ => false end.
Definition rx_count (h : hist) : nat := length (filter is_rx h).

Lemma rx_count_app a b : rx_count (a ++ b) = (rx_count a + rx_count b)%nat.
Proof. unfold rx_count. rewrite filter_app, app_length. reflexivity. Qed.

(* a unicast non-READ request accepted by the transport filter, with these bytes and this sequence *)
Definition repeat_of (cfg : ocfg) (seq : N) (bytes : list N) (ea : oevent * list answer) : Prop :=
  exists from d ctl fn hdrs rh,
    fst ea = ERx from None bytes d /\ to_treq cfg from d = TqRequest ctl fn (ObjOk hdrs rh) /\
    ctl_seq ctl = seq /\ fn <> fn_confirm /\ fn <> fn_read.

(* event ea, received in state sj, is a SELECT for which every object was offered to the handler and
   answered SUCCESS, the echo fitted, and the CbSelect callbacks are among the step's observations *)
Definition select_event (cfg : ocfg) (sj : ostate) (ea : oevent * list answer)
           (seq : N) (bytes objects : list N) (time : Z) : Prop :=
  exists from d ctl hdrs rh echo cbs started,
    fst ea = ERx from None bytes d /\
    to_treq cfg from d = TqRequest ctl fn_select (ObjOk hdrs rh) /\
    all_controls hdrs = true /\
    ctl_headers sj cfg (o_sol_tx cfg - 4) CmSelect [] 0 false hdrs = (echo, true, cbs, 0, started) /\
    incl cbs (out_of cfg sj ea) /\
    seq = ctl_seq ctl /\ objects = objects_of bytes /\ time = s_now sj.

Definition two32 : N := 4294967296.

Definition sel_inv (cfg : ocfg) (s0 : ostate) (h : hist) : Prop :=
  forall sel, s_select (run_from cfg s0 h) = Some sel ->
  exists pre ea mid post bytes,
    h = pre ++ ea :: mid ++ post /\
    select_event cfg (run_from cfg s0 pre) ea (ss_seq sel) bytes (ss_objects sel) (ss_time sel) /\
    Forall (fun e => is_disc e = false) (mid ++ post) /\
    ss_frame_id sel < two32 /\
    s_frame_id (run_from cfg s0 h) = (ss_frame_id sel + N.of_nat (rx_count post)) mod two32 /\
    (N.of_nat (rx_count h) < two32 ->
       Forall (fun e => is_rx e = true -> repeat_of cfg (ss_seq sel) bytes e) mid /\
       (rx_count post = 0%nat ->
          last_matches (s_last (run_from cfg s0 h)) (ss_seq sel) bytes /\ s_deferred (run_from cfg s0 h) = None)).

Lemma rx_count_zero l : rx_count l = 0%nat -> Forall (fun e => is_rx e = false) l.
Proof.
  unfold rx_count. induction l as [|e l IH]; intros H; [constructor|].
  cbn [filter] in H. destruct (is_rx e) eqn:E; [discriminate H|]. constructor; auto.
Qed.

Lemma rx_count_snoc l e : rx_count (l ++ [e]) = (rx_count l + (if is_rx e then 1 else 0))%nat.
Proof. rewrite rx_count_app. unfold rx_count at 2. cbn [filter]. destruct (is_rx e); reflexivity. Qed.

Lemma frame_wrap_zero f0 c :
  f0 < two32 -> c < two32 -> (f0 + 1) mod two32 = ((f0 + c) mod two32 + 1) mod two32 -> c = 0.
Proof. unfold two32. intros H1 H2 H3. lia. Qed.

Lemma frame_next f0 c : ((f0 + c) mod two32 + 1) mod two32 = (f0 + (c + 1)) mod two32.
Proof. unfold two32. lia. Qed.

Lemma last_matches_inj last seq bytes seq' bytes' :
  last_matches last seq bytes -> last_matches last seq' bytes' -> seq = seq' /\ bytes = bytes'.
Proof. intros [l [A [B C]]] [l' [A' [B' C']]]. rewrite A in A'. inversion A'; subst l'. split; congruence. Qed.

Lemma proc_nonread_deferred cfg sm from bytes d fid s2 o2 ctl fn hdrs rh :
  proc cfg sm (from, None, bytes, d, fid) s2 o2 ->
  (s_deferred sm = None \/ exists resp res, unsol_wait_fragment cfg sm resp from None bytes d fid = (s2, res, o2)) ->
  to_treq cfg from d = TqRequest ctl fn (ObjOk hdrs rh) -> fn <> fn_confirm -> fn <> fn_read ->
  s_deferred s2 = None.
Proof.
  intros Hpr Hd Ht H0 H1. destruct Hd as [Hd|[resp [res Hu]]].
  - destruct Hpr as [H|[resp [res Hu]]].
    + apply handle_from_idle_spec in H. destruct H as [A _]. pget FDef A. congruence.
    + eapply unsol_wait_nonread_deferred; eauto.
  - eapply unsol_wait_nonread_deferred; eauto.
Qed.

(* the select is not touched by the step *)
Lemma sel_inv_keep cfg s0 h ea :
  let s := run_from cfg s0 h in let s' := step cfg s ea in
  sel_inv cfg s0 h ->
  s_select s' = s_select s -> is_disc ea = false ->
  s_frame_id s' = (if is_rx ea then (s_frame_id s + 1) mod two32 else s_frame_id s) ->
  (is_rx ea = false -> s_deferred s = None -> s_deferred s' = None /\ s_last s' = s_last s) ->
  sel_inv cfg s0 (h ++ [ea]).
Proof.
  intros s s' IH Hsel Hdisc Hfid Hlast sel Hs. rewrite run_from_snoc in Hs. fold s s' in Hs.
  rewrite Hsel in Hs. destruct (IH sel Hs) as [pre [ea0 [mid [post [bytes [Hh [Hev [Hnd [Hlt [Hfr Hc]]]]]]]]]].
  exists pre, ea0, mid, (post ++ [ea]), bytes.
  split; [rewrite Hh, <- !app_assoc; cbn [app]; rewrite <- app_assoc; reflexivity|].
  split; [exact Hev|].
  split; [rewrite app_assoc; apply Forall_app; split; [exact Hnd|constructor; [exact Hdisc|constructor]]|].
  split; [exact Hlt|].
  rewrite run_from_snoc. fold s s'. fold s in Hfr, Hc.
  split.
  { rewrite Hfid, rx_count_snoc. destruct (is_rx ea).
    - rewrite Hfr, frame_next. f_equal. lia.
    - rewrite Hfr. f_equal. lia. }
  intros Hb. rewrite rx_count_snoc in Hb.
  assert (Hb0 : N.of_nat (rx_count h) < two32) by lia.
  destruct (Hc Hb0) as [Hmid Hl]. split; [exact Hmid|].
  rewrite rx_count_snoc. intros Hz. destruct (is_rx ea) eqn:Erx; [lia|].
  assert (Hz0 : rx_count post = 0%nat) by lia. destruct (Hl Hz0) as [L1 L2].
  destruct (Hlast eq_refl L2) as [D1 D2]. split; [rewrite D2; exact L1|exact D1].
Qed.

Lemma sel_inv_step cfg s0 h ea :
  J (run_from cfg s0 h) -> sel_inv cfg s0 h -> sel_inv cfg s0 (h ++ [ea]).
Proof.
  intros HJ IH. set (s := run_from cfg s0 h) in *.
  destruct (ostep cfg s (fst ea) (snd ea)) as [s' out] eqn:E.
  assert (Hs' : step cfg s ea = s') by (unfold step; rewrite E; reflexivity).
  assert (Hout : out_of cfg s ea = out) by (unfold out_of; rewrite E; reflexivity).
  pose proof (ostep_spec _ _ _ _ _ _ HJ E) as [HJ' Hres].
  destruct ea as [ev ans]. cbn [fst snd] in *.
  destruct ev as [from bc bytes d|ms| |hsel hop|v|]; cbn [step_res] in Hres.
  - (* a fragment *)
    destruct Hres as [R1 [R2 [R3 [R4 Hres]]]].
    assert (Hkeep : s_select s' = s_select s -> sel_inv cfg s0 (h ++ [(ERx from bc bytes d, ans)])).
    { intros Hk. apply sel_inv_keep; fold s; try rewrite Hs'; auto.
      intros Hf; discriminate Hf. }
    destruct Hres as [[_ [Hk _]]|[sm [s2 [o1 [o2 [o3 [Ho [Ho1 [Hmid [Hpr [Hd [Q1 [Q2 Q3]]]]]]]]]]]]]; [auto|].
    pose proof (proc_frag_spec _ _ _ _ _ _ _ _ _ Hpr) as Hfs.
    pget FSel Q1.
    destruct Hmid as [N1 [N2 [N3 [N4 [N5 [N6 N7]]]]]].
    destruct (fs_sel _ _ _ _ _ _ _ _ _ Hfs) as [Hk|[Hnew|Hreb]]; [apply Hkeep; congruence| |].
    + (* a new select *)
      destruct Hnew as [ctl [hdrs [rh [Hbc [Ht [echo [cbs [started [_ [Hall [Hctl [Hsel Hincl]]]]]]]]]]]].
      subst bc. intros sel Hs. rewrite run_from_snoc in Hs. fold s in Hs. rewrite Hs' in Hs.
      assert (Esel : sel = sel_new (ctl_seq ctl) ((s_frame_id s + 1) mod 4294967296) (s_now sm) bytes) by congruence.
      exists h, (ERx from None bytes d, ans), [], [], bytes. cbn [app].
      split; [reflexivity|]. fold s.
      split.
      { exists from, d, ctl, hdrs, rh, echo, cbs, started. cbn [fst].
        split; [reflexivity|]. split; [exact Ht|]. split; [exact Hall|].
        split; [rewrite (ctl_headers_ext sm s) by congruence; exact Hctl|].
        split; [|subst sel; cbn [sel_new ss_seq ss_objects ss_time]; auto].
        rewrite Hout, Ho. intros x Hx. apply in_or_app. right. apply in_or_app. left. auto. }
      split; [constructor|].
      split; [subst sel; cbn [sel_new ss_frame_id]; unfold two32; lia|].
      rewrite run_from_snoc. fold s. rewrite Hs'.
      split; [rewrite R4; subst sel; cbn [sel_new ss_frame_id rx_count filter length N.of_nat]; unfold two32; lia|].
      intros _. split; [constructor|]. intros _.
      assert (D2 : s_deferred s2 = None).
      { eapply proc_nonread_deferred; eauto; discriminate. }
      destruct (Q3 D2) as [D3 L3]. split; [|exact D3]. rewrite L3.
      subst sel. cbn [sel_new ss_seq].
      apply (fs_rec _ _ _ _ _ _ _ _ _ Hfs eq_refl ctl fn_select hdrs rh Ht); discriminate.
    + (* a retransmission directly after the select re-bases it *)
      destruct Hreb as [sel0 [ctl [fn [hdrs [rh [Hbc [Ht [H0 [H1 [Hlm [Hs0 [Hfresh Hsel]]]]]]]]]]]].
      subst bc. intros sel Hs. rewrite run_from_snoc in Hs. fold s in Hs. rewrite Hs' in Hs.
      assert (Esel : sel = sel_rebase sel0 ((s_frame_id s + 1) mod 4294967296)) by congruence.
      assert (Hs0' : s_select s = Some sel0) by congruence.
      destruct (IH sel0 Hs0') as [pre [ea0 [mid [post [bytes0 [Hh [Hev [Hnd [Hlt [Hfr Hc]]]]]]]]]].
      fold s in Hfr, Hc.
      exists pre, ea0, (mid ++ post ++ [(ERx from None bytes d, ans)]), [], bytes0.
      split; [rewrite Hh, app_nil_r, <- !app_assoc; cbn [app]; rewrite <- !app_assoc; reflexivity|].
      split; [subst sel; exact Hev|].
      split; [rewrite app_nil_r, app_assoc; apply Forall_app; split; [exact Hnd|constructor; [reflexivity|constructor]]|].
      split; [subst sel; cbn [sel_rebase ss_frame_id]; unfold two32; lia|].
      rewrite run_from_snoc. fold s. rewrite Hs'.
      split; [rewrite R4; subst sel; cbn [sel_rebase ss_frame_id rx_count filter length N.of_nat]; unfold two32; lia|].
      intros Hb. rewrite rx_count_snoc in Hb. cbn [is_rx fst] in Hb.
      assert (Hb0 : N.of_nat (rx_count h) < two32) by lia.
      destruct (Hc Hb0) as [Hmidr Hl].
      assert (Hc0 : rx_count post = 0%nat).
      { assert (Hle : (rx_count post <= rx_count h)%nat).
        { rewrite Hh. rewrite rx_count_app. change (ea0 :: mid ++ post) with ([ea0] ++ mid ++ post).
          rewrite !rx_count_app. lia. }
        assert (N.of_nat (rx_count post) = 0); [|lia].
        apply (frame_wrap_zero (ss_frame_id sel0)); [exact Hlt|lia|].
        rewrite <- Hfr. exact Hfresh. }
      destruct (Hl Hc0) as [L1 L2].
      rewrite N6 in Hlm. destruct (last_matches_inj _ _ _ _ _ L1 Hlm) as [Eseq Ebytes].
      assert (Hrep : repeat_of cfg (ss_seq sel0) bytes0 (ERx from None bytes d, ans)).
      { exists from, d, ctl, fn, hdrs, rh. cbn [fst]. subst bytes0. auto 10. }
      subst sel. cbn [sel_rebase ss_seq].
      split.
      { apply Forall_app. split; [exact Hmidr|]. apply Forall_app. split.
        - apply rx_count_zero in Hc0. eapply Forall_impl; [|exact Hc0]. intros e He Hx. congruence.
        - constructor; [intros _; exact Hrep|constructor]. }
      intros _.
      assert (D2 : s_deferred s2 = None) by (eapply proc_nonread_deferred; eauto).
      destruct (Q3 D2) as [D3 L3]. split; [|exact D3]. rewrite L3, Eseq, Ebytes.
      apply (fs_rec _ _ _ _ _ _ _ _ _ Hfs eq_refl ctl fn hdrs rh Ht H0 H1).
  - destruct Hres as [[Q1 [_ Q3]] _]. pget FSel Q1. pget FFid Q1.
    apply sel_inv_keep; fold s; try rewrite Hs'; auto.
  - destruct Hres as [[Q1 [_ Q3]] _]. pget FSel Q1. pget FFid Q1.
    apply sel_inv_keep; fold s; try rewrite Hs'; auto.
  - destruct Hres as [_ Q1]. pget FSel Q1. pget FFid Q1. pget FDef Q1. pget FLast Q1.
    apply sel_inv_keep; fold s; try rewrite Hs'; auto. intros _ Hd. split; congruence.
  - destruct Hres as [_ Q1]. pget FSel Q1. pget FFid Q1. pget FDef Q1. pget FLast Q1.
    apply sel_inv_keep; fold s; try rewrite Hs'; auto. intros _ Hd. split; congruence.
  - destruct Hres as [_ [Hn _]]. intros sel Hs. rewrite run_from_snoc in Hs. fold s in Hs.
    rewrite Hs' in Hs. congruence.
Qed.

Lemma sel_inv_all cfg s0 h : J s0 -> s_select s0 = None -> sel_inv cfg s0 h.
Proof.
  intros HJ Hn. induction h as [|ea h IH] using rev_ind.
  - intros sel Hs. cbn in Hs. congruence.
  - apply sel_inv_step; [apply run_from_J; exact HJ|exact IH].
Qed.

(* Theorem 3.  The select state of a reachable state comes from a SELECT event of the history that
   succeeded completely; no disconnect since; the frame counter is the select's frame id plus the number
   of fragments received after the last (re-)basing of the select, modulo 2^32.  If fewer than 2^32
   fragments were received, the fragments between the SELECT and that point are byte-identical accepted
   unicast retransmissions of it, and if moreover the select is LIVE (its frame id is the current frame
   counter, which is what match_operate tests for the next fragment) there is no other fragment at all
   after the SELECT.  Without the 2^32 bound a stale select becomes live again after exactly 2^32
   further fragments (frame_id_wrap_refuted below).
   NOTE the select is NOT dropped when another fragment arrives: it stays in the state (stale) and can
   only not match; so "every fragment after the SELECT is a repeat" holds for live selects only. *)
Theorem select_state_inv cfg s h sel :
  Reach cfg s h -> s_select s = Some sel ->
  exists s0 pre ea mid post bytes,
    (exists hs ho iin a0, s0 = fst (ostart cfg hs ho iin a0)) /\ s = run_from cfg s0 h /\
    h = pre ++ ea :: mid ++ post /\
    select_event cfg (run_from cfg s0 pre) ea (ss_seq sel) bytes (ss_objects sel) (ss_time sel) /\
    Forall (fun e => is_disc e = false) (mid ++ post) /\
    s_frame_id s = (ss_frame_id sel + N.of_nat (rx_count post)) mod two32 /\
    (N.of_nat (rx_count h) < two32 ->
       Forall (fun e => is_rx e = true -> repeat_of cfg (ss_seq sel) bytes e) mid /\
       (ss_frame_id sel = s_frame_id s -> Forall (fun e => is_rx e = false) post)).
Proof.
  intros [hs [ho [iin [a0 Hr]]]] Hs.
  pose proof (ostart_spec cfg hs ho iin a0) as [HJ0 Hn0].
  set (s0 := fst (ostart cfg hs ho iin a0)) in *.
  pose proof (sel_inv_all cfg s0 h HJ0 Hn0) as Hinv.
  subst s. destruct (Hinv sel Hs) as [pre [ea [mid [post [bytes [Hh [Hev [Hnd [Hlt [Hfr Hc]]]]]]]]]].
  exists s0, pre, ea, mid, post, bytes.
  split; [exists hs, ho, iin, a0; reflexivity|]. split; [reflexivity|]. split; [exact Hh|].
  split; [exact Hev|]. split; [exact Hnd|]. split; [exact Hfr|].
  intros Hb. destruct (Hc Hb) as [Hmid _]. split; [exact Hmid|].
  intros Hlive. apply rx_count_zero.
  assert (Hle : (rx_count post <= rx_count h)%nat).
  { rewrite Hh. rewrite rx_count_app. change (ea :: mid ++ post) with ([ea] ++ mid ++ post).
    rewrite !rx_count_app. lia. }
  rewrite Hlive in Hfr at 1. revert Hfr Hlt Hb Hle. unfold two32.
  generalize (ss_frame_id sel) (rx_count post) (rx_count h). intros f c n. lia.
Qed.

(* the frame counter is a u32: after exactly 2^32 further fragments it is back where it was, so a stale
   select would be taken for live again.  (N.iter is not computed: the lemma is proved generally.) *)
Lemma frame_iter n f : N.iter n (fun x => (x + 1) mod two32) f = (if n =? 0 then f else (f + n) mod two32).
Proof.
  induction n as [|n IH] using N.peano_ind; [reflexivity|].
  rewrite N.iter_succ, IH. unfold two32. destruct (n =? 0) eqn:E.
  - apply N.eqb_eq in E. subst n. cbn. reflexivity.
  - apply N.eqb_neq in E. destruct (N.succ n =? 0) eqn:E2; [apply N.eqb_eq in E2; lia|]. lia.
Qed.

Example frame_id_wrap_refuted f :
  f < two32 -> N.iter two32 (fun x => (x + 1) mod two32) f = f.
Proof. intros H. rewrite frame_iter. unfold two32 in *. cbn [N.eqb]. lia. Qed.

(* ---------- indices ---------- *)
Lemma nth_error_firstn_lt {A} (l : list A) : forall k m, (m < k)%nat -> nth_error (firstn k l) m = nth_error l m.
Proof.
  induction l as [|x l IH]; intros k m H; [destruct k, m; reflexivity|].
  destruct k as [|k]; [lia|]. destruct m as [|m]; [reflexivity|]. cbn [firstn nth_error]. apply IH. lia.
Qed.

Lemma orun_length cfg : forall h s0, length (orun cfg s0 h) = length h.
Proof.
  induction h as [|[ev a] h IH]; intros s0; [reflexivity|]. cbn [orun].
  destruct (ostep cfg s0 ev a) as [s1 o]. cbn [length]. rewrite IH. reflexivity.
Qed.

Definition select_at (cfg : ocfg) (s0 : ostate) (evs : hist) (j : nat) (seq : N) (bytes objects : list N) (time : Z) : Prop :=
  exists ea, nth_error evs j = Some ea /\ select_event cfg (state_at cfg s0 evs j) ea seq bytes objects time.

(* Theorem 4 (DESIGN.md appendix B).  If step k of a run from start-up emits a select-before-operate
   callback, event k is a unicast OPERATE and there is an earlier event j, a SELECT with byte-identical
   objects and the preceding sequence number that was answered all-SUCCESS, such that every event
   strictly between j and k is not a disconnect and, if it is a fragment, is a byte-identical accepted
   unicast retransmission of that SELECT; and the OPERATE is processed within the select timeout of the
   SELECT.  Hypothesis: fewer than 2^32 fragments before event k (the frame counter is a u32). *)
Theorem operate_sbo_implies_select cfg hs ho iin a0 (evs : hist) k g v idx obj outk :
  let s0 := fst (ostart cfg hs ho iin a0) in
  N.of_nat (rx_count (firstn k evs)) < two32 ->
  nth_error (orun cfg s0 evs) k = Some outk -> In (OCb (CbOperate g v idx OpSbo obj)) outk ->
  exists j from bytes d ans ctl hdrs rh seqj bytesj timej,
    (j < k)%nat /\
    nth_error evs k = Some (ERx from None bytes d, ans) /\
    to_treq cfg from d = TqRequest ctl fn_operate (ObjOk hdrs rh) /\
    select_at cfg s0 evs j seqj bytesj (objects_of bytes) timej /\
    ctl_seq ctl = seq16_next seqj /\
    (forall m ea, (j < m < k)%nat -> nth_error evs m = Some ea ->
       is_disc ea = false /\ (is_rx ea = true -> repeat_of cfg seqj bytesj ea)) /\
    (s_now (state_at cfg s0 evs k) - timej <= o_select_ms cfg)%Z.
Proof.
  intros s0 Hb Hk Hin.
  pose proof (ostart_spec cfg hs ho iin a0) as [HJ0 Hn0]. fold s0 in HJ0, Hn0.
  assert (Hlen : (k < length evs)%nat).
  { rewrite <- (orun_length cfg evs s0). apply nth_error_Some. congruence. }
  destruct (nth_error evs k) as [eak|] eqn:Eek; [|apply nth_error_None in Eek; lia].
  rewrite (orun_nth cfg evs s0 k eak Eek) in Hk. inversion Hk; subst outk. clear Hk.
  set (sk := state_at cfg s0 evs k) in *.
  assert (HJk : J sk) by (apply run_from_J; exact HJ0).
  destruct eak as [evk ansk]. unfold out_of in Hin. cbn [fst snd] in Hin.
  destruct (sbo_operate_needs_matching_select _ _ _ _ _ _ _ _ HJk Hin)
    as [from [bytes [d [ctl [hdrs [rh [sel [Hev [Ht [Hs [Hseq [Hfid [Hobj Htime]]]]]]]]]]]]].
  subst evk.
  pose proof (sel_inv_all cfg s0 (firstn k evs) HJ0 Hn0) as Hinv. fold (state_at cfg s0 evs k) in Hinv. fold sk in Hinv.
  destruct (Hinv sel Hs) as [pre [ea [mid [post [bytesj [Hh [Hsev [Hnd [Hlt [Hfr Hc]]]]]]]]]].
  fold (state_at cfg s0 evs k) in Hfr, Hc. fold sk in Hfr, Hc.
  destruct (Hc Hb) as [Hmid _].
  assert (Hle : (rx_count post <= rx_count (firstn k evs))%nat).
  { rewrite Hh. rewrite rx_count_app. change (ea :: mid ++ post) with ([ea] ++ mid ++ post).
    rewrite !rx_count_app. lia. }
  assert (Hc0 : rx_count post = 0%nat).
  { assert (N.of_nat (rx_count post) = 0); [|lia].
    apply (frame_wrap_zero (ss_frame_id sel)); [exact Hlt|lia|]. rewrite <- Hfr. exact Hfid. }
  assert (Hklen : length (firstn k evs) = k) by (apply firstn_length_le; lia).
  assert (Hj : (length pre < k)%nat).
  { rewrite <- Hklen, Hh, app_length. cbn [length]. lia. }
  assert (Hpre : firstn (length pre) evs = pre).
  { assert (E : firstn (length pre) (firstn k evs) = pre).
    { rewrite Hh, firstn_app, Nat.sub_diag, firstn_all. cbn [firstn]. apply app_nil_r. }
    rewrite firstn_firstn in E. replace (Nat.min (length pre) k) with (length pre) in E by lia. exact E. }
  exists (length pre), from, bytes, d, ansk, ctl, hdrs, rh, (ss_seq sel), bytesj, (ss_time sel).
  split; [exact Hj|]. split; [reflexivity|]. split; [exact Ht|].
  split.
  { exists ea. split.
    - rewrite <- (nth_error_firstn_lt evs k (length pre) Hj), Hh.
      rewrite nth_error_app2 by lia. rewrite Nat.sub_diag. reflexivity.
    - unfold state_at. rewrite Hpre. rewrite <- Hobj. exact Hsev. }
  split; [symmetry; exact Hseq|].
  split.
  { intros m eam [Hm1 Hm2] Hnth.
    rewrite <- (nth_error_firstn_lt evs k m Hm2), Hh in Hnth.
    rewrite nth_error_app2 in Hnth by lia.
    destruct (m - length pre)%nat as [|i] eqn:Ei; [lia|]. cbn [nth_error] in Hnth.
    apply nth_error_In in Hnth. split.
    - rewrite Forall_forall in Hnd. apply Hnd. exact Hnth.
    - apply in_app_or in Hnth. destruct Hnth as [Hnth|Hnth].
      + rewrite Forall_forall in Hmid. apply Hmid. exact Hnth.
      + apply rx_count_zero in Hc0. rewrite Forall_forall in Hc0. intros Hx. rewrite (Hc0 _ Hnth) in Hx. discriminate Hx. }
  exact Htime.
Qed.

(* ================================================================================================ *)
(* 5. The converse: SELECT then OPERATE is executed exactly once                                     *)
(* ================================================================================================ *)

(* the echo of a request in which every object gets status st, as a pure function; the second
   component says whether it fitted the buffer *)
Fixpoint echo_hdr (cap : nat) (g v prefix : N) (written : list N) (n : N) (hs : nat)
         (items : list (N * list N)) (st : N) : list N * bool :=
  match items with
  | [] => (written, true)
  | (idx, obj) :: rest =>
      let '(w1, ok) := echo_items cap g v prefix written n hs [(idx, replace_status obj st)] in
      if ok then echo_hdr cap g v prefix w1 (n + 1) hs rest st else (w1, false)
  end.

Fixpoint echo_all (cap : nat) (written : list N) (hdrs : list whdr) (st : N) : list N * bool :=
  match hdrs with
  | [] => (written, true)
  | WCtl g v prefix items :: rest =>
      let '(w1, ok) := echo_hdr cap g v prefix written 0 (length written) items st in
      if ok then echo_all cap w1 rest st else (w1, false)
  | _ :: rest => echo_all cap written rest st
  end.

Definition item_cb (mode : ctl_mode) (g v : N) (it : N * list N) : oobs :=
  OCb (match mode with
       | CmOperate t => CbOperate g v (fst it) t (snd it)
       | _ => CbSelect g v (fst it) (snd it)
       end).

Definition hdr_cbs (mode : ctl_mode) (hdrs : list whdr) : list oobs :=
  flat_map (fun h => match h with WCtl g v _ items => map (item_cb mode g v) items | _ => [] end) hdrs.

Definition nonempty {A} (l : list A) : bool := match l with [] => false | _ => true end.

Definition begin_if (b : bool) : list oobs := if b then [OCb CbBeginFragment] else [].

(* the callbacks of one fragment: begin, one per object in order, end *)
Definition bracket (l : list oobs) : list oobs :=
  match l with [] => [] | _ => OCb CbBeginFragment :: l ++ [OCb CbEndFragment] end.

Definition mode_ok (s : ostate) (mode : ctl_mode) : Prop :=
  (mode = CmSelect /\ s_sel_status s = 0) \/ (exists t, mode = CmOperate t /\ s_op_status s = 0).

Lemma item_status_ok s cfg mode num :
  o_max_controls cfg = None -> mode_ok s mode -> item_status s cfg mode num = (0, true).
Proof.
  intros Hm [[Hmode Hs]|[t [Hmode Hs]]]; subst mode; unfold item_status; rewrite Hm, Hs; reflexivity.
Qed.

Lemma ctl_one_header_consulted s cfg cap mode g v prefix :
  o_max_controls cfg = None -> mode_ok s mode ->
  forall items w n hs num started,
  snd (echo_hdr cap g v prefix w n hs items 0) = true ->
  exists num',
    ctl_one_header s cfg cap mode g v prefix w n hs num started items =
    (fst (echo_hdr cap g v prefix w n hs items 0), true,
     begin_if (negb started && nonempty items) ++ map (item_cb mode g v) items, 0, num', started || nonempty items).
Proof.
  intros Hm Hok. induction items as [|[idx obj] rest IH]; intros w n hs num started Hfit.
  - exists num. cbn [ctl_one_header echo_hdr fst nonempty map]. rewrite andb_false_r, orb_false_r. reflexivity.
  - cbn [ctl_one_header]. rewrite (item_status_ok s cfg mode num Hm Hok).
    cbn [echo_hdr] in Hfit |- *.
    destruct (echo_items cap g v prefix w n hs [(idx, replace_status obj 0)]) as [w1 ok] eqn:Ee.
    destruct ok; [|discriminate Hfit].
    destruct (IH w1 (n + 1) hs (num + 1) (started || true) Hfit) as [num' E]. rewrite E.
    exists num'. cbn [nonempty]. rewrite !orb_true_r, andb_true_r. cbn [negb andb begin_if app first_error N.eqb].
    f_equal. f_equal. f_equal. f_equal.
    destruct started; cbn [negb begin_if app]; unfold item_cb; cbn [fst snd map];
      destruct mode; reflexivity.
Qed.

Lemma ctl_headers_consulted s cfg cap mode :
  o_max_controls cfg = None -> mode_ok s mode ->
  forall hdrs w num started,
  snd (echo_all cap w hdrs 0) = true ->
  ctl_headers s cfg cap mode w num started hdrs =
  (fst (echo_all cap w hdrs 0), true,
   begin_if (negb started && nonempty (hdr_cbs mode hdrs)) ++ hdr_cbs mode hdrs, 0,
   started || nonempty (hdr_cbs mode hdrs)).
Proof.
  intros Hm Hok. induction hdrs as [|h rest IH]; intros w num started Hfit.
  - cbn [ctl_headers echo_all fst hdr_cbs flat_map nonempty]. rewrite andb_false_r, orb_false_r. reflexivity.
  - assert (Hskip : (forall g v p items, h <> WCtl g v p items) ->
        snd (echo_all cap w rest 0) = true ->
        ctl_headers s cfg cap mode w num started rest =
        (fst (echo_all cap w rest 0), true,
         begin_if (negb started && nonempty (hdr_cbs mode rest)) ++ hdr_cbs mode rest, 0,
         started || nonempty (hdr_cbs mode rest))) by (intros _ Hf; apply IH; exact Hf).
    destruct h; try (cbn [ctl_headers echo_all hdr_cbs flat_map app] in *; apply Hskip; [intros; discriminate|exact Hfit]).
    clear Hskip. cbn [ctl_headers echo_all] in Hfit |- *.
    destruct (echo_hdr cap g v prefix w 0 (length w) items 0) as [w1 ok] eqn:Eh.
    destruct ok; [|discriminate Hfit].
    assert (Hf1 : snd (echo_hdr cap g v prefix w 0 (length w) items 0) = true) by (rewrite Eh; reflexivity).
    destruct (ctl_one_header_consulted s cfg cap mode g v prefix Hm Hok items w 0 (length w) num started Hf1) as [num1 E1].
    rewrite E1, Eh. cbn [fst]. rewrite (IH w1 num1 (started || nonempty items) Hfit).
    cbn [first_error N.eqb hdr_cbs flat_map]. fold (hdr_cbs mode rest).
    destruct items as [|it items].
    + cbn [nonempty map app]. rewrite andb_false_r, orb_false_r. reflexivity.
    + cbn [nonempty map app]. rewrite !orb_true_r, andb_true_r. cbn [negb andb begin_if app].
      rewrite <- app_assoc. reflexivity.
Qed.

Lemma hdr_cbs_all_cb mode hdrs : Forall (fun o => is_cb o = true) (hdr_cbs mode hdrs).
Proof.
  unfold hdr_cbs. induction hdrs as [|h rest IH]; [constructor|]. cbn [flat_map]. apply Forall_app. split; [|exact IH].
  destruct h; try constructor. induction items as [|it items IHi]; [constructor|]. constructor; [reflexivity|exact IHi].
Qed.

Lemma filter_all_cb l : Forall (fun o => is_cb o = true) l -> filter is_cb l = l.
Proof. induction l as [|x l IH]; intros H; [reflexivity|]. inversion H; subst. cbn [filter]. rewrite H2, IH; auto. Qed.

Lemma consulted_output (l : list oobs) :
  (begin_if (nonempty l) ++ l) ++ (if nonempty l then [OCb CbEndFragment] else []) = bracket l.
Proof. destruct l as [|x l]; reflexivity. Qed.

Lemma bracket_all_cb l : Forall (fun o => is_cb o = true) l -> filter is_cb (bracket l) = bracket l.
Proof.
  intros H. apply filter_all_cb. destruct l as [|x l]; [constructor|]. unfold bracket.
  constructor; [reflexivity|]. apply Forall_app. split; [exact H|repeat constructor].
Qed.

(* a new unicast non-READ request: it reaches handle_non_read exactly once in the step *)
Lemma ostep_new_nonread cfg s from bytes d ans ctl fn hdrs rh s' out :
  J s -> to_treq cfg from d = TqRequest ctl fn (ObjOk hdrs rh) -> fn <> fn_confirm -> fn <> fn_read ->
  ~ last_matches (s_last s) (ctl_seq ctl) bytes ->
  ostep cfg s (ERx from None bytes d) ans = (s', out) ->
  exists sm' s1 r oa,
    s_select sm' = s_select s /\ s_now sm' = s_now s /\ s_sel_status sm' = s_sel_status s /\
    s_op_status sm' = s_op_status s /\
    handle_non_read cfg sm' fn (ctl_seq ctl) ((s_frame_id s + 1) mod 4294967296) bytes hdrs = (s1, r, oa) /\
    filter is_cb out = filter is_cb oa /\ s_select s' = s_select s1 /\
    J s' /\ last_matches (s_last s') (ctl_seq ctl) bytes /\ s_deferred s' = None /\
    s_now s' = (s_now s + settle_ms)%Z /\ s_frame_id s' = (s_frame_id s + 1) mod 4294967296 /\
    s_sel_status s' = s_sel_status s /\ s_op_status s' = s_op_status s.
Proof.
  intros HJ Ht H0 H1 Hnl E. apply ostep_spec in E; [|exact HJ]. destruct E as [HJ' E]. cbn [step_res] in E.
  destruct E as [R1 [R2 [R3 [R4 E]]]].
  destruct E as [[_ [_ Hsk]]|[sm [s2 [o1 [o2 [o3 [Ho [Ho1 [Hmid [Hpr [Hd [Q1 [Q2 Q3]]]]]]]]]]]]].
  { exfalso. destruct Hsk as [Hsk|[ctl' [fn' [obj [Hsk [_ Hf]]]]]]; [congruence|].
    rewrite Ht in Hsk. inversion Hsk; subst. destruct Hf; contradiction. }
  destruct Hmid as [N1 [N2 [N3 [N4 [N5 [N6 N7]]]]]].
  pose proof (proc_frag_spec _ _ _ _ _ _ _ _ _ Hpr) as Hfs.
  assert (D2 : s_deferred s2 = None) by (eapply proc_nonread_deferred; eauto).
  destruct (Q3 D2) as [D3 L3].
  pose proof (fs_rec _ _ _ _ _ _ _ _ _ Hfs eq_refl ctl fn hdrs rh Ht H0 H1) as Hlm.
  apply (proc_new _ _ _ _ _ _ ctl fn hdrs rh) in Hpr; try assumption; [|congruence].
  destruct Hpr as [sm' [Hsm' [s1 [r [oa [pre [rest [Hh [Ho2 [Hpre [Hrest [Hsel Htx]]]]]]]]]]]].
  destruct (mid_variant _ _ Hsm') as [V1 [V2 [V3 [V4 V5]]]].
  exists sm', s1, r, oa.
  split; [congruence|]. split; [congruence|]. split; [congruence|]. split; [congruence|].
  split; [exact Hh|].
  split.
  { rewrite Ho, Ho2, !filter_app. rewrite (no_cb_filter _ Ho1), (no_cb_filter _ Hpre), (no_cb_filter _ Hrest), (no_cb_filter _ Q2).
    cbn [app]. rewrite !app_nil_r. reflexivity. }
  pget FSel Q1.
  split; [congruence|]. split; [exact HJ'|]. split; [rewrite L3; exact Hlm|]. split; [exact D3|].
  auto.
Qed.

(* a retransmission of the last request is answered from memory: no callback at all *)
Lemma ostep_repeat_silent cfg s from bytes d ans ctl fn obj :
  J s -> to_treq cfg from d = TqRequest ctl fn obj -> last_matches (s_last s) (ctl_seq ctl) bytes ->
  no_cb (snd (ostep cfg s (ERx from None bytes d) ans)).
Proof.
  intros HJ Ht Hl. destruct (ostep cfg s (ERx from None bytes d) ans) as [s' out] eqn:E. cbn [snd].
  apply ostep_spec in E; [|exact HJ]. destruct E as [_ E]. cbn [step_res] in E.
  destruct E as [_ [_ [_ [_ E]]]].
  destruct E as [[A _]|[sm [s2 [o1 [o2 [o3 [Ho [Ho1 [Hmid [Hpr [_ [_ [Q2 _]]]]]]]]]]]]]; [exact A|].
  destruct Hmid as [_ [_ [_ [_ [_ [N6 _]]]]]].
  apply proc_frag_spec in Hpr. rewrite <- N6 in Hl.
  pose proof (fs_rep _ _ _ _ _ _ _ _ _ Hpr eq_refl ctl fn obj Ht Hl) as Hn.
  rewrite Ho. apply no_cb_app. split; [exact Ho1|]. apply no_cb_app. split; [exact Hn|exact Q2].
Qed.

Lemma seq16_next_neq q : q < 16 -> seq16_next q <> q.
Proof. unfold seq16_next. intros H. lia. Qed.

Lemma ctl_seq_lt c : ctl_seq c < 16.
Proof. unfold ctl_seq. lia. Qed.

(* Theorem 5.  From ANY state satisfying J (every reachable state: idle, solicited or unsolicited confirm
   wait), with a handler that accepts (statuses 0), no limit on the controls per request, a request
   whose headers are all control headers and whose success echo fits the solicited buffer:
   a SELECT that is not itself a retransmission of the last request, then after `ESleep dly` with
   settle + dly <= select timeout the OPERATE with the next sequence number and byte-identical objects:
   the SELECT step's callbacks are exactly begin, one CbSelect per object in order, end; the OPERATE
   step's callbacks are exactly begin, one CbOperate .. OpSbo per object in order, end; nothing is
   called while sleeping; and a byte-identical retransmission of the OPERATE calls nothing.
   (The lower bound 0 <= settle + dly is not needed by the model.) *)
Theorem select_then_operate_once cfg s from bytes_s d_s bytes_o d_o ctl_s ctl_o hdrs rh_s rh_o dly a1 a2 a3 a4 :
  J s ->
  to_treq cfg from d_s = TqRequest ctl_s fn_select (ObjOk hdrs rh_s) ->
  to_treq cfg from d_o = TqRequest ctl_o fn_operate (ObjOk hdrs rh_o) ->
  all_controls hdrs = true ->
  objects_of bytes_o = objects_of bytes_s ->
  ctl_seq ctl_o = seq16_next (ctl_seq ctl_s) ->
  ~ last_matches (s_last s) (ctl_seq ctl_s) bytes_s ->
  s_sel_status s = 0 -> s_op_status s = 0 -> o_max_controls cfg = None ->
  snd (echo_all (o_sol_tx cfg - 4) [] hdrs 0) = true ->
  (settle_ms + dly <= o_select_ms cfg)%Z ->
  let '(s1, out1) := ostep cfg s (ERx from None bytes_s d_s) a1 in
  let '(s2, out2) := ostep cfg s1 (ESleep dly) a2 in
  let '(s3, out3) := ostep cfg s2 (ERx from None bytes_o d_o) a3 in
  let '(s4, out4) := ostep cfg s3 (ERx from None bytes_o d_o) a4 in
  filter is_cb out1 = bracket (hdr_cbs CmSelect hdrs) /\
  no_cb out2 /\
  filter is_cb out3 = bracket (hdr_cbs (CmOperate OpSbo) hdrs) /\
  no_cb out4.
Proof.
  intros HJ Hts Hto Hall Hobj Hseq Hnl Hss Hos Hmax Hfit Htime.
  destruct (ostep cfg s (ERx from None bytes_s d_s) a1) as [s1 out1] eqn:E1.
  destruct (ostep cfg s1 (ESleep dly) a2) as [s2 out2] eqn:E2.
  destruct (ostep cfg s2 (ERx from None bytes_o d_o) a3) as [s3 out3] eqn:E3.
  destruct (ostep cfg s3 (ERx from None bytes_o d_o) a4) as [s4 out4] eqn:E4.
  (* the SELECT *)
  destruct (ostep_new_nonread _ _ _ _ _ _ _ _ _ _ _ _ HJ Hts ltac:(discriminate) ltac:(discriminate) Hnl E1)
    as [sm1 [sa [ra [oa [A1 [A2 [A3 [A4 [Ah [Af [As [J1 [L1 [D1 [T1 [F1 [S1 O1]]]]]]]]]]]]]]]]].
  rewrite handle_non_read_controls in Ah by (left; reflexivity).
  rewrite handle_controls_select in Ah by exact Hall.
  rewrite (ctl_headers_consulted sm1 cfg _ CmSelect Hmax) in Ah;
    [|left; split; [reflexivity|congruence]|exact Hfit].
  cbn [andb N.eqb] in Ah. inversion Ah; subst sa ra oa. clear Ah. prj.
  (* asleep *)
  pose proof (ostep_spec _ _ _ _ _ _ J1 E2) as [J2 R2]. cbn [step_res] in R2.
  destruct R2 as [[Q1 [Q2 Q3]] T2]. destruct (Q3 D1) as [D2 L2].
  pget FFid Q1. pget FSelSt Q1. pget FOpSt Q1. pget FSel Q1.
  (* the OPERATE *)
  assert (Hnl3 : ~ last_matches (s_last s2) (ctl_seq ctl_o) bytes_o).
  { intros Hm. rewrite L2 in Hm. destruct (last_matches_inj _ _ _ _ _ L1 Hm) as [Hq _].
    rewrite Hseq in Hq. symmetry in Hq. revert Hq. apply seq16_next_neq, ctl_seq_lt. }
  destruct (ostep_new_nonread _ _ _ _ _ _ _ _ _ _ _ _ J2 Hto ltac:(discriminate) ltac:(discriminate) Hnl3 E3)
    as [sm3 [sb [rb [ob [B1 [B2 [B3 [B4 [Bh [Bf [Bs [J3 [L3 _]]]]]]]]]]]]].
  rewrite handle_non_read_controls in Bh by (right; reflexivity).
  rewrite handle_controls_operate in Bh by exact Hall.
  assert (Hv : operate_verdict cfg sm3 (ctl_seq ctl_o) ((s_frame_id s2 + 1) mod 4294967296) bytes_o = None).
  { unfold operate_verdict. rewrite B1, P2, As. apply match_operate_none.
    cbn [ss_seq ss_frame_id ss_objects ss_time].
    split; [symmetry; exact Hseq|]. split; [congruence|]. split; [symmetry; exact Hobj|]. lia. }
  rewrite Hv in Bh.
  rewrite (ctl_headers_consulted sm3 cfg _ (CmOperate OpSbo) Hmax) in Bh;
    [|right; exists OpSbo; split; [reflexivity|congruence]|exact Hfit].
  inversion Bh; subst sb rb ob. clear Bh.
  split.
  { rewrite Af. cbn [negb andb orb]. rewrite consulted_output. apply bracket_all_cb, hdr_cbs_all_cb. }
  split; [exact Q2|].
  split.
  { rewrite Bf. cbn [negb andb orb]. rewrite consulted_output. apply bracket_all_cb, hdr_cbs_all_cb. }
  (* the retransmitted OPERATE *)
  pose proof (ostep_repeat_silent cfg s3 from bytes_o d_o a4 ctl_o fn_operate _ J3 Hto L3) as Hn.
  rewrite E4 in Hn. exact Hn.
Qed.

(* the callbacks, spelled out per object *)
Definition ctl_objects (hdrs : list whdr) : list (N * N * N * list N) :=
  flat_map (fun h => match h with
                     | WCtl g v _ items => map (fun it => (g, v, fst it, snd it)) items
                     | _ => []
                     end) hdrs.

Lemma hdr_cbs_operate t hdrs :
  hdr_cbs (CmOperate t) hdrs =
  map (fun x => match x with (g, v, idx, obj) => OCb (CbOperate g v idx t obj) end) (ctl_objects hdrs).
Proof.
  unfold hdr_cbs, ctl_objects. induction hdrs as [|h rest IH]; [reflexivity|].
  cbn [flat_map]. rewrite map_app, <- IH. f_equal. destruct h; try reflexivity.
  rewrite map_map. reflexivity.
Qed.

Lemma hdr_cbs_select hdrs :
  hdr_cbs CmSelect hdrs =
  map (fun x => match x with (g, v, idx, obj) => OCb (CbSelect g v idx obj) end) (ctl_objects hdrs).
Proof.
  unfold hdr_cbs, ctl_objects. induction hdrs as [|h rest IH]; [reflexivity|].
  cbn [flat_map]. rewrite map_app, <- IH. f_equal. destruct h; try reflexivity.
  rewrite map_map. reflexivity.
Qed.
