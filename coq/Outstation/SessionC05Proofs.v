(* Outstation/SessionC05Proofs.v — property C05 over the outstation session model: a retransmitted
   request is answered from memory and never executed twice; every re-sent fragment is identical to a
   fragment transmitted before. *)
From Dnp3V Require Import Outstation.Session Outstation.SessionLemmas_c05.
Open Scope N_scope.

(* states and histories reachable from start-up; the history is the concatenation of everything observed *)
Inductive Reach (cfg : ocfg) : list oobs -> ostate -> Prop :=
| Reach_start : forall sel op iin a s o, ostart cfg sel op iin a = (s, o) -> Reach cfg o s
| Reach_step : forall h s ev ans s' o, Reach cfg h s -> ostep cfg s ev ans = (s', o) -> Reach cfg (h ++ o) s'.

Lemma reach_inv cfg h s : Reach cfg h s -> inv cfg h s.
Proof.
  induction 1 as [sel op iin a s o H|h s ev ans s' o _ IH H].
  - eapply ostart_inv; eauto.
  - eapply ostep_pres; eauto.
Qed.


(* ---------- 1. a repeated non-READ request is not executed again ------------------------------------------------------------- *)

Lemma sol_wait_fragment_repeat cfg s se dl from bytes d ctl fn obj resp :
  to_treq cfg from d = TqRequest ctl fn obj ->
  classify s None bytes ctl fn obj = FtRepeatNonRead resp ->
  sol_wait_fragment cfg s se dl from None bytes d = (SoNewRequest, [OInfo ISolNewRequest]).
Proof. intros Et Ecl. unfold sol_wait_fragment. rewrite Et, Ecl. reflexivity. Qed.


Definition next_fid (s : ostate) : N := (s_frame_id s + 1) mod 4294967296.
Definition rx_state (s : ostate) : ostate := upd_frame_id s (next_fid s).

Lemma on_rx_idle cfg s from bc bytes d :
  s_control s = CIdle ->
  on_rx cfg s from bc bytes d =
  idle_loop 8 cfg (upd_pending (rx_state s) (Some (from, bc, bytes, d, next_fid s))).
Proof. intros Hc. unfold on_rx, rx_state, next_fid. cbv zeta. psimpl. rewrite Hc. reflexivity. Qed.

Lemma on_rx_unsol cfg s from bc bytes d resp is_null retries deadline :
  s_control s = CUnsolWait resp is_null retries deadline ->
  on_rx cfg s from bc bytes d =
  let '(s1, res, o) := unsol_wait_fragment cfg (rx_state s) resp from bc bytes d (next_fid s) in
  match res with
  | None => (s1, o)
  | Some r =>
      let '(s2, ns, o2) := end_unsol cfg s1 is_null r in
      let '(s3, o3) := resume_at cfg (St3 ns) s2 in
      (s3, o ++ o2 ++ o3)
  end.
Proof. intros Hc. unfold on_rx, rx_state, next_fid. cbv zeta. psimpl. rewrite Hc. reflexivity. Qed.

Lemma on_rx_sol_new cfg s from bc bytes d se deadline r o :
  s_control s = CSolWait se deadline r ->
  sol_wait_fragment cfg (rx_state s) se deadline from bc bytes d = (SoNewRequest, o) ->
  on_rx cfg s from bc bytes d =
  let '(s2, o2) := resume_at cfg (stage_of r)
                     (upd_pending (upd_control (rx_state s) CIdle) (Some (from, bc, bytes, d, next_fid s))) in
  (s2, o ++ [ODb DbReset] ++ o2).
Proof.
  intros Hc Hw. unfold on_rx. cbv zeta. fold (next_fid s). fold (rx_state s).
  replace (s_control (rx_state s)) with (s_control s) by reflexivity. rewrite Hc, Hw. reflexivity.
Qed.

(* the observations of the step that receives the repeat, by the control state it arrives in *)
Definition repeat_prefix (c : control) (fn seq : N) (pre : list oobs) : Prop :=
  match c with
  | CIdle => pre = [OInfo (IIdleRequest fn seq)]
  | CUnsolWait _ _ _ _ => pre = []
  | CSolWait _ _ _ =>
      exists u i, pre = [OInfo ISolNewRequest; ODb DbReset] ++ u ++ i /\ forallb ustart u = true /\
                  (i = [] \/ i = [OInfo (IIdleRequest fn seq)])
  end.

Lemma resume_at_fuel cfg st s : resume_at cfg st s = idle_run (S (S (S (S (S 27))))) cfg st s.
Proof. unfold resume_at. reflexivity. Qed.

Lemma repeat_step_inv cfg h s from bytes d ans ctl fn obj resp s' o :
  inv cfg h s ->
  to_treq cfg from d = TqRequest ctl fn obj ->
  classify s None bytes ctl fn obj = FtRepeatNonRead resp ->
  ostep cfg s (ERx from None bytes d) ans = (s', o) ->
  exists pre post,
    o = pre ++ echo_of s from resp ++ post /\ forallb bg post = true /\
    repeat_prefix (s_control s) fn (ctl_seq ctl) pre.
Proof.
  intros Hinv Et Ecl H. unfold ostep in H.
  assert (Hinv0 : inv cfg h (upd_answers s ans)) by (apply inv_same with (s := s); [frame_tac | exact Hinv]).
  destruct (on_rx cfg (upd_answers s ans) from None bytes d) as [s1 o1] eqn:E1.
  destruct (advance 64 cfg s1 (s_now s1 + settle_ms)) as [s2 o2] eqn:E2. inv_pair H.
  pose proof (on_rx_pres _ _ _ _ _ _ _ _ _ E1 Hinv0) as [_ [Hp1 _]].
  apply advance_bg in E2 as [_ S2]; auto.
  remember (upd_answers s ans) as s0 eqn:Es0.
  assert (Hl0 : s_last (rx_state s0) = s_last s) by (subst s0; reflexivity).
  assert (Hb0 : s_sol_buf (rx_state s0) = s_sol_buf s) by (subst s0; reflexivity).
  assert (Hc0 : s_control s0 = s_control s) by (subst s0; reflexivity).
  assert (Hd0 : s_deferred (rx_state s0) = s_deferred s) by (subst s0; reflexivity).
  assert (EclA : forall sx, s_last sx = s_last (rx_state s0) -> classify sx None bytes ctl fn obj = FtRepeatNonRead resp).
  { intros sx X. rewrite <- Ecl. apply classify_last. congruence. }
  clear Es0 Hinv0.
  destruct (s_control s) as [|se dl r|resp0 is_null retries dl] eqn:Ec; cbn [repeat_prefix].
  - rewrite on_rx_idle in E1 by exact Hc0.
    rewrite idle_loop_8_eq, resume_at_fuel in E1.
    apply (idle_run_repeat_St1 cfg 31 _ from bytes d (next_fid s0) ctl fn obj resp) in E1
      as [_ [post [Eo B]]]; [| reflexivity | exact Et | apply EclA; reflexivity].
    subst o1. rewrite (echo_of_buf s) by exact Hb0.
    exists [OInfo (IIdleRequest fn (ctl_seq ctl))], (post ++ o2).
    split; [rewrite <- !app_assoc; reflexivity|]. split; [fb | reflexivity].
  - rewrite (on_rx_sol_new cfg s0 from None bytes d se dl r [OInfo ISolNewRequest]) in E1;
      [| exact Hc0 | apply (sol_wait_fragment_repeat _ _ _ _ _ _ _ ctl fn obj resp); [exact Et | apply EclA; reflexivity]].
    match type of E1 with context [resume_at cfg ?st ?sx] => destruct (resume_at cfg st sx) as [s3 o3] eqn:E3 end.
    inv_pair E1. rewrite resume_at_fuel in E3.
    apply (idle_run_repeat cfg 27 _ _ from bytes d (next_fid s0) ctl fn obj resp) in E3
      as [_ [u [i [post [Eo [Su [Hi B]]]]]]];
      [| destruct r; cbn [stage_of]; eauto | reflexivity | reflexivity | | exact Et | apply EclA; reflexivity].
    + subst o3. rewrite (echo_of_buf s) by exact Hb0.
      exists ([OInfo ISolNewRequest; ODb DbReset] ++ u ++ i), (post ++ o2).
      split; [cbn [app]; rewrite <- !app_assoc; reflexivity|]. split; [fb|].
      exists u, i. auto.
    + change (s_deferred (rx_state s0) = None). rewrite Hd0. destruct Hinv as [_ Hr].
      apply rest_ok_deferred_none; [exact Hr|]. intros ? ? ? ? X. rewrite Ec in X. discriminate.
  - rewrite (on_rx_unsol cfg s0 from None bytes d resp0 is_null retries dl) in E1 by exact Hc0.
    rewrite (unsol_wait_fragment_repeat cfg (rx_state s0) resp0 from bytes d (next_fid s0) ctl fn obj resp) in E1;
      [| exact Et | apply EclA; reflexivity].
    inv_pair E1. rewrite (echo_of_buf s) by exact Hb0.
    exists [], o2. auto.
Qed.

Definition quiet_step (o : list oobs) : Prop := forallb quiet o = true.

Lemma echo_quiet s from resp : forallb quiet (echo_of s from resp) = true.
Proof. destruct resp; reflexivity. Qed.

Lemma repeat_prefix_quiet c fn seq pre : repeat_prefix c fn seq pre -> forallb quiet pre = true.
Proof.
  destruct c as [|se dl r|resp n rt dl]; cbn [repeat_prefix].
  - intros ->. reflexivity.
  - intros [u [i [-> [Su Hi]]]]. cbn [app forallb quiet andb]. rewrite forallb_app.
    rewrite (forallb_imp _ _ _ bg_quiet (forallb_imp _ _ _ ustart_bg Su)).
    destruct Hi as [->| ->]; reflexivity.
  - intros ->. reflexivity.
Qed.

(* THEOREM 1.  In any reachable state, a unicast request accepted from the master and classified as
   the repetition of the non-READ request recorded last (same sequence number, identical bytes:
   classify_repeat_nonread_iff) produces:
     pre  - what the arrival itself causes before the answer: the idle-request notification; or, in a
            solicited confirm wait, the abort of the series (ISolNewRequest, database reset), whatever
            check_unsolicited then does (u: possibly a new unsolicited response), and the notification
            when the request is then taken up from idle (not when the new unsolicited wait reads it);
            nothing in the unsolicited confirm wait;
     echo - the remembered response over the unchanged solicited buffer (nothing when the request
            had no response);
     post - the idle loop and the timers going on: no callback, no RESTART clearing, no request
            taken up (bg).
   In particular no OCb and no OInfo IClearRestart occurs in the whole step. *)
Theorem repeat_not_reexecuted cfg h s from bytes d ans ctl fn obj resp s' o :
  Reach cfg h s ->
  to_treq cfg from d = TqRequest ctl fn obj ->
  classify s None bytes ctl fn obj = FtRepeatNonRead resp ->
  ostep cfg s (ERx from None bytes d) ans = (s', o) ->
  (exists pre post,
     o = pre ++ echo_of s from resp ++ post /\ forallb bg post = true /\
     repeat_prefix (s_control s) fn (ctl_seq ctl) pre) /\
  forallb quiet o = true.
Proof.
  intros HR Et Ecl H. apply reach_inv in HR.
  destruct (repeat_step_inv _ _ _ _ _ _ _ _ _ _ _ _ _ HR Et Ecl H) as [pre [post [Eo [B P]]]].
  split; [eauto|]. subst o.
  rewrite !forallb_app, (repeat_prefix_quiet _ _ _ _ P), echo_quiet, (forallb_imp _ _ _ bg_quiet B). reflexivity.
Qed.

(* ---------- 2. coherence of the remembered response ----------------------------------------------------------------------------- *)

(* THEOREM 2.  In every reachable state the remembered response, rendered over the solicited transmit
   buffer as it is now, is byte for byte a fragment transmitted earlier (to the configured master when
   only that master is listened to). *)
Theorem last_response_coherent cfg h s l r :
  Reach cfg h s -> s_last s = Some l -> lr_response l = Some r ->
  exists dest, In (OTx dest (response_bytes r (s_sol_buf s))) h /\
               (o_any_master cfg = false -> dest = o_master cfg).
Proof. intros HR Hl Hr. apply reach_inv in HR. destruct HR as [[A _] _]. exact (A _ _ Hl Hr). Qed.

(* ... and during a solicited confirm wait it is the fragment whose confirmation is awaited (the
   defect fixed by "READ repeated during a multi-fragment response" left the first fragment's header
   here while the buffer held the second fragment's objects) *)
Theorem sol_wait_remembers_awaited_fragment cfg h s se dl rs :
  Reach cfg h s -> s_control s = CSolWait se dl rs ->
  exists l r, s_last s = Some l /\ lr_response l = Some r /\
              ctl_seq (r_ctl r) = se_ecsn se mod 16 /\
              exists dest, In (OTx dest (response_bytes r (s_sol_buf s))) h /\
                           (o_any_master cfg = false -> dest = o_master cfg).
Proof.
  intros HR Hc. apply reach_inv in HR. destruct HR as [[A [_ [C _]]] _].
  destruct (C _ _ _ Hc) as [l [r [Hl [Hr Hq]]]]. exists l, r. splits; auto. exact (A _ _ Hl Hr).
Qed.

(* ---------- 3. the reply to a repeat is identical to a fragment sent before -------------------------------------------------------- *)

(* THEOREM 3a.  The answer to a repeated non-READ request (from idle, after aborting a solicited
   series, or in the unsolicited confirm wait) is a fragment already in the history, sent to the
   same station when only the configured master is listened to. *)
Theorem repeat_reply_identical cfg h s from bytes d ans ctl fn obj r s' o :
  Reach cfg h s ->
  to_treq cfg from d = TqRequest ctl fn obj ->
  classify s None bytes ctl fn obj = FtRepeatNonRead (Some r) ->
  ostep cfg s (ERx from None bytes d) ans = (s', o) ->
  let X := response_bytes r (s_sol_buf s) in
  (exists pre post, o = pre ++ OTx from X :: post /\ forallb bg post = true /\
                    repeat_prefix (s_control s) fn (ctl_seq ctl) pre) /\
  exists dest, In (OTx dest X) h /\ (o_any_master cfg = false -> dest = from).
Proof.
  intros HR Et Ecl H X. pose proof (reach_inv _ _ _ HR) as Hinv.
  destruct (repeat_step_inv _ _ _ _ _ _ _ _ _ _ _ _ _ Hinv Et Ecl H) as [pre [post [Eo [B P]]]].
  split; [exists pre, post; auto|].
  apply classify_repeat_nonread_iff in Ecl as [_ [_ [_ [l [Hl [_ [_ Hr]]]]]]].
  destruct (last_response_coherent _ _ _ _ _ HR Hl (eq_sym Hr)) as [dest [Hin Hd]].
  exists dest. split; [exact Hin|]. intros Ha. rewrite (Hd Ha). symmetry. eapply to_treq_from; eauto.
Qed.


Lemma classify_repeat_read_iff s bytes ctl fn obj resp hdrs rh :
  classify s None bytes ctl fn obj = FtRepeatRead resp hdrs rh <->
  fn = fn_read /\ obj = ObjOk hdrs rh /\
  exists l, s_last s = Some l /\ lr_seq l = ctl_seq ctl /\ lr_bytes l = bytes /\ resp = lr_response l.
Proof.
  unfold classify. split.
  - destruct (fn =? fn_confirm) eqn:E0; [destruct (ctl_uns ctl); discriminate|].
    destruct obj as [iin2|hdrs0 rh0]; [discriminate|].
    destruct (s_last s) as [l|]; [|destruct (fn =? fn_read); discriminate].
    destruct ((lr_seq l =? ctl_seq ctl) && bytes_eqb (lr_bytes l) bytes) eqn:Er;
      [|destruct (fn =? fn_read); discriminate].
    destruct (fn =? fn_read) eqn:E1; [|discriminate]. intros H. inversion H; subst.
    apply andb_true_iff in Er as [Er1 Er2]. apply N.eqb_eq in Er1. apply bytes_eqb_eq in Er2.
    apply N.eqb_eq in E1. splits; eauto 10.
  - intros [-> [-> [l [Hl [Hs [Hb ->]]]]]]. cbn [N.eqb fn_read fn_confirm Pos.eqb].
    rewrite Hl, Hs, N.eqb_refl. cbn [andb].
    destruct (bytes_eqb (lr_bytes l) bytes) eqn:E; [reflexivity|].
    exfalso. assert (X : bytes_eqb (lr_bytes l) bytes = true) by (apply bytes_eqb_eq; exact Hb). congruence.
Qed.

Lemma on_rx_sol_stay cfg s from bc bytes d se deadline r dl' o :
  s_control s = CSolWait se deadline r ->
  sol_wait_fragment cfg (rx_state s) se deadline from bc bytes d = (SoStay dl', o) ->
  on_rx cfg s from bc bytes d = (upd_control (rx_state s) (CSolWait se dl' r), o).
Proof.
  intros Hc Hw. unfold on_rx. cbv zeta. fold (next_fid s). fold (rx_state s).
  replace (s_control (rx_state s)) with (s_control s) by reflexivity. rewrite Hc, Hw. reflexivity.
Qed.

(* THEOREM 3b.  A READ repeated while a fragment of its response awaits confirmation is answered, in
   the wait, with exactly one fragment: the remembered one, which is the fragment awaiting
   confirmation and is already in the history.  The wait goes on (with a fresh deadline). *)
Theorem repeat_read_echo_identical cfg h s from bytes d ans ctl fn obj resp hdrs rh se dl rs s' o :
  Reach cfg h s ->
  s_control s = CSolWait se dl rs ->
  to_treq cfg from d = TqRequest ctl fn obj ->
  classify s None bytes ctl fn obj = FtRepeatRead resp hdrs rh ->
  ostep cfg s (ERx from None bytes d) ans = (s', o) ->
  exists r post,
    resp = Some r /\ ctl_seq (r_ctl r) = se_ecsn se mod 16 /\
    o = OTx from (response_bytes r (s_sol_buf s)) :: post /\ forallb bg post = true /\
    exists dest, In (OTx dest (response_bytes r (s_sol_buf s))) h /\ (o_any_master cfg = false -> dest = from).
Proof.
  intros HR Hc Et Ecl H.
  destruct (sol_wait_remembers_awaited_fragment _ _ _ _ _ _ HR Hc) as [l [r [Hl [Hr [Hq [dest [Hin Hd]]]]]]].
  pose proof Ecl as Ecl'.
  apply classify_repeat_read_iff in Ecl' as [_ [_ [l' [Hl' [_ [_ Hresp]]]]]].
  assert (l' = l) by congruence. subst l'. rewrite Hr in Hresp. subst resp.
  apply reach_inv in HR.
  unfold ostep in H.
  assert (Hinv0 : inv cfg h (upd_answers s ans)) by (apply inv_same with (s := s); [frame_tac | exact HR]).
  destruct (on_rx cfg (upd_answers s ans) from None bytes d) as [s1 o1] eqn:E1.
  destruct (advance 64 cfg s1 (s_now s1 + settle_ms)) as [s2 o2] eqn:E2. inv_pair H.
  pose proof (on_rx_pres _ _ _ _ _ _ _ _ _ E1 Hinv0) as [_ [Hp1 _]].
  apply advance_bg in E2 as [_ S2]; [|exact Hp1].
  rewrite (on_rx_sol_stay cfg (upd_answers s ans) from None bytes d se dl rs
             (confirm_deadline cfg (rx_state (upd_answers s ans)))
             [OTx from (response_bytes r (s_sol_buf s))]) in E1; [| exact Hc |].
  - inv_pair E1. exists r, o2. splits; auto.
    exists dest. split; [exact Hin|]. intros Ha. rewrite (Hd Ha). symmetry. eapply to_treq_from; eauto.
  - unfold sol_wait_fragment. rewrite Et.
    rewrite (classify_last s (rx_state (upd_answers s ans))) by reflexivity. rewrite Ecl. reflexivity.
Qed.

(* THEOREM 3c.  Every place where the session re-sends a fragment uses repeat_solicited with the
   remembered response, or repeat_unsolicited with the response of the current unsolicited wait: in a
   reachable state both render a fragment transmitted before. *)
Theorem resend_is_earlier_fragment cfg h s :
  Reach cfg h s ->
  (forall l r from, s_last s = Some l -> lr_response l = Some r ->
     exists b, repeat_solicited s from r = [OTx from b] /\
               exists dest, In (OTx dest b) h /\ (o_any_master cfg = false -> dest = o_master cfg)) /\
  (forall resp n rt dl, s_control s = CUnsolWait resp n rt dl ->
     exists b, repeat_unsolicited cfg s resp = [OTx (o_master cfg) b] /\ In (OTx (o_master cfg) b) h).
Proof.
  intros HR. split.
  - intros l r from Hl Hr. eexists. split; [reflexivity|]. eapply last_response_coherent; eauto.
  - intros resp n rt dl Hc. apply reach_inv in HR. destruct HR as [[_ [B _]] _].
    destruct (B _ _ _ _ Hc) as [[h1 [h2 [-> _]]] _]. eexists. split; [reflexivity|].
    apply in_or_app. right. left. reflexivity.
Qed.

(* ---------- 4. unsolicited retries ------------------------------------------------------------------------------------------------- *)

(* THEOREM 4a.  In an unsolicited confirm wait the response kept for retries, rendered over the
   unsolicited buffer as it is now, is the fragment that opened this wait: it was transmitted to the
   master immediately before the last IEnterUnsolWait of the history. *)
Theorem unsol_wait_coherent cfg h s resp n rt dl :
  Reach cfg h s -> s_control s = CUnsolWait resp n rt dl ->
  opened_by h (o_master cfg) (response_bytes resp (s_unsol_buf s)) (ctl_seq (r_ctl resp)) /\
  r_fn resp = fn_unsol_response.
Proof. intros HR Hc. apply reach_inv in HR. destruct HR as [[_ [B _]] _]. exact (B _ _ _ _ Hc). Qed.

(* THEOREM 4b.  When the confirm timeout of an unsolicited response fires and a retry is due (retries
   left, no READ deferred), exactly the fragment that opened the wait is transmitted again, and the
   wait continues with the same response over the same buffer. *)
Lemma unsol_retry_identical_inv cfg h s resp n rt dl s1 o1 :
  inv cfg h s -> s_control s = CUnsolWait resp n rt dl ->
  rt <> Some 0%nat -> s_deferred s = None ->
  fire_deadline cfg s = (s1, o1) ->
  let Y := response_bytes resp (s_unsol_buf s) in
  o1 = [OInfo (IUnsolTimeout (ctl_seq (r_ctl resp)) true); OTx (o_master cfg) Y] /\
  opened_by h (o_master cfg) Y (ctl_seq (r_ctl resp)) /\
  s_unsol_buf s1 = s_unsol_buf s /\
  exists rt' dl', s_control s1 = CUnsolWait resp n rt' dl'.
Proof.
  intros Hinv Hc Hrt Hd H Y. unfold fire_deadline in H. rewrite Hc, Hd in H.
  assert (Hcan : match rt with None => true | Some 0%nat => false | Some (S _) => true end = true).
  { destruct rt as [[|k]|]; auto. }
  rewrite Hcan in H. cbn [andb] in H. inv_pair H.
  destruct Hinv as [[_ [B _]] _]. destruct (B _ _ _ _ Hc) as [B1 _].
  splits; auto. psimpl. eauto.
Qed.

Theorem unsol_retry_identical cfg h s resp n rt dl t s1 o1 :
  Reach cfg h s -> s_control s = CUnsolWait resp n rt dl ->
  rt <> Some 0%nat -> s_deferred s = None ->
  fire_deadline cfg (upd_now s t) = (s1, o1) ->
  let Y := response_bytes resp (s_unsol_buf s) in
  o1 = [OInfo (IUnsolTimeout (ctl_seq (r_ctl resp)) true); OTx (o_master cfg) Y] /\
  opened_by h (o_master cfg) Y (ctl_seq (r_ctl resp)) /\
  s_unsol_buf s1 = s_unsol_buf s /\
  exists rt' dl', s_control s1 = CUnsolWait resp n rt' dl'.
Proof.
  intros HR Hc Hrt Hd H. apply reach_inv in HR.
  apply (unsol_retry_identical_inv cfg h (upd_now s t) resp n rt dl s1 o1); try assumption.
  all: try (apply inv_upd_now; exact HR).
Qed.

(* THEOREM 4c.  Over the whole observable history: every retry mark (IUnsolTimeout q true) is
   immediately followed by a transmission, and that transmission is byte for byte (and to the same
   station) the one that opened the unsolicited confirm wait then current - the OTx right before the
   last IEnterUnsolWait preceding the mark, which announced the same sequence number q.  This covers
   every retry, also several within one step. *)
Theorem all_retries_identical cfg h s :
  Reach cfg h s ->
  forall h1 q rest, h = h1 ++ OInfo (IUnsolTimeout q true) :: rest ->
    exists dest b h2, rest = OTx dest b :: h2 /\ opened_by h1 dest b q.
Proof.
  intros HR. change (retries_identical h).
  induction HR as [sel op iin a s o H|h s ev ans s' o HR IH H].
  - eapply ostart_retries; eauto.
  - eapply ostep_retries; eauto. apply reach_inv. exact HR.
Qed.

(* ---------- running a concrete history (for examples) ------------------------------------------------------------------------------- *)

Fixpoint orun_st (cfg : ocfg) (s : ostate) (h : list oobs) (evs : list (oevent * list answer))
  : ostate * list oobs :=
  match evs with
  | [] => (s, h)
  | (ev, ans) :: rest => let '(s1, o) := ostep cfg s ev ans in orun_st cfg s1 (h ++ o) rest
  end.

Lemma orun_st_reach cfg evs : forall s h s' h',
  Reach cfg h s -> orun_st cfg s h evs = (s', h') -> Reach cfg h' s'.
Proof.
  induction evs as [|[ev ans] rest IH]; intros s h s' h' HR H; cbn [orun_st] in H.
  - inv_pair H. exact HR.
  - destruct (ostep cfg s ev ans) as [s1 o] eqn:E. eapply IH; [|exact H]. eapply Reach_step; eauto.
Qed.

(* the state and history after start-up and a list of events *)
Definition run_from_start (cfg : ocfg) (sel op iin : N) (a0 : list answer) (evs : list (oevent * list answer))
  : ostate * list oobs :=
  let '(s, o) := ostart cfg sel op iin a0 in orun_st cfg s o evs.

Lemma run_from_start_reach cfg sel op iin a0 evs s h :
  run_from_start cfg sel op iin a0 evs = (s, h) -> Reach cfg h s.
Proof.
  unfold run_from_start. destruct (ostart cfg sel op iin a0) as [s0 o0] eqn:E. intros H.
  eapply orun_st_reach; [|exact H]. eapply Reach_start; eauto.
Qed.
