(* Outstation/SessionC05Proofs.v — property C05 over the outstation session model: a retransmitted
   request is answered from memory and never executed twice; every re-sent fragment is identical to a
   fragment transmitted before. *)
From Dnp3V Require Import Outstation.Session Outstation.SessionLemmas_c05.
Open Scope N_scope.

(* states and histories reachable from start-up; the history is the concatenation of everything observed *)
Inductive Reach (cfg : ocfg) : list oobs -> ostate -> Prop :=
| Reach_start : forall sel op iin a s o, ostart cfg sel op iin a = (s, o) -> Reach cfg o s
| Reach_step : forall h s ev ans s' o, Reach cfg h s -> ostep cfg s ev ans = (s', o) -> Reach cfg (h ++ o) s'.

Lemma reach_inv cfg h s : Reach cfg h s -> inv cfg h s.
Proof.
  induction 1 as [sel op iin a s o H|h s ev ans s' o _ IH H].
  - eapply ostart_inv; eauto.
  - eapply ostep_pres; eauto.
Qed.


(* ---------- 1. a repeated non-READ request is not executed again ------------------------------------------------------------- *)

Lemma sol_wait_fragment_repeat cfg s se dl from bytes d ctl fn obj resp :
  to_treq cfg from d = TqRequest ctl fn obj ->
  classify s None bytes ctl fn obj = FtRepeatNonRead resp ->
  sol_wait_fragment cfg s se dl from None bytes d = (SoNewRequest, [OInfo ISolNewRequest]).
Proof. intros Et Ecl. unfold sol_wait_fragment. rewrite Et, Ecl. reflexivity. Qed.


Definition next_fid (s : ostate) : N := (s_frame_id s + 1) mod 4294967296.
Definition rx_state (s : ostate) : ostate := upd_frame_id s (next_fid s).

Lemma on_rx_idle cfg s from bc bytes d :
  s_control s = CIdle ->
  on_rx cfg s from bc bytes d =
  idle_loop 8 cfg (upd_pending (rx_state s) (Some (from, bc, bytes, d, next_fid s))).
Proof. intros Hc. unfold on_rx, rx_state, next_fid. cbv zeta. psimpl. rewrite Hc. reflexivity. Qed.

Lemma on_rx_unsol cfg s from bc bytes d resp is_null retries deadline :
  s_control s = CUnsolWait resp is_null retries deadline ->
  on_rx cfg s from bc bytes d =
  let '(s1, res, o) := unsol_wait_fragment cfg (rx_state s) resp from bc bytes d (next_fid s) in
  match res with
  | None => (s1, o)
  | Some r =>
      let '(s2, ns, o2) := end_unsol cfg s1 is_null r in
      let '(s3, o3) := resume_at cfg (St3 ns) s2 in
      (s3, o ++ o2 ++ o3)
  end.
Proof. intros Hc. unfold on_rx, rx_state, next_fid. cbv zeta. psimpl. rewrite Hc. reflexivity. Qed.

Lemma on_rx_sol_new cfg s from bc bytes d se deadline r o :
  s_control s = CSolWait se deadline r ->
  sol_wait_fragment cfg (rx_state s) se deadline from bc bytes d = (SoNewRequest, o) ->
  on_rx cfg s from bc bytes d =
  let '(s2, o2) := resume_at cfg (stage_of r)
                     (upd_pending (upd_control (rx_state s) CIdle) (Some (from, bc, bytes, d, next_fid s))) in
  (s2, o ++ [ODb DbReset] ++ o2).
Proof.
  intros Hc Hw. unfold on_rx. cbv zeta. fold (next_fid s). fold (rx_state s).
  replace (s_control (rx_state s)) with (s_control s) by reflexivity. rewrite Hc, Hw. reflexivity.
Qed.

(* the observations of the step that receives the repeat, by the control state it arrives in *)
Definition repeat_prefix (c : control) (fn seq : N) (pre : list oobs) : Prop :=
  match c with
  | CIdle => pre = [OInfo (IIdleRequest fn seq)]
  | CUnsolWait _ _ _ _ => pre = []
  | CSolWait _ _ _ =>
      exists u i, pre = [OInfo ISolNewRequest; ODb DbReset] ++ u ++ i /\ forallb ustart u = true /\
                  (i = [] \/ i = [OInfo (IIdleRequest fn seq)])
  end.

Lemma resume_at_fuel cfg st s : resume_at cfg st s = idle_run (S (S (S (S (S 27))))) cfg st s.
Proof. unfold resume_at. reflexivity. Qed.

Lemma repeat_step_inv cfg h s from bytes d ans ctl fn obj resp s' o :
  inv cfg h s ->
  to_treq cfg from d = TqRequest ctl fn obj ->
  classify s None bytes ctl fn obj = FtRepeatNonRead resp ->
  ostep cfg s (ERx from None bytes d) ans = (s', o) ->
  exists pre post,
    o = pre ++ echo_of s from resp ++ post /\ forallb bg post = true /\
    repeat_prefix (s_control s) fn (ctl_seq ctl) pre.
Proof.
  intros Hinv Et Ecl H. unfold ostep in H.
  assert (Hinv0 : inv cfg h (upd_answers s ans)) by (apply inv_same with (s := s); [frame_tac | exact Hinv]).
  destruct (on_rx cfg (upd_answers s ans) from None bytes d) as [s1 o1] eqn:E1.
  destruct (advance 64 cfg s1 (s_now s1 + settle_ms)) as [s2 o2] eqn:E2. inv_pair H.
  pose proof (on_rx_pres _ _ _ _ _ _ _ _ _ E1 Hinv0) as [_ [Hp1 _]].
  apply advance_bg in E2 as [_ S2]; auto.
  remember (upd_answers s ans) as s0 eqn:Es0.
  assert (Hl0 : s_last (rx_state s0) = s_last s) by (subst s0; reflexivity).
  assert (Hb0 : s_sol_buf (rx_state s0) = s_sol_buf s) by (subst s0; reflexivity).
  assert (Hc0 : s_control s0 = s_control s) by (subst s0; reflexivity).
  assert (Hd0 : s_deferred (rx_state s0) = s_deferred s) by (subst s0; reflexivity).
  assert (EclA : forall sx, s_last sx = s_last (rx_state s0) -> classify sx None bytes ctl fn obj = FtRepeatNonRead resp).
  { intros sx X. rewrite <- Ecl. apply classify_last. congruence. }
  clear Es0 Hinv0.
  destruct (s_control s) as [|se dl r|resp0 is_null retries dl] eqn:Ec; cbn [repeat_prefix].
  - rewrite on_rx_idle in E1 by exact Hc0.
    rewrite idle_loop_8_eq, resume_at_fuel in E1.
    apply (idle_run_repeat_St1 cfg 31 _ from bytes d (next_fid s0) ctl fn obj resp) in E1
      as [_ [post [Eo B]]]; [| reflexivity | exact Et | apply EclA; reflexivity].
    subst o1. rewrite (echo_of_buf s) by exact Hb0.
    exists [OInfo (IIdleRequest fn (ctl_seq ctl))], (post ++ o2).
    split; [rewrite <- !app_assoc; reflexivity|]. split; [fb | reflexivity].
  - rewrite (on_rx_sol_new cfg s0 from None bytes d se dl r [OInfo ISolNewRequest]) in E1;
      [| exact Hc0 | apply (sol_wait_fragment_repeat _ _ _ _ _ _ _ ctl fn obj resp); [exact Et | apply EclA; reflexivity]].
    match type of E1 with context [resume_at cfg ?st ?sx] => destruct (resume_at cfg st sx) as [s3 o3] eqn:E3 end.
    inv_pair E1. rewrite resume_at_fuel in E3.
    apply (idle_run_repeat cfg 27 _ _ from bytes d (next_fid s0) ctl fn obj resp) in E3
      as [_ [u [i [post [Eo [Su [Hi B]]]]]]];
      [| destruct r; cbn [stage_of]; eauto | reflexivity | reflexivity | | exact Et | apply EclA; reflexivity].
    + subst o3. rewrite (echo_of_buf s) by exact Hb0.
      exists ([OInfo ISolNewRequest; ODb DbReset] ++ u ++ i), (post ++ o2).
      split; [cbn [app]; rewrite <- !app_assoc; reflexivity|]. split; [fb|].
      exists u, i. auto.
    + change (s_deferred (rx_state s0) = None). rewrite Hd0. destruct Hinv as [_ Hr].
      apply rest_ok_deferred_none; [exact Hr|]. intros ? ? ? ? X. rewrite Ec in X. discriminate.
  - rewrite (on_rx_unsol cfg s0 from None bytes d resp0 is_null retries dl) in E1 by exact Hc0.
    rewrite (unsol_wait_fragment_repeat cfg (rx_state s0) resp0 from bytes d (next_fid s0) ctl fn obj resp) in E1;
      [| exact Et | apply EclA; reflexivity].
    inv_pair E1. rewrite (echo_of_buf s) by exact Hb0.
    exists [], o2. auto.
Qed.

Definition quiet_step (o : list oobs) : Prop := forallb quiet o = true.

Lemma echo_quiet s from resp : forallb quiet (echo_of s from resp) = true.
Proof. destruct resp; reflexivity. Qed.

Lemma repeat_prefix_quiet c fn seq pre : repeat_prefix c fn seq pre -> forallb quiet pre = true.
Proof.
  destruct c as [|se dl r|resp n rt dl]; cbn [repeat_prefix].
  - intros ->. reflexivity.
  - intros [u [i [-> [Su Hi]]]]. cbn [app forallb quiet andb]. rewrite forallb_app.
    rewrite (forallb_imp _ _ _ bg_quiet (forallb_imp _ _ _ ustart_bg Su)).
    destruct Hi as [->| ->]; reflexivity.
  - intros ->. reflexivity.
Qed.

(* THEOREM 1.  In any reachable state, a unicast request accepted from the master and classified as
   the repetition of the non-READ request recorded last (same sequence number, identical bytes:
   classify_repeat_nonread_iff) produces:
     pre  - what the arrival itself causes before the answer: the idle-request notification; or, in a
            solicited confirm wait, the abort of the series (ISolNewRequest, database reset), whatever
            check_unsolicited then does (u: possibly a new unsolicited response), and the notification
            when the request is then taken up from idle (not when the new unsolicited wait reads it);
            nothing in the unsolicited confirm wait;
     echo - the remembered response over the unchanged solicited buffer (nothing when the request
            had no response);
     post - the idle loop and the timers going on: no callback, no RESTART clearing, no request
            taken up (bg).
   In particular no OCb and no OInfo IClearRestart occurs in the whole step. *)
Theorem repeat_not_reexecuted cfg h s from bytes d ans ctl fn obj resp s' o :
  Reach cfg h s ->
  to_treq cfg from d = TqRequest ctl fn obj ->
  classify s None bytes ctl fn obj = FtRepeatNonRead resp ->
  ostep cfg s (ERx from None bytes d) ans = (s', o) ->
  (exists pre post,
     o = pre ++ echo_of s from resp ++ post /\ forallb bg post = true /\
     repeat_prefix (s_control s) fn (ctl_seq ctl) pre) /\
  forallb quiet o = true.
Proof.
  intros HR Et Ecl H. apply reach_inv in HR.
  destruct (repeat_step_inv _ _ _ _ _ _ _ _ _ _ _ _ _ HR Et Ecl H) as [pre [post [Eo [B P]]]].
  split; [eauto|]. subst o.
  rewrite !forallb_app, (repeat_prefix_quiet _ _ _ _ P), echo_quiet, (forallb_imp _ _ _ bg_quiet B). reflexivity.
Qed.

(* ---------- 2. coherence of the remembered response ----------------------------------------------------------------------------- *)

(* THEOREM 2.  In every reachable state the remembered response, rendered over the solicited transmit
   buffer as it is now, is byte for byte a fragment transmitted earlier (to the configured master when
   only that master is listened to). *)
Theorem last_response_coherent cfg h s l r :
  Reach cfg h s -> s_last s = Some l -> lr_response l = Some r ->
  exists dest, In (OTx dest (response_bytes r (s_sol_buf s))) h /\
               (o_any_master cfg = false -> dest = o_master cfg).
Proof. intros HR Hl Hr. apply reach_inv in HR. destruct HR as [[A _] _]. exact (A _ _ Hl Hr). Qed.

(* ... and during a solicited confirm wait it is the fragment whose confirmation is awaited (the
   defect fixed by "READ repeated during a multi-fragment response" left the first fragment's header
   here while the buffer held the second fragment's objects) *)
Theorem sol_wait_remembers_awaited_fragment cfg h s se dl rs :
  Reach cfg h s -> s_control s = CSolWait se dl rs ->
  exists l r, s_last s = Some l /\ lr_response l = Some r /\
              ctl_seq (r_ctl r) = se_ecsn se mod 16 /\
              exists dest, In (OTx dest (response_bytes r (s_sol_buf s))) h /\
                           (o_any_master cfg = false -> dest = o_master cfg).
Proof.
  intros HR Hc. apply reach_inv in HR. destruct HR as [[A [_ [C _]]] _].
  destruct (C _ _ _ Hc) as [l [r [Hl [Hr Hq]]]]. exists l, r. splits; auto. exact (A _ _ Hl Hr).
Qed.

(* ---------- 3. the reply to a repeat is identical to a fragment sent before -------------------------------------------------------- *)

(* THEOREM 3a.  The answer to a repeated non-READ request (from idle, after aborting a solicited
   series, or in the unsolicited confirm wait) is a fragment already in the history, sent to the
   same station when only the configured master is listened to. *)
Theorem repeat_reply_identical cfg h s from bytes d ans ctl fn obj r s' o :
  Reach cfg h s ->
  to_treq cfg from d = TqRequest ctl fn obj ->
  classify s None bytes ctl fn obj = FtRepeatNonRead (Some r) ->
  ostep cfg s (ERx from None bytes d) ans = (s', o) ->
  let X := response_bytes r (s_sol_buf s) in
  (exists pre post, o = pre ++ OTx from X :: post /\ forallb bg post = true /\
                    repeat_prefix (s_control s) fn (ctl_seq ctl) pre) /\
  exists dest, In (OTx dest X) h /\ (o_any_master cfg = false -> dest = from).
Proof.
  intros HR Et Ecl H X. pose proof (reach_inv _ _ _ HR) as Hinv.
  destruct (repeat_step_inv _ _ _ _ _ _ _ _ _ _ _ _ _ Hinv Et Ecl H) as [pre [post [Eo [B P]]]].
  split; [exists pre, post; auto|].
  apply classify_repeat_nonread_iff in Ecl as [_ [_ [_ [l [Hl [_ [_ Hr]]]]]]].
  destruct (last_response_coherent _ _ _ _ _ HR Hl (eq_sym Hr)) as [dest [Hin Hd]].
  exists dest. split; [exact Hin|]. intros Ha. rewrite (Hd Ha). symmetry. eapply to_treq_from; eauto.
Qed.
