(* Outstation/SessionC05Proofs.v — property C05 over the outstation session model: a retransmitted
   request is answered from memory and never executed twice; every re-sent fragment is identical to a
   fragment transmitted before. *)
From Dnp3V Require Import Outstation.Session Outstation.SessionLemmas_c05.
Open Scope N_scope.

(* states and histories reachable from start-up; the history is the concatenation of everything observed *)
Inductive Reach (cfg : ocfg) : list oobs -> ostate -> Prop :=
| Reach_start : forall sel op iin a s o, ostart cfg sel op iin a = (s, o) -> Reach cfg o s
| Reach_step : forall h s ev ans s' o, Reach cfg h s -> ostep cfg s ev ans = (s', o) -> Reach cfg (h ++ o) s'.

Lemma reach_inv cfg h s : Reach cfg h s -> inv cfg h s.
Proof.
  induction 1 as [sel op iin a s o H|h s ev ans s' o _ IH H].
  - eapply ostart_inv; eauto.
  - eapply ostep_pres; eauto.
Qed.
