(* Outstation/SessionC03Proofs.v — property C03 (no event is lost, invented, or released before a confirmed
   response carried it), the part that lives in the session: WHEN the session tells the database to release
   the written events (clear_written_events), to offer them again (reset), and to write more of them.

   Proved over the session model Outstation/Session.v for all configurations, all states reachable from
   start-up (through `boundary_inv`: between two steps the reader holds no fragment and a deferred READ exists
   only in the unsolicited confirm wait), all events and all answers of the environment; then composed with the
   database model (Outstation/Full.v: `fevent_out`, `fstep`) for the event ids that leave the buffer.

   1. release_only_on_awaited_confirm   clear_written_events is called at most once per step, as the second
                                        observation, directly after the information callback of the CONFIRM the
                                        session was waiting for (UNS bit and sequence number match)
   2. abandoned_solicited_wait_resets   ISolTimeout / ISolNewRequest are directly followed by the reset;
      disconnect_resets, outstanding_step / outstanding_time  (every way out of a wait: clear or reset first)
   3. one_response_outstanding          while a response is outstanding no select / write call is made before
                                        the clear or the reset that ends the wait; wait_persists
   4. fevent_release / fstep_release    composed: the ids in the event buffer after a step are the ids before
                                        it, minus - only when the step's event is the awaited CONFIRM - exactly
                                        those Written at that moment; overflow only in the user's transaction *)
From Dnp3V Require Import Outstation.Session Outstation.SessionLemmas_c04 Outstation.SessionLemmas_c03.
Import ListNotations.
Open Scope N_scope.

(* ---------- reachable states ------------------------------------------------------------------------------ *)

Inductive Reach (cfg : ocfg) : ostate -> Prop :=
| Reach_start : forall sel op iin a0, Reach cfg (fst (ostart cfg sel op iin a0))
| Reach_step : forall s ev ans, Reach cfg s -> Reach cfg (fst (ostep cfg s ev ans)).

Fixpoint ofinal (cfg : ocfg) (s : ostate) (evs : list (oevent * list answer)) : ostate :=
  match evs with
  | [] => s
  | (ev, ans) :: rest => ofinal cfg (fst (ostep cfg s ev ans)) rest
  end.

Lemma Reach_ofinal cfg evs : forall s, Reach cfg s -> Reach cfg (ofinal cfg s evs).
Proof.
  induction evs as [|[ev ans] rest IH]; intros s H; cbn [ofinal]; [exact H|]. apply IH. constructor. exact H.
Qed.

(* between two steps the reader holds no fragment, and a deferred READ exists only while an unsolicited
   response awaits its confirmation (SessionLemmas_c04.J) *)
Definition boundary_inv (s : ostate) : Prop := J s.

Theorem boundary_inv_start cfg sel op iin a0 : boundary_inv (fst (ostart cfg sel op iin a0)).
Proof.
  unfold boundary_inv, ostart.
  destruct (idle_loop 8 cfg (upd_answers (ostate_init cfg sel op iin) a0)) as [s' o] eqn:E.
  apply idle_loop_spec in E; [apply E|split; reflexivity|reflexivity].
Qed.

Theorem boundary_inv_step cfg s ev ans : boundary_inv s -> boundary_inv (fst (ostep cfg s ev ans)).
Proof.
  unfold boundary_inv. intros HJ. destruct (ostep cfg s ev ans) as [s' o] eqn:E.
  apply ostep_spec in E; [apply E|exact HJ].
Qed.

Theorem reach_boundary_inv cfg s : Reach cfg s -> boundary_inv s.
Proof. induction 1; [apply boundary_inv_start|apply boundary_inv_step; assumption]. Qed.

(* ---------- concrete histories for the non-vacuity examples ---------------------------------------------- *)

Definition ex_cfg (unsol : bool) : ocfg :=
  {| o_master := 1; o_any_master := false; o_unsol := unsol; o_broadcast := true; o_confirm_ms := 5000;
     o_select_ms := 5000; o_retries := Some 1%nat; o_retry_delay_ms := 1000; o_max_controls := None; o_sol_tx := 249;
     o_delay_ms := 0; o_cold := None; o_warm := None; o_wtime := 0; o_freeze := 0 |}.

Definition ev0 : answer := AEvinfo false false false false.
Definition ev1 : answer := AEvinfo true false false false.
Definition ex_st0 (unsol : bool) : ostate := fst (ostart (ex_cfg unsol) 0 0 0 [ev0]).
Definition ex_run (unsol : bool) (evs : list (oevent * list answer)) : ostate :=
  ofinal (ex_cfg unsol) (ex_st0 unsol) evs.

Lemma ex_run_reach unsol evs : Reach (ex_cfg unsol) (ex_run unsol evs).
Proof. apply Reach_ofinal. apply Reach_start. Qed.

(* one binary input event, g2v1 index 7 *)
Definition ex_body (i : N) : list N := [2; 1; 40; 1; 0; i; 0; 129].
(* READ class 1 from master 1, sequence q; the database selects, writes one event (all / not all fitted) *)
Definition ex_read (q : N) : oevent := ERx 1 None [192 + q; 1; 60; 2; 6] (DOk (192 + q) 1 RvOk (ObjOk [WCls 1] [true])).
Definition ex_read_ans (complete : bool) : list answer := [AIin2 0; AWrite complete true (ex_body 7); ev0].
Definition ex_confirm (uns : bool) (q : N) : oevent :=
  ERx 1 None [192 + (if uns then 16 else 0) + q; 0] (DOk (192 + (if uns then 16 else 0) + q) 0 RvOk (ObjOk [] [])).
(* RECORD_CURRENT_TIME, ENABLE / DISABLE_UNSOLICITED class 1 *)
Definition ex_req (q : N) : oevent := ERx 1 None [192 + q; 24] (DOk (192 + q) 24 RvOk (ObjOk [] [])).
Definition ex_enable (q : N) : oevent := ERx 1 None [192 + q; 20; 60; 2; 6] (DOk (192 + q) 20 RvOk (ObjOk [WCls 1] [true])).
Definition ex_disable (q : N) : oevent := ERx 1 None [192 + q; 21; 60; 2; 6] (DOk (192 + q) 21 RvOk (ObjOk [WCls 1] [true])).
Definition ex_disable_bc : oevent := ERx 1 (Some BOptional) [192; 21; 60; 2; 6] (DOk 192 21 RvOk (ObjOk [WCls 1] [true])).

(* a solicited response carrying an event awaits its CONFIRM (sequence 3): single fragment / first of several *)
Definition ex_sw : ostate := ex_run false [(ex_read 3, ex_read_ans true)].
Definition ex_sw2 : ostate := ex_run false [(ex_read 3, ex_read_ans false)].
(* unsolicited: null response confirmed, class 1 enabled, one event written into an unsolicited response
   (sequence 1) that awaits its CONFIRM *)
Definition ex_uhist : list (oevent * list answer) :=
  [(ex_confirm true 0, []); (ex_enable 1, [ev0]); (EDbChange, [AUnsol 1 (ex_body 7); ev0])].
Definition ex_uw : ostate := ex_run true ex_uhist.

Definition ex_out (unsol : bool) (s : ostate) (ev : oevent) (ans : list answer) : list oobs :=
  snd (ostep (ex_cfg unsol) s ev ans).

Example ex_states :
  s_control ex_sw = CSolWait {| se_ecsn := 3; se_fin := true |} 5000 RStep2 /\
  s_control ex_sw2 = CSolWait {| se_ecsn := 3; se_fin := false |} 5000 RStep2 /\
  s_control ex_uw = CUnsolWait {| r_ctl := 241; r_fn := 130; r_iin1 := 128; r_iin2 := 0; r_size := 12 |} false (Some 1%nat) 5002 /\
  waiting ex_sw = true /\ waiting ex_sw2 = true /\ waiting ex_uw = true /\ waiting (ex_st0 true) = false /\
  ex_out true (ex_run true (firstn 2 ex_uhist)) EDbChange [AUnsol 1 (ex_body 7); ev0]
  = [ODb (DbWriteUnsol true false false); ODb DbEvinfo; OTx 1 [241; 130; 128; 0; 2; 1; 40; 1; 0; 7; 0; 129];
     OInfo (IEnterUnsolWait 1)].
Proof. vm_compute. repeat split. Qed.

(* ---------- 1. release only on the awaited CONFIRM ----------------------------------------------------------- *)

Definition accepted (cfg : ocfg) (from : N) : Prop := o_any_master cfg = true \/ from = o_master cfg.

(* the event is a unicast CONFIRM from an accepted master whose UNS bit and sequence number are the ones the
   session is waiting for: the expected sequence number of the solicited series, or the sequence number of
   the outstanding unsolicited response (not the start-up null response, which carries no events);
   i is the information callback the session then makes *)
Definition awaited_confirm (cfg : ocfg) (s : ostate) (ev : oevent) (i : infocb) : Prop :=
  exists from bytes ctl obj,
    ev = ERx from None bytes (DOk ctl fn_confirm RvOk obj) /\ accepted cfg from /\
    ((exists se dl r, s_control s = CSolWait se dl r /\ ctl_uns ctl = false /\ ctl_seq ctl = se_ecsn se /\
                      i = ISolConfirmed (se_ecsn se)) \/
     (exists resp rt dl, s_control s = CUnsolWait resp false rt dl /\ ctl_uns ctl = true /\
                         ctl_seq ctl = ctl_seq (r_ctl resp) /\ i = IUnsolConfirmed (ctl_seq (r_ctl resp)))).

Lemma to_treq_request_iff cfg from d ctl fn obj :
  to_treq cfg from d = TqRequest ctl fn obj <-> d = DOk ctl fn RvOk obj /\ accepted cfg from.
Proof.
  unfold to_treq, accepted. destruct (o_any_master cfg); cbn [negb andb].
  - destruct d as [| |c f [|] ob]; split; try (intros H; discriminate H); try (intros [H _]; discriminate H).
    + intros H; inv_pair H. split; [reflexivity|left; reflexivity].
    + intros [H _]; inv_pair H. reflexivity.
  - destruct (from =? o_master cfg) eqn:E; cbn [negb].
    + apply N.eqb_eq in E.
      destruct d as [| |c f [|] ob]; split; try (intros H; discriminate H); try (intros [H _]; discriminate H).
      * intros H; inv_pair H. split; [reflexivity|right; reflexivity].
      * intros [H _]; inv_pair H. reflexivity.
    + apply N.eqb_neq in E. split; [intros H; discriminate H|]. intros [_ [H|H]]; [discriminate H|contradiction].
Qed.

Theorem releasing_spec cfg s ev i : releasing cfg s ev = Some i <-> awaited_confirm cfg s ev i.
Proof.
  unfold releasing, awaited_confirm. split.
  - destruct ev as [from bc bytes d|ms| |sel op|v|]; try discriminate.
    destruct (s_control s) as [|se dl r|resp [|] rt dl] eqn:Ec; try discriminate.
    + unfold sol_conf. destruct bc as [m|]; [discriminate|].
      destruct (to_treq cfg from d) as [|q|ctl fn obj] eqn:Et; try discriminate.
      apply to_treq_request_iff in Et. destruct Et as [-> Ha].
      destruct (fn =? fn_confirm) eqn:Ef; [|discriminate]. apply N.eqb_eq in Ef. subst fn.
      destruct (ctl_uns ctl) eqn:Eu; [discriminate|].
      destruct (ctl_seq ctl =? se_ecsn se) eqn:Eq; [|discriminate]. apply N.eqb_eq in Eq.
      cbn. intros H; inv_pair H. exists from, bytes, ctl, obj. split; [reflexivity|]. split; [exact Ha|].
      left. exists se, dl, r. auto.
    + unfold uconf_seq. destruct bc as [m|]; [discriminate|].
      destruct (to_treq cfg from d) as [|q|ctl fn obj] eqn:Et; try discriminate.
      apply to_treq_request_iff in Et. destruct Et as [-> Ha].
      destruct (fn =? fn_confirm) eqn:Ef; [|discriminate]. apply N.eqb_eq in Ef. subst fn.
      destruct (ctl_uns ctl) eqn:Eu; [|discriminate]. cbn [andb].
      destruct (ctl_seq ctl =? ctl_seq (r_ctl resp)) eqn:Eq; [|discriminate]. apply N.eqb_eq in Eq.
      intros H; inv_pair H. exists from, bytes, ctl, obj. split; [reflexivity|]. split; [exact Ha|].
      right. exists resp, rt, dl. rewrite Eq. auto.
  - intros (from & bytes & ctl & obj & -> & Ha & [(se & dl & r & Ec & Eu & Eq & ->)|(resp & rt & dl & Ec & Eu & Eq & ->)]).
    + rewrite Ec. unfold sol_conf.
      rewrite (proj2 (to_treq_request_iff cfg from _ ctl fn_confirm obj) (conj eq_refl Ha)).
      rewrite Eu, Eq, !N.eqb_refl. reflexivity.
    + rewrite Ec. unfold uconf_seq.
      rewrite (proj2 (to_treq_request_iff cfg from _ ctl fn_confirm obj) (conj eq_refl Ha)).
      rewrite Eu, Eq, !N.eqb_refl. cbn [andb]. rewrite N.eqb_refl. reflexivity.
Qed.

(* THEOREM 1.  In the output of any step from any reachable state, under any answers of the database:
   if the event is the awaited CONFIRM, the output is the information callback, then clear_written_events,
   and nothing after it releases again; for any other event clear_written_events is not called at all. *)
Theorem release_only_on_awaited_confirm : forall cfg s ev ans s' out,
  Reach cfg s -> ostep cfg s ev ans = (s', out) ->
  (forall i, awaited_confirm cfg s ev i ->
     exists rest, out = OInfo i :: ODb DbClearWritten :: rest /\ Forall nc rest) /\
  ((forall i, ~ awaited_confirm cfg s ev i) -> Forall nc out).
Proof.
  intros cfg s ev ans s' out HR H. apply reach_boundary_inv in HR.
  pose proof (ostep_release cfg s ev ans s' out HR H) as R. unfold release_only in R. split.
  - intros i Hi. apply releasing_spec in Hi. rewrite Hi in R. exact R.
  - intros Hn. destruct (releasing cfg s ev) as [i|] eqn:E; [|exact R].
    exfalso. apply (Hn i). apply releasing_spec. exact E.
Qed.

(* the same, read from the output: wherever clear_written_events appears *)
Corollary clear_written_position : forall cfg s ev ans s' out pre post,
  Reach cfg s -> ostep cfg s ev ans = (s', out) -> out = pre ++ ODb DbClearWritten :: post ->
  exists i, awaited_confirm cfg s ev i /\ pre = [OInfo i] /\ Forall nc post.
Proof.
  intros cfg s ev ans s' out pre post HR H Ho. apply reach_boundary_inv in HR.
  pose proof (ostep_release cfg s ev ans s' out HR H) as R. unfold release_only in R.
  destruct (releasing cfg s ev) as [i|] eqn:E.
  - destruct R as (rest & E1 & Hr). exists i. split; [apply releasing_spec; exact E|].
    rewrite E1 in Ho.
    destruct pre as [|x [|y pre]]; cbn in Ho.
    + discriminate Ho.
    + inversion Ho; subst. split; [reflexivity|exact Hr].
    + exfalso. inversion Ho; subst. rewrite Forall_forall in Hr.
      apply (Hr (ODb DbClearWritten)). apply in_or_app. right. left. reflexivity.
  - exfalso. subst out. rewrite Forall_forall in R. apply (R (ODb DbClearWritten)). apply in_or_app. right. left. reflexivity.
Qed.

(* start-up releases nothing *)
Theorem start_releases_nothing : forall cfg sel op iin a s o, ostart cfg sel op iin a = (s, o) -> Forall nc o.
Proof. exact ostart_nc. Qed.

(* the CONFIRM with the awaited sequence number releases (solicited, last / not last fragment; unsolicited);
   a CONFIRM with another sequence number, or with the wrong UNS bit, does not *)
Example ex_release_only_on_awaited_confirm :
  Reach (ex_cfg false) ex_sw /\ Reach (ex_cfg false) ex_sw2 /\ Reach (ex_cfg true) ex_uw /\
  awaited_confirm (ex_cfg false) ex_sw (ex_confirm false 3) (ISolConfirmed 3) /\
  ex_out false ex_sw (ex_confirm false 3) [] = [OInfo (ISolConfirmed 3); ODb DbClearWritten] /\
  ex_out false ex_sw2 (ex_confirm false 3) [AWrite true true (ex_body 8); ev0]
  = [OInfo (ISolConfirmed 3); ODb DbClearWritten; ODb DbWrite; ODb DbEvinfo; OTx 1 [100; 129; 128; 0; 2; 1; 40; 1; 0; 8; 0; 129]] /\
  awaited_confirm (ex_cfg true) ex_uw (ex_confirm true 1) (IUnsolConfirmed 1) /\
  ex_out true ex_uw (ex_confirm true 1) [] = [OInfo (IUnsolConfirmed 1); ODb DbClearWritten] /\
  (forall i, ~ awaited_confirm (ex_cfg false) ex_sw (ex_confirm false 4) i) /\
  ex_out false ex_sw (ex_confirm false 4) [] = [OInfo (ISolWrongSeq 3 4)] /\
  ex_out false ex_sw (ex_confirm true 3) [] = [OInfo (IUnexpectedConfirm true 3)] /\
  ex_out true ex_uw (ex_confirm true 2) [] = [] /\ ex_out true ex_uw (ex_confirm false 1) [] = [].
Proof.
  split; [apply ex_run_reach|]. split; [apply ex_run_reach|]. split; [apply ex_run_reach|].
  split; [apply releasing_spec; vm_compute; reflexivity|]. split; [vm_compute; reflexivity|].
  split; [vm_compute; reflexivity|].
  split; [apply releasing_spec; vm_compute; reflexivity|]. split; [vm_compute; reflexivity|].
  split; [intros i Hi; apply releasing_spec in Hi; vm_compute in Hi; discriminate Hi|].
  vm_compute. repeat split.
Qed.

Example ex_start_releases_nothing :
  snd (ostart (ex_cfg true) 0 0 0 [ev0]) = [ODb DbEvinfo; OTx 1 [240; 130; 128; 0]; OInfo (IEnterUnsolWait 0)].
Proof. vm_compute. reflexivity. Qed.

(* ---------- 2. abandoned responses are reset ------------------------------------------------------------------ *)

(* THEOREM 2a.  Whenever a solicited confirm wait is given up because the time ran out (ISolTimeout) or because
   another request arrived (ISolNewRequest), the very next observation is the reset of the database: before any
   select, write or event-info call that follows in the step. *)
Theorem abandoned_solicited_wait_resets : forall cfg s ev ans s' out,
  Reach cfg s -> ostep cfg s ev ans = (s', out) -> abandon_reset out.
Proof.
  intros cfg s ev ans s' out HR H. apply reach_boundary_inv in HR. exact (ostep_abandon_reset cfg s ev ans s' out HR H).
Qed.

Lemma abandon_reset_split : forall pre i post,
  abandon_reset (pre ++ OInfo i :: post) -> is_abandon i = true -> exists post', post = ODb DbReset :: post'.
Proof.
  induction pre as [|x pre IH]; intros i post H Hi.
  - cbn in H. rewrite Hi in H. destruct post as [|[d b|[]| | | | | |] post']; try destruct H. eauto.
  - cbn [app abandon_reset] in H. destruct x as [d b|c|c|j| |t| |]; try (eapply IH; eauto; fail).
    destruct (is_abandon j).
    + destruct (pre ++ OInfo i :: post) as [|[d b|[]| | | | | |] l] eqn:El; try destruct H.
      rewrite <- El in H. eapply IH; eauto.
    + eapply IH; eauto.
Qed.

Corollary abandoned_solicited_wait_resets_at : forall cfg s ev ans s' pre i post,
  Reach cfg s -> ostep cfg s ev ans = (s', pre ++ OInfo i :: post) ->
  (exists q, i = ISolTimeout q) \/ i = ISolNewRequest ->
  exists post', post = ODb DbReset :: post'.
Proof.
  intros cfg s ev ans s' pre i post HR H Hi.
  apply abandoned_solicited_wait_resets in H; [|exact HR]. eapply abandon_reset_split; [exact H|].
  destruct Hi as [[q ->]| ->]; reflexivity.
Qed.

(* THEOREM 2b.  A disconnect resets first, whatever the session was doing. *)
Theorem disconnect_resets : forall cfg s ans s' out,
  ostep cfg s EDisconnect ans = (s', out) -> exists rest, out = ODb DbReset :: OSessionEnd :: rest.
Proof.
  intros cfg s ans s' out H. unfold ostep in H.
  match type of H with context [idle_loop 8 cfg ?a] => destruct (idle_loop 8 cfg a) as [s2 o2] end.
  destruct (advance 64 cfg s2 (s_now s2 + settle_ms)) as [s3 o3]. inv_pair H. eauto.
Qed.

(* THEOREMS 2c / 3.  A response that may carry events is outstanding in state s (`waiting`).  Then the output of
   the next step is EITHER made of observations `wq s` only (solicited wait: no call into the database at all;
   unsolicited wait: at most the event-info probe for the answer to a request that is not a READ) and the same
   response is still outstanding afterwards, OR it is such a prefix followed by clear_written_events or reset.
   No time-out, new request, cancellation (DISABLE_UNSOLICITED, unicast or broadcast) or disconnect ends the
   wait silently, and nothing is selected or written before the clear / reset. *)
Theorem outstanding_step : forall cfg s ev ans s' out,
  waiting s = true -> ostep cfg s ev ans = (s', out) -> wait_shape s out s'.
Proof. exact ostep_wait. Qed.

(* the same for time passing inside a step (deadlines fired by `advance`), e.g. after the step itself entered the wait *)
Theorem outstanding_time : forall cfg target f s s' o,
  waiting s = true -> advance f cfg s target = (s', o) -> wait_shape s o s'.
Proof. intros cfg target. exact (advance_wait cfg target). Qed.

(* THEOREM 3 in terms of the output alone: a select / write call in a step that starts with a response
   outstanding is preceded, in that step, by the clear or the reset that ended the wait *)
Theorem one_response_outstanding : forall cfg s ev ans s' pre c post,
  waiting s = true -> ostep cfg s ev ans = (s', pre ++ ODb c :: post) -> is_mark c = true ->
  exists e, is_end e = true /\ In (ODb e) pre.
Proof.
  intros cfg s ev ans s' pre c post Hw H Hc. apply ostep_wait in H; [|exact Hw].
  assert (Hnq : ~ wq s (ODb c)).
  { unfold wq. destruct (s_control s); destruct c; try discriminate Hc; intros []. }
  destruct H as [[Hq _]|(pre' & e & post' & Ho & He & Hq)].
  - exfalso. apply Hnq. rewrite Forall_forall in Hq. apply Hq. apply in_or_app. right. left. reflexivity.
  - apply split_compare in Ho. destruct Ho as [Hi|[[Hx _]|Hi]].
    + exfalso. apply Hnq. rewrite Forall_forall in Hq. apply Hq. exact Hi.
    + inversion Hx; subst. destruct e; discriminate.
    + exists e. split; assumption.
Qed.

(* THEOREM 2 in terms of the output alone: when the event is not the awaited CONFIRM, what precedes the next
   select / write call is the RESET (so the events of the abandoned response are offered again) *)
Theorem abandoned_response_reset_before_reuse : forall cfg s ev ans s' pre c post,
  Reach cfg s -> waiting s = true -> (forall i, ~ awaited_confirm cfg s ev i) ->
  ostep cfg s ev ans = (s', pre ++ ODb c :: post) -> is_mark c = true -> In (ODb DbReset) pre.
Proof.
  intros cfg s ev ans s' pre c post HR Hw Hn H Hc.
  destruct (one_response_outstanding _ _ _ _ _ _ _ _ Hw H Hc) as (e & He & Hi).
  destruct (release_only_on_awaited_confirm _ _ _ _ _ _ HR H) as [_ Hnc]. specialize (Hnc Hn).
  destruct e; try discriminate He; [|exact Hi].
  exfalso. rewrite Forall_forall in Hnc. apply (Hnc (ODb DbClearWritten)). apply in_or_app. left. exact Hi.
Qed.

(* the wait does not end silently *)
Theorem wait_persists : forall cfg s ev ans s' out,
  waiting s = true -> ostep cfg s ev ans = (s', out) ->
  ~ In (ODb DbClearWritten) out -> ~ In (ODb DbReset) out ->
  same_wait s s' /\ Forall (wq s) out.
Proof.
  intros cfg s ev ans s' out Hw H N1 N2. apply ostep_wait in H; [|exact Hw].
  destruct H as [[Hq Hs]|(pre & e & post & -> & He & _)]; [split; assumption|].
  exfalso. destruct e; try discriminate He; [apply N1|apply N2]; apply in_or_app; right; left; reflexivity.
Qed.

(* every way out of the two waits, on the concrete states: time-out, new request, disconnect (solicited);
   retry then time-out without retry, DISABLE_UNSOLICITED unicast and broadcast, disconnect (unsolicited);
   and the ways that do not end the wait *)
Example ex_abandoned_responses_are_reset :
  ex_out false ex_sw (ESleep 6000) [] = [OAt 5000; OInfo (ISolTimeout 3); ODb DbReset] /\
  ex_out false ex_sw (ex_req 4) [ev1]
  = [OInfo ISolNewRequest; ODb DbReset; OInfo (IIdleRequest 24 4); ODb DbEvinfo; OTx 1 [196; 129; 130; 0]] /\
  ex_out false ex_sw EDisconnect [] = [ODb DbReset; OSessionEnd] /\
  ex_out true ex_uw (ESleep 10000) []
  = [OAt 5002; OInfo (IUnsolTimeout 1 true); OTx 1 [241; 130; 128; 0; 2; 1; 40; 1; 0; 7; 0; 129];
     OAt 10002; OInfo (IUnsolTimeout 1 false); ODb DbReset] /\
  ex_out true ex_uw (ex_disable 2) [ev1] = [ODb DbEvinfo; OTx 1 [194; 129; 130; 0]; ODb DbReset] /\
  ex_out true ex_uw ex_disable_bc [] = [OInfo (IBroadcast 21 0 0); ODb DbReset] /\
  ex_out true ex_uw EDisconnect [ev0] = [ODb DbReset; OSessionEnd] /\
  ex_out true ex_uw (ex_req 2) [ev1] = [ODb DbEvinfo; OTx 1 [194; 129; 130; 0]] /\
  same_wait ex_uw (fst (ostep (ex_cfg true) ex_uw (ex_req 2) [ev1])) /\
  same_wait ex_uw (fst (ostep (ex_cfg true) ex_uw (ESleep 5000) [])) /\
  same_wait ex_sw (fst (ostep (ex_cfg false) ex_sw (ex_read 3) [])) /\
  abandon_reset (ex_out false ex_sw (ex_req 4) [ev1]).
Proof. vm_compute. repeat split; eauto. Qed.

Example ex_one_response_outstanding :
  wait_shape ex_sw (ex_out false ex_sw (ex_req 4) [ev1]) (fst (ostep (ex_cfg false) ex_sw (ex_req 4) [ev1])) /\
  (* the read that follows the abandoned series selects and writes after the reset *)
  ex_out false ex_sw (ex_read 4) (ex_read_ans true)
  = [OInfo ISolNewRequest; ODb DbReset; OInfo (IIdleRequest 1 4); ODb DbSelect; ODb DbWrite; ODb DbEvinfo;
     OTx 1 [228; 129; 128; 0; 2; 1; 40; 1; 0; 7; 0; 129]; OInfo (IEnterSolWait 4)] /\
  (* a READ during the unsolicited wait is deferred: nothing is selected or written *)
  ex_out true ex_uw (ex_read 4) (ex_read_ans true) = [] /\
  (* ... until the CONFIRM arrives: clear first, then the deferred READ *)
  ex_out true (fst (ostep (ex_cfg true) ex_uw (ex_read 4) [])) (ex_confirm true 1) (ex_read_ans true)
  = [OInfo (IUnsolConfirmed 1); ODb DbClearWritten; ODb DbDeferredSelect; ODb DbWrite; ODb DbEvinfo;
     OTx 1 [228; 129; 128; 0; 2; 1; 40; 1; 0; 7; 0; 129]; OInfo (IEnterSolWait 4)].
Proof.
  split; [apply (outstanding_step (ex_cfg false) ex_sw (ex_req 4) [ev1]); [vm_compute; reflexivity|apply surjective_pairing]|].
  vm_compute. repeat split.
Qed.
